(* C14 — number sets as they arrive on the wire: what the reader accepts, and what the accessors
   (NumberSetIter::next / next_back, is_empty, base) report for ARBITRARY bitmap words. *)
From Coq Require Import List ZArith Lia Bool Sorted.
From RD Require Import C15.Prim C15.PL C14.Wire C14.Model C14.NumSetProofs C14.Proofs.
Import ListNotations.
Open Scope Z_scope.

(* the shape of a set the reader hands out (and of every set a constructor makes): numBits >= 0 and
   at least the words numBits needs; nothing is assumed about the content of the words *)
Definition ns_shape (s : numset) : Prop :=
  0 <= ns_bits s /\ wcount (ns_bits s) <= len (ns_words s).
(* exactly what Readable for NumberSet guarantees *)
Definition ns_accepted (s : numset) : Prop :=
  0 <= ns_bits s <= 256 /\ len (ns_words s) = wcount (ns_bits s).

Lemma accepted_shape s : ns_accepted s -> ns_shape s.
Proof. unfold ns_accepted, ns_shape. lia. Qed.

Lemma raw_shapeb_spec k s : raw_shapeb k s = true <-> ns_accepted s.
Proof.
  unfold raw_shapeb, ns_accepted. rewrite !andb_true_iff, !Z.leb_le, Z.eqb_eq. tauto.
Qed.

(* ------------------------------------------------------------------------------------------ *)
(* bit access inside the window never leaves the bitmap *)
Lemma have_one_in s i :
  ns_shape s -> 0 <= i < ns_bits s -> have_one s i = Some (ns_bit (ns_words s) i).
Proof.
  intros [Hn Hl] Hi. unfold have_one, ns_bit.
  assert (L : (Z.to_nat (i / 32) < length (ns_words s))%nat).
  { apply Nat2Z.inj_lt. rewrite Z2Nat.id by (Z.div_mod_to_equations; lia).
    unfold len in Hl. unfold wcount in Hl. Z.div_mod_to_equations; lia. }
  rewrite (nth_error_nth' _ 0 L). reflexivity.
Qed.

(* ------------------------------------------------------------------------------------------ *)
(* the ascending member list of a sub-window *)
Lemma mb_nil s a r : r <= a -> members_between s a r = [].
Proof. intros H. unfold members_between. replace (Z.to_nat (r - a)) with 0%nat by lia. reflexivity. Qed.

Lemma mb_cons s a r :
  0 <= a < r ->
  members_between s a r =
  (if ns_bit (ns_words s) a then [a + ns_base s] else []) ++ members_between s (a + 1) r.
Proof.
  intros H. unfold members_between.
  replace (Z.to_nat (r - a)) with (S (Z.to_nat (r - (a + 1)))) by lia.
  cbn [seq map filter]. rewrite Z2Nat.id by lia.
  replace (S (Z.to_nat a)) with (Z.to_nat (a + 1)) by lia.
  destruct (ns_bit (ns_words s) a); reflexivity.
Qed.

Lemma mb_snoc s a r :
  0 <= a < r ->
  members_between s a r =
  members_between s a (r - 1) ++ (if ns_bit (ns_words s) (r - 1) then [r - 1 + ns_base s] else []).
Proof.
  intros H. unfold members_between.
  replace (Z.to_nat (r - a)) with (S (Z.to_nat (r - 1 - a))) by lia.
  rewrite seq_S, map_app, filter_app, map_app. f_equal.
  cbn [map filter].
  replace (Z.of_nat (Z.to_nat a + Z.to_nat (r - 1 - a))) with (r - 1) by lia.
  destruct (ns_bit (ns_words s) (r - 1)); reflexivity.
Qed.

Lemma filter_len_le {A} (f : A -> bool) l : (length (filter f l) <= length l)%nat.
Proof. induction l as [|x l IH]; cbn; [lia|]. destruct (f x); cbn; lia. Qed.

Lemma mb_length s a r : (length (members_between s a r) <= Z.to_nat (r - a))%nat.
Proof.
  unfold members_between. rewrite map_length.
  etransitivity; [apply filter_len_le|]. rewrite map_length, seq_length. lia.
Qed.

(* membership: exactly the set bits of the sub-window *)
Lemma mb_In s a r x :
  0 <= a ->
  (In x (members_between s a r) <->
   a + ns_base s <= x < r + ns_base s /\ ns_bit (ns_words s) (x - ns_base s) = true).
Proof.
  intros Ha. unfold members_between. rewrite in_map_iff. split.
  - intros (i & <- & Hi). apply filter_In in Hi as [Hi Hb]. apply in_map_iff in Hi as (n & <- & Hn).
    apply in_seq in Hn. replace (Z.of_nat n + ns_base s - ns_base s) with (Z.of_nat n) by lia.
    split; [lia|exact Hb].
  - intros [Hx Hb]. exists (x - ns_base s). split; [lia|]. apply filter_In. split; [|exact Hb].
    apply in_map_iff. exists (Z.to_nat (x - ns_base s)). split; [lia|]. apply in_seq. lia.
Qed.

(* strictly ascending *)
Lemma mb_sorted s a r : 0 <= a -> StronglySorted Z.lt (members_between s a r).
Proof.
  intros Ha. remember (Z.to_nat (r - a)) as d eqn:Hd. revert a Ha Hd.
  induction d as [|d IH]; intros a Ha Hd.
  - rewrite mb_nil by lia. constructor.
  - rewrite mb_cons by lia. destruct (ns_bit (ns_words s) a); cbn [app]; [|apply IH; lia].
    constructor; [apply IH; lia|]. apply Forall_forall. intros x Hx. apply mb_In in Hx; lia.
Qed.

(* ------------------------------------------------------------------------------------------ *)
(* one call of next(): the smallest remaining member, the rest stays *)
Lemma next_loop_spec k s : forall d a r,
  ns_shape s -> 0 <= a -> r <= ns_bits s -> d = Z.to_nat (r - a) ->
  match members_between s a r with
  | [] => it_next_loop k s d a r = IDone
  | x :: l =>
    if over k x then it_next_loop k s d a r = IPanicS
    else exists a', it_next_loop k s d a r = IYield x (IT a' r) /\ a < a' <= r /\
                    members_between s a' r = l
  end.
Proof.
  induction d as [|d IH]; intros a r Sh Ha Hr Hd.
  - rewrite mb_nil by lia. reflexivity.
  - rewrite mb_cons by lia. cbn [it_next_loop]. rewrite have_one_in by (auto; lia).
    destruct (ns_bit (ns_words s) a); cbn [app].
    + replace (a + 1 - 1) with a by lia. unfold over.
      destruct (n_hi k <? a + ns_base s); [reflexivity|].
      exists (a + 1). split; [reflexivity|]. split; [lia|reflexivity].
    + specialize (IH (a + 1) r Sh ltac:(lia) Hr ltac:(lia)).
      destruct (members_between s (a + 1) r) as [|x l]; [exact IH|].
      destruct (over k x); [exact IH|].
      destruct IH as (a' & E & B & M). exists a'. split; [exact E|]. split; [lia|exact M].
Qed.

(* one call of next_back(): the largest remaining member, the rest stays *)
Lemma back_loop_spec k s : forall d a r,
  ns_shape s -> 0 <= a -> r <= ns_bits s -> d = Z.to_nat (r - a) ->
  (members_between s a r = [] /\ it_back_loop k s d a r = IDone) \/
  (exists l x, members_between s a r = l ++ [x] /\
     if over k x then it_back_loop k s d a r = IPanicS
     else exists r', it_back_loop k s d a r = IYield x (IT a r') /\ a <= r' < r /\
                     members_between s a r' = l).
Proof.
  induction d as [|d IH]; intros a r Sh Ha Hr Hd.
  - left. rewrite mb_nil by lia. split; reflexivity.
  - rewrite mb_snoc by lia. cbn [it_back_loop]. rewrite have_one_in by (auto; lia).
    destruct (ns_bit (ns_words s) (r - 1)).
    + right. exists (members_between s a (r - 1)), (r - 1 + ns_base s). split; [reflexivity|].
      unfold over. destruct (n_hi k <? r - 1 + ns_base s); [reflexivity|].
      exists (r - 1). split; [reflexivity|]. split; [lia|reflexivity].
    + rewrite app_nil_r.
      destruct (IH a (r - 1) Sh Ha ltac:(lia) ltac:(lia)) as [[M E]|(l & x & M & E)].
      * left. split; assumption.
      * right. exists l, x. split; [exact M|]. destruct (over k x); [exact E|].
        destruct E as (r' & E & B & M'). exists r'. split; [exact E|]. split; [lia|exact M'].
Qed.

Lemma it_next_spec k s a r :
  ns_shape s -> 0 <= a -> r <= ns_bits s ->
  match members_between s a r with
  | [] => it_next k s (IT a r) = IDone
  | x :: l =>
    if over k x then it_next k s (IT a r) = IPanicS
    else exists a', it_next k s (IT a r) = IYield x (IT a' r) /\ a < a' <= r /\
                    members_between s a' r = l
  end.
Proof. intros. unfold it_next. cbn [it_at it_rev]. apply next_loop_spec; auto. Qed.

Lemma it_back_spec k s a r :
  ns_shape s -> 0 <= a -> r <= ns_bits s ->
  (members_between s a r = [] /\ it_next_back k s (IT a r) = IDone) \/
  (exists l x, members_between s a r = l ++ [x] /\
     if over k x then it_next_back k s (IT a r) = IPanicS
     else exists r', it_next_back k s (IT a r) = IYield x (IT a r') /\ a <= r' < r /\
                     members_between s a r' = l).
Proof. intros. unfold it_next_back. cbn [it_at it_rev]. apply back_loop_spec; auto. Qed.

(* ------------------------------------------------------------------------------------------ *)
(* the three consumers *)
Definition collected (k : nkind) (M out : list Z) : ires :=
  if existsb (over k) M then IPanic else IOk out.

Lemma icons_collected k x M out :
  over k x = false -> icons x (collected k M out) = collected k (x :: M) (x :: out).
Proof. intros O. unfold collected. cbn [existsb]. rewrite O. cbn [orb]. destruct (existsb _ M); reflexivity. Qed.

Lemma drain_fwd_spec k s : forall n a r,
  ns_shape s -> 0 <= a -> r <= ns_bits s -> (length (members_between s a r) <= n)%nat ->
  drain k s false n true (IT a r) = collected k (members_between s a r) (members_between s a r).
Proof.
  induction n as [|n IH]; intros a r Sh Ha Hr L; pose proof (it_next_spec k s a r Sh Ha Hr) as N;
    destruct (members_between s a r) as [|x l] eqn:M.
  - cbn [drain]. rewrite N. reflexivity.
  - cbn in L. lia.
  - cbn [drain]. rewrite N. reflexivity.
  - destruct (over k x) eqn:O.
    + cbn [drain]. rewrite N. unfold collected. cbn [existsb]. rewrite O. reflexivity.
    + destruct N as (a' & E & B & M'). cbn [drain]. rewrite E.
      rewrite IH by (auto; try lia; rewrite M'; cbn in L; lia). rewrite M'.
      apply icons_collected. exact O.
Qed.

Lemma existsb_snoc {A} (f : A -> bool) l x : existsb f (l ++ [x]) = existsb f l || f x.
Proof. rewrite existsb_app. cbn. now rewrite orb_false_r. Qed.

Lemma drain_bwd_spec k s : forall n a r,
  ns_shape s -> 0 <= a -> r <= ns_bits s -> (length (members_between s a r) <= n)%nat ->
  drain k s false n false (IT a r) = collected k (members_between s a r) (rev (members_between s a r)).
Proof.
  induction n as [|n IH]; intros a r Sh Ha Hr L;
    destruct (it_back_spec k s a r Sh Ha Hr) as [[M E]|(l & x & M & E)]; rewrite M in *.
  - cbn [drain]. rewrite E. reflexivity.
  - rewrite app_length in L. cbn in L. lia.
  - cbn [drain]. rewrite E. reflexivity.
  - unfold collected. rewrite existsb_snoc, rev_unit. destruct (over k x) eqn:O.
    + cbn [drain]. rewrite E, orb_true_r. reflexivity.
    + destruct E as (r' & E & B & M'). cbn [drain]. rewrite E, orb_false_r.
      rewrite IH by (auto; try lia; rewrite M'; rewrite app_length in L; cbn in L; lia).
      rewrite M'. unfold collected. destruct (existsb (over k) l); reflexivity.
Qed.

(* alternating from both ends: the numbers taken from the front, followed by the numbers taken
   from the back in reverse, are the ascending member list *)
Lemma drain_alt_spec k s : forall n front a r,
  ns_shape s -> 0 <= a -> r <= ns_bits s -> (length (members_between s a r) <= n)%nat ->
  match drain k s true n front (IT a r) with
  | IOk out => existsb (over k) (members_between s a r) = false /\
               fronts front out ++ rev (fronts (negb front) out) = members_between s a r
  | IPanic => existsb (over k) (members_between s a r) = true
  | IFuel => False
  end.
Proof.
  induction n as [|n IH]; intros front a r Sh Ha Hr L; destruct front.
  - pose proof (it_next_spec k s a r Sh Ha Hr) as N.
    destruct (members_between s a r) as [|x l]; [|cbn in L; lia].
    cbn [drain]. rewrite N. split; reflexivity.
  - destruct (it_back_spec k s a r Sh Ha Hr) as [[M E]|(l & x & M & E)]; rewrite M in *.
    + cbn [drain]. rewrite E. split; reflexivity.
    + rewrite app_length in L. cbn in L. lia.
  - pose proof (it_next_spec k s a r Sh Ha Hr) as N.
    destruct (members_between s a r) as [|x l] eqn:M.
    + cbn [drain]. rewrite N. split; reflexivity.
    + cbn [drain existsb]. destruct (over k x) eqn:O; [rewrite N; reflexivity|].
      destruct N as (a' & E & B & M'). rewrite E. cbn [negb orb].
      specialize (IH false a' r Sh ltac:(lia) Hr ltac:(rewrite M'; cbn in L; lia)).
      rewrite M' in IH. destruct (drain k s true n false (IT a' r)) as [out| |]; cbn [icons]; auto.
      destruct IH as [X F]. split; [exact X|]. cbn [fronts negb app] in *. now rewrite F.
  - destruct (it_back_spec k s a r Sh Ha Hr) as [[M E]|(l & x & M & E)]; rewrite M in *.
    + cbn [drain]. rewrite E. split; reflexivity.
    + cbn [drain]. rewrite existsb_snoc. destruct (over k x) eqn:O; [rewrite E; apply orb_true_r|].
      destruct E as (r' & E & B & M'). rewrite E, orb_false_r. cbn [negb].
      specialize (IH true a r' Sh Ha ltac:(lia) ltac:(rewrite M'; rewrite app_length in L; cbn in L; lia)).
      rewrite M' in IH. destruct (drain k s true n true (IT a r')) as [out| |]; cbn [icons]; auto.
      destruct IH as [X F]. split; [exact X|]. cbn [fronts negb rev] in *.
      rewrite app_assoc. now rewrite F.
Qed.

Lemma members_fuel s : (length (members s) <= ns_fuel s)%nat.
Proof. unfold members, ns_fuel. etransitivity; [apply mb_length|]. lia. Qed.

Theorem collect_spec k s :
  ns_shape s -> ns_collect k s = collected k (members s) (members s).
Proof.
  intros Sh. unfold ns_collect, ns_iter_start. apply drain_fwd_spec; auto; try lia. apply members_fuel.
Qed.
Theorem collect_rev_spec k s :
  ns_shape s -> ns_collect_rev k s = collected k (members s) (rev (members s)).
Proof.
  intros Sh. unfold ns_collect_rev, ns_iter_start. apply drain_bwd_spec; auto; try lia. apply members_fuel.
Qed.
Theorem collect_alt_spec k s :
  ns_shape s ->
  match ns_collect_alt k s with
  | IOk out => existsb (over k) (members s) = false /\
               fronts true out ++ rev (fronts false out) = members s
  | IPanic => existsb (over k) (members s) = true
  | IFuel => False
  end.
Proof.
  intros Sh. unfold ns_collect_alt, ns_iter_start.
  apply (drain_alt_spec k s (ns_fuel s) true 0 (ns_bits s)); auto; try lia. apply members_fuel.
Qed.

Theorem is_empty_spec k s :
  ns_shape s ->
  ns_is_empty k s =
  match members s with
  | [] => Some true
  | x :: _ => if over k x then None else Some false
  end.
Proof.
  intros Sh. unfold ns_is_empty, members. destruct (Z.eqb_spec (ns_bits s) 0) as [E|E].
  - rewrite mb_nil by lia. reflexivity.
  - pose proof (it_next_spec k s 0 (ns_bits s) Sh ltac:(lia) ltac:(lia)) as N. unfold ns_iter_start.
    destruct (members_between s 0 (ns_bits s)) as [|x l]; [now rewrite N|].
    destruct (over k x); [now rewrite N|]. destruct N as (a' & -> & _). reflexivity.
Qed.

(* ------------------------------------------------------------------------------------------ *)
(* the oracle's accessor clause holds for the model on every set of the right shape *)
Lemma zlist_eqb_refl l : zlist_eqb l l = true.
Proof. unfold zlist_eqb. destruct (bytes_eq_dec l l); [reflexivity|contradiction]. Qed.
Lemma zlist_eqb_eq a b : zlist_eqb a b = true <-> a = b.
Proof. unfold zlist_eqb. destruct (bytes_eq_dec a b); cbn; split; auto; discriminate. Qed.

Lemma collect_okb_collected k M want out :
  want out = true -> collect_okb k M want (collected k M out) = true.
Proof.
  intros W. unfold collected, collect_okb. destruct (existsb (over k) M) eqn:E; [reflexivity|].
  rewrite W. reflexivity.
Qed.

Lemma accessors_model_ok k s nrest :
  ns_shape s ->
  raw_accessors_okb k s
    (RR s nrest (ns_base_fn s) (ns_collect k s) (ns_collect_rev k s) (ns_collect_alt k s) (ns_is_empty k s)) = true.
Proof.
  intros Sh. unfold raw_accessors_okb.
  cbn [rr_base rr_fwd rr_bwd rr_alt rr_empty]. unfold ns_base_fn. rewrite Z.eqb_refl.
  rewrite collect_spec, collect_rev_spec, is_empty_spec by exact Sh.
  rewrite !collect_okb_collected by apply zlist_eqb_refl. cbn [andb].
  pose proof (collect_alt_spec k s Sh) as A.
  assert (X : collect_okb k (members s)
                (fun l => zlist_eqb (fronts true l ++ rev (fronts false l)) (members s))
                (ns_collect_alt k s) = true).
  { destruct (ns_collect_alt k s) as [out| |]; cbn [collect_okb]; [|exact A|contradiction].
    destruct A as [O F]. rewrite O, F, zlist_eqb_refl. reflexivity. }
  rewrite X. cbn [andb].
  destruct (members s) as [|x l]; [reflexivity|]. cbn [firstn existsb is_nil].
  destruct (over k x); reflexivity.
Qed.

(* ------------------------------------------------------------------------------------------ *)
(* the reader on the bytes the writer makes from arbitrary raw parts, followed by arbitrary bytes *)
Lemma le_val_le_bytes k n : le_val (le_bytes k n) = n mod 256 ^ Z.of_nat k.
Proof.
  revert n; induction k as [|k IH]; intros n.
  - cbn. now rewrite Z.mod_1_r.
  - cbn [le_bytes le_val]. rewrite IH, Nat2Z.inj_succ, Z.pow_succ_r by lia.
    rewrite Z.rem_mul_r; [reflexivity|lia|]. apply Z.pow_pos_nonneg; lia.
Qed.

Lemma dec_enc_uint_any k e n rest :
  dec_uint k e (enc_uint k e n ++ rest) = Some (n mod 256 ^ Z.of_nat k, rest).
Proof.
  unfold dec_uint. rewrite take_app_n by (now rewrite enc_uint_length).
  destruct e; cbn [enc_uint]; rewrite ?rev_involutive, le_val_le_bytes; reflexivity.
Qed.

Lemma dec_enc_u32_any e n rest : dec_u32 e (enc_u32 e n ++ rest) = Some (n mod 4294967296, rest).
Proof. unfold dec_u32, enc_u32. rewrite dec_enc_uint_any. reflexivity. Qed.

Lemma dec_enc_num_any k e b rest : exists v, dec_num k e (enc_num k e b ++ rest) = Some (v, rest).
Proof.
  destruct k; cbn [dec_num enc_num].
  - unfold dec_sn, enc_sn, dec_i32, enc_i32, bind. rewrite <- app_assoc.
    rewrite dec_enc_uint_any. unfold ret. rewrite dec_enc_u32_any. eexists. reflexivity.
  - rewrite dec_enc_u32_any. eexists. reflexivity.
Qed.

Lemma dec_n_length {A} (r : reader A) : forall m bs out rest,
  dec_n m r bs = Some (out, rest) -> length out = m.
Proof.
  induction m as [|m IH]; intros bs out rest H; cbn [dec_n] in H; unfold bind, ret in H.
  - inversion H. reflexivity.
  - destruct (r bs) as [[x bs']|]; [|discriminate].
    destruct (dec_n m r bs') as [[xs bs'']|] eqn:E; [|discriminate].
    inversion H; subst. cbn. f_equal. eapply IH. exact E.
Qed.

(* whatever parts the writer is given and whatever follows: a set the reader accepts has
   0 <= numBits <= 256 and exactly the words numBits needs *)
Lemma dec_ns_raw_accepted k e base bits words extra s rest :
  dec_ns k e (enc_ns k e (NS base bits words) ++ extra) = Some (s, rest) -> ns_accepted s.
Proof.
  unfold dec_ns, enc_ns, bind. cbn [ns_base ns_bits ns_words]. rewrite <- !app_assoc.
  destruct (dec_enc_num_any k e base
              (enc_u32 e bits ++ flat_map (enc_u32 e)
                 (firstn (Z.to_nat (Z.min (wcount bits) (Z.of_nat (length words)))) words) ++ extra))
    as (v & ->).
  rewrite dec_enc_u32_any. set (n := bits mod 4294967296).
  assert (Hn : 0 <= n < 4294967296) by (apply Z.mod_pos_bound; lia).
  destruct (Z.ltb_spec 256 n) as [L|L]; [discriminate|].
  destruct (dec_n _ _ _) as [[ws rest']|] eqn:E; [|discriminate].
  unfold ret. intros H. inversion H; subst. apply dec_n_length in E.
  unfold ns_accepted, len. cbn [ns_bits ns_words]. split; [lia|].
  rewrite E, Z2Nat.id; [reflexivity|]. apply wcount_nonneg. lia.
Qed.

Lemma Forall_firstn_ {A} (P : A -> Prop) l : forall n, Forall P l -> Forall P (firstn n l).
Proof.
  induction l as [|x l IH]; intros [|n] H; cbn; try constructor; inversion H; subst; auto.
Qed.

Definition raw_inrange (k : nkind) (base bits : Z) (words extra : list Z) : Prop :=
  num_ok k base /\ u32_ok bits /\ Forall u32_ok words /\ Forall u8_ok extra.

Lemma rangeb_iff lo hi x : rangeb lo hi x = true <-> lo <= x < hi.
Proof. unfold rangeb. rewrite andb_true_iff, Z.leb_le, Z.ltb_lt. tauto. Qed.
Lemma forallb_Forall_iff {A} (f : A -> bool) (P : A -> Prop) l :
  (forall x, f x = true <-> P x) -> (forallb f l = true <-> Forall P l).
Proof.
  intros H. rewrite forallb_forall, Forall_forall. split; intros F x Hx; apply H, F, Hx.
Qed.

Lemma raw_inrangeb_spec k base bits words extra :
  raw_inrangeb k base bits words extra = true <-> raw_inrange k base bits words extra.
Proof.
  unfold raw_inrangeb, raw_inrange, num_okb, num_ok, u32b, byteb.
  rewrite !andb_true_iff, !Z.leb_le, rangeb_iff.
  rewrite (forallb_Forall_iff _ u32_ok words) by (intros; apply rangeb_iff).
  rewrite (forallb_Forall_iff _ u8_ok extra) by (intros; apply rangeb_iff).
  unfold u32_ok. tauto.
Qed.

(* in-range parts with all the words present: accepted iff numBits <= 256; base, numBits and the
   words numBits needs come back, what follows is untouched *)
Lemma raw_accept k e base bits words extra :
  raw_inrange k base bits words extra -> bits <= 256 -> wcount bits <= len words ->
  dec_ns k e (enc_ns k e (NS base bits words) ++ extra) =
  Some (NS base bits (firstn (Z.to_nat (wcount bits)) words), extra).
Proof.
  intros (Hb & Hn & Hw & _) L W. unfold u32_ok in Hn. unfold len in W.
  pose proof (wcount_nonneg bits ltac:(lia)) as WN.
  set (s' := NS base bits (firstn (Z.to_nat (wcount bits)) words)).
  assert (E : enc_ns k e (NS base bits words) = enc_ns k e s').
  { unfold enc_ns, s'. cbn [ns_base ns_bits ns_words]. do 3 f_equal.
    rewrite firstn_length_le by lia. rewrite Z2Nat.id by lia.
    rewrite Z.min_id, Z.min_l by lia. rewrite firstn_firstn, Nat.min_id. reflexivity. }
  rewrite E. apply ns_roundtrip. unfold ns_wf, s'. cbn [ns_base ns_bits ns_words].
  split; [exact Hb|]. split; [lia|]. split; [rewrite firstn_length_le by lia; lia|].
  apply Forall_firstn_. exact Hw.
Qed.

Lemma raw_reject k e base bits words extra :
  raw_inrange k base bits words extra -> 256 < bits ->
  dec_ns k e (enc_ns k e (NS base bits words) ++ extra) = None.
Proof.
  intros (Hb & Hn & Hw & _) L. unfold dec_ns, enc_ns, bind. cbn [ns_base ns_bits ns_words].
  rewrite <- !app_assoc. rewrite dec_enc_num by exact Hb. rewrite dec_enc_u32 by exact Hn.
  destruct (Z.ltb_spec 256 bits); [reflexivity|lia].
Qed.

Lemma dec_n_prefix e extra : forall ws0 m out rest,
  Forall u32_ok ws0 -> (length ws0 <= m)%nat ->
  dec_n m (dec_u32 e) (flat_map (enc_u32 e) ws0 ++ extra) = Some (out, rest) ->
  firstn (length ws0) out = ws0.
Proof.
  induction ws0 as [|w ws0 IH]; intros m out rest F L H; [reflexivity|].
  destruct m as [|m]; [cbn in L; lia|]. inversion F as [|? ? Fw F']; subst.
  cbn [flat_map dec_n] in H. unfold bind in H. rewrite <- app_assoc in H.
  rewrite dec_enc_u32 in H by exact Fw.
  destruct (dec_n m (dec_u32 e) _) as [[xs r']|] eqn:E; [|discriminate].
  unfold ret in H. inversion H; subst. cbn [length firstn]. f_equal.
  cbn [length] in L. apply (IH m xs rest F' ltac:(lia) E).
Qed.

(* in-range parts, any number of words: whatever the reader accepts has the base and numBits that
   were written (numBits <= 256) and starts with the words that were written *)
Lemma raw_parts k e base bits words extra s rest :
  raw_inrange k base bits words extra ->
  dec_ns k e (enc_ns k e (NS base bits words) ++ extra) = Some (s, rest) ->
  ns_base s = base /\ ns_bits s = bits /\ bits <= 256 /\
  let n := Z.to_nat (Z.min (wcount bits) (len words)) in firstn n (ns_words s) = firstn n words.
Proof.
  intros (Hb & Hn & Hw & _). unfold dec_ns, enc_ns, bind. cbn [ns_base ns_bits ns_words].
  rewrite <- !app_assoc. rewrite dec_enc_num by exact Hb. rewrite dec_enc_u32 by exact Hn.
  destruct (Z.ltb_spec 256 bits) as [L|L]; [discriminate|].
  fold (len words). set (n := Z.to_nat (Z.min (wcount bits) (len words))).
  destruct (dec_n _ _ _) as [[ws r']|] eqn:E; [|discriminate].
  unfold ret. intros H. inversion H; subst. cbn [ns_base ns_bits ns_words].
  split; [reflexivity|]. split; [reflexivity|]. split; [exact L|].
  assert (Ln : length (firstn n words) = n).
  { apply firstn_length_le. unfold n, len. lia. }
  rewrite <- Ln at 1.
  apply (dec_n_prefix e extra (firstn n words) (Z.to_nat (wcount bits)) ws rest (Forall_firstn_ _ _ n Hw));
    [rewrite Ln; unfold n; lia|exact E].
Qed.

Lemma raw_parts_model_ok k e base bits words extra s rest :
  raw_inrangeb k base bits words extra = true ->
  dec_ns k e (enc_ns k e (NS base bits words) ++ extra) = Some (s, rest) ->
  raw_parts_okb base bits words extra s (len rest) = true.
Proof.
  intros R D. apply raw_inrangeb_spec in R.
  destruct (raw_parts _ _ _ _ _ _ _ _ R D) as (A & B & C & F). unfold raw_parts_okb.
  rewrite A, B, !Z.eqb_refl. cbn [andb]. cbv zeta in F. rewrite F, zlist_eqb_refl. cbn [andb].
  destruct (Z.leb_spec (wcount bits) (len words)) as [W|W]; [|reflexivity].
  rewrite (raw_accept k e base bits words extra R C W) in D. inversion D; subst. apply Z.eqb_refl.
Qed.

(* the model satisfies the oracle on every raw case *)
Lemma raw_model_ok k e base bits words extra :
  ok (CNumRaw k e base bits words extra) (run (CNumRaw k e base bits words extra)) = true.
Proof.
  cbn [run ok]. destruct (dec_ns k e _) as [[s rest]|] eqn:D.
  - cbn [rr_set rr_rest].
    pose proof (dec_ns_raw_accepted _ _ _ _ _ _ _ _ D) as Acc.
    rewrite (proj2 (raw_shapeb_spec k s) Acc). cbn [andb].
    rewrite accessors_model_ok by (apply accepted_shape; exact Acc). rewrite andb_true_r.
    destruct (raw_inrangeb k base bits words extra) eqn:R; [|reflexivity].
    eapply raw_parts_model_ok; eauto.
  - apply negb_true_iff. destruct (raw_inrangeb k base bits words extra) eqn:R; [|reflexivity].
    cbn [andb]. destruct (Z.leb_spec bits 256) as [L|L]; [|reflexivity].
    destruct (Z.leb_spec (wcount bits) (len words)) as [W|W]; [|reflexivity].
    apply raw_inrangeb_spec in R. rewrite (raw_accept k e base bits words extra R L W) in D. discriminate.
Qed.

(* ------------------------------------------------------------------------------------------ *)
(* the property statements in Prop form *)
Lemma members_In s x :
  In x (members s) <->
  ns_base s <= x < ns_base s + ns_bits s /\ ns_bit (ns_words s) (x - ns_base s) = true.
Proof. unfold members. rewrite mb_In by lia. intuition lia. Qed.

Lemma members_sorted s : StronglySorted Z.lt (members s).
Proof. apply mb_sorted. lia. Qed.

Lemma members_nil_iff s :
  members s = [] <-> forall i, 0 <= i < ns_bits s -> ns_bit (ns_words s) i = false.
Proof.
  split.
  - intros E i Hi. destruct (ns_bit (ns_words s) i) eqn:B; [|reflexivity].
    assert (X : In (i + ns_base s) (members s)).
    { apply members_In. replace (i + ns_base s - ns_base s) with i by lia. split; [lia|exact B]. }
    rewrite E in X. contradiction.
  - intros H. destruct (members s) as [|x l] eqn:E; [reflexivity|].
    assert (X : In x (members s)) by (rewrite E; left; reflexivity).
    apply members_In in X as [W B]. rewrite H in B by lia. discriminate.
Qed.

Lemma collected_ok k M out l : collected k M out = IOk l -> l = out /\ existsb (over k) M = false.
Proof. unfold collected. destruct (existsb (over k) M); [discriminate|]. intros H; inversion H; auto. Qed.

Lemma over_exists k M : existsb (over k) M = true <-> exists m, In m M /\ n_hi k < m.
Proof.
  rewrite existsb_exists. unfold over. split; intros (m & A & B); exists m; split; auto;
    [apply Z.ltb_lt in B|apply Z.ltb_lt]; exact B.
Qed.

Theorem numset_iter_window k s l :
  ns_shape s -> ns_collect k s = IOk l ->
  forall m, In m l -> ns_base s <= m < ns_base s + ns_bits s.
Proof.
  intros Sh E m Hm. rewrite collect_spec in E by exact Sh. apply collected_ok in E as [-> _].
  apply members_In in Hm. tauto.
Qed.

Theorem numset_iter_exact k s l :
  ns_shape s -> ns_collect k s = IOk l ->
  StronglySorted Z.lt l /\
  forall m, In m l <->
            ns_base s <= m < ns_base s + ns_bits s /\ ns_bit (ns_words s) (m - ns_base s) = true.
Proof.
  intros Sh E. rewrite collect_spec in E by exact Sh. apply collected_ok in E as [-> _].
  split; [apply members_sorted|apply members_In].
Qed.

Theorem numset_iter_rev k s :
  ns_shape s ->
  ns_collect_rev k s = match ns_collect k s with IOk l => IOk (rev l) | r => r end.
Proof.
  intros Sh. rewrite collect_spec, collect_rev_spec by exact Sh. unfold collected.
  destruct (existsb (over k) (members s)); reflexivity.
Qed.

Theorem numset_is_empty k s b :
  ns_shape s -> ns_is_empty k s = Some b ->
  (b = true <-> forall i, 0 <= i < ns_bits s -> ns_bit (ns_words s) i = false).
Proof.
  intros Sh E. rewrite is_empty_spec in E by exact Sh. rewrite <- members_nil_iff.
  destruct (members s) as [|x l].
  - inversion E. split; auto.
  - destruct (over k x); [discriminate|]. inversion E. split; discriminate.
Qed.

(* when the accessors answer at all: a panic needs a member above the maximum of the number type,
   which a window inside the type excludes; the model's fuel never runs out *)
Theorem numset_iter_total k s :
  ns_shape s ->
  ns_collect k s <> IFuel /\ ns_collect_rev k s <> IFuel /\ ns_collect_alt k s <> IFuel /\
  (ns_collect k s = IPanic <-> exists m, In m (members s) /\ n_hi k < m) /\
  (ns_collect_alt k s = IPanic <-> exists m, In m (members s) /\ n_hi k < m) /\
  (ns_is_empty k s = None -> exists m, In m (members s) /\ n_hi k < m) /\
  (ns_bits s = 0 \/ ns_base s + ns_bits s - 1 <= n_hi k ->
   exists l b, ns_collect k s = IOk l /\ ns_collect_rev k s = IOk (rev l) /\ ns_is_empty k s = Some b).
Proof.
  intros Sh. pose proof (collect_alt_spec k s Sh) as A.
  rewrite collect_spec, collect_rev_spec, is_empty_spec by exact Sh. unfold collected.
  rewrite <- over_exists.
  split; [destruct (existsb _ _); discriminate|].
  split; [destruct (existsb _ _); discriminate|].
  split; [intros E; rewrite E in A; exact A|].
  split; [destruct (existsb _ _); split; auto; discriminate|].
  split.
  { destruct (ns_collect_alt k s); split; auto; try discriminate; try contradiction.
    intros E. destruct A as [A _]. congruence. }
  split.
  { destruct (members s) as [|x l]; [discriminate|]. cbn [existsb]. destruct (over k x); [reflexivity|discriminate]. }
  intros W.
  assert (O : existsb (over k) (members s) = false).
  { apply not_true_iff_false. intros O. apply over_exists in O as (m & Hm & L).
    apply members_In in Hm. lia. }
  rewrite O. exists (members s). destruct (members s) as [|x l]; [eexists; eauto|].
  cbn [existsb] in O. apply orb_false_iff in O as [-> _]. eexists; eauto.
Qed.

(* alternating from both ends visits every member exactly once: the numbers taken by next(),
   followed by the numbers taken by next_back() in reverse, are what iter() yields forwards *)
Theorem numset_iter_alt k s out :
  ns_shape s -> ns_collect_alt k s = IOk out ->
  ns_collect k s = IOk (fronts true out ++ rev (fronts false out)).
Proof.
  intros Sh E. pose proof (collect_alt_spec k s Sh) as A. rewrite E in A. destruct A as [O F].
  rewrite collect_spec by exact Sh. unfold collected. rewrite O, F. reflexivity.
Qed.

(* non-vacuity and the shape of the seeded regression's input: numBits = 25, members 10..20 and
   all seven padding bits set; nothing of the padding shows *)
Example raw_dirty_padding :
  let s := NS 10 25 [4292870271] in
  ns_accepted s /\ ns_collect KSN s = IOk [10; 11; 12; 13; 14; 15; 16; 17; 18; 19; 20] /\
  ns_collect_rev KSN s = IOk [20; 19; 18; 17; 16; 15; 14; 13; 12; 11; 10] /\
  ns_is_empty KSN s = Some false /\
  ns_is_empty KFN (NS 1000 5 [134217727]) = Some true /\ ns_collect KFN (NS 1000 5 [134217727]) = IOk [].
Proof. vm_compute. repeat split; try reflexivity; discriminate. Qed.
