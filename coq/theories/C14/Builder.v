(* C14 — the image of MessageBuilder / create_submessage lies inside `built` *)
From Coq Require Import List ZArith Lia Bool.
From RD Require Import C15.Prim C15.PL C15.Qos C15.Disc C14.Wire C14.Model C14.NumSetProofs C14.Proofs.
Import ListNotations.
Open Scope Z_scope.

(* everything the builder pushes has the shape mk_sub f b *)
Lemma mk_sub_built f b :
  0 <= f -> Z.land f (fmask (kind_of_body b)) = f -> built_bodyb f b = true ->
  len_serialized b < 65536 -> built_sub (mk_sub f b).
Proof.
  intros Hf Hm Hb Hl. unfold built_sub, built_subb, mk_sub. cbn [sm_kind sm_flags sm_len sm_bflags sm_body].
  pose proof (len_serialized_ok LE f b Hb) as E. pose proof (len_nonneg (enc_body LE b)) as N.
  unfold u16trunc. rewrite Z.mod_small by lia.
  rewrite !Z.eqb_refl, Hm, Z.eqb_refl, Hb.
  destruct (Z.leb_spec 0 f); [|lia]. destruct (Z.ltb_spec (len_serialized b) 65536); [|lia]. reflexivity.
Qed.

Lemma rangeb_intro lo hi x : lo <= x < hi -> rangeb lo hi x = true.
Proof. intros H. unfold rangeb. apply andb_true_iff. split; [apply Z.leb_le|apply Z.ltb_lt]; lia. Qed.
Lemma lenb_intro n l : len l = n -> lenb n l = true.
Proof. apply Z.eqb_eq. Qed.

(* input conditions: what the Rust types of the arguments guarantee *)
Definition dd_ok (d : ddsdata) : Prop :=
  match d with DDisposeByKeyHash h => len h = 16 | _ => True end.
Definition rsi_ok (r : option (list Z * Z)) : Prop :=
  match r with Some (g, _) => len g = 16 | None => True end.

Lemma rsi_params_ok e rsi : rsi_ok rsi -> forallb param_okb (rsi_params e rsi) = true.
Proof.
  destruct rsi as [[g s]|]; [|reflexivity]. cbn [rsi_ok rsi_params]. intros G.
  assert (L : len (g ++ enc_sn e s) = 24) by (rewrite len_app, enc_sn_len; lia).
  cbn [forallb]. unfold param_okb. cbn [fst snd]. rewrite L. reflexivity.
Qed.

Theorem data_msg_built e d sn rsi rd wr :
  len rd = 4 -> len wr = 4 -> i64_ok sn -> dd_ok d -> rsi_ok rsi ->
  len_serialized (sm_body (build_data e d sn rsi rd wr)) < 65536 ->
  built_sub (build_data e d sn rsi rd wr).
Proof.
  intros Hr Hw Hs Hd Hq. unfold build_data. intros HL. cbn [sm_body mk_sub] in HL. apply mk_sub_built.
  - destruct e, d, rsi as [[g s]|]; cbn; lia.
  - destruct e, d, rsi as [[g s]|]; reflexivity.
  - destruct e, d as [sp|sp|h], rsi as [[g s]|]; cbn [dd_ok rsi_ok] in *;
      cbn [built_bodyb app rsi_params is_nil negb E_flag oparams_okb forallb is_some];
      unfold i64b, i32b, u32b, u16b;
      rewrite (lenb_intro 4 rd Hr), (lenb_intro 4 wr Hw), (rangeb_intro _ _ sn Hs);
      unfold param_okb; cbn [fst snd status_info_param];
      rewrite ?len_app, ?enc_sn_len, ?Hd, ?Hq; reflexivity.
  - exact HL.
Qed.

Theorem data_frag_msg_built e d sn rsi rd wr fnum fsize ssize s :
  len rd = 4 -> len wr = 4 -> i64_ok sn -> 1 <= sn -> rsi_ok rsi ->
  u32_ok fnum -> u16_ok fsize -> u32_ok ssize ->
  (* the validity conditions of RTPS 8.3.8.3.3 that the reader enforces; Writer::data_frag_msg is
     called with 1 <= fragment_number <= number of fragments and fragment_size <= sample size *)
  1 <= fsize <= ssize -> 1 <= fnum <= total_frags ssize fsize ->
  build_datafrag e d sn rsi rd wr fnum fsize ssize = Some (Some s) ->
  len_serialized (sm_body s) < 65536 ->
  built_sub s.
Proof.
  intros Hr Hw Hs Hs1 Hq Hfn Hfs Hss Hv1 Hv2. unfold build_datafrag.
  destruct d as [sp|sp|h]; [| |discriminate];
    (destruct (Z.ltb_spec fnum 1); [lia|]); intros E; inversion E; subst s; clear E;
    cbn [sm_body mk_sub]; intros HL; apply mk_sub_built; try exact HL.
  1,4: destruct e, rsi as [[g s]|]; cbn; lia.
  1,3: destruct e, rsi as [[g s]|]; reflexivity.
  all: destruct e, rsi as [[g s]|]; cbn [rsi_ok] in *;
    cbn [built_bodyb rsi_params is_nil negb E_flag oparams_okb forallb is_some];
    unfold i64b, i32b, u32b, u16b;
    rewrite (lenb_intro 4 rd Hr), (lenb_intro 4 wr Hw), (rangeb_intro _ _ sn Hs),
      (rangeb_intro _ _ fnum Hfn), (rangeb_intro _ _ fsize Hfs), (rangeb_intro _ _ ssize Hss);
    rewrite (rangeb_intro 0 65536 1 ltac:(lia));
    unfold param_okb; cbn [fst snd];
    rewrite ?len_app, ?enc_sn_len, ?Hq;
    repeat match goal with
           | |- context [?a <=? ?b] =>
             lazymatch a with
             | Z0 => fail | Zpos _ => lazymatch b with Zpos _ => fail | _ => idtac end | _ => idtac
             end;
             replace (a <=? b) with true by (symmetry; apply Z.leb_le; lia)
           end; reflexivity.
Qed.

Theorem heartbeat_msg_built e wr first last count rd fin liv :
  len rd = 4 -> len wr = 4 -> i64_ok first -> i64_ok last -> i32_ok count ->
  forall s, build_op (OpHeartbeat e wr first last count rd fin liv) = Some (Some s) -> built_sub s.
Proof.
  intros Hr Hw H1 H2 H3 s E. cbn [build_op] in E. inversion E; subst s; clear E. apply mk_sub_built.
  - destruct e, fin, liv; cbn; lia.
  - destruct e, fin, liv; reflexivity.
  - cbn [built_bodyb]. unfold i64b, i32b.
    rewrite (lenb_intro 4 rd Hr), (lenb_intro 4 wr Hw), (rangeb_intro _ _ first H1),
      (rangeb_intro _ _ last H2), (rangeb_intro _ _ count H3). reflexivity.
  - cbn [len_serialized]. unfold enc_body, enc_body_gen.
    rewrite !len_app, !enc_sn_len, enc_i32_len, Hr, Hw. lia.
Qed.

Theorem dst_ts_built e :
  (forall p s, len p = 12 -> build_op (OpDst e p) = Some (Some s) -> built_sub s) /\
  (forall ts s, match ts with Some (a, b) => u32_ok a /\ u32_ok b | None => True end ->
                build_op (OpTs e ts) = Some (Some s) -> built_sub s).
Proof.
  split.
  - intros p s Hp E. cbn [build_op] in E. inversion E; subst s; clear E. apply mk_sub_built.
    + destruct e; cbn; lia.
    + destruct e; reflexivity.
    + cbn [built_bodyb]. apply lenb_intro. exact Hp.
    + cbn. lia.
  - intros ts s Ht E. cbn [build_op] in E. inversion E; subst s; clear E. apply mk_sub_built.
    + destruct e, ts; cbn; lia.
    + destruct e, ts; reflexivity.
    + destruct ts as [[a b]|]; cbn [built_bodyb is_some negb].
      * destruct Ht as [A B]. unfold u32b. rewrite (rangeb_intro _ _ a A), (rangeb_intro _ _ b B).
        destruct e; reflexivity.
      * destruct e; reflexivity.
    + destruct ts as [[a b]|]; cbn; lia.
Qed.

Theorem gap_before_built e sn wr rd s :
  len rd = 4 -> len wr = 4 -> i64_ok sn ->
  build_op (OpGapBefore e sn wr rd) = Some (Some s) -> built_sub s.
Proof.
  intros Hr Hw Hs E. cbn [build_op] in E. inversion E; subst s; clear E. apply mk_sub_built.
  - destruct e; cbn; lia.
  - destruct e; reflexivity.
  - cbn [built_bodyb]. rewrite (lenb_intro 4 rd Hr), (lenb_intro 4 wr Hw).
    unfold i64b. rewrite (rangeb_intro (-9223372036854775808) 9223372036854775808 1 ltac:(lia)). cbn [andb].
    unfold ns_wfb, ns_new, i64_ok in *. cbn [ns_base ns_bits ns_words n_lo n_hi].
    destruct (Z.leb_spec (-9223372036854775808) sn); [|lia].
    destruct (Z.leb_spec sn 9223372036854775807); [|lia]. reflexivity.
  - cbn [len_serialized]. unfold enc_body, enc_body_gen.
    rewrite !len_app, enc_sn_len, Hr, Hw. cbn. lia.
Qed.

(* ---- gap_msg ---- *)
Lemma run_end_bounds l : forall cur r,
  run_end cur l = Some r ->
  cur + 1 <= r /\ forall M, cur <= M -> Forall (fun y => y <= M) l -> r <= M + 1.
Proof.
  induction l as [|y l IH]; intros cur r; cbn [run_end];
    destruct (Z.leb_spec (n_hi KSN) cur); try discriminate.
  - intros E. inversion E; subst. split; [lia|]. intros M HM _. lia.
  - destruct (Z.eqb_spec y (cur + 1)) as [->|N].
    + intros E. apply IH in E as [A B]. split; [lia|]. intros M HM F.
      apply Forall_cons_iff in F as [F1 F2]. apply B; assumption.
    + intros E. inversion E; subst. split; [lia|]. intros M HM _. lia.
Qed.

Lemma fold_min_ge b r : forall x, b <= x -> Forall (fun y => b <= y) r -> b <= fold_left Z.min r x.
Proof.
  induction r as [|y r IH]; intros x Hx F; cbn [fold_left]; [exact Hx|].
  apply Forall_cons_iff in F as [F1 F2]. apply IH; [lia|exact F2].
Qed.

Lemma ns_wfb_intro k s : ns_wf k s -> ns_wfb k s = true.
Proof.
  intros ((A1 & A2) & (B1 & B2) & C & D). unfold ns_wfb.
  repeat (apply andb_true_iff; split); try (apply Z.leb_le; assumption).
  - apply Z.eqb_eq. exact C.
  - apply forallb_forall. intros x Hx. rewrite Forall_forall in D. apply rangeb_intro. apply D. exact Hx.
Qed.

Definition MAX_ACCEPTED_SN : Z := 9223372036854775807 - 65536.

Theorem gap_msg_built e sns wr rd s :
  len rd = 4 -> len wr = 4 -> Forall (fun x => 1 <= x <= MAX_ACCEPTED_SN) sns ->
  build_gap e sns wr rd = Some (Some s) -> built_sub s.
Proof.
  intros Hr Hw F. unfold build_gap. destruct sns as [|g0 r]; [discriminate|].
  destruct (run_end g0 r) as [lb|] eqn:R; [|discriminate].
  set (S' := filter (fun s0 => lb <=? s0) (g0 :: r)).
  destruct (ns_from_base_and_set KSN lb S') as [gl|] eqn:G; [|discriminate].
  intros E. inversion E; subst s; clear E.
  apply Forall_cons_iff in F as [F0 Fr]. unfold MAX_ACCEPTED_SN in *.
  destruct (run_end_bounds r g0 lb R) as [L1 L2].
  specialize (L2 (9223372036854775807 - 65536) ltac:(lia)
                 ltac:(eapply Forall_impl; [|exact Fr]; cbv beta; intros; lia)).
  assert (W : ns_wf KSN gl).
  { destruct S' as [|x0 r'] eqn:ES.
    - cbn in G. inversion G; subst. apply ns_new_wf; [unfold num_ok; cbn; lia|lia].
    - assert (FS : Forall (fun y => lb <= y) (x0 :: r')).
      { rewrite <- ES. apply Forall_forall. intros y Hy. apply filter_In in Hy as [_ Hy].
        apply Z.leb_le. exact Hy. }
      apply Forall_cons_iff in FS as [FS0 FSr].
      assert (AB : adj_base lb (x0 :: r') = lb).
      { unfold adj_base, set_min. pose proof (fold_min_ge lb r' x0 FS0 FSr).
        destruct (Z.ltb_spec (fold_left Z.min r' x0) lb); [lia|reflexivity]. }
      destruct (numset_window KSN lb (x0 :: r') ltac:(discriminate)
                  ltac:(rewrite AB; lia) ltac:(rewrite AB; cbn; lia)) as (s' & l & E1 & _ & W' & _).
      rewrite G in E1. inversion E1; subst. exact W'. }
  apply mk_sub_built.
  - destruct e; cbn; lia.
  - destruct e; reflexivity.
  - cbn [built_bodyb]. rewrite (lenb_intro 4 rd Hr), (lenb_intro 4 wr Hw), (ns_wfb_intro _ _ W).
    unfold i64b. rewrite (rangeb_intro (-9223372036854775808) 9223372036854775808 g0 ltac:(lia)). reflexivity.
  - cbn [len_serialized]. unfold enc_body, enc_body_gen.
    rewrite !len_app, enc_sn_len, (enc_ns_len _ _ _ W), Hr, Hw.
    destruct W as (_ & (B1 & B2) & _). unfold ns_len_serialized, wcount. cbn [num_size].
    Z.div_mod_to_equations; lia.
Qed.

(* every number set the real constructors can produce from in-range arguments is well formed,
   hence admitted by `built` *)
Theorem constructors_wf k :
  (forall b, num_ok k b -> ns_wf k (ns_new b 0)) /\
  (forall b S s, S <> [] -> 1 <= adj_base b S -> adj_base b S + 256 <= n_hi k ->
                 ns_from_base_and_set k b S = Some s -> ns_wf k s).
Proof.
  split.
  - intros b Hb. apply ns_new_wf; [exact Hb|lia].
  - intros b S s HS H1 H2 E. destruct (numset_window k b S HS H1 H2) as (s' & l & E1 & _ & W & _).
    rewrite E in E1. inversion E1; subst. exact W.
Qed.
