(* C14 — round trip of every submessage kind and of whole messages, length/flag agreement,
   re-serialisation, fuel, builder image *)
From Coq Require Import List ZArith Lia Bool.
From RD Require Import C15.Prim C15.PL C15.Qos C15.Disc C14.Wire C14.Model C14.NumSetProofs.
Import ListNotations.
Open Scope Z_scope.

(* ------------------------------------------------------------------------------------------ *)
(* from the boolean predicates to Prop *)
Lemma rangeb_spec lo hi x : rangeb lo hi x = true -> lo <= x < hi.
Proof.
  unfold rangeb. intros H. apply andb_true_iff in H as [A B].
  apply Z.leb_le in A. apply Z.ltb_lt in B. lia.
Qed.
Lemma lenb_spec n l : lenb n l = true -> len l = n.
Proof. apply Z.eqb_eq. Qed.
Lemma forallb_Forall {A} (f : A -> bool) (P : A -> Prop) l :
  (forall x, f x = true -> P x) -> forallb f l = true -> Forall P l.
Proof.
  intros H F. apply Forall_forall. intros x Hx. apply H. rewrite forallb_forall in F. auto.
Qed.

Ltac bsplit H :=
  repeat match type of H with
         | (_ && _ = true) => let H2 := fresh "B" in apply andb_true_iff in H as [H H2]
         end.

Lemma param_okb_spec p : param_okb p = true -> param_ok p.
Proof.
  unfold param_okb, param_ok. intros H. bsplit H.
  apply rangeb_spec in H. apply negb_true_iff in B0. apply Z.eqb_neq in B0. apply Z.ltb_lt in B.
  unfold u16_ok. auto.
Qed.
Lemma oparams_okb_spec iq ps : oparams_okb iq = true -> iq = Some ps -> Forall param_ok ps.
Proof. intros H ->. cbn in H. eapply forallb_Forall; [apply param_okb_spec|exact H]. Qed.

Lemma ns_wfb_spec k s : ns_wfb k s = true -> ns_wf k s.
Proof.
  unfold ns_wfb, ns_wf, num_ok. intros H. bsplit H.
  apply Z.leb_le in H, B3, B2, B1. apply Z.eqb_eq in B0.
  repeat split; try lia.
  eapply forallb_Forall; [|exact B]. intros x Hx. apply rangeb_spec in Hx. exact Hx.
Qed.

Lemma locator_okb_spec l : locator_okb l = true -> locator_ok l.
Proof.
  destruct l as [| |a b c d port|addr port fl sc|kind port addr]; cbn [locator_okb locator_ok]; intros H;
    try exact I.
  - apply rangeb_spec in H. exact H.
  - bsplit H. apply lenb_spec in H. apply rangeb_spec in B1. apply Z.eqb_eq in B0, B.
    unfold u16_ok. auto.
  - bsplit H. apply rangeb_spec in H, B0. apply lenb_spec in B.
    apply negb_true_iff in B4, B3, B2, B1. apply Z.eqb_neq in B4, B3, B2, B1.
    unfold i32_ok, u32_ok. repeat split; auto; lia.
Qed.

(* ------------------------------------------------------------------------------------------ *)
(* ParameterList on a stream *)
Lemma dec_plr_aux_param f e p rest :
  param_ok p ->
  dec_plr_aux (S f) e (enc_param e p ++ rest) =
  match dec_plr_aux f e rest with
  | Ok (ps, r) => Ok (padp p :: ps, r) | Err => Err | OutOfFuel => OutOfFuel
  end.
Proof.
  intros (Hid & Hns & Hlen). destruct p as [pid v]. cbn [fst snd] in *.
  cbn [dec_plr_aux]. unfold enc_param. cbn [fst snd]. rewrite <- !app_assoc.
  rewrite dec_enc_u16 by exact Hid.
  pose proof (pad4_range (len v)) as Hp. pose proof (len_nonneg v) as Hv.
  rewrite Z.mod_small by lia.
  rewrite dec_enc_u16 by (unfold u16_ok; lia).
  destruct (Z.eqb_spec pid PID_SENTINEL); [contradiction|].
  rewrite app_assoc. rewrite take_app_n by (rewrite len_app, len_zeros; lia).
  destruct (dec_plr_aux f e rest) as [[ps r]| |]; reflexivity.
Qed.

Lemma dec_plr_aux_sentinel f e rest : dec_plr_aux (S f) e (enc_sentinel e ++ rest) = Ok ([], rest).
Proof.
  cbn [dec_plr_aux]. unfold enc_sentinel, enc_param. cbn [fst snd]. rewrite <- !app_assoc.
  rewrite dec_enc_u16 by (unfold u16_ok, PID_SENTINEL; lia).
  change (len [] + pad4 (len [])) with 0. rewrite Z.mod_0_l by lia.
  rewrite dec_enc_u16 by (unfold u16_ok; lia). reflexivity.
Qed.

Lemma dec_plr_aux_enc f e ps rest :
  Forall param_ok ps -> (length ps < f)%nat ->
  dec_plr_aux f e (flat_map (enc_param e) ps ++ enc_sentinel e ++ rest) = Ok (map padp ps, rest).
Proof.
  revert f; induction ps as [|p ps IH]; intros f HF Hf.
  - destruct f; [inversion Hf|]. cbn [flat_map map app]. apply dec_plr_aux_sentinel.
  - destruct f; [inversion Hf|]. inversion HF; subst.
    cbn [flat_map map]. rewrite <- app_assoc. rewrite dec_plr_aux_param by assumption.
    rewrite IH; [reflexivity | assumption | cbn in Hf; lia].
Qed.

Lemma dec_enc_plr e ps rest :
  Forall param_ok ps -> dec_plr e (enc_pl e ps ++ rest) = Some (map padp ps, rest).
Proof.
  intros H. unfold dec_plr, enc_pl. rewrite <- app_assoc. rewrite dec_plr_aux_enc; [reflexivity|exact H|].
  pose proof (flat_map_len_ge e ps) as L. unfold len in L. rewrite !app_length. lia.
Qed.

(* every iteration consumes at least 4 bytes: the fuel of dec_plr is never exhausted *)
Lemma dec_plr_aux_fuel f e bs : (length bs < 4 * f)%nat -> dec_plr_aux f e bs <> OutOfFuel.
Proof.
  revert bs; induction f; intros bs H; [lia|].
  cbn [dec_plr_aux]. unfold dec_u16, dec_uint.
  destruct (take (Z.of_nat 2) bs) as [[h1 bs1]|] eqn:T1; [|discriminate].
  destruct (take (Z.of_nat 2) bs1) as [[h2 bs2]|] eqn:T2; [|discriminate].
  apply take_len in T1 as [E1 L1]. apply take_len in T2 as [E2 L2]. subst bs bs1.
  destruct (_ =? PID_SENTINEL); [discriminate|].
  destruct (take _ bs2) as [[v bs3]|] eqn:T3; [|discriminate].
  apply take_len in T3 as [E3 L3]. subst bs2.
  specialize (IHf bs3). rewrite !app_length in H. unfold len in *.
  destruct (dec_plr_aux f e bs3) as [[ps r]| |]; try discriminate. exfalso. apply IHf; [lia|reflexivity].
Qed.
Lemma dec_plr_never_out_of_fuel e bs : dec_plr_aux (S (length bs)) e bs <> OutOfFuel.
Proof. apply dec_plr_aux_fuel. lia. Qed.

(* ------------------------------------------------------------------------------------------ *)
(* small reader facts *)
Lemma dec_n_locs e ls rest :
  Forall locator_ok ls ->
  dec_n (length ls) (dec_locator e) (flat_map (enc_locator e) ls ++ rest) = Some (ls, rest).
Proof.
  induction 1 as [|l ls Hl _ IH]; [reflexivity|].
  cbn [length dec_n flat_map]. unfold bind. rewrite <- app_assoc.
  rewrite (rt_locator e l _ Hl). rewrite IH. reflexivity.
Qed.

Lemma locator_ok_len e l : locator_ok l -> len (enc_locator e l) = 24.
Proof.
  intros H. apply enc_locator_len. destruct l; cbn [locator_ok] in H; try exact I; tauto.
Qed.
Lemma flat_map_locs_len e ls : Forall locator_ok ls -> len (flat_map (enc_locator e) ls) = 24 * Z.of_nat (length ls).
Proof.
  induction 1 as [|l ls Hl _ IH]; [reflexivity|].
  cbn [flat_map length]. rewrite len_app, (locator_ok_len e l Hl), IH. lia.
Qed.

Lemma locs_okb_spec ls : locs_okb ls = true -> Forall locator_ok ls /\ Z.of_nat (length ls) < 4294967296.
Proof.
  unfold locs_okb. intros H. bsplit H. apply Z.ltb_lt in B. split; [|exact B].
  eapply forallb_Forall; [apply locator_okb_spec|exact H].
Qed.

Lemma dec_enc_locs e ls rest :
  locs_okb ls = true -> dec_locs e (enc_locs e ls ++ rest) = Some (ls, rest).
Proof.
  intros H. apply locs_okb_spec in H as [F L]. unfold dec_locs, enc_locs. rewrite <- app_assoc.
  rewrite dec_enc_u32 by (unfold u32_ok; lia).
  rewrite len_app, (flat_map_locs_len e ls F).
  destruct (Z.ltb_spec (24 * Z.of_nat (length ls) + len rest) (24 * Z.of_nat (length ls))) as [Q|_].
  - pose proof (len_nonneg rest). lia.
  - rewrite Nat2Z.id. apply dec_n_locs. exact F.
Qed.
Lemma enc_locs_len e ls : Forall locator_ok ls -> len (enc_locs e ls) = 4 + 24 * Z.of_nat (length ls).
Proof. intros F. unfold enc_locs. rewrite len_app, enc_u32_len, (flat_map_locs_len e ls F). lia. Qed.

Lemma take_all n l : n = len l -> take n l = Some (l, []).
Proof. intros ->. rewrite <- (app_nil_r l) at 2. apply take_app. Qed.

(* ------------------------------------------------------------------------------------------ *)
(* bodies whose reader is a derived speedy Readable: exact round trip, trailing bytes untouched *)
Ltac t4 := rewrite take_app_n by (symmetry; assumption).

Lemma rt_gap e rd wr start gl f rest :
  built_bodyb f (BGap rd wr start gl) = true ->
  dec_gap e (enc_body e (BGap rd wr start gl) ++ rest) = Some (BGap rd wr start gl, rest).
Proof.
  cbn [built_bodyb]. intros H. bsplit H.
  apply lenb_spec in H, B1. apply rangeb_spec in B0. apply ns_wfb_spec in B.
  unfold dec_gap, enc_body, enc_body_gen, bind. rewrite <- !app_assoc.
  do 2 t4. rewrite dec_enc_sn by exact B0. rewrite ns_roundtrip by exact B. reflexivity.
Qed.

Lemma rt_heartbeat e rd wr a b c f rest :
  built_bodyb f (BHeartbeat rd wr a b c) = true ->
  dec_heartbeat e (enc_body e (BHeartbeat rd wr a b c) ++ rest) = Some (BHeartbeat rd wr a b c, rest).
Proof.
  cbn [built_bodyb]. intros H. bsplit H.
  apply lenb_spec in H, B2. apply rangeb_spec in B1, B0, B.
  unfold dec_heartbeat, enc_body, enc_body_gen, bind. rewrite <- !app_assoc.
  do 2 t4. rewrite !dec_enc_sn by assumption. rewrite dec_enc_i32 by exact B. reflexivity.
Qed.

Lemma rt_heartbeatfrag e rd wr a b c f rest :
  built_bodyb f (BHeartbeatFrag rd wr a b c) = true ->
  dec_heartbeatfrag e (enc_body e (BHeartbeatFrag rd wr a b c) ++ rest) = Some (BHeartbeatFrag rd wr a b c, rest).
Proof.
  cbn [built_bodyb]. intros H. bsplit H.
  apply lenb_spec in H, B2. apply rangeb_spec in B1, B0, B.
  unfold dec_heartbeatfrag, enc_body, enc_body_gen, bind. rewrite <- !app_assoc.
  do 2 t4. rewrite dec_enc_sn by assumption. rewrite dec_enc_u32 by exact B0.
  rewrite dec_enc_i32 by exact B. reflexivity.
Qed.

Lemma rt_acknack e rd wr st c f rest :
  built_bodyb f (BAckNack rd wr st c) = true ->
  dec_acknack e (enc_body e (BAckNack rd wr st c) ++ rest) = Some (BAckNack rd wr st c, rest).
Proof.
  cbn [built_bodyb]. intros H. bsplit H.
  apply lenb_spec in H, B1. apply ns_wfb_spec in B0. apply rangeb_spec in B.
  unfold dec_acknack, enc_body, enc_body_gen, bind. rewrite <- !app_assoc.
  do 2 t4. rewrite ns_roundtrip by exact B0. rewrite dec_enc_i32 by exact B. reflexivity.
Qed.

Lemma rt_nackfrag e rd wr sn st c f rest :
  built_bodyb f (BNackFrag rd wr sn st c) = true ->
  dec_nackfrag e (enc_body e (BNackFrag rd wr sn st c) ++ rest) = Some (BNackFrag rd wr sn st c, rest).
Proof.
  cbn [built_bodyb]. intros H. bsplit H.
  apply lenb_spec in H, B2. apply rangeb_spec in B1. apply ns_wfb_spec in B0. apply rangeb_spec in B.
  unfold dec_nackfrag, enc_body, enc_body_gen, bind. rewrite <- !app_assoc.
  do 2 t4. rewrite dec_enc_sn by exact B1. rewrite ns_roundtrip by exact B0.
  rewrite dec_enc_i32 by exact B. reflexivity.
Qed.

Lemma rt_infots e ts f rest :
  built_bodyb f (BInfoTs ts) = true ->
  dec_infots f e (enc_body e (BInfoTs ts) ++ rest) = Some (BInfoTs ts, rest).
Proof.
  cbn [built_bodyb]. intros H. bsplit H. apply eqb_prop in H.
  unfold dec_infots. rewrite H. destruct ts as [[s fr]|]; cbn [is_some negb].
  - bsplit B. apply rangeb_spec in B, B0.
    unfold enc_body, enc_body_gen, bind. rewrite <- !app_assoc.
    rewrite dec_enc_u32 by exact B. rewrite dec_enc_u32 by exact B0. reflexivity.
  - reflexivity.
Qed.

Lemma rt_infodst e p f rest :
  built_bodyb f (BInfoDst p) = true ->
  dec_infodst (enc_body e (BInfoDst p) ++ rest) = Some (BInfoDst p, rest).
Proof.
  cbn [built_bodyb]. intros H. apply lenb_spec in H.
  unfold dec_infodst, enc_body, enc_body_gen, bind. t4. reflexivity.
Qed.

Lemma rt_infosrc e u ma mi v p f rest :
  built_bodyb f (BInfoSrc u ma mi v p) = true ->
  dec_infosrc e (enc_body e (BInfoSrc u ma mi v p) ++ rest) = Some (BInfoSrc u ma mi v p, rest).
Proof.
  cbn [built_bodyb]. intros H. bsplit H. apply rangeb_spec in H. apply lenb_spec in B0, B.
  unfold dec_infosrc, enc_body, enc_body_gen, bind. rewrite <- !app_assoc.
  rewrite dec_enc_u32 by exact H. cbn [app read_u8]. do 2 t4. reflexivity.
Qed.

Lemma rt_inforeply e uni multi f rest :
  built_bodyb f (BInfoReply uni multi) = true ->
  dec_inforeply e (enc_body e (BInfoReply uni multi) ++ rest) = Some (BInfoReply uni multi, rest).
Proof.
  cbn [built_bodyb]. intros H. bsplit H.
  unfold dec_inforeply, enc_body, enc_body_gen, bind. rewrite <- !app_assoc.
  rewrite dec_enc_locs by exact H.
  destruct multi as [m|]; cbn [app read_u8 Z.eqb].
  - rewrite dec_enc_locs by exact B. reflexivity.
  - reflexivity.
Qed.

(* DATA and DATAFRAG: the reader takes everything that is left as the payload *)
Lemma skip_extra_eq n bs : skip_extra n n bs = Some (tt, bs).
Proof. unfold skip_extra. now rewrite Z.ltb_irrefl. Qed.

Lemma dec_enc_oiq e f iq rest :
  oparams_okb iq = true -> Z.testbit f 1 = is_some iq ->
  dec_oiq (Z.testbit f 1) e (enc_oiq e iq ++ rest) = Some (option_map (map padp) iq, rest).
Proof.
  intros Hp Hf. rewrite Hf. destruct iq as [ps|]; cbn [is_some dec_oiq enc_oiq option_map].
  - unfold bind. rewrite dec_enc_plr by (eapply oparams_okb_spec; eauto). reflexivity.
  - reflexivity.
Qed.

Lemma rt_data e rd wr sn iq pl f :
  built_bodyb f (BData rd wr sn iq pl) = true ->
  parse (dec_data f e) (enc_body e (BData rd wr sn iq pl)) = Some (pad_canon_body (BData rd wr sn iq pl)).
Proof.
  cbn [built_bodyb]. intros H. bsplit H.
  apply lenb_spec in H, B3. apply rangeb_spec in B2. apply eqb_prop in B0, B.
  unfold parse, dec_data, enc_body, enc_body_gen, bind. rewrite <- ?app_assoc.
  rewrite dec_enc_u16 by (unfold u16_ok; lia). rewrite dec_enc_u16 by (unfold u16_ok; lia).
  do 2 t4. rewrite dec_enc_sn by exact B2. rewrite skip_extra_eq.
  rewrite (dec_enc_oiq e f iq _ B1 B0). rewrite B.
  destruct pl as [p|]; reflexivity.
Qed.

Lemma rt_datafrag e rd wr sn fsn fis dsz fsz iq pl f :
  built_bodyb f (BDataFrag rd wr sn fsn fis dsz fsz iq pl) = true ->
  parse (dec_datafrag f e) (enc_body e (BDataFrag rd wr sn fsn fis dsz fsz iq pl)) =
  Some (pad_canon_body (BDataFrag rd wr sn fsn fis dsz fsz iq pl)).
Proof.
  cbn [built_bodyb]. intros H. bsplit H.
  apply lenb_spec in H, B11. apply rangeb_spec in B10, B8, B7, B6, B5.
  apply Z.leb_le in B9, B4, B3, B2, B1. apply eqb_prop in B.
  unfold parse, dec_datafrag, enc_body, enc_body_gen, enc_frag_iq, bind. rewrite <- ?app_assoc.
  rewrite dec_enc_u16 by (unfold u16_ok; lia). rewrite dec_enc_u16 by (unfold u16_ok; lia).
  do 2 t4. rewrite dec_enc_sn by exact B10.
  rewrite dec_enc_u32 by exact B8. rewrite dec_enc_u16 by exact B7. rewrite dec_enc_u16 by exact B5.
  rewrite dec_enc_u32 by exact B6. rewrite skip_extra_eq.
  rewrite (dec_enc_oiq e f iq _ B0 B).
  destruct (Z.ltb_spec sn 1); [lia|].
  destruct (Z.ltb_spec fsz 1); [lia|]. destruct (Z.ltb_spec dsz fsz); [lia|]. cbn [orb].
  destruct (Z.ltb_spec fsn 1); [lia|]. destruct (Z.ltb_spec (total_frags dsz fsz) fsn); [lia|].
  reflexivity.
Qed.

(* ------------------------------------------------------------------------------------------ *)
(* octetsToNextHeader: what len_serialized() computes is the number of body bytes written *)
Lemma pad4_mod0 a : a mod 4 = 0 -> pad4 a = 0.
Proof. intros H. unfold pad4. now rewrite H. Qed.
Lemma pad4_add_mod0 a b : a mod 4 = 0 -> pad4 (a + b) = pad4 b.
Proof. intros H. unfold pad4. rewrite Zplus_mod, H, Z.add_0_l, Z.mod_mod by lia. reflexivity. Qed.

Lemma enc_param_len_eq e p : len (enc_param e p) = param_len_serialized p.
Proof.
  unfold enc_param, param_len_serialized. rewrite !len_app, !enc_u16_len, len_zeros by apply pad4_range.
  rewrite (pad4_add_mod0 4 (len (snd p))) by reflexivity. lia.
Qed.
Lemma param_len_mod4 p : param_len_serialized p mod 4 = 0.
Proof. unfold param_len_serialized. apply pad4_mod. Qed.
Lemma param_len_pos p : 4 <= param_len_serialized p.
Proof.
  unfold param_len_serialized. pose proof (len_nonneg (snd p)). pose proof (pad4_range (4 + len (snd p))). lia.
Qed.

Lemma enc_pl_len_eq e ps : len (enc_pl e ps) = pl_len_serialized ps.
Proof.
  unfold enc_pl, pl_len_serialized. rewrite len_app.
  assert (S : len (enc_sentinel e) = 4).
  { unfold enc_sentinel. rewrite enc_param_len_eq. reflexivity. }
  rewrite S. f_equal. induction ps as [|p ps IH]; [reflexivity|].
  cbn [flat_map fold_right]. rewrite len_app, enc_param_len_eq, IH. reflexivity.
Qed.
Lemma pl_len_mod4 ps : pl_len_serialized ps mod 4 = 0 /\ 4 <= pl_len_serialized ps.
Proof.
  unfold pl_len_serialized. induction ps as [|p ps [IH1 IH2]]; [cbn; split; [reflexivity|lia]|].
  cbn [fold_right]. pose proof (param_len_mod4 p). pose proof (param_len_pos p). split; [|lia].
  replace (param_len_serialized p + fold_right (fun p0 acc => param_len_serialized p0 + acc) 0 ps + 4)
    with (param_len_serialized p + (fold_right (fun p0 acc => param_len_serialized p0 + acc) 0 ps + 4)) by lia.
  rewrite Zplus_mod, H, IH1. reflexivity.
Qed.
Lemma enc_oiq_len_eq e iq : len (enc_oiq e iq) = oiq_len_serialized iq.
Proof. destruct iq; [apply enc_pl_len_eq|reflexivity]. Qed.
Lemma oiq_len_mod4 iq : oiq_len_serialized iq mod 4 = 0 /\ 0 <= oiq_len_serialized iq.
Proof. destruct iq as [ps|]; cbn; [destruct (pl_len_mod4 ps); split; [assumption|lia] | split; [reflexivity|lia]]. Qed.

Lemma len_serialized_ok e f b :
  built_bodyb f b = true -> len (enc_body e b) = len_serialized b.
Proof.
  intros H. destruct b; cbn [built_bodyb] in H; bsplit H;
    unfold enc_body, enc_body_gen; cbn [len_serialized].
  - (* Data *)
    apply lenb_spec in H, B3. destruct (oiq_len_mod4 iq) as [M N].
    rewrite !len_app, !enc_u16_len, enc_sn_len, enc_oiq_len_eq, H, B3.
    destruct pl as [p|].
    + rewrite len_app, len_zeros by apply pad4_range.
      replace (20 + oiq_len_serialized iq + len p) with ((20 + oiq_len_serialized iq) + len p) by lia.
      rewrite pad4_add_mod0; [lia|]. clear -M. Z.div_mod_to_equations; lia.
    + rewrite len_nil, Z.add_0_r. rewrite pad4_mod0; [lia|]. clear -M. Z.div_mod_to_equations; lia.
  - (* DataFrag *)
    apply lenb_spec in H, B11. unfold enc_frag_iq.
    rewrite !len_app, !enc_u16_len, !enc_u32_len, enc_sn_len, enc_oiq_len_eq, H, B11. lia.
  - (* Gap *)
    unfold enc_body, enc_body_gen. apply ns_wfb_spec in B.
    rewrite !len_app, !enc_sn_len, !(enc_ns_len _ _ _ B). reflexivity.
  - unfold enc_body, enc_body_gen. rewrite !len_app, !enc_sn_len, !enc_i32_len. reflexivity.
  - apply lenb_spec in H, B2. rewrite !len_app, enc_sn_len, enc_u32_len, enc_i32_len, H, B2. reflexivity.
  - apply lenb_spec in H, B1. apply ns_wfb_spec in B0.
    rewrite !len_app, (enc_ns_len _ _ _ B0), enc_i32_len, H, B1. lia.
  - apply lenb_spec in H, B2. apply ns_wfb_spec in B0.
    rewrite !len_app, enc_sn_len, (enc_ns_len _ _ _ B0), enc_i32_len, H, B2. lia.
  - destruct ts as [[s fr]|]; [|reflexivity]. rewrite len_app, !enc_u32_len. reflexivity.
  - apply lenb_spec in H. exact H.
  - apply lenb_spec in B0, B. rewrite !len_app, enc_u32_len, B0, B. reflexivity.
  - unfold enc_body, enc_body_gen. apply locs_okb_spec in H as [F _].
    rewrite !len_app, !(enc_locs_len _ _ F). destruct multi as [m|]; [|reflexivity].
    apply locs_okb_spec in B as [F' _]. rewrite !len_app, !(enc_locs_len _ _ F'). reflexivity.
Qed.

(* only INFO_TS(invalidate) has an empty body *)
Ltac nn Z0 :=
  rewrite len_app in Z0;
  match type of Z0 with len ?a + len ?b = 0 => pose proof (len_nonneg a); pose proof (len_nonneg b) end.
Lemma len_serialized_zero e f b :
  built_bodyb f b = true -> len (enc_body e b) = 0 -> kind_of_body b = K_INFO_TS.
Proof.
  intros H. destruct b; try reflexivity; cbn [built_bodyb] in H; bsplit H;
    unfold enc_body, enc_body_gen; intros Z0; exfalso.
  - nn Z0. rewrite enc_u16_len in *. lia.
  - nn Z0. rewrite enc_u16_len in *. lia.
  - nn Z0. apply lenb_spec in H. lia.
  - nn Z0. apply lenb_spec in H. lia.
  - nn Z0. apply lenb_spec in H. lia.
  - nn Z0. apply lenb_spec in H. lia.
  - nn Z0. apply lenb_spec in H. lia.
  - apply lenb_spec in H. lia.
  - nn Z0. rewrite enc_u32_len in *. lia.
  - nn Z0. unfold enc_locs in *. rewrite len_app, enc_u32_len in *.
    pose proof (len_nonneg (flat_map (enc_locator e) uni)). lia.
Qed.

(* ------------------------------------------------------------------------------------------ *)
(* one submessage *)
Lemma read_body_data f b : read_body K_DATA f b = of_parse (parse (dec_data f (eflag f)) b).
Proof. reflexivity. Qed.
Lemma read_body_datafrag f b : read_body K_DATA_FRAG f b = of_parse (parse (dec_datafrag f (eflag f)) b).
Proof. reflexivity. Qed.
Lemma read_body_gap f b : read_body K_GAP f b = of_parse (parse (dec_gap (eflag f)) b).
Proof. reflexivity. Qed.
Lemma read_body_acknack f b : read_body K_ACKNACK f b = of_parse (parse (dec_acknack (eflag f)) b).
Proof. reflexivity. Qed.
Lemma read_body_nackfrag f b : read_body K_NACK_FRAG f b = of_parse (parse (dec_nackfrag (eflag f)) b).
Proof. reflexivity. Qed.
Lemma read_body_heartbeat f b : read_body K_HEARTBEAT f b = of_parse (parse (dec_heartbeat (eflag f)) b).
Proof. reflexivity. Qed.
Lemma read_body_heartbeatfrag f b : read_body K_HEARTBEAT_FRAG f b = of_parse (parse (dec_heartbeatfrag (eflag f)) b).
Proof. reflexivity. Qed.
Lemma read_body_infodst f b : read_body K_INFO_DST f b = of_parse (parse dec_infodst b).
Proof. reflexivity. Qed.
Lemma read_body_infosrc f b : read_body K_INFO_SRC f b = of_parse (parse (dec_infosrc (eflag f)) b).
Proof. reflexivity. Qed.
Lemma read_body_infots f b : read_body K_INFO_TS f b = of_parse (parse (dec_infots f (eflag f)) b).
Proof. reflexivity. Qed.
Lemma read_body_inforeply f b : read_body K_INFO_REPLY f b = of_parse (parse (dec_inforeply (eflag f)) b).
Proof. reflexivity. Qed.

Lemma parse_rt {A} (r : reader A) bs a : r (bs ++ []) = Some (a, []) -> parse r bs = Some a.
Proof. rewrite app_nil_r. unfold parse. intros ->. reflexivity. Qed.

(* per submessage kind: the body comes back, inline QoS values and DATA payload zero-padded *)
Lemma read_body_built f b :
  built_bodyb f b = true ->
  read_body (kind_of_body b) f (enc_body (eflag f) b) = BOk (pad_canon_body b).
Proof.
  intros H. destruct b; cbn [kind_of_body].
  - rewrite read_body_data, (rt_data _ _ _ _ _ _ _ H). reflexivity.
  - rewrite read_body_datafrag, (rt_datafrag _ _ _ _ _ _ _ _ _ _ _ H). reflexivity.
  - rewrite read_body_gap, (parse_rt _ _ _ (rt_gap _ _ _ _ _ _ _ H)). reflexivity.
  - rewrite read_body_heartbeat, (parse_rt _ _ _ (rt_heartbeat _ _ _ _ _ _ _ _ H)). reflexivity.
  - rewrite read_body_heartbeatfrag, (parse_rt _ _ _ (rt_heartbeatfrag _ _ _ _ _ _ _ _ H)). reflexivity.
  - rewrite read_body_acknack, (parse_rt _ _ _ (rt_acknack _ _ _ _ _ _ _ H)). reflexivity.
  - rewrite read_body_nackfrag, (parse_rt _ _ _ (rt_nackfrag _ _ _ _ _ _ _ _ H)). reflexivity.
  - rewrite read_body_infots, (parse_rt _ _ _ (rt_infots _ _ _ _ H)). reflexivity.
  - rewrite read_body_infodst, (parse_rt _ _ _ (rt_infodst (eflag f) _ _ _ H)). reflexivity.
  - rewrite read_body_infosrc, (parse_rt _ _ _ (rt_infosrc _ _ _ _ _ _ _ _ H)). reflexivity.
  - rewrite read_body_inforeply, (parse_rt _ _ _ (rt_inforeply _ _ _ _ _ H)). reflexivity.
Qed.

Lemma read_subhdr_enc k f l r :
  u16_ok l -> read_subhdr ([k; f] ++ enc_u16 (eflag f) l ++ r) = Some ((k, f, l), r).
Proof.
  intros H. unfold read_subhdr, bind. cbn [app read_u8]. rewrite dec_enc_u16 by exact H. reflexivity.
Qed.

(* facts packed in built_sub *)
Lemma built_sub_inv s :
  built_sub s ->
  sm_kind s = kind_of_body (sm_body s) /\ 0 <= sm_flags s /\
  Z.land (sm_flags s) (fmask (sm_kind s)) = sm_flags s /\ sm_bflags s = sm_flags s /\
  sm_len s = len_serialized (sm_body s) /\ sm_len s < 65536 /\
  built_bodyb (sm_flags s) (sm_body s) = true.
Proof.
  unfold built_sub, built_subb. intros H. bsplit H.
  apply Z.eqb_eq in H, B3, B2, B1. apply Z.leb_le in B4. apply Z.ltb_lt in B0. auto 10.
Qed.

Lemma read_sub_built s rest :
  built_sub s -> read_sub (ser_sub s ++ rest) = SOk (pad_canon_sub s) rest.
Proof.
  intros H. apply built_sub_inv in H as (Hk & Hf & Hm & Hbf & Hl & Hlt & Hb).
  destruct s as [k f l bf b]. cbn [sm_kind sm_flags sm_len sm_bflags sm_body] in *. subst k bf.
  pose proof (len_serialized_ok (eflag f) f b Hb) as Hlen.
  pose proof (len_nonneg (enc_body (eflag f) b)) as Hnn.
  unfold read_sub, ser_sub, ser_sub_gen. cbn [sm_kind sm_flags sm_len sm_bflags sm_body].
  fold (enc_body (eflag f) b). rewrite <- !app_assoc.
  rewrite read_subhdr_enc by (unfold u16_ok; lia).
  assert (P : (if l =? 0
               then if (kind_of_body b =? K_PAD) || (kind_of_body b =? K_INFO_TS) then 0
                    else len (enc_body (eflag f) b ++ rest)
               else l) = len (enc_body (eflag f) b)).
  { destruct (Z.eqb_spec l 0) as [Z0|NZ]; [|lia].
    rewrite (len_serialized_zero (eflag f) f b Hb) by lia. cbn. lia. }
  rewrite P. rewrite take_app. rewrite (read_body_built f b Hb).
  unfold pad_canon_sub. cbn [sm_kind sm_flags sm_len sm_bflags sm_body]. rewrite Hm. reflexivity.
Qed.

(* the wanted per-kind corollaries *)
Definition is_kind (k : Z) (s : submsg) : Prop := kind_of_body (sm_body s) = k.

(* ------------------------------------------------------------------------------------------ *)
(* whole messages *)
Lemma read_subs_cons f bs :
  bs <> [] ->
  read_subs (S f) bs =
  match read_sub bs with
  | SErr => PErr
  | SUnmodelled => PUnmodelled
  | SSkip rest => read_subs f rest
  | SOk s rest =>
    match read_subs f rest with
    | POk l => POk (s :: l) | PErr => PErr | PFuel => PFuel | PUnmodelled => PUnmodelled
    end
  end.
Proof. destruct bs; [contradiction|reflexivity]. Qed.

Lemma ser_sub_nonnil old s rest : ser_sub_gen old s ++ rest <> [].
Proof. unfold ser_sub_gen. cbn. discriminate. Qed.

Lemma read_subs_built subs : forall fuel,
  Forall built_sub subs -> (length subs <= fuel)%nat ->
  read_subs fuel (flat_map ser_sub subs) = POk (map pad_canon_sub subs).
Proof.
  induction subs as [|s subs IH]; intros fuel F L.
  - destruct fuel; reflexivity.
  - destruct fuel as [|fuel]; [cbn in L; lia|]. apply Forall_cons_iff in F as [Hs F].
    cbn [flat_map map]. rewrite read_subs_cons by apply ser_sub_nonnil.
    rewrite (read_sub_built s _ Hs). rewrite IH; [reflexivity|exact F|cbn in L; lia].
Qed.

Lemma flat_map_ser_len old subs : (length subs <= length (flat_map (ser_sub_gen old) subs))%nat.
Proof.
  induction subs as [|s subs IH]; [cbn; lia|].
  cbn [flat_map length]. rewrite app_length. unfold ser_sub_gen at 1. cbn [app length]. lia.
Qed.

Lemma list_z_eqb_eq a b : list_z_eqb a b = true -> a = b.
Proof.
  unfold list_z_eqb. intros H. apply andb_true_iff in H as [L F]. apply Nat.eqb_eq in L.
  revert b L F; induction a as [|x a IH]; intros [|y b] L F; try discriminate; [reflexivity|].
  cbn in L, F. apply andb_true_iff in F as [E F]. apply Z.eqb_eq in E. subst. f_equal.
  apply IH; [lia|exact F].
Qed.

Lemma built_hdr_inv h :
  built_hdrb h = true -> hdr_valid h = true /\ len (h_proto h) = 4 /\ len (h_vendor h) = 2 /\ len (h_prefix h) = 12.
Proof.
  unfold built_hdrb. intros H. bsplit H. apply lenb_spec in B0, B. split; [exact H|].
  unfold hdr_valid in H. apply andb_true_iff in H as [P _]. apply list_z_eqb_eq in P. rewrite P. auto.
Qed.

Lemma dec_enc_mheader h rest :
  len (h_proto h) = 4 -> len (h_vendor h) = 2 -> len (h_prefix h) = 12 ->
  dec_mheader (enc_mheader h ++ rest) = Some (h, rest).
Proof.
  intros A B C. destruct h as [p ma mi v g]. cbn [h_proto h_vendor h_prefix] in *.
  unfold dec_mheader, enc_mheader, bind. cbn [h_proto h_major h_minor h_vendor h_prefix].
  rewrite <- !app_assoc. t4. cbn [app read_u8]. do 2 t4. reflexivity.
Qed.

Lemma enc_mheader_len h :
  len (h_proto h) = 4 -> len (h_vendor h) = 2 -> len (h_prefix h) = 12 -> len (enc_mheader h) = 20.
Proof. intros A B C. unfold enc_mheader. rewrite !len_app, A, B, C. reflexivity. Qed.

Theorem roundtrip e m : built m -> parse_msg (ser e m) = POk (pad_canon m).
Proof.
  unfold built, builtb. intros H. apply andb_true_iff in H as [Hh Hs].
  apply built_hdr_inv in Hh as (V & A & B & C).
  assert (F : Forall built_sub (m_subs m)) by (eapply forallb_Forall; [|exact Hs]; auto).
  unfold parse_msg, ser, ser_gen. rewrite dec_enc_mheader by assumption. rewrite V.
  fold ser_sub. rewrite read_subs_built; [reflexivity|exact F|].
  pose proof (flat_map_ser_len false (m_subs m)). unfold ser_sub. lia.
Qed.

(* the speedy context endianness does not reach any byte *)
Lemma ser_ctx_irrelevant e1 e2 m : ser e1 m = ser e2 m.
Proof. reflexivity. Qed.

(* ------------------------------------------------------------------------------------------ *)
(* re-serialisation: padding the values changes no byte *)
Lemma enc_param_padp e p : enc_param e (padp p) = enc_param e p.
Proof.
  destruct p as [pid v]. unfold enc_param, padp. cbn [fst snd].
  rewrite pad4_padv, len_padv, Z.add_0_r. unfold padv. cbn [zeros repeat Z.to_nat].
  rewrite app_nil_r. reflexivity.
Qed.
Lemma enc_pl_padp e ps : enc_pl e (map padp ps) = enc_pl e ps.
Proof.
  unfold enc_pl. f_equal. induction ps as [|p ps IH]; [reflexivity|].
  cbn [map flat_map]. now rewrite enc_param_padp, IH.
Qed.
Lemma enc_oiq_padp e iq : enc_oiq e (option_map (map padp) iq) = enc_oiq e iq.
Proof. destruct iq; [apply enc_pl_padp|reflexivity]. Qed.

Lemma enc_body_pad_canon e b : enc_body e (pad_canon_body b) = enc_body e b.
Proof.
  destruct b; try reflexivity; unfold enc_body, enc_body_gen, enc_frag_iq; cbn [pad_canon_body];
    rewrite enc_oiq_padp; [|reflexivity].
  destruct pl as [p|]; [|reflexivity]. cbn [option_map].
  rewrite pad4_padv. unfold padv. cbn [zeros repeat Z.to_nat]. rewrite app_nil_r. reflexivity.
Qed.

Lemma ser_pad_canon e m : ser e (pad_canon m) = ser e m.
Proof.
  unfold ser, ser_gen, pad_canon. cbn [m_hdr m_subs]. f_equal.
  induction (m_subs m) as [|s l IH]; [reflexivity|].
  cbn [map flat_map]. rewrite IH. f_equal.
  unfold ser_sub_gen, pad_canon_sub. cbn [sm_kind sm_flags sm_len sm_body].
  fold (enc_body (eflag (sm_flags s)) (pad_canon_body (sm_body s))).
  fold (enc_body (eflag (sm_flags s)) (sm_body s)). now rewrite enc_body_pad_canon.
Qed.

Theorem reserialise e m m' : built m -> parse_msg (ser e m) = POk m' -> ser e m' = ser e m.
Proof. intros B P. rewrite (roundtrip e m B) in P. inversion P. apply ser_pad_canon. Qed.

(* ------------------------------------------------------------------------------------------ *)
(* length and flags *)
Lemma flags_agree_built s : built_sub s -> flags_agreeb s = true.
Proof.
  intros H. apply built_sub_inv in H as (_ & _ & _ & _ & _ & _ & Hb).
  unfold flags_agreeb. destruct (sm_body s); try reflexivity; cbn [built_bodyb] in Hb; bsplit Hb.
  - rewrite B0, B. reflexivity.
  - exact B.
  - exact Hb.
Qed.

Theorem length_agrees s :
  built_sub s ->
  ser_sub s = [sm_kind s; sm_flags s] ++ enc_u16 (eflag (sm_flags s)) (sm_len s) ++
              enc_body (eflag (sm_flags s)) (sm_body s) /\
  len (enc_body (eflag (sm_flags s)) (sm_body s)) = sm_len s /\
  0 <= sm_len s < 65536 /\
  flags_agreeb s = true.
Proof.
  intros H. pose proof (flags_agree_built s H) as FA.
  apply built_sub_inv in H as (Hk & Hf & Hm & Hbf & Hl & Hlt & Hb).
  pose proof (len_serialized_ok (eflag (sm_flags s)) _ _ Hb) as L.
  pose proof (len_nonneg (enc_body (eflag (sm_flags s)) (sm_body s))).
  split; [reflexivity|]. split; [lia|]. split; [lia|exact FA].
Qed.

Lemma frames_built subs : Forall built_sub subs -> frames_ok subs (flat_map ser_sub subs) = true.
Proof.
  induction 1 as [|s subs Hs _ IH]; [reflexivity|].
  destruct (length_agrees s Hs) as (E & L & R & FA).
  cbn [frames_ok flat_map]. rewrite E, <- !app_assoc. rewrite read_subhdr_enc by exact R.
  rewrite !Z.eqb_refl, FA, L, Z.eqb_refl. cbn [andb].
  rewrite len_app, L. pose proof (len_nonneg (flat_map ser_sub subs)).
  destruct (Z.leb_spec (sm_len s) (sm_len s + len (flat_map ser_sub subs))); [|lia]. cbn [andb].
  rewrite <- L at 1. unfold len. rewrite Nat2Z.id, skipn_app, skipn_all, Nat.sub_diag. exact IH.
Qed.

(* ------------------------------------------------------------------------------------------ *)
(* the parse loop never runs out of fuel: every submessage consumes at least its 4-byte header *)
Lemma read_subhdr_len bs x r : read_subhdr bs = Some (x, r) -> (length r < length bs)%nat.
Proof.
  unfold read_subhdr, bind. destruct bs as [|k [|f bs]]; try discriminate. cbn [read_u8].
  unfold dec_u16, dec_uint. destruct (take (Z.of_nat 2) bs) as [[h r']|] eqn:T; [|discriminate].
  apply take_len in T as [E _]. intros Q. inversion Q; subst. cbn [length]. rewrite app_length. lia.
Qed.

Lemma read_sub_shrinks bs :
  match read_sub bs with
  | SSkip rest | SOk _ rest => (length rest < length bs)%nat
  | _ => True
  end.
Proof.
  unfold read_sub. destruct (read_subhdr bs) as [[[[k f] l] r]|] eqn:E; [|exact I].
  apply read_subhdr_len in E.
  destruct (take _ r) as [[b rest]|] eqn:T; [|exact I].
  apply take_len in T as [Er _]. subst r. rewrite app_length in E.
  destruct (read_body k f b); try exact I; lia.
Qed.

Lemma read_subs_fuel fuel : forall bs, (length bs < fuel)%nat -> read_subs fuel bs <> PFuel.
Proof.
  induction fuel as [|fuel IH]; intros bs L; [lia|].
  destruct bs as [|x bs']; [discriminate|]. set (bs := x :: bs') in *.
  rewrite read_subs_cons by (unfold bs; discriminate).
  pose proof (read_sub_shrinks bs) as S.
  destruct (read_sub bs) as [|rest|s rest|]; try discriminate.
  - apply IH. lia.
  - specialize (IH rest ltac:(lia)). destruct (read_subs fuel rest); try discriminate. contradiction.
Qed.

Theorem parse_never_out_of_fuel bs : parse_msg bs <> PFuel.
Proof.
  unfold parse_msg. destruct (dec_mheader bs) as [[h rest]|]; [|discriminate].
  destruct (hdr_valid h); [|discriminate].
  pose proof (read_subs_fuel (S (length rest)) rest ltac:(lia)).
  destruct (read_subs (S (length rest)) rest); try discriminate. contradiction.
Qed.
