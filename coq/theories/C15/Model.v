(* C15 — correspondence interface: cases, observations, run, obs_eqb and the property oracle ok.
   The executable model itself is in Prim.v (primitive codecs), PL.v (parameter-list layer),
   Qos.v (QosPolicies) and Disc.v (discovery data types). *)
From Coq Require Import List ZArith Lia Bool.
From RD Require Import Common.Corr C15.Prim C15.PL C15.Qos C15.Disc C15.Sedp.
Import ListNotations.
Open Scope Z_scope.

(* the values that travel *)
Inductive value :=
| VQos (q : qos)
| VSpdp (s : spdp)
| VReader (r : reader_data)
| VWriter (w : writer_data)
| VTopic (t : topic_data)
| VPmd (p : pmd)
| VKey (k : key_kind) (g : guid).

Inductive kind := KQos | KSpdp | KReader | KWriter | KTopic | KPmd | KKey (k : key_kind).
Definition kind_of (v : value) : kind :=
  match v with
  | VQos _ => KQos | VSpdp _ => KSpdp | VReader _ => KReader | VWriter _ => KWriter
  | VTopic _ => KTopic | VPmd _ => KPmd | VKey k _ => KKey k
  end.

(* CVal: serialise v (to_pl_cdr_bytes / to_parameter_list + serialize_to_bytes), deserialise the
         bytes, and deserialise again after inserting the foreign parameters `ins`
         (position, (pid, value)) one after the other with Vec::insert(min(pos,len), ..).
   CRaw: hostile stream, deserialise arbitrary bytes. *)
Inductive case :=
| CVal (e : endian) (v : value) (ins : list (nat * param))
| CRaw (e : endian) (k : kind) (bytes : list Z).

Inductive obs :=
| ObsVal (bytes : list Z) (d1 d2 : outcome value)
| ObsRaw (d : outcome value)
| ObsPanic.

Definition omap {A B} (f : A -> B) (o : outcome A) : outcome B :=
  match o with Ok a => Ok (f a) | Err => Err | OutOfFuel => OutOfFuel end.

Definition to_params (e : endian) (v : value) : list param :=
  match v with
  | VQos q => qos_to_params e q
  | VSpdp s => spdp_to_params e s
  | VReader r => reader_to_params e r
  | VWriter w => writer_to_params e w
  | VTopic t => topic_to_params e t
  | VPmd _ => []
  | VKey k g => key_to_params k g
  end.
(* ParticipantMessageData is plain CDR: no parameter list, nothing can be inserted *)
Definition encode (e : endian) (v : value) (ins : list (nat * param)) : list Z :=
  match v with
  | VPmd p => enc_pmd e p
  | _ => enc_pl e (insert_all ins (to_params e v))
  end.
Definition decode (e : endian) (k : kind) (bs : list Z) : outcome value :=
  match k with
  | KQos => omap VQos (decode_qos e bs)
  | KSpdp => omap VSpdp (decode_spdp e bs)
  | KReader => omap VReader (decode_reader e bs)
  | KWriter => omap VWriter (decode_writer e bs)
  | KTopic => omap VTopic (decode_topic e bs)
  | KPmd => omap VPmd (decode_pmd e bs)
  | KKey k => omap (VKey k) (decode_key e k bs)
  end.

Definition run (c : case) : obs :=
  match c with
  | CVal e v ins => ObsVal (encode e v []) (decode e (kind_of v) (encode e v []))
                           (decode e (kind_of v) (encode e v ins))
  | CRaw e k bs => ObsRaw (decode e k bs)
  end.

(* ------------------------------------------------------------------------------------------ *)
(* decidable equalities (transparent, so that vm_compute evaluates them) *)
Definition duration_eq_dec (a b : duration) : {a = b} + {a <> b}.
Proof. decide equality; apply Z.eq_dec. Defined.
Definition durability_eq_dec (a b : durability) : {a = b} + {a <> b}.
Proof. decide equality. Defined.
Definition presentation_eq_dec (a b : presentation) : {a = b} + {a <> b}.
Proof. decide equality; try apply Bool.bool_dec. decide equality. Defined.
Definition ownership_eq_dec (a b : ownership) : {a = b} + {a <> b}.
Proof. decide equality; apply Z.eq_dec. Defined.
Definition liveliness_eq_dec (a b : liveliness) : {a = b} + {a <> b}.
Proof. decide equality; apply duration_eq_dec. Defined.
Definition reliability_eq_dec (a b : reliability) : {a = b} + {a <> b}.
Proof. decide equality; apply duration_eq_dec. Defined.
Definition dest_order_eq_dec (a b : dest_order) : {a = b} + {a <> b}.
Proof. decide equality. Defined.
Definition history_eq_dec (a b : history) : {a = b} + {a <> b}.
Proof. decide equality; apply Z.eq_dec. Defined.
Definition resource_limits_eq_dec (a b : resource_limits) : {a = b} + {a <> b}.
Proof. decide equality; apply Z.eq_dec. Defined.
Definition option_eq_dec {A} (d : forall a b : A, {a = b} + {a <> b}) (a b : option A) : {a = b} + {a <> b}.
Proof. decide equality. Defined.
Definition qos_eq_dec (a b : qos) : {a = b} + {a <> b}.
Proof.
  decide equality; apply option_eq_dec;
    first [apply duration_eq_dec | apply durability_eq_dec | apply presentation_eq_dec
          | apply ownership_eq_dec | apply liveliness_eq_dec | apply reliability_eq_dec
          | apply dest_order_eq_dec | apply history_eq_dec | apply resource_limits_eq_dec].
Defined.
Definition bytes_eq_dec (a b : list Z) : {a = b} + {a <> b} := list_eq_dec Z.eq_dec a b.
Definition pair_eq_dec (a b : Z * Z) : {a = b} + {a <> b}.
Proof. decide equality; apply Z.eq_dec. Defined.
Definition locator_eq_dec (a b : locator) : {a = b} + {a <> b}.
Proof. decide equality; first [apply Z.eq_dec | apply bytes_eq_dec]. Defined.
Definition spdp_eq_dec (a b : spdp) : {a = b} + {a <> b}.
Proof.
  decide equality;
    first [apply Z.eq_dec | apply bytes_eq_dec | apply pair_eq_dec | apply Bool.bool_dec
          | apply (list_eq_dec locator_eq_dec) | apply (option_eq_dec duration_eq_dec)
          | apply (option_eq_dec Z.eq_dec) | apply (option_eq_dec bytes_eq_dec)
          | apply (option_eq_dec pair_eq_dec)].
Defined.
Definition content_filter_eq_dec (a b : content_filter) : {a = b} + {a <> b}.
Proof. decide equality; first [apply bytes_eq_dec | apply (list_eq_dec bytes_eq_dec)]. Defined.
Definition reader_data_eq_dec (a b : reader_data) : {a = b} + {a <> b}.
Proof.
  decide equality;
    first [apply bytes_eq_dec | apply Bool.bool_dec | apply (list_eq_dec locator_eq_dec)
          | apply (option_eq_dec bytes_eq_dec) | apply qos_eq_dec | apply (option_eq_dec content_filter_eq_dec)
          | apply (option_eq_dec pair_eq_dec)].
Defined.
Definition writer_data_eq_dec (a b : writer_data) : {a = b} + {a <> b}.
Proof.
  decide equality;
    first [apply bytes_eq_dec | apply (list_eq_dec locator_eq_dec) | apply (option_eq_dec Z.eq_dec)
          | apply (option_eq_dec bytes_eq_dec) | apply qos_eq_dec
          | apply (option_eq_dec (list_eq_dec bytes_eq_dec)) | apply (option_eq_dec pair_eq_dec)].
Defined.
Definition topic_data_eq_dec (a b : topic_data) : {a = b} + {a <> b}.
Proof. decide equality; first [apply bytes_eq_dec | apply (option_eq_dec bytes_eq_dec) | apply qos_eq_dec]. Defined.
Definition pmd_eq_dec (a b : pmd) : {a = b} + {a <> b}.
Proof. decide equality; apply bytes_eq_dec. Defined.
Definition key_kind_eq_dec (a b : key_kind) : {a = b} + {a <> b}.
Proof. decide equality. Defined.
Definition value_eq_dec (a b : value) : {a = b} + {a <> b}.
Proof.
  decide equality; first [apply qos_eq_dec | apply spdp_eq_dec | apply reader_data_eq_dec
                         | apply writer_data_eq_dec | apply topic_data_eq_dec | apply pmd_eq_dec
                         | apply bytes_eq_dec | apply key_kind_eq_dec].
Defined.
Definition outcome_eq_dec {A} (d : forall a b : A, {a = b} + {a <> b}) (a b : outcome A) : {a = b} + {a <> b}.
Proof. decide equality. Defined.
Definition obs_eq_dec (a b : obs) : {a = b} + {a <> b}.
Proof. decide equality; first [apply (outcome_eq_dec value_eq_dec) | apply bytes_eq_dec]. Defined.

Definition obs_eqb (a b : obs) : bool := if obs_eq_dec a b then true else false.
Definition oeqb (a b : outcome value) : bool := if outcome_eq_dec value_eq_dec a b then true else false.

(* ------------------------------------------------------------------------------------------ *)
(* boolean well-formedness (the machine ranges) *)
Definition i32_okb n := (-2147483648 <=? n) && (n <? 2147483648).
Definition u32_okb n := (0 <=? n) && (n <? 4294967296).
Definition u16_okb n := (0 <=? n) && (n <? 65536).
Definition duration_okb (d : duration) := i32_okb (fst d) && u32_okb (snd d).
Definition oallb {A} (p : A -> bool) (o : option A) : bool := match o with Some a => p a | None => true end.
Definition qos_okb (q : qos) : bool :=
  oallb duration_okb (q_deadline q) && oallb duration_okb (q_latency_budget q) &&
  oallb (fun o => match o with Shared => true | Exclusive s => i32_okb s end) (q_ownership q) &&
  oallb (fun l => duration_okb (liveliness_lease l)) (q_liveliness q) &&
  oallb duration_okb (q_time_based_filter q) &&
  oallb (fun r => match r with BestEffort => true | Reliable d => duration_okb d end) (q_reliability q) &&
  oallb (fun h => match h with KeepLast d => i32_okb d | KeepAll => true end) (q_history q) &&
  oallb (fun r => i32_okb (max_samples r) && i32_okb (max_instances r) && i32_okb (max_samples_per_instance r))
        (q_resource_limits q) &&
  oallb duration_okb (q_lifespan q).

Definition locator_okb (l : locator) : bool :=
  match l with
  | LInvalid | LReserved => true
  | LUdpV4 a b c d port => u16_okb port
  | LUdpV6 addr port flowinfo scope_id => (len addr =? 16) && u16_okb port && (flowinfo =? 0) && (scope_id =? 0)
  | LOther kind port addr =>
      i32_okb kind && negb (kind =? -1) && negb (kind =? 0) && negb (kind =? 1) && negb (kind =? 2) &&
      u32_okb port && (len addr =? 16)
  end.
Definition pstring_okb (s : list Z) : bool := utf8_valid s && (len s <=? 65527).
Definition secinfo_okb (allowed : Z) (s : secinfo) : bool :=
  u32_okb (fst s) && (Z.land (fst s) allowed =? fst s) && u32_okb (snd s).
Definition spdp_okb (v : spdp) : bool :=
  (len (sp_participant_guid v) =? 16) &&
  forallb locator_okb (sp_metatraffic_unicast_locators v) &&
  forallb locator_okb (sp_metatraffic_multicast_locators v) &&
  forallb locator_okb (sp_default_unicast_locators v) &&
  forallb locator_okb (sp_default_multicast_locators v) &&
  u32_okb (sp_available_builtin_endpoints v) &&
  oallb duration_okb (sp_lease_duration v) &&
  i32_okb (sp_manual_liveliness_count v) &&
  oallb u32_okb (sp_builtin_endpoint_qos v) &&
  oallb pstring_okb (sp_entity_name v) &&
  oallb (secinfo_okb PARTICIPANT_SEC_BITS) (sp_security_info v).

Definition is_none {A} (o : option A) : bool := match o with None => true | Some _ => false end.
Definition is_nil {A} (l : list A) : bool := match l with [] => true | _ => false end.
Definition guid_okb (g : guid) : bool := len g =? 16.
Definition string_okb (s : list Z) : bool := utf8_valid s && (len s + 1 <? 4294967296).
Definition cfp_okb (c : content_filter) : bool :=
  string_okb (cf_name c) && string_okb (cf_related c) && string_okb (cf_class c) && string_okb (cf_expr c) &&
  forallb string_okb (cf_params c) && (len (enc_cfp LE c) <=? 65532) && (len (enc_cfp BE c) <=? 65532).
Definition reader_okb (v : reader_data) : bool :=
  guid_okb (rd_remote_reader_guid v) && (if bytes_eq_dec (rd_key v) (rd_remote_reader_guid v) then true else false) &&
  forallb locator_okb (rd_unicast v) && forallb locator_okb (rd_multicast v) &&
  oallb guid_okb (rd_participant_key v) && pstring_okb (rd_topic_name v) && pstring_okb (rd_type_name v) &&
  qos_okb (rd_qos v) && is_none (q_history (rd_qos v)) && is_none (q_resource_limits (rd_qos v)) &&
  oallb cfp_okb (rd_content_filter v) && oallb (secinfo_okb ENDPOINT_SEC_BITS) (rd_security_info v).
Definition topic_okb (v : topic_data) : bool :=
  oallb guid_okb (td_key v) && pstring_okb (td_name v) && pstring_okb (td_type_name v) &&
  qos_okb (td_qos v) && is_none (q_time_based_filter (td_qos v)).
Definition pmd_okb (p : pmd) : bool :=
  (len (pm_guid p) =? 12) && (len (pm_kind p) =? 4) && (len (pm_data p) <? 4294967296).

Definition aliases_okb (l : list (list Z)) : bool := negb (is_nil l) && forallb pstring_okb l.
Definition writer_okb (v : writer_data) : bool :=
  guid_okb (wd_remote_writer_guid v) && (if bytes_eq_dec (wd_key v) (wd_remote_writer_guid v) then true else false) &&
  forallb locator_okb (wd_unicast v) && forallb locator_okb (wd_multicast v) &&
  oallb u32_okb (wd_data_max_size_serialized v) &&
  oallb guid_okb (wd_participant_key v) && pstring_okb (wd_topic_name v) && pstring_okb (wd_type_name v) &&
  qos_okb (wd_qos v) && is_none (q_history (wd_qos v)) && is_none (q_resource_limits (wd_qos v)) &&
  oallb pstring_okb (wd_service_instance_name v) && oallb guid_okb (wd_related_datareader_key v) &&
  oallb aliases_okb (wd_topic_aliases v) && oallb (secinfo_okb ENDPOINT_SEC_BITS) (wd_security_info v).

Definition value_okb (v : value) : bool :=
  match v with
  | VQos q => qos_okb q | VSpdp s => spdp_okb s | VReader r => reader_okb r
  | VWriter w => writer_okb w | VTopic t => topic_okb t | VPmd p => pmd_okb p
  | VKey _ g => guid_okb g
  end.
Definition value_ok (v : value) : Prop :=
  match v with
  | VQos q => qos_ok q | VSpdp s => spdp_ok s | VReader r => reader_ok r
  | VWriter w => writer_ok w | VTopic t => topic_ok t | VPmd p => pmd_ok p
  | VKey _ g => guid_ok g
  end.

(* the parameter ids the deserialiser of each kind looks at *)
Definition known_pids (k : kind) : list Z :=
  match k with
  | KQos => qos_pids | KSpdp => spdp_pids | KReader => reader_pids | KWriter => writer_pids
  | KTopic => topic_pids | KPmd => [] | KKey k => [key_pid k]
  end.

(* a foreign parameter: id fits, is not the sentinel, is not looked at, value fits the length field *)
Definition foreign_okb (k : kind) (p : param) : bool :=
  u16_okb (fst p) && negb (fst p =? PID_SENTINEL) && negb (existsb (Z.eqb (fst p)) (known_pids k)) &&
  (len (snd p) <=? 65532).
Definition ins_okb (k : kind) (ins : list (nat * param)) : bool := forallb (fun i => foreign_okb k (snd i)) ins.

(* defaults: what an absent parameter must decode to.  `absent pid` is judged on the wire bytes. *)
Definition absent (e : endian) (bs : list Z) (pid : Z) : bool :=
  match dec_pl e bs with Ok ps => match lookup_all ps pid with [] => true | _ => false end | _ => false end.
Definition implb' (a b : bool) : bool := if a then b else true.

Definition qos_defaults_okb (ab : Z -> bool) (q : qos) : bool :=
  implb' (ab PID_DURABILITY) (is_none (q_durability q)) &&
  implb' (ab PID_PRESENTATION) (is_none (q_presentation q)) &&
  implb' (ab PID_DEADLINE) (is_none (q_deadline q)) &&
  implb' (ab PID_LATENCY_BUDGET) (is_none (q_latency_budget q)) &&
  implb' (ab PID_OWNERSHIP) (is_none (q_ownership q)) &&
  implb' (ab PID_LIVELINESS) (is_none (q_liveliness q)) &&
  implb' (ab PID_TIME_BASED_FILTER) (is_none (q_time_based_filter q)) &&
  implb' (ab PID_RELIABILITY) (is_none (q_reliability q)) &&
  implb' (ab PID_DESTINATION_ORDER) (is_none (q_destination_order q)) &&
  implb' (ab PID_HISTORY) (is_none (q_history q)) &&
  implb' (ab PID_RESOURCE_LIMITS) (is_none (q_resource_limits q)) &&
  implb' (ab PID_LIFESPAN) (is_none (q_lifespan q)).


(* SpdpDiscoveredParticipantData: expects_inline_qos = false, manual_liveliness_count = 0,
   empty locator lists, None *)
Definition spdp_defaults_okb (ab : Z -> bool) (v : spdp) : bool :=
  implb' (ab PID_EXPECTS_INLINE_QOS) (negb (sp_expects_inline_qos v)) &&
  implb' (ab PID_PARTICIPANT_MANUAL_LIVELINESS_COUNT) (sp_manual_liveliness_count v =? 0) &&
  implb' (ab PID_METATRAFFIC_UNICAST_LOCATOR) (is_nil (sp_metatraffic_unicast_locators v)) &&
  implb' (ab PID_METATRAFFIC_MULTICAST_LOCATOR) (is_nil (sp_metatraffic_multicast_locators v)) &&
  implb' (ab PID_DEFAULT_UNICAST_LOCATOR) (is_nil (sp_default_unicast_locators v)) &&
  implb' (ab PID_DEFAULT_MULTICAST_LOCATOR) (is_nil (sp_default_multicast_locators v)) &&
  implb' (ab PID_PARTICIPANT_LEASE_DURATION) (is_none (sp_lease_duration v)) &&
  implb' (ab PID_BUILTIN_ENDPOINT_QOS) (is_none (sp_builtin_endpoint_qos v)) &&
  implb' (ab PID_ENTITY_NAME) (is_none (sp_entity_name v)) &&
  implb' (ab PID_PARTICIPANT_SECURITY_INFO) (is_none (sp_security_info v)).

Definition reader_defaults_okb (ab : Z -> bool) (v : reader_data) : bool :=
  implb' (ab PID_EXPECTS_INLINE_QOS) (negb (rd_expects_inline_qos v)) &&
  implb' (ab PID_UNICAST_LOCATOR) (is_nil (rd_unicast v)) &&
  implb' (ab PID_MULTICAST_LOCATOR) (is_nil (rd_multicast v)) &&
  implb' (ab PID_PARTICIPANT_GUID) (is_none (rd_participant_key v)) &&
  implb' (ab PID_CONTENT_FILTER_PROPERTY) (is_none (rd_content_filter v)) &&
  implb' (ab PID_ENDPOINT_SECURITY_INFO) (is_none (rd_security_info v)) &&
  qos_defaults_okb ab (rd_qos v).
Definition writer_defaults_okb (ab : Z -> bool) (v : writer_data) : bool :=
  implb' (ab PID_UNICAST_LOCATOR) (is_nil (wd_unicast v)) &&
  implb' (ab PID_MULTICAST_LOCATOR) (is_nil (wd_multicast v)) &&
  implb' (ab PID_TYPE_MAX_SIZE_SERIALIZED) (is_none (wd_data_max_size_serialized v)) &&
  implb' (ab PID_PARTICIPANT_GUID) (is_none (wd_participant_key v)) &&
  implb' (ab PID_SERVICE_INSTANCE_NAME) (is_none (wd_service_instance_name v)) &&
  implb' (ab PID_RELATED_ENTITY_GUID) (is_none (wd_related_datareader_key v)) &&
  implb' (ab PID_TOPIC_ALIASES) (is_none (wd_topic_aliases v)) &&
  implb' (ab PID_ENDPOINT_SECURITY_INFO) (is_none (wd_security_info v)) &&
  qos_defaults_okb ab (wd_qos v).
Definition topic_defaults_okb (ab : Z -> bool) (v : topic_data) : bool :=
  implb' (ab PID_ENDPOINT_GUID) (is_none (td_key v)) && qos_defaults_okb ab (td_qos v).

Definition defaults_okb (ab : Z -> bool) (v : value) : bool :=
  match v with
  | VQos q => qos_defaults_okb ab q
  | VSpdp s => spdp_defaults_okb ab s
  | VReader r => reader_defaults_okb ab r
  | VWriter w => writer_defaults_okb ab w
  | VTopic t => topic_defaults_okb ab t
  | VPmd _ => true
  | VKey _ _ => true
  end.

(* The property oracle, on observables only.
   - a well-formed value comes back unchanged, also with foreign parameters interleaved;
   - whatever was decoded (from any bytes) has the default in every field whose parameter is absent;
   - the implementation never panics. *)
Definition ok (c : case) (o : obs) : bool :=
  match c, o with
  | CVal e v ins, ObsVal bytes d1 d2 =>
      implb' (value_okb v)
        (oeqb d1 (Ok v) && implb' (ins_okb (kind_of v) ins) (oeqb d2 (Ok v)))
      && match d1 with Ok v1 => defaults_okb (absent e bytes) v1 | _ => true end
  | CRaw e k bs, ObsRaw d =>
      match d with Ok v => defaults_okb (absent e bs) v | _ => true end
  | _, _ => false
  end.
