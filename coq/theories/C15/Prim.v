(* C15 — primitive byte codecs (own copy, independent of C14): the wire contract of the `speedy`
   Reader/Writer for the types the PL-CDR layer uses.

   bytes are `Z` in 0..255, byte strings are `list Z`.  A reader consumes a prefix of its input and
   returns the rest (speedy's BufferReader: sequential reads, `read_from_buffer_with_ctx` ignores
   trailing bytes — speedy-0.8.7/src/readable.rs `read_with_length_from_buffer_with_ctx`). *)
From Coq Require Import List ZArith Lia Bool.
Import ListNotations.
Open Scope Z_scope.

Inductive endian := LE | BE.

(* decoding outcome of the parameter-list loop: a decoding error (any speedy::Error /
   PlCdrDeserializeError) is [Err]; [OutOfFuel] is the model-only outcome of the fuelled loop and is
   proved impossible (PL.dec_pl_never_out_of_fuel). *)
Inductive outcome (A : Type) := Ok (a : A) | Err | OutOfFuel.
Arguments Ok {A} a.
Arguments Err {A}.
Arguments OutOfFuel {A}.

(* ------------------------------------------------------------------------------------------ *)
(* reader monad *)
Definition reader (A : Type) := list Z -> option (A * list Z).
Definition ret {A} (a : A) : reader A := fun bs => Some (a, bs).
Definition fail {A} : reader A := fun _ => None.
Definition bind {A B} (r : reader A) (f : A -> reader B) : reader B :=
  fun bs => match r bs with Some (a, rest) => f a rest | None => None end.
Notation "x <- r ;; k" := (bind r (fun x => k)) (at level 61, r at next level, right associativity).
Notation "' pat <- r ;; k" := (bind r (fun x => match x with pat => k end))
  (at level 61, pat pattern, r at next level, right associativity).

(* Readable::read_from_buffer_with_ctx(ctx, buf): run the reader, drop what is left *)
Definition parse {A} (r : reader A) (bs : list Z) : option A :=
  match r bs with Some (a, _) => Some a | None => None end.

(* ------------------------------------------------------------------------------------------ *)
(* raw bytes *)
Definition len (l : list Z) : Z := Z.of_nat (length l).

(* reader.read_bytes / read_vec::<u8>(n) / skip_bytes(n): fails at end of input *)
Definition take (n : Z) : reader (list Z) := fun bs =>
  if (0 <=? n) && (n <=? len bs) then Some (firstn (Z.to_nat n) bs, skipn (Z.to_nat n) bs) else None.

Definition read_u8 : reader Z := fun bs => match bs with b :: r => Some (b, r) | [] => None end.

Definition zeros (n : Z) : list Z := repeat 0 (Z.to_nat n).

Lemma len_app a b : len (a ++ b) = len a + len b.
Proof. unfold len. rewrite app_length. lia. Qed.
Lemma len_nonneg a : 0 <= len a.
Proof. unfold len. lia. Qed.
Lemma len_zeros n : 0 <= n -> len (zeros n) = n.
Proof. intros. unfold len, zeros. rewrite repeat_length. lia. Qed.
Lemma len_cons x a : len (x :: a) = 1 + len a.
Proof. unfold len. cbn [length]. lia. Qed.
Lemma len_nil : len [] = 0.
Proof. reflexivity. Qed.

Lemma take_app (v rest : list Z) : take (len v) (v ++ rest) = Some (v, rest).
Proof.
  unfold take. rewrite len_app.
  assert (H := len_nonneg v). assert (H' := len_nonneg rest).
  replace ((0 <=? len v) && (len v <=? len v + len rest)) with true
    by (symmetry; apply andb_true_iff; split; apply Z.leb_le; lia).
  unfold len. rewrite Nat2Z.id.
  rewrite firstn_app, skipn_app, Nat.sub_diag, firstn_all, skipn_all. cbn.
  now rewrite app_nil_r.
Qed.

Lemma take_app_n n (v rest : list Z) : n = len v -> take n (v ++ rest) = Some (v, rest).
Proof. intros ->. apply take_app. Qed.

Lemma take_len n bs v rest : take n bs = Some (v, rest) -> bs = v ++ rest /\ len v = n.
Proof.
  unfold take. destruct ((0 <=? n) && (n <=? len bs)) eqn:E; [|discriminate].
  apply andb_true_iff in E as [E1 E2]. apply Z.leb_le in E1. apply Z.leb_le in E2.
  intros H. inversion H; subst. split.
  - symmetry. apply firstn_skipn.
  - unfold len in *. rewrite firstn_length. lia.
Qed.

(* ------------------------------------------------------------------------------------------ *)
(* unsigned integers of k bytes *)
Fixpoint le_bytes (k : nat) (n : Z) : list Z :=
  match k with O => [] | S k' => (n mod 256) :: le_bytes k' (n / 256) end.
Fixpoint le_val (l : list Z) : Z :=
  match l with [] => 0 | b :: l' => b + 256 * le_val l' end.

Definition enc_uint (k : nat) (e : endian) (n : Z) : list Z :=
  match e with LE => le_bytes k n | BE => rev (le_bytes k n) end.
Definition dec_uint (k : nat) (e : endian) : reader Z := fun bs =>
  match take (Z.of_nat k) bs with
  | Some (h, rest) => Some (le_val (match e with LE => h | BE => rev h end), rest)
  | None => None
  end.

Lemma le_bytes_length k n : length (le_bytes k n) = k.
Proof. revert n; induction k; intros; cbn; auto. Qed.

Lemma le_val_bytes k n : 0 <= n < 256 ^ (Z.of_nat k) -> le_val (le_bytes k n) = n.
Proof.
  revert n; induction k; intros n H.
  - cbn in *. lia.
  - cbn [le_bytes le_val]. rewrite IHk.
    + pose proof (Z.div_mod n 256). lia.
    + rewrite Nat2Z.inj_succ, Z.pow_succ_r in H by lia.
      split; [apply Z.div_pos; lia | apply Z.div_lt_upper_bound; lia].
Qed.

Lemma enc_uint_length k e n : len (enc_uint k e n) = Z.of_nat k.
Proof. unfold len. destruct e; cbn; rewrite ?rev_length, le_bytes_length; auto. Qed.

Lemma dec_enc_uint k e n rest :
  0 <= n < 256 ^ (Z.of_nat k) -> dec_uint k e (enc_uint k e n ++ rest) = Some (n, rest).
Proof.
  intros H. unfold dec_uint. rewrite take_app_n by (now rewrite enc_uint_length).
  destruct e; cbn; rewrite ?rev_involutive, le_val_bytes; auto.
Qed.

Definition enc_u16 := enc_uint 2.
Definition dec_u16 := dec_uint 2.
Definition enc_u32 := enc_uint 4.
Definition dec_u32 := dec_uint 4.

(* i32: two's complement *)
Definition enc_i32 (e : endian) (n : Z) : list Z := enc_uint 4 e (n mod 4294967296).
Definition dec_i32 (e : endian) : reader Z :=
  v <- dec_uint 4 e ;; ret (if v <? 2147483648 then v else v - 4294967296).

Definition u8_ok (n : Z) := 0 <= n < 256.
Definition u16_ok (n : Z) := 0 <= n < 65536.
Definition u32_ok (n : Z) := 0 <= n < 4294967296.
Definition i32_ok (n : Z) := -2147483648 <= n < 2147483648.

Lemma dec_enc_u16 e n rest : u16_ok n -> dec_u16 e (enc_u16 e n ++ rest) = Some (n, rest).
Proof. intros. apply dec_enc_uint. exact H. Qed.
Lemma dec_enc_u32 e n rest : u32_ok n -> dec_u32 e (enc_u32 e n ++ rest) = Some (n, rest).
Proof. intros. apply dec_enc_uint. exact H. Qed.
Lemma dec_enc_i32 e n rest : i32_ok n -> dec_i32 e (enc_i32 e n ++ rest) = Some (n, rest).
Proof.
  intros H. unfold dec_i32, enc_i32, bind, i32_ok in *.
  rewrite dec_enc_uint by (apply Z.mod_pos_bound; lia).
  unfold ret. f_equal. f_equal.
  destruct (Z.ltb_spec (n mod 4294967296) 2147483648) as [L|L].
  - destruct (Z_lt_dec n 0).
    + replace n with ((n + 4294967296) - 1 * 4294967296) in L by lia.
      rewrite Zminus_mod, Z_mod_mult, Z.sub_0_r, Z.mod_mod, Z.mod_small in L by lia. lia.
    + rewrite Z.mod_small by lia. reflexivity.
  - destruct (Z_lt_dec n 0).
    + replace n with ((n + 4294967296) - 1 * 4294967296) at 1 by lia.
      rewrite Zminus_mod, Z_mod_mult, Z.sub_0_r, Z.mod_mod, Z.mod_small by lia. lia.
    + rewrite Z.mod_small in L by lia. lia.
Qed.

Lemma enc_u16_len e n : len (enc_u16 e n) = 2. Proof. apply enc_uint_length. Qed.
Lemma enc_u32_len e n : len (enc_u32 e n) = 4. Proof. apply enc_uint_length. Qed.
Lemma enc_i32_len e n : len (enc_i32 e n) = 4. Proof. apply enc_uint_length. Qed.

(* bool: Writable writes 1/0 as u8; Readable: 0 -> false, anything else -> true *)
Definition enc_bool (b : bool) : list Z := [if b then 1 else 0].
Definition dec_bool : reader bool := v <- read_u8 ;; ret (negb (v =? 0)).
Lemma dec_enc_bool b rest : dec_bool (enc_bool b ++ rest) = Some (b, rest).
Proof. destruct b; reflexivity. Qed.

(* ------------------------------------------------------------------------------------------ *)
(* UTF-8 validity exactly as core::str::from_utf8 (Unicode table 3-7 of well-formed sequences),
   as a byte-driven automaton.  State (n, lo, hi): n continuation bytes still expected, the next one
   must lie in lo..hi.  n = 0 is the accepting state. *)
Definition ustate := (Z * Z * Z)%type.
Definition u_accept : ustate := (0, 0, 0).
Definition utf8_step (st : option ustate) (b : Z) : option ustate :=
  match st with
  | None => None
  | Some (n, lo, hi) =>
    if n =? 0 then
      if (0 <=? b) && (b <=? 127) then Some u_accept
      else if (194 <=? b) && (b <=? 223) then Some (1, 128, 191)
      else if b =? 224 then Some (2, 160, 191)
      else if ((225 <=? b) && (b <=? 236)) || (b =? 238) || (b =? 239) then Some (2, 128, 191)
      else if b =? 237 then Some (2, 128, 159)
      else if b =? 240 then Some (3, 144, 191)
      else if (241 <=? b) && (b <=? 243) then Some (3, 128, 191)
      else if b =? 244 then Some (3, 128, 143)
      else None
    else
      if (lo <=? b) && (b <=? hi) then
        (if n =? 1 then Some u_accept else Some (n - 1, 128, 191))
      else None
  end.
Definition utf8_run (st : option ustate) (s : list Z) : option ustate := fold_left utf8_step s st.
Definition utf8_valid (s : list Z) : bool :=
  match utf8_run (Some u_accept) s with Some (n, _, _) => n =? 0 | None => false end.

(* String::pop(): remove the last char = strip trailing continuation bytes 10xxxxxx and then one
   more byte (on valid UTF-8 this is exactly the last scalar value).  None on the empty string. *)
Definition is_cont (b : Z) : bool := (128 <=? b) && (b <=? 191).
Fixpoint drop_cont (r : list Z) : list Z :=
  match r with b :: r' => if is_cont b then drop_cont r' else r | [] => [] end.
Definition pop_char (s : list Z) : list Z :=
  match drop_cont (rev s) with _ :: r => rev r | [] => [] end.

Lemma utf8_valid_app_nul s : utf8_valid s = true -> utf8_valid (s ++ [0]) = true.
Proof.
  unfold utf8_valid, utf8_run. rewrite fold_left_app.
  destruct (fold_left utf8_step s (Some u_accept)) as [[[n lo] hi]|]; [|discriminate].
  intros H. cbn. rewrite H. reflexivity.
Qed.
Lemma pop_char_app_nul s : pop_char (s ++ [0]) = s.
Proof. unfold pop_char. rewrite rev_app_distr. cbn. apply rev_involutive. Qed.

(* StringWithNul (speedy_pl_cdr_helpers.rs).
   write_to : u32 (len+1), the bytes, NUL.   (No alignment before the length — "TODO" in the code.)
   read_from: String::read_from = u32 length, that many bytes, strict UTF-8 check; then pop the last
   char whatever it is (a non-NUL is only logged). *)
Definition enc_string (e : endian) (s : list Z) : list Z := enc_u32 e (len s + 1) ++ s ++ [0].
Definition dec_string (e : endian) : reader (list Z) :=
  n <- dec_u32 e ;; raw <- take n ;; if utf8_valid raw then ret (pop_char raw) else fail.
Definition string_ok (s : list Z) := utf8_valid s = true /\ len s + 1 < 4294967296.

Lemma dec_enc_string e s rest : string_ok s -> dec_string e (enc_string e s ++ rest) = Some (s, rest).
Proof.
  intros [U L]. unfold dec_string, enc_string, bind. rewrite <- !app_assoc.
  rewrite dec_enc_u32 by (pose proof (len_nonneg s); unfold u32_ok; lia).
  rewrite app_assoc. rewrite take_app_n by (rewrite len_app; reflexivity).
  rewrite utf8_valid_app_nul by exact U. rewrite pop_char_app_nul. reflexivity.
Qed.
Lemma enc_string_len e s : len (enc_string e s) = 4 + len s + 1.
Proof. unfold enc_string. rewrite !len_app, enc_u32_len, len_cons, len_nil. lia. Qed.

(* read_pad / write_pad (speedy_pl_cdr_helpers.rs): pad by the misalignment of the previous item *)
Definition pad_of (prev : Z) (align : Z) : Z := let m := prev mod align in if 0 <? m then align - m else 0.
Definition write_pad (prev align : Z) : list Z := zeros (pad_of prev align).
Definition read_pad (prev align : Z) : reader unit := fun bs =>
  let m := prev mod align in
  if 0 <? m then match take (align - m) bs with Some (_, r) => Some (tt, r) | None => None end
  else Some (tt, bs).
Lemma read_write_pad prev rest : read_pad prev 4 (write_pad prev 4 ++ rest) = Some (tt, rest).
Proof.
  unfold read_pad, write_pad, pad_of. pose proof (Z.mod_pos_bound prev 4 ltac:(lia)).
  destruct (Z.ltb_spec 0 (prev mod 4)); [|reflexivity].
  rewrite take_app_n; [reflexivity|]. rewrite len_zeros; lia.
Qed.
