(* C15 — property theorems only.  Proofs are one `exact`. *)
From Coq Require Import List ZArith.
From RD Require Import C15.Prim C15.PL C15.Qos C15.Disc C15.Sedp C15.Model C15.Proofs.
Import ListNotations.
Open Scope Z_scope.

(* ---- generic parameter-list layer ---------------------------------------------------------- *)
(* a written parameter list reads back as the same parameters (values zero-padded to 4), in both
   byte orders, whatever follows the sentinel *)
Theorem C15_pl_roundtrip : forall e ps rest,
  Forall param_ok ps -> dec_pl e (enc_pl e ps ++ rest) = Ok (map padp ps).
Proof. exact dec_enc_pl. Qed.
Print Assumptions C15_pl_roundtrip.

(* the fuel of the modelled read loop is never exhausted: Err really means a decoding error *)
Theorem C15_pl_fuel : forall e bs, dec_pl e bs <> OutOfFuel.
Proof. exact dec_pl_never_out_of_fuel. Qed.
Print Assumptions C15_pl_fuel.

(* a typed deserialiser that only looks at the ids in `pids` returns the same result when
   parameters with other ids are merged anywhere into the list (before the sentinel) *)
Theorem C15_unknown_skipped : forall A e (f : plmap -> option A) pids ps extra ps' rest,
  looks_only_at f pids ->
  Forall param_ok ps -> Forall (foreign pids) extra -> Merge ps extra ps' ->
  with_pl e (enc_pl e ps' ++ rest) f = with_pl e (enc_pl e ps ++ rest) f.
Proof. exact @with_pl_foreign. Qed.
Print Assumptions C15_unknown_skipped.

(* ---- QosPolicies ------------------------------------------------------------------------- *)
Theorem C15_roundtrip_qos : forall e q, qos_ok q -> decode_qos e (encode_qos e q) = Ok q.
Proof. exact roundtrip_qos. Qed.
Print Assumptions C15_roundtrip_qos.

Theorem C15_unknown_skipped_qos : forall e q extra ps',
  qos_ok q -> Forall (foreign qos_pids) extra -> Merge (qos_to_params e q) extra ps' ->
  decode_qos e (enc_pl e ps') = Ok q.
Proof. exact unknown_skipped_qos. Qed.
Print Assumptions C15_unknown_skipped_qos.

(* ---- SpdpDiscoveredParticipantData ------------------------------------------------------- *)
Theorem C15_roundtrip_spdp : forall e v, spdp_ok v -> decode_spdp e (encode_spdp e v) = Ok v.
Proof. exact roundtrip_spdp. Qed.
Print Assumptions C15_roundtrip_spdp.

Theorem C15_unknown_skipped_spdp : forall e v extra ps',
  spdp_ok v -> Forall (foreign spdp_pids) extra -> Merge (spdp_to_params e v) extra ps' ->
  decode_spdp e (enc_pl e ps') = Ok v.
Proof. exact unknown_skipped_spdp. Qed.
Print Assumptions C15_unknown_skipped_spdp.

(* ---- DiscoveredReaderData ---------------------------------------------------------------- *)
Theorem C15_roundtrip_reader : forall e v, reader_ok v -> decode_reader e (encode_reader e v) = Ok v.
Proof. exact roundtrip_reader. Qed.
Print Assumptions C15_roundtrip_reader.

Theorem C15_unknown_skipped_reader : forall e v extra ps',
  reader_ok v -> Forall (foreign reader_pids) extra -> Merge (reader_to_params e v) extra ps' ->
  decode_reader e (enc_pl e ps') = Ok v.
Proof. exact unknown_skipped_reader. Qed.
Print Assumptions C15_unknown_skipped_reader.

(* ---- DiscoveredWriterData (repaired code; see C15_writer_old_refuted) ----------------------- *)
Theorem C15_roundtrip_writer : forall e v, writer_ok v -> decode_writer e (encode_writer e v) = Ok v.
Proof. exact roundtrip_writer. Qed.
Print Assumptions C15_roundtrip_writer.

Theorem C15_unknown_skipped_writer : forall e v extra ps',
  writer_ok v -> Forall (foreign writer_pids) extra -> Merge (writer_to_params e v) extra ps' ->
  decode_writer e (enc_pl e ps') = Ok v.
Proof. exact unknown_skipped_writer. Qed.
Print Assumptions C15_unknown_skipped_writer.

(* pinned commit: service_instance_name / related_datareader_key / topic_aliases were written but
   never read back (repaired by a fix: commit; the witness is corpus case `writer_rpc_fields`) *)
Theorem C15_writer_old_refuted :
  exists e v, writer_ok v /\ decode_writer_old e (encode_writer e v) <> Ok v.
Proof. exact writer_old_refuted. Qed.
Print Assumptions C15_writer_old_refuted.

(* ---- DiscoveredTopicData ----------------------------------------------------------------- *)
Theorem C15_roundtrip_topic : forall e v, topic_ok v -> decode_topic e (encode_topic e v) = Ok v.
Proof. exact roundtrip_topic. Qed.
Print Assumptions C15_roundtrip_topic.

Theorem C15_unknown_skipped_topic : forall e v extra ps',
  topic_ok v -> Forall (foreign topic_pids) extra -> Merge (topic_to_params e v) extra ps' ->
  decode_topic e (enc_pl e ps') = Ok v.
Proof. exact unknown_skipped_topic. Qed.
Print Assumptions C15_unknown_skipped_topic.

(* ---- ParticipantMessageData (plain CDR) -------------------------------------------------- *)
Theorem C15_roundtrip_pmd : forall e p, pmd_ok p -> decode_pmd e (enc_pmd e p) = Ok p.
Proof. exact roundtrip_pmd. Qed.
Print Assumptions C15_roundtrip_pmd.

(* ---- Participant_GUID / Endpoint_GUID (dispose keys) --------------------------------------- *)
Theorem C15_roundtrip_key : forall e k g, guid_ok g -> decode_key e k (encode_key e k g) = Ok g.
Proof. exact roundtrip_key. Qed.
Print Assumptions C15_roundtrip_key.

(* ---- defaults ---------------------------------------------------------------------------- *)
(* whatever bytes were decoded: every field whose parameter is absent from the wire has its default *)
Theorem C15_defaults : forall e k bs v,
  decode e k bs = Ok v -> defaults_ok (Absent e bs) v.
Proof. exact decode_defaults. Qed.
Print Assumptions C15_defaults.

(* the executable well-formedness test used by the oracle implies the hypotheses of the theorems *)
Theorem C15_wf_reflect : forall v, value_okb v = true -> value_ok v.
Proof. exact value_okb_spec. Qed.
Print Assumptions C15_wf_reflect.

(* ---- oracle ------------------------------------------------------------------------------ *)
Theorem C15_oracle_sound : forall c o, ok c o = true <-> Spec c o.
Proof. exact ok_spec. Qed.
Print Assumptions C15_oracle_sound.

Theorem C15_model_ok : forall c, ok c (run c) = true.
Proof. exact run_ok. Qed.
Print Assumptions C15_model_ok.

(* ---- non-vacuity ------------------------------------------------------------------------- *)
Example qos_full : qos :=
  Build_qos (Some TransientLocal) (Some (Build_presentation ScGroup true false)) (Some (1, 2))
            (Some (0, 0)) (Some (Exclusive (-5))) (Some (ManualByTopic (2147483647, 4294967295)))
            (Some (0, 1)) (Some (Reliable (0, 429496729))) (Some BySource) (Some (KeepLast 7))
            (Some (Build_resource_limits (-1) 10 100)) (Some (-2147483648, 0)).
Example qos_full_ok : qos_okb qos_full = true. Proof. reflexivity. Qed.
Example qos_full_roundtrip_le : decode_qos LE (encode_qos LE qos_full) = Ok qos_full.
Proof. vm_compute. reflexivity. Qed.
Example qos_full_roundtrip_be : decode_qos BE (encode_qos BE qos_full) = Ok qos_full.
Proof. vm_compute. reflexivity. Qed.
Example qos_bytes_le : encode_qos LE (Build_qos None None None None (Some (Exclusive 1)) None None
                                       (Some BestEffort) None None None None) =
  [31;0;4;0; 1;0;0;0;   6;0;4;0; 1;0;0;0;   26;0;12;0; 1;0;0;0; 0;0;0;0; 0;0;0;0;   1;0;0;0].
Proof. vm_compute. reflexivity. Qed.
(* a vendor-specific parameter between ownership kind and strength is skipped *)
Example qos_foreign :
  decode_qos BE (enc_pl BE (insert_all [(1%nat, (32768, [1;2;3]))] (qos_to_params BE qos_full))) = Ok qos_full.
Proof. vm_compute. reflexivity. Qed.
Example foreign_ok : foreign_okb KQos (32768, [1;2;3]) = true. Proof. reflexivity. Qed.

Example spdp_ex : spdp :=
  Build_spdp (2, 3) (1, 18) false [1;2;3;4;5;6;7;8;9;10;11;12;0;0;1;193]
    [LUdpV4 127 0 0 1 7410; LUdpV6 [32;1;13;184;0;0;0;0;0;0;0;0;0;0;0;1] 7411 0 0] [] [LInvalid; LOther 8 70000 (zeros 16)] []
    402656319 (Some (20, 0)) 0 None (Some [104; 195; 169]) (Some (2147483649, 2147483648)).
Example spdp_ex_ok : spdp_okb spdp_ex = true. Proof. reflexivity. Qed.
Example spdp_ex_roundtrip : decode_spdp BE (encode_spdp BE spdp_ex) = Ok spdp_ex.
Proof. vm_compute. reflexivity. Qed.
(* a participant announcing only the mandatory parameters gets the RTPS defaults *)
Example spdp_minimal_defaults :
  decode_spdp LE (enc_pl LE [(21, [2;3]); (22, [1;18]); (80, [1;2;3;4;5;6;7;8;9;10;11;12;0;0;1;193]);
                            (88, [63;12;0;24])])
  = Ok (Build_spdp (2, 3) (1, 18) false [1;2;3;4;5;6;7;8;9;10;11;12;0;0;1;193] [] [] [] [] 402656319 None 0 None None None).
Proof. vm_compute. reflexivity. Qed.

Example reader_ex : reader_data :=
  Build_reader_data [1;2;3;4;5;6;7;8;9;10;11;12;0;0;1;7] true [LUdpV4 10 0 0 1 7411] []
    [1;2;3;4;5;6;7;8;9;10;11;12;0;0;1;7] (Some [1;2;3;4;5;6;7;8;9;10;11;12;0;0;1;193])
    [83;113;117;97;114;101] [83;104;97;112;101;84;121;112;101]
    (Build_qos (Some Volatile) None None None (Some Shared) None None (Some BestEffort) None None None None)
    (Some (Build_content_filter [102] [83;113] [68;68;83;83;81;76] [120;62;37;48] [[49;48]; []]))
    (Some (2147483651, 0)).
Example reader_ex_ok : reader_okb reader_ex = true. Proof. vm_compute. reflexivity. Qed.
Example reader_ex_roundtrip : decode_reader LE (encode_reader LE reader_ex) = Ok reader_ex.
Proof. vm_compute. reflexivity. Qed.
Example writer_witness_now : decode_writer LE (encode_writer LE writer_witness) = Ok writer_witness.
Proof. vm_compute. reflexivity. Qed.
Example writer_witness_okb : writer_okb writer_witness = true. Proof. vm_compute. reflexivity. Qed.
Example pmd_ex : decode_pmd BE (enc_pmd BE (Build_pmd [1;2;3;4;5;6;7;8;9;10;11;12] [0;0;0;1] [9;9;9]))
                 = Ok (Build_pmd [1;2;3;4;5;6;7;8;9;10;11;12] [0;0;0;1] [9;9;9]).
Proof. vm_compute. reflexivity. Qed.
Example topic_ex : topic_data :=
  Build_topic_data (Some [1;2;3;4;5;6;7;8;9;10;11;12;0;0;1;2]) [116;111;112;105;99] [84]
    (Build_qos (Some Persistent) None (Some (5, 0)) None None None None (Some (Reliable (0, 0))) None
               (Some KeepAll) (Some (Build_resource_limits 1 2 3)) None).
Example topic_ex_ok : topic_okb topic_ex = true. Proof. vm_compute. reflexivity. Qed.
Example topic_ex_roundtrip : decode_topic BE (encode_topic BE topic_ex) = Ok topic_ex.
Proof. vm_compute. reflexivity. Qed.
