(* C15 — SEDP data on the wire: DiscoveredReaderData, DiscoveredWriterData, DiscoveredTopicData
   (PL_CDR) and ParticipantMessageData (plain CDR).
   Rust: discovery/sedp_messages.rs, discovery/content_filter_property.rs.

   Not modelled: the three
   DDS-RPC fields of SubscriptionBuiltinTopicData (service_instance_name, related_datawriter_key,
   topic_aliases): they are private, `new` is the only constructor and sets them to None, the
   deserialiser never fills them. *)
From Coq Require Import List ZArith Lia Bool.
From RD Require Import C15.Prim C15.PL C15.Qos C15.Disc.
Import ListNotations.
Open Scope Z_scope.

Notation PID_ENDPOINT_GUID := 90 (only parsing).
Notation PID_UNICAST_LOCATOR := 47 (only parsing).
Notation PID_MULTICAST_LOCATOR := 48 (only parsing).
Notation PID_TOPIC_NAME := 5 (only parsing).
Notation PID_TYPE_NAME := 7 (only parsing).
Notation PID_CONTENT_FILTER_PROPERTY := 53 (only parsing).
Notation PID_TYPE_MAX_SIZE_SERIALIZED := 96 (only parsing).
Notation PID_SERVICE_INSTANCE_NAME := 128 (only parsing).
Notation PID_RELATED_ENTITY_GUID := 129 (only parsing).
Notation PID_TOPIC_ALIASES := 130 (only parsing).

(* ------------------------------------------------------------------------------------------ *)
(* ContentFilterProperty: four StringWithNul and a counted sequence of StringWithNul, each item
   preceded by the padding that the previous string's length (incl. NUL) calls for *)
Record content_filter := {
  cf_name : list Z; cf_related : list Z; cf_class : list Z; cf_expr : list Z; cf_params : list (list Z) }.

Fixpoint enc_strs (e : endian) (prev : Z) (l : list (list Z)) : list Z :=
  match l with
  | [] => []
  | s :: l' => write_pad prev 4 ++ enc_string e s ++ enc_strs e (len s + 1) l'
  end.

(* `for _ in 0..count { read_pad; read string }` — count comes from the wire: fuel.  Every
   iteration consumes at least 4 bytes, so fuel > input length is never exhausted (dec_strs_fuel). *)
Fixpoint dec_strs (fuel : nat) (e : endian) (count prev : Z) : reader (list (list Z)) :=
  if count <=? 0 then ret []
  else match fuel with
       | O => fail
       | S f => _ <- read_pad prev 4 ;; s <- dec_string e ;;
                l <- dec_strs f e (count - 1) (len s + 1) ;; ret (s :: l)
       end.

Definition llen {A} (l : list A) : Z := Z.of_nat (length l).

Definition enc_cfp (e : endian) (c : content_filter) : list Z :=
  enc_string e (cf_name c) ++ write_pad (len (cf_name c) + 1) 4 ++
  enc_string e (cf_related c) ++ write_pad (len (cf_related c) + 1) 4 ++
  enc_string e (cf_class c) ++ write_pad (len (cf_class c) + 1) 4 ++
  enc_string e (cf_expr c) ++ write_pad (len (cf_expr c) + 1) 4 ++
  enc_u32 e (llen (cf_params c) mod 4294967296) ++ enc_strs e 0 (cf_params c).

Definition dec_cfp (e : endian) : reader content_filter := fun bs =>
  (cftn <- dec_string e ;; _ <- read_pad (len cftn + 1) 4 ;;
   rtn <- dec_string e ;; _ <- read_pad (len rtn + 1) 4 ;;
   fcn <- dec_string e ;; _ <- read_pad (len fcn + 1) 4 ;;
   fe <- dec_string e ;; _ <- read_pad (len fe + 1) 4 ;;
   count <- dec_u32 e ;;
   eps <- dec_strs (S (length bs)) e count 0 ;;
   ret (Build_content_filter cftn rtn fcn fe eps)) bs.

Definition cfp_ok (c : content_filter) : Prop :=
  string_ok (cf_name c) /\ string_ok (cf_related c) /\ string_ok (cf_class c) /\ string_ok (cf_expr c) /\
  Forall string_ok (cf_params c) /\
  len (enc_cfp LE c) <= 65532 /\ len (enc_cfp BE c) <= 65532.

Lemma dec_enc_strs e l : forall f prev rest,
  Forall string_ok l -> (length l < f)%nat ->
  dec_strs f e (llen l) prev (enc_strs e prev l ++ rest) = Some (l, rest).
Proof.
  induction l as [|s l IH]; intros f prev rest H Hf.
  - destruct f; reflexivity.
  - inversion H; subst. destruct f; [cbn in Hf; lia|].
    cbn [dec_strs enc_strs]. unfold llen. cbn [length].
    destruct (Z.leb_spec (Z.of_nat (S (length l))) 0); [lia|].
    unfold bind. rewrite <- !app_assoc. rewrite read_write_pad.
    rewrite dec_enc_string by assumption.
    replace (Z.of_nat (S (length l)) - 1) with (llen l) by (unfold llen; lia).
    rewrite IH; [reflexivity | assumption | cbn in Hf; lia].
Qed.

Lemma enc_strs_len_ge e l prev : 4 * llen l <= len (enc_strs e prev l).
Proof.
  revert prev; induction l as [|s l IH]; intros prev; [cbn; lia|].
  cbn [enc_strs]. unfold llen in *. cbn [length]. rewrite !len_app, enc_string_len.
  pose proof (len_nonneg (write_pad prev 4)). pose proof (len_nonneg s). specialize (IH (len s + 1)). lia.
Qed.

Lemma rt_cfp e : RT (enc_cfp e) (dec_cfp e) cfp_ok.
Proof.
  intros c rest (H1 & H2 & H3 & H4 & H5 & L1 & L2). unfold dec_cfp, enc_cfp, bind.
  rewrite <- !app_assoc.
  rewrite dec_enc_string by assumption. rewrite read_write_pad.
  rewrite dec_enc_string by assumption. rewrite read_write_pad.
  rewrite dec_enc_string by assumption. rewrite read_write_pad.
  rewrite dec_enc_string by assumption. rewrite read_write_pad.
  assert (Hn : 0 <= llen (cf_params c) < 4294967296).
  { pose proof (enc_strs_len_ge e (cf_params c) 0).
    assert (len (enc_strs e 0 (cf_params c)) <= len (enc_cfp e c)).
    { unfold enc_cfp. rewrite !len_app.
      repeat match goal with |- context [len ?x] => lazymatch x with
        | enc_strs _ _ _ => fail | _ => lazymatch goal with H : 0 <= len x |- _ => fail | _ => pose proof (len_nonneg x) end end end.
      lia. }
    assert (len (enc_cfp e c) <= 65532) by (destruct e; assumption).
    unfold llen in *. lia. }
  rewrite Z.mod_small by exact Hn. rewrite dec_enc_u32 by exact Hn.
  rewrite dec_enc_strs; [destruct c; reflexivity | assumption |].
  pose proof (enc_strs_len_ge e (cf_params c) 0) as G. unfold llen, len in G.
  rewrite !app_length. lia.
Qed.

(* fuel irrelevance: the fuelled loop gives the same answer for any fuel above the input length *)
Lemma take_rest_le n bs v rest : take n bs = Some (v, rest) -> (length rest <= length bs)%nat.
Proof. intros H. apply take_len in H as [-> _]. rewrite app_length. lia. Qed.
Lemma dec_uint_rest k e bs v rest : dec_uint k e bs = Some (v, rest) -> (length rest + k = length bs)%nat.
Proof.
  unfold dec_uint. destruct (take (Z.of_nat k) bs) as [[h r]|] eqn:T; [|discriminate].
  intros H. inversion H; subst. apply take_len in T as [-> L]. rewrite app_length. unfold len in L. lia.
Qed.
Lemma dec_string_rest e bs s rest : dec_string e bs = Some (s, rest) -> (length rest + 4 <= length bs)%nat.
Proof.
  unfold dec_string, bind. destruct (dec_u32 e bs) as [[n r1]|] eqn:D; [|discriminate].
  apply dec_uint_rest in D. destruct (take n r1) as [[raw r2]|] eqn:T; [|discriminate].
  apply take_rest_le in T. destruct (utf8_valid raw); [|discriminate].
  intros H. inversion H; subst. lia.
Qed.
Lemma read_pad_rest p a bs rest : read_pad p a bs = Some (tt, rest) -> (length rest <= length bs)%nat.
Proof.
  unfold read_pad. destruct (0 <? p mod a).
  - destruct (take (a - p mod a) bs) as [[v r]|] eqn:T; [|discriminate].
    intros H. inversion H; subst. now apply take_rest_le in T.
  - intros H. inversion H; subst. lia.
Qed.

Lemma dec_strs_fuel e : forall f1 f2 count prev bs,
  (length bs < f1)%nat -> (length bs < f2)%nat -> dec_strs f1 e count prev bs = dec_strs f2 e count prev bs.
Proof.
  induction f1 as [|f1 IH]; intros f2 count prev bs H1 H2; [lia|].
  destruct f2 as [|f2]; [lia|]. cbn [dec_strs]. destruct (count <=? 0); [reflexivity|].
  unfold bind. destruct (read_pad prev 4 bs) as [[[] r1]|] eqn:P; [|reflexivity].
  apply read_pad_rest in P. destruct (dec_string e r1) as [[s r2]|] eqn:S; [|reflexivity].
  apply dec_string_rest in S. rewrite (IH f2) by lia. reflexivity.
Qed.

(* ------------------------------------------------------------------------------------------ *)
(* DiscoveredReaderData = ReaderProxy + SubscriptionBuiltinTopicData + content filter *)
Record reader_data := {
  rd_remote_reader_guid : guid;        (* reader_proxy.remote_reader_guid *)
  rd_expects_inline_qos : bool;
  rd_unicast : list locator;
  rd_multicast : list locator;
  rd_key : guid;                       (* subscription_topic_data.key *)
  rd_participant_key : option guid;
  rd_topic_name : list Z;
  rd_type_name : list Z;
  rd_qos : qos;                        (* subscription_topic_data.qos() *)
  rd_content_filter : option content_filter;
  rd_security_info : option secinfo }.         (* subscription_topic_data.security_info *)

(* Subscription/PublicationBuiltinTopicData::qos(): no history, no resource limits *)
Definition endpoint_qos (q : qos) : qos :=
  {| q_durability := q_durability q; q_presentation := q_presentation q; q_deadline := q_deadline q;
     q_latency_budget := q_latency_budget q; q_ownership := q_ownership q; q_liveliness := q_liveliness q;
     q_time_based_filter := q_time_based_filter q; q_reliability := q_reliability q;
     q_destination_order := q_destination_order q; q_history := None; q_resource_limits := None;
     q_lifespan := q_lifespan q |}.

Definition reader_to_params (e : endian) (v : reader_data) : list param :=
  [(PID_EXPECTS_INLINE_QOS, enc_bool (rd_expects_inline_qos v))] ++
  [(PID_ENDPOINT_GUID, enc_guid (rd_remote_reader_guid v))] ++     (* key is only compared, warn! *)
  params_of PID_UNICAST_LOCATOR (map (enc_locator e) (rd_unicast v)) ++
  params_of PID_MULTICAST_LOCATOR (map (enc_locator e) (rd_multicast v)) ++
  opt_param PID_PARTICIPANT_GUID enc_guid (rd_participant_key v) ++
  [(PID_TOPIC_NAME, enc_string e (rd_topic_name v))] ++
  [(PID_TYPE_NAME, enc_string e (rd_type_name v))] ++
  qos_to_params e (endpoint_qos (rd_qos v)) ++
  opt_param PID_CONTENT_FILTER_PROPERTY (enc_cfp e) (rd_content_filter v) ++
  opt_param PID_ENDPOINT_SECURITY_INFO (enc_secinfo e) (rd_security_info v).

Definition reader_from_map (e : endian) (m : plmap) : option reader_data :=
  guid <-? get_first dec_guid m PID_ENDPOINT_GUID ;;
  participant_guid <-? get_option dec_guid m PID_PARTICIPANT_GUID ;;
  eiq <-? get_option dec_bool m PID_EXPECTS_INLINE_QOS ;;
  let expects_inline_qos := unwrap_or eiq false in
  unicast <-? get_all (dec_locator e) m PID_UNICAST_LOCATOR ;;
  multicast <-? get_all (dec_locator e) m PID_MULTICAST_LOCATOR ;;
  topic_name <-? get_first (dec_string e) m PID_TOPIC_NAME ;;
  type_name <-? get_first (dec_string e) m PID_TYPE_NAME ;;
  content_filter <-? get_option (dec_cfp e) m PID_CONTENT_FILTER_PROPERTY ;;
  security_info <-? get_option (dec_secinfo ENDPOINT_SEC_BITS e) m PID_ENDPOINT_SECURITY_INFO ;;
  qos <-? qos_from_map e m ;;
  Some {| rd_remote_reader_guid := guid; rd_expects_inline_qos := expects_inline_qos;
          rd_unicast := unicast; rd_multicast := multicast; rd_key := guid;
          rd_participant_key := participant_guid; rd_topic_name := topic_name; rd_type_name := type_name;
          rd_qos := endpoint_qos qos; rd_content_filter := content_filter;
          rd_security_info := security_info |}.

Definition reader_pids : list Z := [90; 80; 67; 47; 48; 5; 7; 53; 4100] ++ qos_pids.
Definition encode_reader (e : endian) (v : reader_data) : list Z := enc_pl e (reader_to_params e v).
Definition decode_reader (e : endian) (bs : list Z) : outcome reader_data := with_pl e bs (reader_from_map e).

Definition reader_ok (v : reader_data) : Prop :=
  guid_ok (rd_remote_reader_guid v) /\ rd_key v = rd_remote_reader_guid v /\
  Forall locator_ok (rd_unicast v) /\ Forall locator_ok (rd_multicast v) /\
  oall guid_ok (rd_participant_key v) /\ pstring_ok (rd_topic_name v) /\ pstring_ok (rd_type_name v) /\
  qos_ok (rd_qos v) /\ q_history (rd_qos v) = None /\ q_resource_limits (rd_qos v) = None /\
  oall cfp_ok (rd_content_filter v) /\ oall (secinfo_ok ENDPOINT_SEC_BITS) (rd_security_info v).

(* ------------------------------------------------------------------------------------------ *)
(* DiscoveredWriterData = WriterProxy + PublicationBuiltinTopicData (last_updated is not serialised) *)
Record writer_data := {
  wd_remote_writer_guid : guid;
  wd_unicast : list locator;
  wd_multicast : list locator;
  wd_data_max_size_serialized : option Z;
  wd_key : guid;
  wd_participant_key : option guid;
  wd_topic_name : list Z;
  wd_type_name : list Z;
  wd_qos : qos;
  wd_service_instance_name : option (list Z);
  wd_related_datareader_key : option guid;
  wd_topic_aliases : option (list (list Z));
  wd_security_info : option secinfo }.

Definition writer_to_params (e : endian) (v : writer_data) : list param :=
  opt_param PID_TYPE_MAX_SIZE_SERIALIZED (enc_u32 e) (wd_data_max_size_serialized v) ++
  [(PID_ENDPOINT_GUID, enc_guid (wd_remote_writer_guid v))] ++
  params_of PID_UNICAST_LOCATOR (map (enc_locator e) (wd_unicast v)) ++
  params_of PID_MULTICAST_LOCATOR (map (enc_locator e) (wd_multicast v)) ++
  opt_param PID_PARTICIPANT_GUID enc_guid (wd_participant_key v) ++
  [(PID_TOPIC_NAME, enc_string e (wd_topic_name v))] ++
  [(PID_TYPE_NAME, enc_string e (wd_type_name v))] ++
  qos_to_params e (endpoint_qos (wd_qos v)) ++
  opt_param PID_SERVICE_INSTANCE_NAME (enc_string e) (wd_service_instance_name v) ++
  opt_param PID_RELATED_ENTITY_GUID enc_guid (wd_related_datareader_key v) ++
  params_of PID_TOPIC_ALIASES (map (enc_string e) (unwrap_or (wd_topic_aliases v) [])) ++
  opt_param PID_ENDPOINT_SECURITY_INFO (enc_secinfo e) (wd_security_info v).

(* the deserialiser as it was at the pinned commit: the three DDS-RPC fields are written by
   to_parameter_list but never read back (PublicationBuiltinTopicData::new sets them to None) *)
Definition writer_from_map_old (e : endian) (m : plmap) : option writer_data :=
  guid <-? get_first dec_guid m PID_ENDPOINT_GUID ;;
  participant_guid <-? get_option dec_guid m PID_PARTICIPANT_GUID ;;
  unicast <-? get_all (dec_locator e) m PID_UNICAST_LOCATOR ;;
  multicast <-? get_all (dec_locator e) m PID_MULTICAST_LOCATOR ;;
  topic_name <-? get_first (dec_string e) m PID_TOPIC_NAME ;;
  type_name <-? get_first (dec_string e) m PID_TYPE_NAME ;;
  data_max_size_serialized <-? get_option (dec_u32 e) m PID_TYPE_MAX_SIZE_SERIALIZED ;;
  security_info <-? get_option (dec_secinfo ENDPOINT_SEC_BITS e) m PID_ENDPOINT_SECURITY_INFO ;;
  qos <-? qos_from_map e m ;;
  Some {| wd_remote_writer_guid := guid; wd_unicast := unicast; wd_multicast := multicast;
          wd_data_max_size_serialized := data_max_size_serialized; wd_key := guid;
          wd_participant_key := participant_guid; wd_topic_name := topic_name; wd_type_name := type_name;
          wd_qos := endpoint_qos qos; wd_service_instance_name := None;
          wd_related_datareader_key := None; wd_topic_aliases := None;
          wd_security_info := security_info |}.

Definition writer_pids_old : list Z := [90; 80; 47; 48; 5; 7; 96; 4100] ++ qos_pids.
Definition encode_writer (e : endian) (v : writer_data) : list Z := enc_pl e (writer_to_params e v).
Definition decode_writer_old (e : endian) (bs : list Z) : outcome writer_data :=
  with_pl e bs (writer_from_map_old e).

(* after the repair (fix: commit in the repository): the three fields are read back.  An empty alias
   list writes no parameter, so it reads back as None. *)
Definition writer_from_map (e : endian) (m : plmap) : option writer_data :=
  guid <-? get_first dec_guid m PID_ENDPOINT_GUID ;;
  participant_guid <-? get_option dec_guid m PID_PARTICIPANT_GUID ;;
  unicast <-? get_all (dec_locator e) m PID_UNICAST_LOCATOR ;;
  multicast <-? get_all (dec_locator e) m PID_MULTICAST_LOCATOR ;;
  topic_name <-? get_first (dec_string e) m PID_TOPIC_NAME ;;
  type_name <-? get_first (dec_string e) m PID_TYPE_NAME ;;
  data_max_size_serialized <-? get_option (dec_u32 e) m PID_TYPE_MAX_SIZE_SERIALIZED ;;
  security_info <-? get_option (dec_secinfo ENDPOINT_SEC_BITS e) m PID_ENDPOINT_SECURITY_INFO ;;
  service_instance_name <-? get_option (dec_string e) m PID_SERVICE_INSTANCE_NAME ;;
  related_datareader_key <-? get_option dec_guid m PID_RELATED_ENTITY_GUID ;;
  aliases <-? get_all (dec_string e) m PID_TOPIC_ALIASES ;;
  let topic_aliases := match aliases with [] => None | _ => Some aliases end in
  qos <-? qos_from_map e m ;;
  Some {| wd_remote_writer_guid := guid; wd_unicast := unicast; wd_multicast := multicast;
          wd_data_max_size_serialized := data_max_size_serialized; wd_key := guid;
          wd_participant_key := participant_guid; wd_topic_name := topic_name; wd_type_name := type_name;
          wd_qos := endpoint_qos qos; wd_service_instance_name := service_instance_name;
          wd_related_datareader_key := related_datareader_key; wd_topic_aliases := topic_aliases;
          wd_security_info := security_info |}.

Definition writer_pids : list Z := [90; 80; 47; 48; 5; 7; 96; 128; 129; 130; 4100] ++ qos_pids.
Definition decode_writer (e : endian) (bs : list Z) : outcome writer_data :=
  with_pl e bs (writer_from_map e).

Definition aliases_ok (l : list (list Z)) : Prop := l <> [] /\ Forall pstring_ok l.
Definition writer_ok (v : writer_data) : Prop :=
  guid_ok (wd_remote_writer_guid v) /\ wd_key v = wd_remote_writer_guid v /\
  Forall locator_ok (wd_unicast v) /\ Forall locator_ok (wd_multicast v) /\
  oall u32_ok (wd_data_max_size_serialized v) /\
  oall guid_ok (wd_participant_key v) /\ pstring_ok (wd_topic_name v) /\ pstring_ok (wd_type_name v) /\
  qos_ok (wd_qos v) /\ q_history (wd_qos v) = None /\ q_resource_limits (wd_qos v) = None /\
  oall pstring_ok (wd_service_instance_name v) /\ oall guid_ok (wd_related_datareader_key v) /\
  oall aliases_ok (wd_topic_aliases v) /\ oall (secinfo_ok ENDPOINT_SEC_BITS) (wd_security_info v).

(* ------------------------------------------------------------------------------------------ *)
(* DiscoveredTopicData = TopicBuiltinTopicData (updated_time is not serialised) *)
Record topic_data := {
  td_key : option guid; td_name : list Z; td_type_name : list Z; td_qos : qos }.

(* TopicBuiltinTopicData::qos(): no time_based_filter *)
Definition topic_qos (q : qos) : qos :=
  {| q_durability := q_durability q; q_presentation := q_presentation q; q_deadline := q_deadline q;
     q_latency_budget := q_latency_budget q; q_ownership := q_ownership q; q_liveliness := q_liveliness q;
     q_time_based_filter := None; q_reliability := q_reliability q;
     q_destination_order := q_destination_order q; q_history := q_history q;
     q_resource_limits := q_resource_limits q; q_lifespan := q_lifespan q |}.

Definition topic_to_params (e : endian) (v : topic_data) : list param :=
  opt_param PID_ENDPOINT_GUID enc_guid (td_key v) ++
  [(PID_TOPIC_NAME, enc_string e (td_name v))] ++
  [(PID_TYPE_NAME, enc_string e (td_type_name v))] ++
  qos_to_params e (topic_qos (td_qos v)).

Definition topic_from_map (e : endian) (m : plmap) : option topic_data :=
  key <-? get_option dec_guid m PID_ENDPOINT_GUID ;;
  name <-? get_first (dec_string e) m PID_TOPIC_NAME ;;
  type_name <-? get_first (dec_string e) m PID_TYPE_NAME ;;
  qos <-? qos_from_map e m ;;
  Some {| td_key := key; td_name := name; td_type_name := type_name; td_qos := topic_qos qos |}.

Definition topic_pids : list Z := [90; 5; 7] ++ qos_pids.
Definition encode_topic (e : endian) (v : topic_data) : list Z := enc_pl e (topic_to_params e v).
Definition decode_topic (e : endian) (bs : list Z) : outcome topic_data := with_pl e bs (topic_from_map e).

Definition topic_ok (v : topic_data) : Prop :=
  oall guid_ok (td_key v) /\ pstring_ok (td_name v) /\ pstring_ok (td_type_name v) /\
  qos_ok (td_qos v) /\ q_time_based_filter (td_qos v) = None.

(* ------------------------------------------------------------------------------------------ *)
(* Participant_GUID (spdp_participant_data.rs) and Endpoint_GUID (sedp_messages.rs): the keys of the
   discovery topics, sent alone when an instance is disposed: one GUID parameter *)
Inductive key_kind := ParticipantKey | EndpointKey.
Definition key_pid (k : key_kind) : Z :=
  match k with ParticipantKey => PID_PARTICIPANT_GUID | EndpointKey => PID_ENDPOINT_GUID end.
Definition key_to_params (k : key_kind) (g : guid) : list param := [(key_pid k, enc_guid g)].
Definition key_from_map (k : key_kind) (m : plmap) : option guid := get_first dec_guid m (key_pid k).
Definition encode_key (e : endian) (k : key_kind) (g : guid) : list Z := enc_pl e (key_to_params k g).
Definition decode_key (e : endian) (k : key_kind) (bs : list Z) : outcome guid := with_pl e bs (key_from_map k).

Lemma key_params_ok k g : guid_ok g -> Forall param_ok (key_to_params k g).
Proof.
  intros H. unfold key_to_params. apply one_param_ok.
  - destruct k; unfold u16_ok; cbn; lia.
  - destruct k; discriminate.
  - unfold guid_ok, enc_guid in *. rewrite H. lia.
Qed.
Theorem roundtrip_key e k g : guid_ok g -> decode_key e k (encode_key e k g) = Ok g.
Proof.
  intros H. unfold decode_key, encode_key, with_pl.
  rewrite <- (app_nil_r (enc_pl e _)). rewrite dec_enc_pl by now apply key_params_ok.
  unfold key_from_map. rewrite (get_first_rt enc_guid dec_guid _ _ _ g rt_guid H); [reflexivity|].
  rewrite lookup_all_padp. unfold key_to_params. now rewrite lookup_all_one_eq.
Qed.
Lemma key_from_map_ext k m m' :
  (forall pid, In pid [key_pid k] -> m pid = m' pid) -> key_from_map k m = key_from_map k m'.
Proof. intros H. unfold key_from_map, get_first. rewrite (H (key_pid k)) by (cbn; tauto). reflexivity. Qed.

(* ------------------------------------------------------------------------------------------ *)
(* ParticipantMessageData { guid: GuidPrefix [u8;12], kind: [u8;4], data: Vec<u8> }, plain CDR via
   serde + cdr-encoding: fixed arrays without length, the sequence with a u32 length (offset 16 is
   4-aligned: no padding), one byte per element *)
Record pmd := { pm_guid : list Z; pm_kind : list Z; pm_data : list Z }.
Definition enc_pmd (e : endian) (p : pmd) : list Z :=
  pm_guid p ++ pm_kind p ++ enc_u32 e (len (pm_data p)) ++ pm_data p.
Definition dec_pmd (e : endian) : reader pmd :=
  g <- take 12 ;; k <- take 4 ;; n <- dec_u32 e ;; d <- take n ;; ret (Build_pmd g k d).
Definition pmd_ok (p : pmd) := len (pm_guid p) = 12 /\ len (pm_kind p) = 4 /\ len (pm_data p) < 4294967296.
Definition decode_pmd (e : endian) (bs : list Z) : outcome pmd :=
  match parse (dec_pmd e) bs with Some p => Ok p | None => Err end.

Theorem roundtrip_pmd e p : pmd_ok p -> decode_pmd e (enc_pmd e p) = Ok p.
Proof.
  intros (H1 & H2 & H3). unfold decode_pmd, parse, dec_pmd, enc_pmd, bind.
  rewrite take_app_n by (symmetry; exact H1). rewrite take_app_n by (symmetry; exact H2).
  rewrite dec_enc_u32 by (pose proof (len_nonneg (pm_data p)); unfold u32_ok; lia).
  rewrite <- (app_nil_r (pm_data p)) at 2. rewrite take_app. destruct p; reflexivity.
Qed.

(* ------------------------------------------------------------------------------------------ *)
(* lookups *)
Ltac notin_qos := unfold qos_pids; cbn [In]; intros ?H; repeat (destruct H as [H|H]; [discriminate H|]); exact H.

Ltac lk2 :=
  rewrite !lookup_all_app;
  rewrite ?lookup_all_one_eq, ?lookup_opt_param_eq, ?lookup_params_of_eq;
  rewrite ?lookup_all_one_ne by discriminate;
  rewrite ?lookup_opt_param_ne by discriminate;
  rewrite ?lookup_params_of_ne by discriminate;
  rewrite ?lk_qos_other by notin_qos;
  rewrite ?app_nil_r; cbn [app]; try reflexivity.

Ltac lkq Hin :=
  unfold qos_pids in Hin; cbn [In] in Hin;
  repeat (destruct Hin as [<-|Hin]; [
    rewrite !lookup_all_app;
    rewrite ?lookup_all_one_ne by discriminate;
    rewrite ?lookup_opt_param_ne by discriminate;
    rewrite ?lookup_params_of_ne by discriminate;
    rewrite ?app_nil_r; cbn [app]; reflexivity |]);
  contradiction.

Lemma reader_lookup_qos e v pid : In pid qos_pids ->
  lookup_all (reader_to_params e v) pid = lookup_all (qos_to_params e (endpoint_qos (rd_qos v))) pid.
Proof. intros Hin. unfold reader_to_params. lkq Hin. Qed.
Lemma writer_lookup_qos e v pid : In pid qos_pids ->
  lookup_all (writer_to_params e v) pid = lookup_all (qos_to_params e (endpoint_qos (wd_qos v))) pid.
Proof. intros Hin. unfold writer_to_params. lkq Hin. Qed.
Lemma topic_lookup_qos e v pid : In pid qos_pids ->
  lookup_all (topic_to_params e v) pid = lookup_all (qos_to_params e (topic_qos (td_qos v))) pid.
Proof. intros Hin. unfold topic_to_params. lkq Hin. Qed.

Lemma endpoint_qos_ok q : qos_ok q -> qos_ok (endpoint_qos q).
Proof. unfold qos_ok, endpoint_qos. cbn. tauto. Qed.
Lemma topic_qos_ok q : qos_ok q -> qos_ok (topic_qos q).
Proof. unfold qos_ok, topic_qos. cbn. tauto. Qed.
Lemma endpoint_qos_id q : q_history q = None -> q_resource_limits q = None -> endpoint_qos q = q.
Proof. destruct q; cbn. intros -> ->. reflexivity. Qed.
Lemma topic_qos_id q : q_time_based_filter q = None -> topic_qos q = q.
Proof. destruct q; cbn. intros ->. reflexivity. Qed.

Lemma guid_opt_ok (o : option guid) : oall guid_ok o -> oall guid_ok o.
Proof. auto. Qed.

Lemma in_app_l {A} (x : A) l1 l2 : In x l1 -> In x (l1 ++ l2).
Proof. intros. apply in_or_app. now left. Qed.
Lemma in_app_r {A} (x : A) l1 l2 : In x l2 -> In x (l1 ++ l2).
Proof. intros. apply in_or_app. now right. Qed.

Lemma reader_from_map_rt e v m :
  reader_ok v -> shows m (reader_to_params e v) reader_pids -> reader_from_map e m = Some v.
Proof.
  intros (Hg & Hk & Hu & Hmc & Hpk & Htn & Hty & Hq & Hh & Hr & Hcf & Hsec) S.
  unfold reader_from_map.
  rewrite (get_first_rt enc_guid dec_guid _ m _ (rd_remote_reader_guid v) rt_guid Hg)
    by (rewrite S by (cbn; tauto); unfold reader_to_params; lk2).
  rewrite (get_option_rt enc_guid dec_guid _ m _ (rd_participant_key v) rt_guid Hpk)
    by (rewrite S by (cbn; tauto); unfold reader_to_params; lk2).
  rewrite (get_option_rt enc_bool dec_bool _ m _ (Some (rd_expects_inline_qos v)) rt_bool I)
    by (rewrite S by (cbn; tauto); unfold reader_to_params; lk2).
  rewrite (get_all_rt (enc_locator e) _ _ m _ _ (rt_locator e) Hu)
    by (rewrite S by (cbn; tauto); unfold reader_to_params; lk2).
  rewrite (get_all_rt (enc_locator e) _ _ m _ _ (rt_locator e) Hmc)
    by (rewrite S by (cbn; tauto); unfold reader_to_params; lk2).
  rewrite (get_first_rt (enc_string e) _ _ m _ (rd_topic_name v) (rt_string e) (pstring_string_ok _ Htn))
    by (rewrite S by (cbn; tauto); unfold reader_to_params; lk2).
  rewrite (get_first_rt (enc_string e) _ _ m _ (rd_type_name v) (rt_string e) (pstring_string_ok _ Hty))
    by (rewrite S by (cbn; tauto); unfold reader_to_params; lk2).
  rewrite (get_option_rt (enc_cfp e) _ _ m _ (rd_content_filter v) (rt_cfp e) Hcf)
    by (rewrite S by (cbn; tauto); unfold reader_to_params; lk2).
  rewrite (get_option_rt (enc_secinfo e) _ _ m _ (rd_security_info v) (rt_secinfo _ e) Hsec)
    by (rewrite S by (cbn; tauto); unfold reader_to_params; lk2).
  rewrite (qos_from_map_rt e (endpoint_qos (rd_qos v)) m (endpoint_qos_ok _ Hq)).
  - cbn [obind unwrap_or]. rewrite endpoint_qos_id by (cbn; reflexivity).
    rewrite endpoint_qos_id by assumption. destruct v; cbn in *. subst. reflexivity.
  - intros pid Hin. rewrite S by (unfold reader_pids; now apply in_app_r). now rewrite reader_lookup_qos.
Qed.

Lemma writer_from_map_rt e v m :
  writer_ok v -> shows m (writer_to_params e v) writer_pids -> writer_from_map e m = Some v.
Proof.
  intros (Hg & Hk & Hu & Hmc & Hmax & Hpk & Htn & Hty & Hq & Hh & Hr & Hsvc & Hrel & Hal & Hsec) S.
  unfold writer_from_map.
  rewrite (get_first_rt enc_guid dec_guid _ m _ (wd_remote_writer_guid v) rt_guid Hg)
    by (rewrite S by (cbn; tauto); unfold writer_to_params; lk2).
  rewrite (get_option_rt enc_guid dec_guid _ m _ (wd_participant_key v) rt_guid Hpk)
    by (rewrite S by (cbn; tauto); unfold writer_to_params; lk2).
  rewrite (get_all_rt (enc_locator e) _ _ m _ _ (rt_locator e) Hu)
    by (rewrite S by (cbn; tauto); unfold writer_to_params; lk2).
  rewrite (get_all_rt (enc_locator e) _ _ m _ _ (rt_locator e) Hmc)
    by (rewrite S by (cbn; tauto); unfold writer_to_params; lk2).
  rewrite (get_first_rt (enc_string e) _ _ m _ (wd_topic_name v) (rt_string e) (pstring_string_ok _ Htn))
    by (rewrite S by (cbn; tauto); unfold writer_to_params; lk2).
  rewrite (get_first_rt (enc_string e) _ _ m _ (wd_type_name v) (rt_string e) (pstring_string_ok _ Hty))
    by (rewrite S by (cbn; tauto); unfold writer_to_params; lk2).
  rewrite (get_option_rt (enc_u32 e) _ _ m _ (wd_data_max_size_serialized v) (rt_u32 e) Hmax)
    by (rewrite S by (cbn; tauto); unfold writer_to_params; lk2).
  rewrite (get_option_rt (enc_secinfo e) _ _ m _ (wd_security_info v) (rt_secinfo _ e) Hsec)
    by (rewrite S by (cbn; tauto); unfold writer_to_params; lk2).
  rewrite (get_option_rt (enc_string e) _ string_ok m _ (wd_service_instance_name v) (rt_string e))
    by (try (rewrite S by (cbn; tauto); unfold writer_to_params; lk2);
        destruct (wd_service_instance_name v); cbn in *; auto using pstring_string_ok).
  rewrite (get_option_rt enc_guid dec_guid _ m _ (wd_related_datareader_key v) rt_guid Hrel)
    by (rewrite S by (cbn; tauto); unfold writer_to_params; lk2).
  rewrite (get_all_rt (enc_string e) _ string_ok m _ (unwrap_or (wd_topic_aliases v) []) (rt_string e)).
  2: { destruct (wd_topic_aliases v) as [l|]; cbn in *; [|constructor].
       destruct Hal as [_ Hal]. eapply Forall_impl; [|exact Hal]. apply pstring_string_ok. }
  2: { rewrite S by (cbn; tauto). unfold writer_to_params. lk2. }
  rewrite (qos_from_map_rt e (endpoint_qos (wd_qos v)) m (endpoint_qos_ok _ Hq)).
  - cbn [obind]. rewrite endpoint_qos_id by (cbn; reflexivity).
    rewrite endpoint_qos_id by assumption.
    assert (Ea : match unwrap_or (wd_topic_aliases v) [] with [] => None | _ :: _ => Some (unwrap_or (wd_topic_aliases v) []) end
                 = wd_topic_aliases v).
    { destruct (wd_topic_aliases v) as [[|a l]|]; cbn in *; try reflexivity. destruct Hal as [N _]. congruence. }
    rewrite Ea. destruct v; cbn in *. subst. reflexivity.
  - intros pid Hin. rewrite S by (unfold writer_pids; now apply in_app_r). now rewrite writer_lookup_qos.
Qed.

Lemma topic_from_map_rt e v m :
  topic_ok v -> shows m (topic_to_params e v) topic_pids -> topic_from_map e m = Some v.
Proof.
  intros (Hk & Hn & Hty & Hq & Ht) S. unfold topic_from_map.
  rewrite (get_option_rt enc_guid dec_guid _ m _ (td_key v) rt_guid Hk)
    by (rewrite S by (cbn; tauto); unfold topic_to_params; lk2).
  rewrite (get_first_rt (enc_string e) _ _ m _ (td_name v) (rt_string e) (pstring_string_ok _ Hn))
    by (rewrite S by (cbn; tauto); unfold topic_to_params; lk2).
  rewrite (get_first_rt (enc_string e) _ _ m _ (td_type_name v) (rt_string e) (pstring_string_ok _ Hty))
    by (rewrite S by (cbn; tauto); unfold topic_to_params; lk2).
  rewrite (qos_from_map_rt e (topic_qos (td_qos v)) m (topic_qos_ok _ Hq)).
  - cbn [obind]. rewrite topic_qos_id by (cbn; reflexivity).
    rewrite topic_qos_id by assumption. destruct v; reflexivity.
  - intros pid Hin. rewrite S by (unfold topic_pids; now apply in_app_r). now rewrite topic_lookup_qos.
Qed.

Lemma reader_from_map_ext e m m' :
  (forall pid, In pid reader_pids -> m pid = m' pid) -> reader_from_map e m = reader_from_map e m'.
Proof.
  intros H. unfold reader_from_map, get_option, get_first, get_all.
  rewrite (H 90), (H 80), (H 67), (H 47), (H 48), (H 5), (H 7), (H 53), (H 4100) by (cbn; tauto).
  rewrite (qos_from_map_ext e m m') by (intros pid Hin; apply H; unfold reader_pids; now apply in_app_r).
  reflexivity.
Qed.
Lemma writer_from_map_old_ext e m m' :
  (forall pid, In pid writer_pids_old -> m pid = m' pid) -> writer_from_map_old e m = writer_from_map_old e m'.
Proof.
  intros H. unfold writer_from_map_old, get_option, get_first, get_all.
  rewrite (H 90), (H 80), (H 47), (H 48), (H 5), (H 7), (H 96), (H 4100) by (cbn; tauto).
  rewrite (qos_from_map_ext e m m') by (intros pid Hin; apply H; unfold writer_pids_old; now apply in_app_r).
  reflexivity.
Qed.
Lemma writer_from_map_ext e m m' :
  (forall pid, In pid writer_pids -> m pid = m' pid) -> writer_from_map e m = writer_from_map e m'.
Proof.
  intros H. unfold writer_from_map, get_option, get_first, get_all.
  rewrite (H 90), (H 80), (H 47), (H 48), (H 5), (H 7), (H 96), (H 4100), (H 128), (H 129), (H 130) by (cbn; tauto).
  rewrite (qos_from_map_ext e m m') by (intros pid Hin; apply H; unfold writer_pids; now apply in_app_r).
  reflexivity.
Qed.
Lemma topic_from_map_ext e m m' :
  (forall pid, In pid topic_pids -> m pid = m' pid) -> topic_from_map e m = topic_from_map e m'.
Proof.
  intros H. unfold topic_from_map, get_option, get_first, get_all.
  rewrite (H 90), (H 5), (H 7) by (cbn; tauto).
  rewrite (qos_from_map_ext e m m') by (intros pid Hin; apply H; unfold topic_pids; now apply in_app_r).
  reflexivity.
Qed.

(* ------------------------------------------------------------------------------------------ *)
Lemma guid_small g : guid_ok g -> len (enc_guid g) <= 65532.
Proof. unfold guid_ok, enc_guid. intros ->. lia. Qed.

Lemma reader_params_ok e v : reader_ok v -> Forall param_ok (reader_to_params e v).
Proof.
  intros (Hg & Hk & Hu & Hmc & Hpk & Htn & Hty & Hq & Hh & Hr & Hcf & Hsec).
  unfold reader_to_params.
  pose proof (qos_params_ok e (endpoint_qos (rd_qos v))) as Q.
  set (qp := qos_to_params e (endpoint_qos (rd_qos v))) in *. clearbody qp.
  repeat (apply Forall_app; split).
  - apply one_param_ok; [unfold u16_ok; lia | discriminate | cbn; lia].
  - apply one_param_ok; [unfold u16_ok; lia | discriminate | now apply guid_small].
  - apply params_of_ok; [unfold u16_ok; lia | discriminate | now apply locators_small].
  - apply params_of_ok; [unfold u16_ok; lia | discriminate | now apply locators_small].
  - apply (opt_param_ok' _ _ guid_ok); [unfold u16_ok; lia | discriminate | apply guid_small | exact Hpk].
  - apply one_param_ok; [unfold u16_ok; lia | discriminate | now apply enc_string_small].
  - apply one_param_ok; [unfold u16_ok; lia | discriminate | now apply enc_string_small].
  - exact Q.
  - apply (opt_param_ok' _ _ cfp_ok); [unfold u16_ok; lia | discriminate | | exact Hcf].
    intros a (_ & _ & _ & _ & _ & L1 & L2). destruct e; assumption.
  - apply opt_param_ok; [unfold u16_ok; lia | discriminate | intros a; rewrite enc_secinfo_len; lia].
Qed.

Lemma strings_small e l : Forall pstring_ok l -> Forall (fun v => len v <= 65532) (map (enc_string e) l).
Proof. induction 1; cbn [map]; constructor; auto using enc_string_small. Qed.

Lemma writer_params_ok e v : writer_ok v -> Forall param_ok (writer_to_params e v).
Proof.
  intros (Hg & Hk & Hu & Hmc & Hmax & Hpk & Htn & Hty & Hq & Hh & Hr & Hsvc & Hrel & Hal & Hsec).
  unfold writer_to_params.
  pose proof (qos_params_ok e (endpoint_qos (wd_qos v))) as Q.
  set (qp := qos_to_params e (endpoint_qos (wd_qos v))) in *. clearbody qp.
  repeat (apply Forall_app; split).
  - apply opt_param_ok; [unfold u16_ok; lia | discriminate | intros a; rewrite enc_u32_len; lia].
  - apply one_param_ok; [unfold u16_ok; lia | discriminate | now apply guid_small].
  - apply params_of_ok; [unfold u16_ok; lia | discriminate | now apply locators_small].
  - apply params_of_ok; [unfold u16_ok; lia | discriminate | now apply locators_small].
  - apply (opt_param_ok' _ _ guid_ok); [unfold u16_ok; lia | discriminate | apply guid_small | exact Hpk].
  - apply one_param_ok; [unfold u16_ok; lia | discriminate | now apply enc_string_small].
  - apply one_param_ok; [unfold u16_ok; lia | discriminate | now apply enc_string_small].
  - exact Q.
  - apply (opt_param_ok' _ _ pstring_ok); [unfold u16_ok; lia | discriminate | apply enc_string_small | exact Hsvc].
  - apply (opt_param_ok' _ _ guid_ok); [unfold u16_ok; lia | discriminate | apply guid_small | exact Hrel].
  - apply params_of_ok; [unfold u16_ok; lia | discriminate |]. apply strings_small.
    destruct (wd_topic_aliases v); cbn in *; [exact (proj2 Hal)|constructor].
  - apply opt_param_ok; [unfold u16_ok; lia | discriminate | intros a; rewrite enc_secinfo_len; lia].
Qed.

Lemma topic_params_ok e v : topic_ok v -> Forall param_ok (topic_to_params e v).
Proof.
  intros (Hk & Hn & Hty & Hq & Ht).
  unfold topic_to_params.
  pose proof (qos_params_ok e (topic_qos (td_qos v))) as Q.
  set (qp := qos_to_params e (topic_qos (td_qos v))) in *. clearbody qp.
  repeat (apply Forall_app; split).
  - apply (opt_param_ok' _ _ guid_ok); [unfold u16_ok; lia | discriminate | apply guid_small | exact Hk].
  - apply one_param_ok; [unfold u16_ok; lia | discriminate | now apply enc_string_small].
  - apply one_param_ok; [unfold u16_ok; lia | discriminate | now apply enc_string_small].
  - exact Q.
Qed.

Theorem roundtrip_reader e v : reader_ok v -> decode_reader e (encode_reader e v) = Ok v.
Proof.
  intros H. unfold decode_reader, encode_reader, with_pl.
  rewrite <- (app_nil_r (enc_pl e _)). rewrite dec_enc_pl by now apply reader_params_ok.
  rewrite (reader_from_map_rt e v); [reflexivity | exact H |].
  intros pid _. apply lookup_all_padp.
Qed.

Theorem roundtrip_writer e v : writer_ok v -> decode_writer e (encode_writer e v) = Ok v.
Proof.
  intros H. unfold decode_writer, encode_writer, with_pl.
  rewrite <- (app_nil_r (enc_pl e _)). rewrite dec_enc_pl by now apply writer_params_ok.
  rewrite (writer_from_map_rt e v); [reflexivity | exact H |].
  intros pid _. apply lookup_all_padp.
Qed.

(* the pinned commit loses the DDS-RPC fields of a perfectly ordinary value *)
Definition writer_witness : writer_data :=
  {| wd_remote_writer_guid := [1;2;3;4;5;6;7;8;9;10;11;12;0;0;1;2]; wd_unicast := []; wd_multicast := [];
     wd_data_max_size_serialized := None; wd_key := [1;2;3;4;5;6;7;8;9;10;11;12;0;0;1;2];
     wd_participant_key := None; wd_topic_name := [116]; wd_type_name := [84]; wd_qos := qos_none;
     wd_service_instance_name := Some [115; 118; 99]; wd_related_datareader_key := None;
     wd_topic_aliases := None; wd_security_info := None |}.
Lemma writer_witness_ok : writer_ok writer_witness.
Proof.
  unfold writer_ok, writer_witness, guid_ok, pstring_ok, qos_ok; cbn.
  repeat match goal with |- _ /\ _ => split end; auto; try constructor; try (vm_compute; congruence).
Qed.
Lemma writer_old_refuted :
  exists e v, writer_ok v /\ decode_writer_old e (encode_writer e v) <> Ok v.
Proof.
  exists LE, writer_witness. split; [apply writer_witness_ok|]. vm_compute. discriminate.
Qed.

Theorem roundtrip_topic e v : topic_ok v -> decode_topic e (encode_topic e v) = Ok v.
Proof.
  intros H. unfold decode_topic, encode_topic, with_pl.
  rewrite <- (app_nil_r (enc_pl e _)). rewrite dec_enc_pl by now apply topic_params_ok.
  rewrite (topic_from_map_rt e v); [reflexivity | exact H |].
  intros pid _. apply lookup_all_padp.
Qed.
