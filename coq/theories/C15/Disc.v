(* C15 — discovery data on the wire: field codecs (Locator, GUID, ProtocolVersion, VendorId,
   BuiltinEndpointSet/Qos, StringWithNul) and SpdpDiscoveredParticipantData.
   Rust: structure/locator.rs, structure/guid.rs, messages/protocol_version.rs, messages/vendor_id.rs,
         discovery/builtin_endpoint.rs, discovery/spdp_participant_data.rs.

   Not modelled (feature "security" only): identity_token, permissions_token, property — the model
   is the deserialiser with those three parameters absent / the serialiser with those three fields
   None.  security_info (security/types.rs ParticipantSecurityInfo, EndpointSecurityInfo) is modelled. *)
From Coq Require Import List ZArith Lia Bool.
From RD Require Import C15.Prim C15.PL C15.Qos.
Import ListNotations.
Open Scope Z_scope.

Notation PID_PROTOCOL_VERSION := 21 (only parsing).
Notation PID_VENDOR_ID := 22 (only parsing).
Notation PID_EXPECTS_INLINE_QOS := 67 (only parsing).
Notation PID_PARTICIPANT_GUID := 80 (only parsing).
Notation PID_METATRAFFIC_UNICAST_LOCATOR := 50 (only parsing).
Notation PID_METATRAFFIC_MULTICAST_LOCATOR := 51 (only parsing).
Notation PID_DEFAULT_UNICAST_LOCATOR := 49 (only parsing).
Notation PID_DEFAULT_MULTICAST_LOCATOR := 72 (only parsing).
Notation PID_BUILTIN_ENDPOINT_SET := 88 (only parsing).
Notation PID_PARTICIPANT_LEASE_DURATION := 2 (only parsing).
Notation PID_PARTICIPANT_MANUAL_LIVELINESS_COUNT := 52 (only parsing).
Notation PID_BUILTIN_ENDPOINT_QOS := 119 (only parsing).
Notation PID_ENTITY_NAME := 98 (only parsing).
(* security build only; listed so that they never count as "foreign" *)
Notation PID_IDENTITY_TOKEN := 4097 (only parsing).
Notation PID_PERMISSIONS_TOKEN := 4098 (only parsing).
Notation PID_PROPERTY_LIST := 89 (only parsing).
Notation PID_PARTICIPANT_SECURITY_INFO := 4101 (only parsing).
Notation PID_ENDPOINT_SECURITY_INFO := 4100 (only parsing).

(* ------------------------------------------------------------------------------------------ *)
(* Locator (structure/locator.rs).  On the wire: repr::Locator { kind:i32, port:u32, address:[u8;16] }.
   UdpV6 carries the SocketAddrV6 flowinfo and scope_id, which the wire format has no room for. *)
Inductive locator :=
| LInvalid
| LReserved
| LUdpV4 (a b c d : Z) (port : Z)
| LUdpV6 (addr : list Z) (port : Z) (flowinfo scope_id : Z)
| LOther (kind port : Z) (addr : list Z).

Definition zeros16 : list Z := zeros 16.

(* From<Locator> for repr::Locator *)
Definition locator_repr (l : locator) : Z * Z * list Z :=
  match l with
  | LInvalid => (-1, 0, zeros16)
  | LReserved => (0, 0, zeros16)
  | LUdpV4 a b c d port => (1, port, zeros 12 ++ [a; b; c; d])   (* to_ipv6_compatible().octets() *)
  | LUdpV6 addr port _ _ => (2, port, addr)
  | LOther kind port addr => (kind, port, addr)
  end.
Definition enc_locator (e : endian) (l : locator) : list Z :=
  let '(kind, port, addr) := locator_repr l in enc_i32 e kind ++ enc_u32 e port ++ addr.

(* From<repr::Locator> for Locator; `repr.port as u16` truncates.  `addr` has exactly 16 bytes
   (it comes from take 16), the nth defaults are never used. *)
Definition locator_of_repr (kind port : Z) (addr : list Z) : locator :=
  if kind =? -1 then LInvalid
  else if kind =? 0 then LReserved
  else if kind =? 1 then LUdpV4 (nth 12 addr 0) (nth 13 addr 0) (nth 14 addr 0) (nth 15 addr 0) (port mod 65536)
  else if kind =? 2 then LUdpV6 addr (port mod 65536) 0 0
  else LOther kind port addr.
Definition dec_locator (e : endian) : reader locator :=
  kind <- dec_i32 e ;; port <- dec_u32 e ;; addr <- take 16 ;; ret (locator_of_repr kind port addr).

Definition locator_ok (l : locator) : Prop :=
  match l with
  | LInvalid | LReserved => True
  | LUdpV4 a b c d port => u16_ok port
  | LUdpV6 addr port flowinfo scope_id => len addr = 16 /\ u16_ok port /\ flowinfo = 0 /\ scope_id = 0
  | LOther kind port addr =>
      i32_ok kind /\ kind <> -1 /\ kind <> 0 /\ kind <> 1 /\ kind <> 2 /\ u32_ok port /\ len addr = 16
  end.

Lemma enc_locator_len e l :
  match l with LUdpV6 a _ _ _ | LOther _ _ a => len a = 16 | _ => True end -> len (enc_locator e l) = 24.
Proof.
  intros H. unfold enc_locator. destruct l; cbn [locator_repr];
    rewrite !len_app, enc_i32_len, enc_u32_len; try rewrite H; reflexivity.
Qed.

Lemma rt_locator e : RT (enc_locator e) (dec_locator e) locator_ok.
Proof.
  intros l rest H. unfold dec_locator, enc_locator, bind.
  destruct l as [| |a b c d port|addr port fl sc|kind port addr]; cbn [locator_repr locator_ok] in *;
    rewrite <- !app_assoc.
  - rewrite dec_enc_i32 by (unfold i32_ok; lia). rewrite dec_enc_u32 by (unfold u32_ok; lia).
    rewrite take_app_n by reflexivity. reflexivity.
  - rewrite dec_enc_i32 by (unfold i32_ok; lia). rewrite dec_enc_u32 by (unfold u32_ok; lia).
    rewrite take_app_n by reflexivity. reflexivity.
  - rewrite dec_enc_i32 by (unfold i32_ok; lia).
    rewrite dec_enc_u32 by (unfold u32_ok, u16_ok in *; lia).
    rewrite app_assoc. rewrite take_app_n by reflexivity.
    unfold ret, locator_of_repr. cbn [Z.eqb Pos.eqb]. rewrite Z.mod_small by exact H. reflexivity.
  - destruct H as (Hl & Hp & -> & ->).
    rewrite dec_enc_i32 by (unfold i32_ok; lia).
    rewrite dec_enc_u32 by (unfold u32_ok, u16_ok in *; lia).
    rewrite take_app_n by (symmetry; exact Hl).
    unfold ret, locator_of_repr. cbn [Z.eqb Pos.eqb]. rewrite Z.mod_small by exact Hp. reflexivity.
  - destruct H as (Hk & N1 & N2 & N3 & N4 & Hp & Hl).
    rewrite dec_enc_i32 by exact Hk. rewrite dec_enc_u32 by exact Hp.
    rewrite take_app_n by (symmetry; exact Hl).
    unfold ret, locator_of_repr.
    destruct (Z.eqb_spec kind (-1)); [contradiction|]. destruct (Z.eqb_spec kind 0); [contradiction|].
    destruct (Z.eqb_spec kind 1); [contradiction|]. destruct (Z.eqb_spec kind 2); [contradiction|].
    reflexivity.
Qed.

(* ------------------------------------------------------------------------------------------ *)
(* GUID = GuidPrefix [u8;12] ++ EntityId {entity_key [u8;3], entity_kind u8}: 16 bytes as they are *)
Definition guid := list Z.
Definition enc_guid (g : guid) : list Z := g.
Definition dec_guid : reader guid := take 16.
Definition guid_ok (g : guid) := len g = 16.
Lemma rt_guid : RT enc_guid dec_guid guid_ok.
Proof. intros g rest H. unfold dec_guid, enc_guid. apply take_app_n. symmetry. exact H. Qed.

(* ProtocolVersion { major:u8, minor:u8 }, VendorId { [u8;2] } *)
Definition enc_2 (p : Z * Z) : list Z := [fst p; snd p].
Definition dec_2 : reader (Z * Z) := a <- read_u8 ;; b <- read_u8 ;; ret (a, b).
Lemma rt_2 : RT enc_2 dec_2 (fun _ => True).
Proof. intros [a b] rest _. reflexivity. Qed.

Lemma rt_bool : RT enc_bool dec_bool (fun _ => True).
Proof. intros b rest _. apply dec_enc_bool. Qed.
Lemma rt_string e : RT (enc_string e) (dec_string e) string_ok.
Proof. intros s rest H. now apply dec_enc_string. Qed.

(* ParticipantSecurityInfo / EndpointSecurityInfo { attributes mask, plugin attributes mask }: two
   u32.  The first is a BitFlags<..>: BitFlags::try_from rejects any bit outside the declared flags
   (IsValid 0x8000_0000 plus 3 resp. 7 low bits); the plugin mask is any u32. *)
Definition secinfo := (Z * Z)%type.
Notation PARTICIPANT_SEC_BITS := 2147483655 (only parsing).   (* 0x8000_0007 *)
Notation ENDPOINT_SEC_BITS := 2147483775 (only parsing).      (* 0x8000_007F *)
Definition enc_secinfo (e : endian) (s : secinfo) : list Z := enc_u32 e (fst s) ++ enc_u32 e (snd s).
Definition dec_secinfo (allowed : Z) (e : endian) : reader secinfo :=
  m <- dec_u32 e ;; if Z.land m allowed =? m then (p <- dec_u32 e ;; ret (m, p)) else fail.
Definition secinfo_ok (allowed : Z) (s : secinfo) : Prop :=
  u32_ok (fst s) /\ Z.land (fst s) allowed = fst s /\ u32_ok (snd s).
Lemma rt_secinfo allowed e : RT (enc_secinfo e) (dec_secinfo allowed e) (secinfo_ok allowed).
Proof.
  intros [m p] rest (H1 & H2 & H3). unfold dec_secinfo, enc_secinfo, bind. cbn [fst snd] in *.
  rewrite <- app_assoc. rewrite dec_enc_u32 by exact H1. rewrite H2, Z.eqb_refl.
  rewrite dec_enc_u32 by exact H3. reflexivity.
Qed.
Lemma enc_secinfo_len e s : len (enc_secinfo e s) = 8.
Proof. unfold enc_secinfo. now rewrite len_app, !enc_u32_len. Qed.

(* ------------------------------------------------------------------------------------------ *)
(* SpdpDiscoveredParticipantData, fields in declaration order (updated_time is not serialised) *)
Record spdp := {
  sp_protocol_version : Z * Z;
  sp_vendor_id : Z * Z;
  sp_expects_inline_qos : bool;
  sp_participant_guid : guid;
  sp_metatraffic_unicast_locators : list locator;
  sp_metatraffic_multicast_locators : list locator;
  sp_default_unicast_locators : list locator;
  sp_default_multicast_locators : list locator;
  sp_available_builtin_endpoints : Z;
  sp_lease_duration : option duration;
  sp_manual_liveliness_count : Z;
  sp_builtin_endpoint_qos : option Z;
  sp_entity_name : option (list Z);
  sp_security_info : option secinfo }.

Definition params_of (pid : Z) (vs : list (list Z)) : list param := map (fun v => (pid, v)) vs.

(* ParameterListable::to_parameter_list *)
Definition spdp_to_params (e : endian) (v : spdp) : list param :=
  [(PID_PROTOCOL_VERSION, enc_2 (sp_protocol_version v))] ++
  [(PID_VENDOR_ID, enc_2 (sp_vendor_id v))] ++
  [(PID_EXPECTS_INLINE_QOS, enc_bool (sp_expects_inline_qos v))] ++
  [(PID_PARTICIPANT_GUID, enc_guid (sp_participant_guid v))] ++
  params_of PID_METATRAFFIC_UNICAST_LOCATOR (map (enc_locator e) (sp_metatraffic_unicast_locators v)) ++
  params_of PID_METATRAFFIC_MULTICAST_LOCATOR (map (enc_locator e) (sp_metatraffic_multicast_locators v)) ++
  params_of PID_DEFAULT_UNICAST_LOCATOR (map (enc_locator e) (sp_default_unicast_locators v)) ++
  params_of PID_DEFAULT_MULTICAST_LOCATOR (map (enc_locator e) (sp_default_multicast_locators v)) ++
  [(PID_BUILTIN_ENDPOINT_SET, enc_u32 e (sp_available_builtin_endpoints v))] ++
  opt_param PID_PARTICIPANT_LEASE_DURATION (enc_duration e) (sp_lease_duration v) ++
  [(PID_PARTICIPANT_MANUAL_LIVELINESS_COUNT, enc_i32 e (sp_manual_liveliness_count v))] ++
  opt_param PID_BUILTIN_ENDPOINT_QOS (enc_u32 e) (sp_builtin_endpoint_qos v) ++
  opt_param PID_ENTITY_NAME (enc_string e) (sp_entity_name v) ++
  (* identity_token, permissions_token, property: None *)
  opt_param PID_PARTICIPANT_SECURITY_INFO (enc_secinfo e) (sp_security_info v).

Definition unwrap_or {A} (o : option A) (d : A) : A := match o with Some a => a | None => d end.

(* PlCdrDeserialize::from_pl_cdr_bytes, after to_map *)
Definition spdp_from_map (e : endian) (m : plmap) : option spdp :=
  protocol_version <-? get_first dec_2 m PID_PROTOCOL_VERSION ;;
  vendor_id <-? get_first dec_2 m PID_VENDOR_ID ;;
  eiq <-? get_option dec_bool m PID_EXPECTS_INLINE_QOS ;;
  let expects_inline_qos := unwrap_or eiq false in
  participant_guid <-? get_first dec_guid m PID_PARTICIPANT_GUID ;;
  mu <-? get_all (dec_locator e) m PID_METATRAFFIC_UNICAST_LOCATOR ;;
  mm <-? get_all (dec_locator e) m PID_METATRAFFIC_MULTICAST_LOCATOR ;;
  du <-? get_all (dec_locator e) m PID_DEFAULT_UNICAST_LOCATOR ;;
  dm <-? get_all (dec_locator e) m PID_DEFAULT_MULTICAST_LOCATOR ;;
  lease_duration <-? get_option (dec_duration e) m PID_PARTICIPANT_LEASE_DURATION ;;
  mlc <-? get_option (dec_i32 e) m PID_PARTICIPANT_MANUAL_LIVELINESS_COUNT ;;
  let manual_liveliness_count := unwrap_or mlc 0 in
  available_builtin_endpoints <-? get_first (dec_u32 e) m PID_BUILTIN_ENDPOINT_SET ;;
  builtin_endpoint_qos <-? get_option (dec_u32 e) m PID_BUILTIN_ENDPOINT_QOS ;;
  entity_name <-? get_option (dec_string e) m PID_ENTITY_NAME ;;
  security_info <-? get_option (dec_secinfo PARTICIPANT_SEC_BITS e) m PID_PARTICIPANT_SECURITY_INFO ;;
  Some {| sp_protocol_version := protocol_version; sp_vendor_id := vendor_id;
          sp_expects_inline_qos := expects_inline_qos; sp_participant_guid := participant_guid;
          sp_metatraffic_unicast_locators := mu; sp_metatraffic_multicast_locators := mm;
          sp_default_unicast_locators := du; sp_default_multicast_locators := dm;
          sp_available_builtin_endpoints := available_builtin_endpoints;
          sp_lease_duration := lease_duration; sp_manual_liveliness_count := manual_liveliness_count;
          sp_builtin_endpoint_qos := builtin_endpoint_qos; sp_entity_name := entity_name;
          sp_security_info := security_info |}.

(* ids the deserialiser looks at (the last four only in the security build; 4097, 4098, 89 are
   not modelled and never count as foreign) *)
Definition spdp_pids : list Z := [21; 22; 67; 80; 50; 51; 49; 72; 2; 52; 88; 119; 98; 4097; 4098; 89; 4101].

Definition encode_spdp (e : endian) (v : spdp) : list Z := enc_pl e (spdp_to_params e v).
Definition decode_spdp (e : endian) (bs : list Z) : outcome spdp := with_pl e bs (spdp_from_map e).

(* a string that fits into one parameter *)
Definition pstring_ok (s : list Z) := utf8_valid s = true /\ len s <= 65527.
Lemma pstring_string_ok s : pstring_ok s -> string_ok s.
Proof. intros [H1 H2]. split; [exact H1|lia]. Qed.

Definition spdp_ok (v : spdp) : Prop :=
  guid_ok (sp_participant_guid v) /\
  Forall locator_ok (sp_metatraffic_unicast_locators v) /\
  Forall locator_ok (sp_metatraffic_multicast_locators v) /\
  Forall locator_ok (sp_default_unicast_locators v) /\
  Forall locator_ok (sp_default_multicast_locators v) /\
  u32_ok (sp_available_builtin_endpoints v) /\
  oall duration_ok (sp_lease_duration v) /\
  i32_ok (sp_manual_liveliness_count v) /\
  oall u32_ok (sp_builtin_endpoint_qos v) /\
  oall pstring_ok (sp_entity_name v) /\
  oall (secinfo_ok PARTICIPANT_SEC_BITS) (sp_security_info v).

(* ------------------------------------------------------------------------------------------ *)
Lemma lookup_params_of_eq pid vs : lookup_all (params_of pid vs) pid = vs.
Proof. apply lookup_all_same. Qed.
Lemma lookup_params_of_ne pid pid' vs : pid <> pid' -> lookup_all (params_of pid vs) pid' = [].
Proof. apply lookup_all_other. Qed.

Ltac lk :=
  rewrite !lookup_all_app;
  rewrite ?lookup_all_one_eq, ?lookup_opt_param_eq, ?lookup_params_of_eq;
  rewrite ?lookup_all_one_ne by discriminate;
  rewrite ?lookup_opt_param_ne by discriminate;
  rewrite ?lookup_params_of_ne by discriminate;
  rewrite ?app_nil_r; cbn [app]; try reflexivity.

Lemma all_some {A} (o : option A) : oall (fun _ => True) o.
Proof. destruct o; exact I. Qed.

Lemma spdp_from_map_rt e v m :
  spdp_ok v -> shows m (spdp_to_params e v) spdp_pids -> spdp_from_map e m = Some v.
Proof.
  intros (Hg & Hmu & Hmm & Hdu & Hdm & Hset & Hlease & Hcnt & Hbeq & Hname & Hsec) S.
  unfold spdp_from_map.
  rewrite (get_first_rt enc_2 dec_2 _ m _ (sp_protocol_version v) rt_2 I)
    by (rewrite S by (cbn; tauto); unfold spdp_to_params; lk).
  rewrite (get_first_rt enc_2 dec_2 _ m _ (sp_vendor_id v) rt_2 I)
    by (rewrite S by (cbn; tauto); unfold spdp_to_params; lk).
  rewrite (get_option_rt enc_bool dec_bool _ m _ (Some (sp_expects_inline_qos v)) rt_bool I)
    by (rewrite S by (cbn; tauto); unfold spdp_to_params; lk).
  rewrite (get_first_rt enc_guid dec_guid _ m _ (sp_participant_guid v) rt_guid Hg)
    by (rewrite S by (cbn; tauto); unfold spdp_to_params; lk).
  rewrite (get_all_rt (enc_locator e) _ _ m _ _ (rt_locator e) Hmu)
    by (rewrite S by (cbn; tauto); unfold spdp_to_params; lk).
  rewrite (get_all_rt (enc_locator e) _ _ m _ _ (rt_locator e) Hmm)
    by (rewrite S by (cbn; tauto); unfold spdp_to_params; lk).
  rewrite (get_all_rt (enc_locator e) _ _ m _ _ (rt_locator e) Hdu)
    by (rewrite S by (cbn; tauto); unfold spdp_to_params; lk).
  rewrite (get_all_rt (enc_locator e) _ _ m _ _ (rt_locator e) Hdm)
    by (rewrite S by (cbn; tauto); unfold spdp_to_params; lk).
  rewrite (get_option_rt (enc_duration e) _ _ m _ (sp_lease_duration v) (rt_duration e) Hlease)
    by (rewrite S by (cbn; tauto); unfold spdp_to_params; lk).
  rewrite (get_option_rt (enc_i32 e) _ _ m _ (Some (sp_manual_liveliness_count v)) (rt_i32 e) Hcnt)
    by (rewrite S by (cbn; tauto); unfold spdp_to_params; lk).
  rewrite (get_first_rt (enc_u32 e) _ _ m _ (sp_available_builtin_endpoints v) (rt_u32 e) Hset)
    by (rewrite S by (cbn; tauto); unfold spdp_to_params; lk).
  rewrite (get_option_rt (enc_u32 e) _ _ m _ (sp_builtin_endpoint_qos v) (rt_u32 e) Hbeq)
    by (rewrite S by (cbn; tauto); unfold spdp_to_params; lk).
  rewrite (get_option_rt (enc_string e) _ string_ok m _ (sp_entity_name v) (rt_string e))
    by (try (rewrite S by (cbn; tauto); unfold spdp_to_params; lk);
        destruct (sp_entity_name v); cbn in *; auto using pstring_string_ok).
  rewrite (get_option_rt (enc_secinfo e) _ _ m _ (sp_security_info v) (rt_secinfo _ e) Hsec)
    by (rewrite S by (cbn; tauto); unfold spdp_to_params; lk).
  cbn [obind unwrap_or]. destruct v; reflexivity.
Qed.

Lemma spdp_from_map_ext e m m' :
  (forall pid, In pid spdp_pids -> m pid = m' pid) -> spdp_from_map e m = spdp_from_map e m'.
Proof.
  intros H. unfold spdp_from_map, get_option, get_first, get_all.
  rewrite (H 21), (H 22), (H 67), (H 80), (H 50), (H 51), (H 49), (H 72), (H 2), (H 52), (H 88),
          (H 119), (H 98), (H 4101) by (cbn; tauto).
  reflexivity.
Qed.

Lemma params_of_ok pid vs :
  u16_ok pid -> pid <> PID_SENTINEL -> Forall (fun v => len v <= 65532) vs -> Forall param_ok (params_of pid vs).
Proof.
  intros H1 H2 H. unfold params_of. induction H; cbn [map]; constructor; auto using param_ok_intro.
Qed.

Lemma locators_small e ls : Forall locator_ok ls -> Forall (fun v => len v <= 65532) (map (enc_locator e) ls).
Proof.
  induction 1 as [|l ls Hl _ IH]; cbn [map]; constructor; [|exact IH].
  rewrite enc_locator_len; [lia|]. destruct l; cbn in *; tauto.
Qed.

Lemma enc_string_small e s : pstring_ok s -> len (enc_string e s) <= 65532.
Proof. intros [_ H]. rewrite enc_string_len. lia. Qed.

Lemma one_param_ok pid v : u16_ok pid -> pid <> PID_SENTINEL -> len v <= 65532 -> Forall param_ok [(pid, v)].
Proof. intros. constructor; [now apply param_ok_intro|constructor]. Qed.

Lemma opt_param_ok' {A} pid (enc : A -> list Z) (P : A -> Prop) o :
  u16_ok pid -> pid <> PID_SENTINEL -> (forall a, P a -> len (enc a) <= 65532) -> oall P o ->
  Forall param_ok (opt_param pid enc o).
Proof. intros H1 H2 H3 H4. destruct o; cbn in *; constructor; [apply param_ok_intro; auto | constructor]. Qed.

Lemma spdp_params_ok e v : spdp_ok v -> Forall param_ok (spdp_to_params e v).
Proof.
  intros (Hg & Hmu & Hmm & Hdu & Hdm & Hset & Hlease & Hcnt & Hbeq & Hname & Hsec).
  unfold spdp_to_params. repeat (apply Forall_app; split).
  - apply one_param_ok; [unfold u16_ok; lia | discriminate | cbn; lia].
  - apply one_param_ok; [unfold u16_ok; lia | discriminate | cbn; lia].
  - apply one_param_ok; [unfold u16_ok; lia | discriminate | cbn; lia].
  - apply one_param_ok; [unfold u16_ok; lia | discriminate | unfold enc_guid; rewrite Hg; lia].
  - apply params_of_ok; [unfold u16_ok; lia | discriminate | now apply locators_small].
  - apply params_of_ok; [unfold u16_ok; lia | discriminate | now apply locators_small].
  - apply params_of_ok; [unfold u16_ok; lia | discriminate | now apply locators_small].
  - apply params_of_ok; [unfold u16_ok; lia | discriminate | now apply locators_small].
  - apply one_param_ok; [unfold u16_ok; lia | discriminate | rewrite enc_u32_len; lia].
  - apply opt_param_ok; [unfold u16_ok; lia | discriminate | intros a; rewrite enc_duration_len; lia].
  - apply one_param_ok; [unfold u16_ok; lia | discriminate | rewrite enc_i32_len; lia].
  - apply opt_param_ok; [unfold u16_ok; lia | discriminate | intros a; rewrite enc_u32_len; lia].
  - apply (opt_param_ok' _ _ pstring_ok); [unfold u16_ok; lia | discriminate | apply enc_string_small | exact Hname].
  - apply opt_param_ok; [unfold u16_ok; lia | discriminate | intros a; rewrite enc_secinfo_len; lia].
Qed.

Theorem roundtrip_spdp e v : spdp_ok v -> decode_spdp e (encode_spdp e v) = Ok v.
Proof.
  intros H. unfold decode_spdp, encode_spdp, with_pl.
  rewrite <- (app_nil_r (enc_pl e _)). rewrite dec_enc_pl by now apply spdp_params_ok.
  rewrite (spdp_from_map_rt e v); [reflexivity | exact H |].
  intros pid _. apply lookup_all_padp.
Qed.
