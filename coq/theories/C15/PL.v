(* C15 — the generic parameter-list layer.
   Rust: messages/submessages/elements/parameter.rs (Parameter::write_to),
         messages/submessages/elements/parameter_list.rs (ParameterList write_to / read_from / to_map),
         serialization/speedy_pl_cdr_helpers.rs (get_first/get_option/get_all_from_pl_map). *)
From Coq Require Import List ZArith Lia Bool.
From RD Require Import C15.Prim.
Import ListNotations.
Open Scope Z_scope.

(* Parameter { parameter_id : ParameterId(u16), value : Vec<u8> } *)
Definition param := (Z * list Z)%type.

Definition PID_SENTINEL := 1.

(* Parameter::write_to: id, (length + pad) as u16, value, pad zero bytes *)
Definition pad4 (n : Z) : Z := if n mod 4 =? 0 then 0 else 4 - n mod 4.
Definition enc_param (e : endian) (p : param) : list Z :=
  let length := len (snd p) in
  let pad := pad4 length in
  enc_u16 e (fst p) ++ enc_u16 e ((length + pad) mod 65536) ++ snd p ++ zeros pad.

(* ParameterList::write_to: every parameter, then SENTINEL = Parameter{PID_SENTINEL, []} *)
Definition enc_sentinel (e : endian) : list Z := enc_param e (PID_SENTINEL, []).
Definition enc_pl (e : endian) (ps : list param) : list Z :=
  flat_map (enc_param e) ps ++ enc_sentinel e.

(* ParameterList::read_from: loop { id; length; if id == SENTINEL return; value = read_vec(length) }.
   The loop's trip count is data dependent: explicit fuel, distinguished OutOfFuel. *)
Fixpoint dec_pl_aux (fuel : nat) (e : endian) (bs : list Z) : outcome (list param) :=
  match fuel with
  | O => OutOfFuel
  | S f =>
    match dec_u16 e bs with
    | None => Err
    | Some (pid, bs1) =>
      match dec_u16 e bs1 with
      | None => Err
      | Some (length, bs2) =>
        if pid =? PID_SENTINEL then Ok []
        else match take length bs2 with
             | None => Err
             | Some (v, bs3) =>
               match dec_pl_aux f e bs3 with
               | Ok ps => Ok ((pid, v) :: ps)
               | Err => Err
               | OutOfFuel => OutOfFuel
               end
             end
      end
    end
  end.
Definition dec_pl (e : endian) (bs : list Z) : outcome (list param) :=
  dec_pl_aux (S (length bs)) e bs.

(* what the reader sees of a written parameter: the value with its padding *)
Definition padv (v : list Z) : list Z := v ++ zeros (pad4 (len v)).
Definition padp (p : param) : param := (fst p, padv (snd p)).

(* ParameterList::to_map + `.get(&pid)`: all parameters with that id, in list order.
   (BTreeMap<ParameterId, Vec<&Parameter>> built by pushing in list order; an absent key and an
   empty vector are indistinguishable for the three helpers below.) *)
Definition lookup_all (ps : list param) (pid : Z) : list (list Z) :=
  map snd (filter (fun p => fst p =? pid) ps).
Definition plmap := Z -> list (list Z).

(* get_first_from_pl_map: MissingField or read error -> error *)
Definition get_first {A} (r : reader A) (m : plmap) (pid : Z) : option A :=
  match m pid with [] => None | v :: _ => parse r v end.
(* get_option_from_pl_map: absent is fine, present must decode *)
Definition get_option {A} (r : reader A) (m : plmap) (pid : Z) : option (option A) :=
  match m pid with
  | [] => Some None
  | v :: _ => match parse r v with Some a => Some (Some a) | None => None end
  end.
(* get_all_from_pl_map: every occurrence must decode *)
Fixpoint parse_all {A} (r : reader A) (vs : list (list Z)) : option (list A) :=
  match vs with
  | [] => Some []
  | v :: vs' => match parse r v with
                | None => None
                | Some a => match parse_all r vs' with Some l => Some (a :: l) | None => None end
                end
  end.
Definition get_all {A} (r : reader A) (m : plmap) (pid : Z) : option (list A) := parse_all r (m pid).

(* option monad for the from_pl_cdr_bytes bodies (`?` operator) *)
Definition obind {A B} (o : option A) (f : A -> option B) : option B :=
  match o with Some a => f a | None => None end.
Notation "x <-? o ;; k" := (obind o (fun x => k)) (at level 61, o at next level, right associativity).

(* from_pl_cdr_bytes skeleton: read the list, build the map, run the typed decoder *)
Definition with_pl {A} (e : endian) (bs : list Z) (f : plmap -> option A) : outcome A :=
  match dec_pl e bs with
  | Ok ps => match f (lookup_all ps) with Some a => Ok a | None => Err end
  | Err => Err
  | OutOfFuel => OutOfFuel
  end.

(* ------------------------------------------------------------------------------------------ *)
(* wire-level well-formedness of a parameter: id fits u16 and is not the sentinel, padded length
   fits the u16 length field (Parameter::write_to casts with `as u16`, i.e. truncates) *)
Definition param_ok (p : param) : Prop :=
  u16_ok (fst p) /\ fst p <> PID_SENTINEL /\ len (snd p) + pad4 (len (snd p)) < 65536.

Lemma pad4_range n : 0 <= pad4 n < 4.
Proof.
  unfold pad4. pose proof (Z.mod_pos_bound n 4 ltac:(lia)).
  destruct (Z.eqb_spec (n mod 4) 0); lia.
Qed.

Lemma pad4_mod n : (n + pad4 n) mod 4 = 0.
Proof.
  unfold pad4. destruct (Z.eqb_spec (n mod 4) 0) as [E|E].
  - now rewrite Z.add_0_r.
  - pose proof (Z.mod_pos_bound n 4 ltac:(lia)).
    rewrite Zplus_mod. replace ((4 - n mod 4) mod 4) with (4 - n mod 4) by (symmetry; apply Z.mod_small; lia).
    replace (n mod 4 + (4 - n mod 4)) with 4 by lia. reflexivity.
Qed.

Lemma len_padv v : len (padv v) = len v + pad4 (len v).
Proof. unfold padv. rewrite len_app, len_zeros; [reflexivity | apply pad4_range]. Qed.

Lemma pad4_padv v : pad4 (len (padv v)) = 0.
Proof. rewrite len_padv. unfold pad4 at 1. now rewrite pad4_mod. Qed.

Lemma padv_idem v : padv (padv v) = padv v.
Proof. unfold padv at 1. rewrite pad4_padv. cbn. apply app_nil_r. Qed.

(* one parameter is read back with its padding *)
Lemma dec_pl_aux_param f e p rest :
  param_ok p ->
  dec_pl_aux (S f) e (enc_param e p ++ rest) =
  match dec_pl_aux f e rest with Ok ps => Ok (padp p :: ps) | Err => Err | OutOfFuel => OutOfFuel end.
Proof.
  intros (Hid & Hns & Hlen). destruct p as [pid v]. cbn [fst snd] in *.
  cbn [dec_pl_aux]. unfold enc_param. cbn [fst snd]. rewrite <- !app_assoc.
  rewrite dec_enc_u16 by exact Hid.
  pose proof (pad4_range (len v)) as Hp. pose proof (len_nonneg v) as Hv.
  rewrite Z.mod_small by lia.
  rewrite dec_enc_u16 by (unfold u16_ok; lia).
  destruct (Z.eqb_spec pid PID_SENTINEL); [contradiction|].
  rewrite app_assoc. rewrite take_app_n by (rewrite len_app, len_zeros; lia).
  reflexivity.
Qed.

Lemma dec_pl_aux_sentinel f e rest : dec_pl_aux (S f) e (enc_sentinel e ++ rest) = Ok [].
Proof.
  cbn [dec_pl_aux]. unfold enc_sentinel, enc_param. cbn [fst snd]. rewrite <- !app_assoc.
  rewrite dec_enc_u16 by (unfold u16_ok, PID_SENTINEL; lia).
  change (len [] + pad4 (len [])) with 0. rewrite Z.mod_0_l by lia.
  rewrite dec_enc_u16 by (unfold u16_ok; lia). reflexivity.
Qed.

Lemma dec_pl_aux_enc f e ps rest :
  Forall param_ok ps -> (length ps < f)%nat ->
  dec_pl_aux f e (flat_map (enc_param e) ps ++ enc_sentinel e ++ rest) = Ok (map padp ps).
Proof.
  revert f; induction ps as [|p ps IH]; intros f HF Hf.
  - destruct f; [inversion Hf|]. cbn [flat_map map app]. apply dec_pl_aux_sentinel.
  - destruct f; [inversion Hf|]. inversion HF; subst.
    cbn [flat_map map]. rewrite <- app_assoc. rewrite dec_pl_aux_param by assumption.
    rewrite IH; [reflexivity | assumption | cbn in Hf; lia].
Qed.

Lemma enc_param_len e p : 4 <= len (enc_param e p).
Proof.
  unfold enc_param. rewrite !len_app, !enc_u16_len.
  pose proof (len_nonneg (snd p)). pose proof (len_nonneg (zeros (pad4 (len (snd p))))). lia.
Qed.

Lemma flat_map_len_ge e ps : 4 * Z.of_nat (length ps) <= len (flat_map (enc_param e) ps).
Proof.
  induction ps as [|p ps IH]; [cbn; lia|].
  cbn [flat_map length]. rewrite len_app. pose proof (enc_param_len e p). lia.
Qed.

(* the generic round trip of the parameter-list layer; trailing bytes after the sentinel are ignored *)
Lemma dec_enc_pl e ps rest :
  Forall param_ok ps -> dec_pl e (enc_pl e ps ++ rest) = Ok (map padp ps).
Proof.
  intros H. unfold dec_pl, enc_pl. rewrite <- app_assoc. apply dec_pl_aux_enc; [exact H|].
  pose proof (flat_map_len_ge e ps) as L. unfold len in L. rewrite !app_length. lia.
Qed.

(* the fuel given by dec_pl is never exhausted: every iteration consumes at least 4 bytes *)
Lemma dec_pl_aux_fuel f e bs : (length bs < 4 * f)%nat -> dec_pl_aux f e bs <> OutOfFuel.
Proof.
  revert bs; induction f; intros bs H; [lia|].
  cbn [dec_pl_aux]. unfold dec_u16, dec_uint.
  destruct (take (Z.of_nat 2) bs) as [[h1 bs1]|] eqn:T1; [|discriminate].
  destruct (take (Z.of_nat 2) bs1) as [[h2 bs2]|] eqn:T2; [|discriminate].
  apply take_len in T1 as [E1 L1]. apply take_len in T2 as [E2 L2]. subst bs bs1.
  destruct (_ =? PID_SENTINEL); [discriminate|].
  destruct (take _ bs2) as [[v bs3]|] eqn:T3; [|discriminate].
  apply take_len in T3 as [E3 L3]. subst bs2.
  specialize (IHf bs3). rewrite !app_length in H. unfold len in *.
  destruct (dec_pl_aux f e bs3); try discriminate. exfalso. apply IHf; [lia|reflexivity].
Qed.

Lemma dec_pl_never_out_of_fuel e bs : dec_pl e bs <> OutOfFuel.
Proof. unfold dec_pl. apply dec_pl_aux_fuel. lia. Qed.

(* ------------------------------------------------------------------------------------------ *)
(* lookup lemmas *)
Lemma lookup_all_app ps qs pid : lookup_all (ps ++ qs) pid = lookup_all ps pid ++ lookup_all qs pid.
Proof. unfold lookup_all. now rewrite filter_app, map_app. Qed.
Lemma lookup_all_nil pid : lookup_all [] pid = [].
Proof. reflexivity. Qed.
Lemma lookup_all_one_eq pid v : lookup_all [(pid, v)] pid = [v].
Proof. unfold lookup_all. cbn. now rewrite Z.eqb_refl. Qed.
Lemma lookup_all_one_ne pid pid' v : pid <> pid' -> lookup_all [(pid, v)] pid' = [].
Proof. intros H. unfold lookup_all. cbn. destruct (Z.eqb_spec pid pid'); [contradiction|reflexivity]. Qed.
Lemma lookup_all_padp ps pid : lookup_all (map padp ps) pid = map padv (lookup_all ps pid).
Proof.
  unfold lookup_all. induction ps as [|[q v] ps IH]; [reflexivity|].
  cbn [map filter fst snd padp]. destruct (q =? pid); cbn [map snd]; now rewrite IH.
Qed.
(* a list of parameters that all carry the same id *)
Lemma lookup_all_same pid vs : lookup_all (map (fun v => (pid, v)) vs) pid = vs.
Proof.
  unfold lookup_all. induction vs as [|v vs IH]; [reflexivity|].
  cbn [map filter fst]. rewrite Z.eqb_refl. cbn [map snd]. now rewrite IH.
Qed.
Lemma lookup_all_other pid pid' vs : pid <> pid' -> lookup_all (map (fun v => (pid, v)) vs) pid' = [].
Proof.
  intros H. unfold lookup_all. induction vs as [|v vs IH]; [reflexivity|].
  cbn [map filter fst]. destruct (Z.eqb_spec pid pid'); [contradiction|]. exact IH.
Qed.

(* ------------------------------------------------------------------------------------------ *)
(* parameters with foreign ids are invisible to every lookup of a known id *)
Inductive Merge {A} : list A -> list A -> list A -> Prop :=
| Merge_nil : Merge [] [] []
| Merge_l x l r m : Merge l r m -> Merge (x :: l) r (x :: m)
| Merge_r x l r m : Merge l r m -> Merge l (x :: r) (x :: m).

Lemma Merge_nil_r {A} (l : list A) : Merge l [] l.
Proof. induction l; constructor; auto. Qed.

Lemma lookup_all_merge ps extra ps' pid :
  Merge ps extra ps' -> Forall (fun p => fst p <> pid) extra -> lookup_all ps' pid = lookup_all ps pid.
Proof.
  unfold lookup_all. induction 1 as [|x l r m M IH|x l r m M IH]; intros HF.
  - reflexivity.
  - cbn [filter]. destruct (fst x =? pid); cbn [map]; now rewrite IH.
  - inversion HF; subst. cbn [filter]. destruct (Z.eqb_spec (fst x) pid); [contradiction|]. now apply IH.
Qed.

Lemma Merge_Forall {A} (P : A -> Prop) l r m : Merge l r m -> Forall P l -> Forall P r -> Forall P m.
Proof.
  induction 1; intros Hl Hr; [constructor| |].
  - inversion Hl; subst. constructor; auto.
  - inversion Hr; subst. constructor; auto.
Qed.

(* inserting one parameter at a position (Vec::insert(min(pos,len), p)) is a merge *)
Definition insert_at {A} (pos : nat) (x : A) (l : list A) : list A := firstn pos l ++ x :: skipn pos l.
Lemma Merge_insert_at {A} pos (x : A) l r m : Merge l r m -> exists r', Merge l r' (insert_at pos x m) /\ (forall P : A -> Prop, P x -> Forall P r -> Forall P r').
Proof.
  intros M. revert pos. induction M as [|y l r m M IH|y l r m M IH]; intros pos.
  - exists [x]. split; [|intros P Px _; constructor; auto].
    unfold insert_at. rewrite firstn_nil, skipn_nil. cbn. repeat constructor.
  - destruct pos as [|pos].
    + exists (x :: r). split; [|intros P Px Hr; constructor; auto].
      unfold insert_at. cbn. constructor. constructor. exact M.
    + destruct (IH pos) as (r' & M' & HP). exists r'. split; [|exact HP].
      unfold insert_at in *. cbn [firstn skipn app]. constructor. exact M'.
  - destruct pos as [|pos].
    + exists (x :: y :: r). split; [|intros P Px Hr; constructor; auto].
      unfold insert_at. cbn. constructor. constructor. exact M.
    + destruct (IH pos) as (r' & M' & HP). exists (y :: r'). split.
      * unfold insert_at in *. cbn [firstn skipn app]. constructor. exact M'.
      * intros P Px Hr. inversion Hr; subst. constructor; auto.
Qed.

Definition insert_all {A} (ins : list (nat * A)) (l : list A) : list A :=
  fold_left (fun acc i => insert_at (fst i) (snd i) acc) ins l.

Lemma Merge_insert_all {A} (ins : list (nat * A)) l :
  exists r, Merge l r (insert_all ins l) /\ (forall P : A -> Prop, Forall P (map snd ins) -> Forall P r).
Proof.
  unfold insert_all.
  assert (G : forall m r0, Merge l r0 m ->
     exists r, Merge l r (fold_left (fun acc i => insert_at (fst i) (snd i) acc) ins m) /\
       (forall P : A -> Prop, Forall P r0 -> Forall P (map snd ins) -> Forall P r)).
  { induction ins as [|[pos x] ins IH]; intros m r0 M.
    - exists r0. split; [exact M|auto].
    - cbn [fold_left fst snd]. destruct (Merge_insert_at pos x _ _ _ M) as (r1 & M1 & HP1).
      destruct (IH _ _ M1) as (r & M2 & HP2). exists r. split; [exact M2|].
      intros P H0 Hins. cbn in Hins. inversion Hins; subst. apply HP2; auto. }
  destruct (G l [] (Merge_nil_r l)) as (r & M & HP). exists r. split; [exact M|].
  intros P H. apply HP; [constructor|exact H].
Qed.
