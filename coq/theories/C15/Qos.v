(* C15 — QosPolicies on the wire.
   Rust: dds/qos.rs  QosPolicies::to_parameter_list / from_parameter_list, the speedy-derived
   Writable/Readable of the policy types (enum tag = u32 in declaration order unless #[repr]),
   HistorySerialization, OwnershipKind, ReliabilitySerialization, structure/endpoint.rs
   ReliabilityKind (BestEffort = 1, Reliable = 2), structure/duration.rs Duration {i32, u32}. *)
From Coq Require Import List ZArith Lia Bool.
From RD Require Import C15.Prim C15.PL.
Import ListNotations.
Open Scope Z_scope.

(* structure/parameter_id.rs *)
Notation PID_DURABILITY := 29 (only parsing).
Notation PID_PRESENTATION := 33 (only parsing).
Notation PID_DEADLINE := 35 (only parsing).
Notation PID_LATENCY_BUDGET := 39 (only parsing).
Notation PID_OWNERSHIP := 31 (only parsing).
Notation PID_OWNERSHIP_STRENGTH := 6 (only parsing).
Notation PID_LIVELINESS := 27 (only parsing).
Notation PID_TIME_BASED_FILTER := 4 (only parsing).
Notation PID_RELIABILITY := 26 (only parsing).
Notation PID_DESTINATION_ORDER := 37 (only parsing).
Notation PID_HISTORY := 64 (only parsing).
Notation PID_RESOURCE_LIMITS := 65 (only parsing).
Notation PID_LIFESPAN := 43 (only parsing).

(* ------------------------------------------------------------------------------------------ *)
(* value types *)
Definition duration := (Z * Z)%type.       (* seconds : i32, fraction : u32 *)
Inductive durability := Volatile | TransientLocal | Transient | Persistent.
Inductive access_scope := ScInstance | ScTopic | ScGroup.
Record presentation := { p_scope : access_scope; p_coherent : bool; p_ordered : bool }.
Inductive ownership := Shared | Exclusive (strength : Z).
Inductive liveliness :=
  Automatic (lease : duration) | ManualByParticipant (lease : duration) | ManualByTopic (lease : duration).
Inductive reliability := BestEffort | Reliable (max_blocking : duration).
Inductive dest_order := ByReception | BySource.
Inductive history := KeepLast (depth : Z) | KeepAll.
Record resource_limits := { max_samples : Z; max_instances : Z; max_samples_per_instance : Z }.

(* QosPolicies, fields in declaration order; `property` (feature security) is neither written nor
   read by to_parameter_list/from_parameter_list ("TODO" in the code) and is not modelled. *)
Record qos := {
  q_durability : option durability;
  q_presentation : option presentation;
  q_deadline : option duration;
  q_latency_budget : option duration;
  q_ownership : option ownership;
  q_liveliness : option liveliness;
  q_time_based_filter : option duration;
  q_reliability : option reliability;
  q_destination_order : option dest_order;
  q_history : option history;
  q_resource_limits : option resource_limits;
  q_lifespan : option duration }.

Definition qos_none : qos := Build_qos None None None None None None None None None None None None.

(* ------------------------------------------------------------------------------------------ *)
(* field codecs *)
Definition enc_duration (e : endian) (d : duration) : list Z := enc_i32 e (fst d) ++ enc_u32 e (snd d).
Definition dec_duration (e : endian) : reader duration :=
  s <- dec_i32 e ;; f <- dec_u32 e ;; ret (s, f).
Definition duration_ok (d : duration) := i32_ok (fst d) /\ u32_ok (snd d).

Definition durability_tag d := match d with Volatile => 0 | TransientLocal => 1 | Transient => 2 | Persistent => 3 end.
Definition enc_durability (e : endian) (d : durability) : list Z := enc_u32 e (durability_tag d).
Definition dec_durability (e : endian) : reader durability :=
  t <- dec_u32 e ;;
  if t =? 0 then ret Volatile else if t =? 1 then ret TransientLocal
  else if t =? 2 then ret Transient else if t =? 3 then ret Persistent else fail.

Definition scope_tag s := match s with ScInstance => 0 | ScTopic => 1 | ScGroup => 2 end.
Definition enc_presentation (e : endian) (p : presentation) : list Z :=
  enc_u32 e (scope_tag (p_scope p)) ++ enc_bool (p_coherent p) ++ enc_bool (p_ordered p).
Definition dec_scope (e : endian) : reader access_scope :=
  t <- dec_u32 e ;;
  if t =? 0 then ret ScInstance else if t =? 1 then ret ScTopic else if t =? 2 then ret ScGroup else fail.
Definition dec_presentation (e : endian) : reader presentation :=
  s <- dec_scope e ;; c <- dec_bool ;; o <- dec_bool ;; ret (Build_presentation s c o).

(* OwnershipKind { Shared, Exclusive } *)
Inductive ownership_kind := OkShared | OkExclusive.
Definition enc_ownership_kind (e : endian) (k : ownership_kind) : list Z :=
  enc_u32 e (match k with OkShared => 0 | OkExclusive => 1 end).
Definition dec_ownership_kind (e : endian) : reader ownership_kind :=
  t <- dec_u32 e ;; if t =? 0 then ret OkShared else if t =? 1 then ret OkExclusive else fail.

Definition liveliness_tag l := match l with Automatic _ => 0 | ManualByParticipant _ => 1 | ManualByTopic _ => 2 end.
Definition liveliness_lease l := match l with Automatic d | ManualByParticipant d | ManualByTopic d => d end.
Definition enc_liveliness (e : endian) (l : liveliness) : list Z :=
  enc_u32 e (liveliness_tag l) ++ enc_duration e (liveliness_lease l).
Definition dec_liveliness (e : endian) : reader liveliness :=
  t <- dec_u32 e ;;
  if t =? 0 then (d <- dec_duration e ;; ret (Automatic d))
  else if t =? 1 then (d <- dec_duration e ;; ret (ManualByParticipant d))
  else if t =? 2 then (d <- dec_duration e ;; ret (ManualByTopic d))
  else fail.

(* ReliabilitySerialization { reliability_kind : ReliabilityKind (1|2), max_blocking_time } *)
Inductive reliability_kind := RkBestEffort | RkReliable.
Definition enc_reliability_ser (e : endian) (k : reliability_kind) (d : duration) : list Z :=
  enc_u32 e (match k with RkBestEffort => 1 | RkReliable => 2 end) ++ enc_duration e d.
Definition dec_reliability_ser (e : endian) : reader (reliability_kind * duration) :=
  t <- dec_u32 e ;;
  k <- (if t =? 1 then ret RkBestEffort else if t =? 2 then ret RkReliable else fail) ;;
  d <- dec_duration e ;; ret (k, d).
(* to_parameter_list: BestEffort is written with the dummy Duration::ZERO *)
Definition enc_reliability (e : endian) (r : reliability) : list Z :=
  match r with
  | BestEffort => enc_reliability_ser e RkBestEffort (0, 0)
  | Reliable d => enc_reliability_ser e RkReliable d
  end.
Definition dec_reliability (e : endian) : reader reliability :=
  '(k, d) <- dec_reliability_ser e ;;
  ret (match k with RkBestEffort => BestEffort | RkReliable => Reliable d end).

Definition enc_dest_order (e : endian) (d : dest_order) : list Z :=
  enc_u32 e (match d with ByReception => 0 | BySource => 1 end).
Definition dec_dest_order (e : endian) : reader dest_order :=
  t <- dec_u32 e ;; if t =? 0 then ret ByReception else if t =? 1 then ret BySource else fail.

(* HistorySerialization { kind : HistoryKind {KeepLast, KeepAll}, depth : i32 }; KeepAll writes depth 0 *)
Inductive history_kind := HkKeepLast | HkKeepAll.
Definition enc_history (e : endian) (h : history) : list Z :=
  match h with
  | KeepLast depth => enc_u32 e 0 ++ enc_i32 e depth
  | KeepAll => enc_u32 e 1 ++ enc_i32 e 0
  end.
Definition dec_history (e : endian) : reader history :=
  t <- dec_u32 e ;;
  k <- (if t =? 0 then ret HkKeepLast else if t =? 1 then ret HkKeepAll else fail) ;;
  depth <- dec_i32 e ;;
  ret (match k with HkKeepAll => KeepAll | HkKeepLast => KeepLast depth end).

Definition enc_resource_limits (e : endian) (r : resource_limits) : list Z :=
  enc_i32 e (max_samples r) ++ enc_i32 e (max_instances r) ++ enc_i32 e (max_samples_per_instance r).
Definition dec_resource_limits (e : endian) : reader resource_limits :=
  a <- dec_i32 e ;; b <- dec_i32 e ;; c <- dec_i32 e ;; ret (Build_resource_limits a b c).

(* ------------------------------------------------------------------------------------------ *)
(* QosPolicies::to_parameter_list, statement by statement *)
Definition opt_param {A} (pid : Z) (enc : A -> list Z) (o : option A) : list param :=
  match o with Some a => [(pid, enc a)] | None => [] end.

Definition ownership_params (e : endian) (o : option ownership) : list param :=
  match o with
  | Some (Exclusive strength) =>
      [(PID_OWNERSHIP, enc_ownership_kind e OkExclusive); (PID_OWNERSHIP_STRENGTH, enc_i32 e strength)]
  | Some Shared => [(PID_OWNERSHIP, enc_ownership_kind e OkShared)]
  | None => []
  end.

Definition qos_to_params (e : endian) (q : qos) : list param :=
  opt_param PID_DURABILITY (enc_durability e) (q_durability q) ++
  opt_param PID_PRESENTATION (enc_presentation e) (q_presentation q) ++
  opt_param PID_DEADLINE (enc_duration e) (q_deadline q) ++
  opt_param PID_LATENCY_BUDGET (enc_duration e) (q_latency_budget q) ++
  ownership_params e (q_ownership q) ++
  opt_param PID_LIVELINESS (enc_liveliness e) (q_liveliness q) ++
  opt_param PID_TIME_BASED_FILTER (enc_duration e) (q_time_based_filter q) ++
  opt_param PID_RELIABILITY (enc_reliability e) (q_reliability q) ++
  opt_param PID_DESTINATION_ORDER (enc_dest_order e) (q_destination_order q) ++
  opt_param PID_HISTORY (enc_history e) (q_history q) ++
  opt_param PID_RESOURCE_LIMITS (enc_resource_limits e) (q_resource_limits q) ++
  opt_param PID_LIFESPAN (enc_duration e) (q_lifespan q).

(* QosPolicies::from_parameter_list, statement by statement (the order of the reads only matters
   for which error is reported; every error is Err) *)
Definition combine_ownership (k : option ownership_kind) (s : option Z) : option ownership :=
  match k, s with
  | Some OkShared, None => Some Shared
  | Some OkShared, Some _ => None              (* warn!: Shared and a strength value *)
  | Some OkExclusive, Some strength => Some (Exclusive strength)
  | Some OkExclusive, None => None             (* warn!: Exclusive but no strength value *)
  | None, Some _ => None                       (* warn!: strength but no kind *)
  | None, None => None
  end.

Definition qos_from_map (e : endian) (m : plmap) : option qos :=
  durability <-? get_option (dec_durability e) m PID_DURABILITY ;;
  presentation <-? get_option (dec_presentation e) m PID_PRESENTATION ;;
  deadline <-? get_option (dec_duration e) m PID_DEADLINE ;;
  latency_budget <-? get_option (dec_duration e) m PID_LATENCY_BUDGET ;;
  ownership_kind <-? get_option (dec_ownership_kind e) m PID_OWNERSHIP ;;
  ownership_strength <-? get_option (dec_i32 e) m PID_OWNERSHIP_STRENGTH ;;
  let ownership := combine_ownership ownership_kind ownership_strength in
  reliability <-? get_option (dec_reliability e) m PID_RELIABILITY ;;
  destination_order <-? get_option (dec_dest_order e) m PID_DESTINATION_ORDER ;;
  history <-? get_option (dec_history e) m PID_HISTORY ;;
  liveliness <-? get_option (dec_liveliness e) m PID_LIVELINESS ;;
  time_based_filter <-? get_option (dec_duration e) m PID_TIME_BASED_FILTER ;;
  resource_limits <-? get_option (dec_resource_limits e) m PID_RESOURCE_LIMITS ;;
  lifespan <-? get_option (dec_duration e) m PID_LIFESPAN ;;
  Some {| q_durability := durability; q_presentation := presentation; q_deadline := deadline;
          q_latency_budget := latency_budget; q_ownership := ownership; q_liveliness := liveliness;
          q_time_based_filter := time_based_filter; q_reliability := reliability;
          q_destination_order := destination_order; q_history := history;
          q_resource_limits := resource_limits; q_lifespan := lifespan |}.

(* the parameter ids from_parameter_list looks at *)
Definition qos_pids : list Z := [29; 33; 35; 39; 31; 6; 26; 37; 64; 27; 4; 65; 43].

(* bytes level: ParameterList{parameters: to_parameter_list}.serialize_to_bytes and
   ParameterList::read_from_buffer + to_map + from_parameter_list *)
Definition encode_qos (e : endian) (q : qos) : list Z := enc_pl e (qos_to_params e q).
Definition decode_qos (e : endian) (bs : list Z) : outcome qos := with_pl e bs (qos_from_map e).

(* ------------------------------------------------------------------------------------------ *)
(* well-formedness = the machine ranges of the Rust fields *)
Definition oall {A} (P : A -> Prop) (o : option A) : Prop := match o with Some a => P a | None => True end.
Definition ownership_ok o := match o with Shared => True | Exclusive s => i32_ok s end.
Definition liveliness_ok l := duration_ok (liveliness_lease l).
Definition reliability_ok r := match r with BestEffort => True | Reliable d => duration_ok d end.
Definition history_ok h := match h with KeepLast d => i32_ok d | KeepAll => True end.
Definition resource_limits_ok r :=
  i32_ok (max_samples r) /\ i32_ok (max_instances r) /\ i32_ok (max_samples_per_instance r).
Definition qos_ok (q : qos) : Prop :=
  oall duration_ok (q_deadline q) /\ oall duration_ok (q_latency_budget q) /\
  oall ownership_ok (q_ownership q) /\ oall liveliness_ok (q_liveliness q) /\
  oall duration_ok (q_time_based_filter q) /\ oall reliability_ok (q_reliability q) /\
  oall history_ok (q_history q) /\ oall resource_limits_ok (q_resource_limits q) /\
  oall duration_ok (q_lifespan q).

(* ------------------------------------------------------------------------------------------ *)
(* field round trips: dec (enc v ++ rest) = Some (v, rest) *)
Definition RT {A} (enc : A -> list Z) (dec : reader A) (wf : A -> Prop) : Prop :=
  forall v rest, wf v -> dec (enc v ++ rest) = Some (v, rest).

Lemma rt_duration e : RT (enc_duration e) (dec_duration e) duration_ok.
Proof.
  intros [s f] rest [H1 H2]. unfold dec_duration, enc_duration, bind. cbn [fst snd] in *.
  rewrite <- app_assoc. rewrite dec_enc_i32 by exact H1. rewrite dec_enc_u32 by exact H2. reflexivity.
Qed.

Lemma rt_durability e : RT (enc_durability e) (dec_durability e) (fun _ => True).
Proof.
  intros d rest _. unfold dec_durability, enc_durability, bind.
  rewrite dec_enc_u32 by (destruct d; unfold u32_ok; cbn; lia). destruct d; reflexivity.
Qed.

Lemma rt_presentation e : RT (enc_presentation e) (dec_presentation e) (fun _ => True).
Proof.
  intros [s c o] rest _. unfold dec_presentation, dec_scope, enc_presentation, bind. cbn [p_scope p_coherent p_ordered].
  rewrite <- !app_assoc. rewrite dec_enc_u32 by (destruct s; unfold u32_ok; cbn; lia).
  destruct s; cbn -[dec_bool enc_bool app]; rewrite !dec_enc_bool; reflexivity.
Qed.

Lemma rt_ownership_kind e : RT (enc_ownership_kind e) (dec_ownership_kind e) (fun _ => True).
Proof.
  intros k rest _. unfold dec_ownership_kind, enc_ownership_kind, bind.
  rewrite dec_enc_u32 by (destruct k; unfold u32_ok; lia). destruct k; reflexivity.
Qed.

Lemma rt_i32 e : RT (enc_i32 e) (dec_i32 e) i32_ok.
Proof. intros v rest H. now apply dec_enc_i32. Qed.
Lemma rt_u32 e : RT (enc_u32 e) (dec_u32 e) u32_ok.
Proof. intros v rest H. now apply dec_enc_u32. Qed.

Lemma rt_liveliness e : RT (enc_liveliness e) (dec_liveliness e) liveliness_ok.
Proof.
  intros l rest H. unfold dec_liveliness, enc_liveliness, bind. rewrite <- app_assoc.
  rewrite dec_enc_u32 by (destruct l; unfold u32_ok; cbn; lia).
  destruct l; cbn -[dec_duration enc_duration]; rewrite rt_duration by exact H; reflexivity.
Qed.

Lemma rt_reliability e : RT (enc_reliability e) (dec_reliability e) reliability_ok.
Proof.
  intros r rest H. unfold dec_reliability, dec_reliability_ser, enc_reliability, enc_reliability_ser, bind.
  destruct r as [|d]; rewrite <- app_assoc; rewrite dec_enc_u32 by (unfold u32_ok; lia);
    cbn -[dec_duration enc_duration]; rewrite rt_duration; try reflexivity.
  - unfold duration_ok, i32_ok, u32_ok; cbn; lia.
  - exact H.
Qed.

Lemma rt_dest_order e : RT (enc_dest_order e) (dec_dest_order e) (fun _ => True).
Proof.
  intros d rest _. unfold dec_dest_order, enc_dest_order, bind.
  rewrite dec_enc_u32 by (destruct d; unfold u32_ok; lia). destruct d; reflexivity.
Qed.

Lemma rt_history e : RT (enc_history e) (dec_history e) history_ok.
Proof.
  intros h rest H. unfold dec_history, enc_history, bind.
  destruct h as [d|]; rewrite <- app_assoc; rewrite dec_enc_u32 by (unfold u32_ok; lia);
    cbn -[dec_i32 enc_i32]; rewrite dec_enc_i32; try reflexivity.
  - exact H.
  - unfold i32_ok; lia.
Qed.

Lemma rt_resource_limits e : RT (enc_resource_limits e) (dec_resource_limits e) resource_limits_ok.
Proof.
  intros [a b c] rest (Ha & Hb & Hc). unfold dec_resource_limits, enc_resource_limits, bind.
  cbn [max_samples max_instances max_samples_per_instance] in *. rewrite <- !app_assoc.
  rewrite !dec_enc_i32 by assumption. reflexivity.
Qed.

(* reading a padded parameter value *)
Lemma parse_padv {A} (enc : A -> list Z) (dec : reader A) wf v :
  RT enc dec wf -> wf v -> parse dec (padv (enc v)) = Some v.
Proof. intros R H. unfold parse, padv. now rewrite R. Qed.

Lemma get_option_rt {A} (enc : A -> list Z) (dec : reader A) wf (m : plmap) pid (o : option A) :
  RT enc dec wf -> oall wf o ->
  m pid = map padv (match o with Some a => [enc a] | None => [] end) ->
  get_option dec m pid = Some o.
Proof.
  intros R H E. unfold get_option. rewrite E. destruct o as [a|]; [|reflexivity].
  cbn [map]. now rewrite (parse_padv enc dec wf a R H).
Qed.

Lemma get_first_rt {A} (enc : A -> list Z) (dec : reader A) wf (m : plmap) pid (a : A) :
  RT enc dec wf -> wf a -> m pid = map padv [enc a] -> get_first dec m pid = Some a.
Proof. intros R H E. unfold get_first. rewrite E. cbn [map]. now apply (parse_padv enc dec wf). Qed.

Lemma parse_all_rt {A} (enc : A -> list Z) (dec : reader A) wf (l : list A) :
  RT enc dec wf -> Forall wf l -> parse_all dec (map padv (map enc l)) = Some l.
Proof.
  intros R. induction 1 as [|a l Ha Hl IH]; [reflexivity|].
  cbn [map parse_all]. rewrite (parse_padv enc dec wf a R Ha). now rewrite IH.
Qed.

Lemma get_all_rt {A} (enc : A -> list Z) (dec : reader A) wf (m : plmap) pid (l : list A) :
  RT enc dec wf -> Forall wf l -> m pid = map padv (map enc l) -> get_all dec m pid = Some l.
Proof. intros R H E. unfold get_all. rewrite E. now apply (parse_all_rt enc dec wf). Qed.

(* ------------------------------------------------------------------------------------------ *)
(* lookups in the emitted list *)
Lemma lookup_opt_param_eq {A} pid (enc : A -> list Z) o :
  lookup_all (opt_param pid enc o) pid = match o with Some a => [enc a] | None => [] end.
Proof. destruct o; [apply lookup_all_one_eq|reflexivity]. Qed.
Lemma lookup_opt_param_ne {A} pid pid' (enc : A -> list Z) o :
  pid <> pid' -> lookup_all (opt_param pid enc o) pid' = [].
Proof. intros H. destruct o; [now apply lookup_all_one_ne|reflexivity]. Qed.

Lemma lookup_ownership_kind e o :
  lookup_all (ownership_params e o) PID_OWNERSHIP =
  match o with Some (Exclusive _) => [enc_ownership_kind e OkExclusive]
             | Some Shared => [enc_ownership_kind e OkShared] | None => [] end.
Proof. destruct o as [[|s]|]; reflexivity. Qed.
Lemma lookup_ownership_strength e o :
  lookup_all (ownership_params e o) PID_OWNERSHIP_STRENGTH =
  match o with Some (Exclusive s) => [enc_i32 e s] | _ => [] end.
Proof. destruct o as [[|s]|]; reflexivity. Qed.
Lemma lookup_ownership_ne e o pid :
  pid <> PID_OWNERSHIP -> pid <> PID_OWNERSHIP_STRENGTH -> lookup_all (ownership_params e o) pid = [].
Proof.
  intros H1 H2. destruct o as [[|s]|]; cbn [ownership_params]; try reflexivity.
  - apply lookup_all_one_ne. congruence.
  - match goal with |- lookup_all [?a; ?b] _ = _ => change [a; b] with ([a] ++ [b]) end.
    rewrite lookup_all_app, !lookup_all_one_ne by congruence. reflexivity.
Qed.

(* every lookup of a qos pid in qos_to_params: all other pieces contribute nothing *)
Ltac lk_qos :=
  unfold qos_to_params; rewrite !lookup_all_app;
  rewrite ?lookup_ownership_kind, ?lookup_ownership_strength;
  rewrite ?lookup_ownership_ne by discriminate;
  rewrite ?lookup_opt_param_eq;
  rewrite ?lookup_opt_param_ne by discriminate;
  rewrite ?app_nil_r; cbn [app]; try reflexivity.

Lemma lk_durability e q : lookup_all (qos_to_params e q) PID_DURABILITY =
  match q_durability q with Some a => [enc_durability e a] | None => [] end.
Proof. lk_qos. Qed.
Lemma lk_presentation e q : lookup_all (qos_to_params e q) PID_PRESENTATION =
  match q_presentation q with Some a => [enc_presentation e a] | None => [] end.
Proof. lk_qos. Qed.
Lemma lk_deadline e q : lookup_all (qos_to_params e q) PID_DEADLINE =
  match q_deadline q with Some a => [enc_duration e a] | None => [] end.
Proof. lk_qos. Qed.
Lemma lk_latency_budget e q : lookup_all (qos_to_params e q) PID_LATENCY_BUDGET =
  match q_latency_budget q with Some a => [enc_duration e a] | None => [] end.
Proof. lk_qos. Qed.
Lemma lk_ownership e q : lookup_all (qos_to_params e q) PID_OWNERSHIP =
  match q_ownership q with Some (Exclusive _) => [enc_ownership_kind e OkExclusive]
             | Some Shared => [enc_ownership_kind e OkShared] | None => [] end.
Proof. lk_qos. Qed.
Lemma lk_ownership_strength e q : lookup_all (qos_to_params e q) PID_OWNERSHIP_STRENGTH =
  match q_ownership q with Some (Exclusive s) => [enc_i32 e s] | _ => [] end.
Proof. lk_qos. Qed.
Lemma lk_liveliness e q : lookup_all (qos_to_params e q) PID_LIVELINESS =
  match q_liveliness q with Some a => [enc_liveliness e a] | None => [] end.
Proof. lk_qos. Qed.
Lemma lk_time_based_filter e q : lookup_all (qos_to_params e q) PID_TIME_BASED_FILTER =
  match q_time_based_filter q with Some a => [enc_duration e a] | None => [] end.
Proof. lk_qos. Qed.
Lemma lk_reliability e q : lookup_all (qos_to_params e q) PID_RELIABILITY =
  match q_reliability q with Some a => [enc_reliability e a] | None => [] end.
Proof. lk_qos. Qed.
Lemma lk_destination_order e q : lookup_all (qos_to_params e q) PID_DESTINATION_ORDER =
  match q_destination_order q with Some a => [enc_dest_order e a] | None => [] end.
Proof. lk_qos. Qed.
Lemma lk_history e q : lookup_all (qos_to_params e q) PID_HISTORY =
  match q_history q with Some a => [enc_history e a] | None => [] end.
Proof. lk_qos. Qed.
Lemma lk_resource_limits e q : lookup_all (qos_to_params e q) PID_RESOURCE_LIMITS =
  match q_resource_limits q with Some a => [enc_resource_limits e a] | None => [] end.
Proof. lk_qos. Qed.
Lemma lk_lifespan e q : lookup_all (qos_to_params e q) PID_LIFESPAN =
  match q_lifespan q with Some a => [enc_duration e a] | None => [] end.
Proof. lk_qos. Qed.

(* a pid that is not a qos pid finds nothing in qos_to_params *)
Lemma lk_qos_other e q pid : ~ In pid qos_pids -> lookup_all (qos_to_params e q) pid = [].
Proof.
  intros H. unfold qos_pids in H. cbn [In] in H.
  unfold qos_to_params; rewrite !lookup_all_app.
  rewrite lookup_ownership_ne by (intros ->; apply H; tauto).
  rewrite !lookup_opt_param_ne by (intros <-; apply H; tauto). reflexivity.
Qed.

(* ------------------------------------------------------------------------------------------ *)
(* from_parameter_list (any map that shows the written parameters, padded) gives back q *)
Definition shows (m : plmap) (ps : list param) (pids : list Z) : Prop :=
  forall pid, In pid pids -> m pid = map padv (lookup_all ps pid).

Lemma qos_from_map_rt e q m :
  qos_ok q -> shows m (qos_to_params e q) qos_pids -> qos_from_map e m = Some q.
Proof.
  intros (Hdl & Hlb & Hown & Hlv & Htb & Hrel & Hhis & Hrl & Hls) S.
  unfold qos_from_map.
  rewrite (get_option_rt (enc_durability e) _ (fun _ => True) m _ (q_durability q) (rt_durability e));
    [| destruct (q_durability q); exact I | rewrite S by (cbn; tauto); now rewrite lk_durability].
  rewrite (get_option_rt (enc_presentation e) _ (fun _ => True) m _ (q_presentation q) (rt_presentation e));
    [| destruct (q_presentation q); exact I | rewrite S by (cbn; tauto); now rewrite lk_presentation].
  rewrite (get_option_rt (enc_duration e) _ _ m _ (q_deadline q) (rt_duration e) Hdl)
    by (rewrite S by (cbn; tauto); now rewrite lk_deadline).
  rewrite (get_option_rt (enc_duration e) _ _ m _ (q_latency_budget q) (rt_duration e) Hlb)
    by (rewrite S by (cbn; tauto); now rewrite lk_latency_budget).
  cbn [obind].
  (* ownership: two parameters *)
  assert (Ek : get_option (dec_ownership_kind e) m PID_OWNERSHIP =
               Some (match q_ownership q with Some (Exclusive _) => Some OkExclusive
                                         | Some Shared => Some OkShared | None => None end)).
  { apply (get_option_rt (enc_ownership_kind e) _ (fun _ => True) m _ _ (rt_ownership_kind e)).
    - destruct (q_ownership q) as [[|]|]; exact I.
    - rewrite S by (cbn; tauto). rewrite lk_ownership. destruct (q_ownership q) as [[|]|]; reflexivity. }
  assert (Es : get_option (dec_i32 e) m PID_OWNERSHIP_STRENGTH =
               Some (match q_ownership q with Some (Exclusive s) => Some s | _ => None end)).
  { apply (get_option_rt (enc_i32 e) _ i32_ok m _ _ (rt_i32 e)).
    - destruct (q_ownership q) as [[|]|]; cbn in *; auto.
    - rewrite S by (cbn; tauto). rewrite lk_ownership_strength. destruct (q_ownership q) as [[|]|]; reflexivity. }
  rewrite Ek, Es. cbn [obind].
  rewrite (get_option_rt (enc_reliability e) _ _ m _ (q_reliability q) (rt_reliability e) Hrel)
    by (rewrite S by (cbn; tauto); now rewrite lk_reliability).
  rewrite (get_option_rt (enc_dest_order e) _ (fun _ => True) m _ (q_destination_order q) (rt_dest_order e));
    [| destruct (q_destination_order q); exact I | rewrite S by (cbn; tauto); now rewrite lk_destination_order].
  rewrite (get_option_rt (enc_history e) _ _ m _ (q_history q) (rt_history e) Hhis)
    by (rewrite S by (cbn; tauto); now rewrite lk_history).
  rewrite (get_option_rt (enc_liveliness e) _ _ m _ (q_liveliness q) (rt_liveliness e) Hlv)
    by (rewrite S by (cbn; tauto); now rewrite lk_liveliness).
  rewrite (get_option_rt (enc_duration e) _ _ m _ (q_time_based_filter q) (rt_duration e) Htb)
    by (rewrite S by (cbn; tauto); now rewrite lk_time_based_filter).
  rewrite (get_option_rt (enc_resource_limits e) _ _ m _ (q_resource_limits q) (rt_resource_limits e) Hrl)
    by (rewrite S by (cbn; tauto); now rewrite lk_resource_limits).
  rewrite (get_option_rt (enc_duration e) _ _ m _ (q_lifespan q) (rt_duration e) Hls)
    by (rewrite S by (cbn; tauto); now rewrite lk_lifespan).
  cbn [obind]. destruct q as [a b c d o f g h i j k l]. cbn. f_equal. f_equal.
  destruct o as [[|s]|]; reflexivity.
Qed.

(* from_parameter_list only depends on the lookups of the qos pids *)
Lemma qos_from_map_ext e m m' :
  (forall pid, In pid qos_pids -> m pid = m' pid) -> qos_from_map e m = qos_from_map e m'.
Proof.
  intros H. unfold qos_from_map, get_option.
  rewrite (H 29), (H 33), (H 35), (H 39), (H 31), (H 6), (H 26), (H 37), (H 64), (H 27), (H 4), (H 65), (H 43)
    by (cbn; tauto).
  reflexivity.
Qed.

(* ------------------------------------------------------------------------------------------ *)
(* parameters emitted by to_parameter_list fit the wire *)
Lemma param_ok_intro pid v : u16_ok pid -> pid <> PID_SENTINEL -> len v <= 65532 -> param_ok (pid, v).
Proof.
  intros H1 H2 H3. unfold param_ok. cbn [fst snd]. repeat split; try apply H1; try exact H2.
  pose proof (pad4_range (len v)). unfold pad4 in *.
  destruct (Z.eqb_spec (len v mod 4) 0) as [E|E]; [lia|].
  assert (len v <> 65532) by (intros X; rewrite X in E; apply E; reflexivity). lia.
Qed.

Lemma enc_duration_len e d : len (enc_duration e d) = 8.
Proof. unfold enc_duration. now rewrite len_app, enc_i32_len, enc_u32_len. Qed.
Lemma enc_durability_len e d : len (enc_durability e d) = 4.
Proof. apply enc_u32_len. Qed.
Lemma enc_presentation_len e p : len (enc_presentation e p) = 6.
Proof. unfold enc_presentation. now rewrite !len_app, enc_u32_len. Qed.
Lemma enc_ownership_kind_len e k : len (enc_ownership_kind e k) = 4.
Proof. apply enc_u32_len. Qed.
Lemma enc_liveliness_len e l : len (enc_liveliness e l) = 12.
Proof. unfold enc_liveliness. now rewrite len_app, enc_u32_len, enc_duration_len. Qed.
Lemma enc_reliability_len e r : len (enc_reliability e r) = 12.
Proof. destruct r; unfold enc_reliability, enc_reliability_ser; now rewrite len_app, enc_u32_len, enc_duration_len. Qed.
Lemma enc_dest_order_len e d : len (enc_dest_order e d) = 4.
Proof. apply enc_u32_len. Qed.
Lemma enc_history_len e h : len (enc_history e h) = 8.
Proof. destruct h; unfold enc_history; now rewrite len_app, enc_u32_len, enc_i32_len. Qed.
Lemma enc_resource_limits_len e r : len (enc_resource_limits e r) = 12.
Proof. unfold enc_resource_limits. now rewrite !len_app, !enc_i32_len. Qed.

Lemma opt_param_ok {A} pid (enc : A -> list Z) o :
  u16_ok pid -> pid <> PID_SENTINEL -> (forall a, len (enc a) <= 65532) -> Forall param_ok (opt_param pid enc o).
Proof. intros. destruct o; constructor; [apply param_ok_intro; auto | constructor]. Qed.

Lemma qos_params_ok e q : Forall param_ok (qos_to_params e q).
Proof.
  unfold qos_to_params. repeat (apply Forall_app; split);
    try (apply opt_param_ok; [unfold u16_ok; lia | discriminate | intros a]).
  all: rewrite ?enc_durability_len, ?enc_presentation_len, ?enc_duration_len, ?enc_liveliness_len,
         ?enc_reliability_len, ?enc_dest_order_len, ?enc_history_len, ?enc_resource_limits_len; try lia.
  destruct (q_ownership q) as [[|s]|]; cbn [ownership_params]; repeat constructor;
    apply param_ok_intro; try (unfold u16_ok; lia); try discriminate;
    rewrite ?enc_ownership_kind_len, ?enc_i32_len; lia.
Qed.

(* ------------------------------------------------------------------------------------------ *)
Theorem roundtrip_qos e q : qos_ok q -> decode_qos e (encode_qos e q) = Ok q.
Proof.
  intros H. unfold decode_qos, encode_qos, with_pl.
  rewrite <- (app_nil_r (enc_pl e _)). rewrite dec_enc_pl by apply qos_params_ok.
  rewrite (qos_from_map_rt e q); [reflexivity | exact H |].
  intros pid _. apply lookup_all_padp.
Qed.
