(* C15 — lemmas behind the property theorems: foreign parameters are skipped, defaults,
   soundness of the boolean oracle, the model satisfies the oracle. *)
From Coq Require Import List ZArith Lia Bool.
From RD Require Import C15.Prim C15.PL C15.Qos C15.Disc C15.Sedp C15.Model.
Import ListNotations.
Open Scope Z_scope.

(* ------------------------------------------------------------------------------------------ *)
(* generic: a typed deserialiser that only looks at `pids` does not see foreign parameters *)
Definition looks_only_at {A} (f : plmap -> option A) (pids : list Z) : Prop :=
  forall m m', (forall pid, In pid pids -> m pid = m' pid) -> f m = f m'.

Definition foreign (pids : list Z) (p : param) : Prop := param_ok p /\ ~ In (fst p) pids.

Lemma with_pl_foreign {A} e (f : plmap -> option A) pids ps extra ps' rest :
  looks_only_at f pids ->
  Forall param_ok ps -> Forall (foreign pids) extra -> Merge ps extra ps' ->
  with_pl e (enc_pl e ps' ++ rest) f = with_pl e (enc_pl e ps ++ rest) f.
Proof.
  intros L Hps Hex M. unfold with_pl.
  assert (Hps' : Forall param_ok ps').
  { apply (Merge_Forall _ _ _ _ M Hps). eapply Forall_impl; [|exact Hex]. intros p [H _]; exact H. }
  rewrite !dec_enc_pl by assumption.
  rewrite (L (lookup_all (map padp ps')) (lookup_all (map padp ps))); [reflexivity|].
  intros pid Hin. rewrite !lookup_all_padp. f_equal.
  apply (lookup_all_merge _ _ _ _ M).
  eapply Forall_impl; [|exact Hex]. intros p [_ Hn] Heq. apply Hn. now rewrite Heq.
Qed.

Lemma qos_looks_only_at e : looks_only_at (qos_from_map e) qos_pids.
Proof. intros m m' H. now apply qos_from_map_ext. Qed.

Lemma unknown_skipped_qos e q extra ps' :
  qos_ok q -> Forall (foreign qos_pids) extra -> Merge (qos_to_params e q) extra ps' ->
  decode_qos e (enc_pl e ps') = Ok q.
Proof.
  intros H Hex M. unfold decode_qos.
  rewrite <- (app_nil_r (enc_pl e ps')).
  rewrite (with_pl_foreign e _ qos_pids _ extra ps' [] (qos_looks_only_at e) (qos_params_ok e q) Hex M).
  rewrite app_nil_r. now apply roundtrip_qos.
Qed.

Lemma with_pl_roundtrip_foreign {A} e (f : plmap -> option A) pids ps extra ps' a :
  looks_only_at f pids -> Forall param_ok ps -> Forall (foreign pids) extra -> Merge ps extra ps' ->
  with_pl e (enc_pl e ps) f = Ok a -> with_pl e (enc_pl e ps') f = Ok a.
Proof.
  intros L Hps Hex M H. rewrite <- (app_nil_r (enc_pl e ps')).
  rewrite (with_pl_foreign e f pids ps extra ps' [] L Hps Hex M). now rewrite app_nil_r.
Qed.

Lemma spdp_looks_only_at e : looks_only_at (spdp_from_map e) spdp_pids.
Proof. intros m m' H. now apply spdp_from_map_ext. Qed.

Lemma unknown_skipped_spdp e v extra ps' :
  spdp_ok v -> Forall (foreign spdp_pids) extra -> Merge (spdp_to_params e v) extra ps' ->
  decode_spdp e (enc_pl e ps') = Ok v.
Proof.
  intros H Hex M. unfold decode_spdp.
  apply (with_pl_roundtrip_foreign e _ spdp_pids _ extra ps' v (spdp_looks_only_at e)
           (spdp_params_ok e v H) Hex M).
  now apply roundtrip_spdp.
Qed.

Lemma reader_looks_only_at e : looks_only_at (reader_from_map e) reader_pids.
Proof. intros m m' H. now apply reader_from_map_ext. Qed.
Lemma writer_looks_only_at e : looks_only_at (writer_from_map e) writer_pids.
Proof. intros m m' H. now apply writer_from_map_ext. Qed.
Lemma topic_looks_only_at e : looks_only_at (topic_from_map e) topic_pids.
Proof. intros m m' H. now apply topic_from_map_ext. Qed.

Lemma unknown_skipped_reader e v extra ps' :
  reader_ok v -> Forall (foreign reader_pids) extra -> Merge (reader_to_params e v) extra ps' ->
  decode_reader e (enc_pl e ps') = Ok v.
Proof.
  intros H Hex M. unfold decode_reader.
  apply (with_pl_roundtrip_foreign e _ reader_pids _ extra ps' v (reader_looks_only_at e)
           (reader_params_ok e v H) Hex M).
  now apply roundtrip_reader.
Qed.
Lemma unknown_skipped_writer e v extra ps' :
  writer_ok v -> Forall (foreign writer_pids) extra -> Merge (writer_to_params e v) extra ps' ->
  decode_writer e (enc_pl e ps') = Ok v.
Proof.
  intros H Hex M. unfold decode_writer.
  apply (with_pl_roundtrip_foreign e _ writer_pids _ extra ps' v (writer_looks_only_at e)
           (writer_params_ok e v H) Hex M).
  now apply roundtrip_writer.
Qed.
Lemma key_looks_only_at k : looks_only_at (key_from_map k) [key_pid k].
Proof. intros m m' H. now apply key_from_map_ext. Qed.
Lemma unknown_skipped_key e k g extra ps' :
  guid_ok g -> Forall (foreign [key_pid k]) extra -> Merge (key_to_params k g) extra ps' ->
  decode_key e k (enc_pl e ps') = Ok g.
Proof.
  intros H Hex M. unfold decode_key.
  apply (with_pl_roundtrip_foreign e _ [key_pid k] _ extra ps' g (key_looks_only_at k)
           (key_params_ok k g H) Hex M).
  now apply roundtrip_key.
Qed.
Lemma unknown_skipped_topic e v extra ps' :
  topic_ok v -> Forall (foreign topic_pids) extra -> Merge (topic_to_params e v) extra ps' ->
  decode_topic e (enc_pl e ps') = Ok v.
Proof.
  intros H Hex M. unfold decode_topic.
  apply (with_pl_roundtrip_foreign e _ topic_pids _ extra ps' v (topic_looks_only_at e)
           (topic_params_ok e v H) Hex M).
  now apply roundtrip_topic.
Qed.

(* ------------------------------------------------------------------------------------------ *)
(* defaults: a field whose parameter is absent from the list is None *)
Lemma get_option_absent {A} (r : reader A) (m : plmap) pid x :
  m pid = [] -> get_option r m pid = Some x -> x = None.
Proof. unfold get_option. intros ->. congruence. Qed.

(* inversion of the `?` chain *)
Lemma obind_some {A B} (o : option A) (f : A -> option B) b :
  obind o f = Some b -> exists a, o = Some a /\ f a = Some b.
Proof. destruct o; cbn; [eauto|discriminate]. Qed.

Lemma qos_defaults e m q :
  qos_from_map e m = Some q ->
  (m PID_DURABILITY = [] -> q_durability q = None) /\
  (m PID_PRESENTATION = [] -> q_presentation q = None) /\
  (m PID_DEADLINE = [] -> q_deadline q = None) /\
  (m PID_LATENCY_BUDGET = [] -> q_latency_budget q = None) /\
  (m PID_OWNERSHIP = [] -> q_ownership q = None) /\
  (m PID_LIVELINESS = [] -> q_liveliness q = None) /\
  (m PID_TIME_BASED_FILTER = [] -> q_time_based_filter q = None) /\
  (m PID_RELIABILITY = [] -> q_reliability q = None) /\
  (m PID_DESTINATION_ORDER = [] -> q_destination_order q = None) /\
  (m PID_HISTORY = [] -> q_history q = None) /\
  (m PID_RESOURCE_LIMITS = [] -> q_resource_limits q = None) /\
  (m PID_LIFESPAN = [] -> q_lifespan q = None).
Proof.
  unfold qos_from_map. intros H.
  repeat (apply obind_some in H; destruct H as (? & ? & H)).
  inversion H; subst; clear H. cbn.
  repeat split; intros E;
    try (eapply get_option_absent; [exact E | eassumption]).
  (* ownership: no kind parameter *)
  match goal with K : get_option (dec_ownership_kind e) m _ = Some ?k |- _ =>
    rewrite (get_option_absent _ _ _ _ E K) end.
  match goal with |- combine_ownership None ?s = None => destruct s; reflexivity end.
Qed.

Lemma get_all_absent {A} (r : reader A) (m : plmap) pid x :
  m pid = [] -> get_all r m pid = Some x -> x = [].
Proof. unfold get_all. intros ->. cbn. congruence. Qed.

Lemma spdp_defaults e m v :
  spdp_from_map e m = Some v ->
  (m PID_EXPECTS_INLINE_QOS = [] -> sp_expects_inline_qos v = false) /\
  (m PID_PARTICIPANT_MANUAL_LIVELINESS_COUNT = [] -> sp_manual_liveliness_count v = 0) /\
  (m PID_METATRAFFIC_UNICAST_LOCATOR = [] -> sp_metatraffic_unicast_locators v = []) /\
  (m PID_METATRAFFIC_MULTICAST_LOCATOR = [] -> sp_metatraffic_multicast_locators v = []) /\
  (m PID_DEFAULT_UNICAST_LOCATOR = [] -> sp_default_unicast_locators v = []) /\
  (m PID_DEFAULT_MULTICAST_LOCATOR = [] -> sp_default_multicast_locators v = []) /\
  (m PID_PARTICIPANT_LEASE_DURATION = [] -> sp_lease_duration v = None) /\
  (m PID_BUILTIN_ENDPOINT_QOS = [] -> sp_builtin_endpoint_qos v = None) /\
  (m PID_ENTITY_NAME = [] -> sp_entity_name v = None) /\
  (m PID_PARTICIPANT_SECURITY_INFO = [] -> sp_security_info v = None).
Proof.
  unfold spdp_from_map. intros H.
  repeat (apply obind_some in H; destruct H as (? & ? & H)).
  inversion H; subst; clear H. cbn.
  repeat match goal with |- _ /\ _ => split end; intros E;
    try (eapply get_option_absent; [exact E | eassumption]);
    try (eapply get_all_absent; [exact E | eassumption]).
  - match goal with K : get_option dec_bool m _ = Some ?k |- _ =>
      rewrite (get_option_absent _ _ _ _ E K) end. reflexivity.
  - match goal with K : get_option (dec_i32 e) m _ = Some ?k |- _ =>
      rewrite (get_option_absent _ _ _ _ E K) end. reflexivity.
Qed.

Definition qos_defaults_m (m : plmap) (q : qos) : Prop :=
  (m PID_DURABILITY = [] -> q_durability q = None) /\
  (m PID_PRESENTATION = [] -> q_presentation q = None) /\
  (m PID_DEADLINE = [] -> q_deadline q = None) /\
  (m PID_LATENCY_BUDGET = [] -> q_latency_budget q = None) /\
  (m PID_OWNERSHIP = [] -> q_ownership q = None) /\
  (m PID_LIVELINESS = [] -> q_liveliness q = None) /\
  (m PID_TIME_BASED_FILTER = [] -> q_time_based_filter q = None) /\
  (m PID_RELIABILITY = [] -> q_reliability q = None) /\
  (m PID_DESTINATION_ORDER = [] -> q_destination_order q = None) /\
  (m PID_HISTORY = [] -> q_history q = None) /\
  (m PID_RESOURCE_LIMITS = [] -> q_resource_limits q = None) /\
  (m PID_LIFESPAN = [] -> q_lifespan q = None).

Lemma qos_defaults_m_endpoint m q : qos_defaults_m m q -> qos_defaults_m m (endpoint_qos q).
Proof. unfold qos_defaults_m, endpoint_qos. cbn. tauto. Qed.
Lemma qos_defaults_m_topic m q : qos_defaults_m m q -> qos_defaults_m m (topic_qos q).
Proof. unfold qos_defaults_m, topic_qos. cbn. tauto. Qed.

Lemma reader_defaults e m v :
  reader_from_map e m = Some v ->
  (m PID_EXPECTS_INLINE_QOS = [] -> rd_expects_inline_qos v = false) /\
  (m PID_UNICAST_LOCATOR = [] -> rd_unicast v = []) /\
  (m PID_MULTICAST_LOCATOR = [] -> rd_multicast v = []) /\
  (m PID_PARTICIPANT_GUID = [] -> rd_participant_key v = None) /\
  (m PID_CONTENT_FILTER_PROPERTY = [] -> rd_content_filter v = None) /\
  (m PID_ENDPOINT_SECURITY_INFO = [] -> rd_security_info v = None) /\
  qos_defaults_m m (rd_qos v).
Proof.
  unfold reader_from_map. intros H.
  repeat (apply obind_some in H; destruct H as (? & ? & H)).
  inversion H; subst; clear H. cbn.
  repeat match goal with |- _ /\ _ => split end; try intros E;
    try (eapply get_option_absent; [exact E | eassumption]);
    try (eapply get_all_absent; [exact E | eassumption]).
  - match goal with K : get_option dec_bool m _ = Some ?k |- _ =>
      rewrite (get_option_absent _ _ _ _ E K) end. reflexivity.
  - apply qos_defaults_m_endpoint. eapply qos_defaults. eassumption.
Qed.

Lemma writer_defaults e m v :
  writer_from_map e m = Some v ->
  (m PID_UNICAST_LOCATOR = [] -> wd_unicast v = []) /\
  (m PID_MULTICAST_LOCATOR = [] -> wd_multicast v = []) /\
  (m PID_TYPE_MAX_SIZE_SERIALIZED = [] -> wd_data_max_size_serialized v = None) /\
  (m PID_PARTICIPANT_GUID = [] -> wd_participant_key v = None) /\
  (m PID_SERVICE_INSTANCE_NAME = [] -> wd_service_instance_name v = None) /\
  (m PID_RELATED_ENTITY_GUID = [] -> wd_related_datareader_key v = None) /\
  (m PID_TOPIC_ALIASES = [] -> wd_topic_aliases v = None) /\
  (m PID_ENDPOINT_SECURITY_INFO = [] -> wd_security_info v = None) /\
  qos_defaults_m m (wd_qos v).
Proof.
  unfold writer_from_map. intros H.
  repeat (apply obind_some in H; destruct H as (? & ? & H)).
  inversion H; subst; clear H. cbn.
  repeat match goal with |- _ /\ _ => split end; try intros E;
    try (eapply get_option_absent; [exact E | eassumption]);
    try (eapply get_all_absent; [exact E | eassumption]).
  - match goal with K : get_all (dec_string e) m _ = Some ?k |- _ =>
      rewrite (get_all_absent _ _ _ _ E K) end. reflexivity.
  - apply qos_defaults_m_endpoint. eapply qos_defaults. eassumption.
Qed.

Lemma topic_defaults e m v :
  topic_from_map e m = Some v ->
  (m PID_ENDPOINT_GUID = [] -> td_key v = None) /\ qos_defaults_m m (td_qos v).
Proof.
  unfold topic_from_map. intros H.
  repeat (apply obind_some in H; destruct H as (? & ? & H)).
  inversion H; subst; clear H. cbn. split.
  - intros E. eapply get_option_absent; [exact E | eassumption].
  - apply qos_defaults_m_topic. eapply qos_defaults. eassumption.
Qed.

(* ------------------------------------------------------------------------------------------ *)
(* boolean well-formedness reflects the Prop one *)
Lemma i32_okb_spec n : i32_okb n = true <-> i32_ok n.
Proof. unfold i32_okb, i32_ok. rewrite andb_true_iff, Z.leb_le, Z.ltb_lt. tauto. Qed.
Lemma u32_okb_spec n : u32_okb n = true <-> u32_ok n.
Proof. unfold u32_okb, u32_ok. rewrite andb_true_iff, Z.leb_le, Z.ltb_lt. tauto. Qed.
Lemma u16_okb_spec n : u16_okb n = true <-> u16_ok n.
Proof. unfold u16_okb, u16_ok. rewrite andb_true_iff, Z.leb_le, Z.ltb_lt. tauto. Qed.
Lemma duration_okb_spec d : duration_okb d = true <-> duration_ok d.
Proof. unfold duration_okb, duration_ok. rewrite andb_true_iff, i32_okb_spec, u32_okb_spec. tauto. Qed.

Lemma oallb_spec {A} (p : A -> bool) (P : A -> Prop) o :
  (forall a, p a = true <-> P a) -> (oallb p o = true <-> oall P o).
Proof. intros H. destruct o; cbn; [apply H|tauto]. Qed.

Lemma qos_okb_spec q : qos_okb q = true <-> qos_ok q.
Proof.
  unfold qos_okb, qos_ok. rewrite !andb_true_iff.
  rewrite !(oallb_spec duration_okb duration_ok) by apply duration_okb_spec.
  rewrite (oallb_spec _ ownership_ok (q_ownership q))
    by (intros [|s]; cbn; [tauto|apply i32_okb_spec]).
  rewrite (oallb_spec _ liveliness_ok (q_liveliness q))
    by (intros l; apply duration_okb_spec).
  rewrite (oallb_spec _ reliability_ok (q_reliability q))
    by (intros [|d]; cbn; [tauto|apply duration_okb_spec]).
  rewrite (oallb_spec _ history_ok (q_history q))
    by (intros [d|]; cbn; [apply i32_okb_spec|tauto]).
  rewrite (oallb_spec _ resource_limits_ok (q_resource_limits q))
    by (intros r; unfold resource_limits_ok; rewrite !andb_true_iff, !i32_okb_spec; tauto).
  tauto.
Qed.

Lemma locator_okb_spec l : locator_okb l = true -> locator_ok l.
Proof.
  destruct l; cbn [locator_okb locator_ok]; auto.
  - apply u16_okb_spec.
  - rewrite !andb_true_iff, !Z.eqb_eq, u16_okb_spec. tauto.
  - rewrite !andb_true_iff, !negb_true_iff, !Z.eqb_neq, i32_okb_spec, u32_okb_spec, Z.eqb_eq. tauto.
Qed.
Lemma forallb_Forall {A} (p : A -> bool) (P : A -> Prop) l :
  (forall a, p a = true -> P a) -> forallb p l = true -> Forall P l.
Proof.
  intros H. induction l as [|a l IH]; cbn; [constructor|].
  rewrite andb_true_iff. intros [H1 H2]. constructor; auto.
Qed.
Lemma pstring_okb_spec s : pstring_okb s = true -> pstring_ok s.
Proof. unfold pstring_okb, pstring_ok. rewrite andb_true_iff, Z.leb_le. tauto. Qed.
Lemma oallb_sound {A} (p : A -> bool) (P : A -> Prop) o :
  (forall a, p a = true -> P a) -> oallb p o = true -> oall P o.
Proof. intros H. destruct o; cbn; auto. Qed.

Lemma secinfo_okb_spec allowed s : secinfo_okb allowed s = true -> secinfo_ok allowed s.
Proof.
  unfold secinfo_okb, secinfo_ok. rewrite !andb_true_iff, Z.eqb_eq, !u32_okb_spec. tauto.
Qed.

Lemma spdp_okb_spec v : spdp_okb v = true -> spdp_ok v.
Proof.
  unfold spdp_okb, spdp_ok. rewrite !andb_true_iff, Z.eqb_eq.
  intros ((((((((((H1 & H2) & H3) & H4) & H5) & H6) & H7) & H8) & H9) & H10) & H11).
  repeat match goal with |- _ /\ _ => split end;
    try (eapply forallb_Forall; [apply locator_okb_spec | eassumption]).
  - exact H1.
  - now apply u32_okb_spec.
  - eapply oallb_sound; [|exact H7]. intros a. apply duration_okb_spec.
  - now apply i32_okb_spec.
  - eapply oallb_sound; [|exact H9]. intros a. apply u32_okb_spec.
  - eapply oallb_sound; [|exact H10]. apply pstring_okb_spec.
  - eapply oallb_sound; [|exact H11]. apply secinfo_okb_spec.
Qed.

Lemma guid_okb_spec g : guid_okb g = true -> guid_ok g.
Proof. unfold guid_okb, guid_ok. apply Z.eqb_eq. Qed.
Lemma string_okb_spec s : string_okb s = true -> string_ok s.
Proof. unfold string_okb, string_ok. rewrite andb_true_iff, Z.ltb_lt. tauto. Qed.
Lemma cfp_okb_spec c : cfp_okb c = true -> cfp_ok c.
Proof.
  unfold cfp_okb, cfp_ok. rewrite !andb_true_iff, !Z.leb_le.
  intros ((((((H1 & H2) & H3) & H4) & H5) & H6) & H7).
  repeat match goal with |- _ /\ _ => split end; auto using string_okb_spec.
  eapply forallb_Forall; [apply string_okb_spec | exact H5].
Qed.
Lemma is_none_true {A} (o : option A) : is_none o = true -> o = None.
Proof. destruct o; cbn; congruence. Qed.
Lemma dec_true {P : Prop} (d : {P} + {~ P}) : (if d then true else false) = true -> P.
Proof. destruct d; [auto|discriminate]. Qed.

Lemma reader_okb_spec v : reader_okb v = true -> reader_ok v.
Proof.
  unfold reader_okb, reader_ok. rewrite !andb_true_iff.
  intros (((((((((((H1 & H2) & H3) & H4) & H5) & H6) & H7) & H8) & H9) & H10) & H11) & H12).
  repeat match goal with |- _ /\ _ => split end;
    try (eapply forallb_Forall; [apply locator_okb_spec | eassumption]);
    auto using guid_okb_spec, pstring_okb_spec, is_none_true.
  - now apply dec_true in H2.
  - eapply oallb_sound; [apply guid_okb_spec | exact H5].
  - now apply qos_okb_spec.
  - eapply oallb_sound; [apply cfp_okb_spec | exact H11].
  - eapply oallb_sound; [apply secinfo_okb_spec | exact H12].
Qed.

Lemma aliases_okb_spec l : aliases_okb l = true -> aliases_ok l.
Proof.
  unfold aliases_okb, aliases_ok. rewrite andb_true_iff, negb_true_iff. intros [H1 H2]. split.
  - intros ->. discriminate.
  - eapply forallb_Forall; [apply pstring_okb_spec | exact H2].
Qed.

Lemma writer_okb_spec v : writer_okb v = true -> writer_ok v.
Proof.
  unfold writer_okb, writer_ok. rewrite !andb_true_iff.
  intros ((((((((((((((H1 & H2) & H3) & H4) & H5) & H6) & H7) & H8) & H9) & H10) & H11) & H12) & H13) & H14) & H15).
  repeat match goal with |- _ /\ _ => split end;
    try (eapply forallb_Forall; [apply locator_okb_spec | eassumption]);
    auto using guid_okb_spec, pstring_okb_spec, is_none_true.
  - now apply dec_true in H2.
  - eapply oallb_sound; [|exact H5]. intros a. apply u32_okb_spec.
  - eapply oallb_sound; [apply guid_okb_spec | exact H6].
  - now apply qos_okb_spec.
  - eapply oallb_sound; [apply pstring_okb_spec | exact H12].
  - eapply oallb_sound; [apply guid_okb_spec | exact H13].
  - eapply oallb_sound; [apply aliases_okb_spec | exact H14].
  - eapply oallb_sound; [apply secinfo_okb_spec | exact H15].
Qed.

Lemma topic_okb_spec v : topic_okb v = true -> topic_ok v.
Proof.
  unfold topic_okb, topic_ok. rewrite !andb_true_iff.
  intros ((((H1 & H2) & H3) & H4) & H5).
  repeat match goal with |- _ /\ _ => split end; auto using pstring_okb_spec, is_none_true.
  - eapply oallb_sound; [apply guid_okb_spec | exact H1].
  - now apply qos_okb_spec.
Qed.

Lemma pmd_okb_spec p : pmd_okb p = true -> pmd_ok p.
Proof. unfold pmd_okb, pmd_ok. rewrite !andb_true_iff, !Z.eqb_eq, Z.ltb_lt. tauto. Qed.

Lemma value_okb_spec v : value_okb v = true -> value_ok v.
Proof.
  destruct v; [apply qos_okb_spec | apply spdp_okb_spec | apply reader_okb_spec | apply writer_okb_spec
              | apply topic_okb_spec | apply pmd_okb_spec | apply guid_okb_spec].
Qed.

Lemma foreign_okb_spec k p : foreign_okb k p = true -> foreign (known_pids k) p.
Proof.
  unfold foreign_okb, foreign. rewrite !andb_true_iff, !negb_true_iff, u16_okb_spec, Z.leb_le.
  intros (((H1 & H2) & H3) & H4). split.
  - destruct p as [pid v]. apply param_ok_intro; cbn [fst snd] in *; auto.
    intros ->. now rewrite Z.eqb_refl in H2.
  - intros Hin. assert (existsb (Z.eqb (fst p)) (known_pids k) = true); [|congruence].
    apply existsb_exists. exists (fst p). split; [exact Hin|apply Z.eqb_refl].
Qed.

Lemma ins_okb_spec k ins : ins_okb k ins = true -> Forall (foreign (known_pids k)) (map snd ins).
Proof.
  unfold ins_okb. rewrite forallb_forall. intros H. apply Forall_forall. intros p Hp.
  apply in_map_iff in Hp as (i & <- & Hi). apply foreign_okb_spec. now apply H.
Qed.

Lemma oeqb_spec a b : oeqb a b = true <-> a = b.
Proof. unfold oeqb. destruct (outcome_eq_dec value_eq_dec a b); split; congruence. Qed.
Lemma obs_eqb_spec a b : obs_eqb a b = true <-> a = b.
Proof. unfold obs_eqb. destruct (obs_eq_dec a b); split; congruence. Qed.

(* ------------------------------------------------------------------------------------------ *)
(* the Prop reading of the oracle *)
Definition Absent (e : endian) (bs : list Z) (pid : Z) : Prop :=
  exists ps, dec_pl e bs = Ok ps /\ lookup_all ps pid = [].

Lemma absent_spec e bs pid : absent e bs pid = true <-> Absent e bs pid.
Proof.
  unfold absent, Absent. destruct (dec_pl e bs) as [ps| |].
  - destruct (lookup_all ps pid) eqn:E; split; intros H; try discriminate; eauto.
    destruct H as (ps' & H1 & H2). inversion H1; subst. congruence.
  - split; [discriminate|]. intros (? & H & _). discriminate.
  - split; [discriminate|]. intros (? & H & _). discriminate.
Qed.

Definition qos_defaults_ok (Ab : Z -> Prop) (q : qos) : Prop :=
  (Ab PID_DURABILITY -> q_durability q = None) /\
  (Ab PID_PRESENTATION -> q_presentation q = None) /\
  (Ab PID_DEADLINE -> q_deadline q = None) /\
  (Ab PID_LATENCY_BUDGET -> q_latency_budget q = None) /\
  (Ab PID_OWNERSHIP -> q_ownership q = None) /\
  (Ab PID_LIVELINESS -> q_liveliness q = None) /\
  (Ab PID_TIME_BASED_FILTER -> q_time_based_filter q = None) /\
  (Ab PID_RELIABILITY -> q_reliability q = None) /\
  (Ab PID_DESTINATION_ORDER -> q_destination_order q = None) /\
  (Ab PID_HISTORY -> q_history q = None) /\
  (Ab PID_RESOURCE_LIMITS -> q_resource_limits q = None) /\
  (Ab PID_LIFESPAN -> q_lifespan q = None).

Definition spdp_defaults_ok (Ab : Z -> Prop) (v : spdp) : Prop :=
  (Ab PID_EXPECTS_INLINE_QOS -> sp_expects_inline_qos v = false) /\
  (Ab PID_PARTICIPANT_MANUAL_LIVELINESS_COUNT -> sp_manual_liveliness_count v = 0) /\
  (Ab PID_METATRAFFIC_UNICAST_LOCATOR -> sp_metatraffic_unicast_locators v = []) /\
  (Ab PID_METATRAFFIC_MULTICAST_LOCATOR -> sp_metatraffic_multicast_locators v = []) /\
  (Ab PID_DEFAULT_UNICAST_LOCATOR -> sp_default_unicast_locators v = []) /\
  (Ab PID_DEFAULT_MULTICAST_LOCATOR -> sp_default_multicast_locators v = []) /\
  (Ab PID_PARTICIPANT_LEASE_DURATION -> sp_lease_duration v = None) /\
  (Ab PID_BUILTIN_ENDPOINT_QOS -> sp_builtin_endpoint_qos v = None) /\
  (Ab PID_ENTITY_NAME -> sp_entity_name v = None) /\
  (Ab PID_PARTICIPANT_SECURITY_INFO -> sp_security_info v = None).

Definition reader_defaults_ok (Ab : Z -> Prop) (v : reader_data) : Prop :=
  (Ab PID_EXPECTS_INLINE_QOS -> rd_expects_inline_qos v = false) /\
  (Ab PID_UNICAST_LOCATOR -> rd_unicast v = []) /\
  (Ab PID_MULTICAST_LOCATOR -> rd_multicast v = []) /\
  (Ab PID_PARTICIPANT_GUID -> rd_participant_key v = None) /\
  (Ab PID_CONTENT_FILTER_PROPERTY -> rd_content_filter v = None) /\
  (Ab PID_ENDPOINT_SECURITY_INFO -> rd_security_info v = None) /\
  qos_defaults_ok Ab (rd_qos v).
Definition writer_defaults_ok (Ab : Z -> Prop) (v : writer_data) : Prop :=
  (Ab PID_UNICAST_LOCATOR -> wd_unicast v = []) /\
  (Ab PID_MULTICAST_LOCATOR -> wd_multicast v = []) /\
  (Ab PID_TYPE_MAX_SIZE_SERIALIZED -> wd_data_max_size_serialized v = None) /\
  (Ab PID_PARTICIPANT_GUID -> wd_participant_key v = None) /\
  (Ab PID_SERVICE_INSTANCE_NAME -> wd_service_instance_name v = None) /\
  (Ab PID_RELATED_ENTITY_GUID -> wd_related_datareader_key v = None) /\
  (Ab PID_TOPIC_ALIASES -> wd_topic_aliases v = None) /\
  (Ab PID_ENDPOINT_SECURITY_INFO -> wd_security_info v = None) /\
  qos_defaults_ok Ab (wd_qos v).
Definition topic_defaults_ok (Ab : Z -> Prop) (v : topic_data) : Prop :=
  (Ab PID_ENDPOINT_GUID -> td_key v = None) /\ qos_defaults_ok Ab (td_qos v).

Definition defaults_ok (Ab : Z -> Prop) (v : value) : Prop :=
  match v with
  | VQos q => qos_defaults_ok Ab q
  | VSpdp s => spdp_defaults_ok Ab s
  | VReader r => reader_defaults_ok Ab r
  | VWriter w => writer_defaults_ok Ab w
  | VTopic t => topic_defaults_ok Ab t
  | VPmd _ => True
  | VKey _ _ => True
  end.

Lemma is_none_spec {A} (o : option A) : is_none o = true <-> o = None.
Proof. destruct o; cbn; split; congruence. Qed.
Lemma implb'_spec a b (P Q : Prop) : (a = true <-> P) -> (b = true <-> Q) -> (implb' a b = true <-> (P -> Q)).
Proof. destruct a, b; cbn; intuition congruence. Qed.

Lemma qos_defaults_okb_spec ab Ab q :
  (forall pid, ab pid = true <-> Ab pid) -> (qos_defaults_okb ab q = true <-> qos_defaults_ok Ab q).
Proof.
  intros H. unfold qos_defaults_okb, qos_defaults_ok. rewrite !andb_true_iff.
  rewrite !(implb'_spec _ _ _ _ (H _) (is_none_spec _)). tauto.
Qed.

Lemma is_nil_spec {A} (l : list A) : is_nil l = true <-> l = [].
Proof. destruct l; cbn; split; congruence. Qed.
Lemma negb_false_spec b : negb b = true <-> b = false.
Proof. destruct b; cbn; split; congruence. Qed.

Lemma spdp_defaults_okb_spec ab Ab v :
  (forall pid, ab pid = true <-> Ab pid) -> (spdp_defaults_okb ab v = true <-> spdp_defaults_ok Ab v).
Proof.
  intros H. unfold spdp_defaults_okb, spdp_defaults_ok. rewrite !andb_true_iff.
  rewrite !(implb'_spec _ _ _ _ (H _) (is_none_spec _)).
  rewrite !(implb'_spec _ _ _ _ (H _) (is_nil_spec _)).
  rewrite (implb'_spec _ _ _ _ (H _) (negb_false_spec _)).
  rewrite (implb'_spec _ _ _ _ (H _) (Z.eqb_eq _ _)). tauto.
Qed.

Lemma reader_defaults_okb_spec ab Ab v :
  (forall pid, ab pid = true <-> Ab pid) -> (reader_defaults_okb ab v = true <-> reader_defaults_ok Ab v).
Proof.
  intros H. unfold reader_defaults_okb, reader_defaults_ok. rewrite !andb_true_iff.
  rewrite (qos_defaults_okb_spec ab Ab _ H).
  rewrite !(implb'_spec _ _ _ _ (H _) (is_none_spec _)).
  rewrite !(implb'_spec _ _ _ _ (H _) (is_nil_spec _)).
  rewrite (implb'_spec _ _ _ _ (H _) (negb_false_spec _)). tauto.
Qed.
Lemma writer_defaults_okb_spec ab Ab v :
  (forall pid, ab pid = true <-> Ab pid) -> (writer_defaults_okb ab v = true <-> writer_defaults_ok Ab v).
Proof.
  intros H. unfold writer_defaults_okb, writer_defaults_ok. rewrite !andb_true_iff.
  rewrite (qos_defaults_okb_spec ab Ab _ H).
  rewrite !(implb'_spec _ _ _ _ (H _) (is_none_spec _)).
  rewrite !(implb'_spec _ _ _ _ (H _) (is_nil_spec _)). tauto.
Qed.
Lemma topic_defaults_okb_spec ab Ab v :
  (forall pid, ab pid = true <-> Ab pid) -> (topic_defaults_okb ab v = true <-> topic_defaults_ok Ab v).
Proof.
  intros H. unfold topic_defaults_okb, topic_defaults_ok. rewrite !andb_true_iff.
  rewrite (qos_defaults_okb_spec ab Ab _ H).
  rewrite !(implb'_spec _ _ _ _ (H _) (is_none_spec _)). tauto.
Qed.

Lemma defaults_okb_spec ab Ab v :
  (forall pid, ab pid = true <-> Ab pid) -> (defaults_okb ab v = true <-> defaults_ok Ab v).
Proof.
  intros H. destruct v; cbn [defaults_okb defaults_ok];
    [now apply qos_defaults_okb_spec | now apply spdp_defaults_okb_spec | now apply reader_defaults_okb_spec
    | now apply writer_defaults_okb_spec | now apply topic_defaults_okb_spec | tauto | tauto].
Qed.

(* what the property demands of an observation *)
Definition Spec (c : case) (o : obs) : Prop :=
  match c, o with
  | CVal e v ins, ObsVal bytes d1 d2 =>
      (value_okb v = true -> d1 = Ok v /\ (ins_okb (kind_of v) ins = true -> d2 = Ok v)) /\
      (forall v1, d1 = Ok v1 -> defaults_ok (Absent e bytes) v1)
  | CRaw e k bs, ObsRaw d => forall v, d = Ok v -> defaults_ok (Absent e bs) v
  | _, _ => False
  end.

Lemma ok_spec c o : ok c o = true <-> Spec c o.
Proof.
  destruct c as [e v ins|e k bs], o as [bytes d1 d2|d|]; cbn [ok Spec]; try (split; [discriminate|tauto]).
  - rewrite andb_true_iff.
    rewrite (implb'_spec _ _ (value_okb v = true) (d1 = Ok v /\ (ins_okb (kind_of v) ins = true -> d2 = Ok v)));
      [| tauto |].
    + destruct d1 as [v1| |].
      * rewrite (defaults_okb_spec _ (Absent e bytes) v1 (absent_spec e bytes)).
        split; intros [H1 H2]; split; auto.
        -- intros v1' E. inversion E; subst. exact H2.
      * split; [intros [H _]; split; [exact H|discriminate] | intros [H _]; auto].
      * split; [intros [H _]; split; [exact H|discriminate] | intros [H _]; auto].
    + rewrite andb_true_iff, oeqb_spec.
      rewrite (implb'_spec _ _ (ins_okb (kind_of v) ins = true) (d2 = Ok v)); [tauto|tauto|apply oeqb_spec].
  - destruct d as [v| |].
    + rewrite (defaults_okb_spec _ (Absent e bs) v (absent_spec e bs)).
      split; [intros H v' E; inversion E; subst; exact H | intros H; now apply H].
    + split; [intros _ v' E; discriminate E|reflexivity].
    + split; [intros _ v' E; discriminate E|reflexivity].
Qed.

(* ------------------------------------------------------------------------------------------ *)
(* the model satisfies the specification *)
Lemma absent_lookup e bs ps pid : dec_pl e bs = Ok ps -> Absent e bs pid -> lookup_all ps pid = [].
Proof. intros D (ps' & E1 & E2). rewrite D in E1. inversion E1; subst. exact E2. Qed.

Lemma qos_defaults_m_ok e bs ps q :
  dec_pl e bs = Ok ps -> qos_defaults_m (lookup_all ps) q -> qos_defaults_ok (Absent e bs) q.
Proof.
  intros D Hd. unfold qos_defaults_m in Hd. unfold qos_defaults_ok.
  pose proof (absent_lookup e bs ps) as A.
  repeat match goal with H : _ /\ _ |- _ => destruct H end.
  repeat match goal with |- _ /\ _ => split end; intros Hab; apply (A _ D) in Hab; auto.
Qed.

Lemma decode_defaults e k bs v : decode e k bs = Ok v -> defaults_ok (Absent e bs) v.
Proof.
  destruct k as [| | | | | |kk]; unfold decode, decode_qos, decode_spdp, decode_reader, decode_writer, decode_topic, with_pl.
  1-5: destruct (dec_pl e bs) as [ps| |] eqn:D; cbn [omap]; try discriminate.
  - destruct (qos_from_map e (lookup_all ps)) as [q|] eqn:Q; cbn [omap]; try discriminate.
    intros H. inversion H; subst. cbn [defaults_ok].
    apply (qos_defaults_m_ok e bs ps q D). exact (qos_defaults e _ _ Q).
  - destruct (spdp_from_map e (lookup_all ps)) as [q|] eqn:Q; cbn [omap]; try discriminate.
    intros H. inversion H; subst. cbn [defaults_ok].
    pose proof (spdp_defaults e _ _ Q) as Hd. unfold spdp_defaults_ok.
    pose proof (absent_lookup e bs ps) as A.
    repeat match goal with H : _ /\ _ |- _ => destruct H end.
    repeat match goal with |- _ /\ _ => split end; intros Hab; apply (A _ D) in Hab; auto.
  - destruct (reader_from_map e (lookup_all ps)) as [q|] eqn:Q; cbn [omap]; try discriminate.
    intros H. inversion H; subst. cbn [defaults_ok].
    pose proof (reader_defaults e _ _ Q) as Hd. unfold reader_defaults_ok.
    pose proof (absent_lookup e bs ps) as A.
    destruct Hd as (H1 & H2 & H3 & H4 & H5 & H6 & H7).
    repeat match goal with |- _ /\ _ => split end;
      try (intros Hab; apply (A _ D) in Hab; auto).
    now apply (qos_defaults_m_ok e bs ps).
  - destruct (writer_from_map e (lookup_all ps)) as [q|] eqn:Q; cbn [omap]; try discriminate.
    intros H. inversion H; subst. cbn [defaults_ok].
    pose proof (writer_defaults e _ _ Q) as Hd. unfold writer_defaults_ok.
    pose proof (absent_lookup e bs ps) as A.
    destruct Hd as (H1 & H2 & H3 & H4 & H5 & H6 & H7 & H8 & H9).
    repeat match goal with |- _ /\ _ => split end;
      try (intros Hab; apply (A _ D) in Hab; auto).
    now apply (qos_defaults_m_ok e bs ps).
  - destruct (topic_from_map e (lookup_all ps)) as [q|] eqn:Q; cbn [omap]; try discriminate.
    intros H. inversion H; subst. cbn [defaults_ok].
    pose proof (topic_defaults e _ _ Q) as Hd. unfold topic_defaults_ok.
    pose proof (absent_lookup e bs ps) as A.
    destruct Hd as (H1 & H2).
    split; [intros Hab; apply (A _ D) in Hab; auto | now apply (qos_defaults_m_ok e bs ps)].
  - destruct (decode_pmd e bs); cbn [omap]; try discriminate.
    intros H. inversion H; subst. exact I.
  - destruct (decode_key e kk bs); cbn [omap]; try discriminate.
    intros H. inversion H; subst. exact I.
Qed.

Lemma decode_encode e v : value_ok v -> decode e (kind_of v) (encode e v []) = Ok v.
Proof.
  destruct v as [q|s|r|w|t|p|k g]; intros H; unfold decode, encode, kind_of, to_params, insert_all; cbn [fold_left].
  - change (enc_pl e (qos_to_params e q)) with (encode_qos e q). now rewrite roundtrip_qos.
  - change (enc_pl e (spdp_to_params e s)) with (encode_spdp e s). now rewrite roundtrip_spdp.
  - change (enc_pl e (reader_to_params e r)) with (encode_reader e r). now rewrite roundtrip_reader.
  - change (enc_pl e (writer_to_params e w)) with (encode_writer e w). now rewrite roundtrip_writer.
  - change (enc_pl e (topic_to_params e t)) with (encode_topic e t). now rewrite roundtrip_topic.
  - now rewrite roundtrip_pmd.
  - change (enc_pl e (key_to_params k g)) with (encode_key e k g). now rewrite roundtrip_key.
Qed.

Lemma decode_encode_foreign e v ins :
  value_ok v -> Forall (foreign (known_pids (kind_of v))) (map snd ins) ->
  decode e (kind_of v) (encode e v ins) = Ok v.
Proof.
  destruct v as [q|s|r|w|t|p|k g]; intros H Hins; unfold decode, encode, kind_of, to_params.
  - destruct (Merge_insert_all ins (qos_to_params e q)) as (r & M & HP).
    rewrite (unknown_skipped_qos e q r _ H (HP _ Hins) M). reflexivity.
  - destruct (Merge_insert_all ins (spdp_to_params e s)) as (r & M & HP).
    rewrite (unknown_skipped_spdp e s r _ H (HP _ Hins) M). reflexivity.
  - destruct (Merge_insert_all ins (reader_to_params e r)) as (r' & M & HP).
    rewrite (unknown_skipped_reader e r r' _ H (HP _ Hins) M). reflexivity.
  - destruct (Merge_insert_all ins (writer_to_params e w)) as (r' & M & HP).
    rewrite (unknown_skipped_writer e w r' _ H (HP _ Hins) M). reflexivity.
  - destruct (Merge_insert_all ins (topic_to_params e t)) as (r' & M & HP).
    rewrite (unknown_skipped_topic e t r' _ H (HP _ Hins) M). reflexivity.
  - now rewrite roundtrip_pmd.
  - destruct (Merge_insert_all ins (key_to_params k g)) as (r' & M & HP).
    rewrite (unknown_skipped_key e k g r' _ H (HP _ Hins) M). reflexivity.
Qed.

Lemma run_spec c : Spec c (run c).
Proof.
  destruct c as [e v ins|e k bs]; cbn [run Spec].
  - split.
    + intros Hv. apply value_okb_spec in Hv. split; [now apply decode_encode|].
      intros Hi. apply decode_encode_foreign; [exact Hv | now apply ins_okb_spec].
    + intros v1. apply decode_defaults.
  - intros v. apply decode_defaults.
Qed.

Lemma run_ok c : ok c (run c) = true.
Proof. apply ok_spec. apply run_spec. Qed.
