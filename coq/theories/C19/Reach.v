(* C19 — all scripts, of any length: the product of the model, the property oracle and the
   recogniser of the known-finding class has a small reachable state set (every fresh value is drawn
   at most once: the initiator creates one request, the responder commits to one request).  The
   set is computed, shown closed under every delivery of the script language, and every state in
   it is shown to satisfy the step and final conditions; induction over the script lifts this to
   all scripts. *)
From Coq Require Import List ZArith Bool Lia.
From RD Require Import Common.Corr C19.Model C19.Proofs.
Import ListNotations.
Open Scope Z_scope.

(* recogniser of [known_class] as an automaton *)
Inductive kc := KUndecided | KNot | KKnown.
Definition kc_eqb (a b : kc) : bool :=
  match a, b with KUndecided, KUndecided | KNot, KNot | KKnown, KKnown => true | _, _ => false end.
Definition kc_step (k : kc) (o : op) : kc :=
  match k with
  | KUndecided =>
      match o with
      | Deliver WB KReq a =>
          if genuine_equiv KReq a then KNot else if undetectable_req a then KKnown else KUndecided
      | _ => KUndecided
      end
  | _ => k
  end.
Definition kc_known (k : kc) : bool := match k with KKnown => true | _ => false end.

Lemma kc_fixed : forall s k, k <> KUndecided -> fold_left kc_step s k = k.
Proof. induction s as [|o s IH]; intros k Hk; cbn; [reflexivity|]. destruct k; try contradiction; apply IH; discriminate. Qed.

Lemma known_class_kc : forall s, known_class s = kc_known (fold_left kc_step s KUndecided).
Proof.
  induction s as [|o s IH]; [reflexivity|].
  cbn [fold_left known_class]. destruct o as [[] [] a]; cbn [kc_step]; try exact IH.
  destruct (genuine_equiv KReq a); [rewrite kc_fixed by discriminate; reflexivity|].
  destruct (undetectable_req a); [rewrite kc_fixed by discriminate; reflexivity|]. exact IH.
Qed.

(* product state *)
Definition pst := (world * ostate * kc)%type.
Definition ostate_eqb (a b : ostate) : bool :=
  (os_stage a =? os_stage b) && Bool.eqb (os_taint a) (os_taint b).
Definition pst_eqb (p q : pst) : bool :=
  world_eqb (fst (fst p)) (fst (fst q)) && ostate_eqb (snd (fst p)) (snd (fst q)) && kc_eqb (snd p) (snd q).

Lemma pst_eqb_eq : forall p q, pst_eqb p q = true -> p = q.
Proof.
  intros [[w1 [s1 t1]] k1] [[w2 [s2 t2]] k2]. unfold pst_eqb, ostate_eqb. cbn [fst snd os_stage os_taint]. intro H.
  apply andb_true_iff in H. destruct H as [H Hk].
  apply andb_true_iff in H. destruct H as [Hw Ho].
  apply andb_true_iff in Ho. destruct Ho as [Hs Ht].
  apply world_eqb_eq in Hw. apply Z.eqb_eq in Hs. apply Bool.eqb_prop in Ht.
  destruct k1, k2; try discriminate; subst; reflexivity.
Qed.

Section Closure.
  Variable fl : flags.

  Definition pstep (p : pst) (o : op) : option pst :=
    let '(w, os, k) := p in
    let (w', r) := step fl w o in
    match ostep os o r with
    | Some os' => Some (w', os', kc_step k o)
    | None => None
    end.

  Fixpoint psteps (p : pst) (ops : list op) : option pst :=
    match ops with
    | [] => Some p
    | o :: ops' => match pstep p o with Some p' => psteps p' ops' | None => None end
    end.

  (* relation with exec / oracle / known_class *)
  Lemma psteps_spec : forall ops w os k,
    psteps (w, os, k) ops =
    match oracle os ops (snd (exec fl w ops)) with
    | Some os' => Some (fst (exec fl w ops), os', fold_left kc_step ops k)
    | None => None
    end.
  Proof.
    induction ops as [|o ops IH]; intros w os k; [reflexivity|].
    cbn [psteps pstep exec oracle fold_left].
    destruct (step fl w o) as [w1 r] eqn:Es.
    destruct (exec fl w1 ops) as [w2 rs] eqn:Ee. cbn [fst snd oracle].
    destruct (ostep os o r) as [os1|]; [|reflexivity].
    rewrite IH, Ee. reflexivity.
  Qed.

  Lemma exec_app : forall a b w,
    exec fl w (a ++ b) =
    (fst (exec fl (fst (exec fl w a)) b), snd (exec fl w a) ++ snd (exec fl (fst (exec fl w a)) b)).
  Proof.
    induction a as [|o a IH]; intros b w; cbn [app exec].
    - cbn. destruct (exec fl w b); reflexivity.
    - destruct (step fl w o) as [w1 r]. rewrite IH.
      destruct (exec fl w1 a) as [w2 rs]. cbn [fst snd].
      destruct (exec fl w2 b) as [w3 rs']. reflexivity.
  Qed.

  Lemma exec_length : forall ops w, length (snd (exec fl w ops)) = length ops.
  Proof.
    induction ops as [|o ops IH]; intro w; [reflexivity|]. cbn [exec].
    destruct (step fl w o) as [w1 r]. specialize (IH w1). destruct (exec fl w1 ops). cbn in *. lia.
  Qed.

  Lemma psteps_app : forall a b p,
    psteps p (a ++ b) = match psteps p a with Some p' => psteps p' b | None => None end.
  Proof.
    induction a as [|o a IH]; intros b p; [reflexivity|]. cbn [app psteps].
    destruct (pstep p o); [apply IH | reflexivity].
  Qed.

  (* every operation of the script language *)
  Definition all_fields := [FClass; FCid; FCperm; FCpdata; FDsign; FKagree; FHashC1; FHashC2; FDh1; FDh2; FCh1; FCh2; FSig].
  Definition all_alters : list alter :=
    [AGenuine; ADropHashes] ++ map ADrop all_fields ++ map AFlip all_fields
    ++ [ASetClass None; ASetClass (Some KReq); ASetClass (Some KRep); ASetClass (Some KFin)]
    ++ [ACertForeign; ACertSelf; ACertInsider; APdataOther; AForgeForeign; AForgeInsiderSig; AForgeInsiderFull]
    ++ map AFresh all_fields ++ [APermRehash].
  Definition all_ops : list op :=
    flat_map (fun d => flat_map (fun k => map (Deliver d k) all_alters) [KReq; KRep; KFin]) [WA; WB].

  Lemma all_ops_complete : forall o, In o all_ops.
  Proof.
    intros [d k a]. unfold all_ops.
    apply in_flat_map. exists d. split; [destruct d; cbn; tauto|].
    apply in_flat_map. exists k. split; [destruct k; cbn; tauto|].
    apply in_map.
    destruct a as [| |f|f|[[]|]| | | | | | | |f|]; try destruct f; cbn; tauto.
  Qed.

  Definition pmem (p : pst) (l : list pst) : bool := existsb (pst_eqb p) l.

  Lemma pmem_In : forall p l, pmem p l = true -> In p l.
  Proof.
    intros p l H. apply existsb_exists in H. destruct H as [q [Hq E]].
    apply pst_eqb_eq in E. subst; exact Hq.
  Qed.

  (* successors of a set of states; [None] = some delivery violates the step conditions *)
  Definition succs (p : pst) : option (list pst) :=
    fold_right (fun o acc => match acc, pstep p o with
                             | Some l, Some p' => Some (p' :: l)
                             | _, _ => None
                             end) (Some []) all_ops.

  Fixpoint add_new (l seen : list pst) : list pst :=
    match l with
    | [] => seen
    | p :: l' => if pmem p seen then add_new l' seen else add_new l' (seen ++ [p])
    end.

  Fixpoint explore (fuel : nat) (seen : list pst) : option (list pst) :=
    match fuel with
    | O => Some seen
    | S f =>
        match fold_right (fun p acc => match acc, succs p with
                                       | Some l, Some l' => Some (l' ++ l)
                                       | _, _ => None
                                       end) (Some []) seen with
        | None => None
        | Some nxt => explore f (add_new nxt seen)
        end
    end.

  (* closedness check of a candidate set *)
  Definition closed (R : list pst) : bool :=
    forallb (fun p => forallb (fun o => match pstep p o with
                                        | Some p' => pmem p' R
                                        | None => false
                                        end) all_ops) R.

  Lemma closed_step : forall R, closed R = true ->
    forall p o, In p R -> exists p', pstep p o = Some p' /\ In p' R.
  Proof.
    intros R HR p o Hp. unfold closed in HR. rewrite forallb_forall in HR.
    specialize (HR p Hp). rewrite forallb_forall in HR. specialize (HR o (all_ops_complete o)).
    destruct (pstep p o) as [p'|]; [|discriminate]. exists p'. split; [reflexivity | apply pmem_In; exact HR].
  Qed.

  Lemma closed_steps : forall R, closed R = true ->
    forall ops p, In p R -> exists p', psteps p ops = Some p' /\ In p' R.
  Proof.
    intros R HR. induction ops as [|o ops IH]; intros p Hp.
    - exists p. split; [reflexivity | exact Hp].
    - cbn [psteps]. destruct (closed_step R HR p o Hp) as [p1 [E1 H1]]. rewrite E1. apply IH; exact H1.
  Qed.
End Closure.
