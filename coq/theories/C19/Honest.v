(* C19 — the honest run for arbitrary identities issued by the configured CA. *)
From Coq Require Import List ZArith Bool Lia.
From RD Require Import Common.Corr C19.Model C19.Proofs.
Import ListNotations.
Open Scope Z_scope.

(* ------------------------------------------------------------------------------------------ *)
(* the honest run, for arbitrary identities issued by the configured CA, arbitrary fresh values *)

Lemma honest_general : forall fl ca sa ka ra sb kb rb fa fb,
  let A0 := Build_agent ca (Cert ca sa ka) ka (PData sa ra) (sb, rb) PendingRequestSend None fa in
  let B0 := Build_agent ca (Cert ca sb kb) kb (PData sb rb) (sa, ra) PendingRequestMessage None fb in
  exists A1 req B1 rep A2 fin B2 c1 c2 s,
    begin_handshake_request A0 = (A1, Some req) /\
    begin_handshake_reply fl B0 req = (B1, POkPending rep) /\
    process_handshake fl A1 rep = (A2, POkFinalMessage fin) /\
    process_handshake fl B1 fin = (B2, POk) /\
    get_shared_secret A2 = Some (c1, c2, s) /\ get_shared_secret B2 = Some (c1, c2, s) /\
    a_rcert A2 = Some (Cert ca sb kb) /\ a_rcert B2 = Some (Cert ca sa ka).
Proof.
  intros. subst A0 B0.
  do 10 eexists.
  split; [reflexivity|].
  split.
  { unfold begin_handshake_reply. cbn -[Z.add]. rewrite !Z.eqb_refl.
    destruct (fl_guid fl); cbn -[Z.add]; reflexivity. }
  split.
  { unfold process_handshake, process_reply. cbn -[Z.add Z.min Z.max].
    rewrite !Z.eqb_refl.
    destruct (fl_guid fl), (fl_dh1 fl), (fl_restore fl); cbn -[Z.add Z.min Z.max];
      rewrite ?Z.eqb_refl; cbn -[Z.add Z.min Z.max]; reflexivity. }
  split.
  { unfold process_handshake, process_final. cbn -[Z.add Z.min Z.max].
    rewrite !Z.eqb_refl. cbn -[Z.add Z.min Z.max].
    destruct (fl_restore fl); reflexivity. }
  cbn -[Z.add Z.min Z.max].
  rewrite (Z.min_comm fb fa), (Z.max_comm fb fa).
  repeat split; reflexivity.
Qed.
