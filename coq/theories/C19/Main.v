(* C19 — main results for all scripts (any length, any alteration at any point). *)
From Coq Require Import List ZArith Bool Lia.
From RD Require Import Common.Corr C19.Model C19.Proofs C19.Reach.
Import ListNotations.
Open Scope Z_scope.

Definition p0 : pst := (world0, ostate0, KUndecided).

(* the reachable product states of the repaired code *)
Definition R : list pst :=
  Eval vm_compute in match explore flags_new 6 [p0] with Some l => l | None => [] end.

Lemma R_closed : closed flags_new R = true.
Proof. vm_compute. reflexivity. Qed.

Lemma p0_in_R : In p0 R.
Proof. apply pmem_In. vm_compute. reflexivity. Qed.

(* after the completion suffix: observables consistent with the genuine progress; unless the
   script is in the known-finding class the genuine handshake has completed *)
Definition obs_of_world (w : world) : obs :=
  Build_obs [] [] (state_class (a_st (w_a w))) (state_class (a_st (w_b w))) (secrets w).

Definition finish_ok (p : pst) : bool :=
  match psteps flags_new p completion with
  | None => false
  | Some (w2, os2, _) =>
      final_consistent os2 (obs_of_world w2)
      && (kc_known (snd p)
          || ((os_stage os2 =? 3) && (state_class (a_st (w_a w2)) =? 4)
              && (state_class (a_st (w_b w2)) =? 5) && secrel_eqb (secrets w2) SecEqual))
  end.

Lemma R_finish : forallb finish_ok R = true.
Proof. vm_compute. reflexivity. Qed.

Lemma reach : forall s, exists p1, psteps flags_new p0 s = Some p1 /\ In p1 R.
Proof. intro s. apply (closed_steps flags_new R R_closed s p0 p0_in_R). Qed.

Lemma run_with_unfold : forall fl c,
  run_with fl c =
  let e1 := exec fl world0 (c_script c) in
  let e2 := exec fl (fst e1) completion in
  Build_obs (snd e1) (snd e2) (state_class (a_st (w_a (fst e2)))) (state_class (a_st (w_b (fst e2))))
            (secrets (fst e2)).
Proof.
  intros fl c. unfold run_with.
  destruct (exec fl world0 (c_script c)) as [w1 rs]. cbn [fst snd].
  destruct (exec fl w1 completion) as [w2 cs]. reflexivity.
Qed.

(* everything the closure gives about one script *)
Lemma script_facts : forall s,
  exists os2,
    oracle ostate0 (s ++ completion)
           (snd (exec flags_new world0 s) ++ snd (exec flags_new (fst (exec flags_new world0 s)) completion))
      = Some os2 /\
    let w2 := fst (exec flags_new (fst (exec flags_new world0 s)) completion) in
    final_consistent os2 (obs_of_world w2) = true /\
    (known_class s = false ->
       os_stage os2 = 3 /\ state_class (a_st (w_a w2)) = 4 /\ state_class (a_st (w_b w2)) = 5
       /\ secrets w2 = SecEqual).
Proof.
  intro s. destruct (reach s) as [[[w1 os1] k1] [E1 In1]].
  pose proof R_finish as HF. rewrite forallb_forall in HF. specialize (HF _ In1).
  unfold finish_ok in HF.
  destruct (psteps flags_new (w1, os1, k1) completion) as [[[w2 os2] k2]|] eqn:E2; [|discriminate].
  (* the script part *)
  unfold p0 in E1. rewrite psteps_spec in E1.
  destruct (oracle ostate0 s (snd (exec flags_new world0 s))) as [os1'|] eqn:Eo1; [|discriminate].
  inversion E1; subst w1 os1 k1; clear E1.
  (* the completion part *)
  rewrite psteps_spec in E2.
  destruct (oracle os1' completion (snd (exec flags_new (fst (exec flags_new world0 s)) completion))) as [os2'|] eqn:Eo2; [|discriminate].
  inversion E2; subst w2 os2 k2; clear E2.
  exists os2'. split.
  - (* oracle over the concatenation *)
    clear HF In1.
    assert (Happ : forall ops1 os rs1 ops2 rs2 osm,
               oracle os ops1 rs1 = Some osm -> oracle os (ops1 ++ ops2) (rs1 ++ rs2) = oracle osm ops2 rs2).
    { induction ops1 as [|o ops1 IH]; intros os rs1 ops2 rs2 osm H.
      - destruct rs1; cbn in H; [inversion H; reflexivity | discriminate].
      - destruct rs1 as [|r rs1]; cbn in H; [discriminate|]. cbn [app oracle].
        destruct (ostep os o r); [apply IH; exact H | discriminate]. }
    rewrite (Happ _ _ _ _ _ _ Eo1). exact Eo2.
  - cbn zeta. apply andb_true_iff in HF. destruct HF as [HF1 HF2]. split; [exact HF1|].
    intro Hk. rewrite known_class_kc in Hk. cbn [snd] in HF2. rewrite Hk in HF2. cbn [orb] in HF2.
    repeat (apply andb_true_iff in HF2; destruct HF2 as [HF2 ?]).
    apply Z.eqb_eq in HF2. repeat match goal with E : (_ =? _) = true |- _ => apply Z.eqb_eq in E end.
    repeat split; try assumption.
    destruct (secrets _); try discriminate; reflexivity.
Qed.

(* the model passes the oracle: for every script with the reject-only oracle; with the full oracle
   (which also demands that the genuine handshake completes) for every script outside the
   known-finding class *)
Theorem run_ok : forall c,
  (c_mode c = MRejectOnly \/ known_class (c_script c) = false) -> ok c (run c) = true.
Proof.
  intros c Hc. unfold ok, run. rewrite run_with_unfold. cbn zeta. cbn [o_res o_completion].
  destruct (script_facts (c_script c)) as [os2 [Eo [Hfin Hfull]]].
  rewrite Eo. cbn zeta in Hfin, Hfull.
  rewrite exec_length, Nat.eqb_refl. cbn [andb].
  unfold final_consistent in *. cbn [o_sta o_stb o_sec obs_of_world] in *. rewrite Hfin. cbn [andb].
  destruct (c_mode c); [|reflexivity].
  destruct Hc as [Hc|Hc]; [discriminate|]. destruct (Hfull Hc) as [Hs _]. rewrite Hs. reflexivity.
Qed.

(* C19_no_block in Prop form: after ANY script outside the known class — any number of altered,
   forged, replayed, out-of-order deliveries at any points — (re)delivering the three genuine
   messages completes the handshake with equal secrets *)
Theorem no_block : forall s, known_class s = false ->
  let w1 := fst (exec flags_new world0 s) in
  let w2 := fst (exec flags_new w1 completion) in
  state_class (a_st (w_a w2)) = 4 /\ state_class (a_st (w_b w2)) = 5 /\ secrets w2 = SecEqual.
Proof.
  intros s Hk. destruct (script_facts s) as [os2 [_ [_ H]]]. cbn zeta in *.
  destruct (H Hk) as [_ [Ha [Hb Hs]]]. repeat split; assumption.
Qed.

(* C19_reject at script level: the run of any script (known class or not) never violates a step
   condition of the oracle, and a step condition allows an authenticating outcome
   (OkFinalMessage / Ok) only for the genuine, due, untainted message *)
Lemma ostep_auth : forall os dst src a r os',
  ostep os (Deliver dst src a) r = Some os' ->
  r = ROkFinalMessage \/ r = ROk ->
  genuine_equiv src a = true /\ os_taint os = false /\ due (os_stage os) dst src = true
  /\ r = expected src.
Proof.
  intros os dst src a r os' H Hr. unfold ostep in H.
  destruct (genuine_equiv src a && negb (os_taint os) && due (os_stage os) dst src) eqn:E.
  - apply andb_true_iff in E. destruct E as [E E3]. apply andb_true_iff in E. destruct E as [E1 E2].
    apply negb_true_iff in E2.
    destruct Hr; subst r; destruct src; cbn in H; try discriminate; repeat split; assumption.
  - destruct Hr; subst r; discriminate.
Qed.

Theorem reject_scripts : forall s,
  exists os, oracle ostate0 (s ++ completion) (o_res (run (Build_case MRejectOnly 0 0 s))
                                               ++ o_completion (run (Build_case MRejectOnly 0 0 s))) = Some os.
Proof.
  intro s. unfold run. rewrite run_with_unfold. cbn zeta. cbn [o_res o_completion c_script].
  destruct (script_facts s) as [os2 [Eo _]]. exists os2. exact Eo.
Qed.

(* ------------------------------------------------------------------------------------------ *)
(* the code as it was written: each of the three repairs is necessary                         *)

(* F10: one reply with a damaged signature, then the genuine reply *)
Definition witness_F10 : case :=
  Build_case MFull 1 2 [Deliver WB KReq AGenuine; Deliver WA KRep (AFlip FSig)].
Lemma no_block_old_refuted :
  known_class (c_script witness_F10) = false /\ ok witness_F10 (run_old witness_F10) = false
  /\ o_completion (run_old witness_F10) = [RErr; RErr; RNoMsg] /\ o_sta (run_old witness_F10) = 0.
Proof. vm_compute. repeat split; reflexivity. Qed.
Lemma no_block_restore_only_needed :
  ok witness_F10 (run_with (Build_flags false true true) witness_F10) = false.
Proof. vm_compute. reflexivity. Qed.

(* F11: DH1 of the request replaced in transit; the initiator accepts the responder's reply *)
Definition witness_F11 : case :=
  Build_case MRejectOnly 1 2 [Deliver WB KReq (AFresh FDh1); Deliver WA KRep AGenuine].
Lemma reject_old_refuted_dh1 :
  ok witness_F11 (run_with (Build_flags true false true) witness_F11) = false
  /\ o_res (run_with (Build_flags true false true) witness_F11) = [ROkPending; ROkFinalMessage].
Proof. vm_compute. split; reflexivity. Qed.

(* F12: a third CA-issued identity answers in the responder's place with its own certificate *)
Definition witness_F12 : case :=
  Build_case MFull 1 2 [Deliver WB KReq AGenuine; Deliver WA KRep AForgeInsiderFull].
Lemma reject_old_refuted_guid :
  known_class (c_script witness_F12) = false
  /\ ok witness_F12 (run_with (Build_flags true true false) witness_F12) = false
  /\ o_res (run_with (Build_flags true true false) witness_F12) = [ROkPending; ROkFinalMessage].
Proof. vm_compute. repeat split; reflexivity. Qed.

(* the known finding is real in the model of the repaired code too *)
Definition witness_known : case :=
  Build_case MFull 1 2 [Deliver WB KReq (AFlip FCh1)].
Lemma known_class_blocks :
  known_class (c_script witness_known) = true /\ ok witness_known (run witness_known) = false
  /\ o_completion (run witness_known) = [RErr; RErr; RNoMsg].
Proof. vm_compute. repeat split; reflexivity. Qed.

(* ------------------------------------------------------------------------------------------ *)
(* Prop reading of the oracle                                                                 *)

Inductive step_ok : ostate -> op -> res -> ostate -> Prop :=
| StNoMsg : forall os o, step_ok os o RNoMsg os
| StDue : forall os dst src a,
    genuine_equiv src a = true -> os_taint os = false -> due (os_stage os) dst src = true ->
    step_ok os (Deliver dst src a) (expected src) (Build_ostate (os_stage os + 1) false)
| StRejected : forall os dst src a r,
    genuine_equiv src a && negb (os_taint os) && due (os_stage os) dst src = false ->
    r = RIgnored \/ r = RResend \/ r = RErr ->
    step_ok os (Deliver dst src a) r os
| StRequestAccepted : forall os dst src a,
    genuine_equiv src a && negb (os_taint os) && due (os_stage os) dst src = false ->
    step_ok os (Deliver dst src a) ROkPending (Build_ostate (os_stage os) true).

Inductive trace_ok : ostate -> list op -> list res -> ostate -> Prop :=
| TrNil : forall os, trace_ok os [] [] os
| TrCons : forall os o r os1 ops rs os2,
    step_ok os o r os1 -> trace_ok os1 ops rs os2 -> trace_ok os (o :: ops) (r :: rs) os2.

Lemma ostep_step_ok : forall os o r os', ostep os o r = Some os' <-> step_ok os o r os'.
Proof.
  intros os [dst src a] r os'. split.
  - unfold ostep. intro H.
    destruct (genuine_equiv src a && negb (os_taint os) && due (os_stage os) dst src) eqn:E.
    + destruct r; try discriminate; try (inversion H; subst; apply StNoMsg);
        destruct (res_eqb _ (expected src)) eqn:Er; try discriminate; inversion H; subst;
        apply andb_true_iff in E; destruct E as [E E3]; apply andb_true_iff in E; destruct E as [E1 E2];
        apply negb_true_iff in E2; destruct src; try discriminate; apply StDue; assumption.
    + destruct r; try discriminate; inversion H; subst;
        first [apply StNoMsg | apply StRequestAccepted; exact E | apply StRejected; [exact E | tauto]].
  - intro H. inversion H; subst; unfold ostep.
    + destruct (genuine_equiv src a && negb (os_taint os') && due (os_stage os') dst src); reflexivity.
    + repeat match goal with E : _ = true |- _ => rewrite E | E : _ = false |- _ => rewrite E end.
      cbn [andb negb]. destruct src; reflexivity.
    + match goal with E : _ && _ && _ = false |- _ => rewrite E end.
      match goal with E : _ \/ _ |- _ => destruct E as [-> | [-> | ->]] end; reflexivity.
    + match goal with E : _ && _ && _ = false |- _ => rewrite E end. reflexivity.
Qed.

Lemma oracle_trace_ok : forall ops os rs os',
  oracle os ops rs = Some os' <-> trace_ok os ops rs os'.
Proof.
  induction ops as [|o ops IH]; intros os rs os'; split.
  - destruct rs; cbn; intro H; [inversion H; apply TrNil | discriminate].
  - intro H; inversion H; reflexivity.
  - destruct rs as [|r rs]; cbn [oracle]; [discriminate|].
    destruct (ostep os o r) as [os1|] eqn:E; [|discriminate].
    intro H. apply TrCons with os1; [apply ostep_step_ok; exact E | apply IH; exact H].
  - intro H; inversion H; subst. cbn [oracle].
    apply ostep_step_ok in H3. rewrite H3. apply IH; assumption.
Qed.

(* the oracle = "the observed outcomes form a legal trace (every authenticating outcome is the
   genuine due message; the genuine due message always succeeds), the final observables agree
   with the genuine progress, and (full mode) the genuine handshake completed" *)
Theorem ok_spec : forall c o,
  ok c o = true <->
  exists os,
    trace_ok ostate0 (c_script c ++ completion) (o_res o ++ o_completion o) os /\
    length (o_res o) = length (c_script c) /\
    final_consistent os o = true /\
    (c_mode c = MFull -> os_stage os = 3).
Proof.
  intros c o. unfold ok. split.
  - destruct (oracle ostate0 (c_script c ++ completion) (o_res o ++ o_completion o)) as [os|] eqn:E; [|discriminate].
    intro H. apply andb_true_iff in H. destruct H as [H H3]. apply andb_true_iff in H. destruct H as [H1 H2].
    exists os. split; [apply oracle_trace_ok; exact E|].
    split; [apply Nat.eqb_eq; exact H1|]. split; [exact H2|].
    intro Hm. rewrite Hm in H3. apply Z.eqb_eq; exact H3.
  - intros [os [Ht [Hl [Hf Hm]]]]. apply oracle_trace_ok in Ht. rewrite Ht.
    rewrite Hl, Nat.eqb_refl, Hf. cbn [andb].
    destruct (c_mode c); [rewrite Hm by reflexivity; reflexivity | reflexivity].
Qed.
