(* C19 — only CA-issued identities authenticate; forgeries cannot block them.

   Symbolic (Dolev-Yao style) model of the DDS:Auth:PKI-DH handshake of
     src/security/authentication/authentication_builtin/authentication.rs
       (validate_remote_identity, begin_handshake_request, begin_handshake_reply,
        process_handshake, get_shared_secret, validate_remote_guid),
     src/security/authentication/authentication_builtin/types.rs
       (BuiltinHandshakeMessageToken::try_from, extract_request / extract_reply / extract_final),
   and of the part of src/discovery/secure_discovery.rs (participant_stateless_message_read,
   handshake_on_pending_{request,reply,final}_message) that decides which plugin call is made in
   which DiscHandshakeState and advances that mirror state only on the expected Ok outcome.

   Cryptography is symbolic: [Cert ca subj pk] is an X.509 certificate for subject [subj] and the
   public half of key pair [pk], issued with CA key pair [ca]; [Sign sk m] verifies only under the
   public half of [sk] and only for exactly [m]; [DhPub x] is the public half of exponent [x] and
   [dh x (DhPub y) = dh y (DhPub x)]; [Hash] is injective; [Flip t] is "[t] with one byte changed"
   (equal to nothing else).  X.509 / PKCS parsing, CDR serialization and the strength of
   ECDSA/ECDH/SHA-256 are NOT modelled (assumptions; the property is labelled partial).

   One plugin instance talks to ONE remote participant (the identity-handle and handshake-handle
   maps of AuthenticationBuiltin are not modelled).

   The record [flags] selects the code as it was written ([flags_old]) or as repaired by the three
   fix: commits ([flags_new]); the repaired behaviour is what [run] uses. *)
From Coq Require Import List ZArith Bool Lia.
From RD Require Import Common.Corr.
Import ListNotations.
Open Scope Z_scope.

(* ------------------------------------------------------------------------------------------ *)
(* terms                                                                                      *)

Inductive term :=
| Atom (z : Z)                 (* public constant: class ids, algorithm names, permission documents *)
| Nonce (n : Z)                (* 32 random bytes *)
| DhPub (x : Z)                (* public half of the Diffie-Hellman exponent x *)
| Cert (ca subj pk : Z)        (* certificate: subject, public key of key pair pk, issued by key pair ca *)
| PData (g r : Z)              (* serialized participant data; GUID prefix = (hash of subject name g, rest r) *)
| Hash (t : term)
| Pair (a b : term)
| Sign (sk : Z) (m : term)     (* signature over m with the private half of key pair sk *)
| Flip (t : term).             (* t with one byte changed *)

Fixpoint term_eqb (a b : term) : bool :=
  match a, b with
  | Atom x, Atom y => x =? y
  | Nonce x, Nonce y => x =? y
  | DhPub x, DhPub y => x =? y
  | Cert a1 a2 a3, Cert b1 b2 b3 => (a1 =? b1) && (a2 =? b2) && (a3 =? b3)
  | PData a1 a2, PData b1 b2 => (a1 =? b1) && (a2 =? b2)
  | Hash x, Hash y => term_eqb x y
  | Pair x1 x2, Pair y1 y2 => term_eqb x1 y1 && term_eqb x2 y2
  | Sign k x, Sign l y => (k =? l) && term_eqb x y
  | Flip x, Flip y => term_eqb x y
  | _, _ => false
  end.

Definition oterm_eqb := option_eqb term_eqb.

(* the shared secret SHA256(ECDH(x, Y)): symmetric in the two exponents *)
Definition secret := (Z * Z)%type.
Definition dh (x : Z) (t : term) : option secret :=
  match t with
  | DhPub y => Some (Z.min x y, Z.max x y)
  | _ => None
  end.
Definition secret_eqb (a b : secret) : bool := (fst a =? fst b) && (snd a =? snd b).

(* signature verification: recomputation *)
Definition verify (pk : Z) (m sig : term) : bool := term_eqb sig (Sign pk m).

(* ------------------------------------------------------------------------------------------ *)
(* constants                                                                                  *)

Definition CLS_REQ := Atom 10.    (* "DDS:Auth:PKI-DH:1.0+Req"   *)
Definition CLS_REP := Atom 11.    (* "DDS:Auth:PKI-DH:1.0+Reply" *)
Definition CLS_FIN := Atom 12.    (* "DDS:Auth:PKI-DH:1.0+Final" *)
Definition CLS_OTHER := Atom 13.
Definition ECDSA := Atom 1.       (* "ECDSA-SHA256" *)
Definition RSAPSS := Atom 2.      (* "RSASSA-PSS-SHA256" *)
Definition ECDH := Atom 3.        (* "ECDH+prime256v1-CEUM" *)
Definition MODP := Atom 4.        (* "DH+MODP-2048-256" *)
Definition EMPTY := Atom 0.       (* empty byte string *)
Definition PERM := Atom 50.       (* the (empty) permissions document every party sends *)
Definition PERM_OTHER := Atom 51.

(* ------------------------------------------------------------------------------------------ *)
(* handshake message token (BuiltinHandshakeMessageToken; ocsp_status is never read)          *)

Inductive field := FClass | FCid | FCperm | FCpdata | FDsign | FKagree | FHashC1 | FHashC2
                 | FDh1 | FDh2 | FCh1 | FCh2 | FSig.

Record msg := {
  m_class : option term;  (* None: empty class id string *)
  m_cid : option term; m_cperm : option term; m_cpdata : option term;
  m_dsign : option term; m_kagree : option term;
  m_hc1 : option term; m_hc2 : option term;
  m_dh1 : option term; m_dh2 : option term;
  m_ch1 : option term; m_ch2 : option term;
  m_sig : option term }.

Definition getf (f : field) (m : msg) : option term :=
  match f with
  | FClass => m_class m | FCid => m_cid m | FCperm => m_cperm m | FCpdata => m_cpdata m
  | FDsign => m_dsign m | FKagree => m_kagree m | FHashC1 => m_hc1 m | FHashC2 => m_hc2 m
  | FDh1 => m_dh1 m | FDh2 => m_dh2 m | FCh1 => m_ch1 m | FCh2 => m_ch2 m | FSig => m_sig m
  end.

Definition setf (f : field) (v : option term) (m : msg) : msg :=
  match f with
  | FClass => Build_msg v (m_cid m) (m_cperm m) (m_cpdata m) (m_dsign m) (m_kagree m) (m_hc1 m) (m_hc2 m) (m_dh1 m) (m_dh2 m) (m_ch1 m) (m_ch2 m) (m_sig m)
  | FCid => Build_msg (m_class m) v (m_cperm m) (m_cpdata m) (m_dsign m) (m_kagree m) (m_hc1 m) (m_hc2 m) (m_dh1 m) (m_dh2 m) (m_ch1 m) (m_ch2 m) (m_sig m)
  | FCperm => Build_msg (m_class m) (m_cid m) v (m_cpdata m) (m_dsign m) (m_kagree m) (m_hc1 m) (m_hc2 m) (m_dh1 m) (m_dh2 m) (m_ch1 m) (m_ch2 m) (m_sig m)
  | FCpdata => Build_msg (m_class m) (m_cid m) (m_cperm m) v (m_dsign m) (m_kagree m) (m_hc1 m) (m_hc2 m) (m_dh1 m) (m_dh2 m) (m_ch1 m) (m_ch2 m) (m_sig m)
  | FDsign => Build_msg (m_class m) (m_cid m) (m_cperm m) (m_cpdata m) v (m_kagree m) (m_hc1 m) (m_hc2 m) (m_dh1 m) (m_dh2 m) (m_ch1 m) (m_ch2 m) (m_sig m)
  | FKagree => Build_msg (m_class m) (m_cid m) (m_cperm m) (m_cpdata m) (m_dsign m) v (m_hc1 m) (m_hc2 m) (m_dh1 m) (m_dh2 m) (m_ch1 m) (m_ch2 m) (m_sig m)
  | FHashC1 => Build_msg (m_class m) (m_cid m) (m_cperm m) (m_cpdata m) (m_dsign m) (m_kagree m) v (m_hc2 m) (m_dh1 m) (m_dh2 m) (m_ch1 m) (m_ch2 m) (m_sig m)
  | FHashC2 => Build_msg (m_class m) (m_cid m) (m_cperm m) (m_cpdata m) (m_dsign m) (m_kagree m) (m_hc1 m) v (m_dh1 m) (m_dh2 m) (m_ch1 m) (m_ch2 m) (m_sig m)
  | FDh1 => Build_msg (m_class m) (m_cid m) (m_cperm m) (m_cpdata m) (m_dsign m) (m_kagree m) (m_hc1 m) (m_hc2 m) v (m_dh2 m) (m_ch1 m) (m_ch2 m) (m_sig m)
  | FDh2 => Build_msg (m_class m) (m_cid m) (m_cperm m) (m_cpdata m) (m_dsign m) (m_kagree m) (m_hc1 m) (m_hc2 m) (m_dh1 m) v (m_ch1 m) (m_ch2 m) (m_sig m)
  | FCh1 => Build_msg (m_class m) (m_cid m) (m_cperm m) (m_cpdata m) (m_dsign m) (m_kagree m) (m_hc1 m) (m_hc2 m) (m_dh1 m) (m_dh2 m) v (m_ch2 m) (m_sig m)
  | FCh2 => Build_msg (m_class m) (m_cid m) (m_cperm m) (m_cpdata m) (m_dsign m) (m_kagree m) (m_hc1 m) (m_hc2 m) (m_dh1 m) (m_dh2 m) (m_ch1 m) v (m_sig m)
  | FSig => Build_msg (m_class m) (m_cid m) (m_cperm m) (m_cpdata m) (m_dsign m) (m_kagree m) (m_hc1 m) (m_hc2 m) (m_dh1 m) (m_dh2 m) (m_ch1 m) (m_ch2 m) v
  end.

Definition msg_eqb (a b : msg) : bool :=
  oterm_eqb (m_class a) (m_class b) && oterm_eqb (m_cid a) (m_cid b) &&
  oterm_eqb (m_cperm a) (m_cperm b) && oterm_eqb (m_cpdata a) (m_cpdata b) &&
  oterm_eqb (m_dsign a) (m_dsign b) && oterm_eqb (m_kagree a) (m_kagree b) &&
  oterm_eqb (m_hc1 a) (m_hc1 b) && oterm_eqb (m_hc2 a) (m_hc2 b) &&
  oterm_eqb (m_dh1 a) (m_dh1 b) && oterm_eqb (m_dh2 a) (m_dh2 b) &&
  oterm_eqb (m_ch1 a) (m_ch1 b) && oterm_eqb (m_ch2 a) (m_ch2 b) && oterm_eqb (m_sig a) (m_sig b).

(* Hash(C) = SHA256 of the serialized c.id, c.perm, c.pdata, c.dsign_algo, c.kagree_algo *)
Definition hash_c (cid cperm cpdata dsign kagree : term) : term :=
  Hash (Pair cid (Pair cperm (Pair cpdata (Pair dsign kagree)))).
(* what the reply signature covers: Hash(C2) | Challenge2 | DH2 | Challenge1 | DH1 | Hash(C1) *)
Definition content_reply (h2 ch2 dh2 ch1 dh1 h1 : term) : term :=
  Pair (Atom 21) (Pair h2 (Pair ch2 (Pair dh2 (Pair ch1 (Pair dh1 h1))))).
(* what the final signature covers: Hash(C1) | Challenge1 | DH1 | Challenge2 | DH2 | Hash(C2) *)
Definition content_final (h1 ch1 dh1 ch2 dh2 h2 : term) : term :=
  Pair (Atom 22) (Pair h1 (Pair ch1 (Pair dh1 (Pair ch2 (Pair dh2 h2))))).

(* parsers *)
(* Challenge::try_from / Sha256::try_from: exactly 32 bytes *)
Definition is32 (t : term) : bool :=
  match t with
  | Nonce _ | Hash _ | Flip (Nonce _) | Flip (Hash _) => true
  | _ => false
  end.
Definition opt32 (o : option term) : bool := match o with None => true | Some t => is32 t end.
(* Certificate::from_pem *)
Definition as_cert (t : term) : option (Z * Z * Z) :=
  match t with Cert ca s pk => Some (ca, s, pk) | _ => None end.
(* SpdpDiscoveredParticipantData::from_pl_cdr_bytes -> participant_guid prefix *)
Definition as_pdata (t : term) : option (Z * Z) :=
  match t with PData g r => Some (g, r) | _ => None end.
(* BuiltinHandshakeMessageToken::try_from: class id must be one of the three *)
Definition class_known (c : option term) : bool :=
  match c with
  | Some c => term_eqb c CLS_REQ || term_eqb c CLS_REP || term_eqb c CLS_FIN
  | None => false
  end.
Definition class_is (c : option term) (k : term) : bool :=
  match c with Some c => term_eqb c k | None => false end.

(* ------------------------------------------------------------------------------------------ *)
(* plugin state                                                                               *)

Inductive hstate :=
| PendingRequestSend
| PendingRequestMessage
| PendingReplyMessage (x1 : Z) (ch1 h1 : term)
| PendingFinalMessage (h1 h2 dh1pub ch1 : term) (x2 : Z) (ch2 rcert : term)
| CompletedSent (ch1 ch2 : term) (s : secret)
| CompletedReceived (ch1 ch2 : term) (s : secret).

Definition hstate_eqb (a b : hstate) : bool :=
  match a, b with
  | PendingRequestSend, PendingRequestSend => true
  | PendingRequestMessage, PendingRequestMessage => true
  | PendingReplyMessage x c h, PendingReplyMessage x' c' h' => (x =? x') && term_eqb c c' && term_eqb h h'
  | PendingFinalMessage a1 a2 a3 a4 x a5 a6, PendingFinalMessage b1 b2 b3 b4 y b5 b6 =>
      term_eqb a1 b1 && term_eqb a2 b2 && term_eqb a3 b3 && term_eqb a4 b4 && (x =? y)
      && term_eqb a5 b5 && term_eqb a6 b6
  | CompletedSent c1 c2 s, CompletedSent d1 d2 t => term_eqb c1 d1 && term_eqb c2 d2 && secret_eqb s t
  | CompletedReceived c1 c2 s, CompletedReceived d1 d2 t => term_eqb c1 d1 && term_eqb c2 d2 && secret_eqb s t
  | _, _ => false
  end.

(* verif_handshake_state_class *)
Definition state_class (s : hstate) : Z :=
  match s with
  | PendingRequestSend => 0 | PendingRequestMessage => 1 | PendingReplyMessage _ _ _ => 2
  | PendingFinalMessage _ _ _ _ _ _ _ => 3 | CompletedSent _ _ _ => 4 | CompletedReceived _ _ _ => 5
  end.

Record agent := {
  a_ca : Z;                 (* key pair of the configured Identity CA *)
  a_cert : term;            (* own identity certificate *)
  a_key : Z;                (* own key pair *)
  a_pdata : term;           (* own serialized participant data *)
  a_rguid : Z * Z;          (* GUID prefix given to validate_remote_identity *)
  a_st : hstate;            (* RemoteParticipantInfo.handshake.state *)
  a_rcert : option term;    (* RemoteParticipantInfo.identity_certificate_opt *)
  a_fresh : Z }.            (* source of fresh nonces / exponents *)

Definition agent_eqb (a b : agent) : bool :=
  (a_ca a =? a_ca b) && term_eqb (a_cert a) (a_cert b) && (a_key a =? a_key b)
  && term_eqb (a_pdata a) (a_pdata b) && (fst (a_rguid a) =? fst (a_rguid b))
  && (snd (a_rguid a) =? snd (a_rguid b)) && hstate_eqb (a_st a) (a_st b)
  && oterm_eqb (a_rcert a) (a_rcert b) && (a_fresh a =? a_fresh b).

Definition with_state (a : agent) (s : hstate) : agent :=
  Build_agent (a_ca a) (a_cert a) (a_key a) (a_pdata a) (a_rguid a) s (a_rcert a) (a_fresh a).
Definition with_state_cert (a : agent) (s : hstate) (c : term) (fr : Z) : agent :=
  Build_agent (a_ca a) (a_cert a) (a_key a) (a_pdata a) (a_rguid a) s (Some c) fr.

(* which code: as written, or with the fix: commits *)
Record flags := {
  fl_restore : bool;   (* F10: process_handshake puts the moved-out state back on every error path *)
  fl_dh1 : bool;       (* F11: the initiator checks that the reply echoes its own DH1 *)
  fl_guid : bool }.    (* F12: c.pdata's GUID prefix must be the one validate_remote_identity was given *)
Definition flags_old := Build_flags false false false.
Definition flags_new := Build_flags true true true.

(* results of the plugin calls *)
Inductive pres :=
| PErr
| POkPending (reply : msg)        (* begin_handshake_reply: Ok(PendingHandshakeMessage, token) *)
| POkFinalMessage (fin : msg)     (* process_handshake: Ok(OkFinalMessage, Some token) *)
| POk.                            (* process_handshake: Ok(Ok, None) *)

Definition req5 (m : msg) : option (term * term * term * term * term) :=
  match m_cid m, m_cperm m, m_cpdata m, m_dsign m, m_kagree m with
  | Some a, Some b, Some c, Some d, Some e => Some (a, b, c, d, e)
  | _, _, _, _, _ => None
  end.

Definition hash_opt_ok (received : option term) (expected : term) : bool :=
  match received with None => true | Some h => term_eqb h expected end.

(* validate_remote_guid + (F12) the prefix the handshake was started for *)
Definition guid_ok (fl : flags) (ag : agent) (pdata : term) (subj : Z) : bool :=
  match as_pdata pdata with
  | None => false
  | Some (g, r) => (g =? subj) && (negb (fl_guid fl) || ((g =? fst (a_rguid ag)) && (r =? snd (a_rguid ag))))
  end.

(* begin_handshake_request: state must be PendingRequestSend *)
Definition begin_handshake_request (ag : agent) : agent * option msg :=
  match a_st ag with
  | PendingRequestSend =>
      let x1 := a_fresh ag in
      let ch1 := Nonce (a_fresh ag + 1) in
      let h1 := hash_c (a_cert ag) PERM (a_pdata ag) ECDSA ECDH in
      (Build_agent (a_ca ag) (a_cert ag) (a_key ag) (a_pdata ag) (a_rguid ag)
                   (PendingReplyMessage x1 ch1 h1) (a_rcert ag) (a_fresh ag + 2),
       Some (Build_msg (Some CLS_REQ) (Some (a_cert ag)) (Some PERM) (Some (a_pdata ag)) (Some ECDSA)
                       (Some ECDH) (Some h1) None (Some (DhPub x1)) None (Some ch1) None None))
  | _ => (ag, None)
  end.

(* begin_handshake_reply (authentication.rs ~500-689); the state is only written on success *)
Definition begin_handshake_reply (fl : flags) (ag : agent) (m : msg) : agent * pres :=
  match a_st ag with
  | PendingRequestMessage =>
      if negb (class_known (m_class m) && class_is (m_class m) CLS_REQ) then (ag, PErr) else
      match req5 m, m_ch1 m, m_dh1 m with
      | Some (cid, cperm, cpdata, dsign, kagree), Some ch1, Some dh1 =>
          if negb (opt32 (m_hc1 m) && is32 ch1) then (ag, PErr) else
          match as_cert cid with
          | None => (ag, PErr)
          | Some (ca, subj, pk) =>
              if negb (ca =? a_ca ag) then (ag, PErr) else
              if negb (guid_ok fl ag cpdata subj) then (ag, PErr) else
              if negb (term_eqb kagree MODP || term_eqb kagree ECDH) then (ag, PErr) else
              let h1 := hash_c cid cperm cpdata dsign kagree in
              if negb (hash_opt_ok (m_hc1 m) h1) then (ag, PErr) else
              let x2 := a_fresh ag in
              let ch2 := Nonce (a_fresh ag + 1) in
              let h2 := hash_c (a_cert ag) PERM (a_pdata ag) ECDSA kagree in
              let sig := Sign (a_key ag) (content_reply h2 ch2 (DhPub x2) ch1 dh1 h1) in
              (with_state_cert ag (PendingFinalMessage h1 h2 dh1 ch1 x2 ch2 cid) cid (a_fresh ag + 2),
               POkPending (Build_msg (Some CLS_REP) (Some (a_cert ag)) (Some PERM) (Some (a_pdata ag))
                                     (Some ECDSA) (Some kagree) (Some h1) (Some h2) (Some dh1)
                                     (Some (DhPub x2)) (Some ch1) (Some ch2) (Some sig)))
          end
      | _, _, _ => (ag, PErr)
      end
  | _ => (ag, PErr)
  end.

(* process_handshake, state PendingReplyMessage (authentication.rs ~710-907): the checks, in the
   order of the code; returns the new state and the final message *)
Definition process_reply (fl : flags) (ag : agent) (x1 : Z) (ch1 h1 : term) (m : msg)
  : option (hstate * term * msg) :=
  if negb (class_known (m_class m) && class_is (m_class m) CLS_REP) then None else
  match req5 m, m_ch1 m, m_ch2 m with
  | Some (cid, cperm, cpdata, dsign, kagree), Some rch1, Some rch2 =>
      match m_dh1 m, m_dh2 m, m_sig m with
      | Some rdh1, Some rdh2, Some sig =>
          if negb (opt32 (m_hc1 m) && opt32 (m_hc2 m) && is32 rch1 && is32 rch2) then None else
          match as_cert cid with
          | None => None
          | Some (ca, subj, pk) =>
              if negb (ca =? a_ca ag) then None else
              if negb (guid_ok fl ag cpdata subj) then None else
              if negb (term_eqb ch1 rch1) then None else
              if negb (hash_opt_ok (m_hc1 m) h1) then None else
              let h2 := hash_c cid cperm cpdata dsign kagree in
              if negb (hash_opt_ok (m_hc2 m) h2) then None else
              (* parse_signature_algo_name_to_ring + verification with that algorithm: all
                 certificates are EC, only ECDSA-SHA256 can verify *)
              if negb (term_eqb dsign ECDSA) then None else
              if negb (verify pk (content_reply h2 rch2 rdh2 rch1 rdh1 h1) sig) then None else
              if negb (term_eqb kagree ECDH) then None else
              if fl_dh1 fl && negb (term_eqb rdh1 (DhPub x1)) then None else
              match dh x1 rdh2 with
              | None => None
              | Some s =>
                  let fsig := Sign (a_key ag) (content_final h1 ch1 (DhPub x1) rch2 rdh2 h2) in
                  Some (CompletedSent ch1 rch2 s, cid,
                        Build_msg (Some CLS_FIN) None None None None None (Some h1) (Some h2)
                                  (Some (DhPub x1)) (Some rdh2) (Some rch1) (Some rch2) (Some fsig))
              end
          end
      | _, _, _ => None
      end
  | _, _, _ => None
  end.

(* process_handshake, state PendingFinalMessage (authentication.rs ~909-1022) *)
Definition process_final (h1 h2 dh1pub ch1 : term) (x2 : Z) (ch2 rcert : term) (m : msg)
  : option hstate :=
  if negb (class_known (m_class m) && class_is (m_class m) CLS_FIN) then None else
  match m_ch1 m, m_ch2 m with
  | Some fch1, Some fch2 =>
      match m_dh1 m, m_dh2 m, m_sig m with
      | Some fdh1, Some fdh2, Some sig =>
          if negb (opt32 (m_hc1 m) && opt32 (m_hc2 m) && is32 fch1 && is32 fch2) then None else
          if negb (hash_opt_ok (m_hc1 m) h1) then None else
          if negb (hash_opt_ok (m_hc2 m) h2) then None else
          if negb (term_eqb dh1pub fdh1) then None else
          if negb (term_eqb (DhPub x2) fdh2) then None else
          if negb (term_eqb ch1 fch1) then None else
          if negb (term_eqb ch2 fch2) then None else
          match as_cert rcert with
          | None => None
          | Some (_, _, pk) =>
              if negb (verify pk (content_final h1 ch1 dh1pub ch2 (DhPub x2) h2) sig) then None else
              match dh x2 dh1pub with
              | None => None
              | Some s => Some (CompletedReceived ch1 ch2 s)
              end
          end
      | _, _, _ => None
      end
  | _, _ => None
  end.

(* process_handshake: the state is swapped out for the dummy PendingRequestSend at entry; as
   written it came back only on the success paths *)
Definition process_handshake (fl : flags) (ag : agent) (m : msg) : agent * pres :=
  let failed := if fl_restore fl then ag else with_state ag PendingRequestSend in
  match a_st ag with
  | PendingReplyMessage x1 ch1 h1 =>
      match process_reply fl ag x1 ch1 h1 m with
      | Some (st, cert2, fin) => (with_state_cert ag st cert2 (a_fresh ag), POkFinalMessage fin)
      | None => (failed, PErr)
      end
  | PendingFinalMessage h1 h2 dh1pub ch1 x2 ch2 rcert =>
      match process_final h1 h2 dh1pub ch1 x2 ch2 rcert m with
      | Some st => (with_state ag st, POk)
      | None => (failed, PErr)
      end
  | _ => (failed, PErr)    (* "Unexpected handshake state" *)
  end.

Definition get_shared_secret (ag : agent) : option (term * term * secret) :=
  match a_st ag with
  | CompletedSent c1 c2 s | CompletedReceived c1 c2 s => Some (c1, c2, s)
  | _ => None
  end.

(* ------------------------------------------------------------------------------------------ *)
(* SecureDiscovery's mirror state and dispatch                                                *)

Inductive dstate := DPendingRequestSend | DPendingRequestMessage | DPendingReplyMessage
                  | DPendingFinalMessage | DCompletedSent | DCompletedReceived.
Definition dstate_eqb (a b : dstate) : bool :=
  match a, b with
  | DPendingRequestSend, DPendingRequestSend | DPendingRequestMessage, DPendingRequestMessage
  | DPendingReplyMessage, DPendingReplyMessage | DPendingFinalMessage, DPendingFinalMessage
  | DCompletedSent, DCompletedSent | DCompletedReceived, DCompletedReceived => true
  | _, _ => false
  end.

Inductive res := RNoMsg | RIgnored | RResend | RErr | ROkPending | ROkFinalMessage | ROk | RPanic.
Definition res_eqb (a b : res) : bool :=
  match a, b with
  | RNoMsg, RNoMsg | RIgnored, RIgnored | RResend, RResend | RErr, RErr | ROkPending, ROkPending
  | ROkFinalMessage, ROkFinalMessage | ROk, ROk | RPanic, RPanic => true
  | _, _ => false
  end.

(* participant_stateless_message_read: returns agent, mirror state, outcome class, produced message *)
Definition dispatch (fl : flags) (ag : agent) (d : dstate) (m : msg)
  : agent * dstate * res * option msg :=
  match d with
  | DPendingRequestSend => (ag, d, RIgnored, None)
  | DPendingRequestMessage =>
      match begin_handshake_reply fl ag m with
      | (ag', POkPending reply) => (ag', DPendingFinalMessage, ROkPending, Some reply)
      | (ag', _) => (ag', d, RErr, None)
      end
  | DPendingReplyMessage =>
      match process_handshake fl ag m with
      | (ag', POkFinalMessage fin) => (ag', DCompletedSent, ROkFinalMessage, Some fin)
      | (ag', POk) => (ag', d, ROk, None)
      | (ag', _) => (ag', d, RErr, None)
      end
  | DPendingFinalMessage =>
      match process_handshake fl ag m with
      | (ag', POk) => (ag', DCompletedReceived, ROk, None)
      | (ag', POkFinalMessage _) => (ag', d, ROkFinalMessage, None)
      | (ag', _) => (ag', d, RErr, None)
      end
  | DCompletedSent => (ag, d, RResend, None)
  | DCompletedReceived => (ag, d, RIgnored, None)
  end.

(* ------------------------------------------------------------------------------------------ *)
(* scenarios: deliveries of (altered) genuine messages                                        *)

Inductive who := WA | WB.             (* A: initiator (lower GUID), B: responder *)
Inductive mclass := KReq | KRep | KFin.
Inductive alter :=
| AGenuine
| ADropHashes                         (* remove the optional hash_c1 / hash_c2 *)
| ADrop (f : field)
| AFlip (f : field)                   (* change one byte of one field *)
| ASetClass (k : option mclass)       (* None: a class id that is none of the three *)
| ACertForeign                        (* c.id := same subject, issued by a foreign CA with the same CA name *)
| ACertSelf                           (* c.id := same subject, self-signed *)
| ACertInsider                        (* c.id := certificate of a third CA-issued identity *)
| APdataOther                         (* c.pdata := the third identity's participant data *)
| AForgeForeign                       (* foreign-CA certificate, hashes recomputed, re-signed with its key *)
| AForgeInsiderSig                    (* re-signed with the third identity's key *)
| AForgeInsiderFull                   (* third identity substitutes itself consistently *)
| AFresh (f : field)                  (* dh1/dh2/challenge1/challenge2 := attacker-chosen valid value *)
| APermRehash.                        (* c.perm changed, hash recomputed *)
Inductive op := Deliver (dst : who) (src : mclass) (a : alter).
Inductive mode := MFull | MRejectOnly.
Record case := { c_mode : mode; c_ia : Z; c_ib : Z; c_script : list op }.
(* c_ia / c_ib: which real certificates played initiator / responder (informational; the model
   names identities by role: 1 initiator, 2 responder, 3 the insider) *)

Definition field_eqb (a b : field) : bool :=
  match a, b with
  | FClass, FClass | FCid, FCid | FCperm, FCperm | FCpdata, FCpdata | FDsign, FDsign
  | FKagree, FKagree | FHashC1, FHashC1 | FHashC2, FHashC2 | FDh1, FDh1 | FDh2, FDh2
  | FCh1, FCh1 | FCh2, FCh2 | FSig, FSig => true
  | _, _ => false
  end.
Definition mclass_eqb (a b : mclass) : bool :=
  match a, b with KReq, KReq | KRep, KRep | KFin, KFin => true | _, _ => false end.
Definition who_eqb (a b : who) : bool :=
  match a, b with WA, WA | WB, WB => true | _, _ => false end.

(* symbolic identities *)
Definition CA := 100.
Definition CA_FOREIGN := 101.
Definition cert_of (i : Z) := Cert CA i i.
Definition cert_foreign (i : Z) := Cert CA_FOREIGN i (200 + i).
Definition cert_self (i : Z) := Cert (300 + i) i (300 + i).
Definition pdata_of (i : Z) := PData i i.
Definition ATT_DH := DhPub 9001.
Definition ATT_NONCE := Nonce 9002.
Definition ID_A := 1.
Definition ID_B := 2.
Definition ID_T := 3.

Definition cls_term (k : option mclass) : term :=
  match k with
  | Some KReq => CLS_REQ | Some KRep => CLS_REP | Some KFin => CLS_FIN | None => CLS_OTHER
  end.

Definition or_empty (o : option term) : term := match o with Some t => t | None => EMPTY end.
Definition has (f : field) (m : msg) : bool := match getf f m with Some _ => true | None => false end.

(* the driver's token surgery (harness/inrepo/c19.rs: rehash / resign / apply_alter) *)
Definition rehash (k : mclass) (m : msg) : msg :=
  let h := hash_c (or_empty (m_cid m)) (or_empty (m_cperm m)) (or_empty (m_cpdata m))
                  (or_empty (m_dsign m)) (or_empty (m_kagree m)) in
  match k with
  | KReq => setf FHashC1 (Some h) m
  | KRep => setf FHashC2 (Some h) m
  | KFin => m
  end.
Definition resign (k : mclass) (key : Z) (m : msg) : msg :=
  let g f := or_empty (getf f m) in
  match k with
  | KReq => m
  | KRep => setf FSig (Some (Sign key (content_reply (g FHashC2) (g FCh2) (g FDh2) (g FCh1) (g FDh1) (g FHashC1)))) m
  | KFin => setf FSig (Some (Sign key (content_final (g FHashC1) (g FCh1) (g FDh1) (g FCh2) (g FDh2) (g FHashC2)))) m
  end.
Definition set_if_has (f : field) (v : term) (m : msg) : msg :=
  if has f m then setf f (Some v) m else m.

Definition apply_alter (k : mclass) (sender : Z) (a : alter) (m : msg) : msg :=
  match a with
  | AGenuine => m
  | ADropHashes => setf FHashC2 None (setf FHashC1 None m)
  | ADrop f => setf f None m
  | AFlip f => match getf f m with Some t => setf f (Some (Flip t)) m | None => m end
  | ASetClass c => setf FClass (Some (cls_term c)) m
  | ACertForeign => set_if_has FCid (cert_foreign sender) m
  | ACertSelf => set_if_has FCid (cert_self sender) m
  | ACertInsider => set_if_has FCid (cert_of ID_T) m
  | APdataOther => set_if_has FCpdata (pdata_of ID_T) m
  | AForgeForeign => resign k (200 + sender) (rehash k (set_if_has FCid (cert_foreign sender) m))
  | AForgeInsiderSig => resign k ID_T m
  | AForgeInsiderFull =>
      let m1 := if has FCid m then setf FCpdata (Some (pdata_of ID_T)) (setf FCid (Some (cert_of ID_T)) m) else m in
      let m2 := match k with
                | KReq => setf FCh1 (Some ATT_NONCE) (setf FDh1 (Some ATT_DH) m1)
                | KRep => setf FCh2 (Some ATT_NONCE) (setf FDh2 (Some ATT_DH) m1)
                | KFin => m1
                end in
      resign k ID_T (rehash k m2)
  | AFresh f =>
      match f with
      | FDh1 | FDh2 => set_if_has f ATT_DH m
      | FCh1 | FCh2 => set_if_has f ATT_NONCE m
      | _ => m
      end
  | APermRehash => if has FCperm m then rehash k (setf FCperm (Some PERM_OTHER) m) else m
  end.

(* ------------------------------------------------------------------------------------------ *)
(* the world: two plugins, their discovery mirrors, the latest message of each class          *)

Record world := {
  w_a : agent; w_b : agent; w_da : dstate; w_db : dstate;
  w_req : option msg; w_rep : option msg; w_fin : option msg }.

Definition omsg_eqb := option_eqb msg_eqb.
Definition world_eqb (a b : world) : bool :=
  agent_eqb (w_a a) (w_a b) && agent_eqb (w_b a) (w_b b) && dstate_eqb (w_da a) (w_da b)
  && dstate_eqb (w_db a) (w_db b) && omsg_eqb (w_req a) (w_req b) && omsg_eqb (w_rep a) (w_rep b)
  && omsg_eqb (w_fin a) (w_fin b).

(* validate_local_identity + validate_remote_identity on both sides (A has the lower GUID), then
   A's try_sending_new_handshake_request_message *)
Definition agent0 (i peer fresh : Z) (st : hstate) : agent :=
  Build_agent CA (cert_of i) i (pdata_of i) (peer, peer) st None fresh.
Definition world0 : world :=
  let (a, req) := begin_handshake_request (agent0 ID_A ID_B 1001 PendingRequestSend) in
  Build_world a (agent0 ID_B ID_A 2001 PendingRequestMessage) DPendingReplyMessage
              DPendingRequestMessage req None None.

Definition pool_get (w : world) (k : mclass) : option msg :=
  match k with KReq => w_req w | KRep => w_rep w | KFin => w_fin w end.
Definition sender_of (k : mclass) : Z := match k with KRep => ID_B | _ => ID_A end.

Definition step (fl : flags) (w : world) (o : op) : world * res :=
  match o with
  | Deliver dst src a =>
      match pool_get w src with
      | None => (w, RNoMsg)
      | Some m =>
          let m' := apply_alter src (sender_of src) a m in
          match dst with
          | WA =>
              match dispatch fl (w_a w) (w_da w) m' with
              | (ag, d, r, out) =>
                  (Build_world ag (w_b w) d (w_db w) (w_req w) (w_rep w)
                               (match out with Some f => Some f | None => w_fin w end), r)
              end
          | WB =>
              match dispatch fl (w_b w) (w_db w) m' with
              | (ag, d, r, out) =>
                  (Build_world (w_a w) ag (w_da w) d (w_req w)
                               (match out with Some f => Some f | None => w_rep w end) (w_fin w), r)
              end
          end
      end
  end.

Fixpoint exec (fl : flags) (w : world) (ops : list op) : world * list res :=
  match ops with
  | [] => (w, [])
  | o :: ops' =>
      let (w1, r) := step fl w o in
      let (w2, rs) := exec fl w1 ops' in
      (w2, r :: rs)
  end.

(* the three genuine messages, (re)delivered in order after every script *)
Definition completion : list op :=
  [Deliver WB KReq AGenuine; Deliver WA KRep AGenuine; Deliver WB KFin AGenuine].

Inductive secrel := SecNone | SecOnlyA | SecOnlyB | SecEqual | SecDiffer.
Definition secrel_eqb (a b : secrel) : bool :=
  match a, b with
  | SecNone, SecNone | SecOnlyA, SecOnlyA | SecOnlyB, SecOnlyB | SecEqual, SecEqual
  | SecDiffer, SecDiffer => true
  | _, _ => false
  end.
Definition secrets (w : world) : secrel :=
  match get_shared_secret (w_a w), get_shared_secret (w_b w) with
  | None, None => SecNone
  | Some _, None => SecOnlyA
  | None, Some _ => SecOnlyB
  | Some (c1, c2, s), Some (d1, d2, t) =>
      if term_eqb c1 d1 && term_eqb c2 d2 && secret_eqb s t then SecEqual else SecDiffer
  end.

Record obs := {
  o_res : list res;          (* outcome class of every delivery of the script *)
  o_completion : list res;   (* outcome classes of the completion suffix *)
  o_sta : Z; o_stb : Z;      (* final handshake-state class of both plugins *)
  o_sec : secrel }.

Definition run_with (fl : flags) (c : case) : obs :=
  let (w1, rs) := exec fl world0 (c_script c) in
  let (w2, cs) := exec fl w1 completion in
  Build_obs rs cs (state_class (a_st (w_a w2))) (state_class (a_st (w_b w2))) (secrets w2).
Definition run (c : case) : obs := run_with flags_new c.
Definition run_old (c : case) : obs := run_with flags_old c.

Definition obs_eqb (a b : obs) : bool :=
  list_eqb res_eqb (o_res a) (o_res b) && list_eqb res_eqb (o_completion a) (o_completion b)
  && (o_sta a =? o_sta b) && (o_stb a =? o_stb b) && secrel_eqb (o_sec a) (o_sec b).

(* ------------------------------------------------------------------------------------------ *)
(* the property oracle: looks at the script and the observed outcomes only                    *)

(* fields a genuine message of each class carries *)
Definition present (k : mclass) (f : field) : bool :=
  match k, f with
  | KRep, _ => true
  | KReq, (FClass | FCid | FCperm | FCpdata | FDsign | FKagree | FHashC1 | FDh1 | FCh1) => true
  | KFin, (FClass | FHashC1 | FHashC2 | FDh1 | FDh2 | FCh1 | FCh2 | FSig) => true
  | _, _ => false
  end.

(* the alteration leaves the message's content untouched: nothing changed at all, or only the
   optional redundant hash_c1 / hash_c2 properties were removed *)
Definition genuine_equiv (k : mclass) (a : alter) : bool :=
  match a with
  | AGenuine | ADropHashes => true
  | ADrop FHashC1 | ADrop FHashC2 => true
  | ADrop f | AFlip f => negb (present k f)
  | AFresh f => negb (present k f && match f with FDh1 | FDh2 | FCh1 | FCh2 => true | _ => false end)
  | ASetClass c => match c with Some k' => mclass_eqb k k' | None => false end
  | ACertForeign | ACertSelf | ACertInsider | APdataOther | APermRehash => mclass_eqb k KFin
  | AForgeInsiderSig => mclass_eqb k KReq
  | AForgeForeign | AForgeInsiderFull => false
  end.

(* oracle state: how far the GENUINE handshake has got (0: request outstanding, 1: reply
   outstanding, 2: final outstanding, 3: complete), and whether the responder has accepted a
   request that is not the genuine one *)
Record ostate := { os_stage : Z; os_taint : bool }.
Definition ostate0 := Build_ostate 0 false.

Definition due (stage : Z) (dst : who) (src : mclass) : bool :=
  match stage, dst, src with
  | 0, WB, KReq | 1, WA, KRep | 2, WB, KFin => true
  | _, _, _ => false
  end.
Definition expected (src : mclass) : res :=
  match src with KReq => ROkPending | KRep => ROkFinalMessage | KFin => ROk end.

(* one delivery judged: None = the property is violated at this step *)
Definition ostep (os : ostate) (o : op) (r : res) : option ostate :=
  match o with
  | Deliver dst src a =>
      match r with
      | RNoMsg => Some os
      | RPanic => None
      | _ =>
        if genuine_equiv src a && negb (os_taint os) && due (os_stage os) dst src then
          (* the genuine next message: must be accepted whatever was received before *)
          if res_eqb r (expected src) then Some (Build_ostate (os_stage os + 1) false) else None
        else
          (* altered / forged / replayed / out of order: never authentication, never a secret *)
          match r with
          | ROkFinalMessage | ROk => None
          | ROkPending => Some (Build_ostate (os_stage os) true)
          | _ => Some os
          end
      end
  end.

Fixpoint oracle (os : ostate) (ops : list op) (rs : list res) : option ostate :=
  match ops, rs with
  | [], [] => Some os
  | o :: ops', r :: rs' =>
      match ostep os o r with
      | Some os' => oracle os' ops' rs'
      | None => None
      end
  | _, _ => None
  end.

(* final observables must agree with the genuine progress: A holds a secret iff the genuine reply
   was accepted, B iff the genuine final was; the two are then equal *)
Definition final_consistent (os : ostate) (o : obs) : bool :=
  let st := os_stage os in
  ((o_sta o =? 4) || (o_sta o =? 2)) && Bool.eqb (o_sta o =? 4) (2 <=? st)
  && Bool.eqb (o_stb o =? 5) (st =? 3)
  && secrel_eqb (o_sec o) (if st =? 3 then SecEqual else if 2 <=? st then SecOnlyA else SecNone).

Definition ok (c : case) (o : obs) : bool :=
  match oracle ostate0 (c_script c ++ completion) (o_res o ++ o_completion o) with
  | None => false
  | Some os =>
      (length (o_res o) =? length (c_script c))%nat && final_consistent os o
      && match c_mode c with
         | MFull => os_stage os =? 3       (* the genuine handshake completed *)
         | MRejectOnly => true
         end
  end.

(* ------------------------------------------------------------------------------------------ *)
(* known finding (syntactic class of scripts): the FIRST request-class delivery to the responder
   that is not rejected by construction is a request altered in a field no signature or hash
   protects (dh1, challenge1, or c.perm with the hash recomputed).  The responder cannot tell it
   from a genuine request, commits to it (PendingFinalMessage) and has no way back. *)
Definition undetectable_req (a : alter) : bool :=
  match a with
  | AFlip FDh1 | AFlip FCh1 | AFresh FDh1 | AFresh FCh1 | APermRehash => true
  | _ => false
  end.
Fixpoint known_class (s : list op) : bool :=
  match s with
  | [] => false
  | Deliver WB KReq a :: s' =>
      if genuine_equiv KReq a then false else if undetectable_req a then true else known_class s'
  | _ :: s' => known_class s'
  end.
