(* C19 — lemmas: decidable equalities, inversion of acceptance (what an accepted reply / final
   message must contain), state preservation on rejection, the honest run for arbitrary
   identities. *)
From Coq Require Import List ZArith Bool Lia.
From RD Require Import Common.Corr C19.Model.
Import ListNotations.
Open Scope Z_scope.

(* ------------------------------------------------------------------------------------------ *)
(* equalities                                                                                 *)

Lemma term_eqb_refl : forall t, term_eqb t t = true.
Proof.
  induction t; cbn [term_eqb]; rewrite ?Z.eqb_refl, ?IHt, ?IHt1, ?IHt2; reflexivity.
Qed.

Lemma term_eqb_eq : forall a b, term_eqb a b = true -> a = b.
Proof.
  induction a; destruct b; cbn [term_eqb]; intro H; try discriminate;
    repeat (apply andb_true_iff in H; destruct H as [H ?]);
    repeat match goal with
           | E : (_ =? _) = true |- _ => apply Z.eqb_eq in E; subst
           end;
    try (f_equal; auto; fail).
Qed.

Lemma term_eqb_spec : forall a b, term_eqb a b = true <-> a = b.
Proof. split; [apply term_eqb_eq | intros ->; apply term_eqb_refl]. Qed.

Lemma term_eqb_neq : forall a b, term_eqb a b = false <-> a <> b.
Proof.
  intros a b; split.
  - intros H E; subst; rewrite term_eqb_refl in H; discriminate.
  - intros H; destruct (term_eqb a b) eqn:E; [apply term_eqb_eq in E; contradiction | reflexivity].
Qed.

Lemma oterm_eqb_eq : forall a b, oterm_eqb a b = true -> a = b.
Proof.
  intros [a|] [b|]; cbn; intro H; try discriminate; try reflexivity.
  apply term_eqb_eq in H; congruence.
Qed.

Ltac split_andb :=
  repeat match goal with
         | H : _ && _ = true |- _ => apply andb_true_iff in H; destruct H
         end.
Ltac eqs :=
  repeat match goal with
         | E : (_ =? _) = true |- _ => apply Z.eqb_eq in E
         | E : term_eqb _ _ = true |- _ => apply term_eqb_eq in E
         | E : oterm_eqb _ _ = true |- _ => apply oterm_eqb_eq in E
         end.

Lemma msg_eqb_eq : forall a b, msg_eqb a b = true -> a = b.
Proof.
  intros [] []; unfold msg_eqb; cbn; intro H; split_andb; eqs; subst; reflexivity.
Qed.

Lemma omsg_eqb_eq : forall a b, omsg_eqb a b = true -> a = b.
Proof.
  intros [a|] [b|]; cbn; intro H; try discriminate; try reflexivity.
  apply msg_eqb_eq in H; congruence.
Qed.

Lemma secret_eqb_eq : forall a b, secret_eqb a b = true -> a = b.
Proof.
  intros [a1 a2] [b1 b2]; unfold secret_eqb; cbn; intro H; split_andb; eqs; subst; reflexivity.
Qed.

Lemma hstate_eqb_eq : forall a b, hstate_eqb a b = true -> a = b.
Proof.
  intros [] []; cbn; intro H; try discriminate; try reflexivity; split_andb; eqs;
    repeat match goal with
           | E : secret_eqb _ _ = true |- _ => apply secret_eqb_eq in E
           end; subst; reflexivity.
Qed.

Lemma agent_eqb_eq : forall a b, agent_eqb a b = true -> a = b.
Proof.
  intros [? ? ? ? [? ?] ? ? ?] [? ? ? ? [? ?] ? ? ?]; unfold agent_eqb; cbn; intro H; split_andb; eqs.
  match goal with E : hstate_eqb _ _ = true |- _ => apply hstate_eqb_eq in E end.
  subst; reflexivity.
Qed.

Lemma dstate_eqb_eq : forall a b, dstate_eqb a b = true -> a = b.
Proof. intros [] []; cbn; intro H; try discriminate; reflexivity. Qed.

Lemma world_eqb_eq : forall a b, world_eqb a b = true -> a = b.
Proof.
  intros [] []; unfold world_eqb; cbn; intro H; split_andb.
  repeat match goal with
         | E : agent_eqb _ _ = true |- _ => apply agent_eqb_eq in E
         | E : dstate_eqb _ _ = true |- _ => apply dstate_eqb_eq in E
         | E : omsg_eqb _ _ = true |- _ => apply omsg_eqb_eq in E
         end; subst; reflexivity.
Qed.

(* ------------------------------------------------------------------------------------------ *)
(* a rejected message leaves the plugin exactly as it was (repaired code)                      *)

Lemma begin_reply_err_keeps : forall fl ag m,
  snd (begin_handshake_reply fl ag m) = PErr -> fst (begin_handshake_reply fl ag m) = ag.
Proof.
  intros fl ag m. unfold begin_handshake_reply.
  repeat match goal with
         | |- context [match ?x with _ => _ end] => destruct x eqn:?; cbn [fst snd]; try discriminate; try reflexivity
         | |- context [if ?x then _ else _] => destruct x eqn:?; cbn [fst snd]; try discriminate; try reflexivity
         end.
Qed.

Lemma process_err_keeps : forall fl ag m,
  fl_restore fl = true ->
  snd (process_handshake fl ag m) = PErr -> fst (process_handshake fl ag m) = ag.
Proof.
  intros fl ag m Hr. unfold process_handshake. rewrite Hr.
  destruct (a_st ag); cbn [fst snd]; try reflexivity.
  - destruct (process_reply fl ag x1 ch1 h1 m) as [[[? ?] ?]|]; cbn [fst snd]; [discriminate | reflexivity].
  - destruct (process_final h1 h2 dh1pub ch1 x2 ch2 rcert m); cbn [fst snd]; [discriminate | reflexivity].
Qed.

(* as written: any rejected message in the two waiting states destroyed the state *)
Lemma process_err_old_destroys : forall ag m,
  snd (process_handshake flags_old ag m) = PErr ->
  a_st (fst (process_handshake flags_old ag m)) = PendingRequestSend.
Proof.
  intros ag m. unfold process_handshake. cbn [fl_restore flags_old].
  destruct (a_st ag); cbn [fst snd with_state a_st]; try reflexivity.
  - destruct (process_reply flags_old ag x1 ch1 h1 m) as [[[? ?] ?]|]; cbn [fst snd with_state a_st]; [discriminate | reflexivity].
  - destruct (process_final h1 h2 dh1pub ch1 x2 ch2 rcert m); cbn [fst snd with_state a_st]; [discriminate | reflexivity].
Qed.

(* ------------------------------------------------------------------------------------------ *)
(* what an accepted message must contain                                                      *)

Ltac bool_hyps :=
  repeat match goal with
         | H : negb _ = false |- _ => apply negb_false_iff in H
         | H : negb _ = true |- _ => apply negb_true_iff in H
         | H : _ && _ = true |- _ => apply andb_true_iff in H; destruct H
         end.

Ltac cls_hyp :=
  match goal with
  | H : class_is (m_class ?m) _ = true |- _ =>
      unfold class_is in H; destruct (m_class m) as [cl|]; [apply term_eqb_eq in H; subst cl | discriminate]
  end.
Ltac guid_hyp ag :=
  match goal with
  | H : guid_ok ?fl ag ?cpdata ?subj = true |- _ =>
      unfold guid_ok in H; destruct cpdata as [| | | |g r| | | |]; cbn [as_pdata] in H; try discriminate;
      apply andb_true_iff in H; destruct H as [Hgs Hgf]; apply Z.eqb_eq in Hgs; subst g
  end.
Lemma guid_flag : forall fl (ag : agent) g r,
  negb (fl_guid fl) || (g =? fst (a_rguid ag)) && (r =? snd (a_rguid ag)) = true ->
  fl_guid fl = true -> (g, r) = a_rguid ag.
Proof.
  intros fl ag g r H Hf. rewrite Hf in H. cbn in H. apply andb_true_iff in H. destruct H as [H1 H2].
  apply Z.eqb_eq in H1. apply Z.eqb_eq in H2. destruct (a_rguid ag); cbn in *; congruence.
Qed.

(* A reply is accepted only if it carries a certificate issued by the configured CA, participant
   data whose GUID is bound to that certificate's subject (and, repaired code, is the GUID the
   handshake was started for), this handshake's challenge1 (and, repaired code, DH1), and a
   signature made with the certified key over exactly Hash(C2) of the presented C2 fields, the
   presented challenge2 / DH2, this handshake's challenge1, DH1 and Hash(C1). *)
Lemma reply_accept_inv : forall fl ag x1 ch1 h1 m st c fin,
  process_reply fl ag x1 ch1 h1 m = Some (st, c, fin) ->
  exists subj pk cperm g r dsign kagree rch2 rdh2 rdh1 y,
    m_class m = Some CLS_REP /\
    m_cid m = Some (Cert (a_ca ag) subj pk) /\ m_cperm m = Some cperm /\
    m_cpdata m = Some (PData g r) /\ g = subj /\
    (fl_guid fl = true -> (g, r) = a_rguid ag) /\
    m_dsign m = Some dsign /\ m_kagree m = Some kagree /\
    m_ch1 m = Some ch1 /\ m_ch2 m = Some rch2 /\ m_dh1 m = Some rdh1 /\ m_dh2 m = Some rdh2 /\
    (fl_dh1 fl = true -> rdh1 = DhPub x1) /\
    rdh2 = DhPub y /\
    m_sig m = Some (Sign pk (content_reply
                 (hash_c (Cert (a_ca ag) subj pk) cperm (PData g r) dsign kagree)
                 rch2 rdh2 ch1 rdh1 h1)) /\
    st = CompletedSent ch1 rch2 (Z.min x1 y, Z.max x1 y) /\
    c = Cert (a_ca ag) subj pk.
Proof.
  intros fl ag x1 ch1 h1 m st c fin H. unfold process_reply in H.
  destruct (negb (class_known (m_class m) && class_is (m_class m) CLS_REP)) eqn:Hc; [discriminate|].
  unfold req5 in H.
  destruct (m_cid m) as [cid|] eqn:E1; [|discriminate].
  destruct (m_cperm m) as [cperm|] eqn:E2; [|discriminate].
  destruct (m_cpdata m) as [cpdata|] eqn:E3; [|discriminate].
  destruct (m_dsign m) as [dsign|] eqn:E4; [|discriminate].
  destruct (m_kagree m) as [kagree|] eqn:E5; [|discriminate].
  destruct (m_ch1 m) as [rch1|] eqn:E6; [|discriminate].
  destruct (m_ch2 m) as [rch2|] eqn:E7; [|discriminate].
  destruct (m_dh1 m) as [rdh1|] eqn:E8; [|discriminate].
  destruct (m_dh2 m) as [rdh2|] eqn:E9; [|discriminate].
  destruct (m_sig m) as [sig|] eqn:E10; [|discriminate].
  destruct (negb (opt32 (m_hc1 m) && opt32 (m_hc2 m) && is32 rch1 && is32 rch2)); [discriminate|].
  destruct cid as [| | |ca subj pk| | | | |]; cbn [as_cert] in H; try discriminate.
  destruct (negb (ca =? a_ca ag)) eqn:Hca; [discriminate|].
  destruct (negb (guid_ok fl ag cpdata subj)) eqn:Hg; [discriminate|].
  destruct (negb (term_eqb ch1 rch1)) eqn:Hch; [discriminate|].
  destruct (negb (hash_opt_ok (m_hc1 m) h1)); [discriminate|].
  destruct (negb (hash_opt_ok (m_hc2 m) (hash_c (Cert ca subj pk) cperm cpdata dsign kagree))); [discriminate|].
  destruct (negb (term_eqb dsign ECDSA)); [discriminate|].
  destruct (negb (verify pk (content_reply (hash_c (Cert ca subj pk) cperm cpdata dsign kagree) rch2 rdh2 rch1 rdh1 h1) sig)) eqn:Hv; [discriminate|].
  destruct (negb (term_eqb kagree ECDH)); [discriminate|].
  destruct (fl_dh1 fl && negb (term_eqb rdh1 (DhPub x1))) eqn:Hd; [discriminate|].
  destruct rdh2 as [| |y| | | | | |]; cbn [dh] in H; try discriminate.
  inversion H; subst; clear H.
  apply negb_false_iff in Hca, Hg, Hch, Hv, Hc.
  apply andb_true_iff in Hc. destruct Hc as [_ Hc].
  apply Z.eqb_eq in Hca. apply term_eqb_eq in Hch. subst.
  unfold verify in Hv. apply term_eqb_eq in Hv.
  guid_hyp ag. cls_hyp.
  exists subj, pk, cperm, subj, r, dsign, kagree, rch2, (DhPub y), rdh1, y.
  repeat split; try reflexivity; try congruence.
  - apply guid_flag; exact Hgf.
  - intro Hf. rewrite Hf in Hd. cbn in Hd. apply negb_false_iff in Hd. apply term_eqb_eq in Hd. exact Hd.
Qed.

(* A final message is accepted only if every value in it is the one stored when the reply was
   sent and the signature was made with the key of the certificate verified then, over exactly
   those values. *)
Lemma final_accept_inv : forall h1 h2 dh1pub ch1 x2 ch2 rcert m st,
  process_final h1 h2 dh1pub ch1 x2 ch2 rcert m = Some st ->
  exists ca subj pk y,
    m_class m = Some CLS_FIN /\
    rcert = Cert ca subj pk /\ dh1pub = DhPub y /\
    m_ch1 m = Some ch1 /\ m_ch2 m = Some ch2 /\ m_dh1 m = Some dh1pub /\ m_dh2 m = Some (DhPub x2) /\
    (forall h, m_hc1 m = Some h -> h = h1) /\ (forall h, m_hc2 m = Some h -> h = h2) /\
    m_sig m = Some (Sign pk (content_final h1 ch1 dh1pub ch2 (DhPub x2) h2)) /\
    st = CompletedReceived ch1 ch2 (Z.min x2 y, Z.max x2 y).
Proof.
  intros h1 h2 dh1pub ch1 x2 ch2 rcert m st H. unfold process_final in H.
  destruct (negb (class_known (m_class m) && class_is (m_class m) CLS_FIN)) eqn:Hc; [discriminate|].
  destruct (m_ch1 m) as [fch1|] eqn:E6; [|discriminate].
  destruct (m_ch2 m) as [fch2|] eqn:E7; [|discriminate].
  destruct (m_dh1 m) as [fdh1|] eqn:E8; [|discriminate].
  destruct (m_dh2 m) as [fdh2|] eqn:E9; [|discriminate].
  destruct (m_sig m) as [sig|] eqn:E10; [|discriminate].
  destruct (negb (opt32 (m_hc1 m) && opt32 (m_hc2 m) && is32 fch1 && is32 fch2)); [discriminate|].
  destruct (negb (hash_opt_ok (m_hc1 m) h1)) eqn:Hh1; [discriminate|].
  destruct (negb (hash_opt_ok (m_hc2 m) h2)) eqn:Hh2; [discriminate|].
  destruct (negb (term_eqb dh1pub fdh1)) eqn:Hd1; [discriminate|].
  destruct (negb (term_eqb (DhPub x2) fdh2)) eqn:Hd2; [discriminate|].
  destruct (negb (term_eqb ch1 fch1)) eqn:Hc1; [discriminate|].
  destruct (negb (term_eqb ch2 fch2)) eqn:Hc2; [discriminate|].
  destruct rcert as [| | |ca subj pk| | | | |]; cbn [as_cert] in H; try discriminate.
  destruct (negb (verify pk (content_final h1 ch1 dh1pub ch2 (DhPub x2) h2) sig)) eqn:Hv; [discriminate|].
  destruct dh1pub as [| |y| | | | | |]; cbn [dh] in H; try discriminate.
  inversion H; subst; clear H.
  apply negb_false_iff in Hh1, Hh2, Hd1, Hd2, Hc1, Hc2, Hv, Hc.
  apply andb_true_iff in Hc. destruct Hc as [_ Hc].
  apply term_eqb_eq in Hd1, Hd2, Hc1, Hc2. subst.
  unfold verify in Hv. apply term_eqb_eq in Hv. subst.
  cls_hyp.
  exists ca, subj, pk, y. repeat split; try reflexivity.
  - intros h Hh. rewrite Hh in Hh1. cbn in Hh1. apply term_eqb_eq in Hh1. exact Hh1.
  - intros h Hh. rewrite Hh in Hh2. cbn in Hh2. apply term_eqb_eq in Hh2. exact Hh2.
Qed.

(* A request is accepted only from a CA-issued certificate whose subject is bound to the GUID in
   the participant data (repaired code: the GUID the handshake was started for). *)
Lemma request_accept_inv : forall fl ag m ag' rep,
  begin_handshake_reply fl ag m = (ag', POkPending rep) ->
  exists subj pk r,
    a_st ag = PendingRequestMessage /\ m_class m = Some CLS_REQ /\
    m_cid m = Some (Cert (a_ca ag) subj pk) /\ m_cpdata m = Some (PData subj r) /\
    (fl_guid fl = true -> (subj, r) = a_rguid ag).
Proof.
  intros fl ag m ag' rep H. unfold begin_handshake_reply in H.
  destruct (a_st ag) eqn:Est; try discriminate.
  destruct (negb (class_known (m_class m) && class_is (m_class m) CLS_REQ)) eqn:Hc; [discriminate|].
  unfold req5 in H.
  destruct (m_cid m) as [cid|] eqn:E1; [|discriminate].
  destruct (m_cperm m) as [cperm|] eqn:E2; [|discriminate].
  destruct (m_cpdata m) as [cpdata|] eqn:E3; [|discriminate].
  destruct (m_dsign m) as [dsign|] eqn:E4; [|discriminate].
  destruct (m_kagree m) as [kagree|] eqn:E5; [|discriminate].
  destruct (m_ch1 m) as [rch1|] eqn:E6; [|discriminate].
  destruct (m_dh1 m) as [rdh1|] eqn:E8; [|discriminate].
  destruct (negb (opt32 (m_hc1 m) && is32 rch1)); [discriminate|].
  destruct cid as [| | |ca subj pk| | | | |]; cbn [as_cert] in H; try discriminate.
  destruct (negb (ca =? a_ca ag)) eqn:Hca; [discriminate|].
  destruct (negb (guid_ok fl ag cpdata subj)) eqn:Hg; [discriminate|].
  apply negb_false_iff in Hca, Hg, Hc.
  apply andb_true_iff in Hc. destruct Hc as [_ Hc].
  apply Z.eqb_eq in Hca. subst.
  guid_hyp ag. cls_hyp.
  exists subj, pk, r. repeat split; try reflexivity.
  apply guid_flag; exact Hgf.
Qed.

