(* C19 — Dolev-Yao attacker: what can be built from observed terms without honest private keys.
   Signatures under honest keys and certificates under the honest CA key cannot be synthesised: if
   such a term occurs in an attacker-built message it occurs inside something the attacker saw. *)
From Coq Require Import List ZArith Bool Lia.
From RD Require Import Common.Corr C19.Model C19.Proofs.
Import ListNotations.
Open Scope Z_scope.

Inductive subterm : term -> term -> Prop :=
| SubRefl : forall t, subterm t t
| SubHash : forall s t, subterm s t -> subterm s (Hash t)
| SubPairL : forall s a b, subterm s a -> subterm s (Pair a b)
| SubPairR : forall s a b, subterm s b -> subterm s (Pair a b)
| SubSign : forall s k m, subterm s m -> subterm s (Sign k m)
| SubFlip : forall s t, subterm s t -> subterm s (Flip t).

Section DY.
  Variable honest_key : Z -> Prop.      (* key pairs whose private half the attacker lacks *)
  Variable K : term -> Prop.            (* everything the attacker has observed / owns *)

  Inductive synth : term -> Prop :=
  | SyKnown : forall t, K t -> synth t
  | SyAtom : forall z, synth (Atom z)
  | SyNonce : forall n, synth (Nonce n)           (* even guessing nonces does not help forging *)
  | SyDhPub : forall x, synth (DhPub x)
  | SyPData : forall g r, synth (PData g r)
  | SyCert : forall ca s pk, ~ honest_key ca -> synth (Cert ca s pk)
  | SyHash : forall t, synth t -> synth (Hash t)
  | SyPair : forall a b, synth a -> synth b -> synth (Pair a b)
  | SySign : forall k m, ~ honest_key k -> synth m -> synth (Sign k m)
  | SyFlip : forall t, synth t -> synth (Flip t)
  | SyFst : forall a b, synth (Pair a b) -> synth a
  | SySnd : forall a b, synth (Pair a b) -> synth b
  | SyUnsign : forall k m, synth (Sign k m) -> synth m
  | SyUnflip : forall t, synth (Flip t) -> synth t.

  Definition protected (t : term) : Prop :=
    (exists k m, t = Sign k m /\ honest_key k) \/ (exists ca s pk, t = Cert ca s pk /\ honest_key ca).

  Lemma synth_protected : forall t, synth t ->
    forall q, protected q -> subterm q t -> exists u, K u /\ subterm q u.
  Proof.
    induction 1; intros q Hp Hs.
    - exists t; split; assumption.
    - inversion Hs; subst. destruct Hp as [[? [? [E _]]]|[? [? [? [E _]]]]]; discriminate.
    - inversion Hs; subst. destruct Hp as [[? [? [E _]]]|[? [? [? [E _]]]]]; discriminate.
    - inversion Hs; subst. destruct Hp as [[? [? [E _]]]|[? [? [? [E _]]]]]; discriminate.
    - inversion Hs; subst. destruct Hp as [[? [? [E _]]]|[? [? [? [E _]]]]]; discriminate.
    - inversion Hs; subst. destruct Hp as [[? [? [E _]]]|[? [? [? [E Hh]]]]]; [discriminate|].
      inversion E; subst. contradiction.
    - inversion Hs; subst.
      + destruct Hp as [[? [? [E _]]]|[? [? [? [E _]]]]]; discriminate.
      + eapply IHsynth; eassumption.
    - inversion Hs; subst.
      + destruct Hp as [[? [? [E _]]]|[? [? [? [E _]]]]]; discriminate.
      + eapply IHsynth1; eassumption.
      + eapply IHsynth2; eassumption.
    - inversion Hs; subst.
      + destruct Hp as [[? [? [E Hh]]]|[? [? [? [E _]]]]]; [|discriminate]. inversion E; subst. contradiction.
      + eapply IHsynth; eassumption.
    - inversion Hs; subst.
      + destruct Hp as [[? [? [E _]]]|[? [? [? [E _]]]]]; discriminate.
      + eapply IHsynth; eassumption.
    - apply IHsynth; [assumption | apply SubPairL; assumption].
    - apply IHsynth; [assumption | apply SubPairR; assumption].
    - apply IHsynth; [assumption | apply SubSign; assumption].
    - apply IHsynth; [assumption | apply SubFlip; assumption].
  Qed.

  (* a signature under an honest key in an attacker-built term was made by the key's owner *)
  Lemma sign_origin : forall k m, honest_key k -> synth (Sign k m) ->
    exists u, K u /\ subterm (Sign k m) u.
  Proof.
    intros k m Hk Hs. apply (synth_protected _ Hs); [left; eauto | apply SubRefl].
  Qed.

  Lemma cert_origin : forall ca s pk, honest_key ca -> synth (Cert ca s pk) ->
    exists u, K u /\ subterm (Cert ca s pk) u.
  Proof.
    intros ca s pk Hk Hs. apply (synth_protected _ Hs); [right; eauto | apply SubRefl].
  Qed.

  (* C19_reject, message level: if the initiator (configured with an honest CA key) accepts a reply
     whose fields the attacker built, then the certificate in it was issued by that CA (so it
     stems from something the attacker saw, not made), its subject is bound to the GUID, and — if
     the certified key is honest — the owner of that key signed exactly this handshake's
     challenge1, DH1 (repaired code) and Hash(C1) together with the presented challenge2 / DH2:
     the attacker saw that signature, he did not make it.  Altering any signed field, presenting a
     certificate of another CA, or a GUID not bound to the certificate, is rejected. *)
  Theorem reply_needs_owner_signature : forall fl ag x1 ch1 h1 m st c fin,
    honest_key (a_ca ag) ->
    (forall f t, getf f m = Some t -> synth t) ->
    process_reply fl ag x1 ch1 h1 m = Some (st, c, fin) ->
    exists subj pk r cperm dsign kagree rch2 rdh2 rdh1,
      m_cid m = Some (Cert (a_ca ag) subj pk) /\
      (exists u, K u /\ subterm (Cert (a_ca ag) subj pk) u) /\
      m_cpdata m = Some (PData subj r) /\
      (fl_guid fl = true -> (subj, r) = a_rguid ag) /\
      (fl_dh1 fl = true -> rdh1 = DhPub x1) /\
      let sig := Sign pk (content_reply (hash_c (Cert (a_ca ag) subj pk) cperm (PData subj r) dsign kagree)
                                        rch2 rdh2 ch1 rdh1 h1) in
      m_sig m = Some sig /\
      (honest_key pk -> exists u, K u /\ subterm sig u).
  Proof.
    intros fl ag x1 ch1 h1 m st c fin Hca Hsyn H.
    destruct (reply_accept_inv _ _ _ _ _ _ _ _ _ H)
      as [subj [pk [cperm [g [r [dsign [kagree [rch2 [rdh2 [rdh1 [y Hx]]]]]]]]]]].
    destruct Hx as [_ [Hcid [_ [Hpd [Hg [Hgf [_ [_ [_ [_ [_ [_ [Hd [_ [Hsig _]]]]]]]]]]]]]]]. subst g.
    exists subj, pk, r, cperm, dsign, kagree, rch2, rdh2, rdh1.
    split; [exact Hcid|]. split.
    { apply cert_origin; [exact Hca | apply (Hsyn FCid); exact Hcid]. }
    split; [exact Hpd|]. split; [exact Hgf|]. split; [exact Hd|].
    cbn zeta. split; [exact Hsig|].
    intro Hpk. apply sign_origin; [exact Hpk | apply (Hsyn FSig); exact Hsig].
  Qed.

  (* the same for the final message at the responder *)
  Theorem final_needs_owner_signature : forall h1 h2 dh1pub ch1 x2 ch2 ca subj pk m st,
    honest_key pk ->
    (forall f t, getf f m = Some t -> synth t) ->
    process_final h1 h2 dh1pub ch1 x2 ch2 (Cert ca subj pk) m = Some st ->
    let sig := Sign pk (content_final h1 ch1 dh1pub ch2 (DhPub x2) h2) in
    m_sig m = Some sig /\ exists u, K u /\ subterm sig u.
  Proof.
    intros h1 h2 dh1pub ch1 x2 ch2 ca subj pk m st Hpk Hsyn H.
    destruct (final_accept_inv _ _ _ _ _ _ _ _ _ H) as [ca' [subj' [pk' [y Hx]]]].
    destruct Hx as [_ [Hc [_ [_ [_ [_ [_ [_ [_ [Hsig _]]]]]]]]]]. inversion Hc; subst ca' subj' pk'.
    cbn zeta. split; [exact Hsig|].
    apply sign_origin; [exact Hpk | apply (Hsyn FSig); exact Hsig].
  Qed.
End DY.
