(* C19 — property theorems only.  Statements are pinned; proofs are one `exact`.
   PARTIAL: cryptography is symbolic (ideal signatures / hashes / DH), X.509 and CDR parsing are
   not modelled. *)
From Coq Require Import List ZArith Bool.
From RD Require Import Common.Corr C19.Model C19.Proofs C19.Honest C19.Reach C19.Main C19.DY.
Import ListNotations.
Open Scope Z_scope.

(* Two identities issued by the configured CA (any CA key, subjects, keys, GUID remainders, fresh
   values; code as written or repaired) complete the three messages, hold the same challenges and
   the same shared secret, and each has stored the other's certificate. *)
Theorem C19_honest : forall fl ca sa ka ra sb kb rb fa fb,
  let A0 := Build_agent ca (Cert ca sa ka) ka (PData sa ra) (sb, rb) PendingRequestSend None fa in
  let B0 := Build_agent ca (Cert ca sb kb) kb (PData sb rb) (sa, ra) PendingRequestMessage None fb in
  exists A1 req B1 rep A2 fin B2 c1 c2 s,
    begin_handshake_request A0 = (A1, Some req) /\
    begin_handshake_reply fl B0 req = (B1, POkPending rep) /\
    process_handshake fl A1 rep = (A2, POkFinalMessage fin) /\
    process_handshake fl B1 fin = (B2, POk) /\
    get_shared_secret A2 = Some (c1, c2, s) /\ get_shared_secret B2 = Some (c1, c2, s) /\
    a_rcert A2 = Some (Cert ca sb kb) /\ a_rcert B2 = Some (Cert ca sa ka).
Proof. exact honest_general. Qed.
Print Assumptions C19_honest.

(* What an ACCEPTED reply must contain (initiator, any state values, any message of arbitrary
   terms): a certificate issued by the configured CA, participant data whose GUID is bound to the
   certificate's subject and is the GUID the handshake was started for, this handshake's
   challenge1 and DH1, and a signature under the certified key over exactly the presented C2 /
   challenge2 / DH2 and this handshake's challenge1 / DH1 / Hash(C1). *)
Theorem C19_reject_reply : forall fl ag x1 ch1 h1 m st c fin,
  process_reply fl ag x1 ch1 h1 m = Some (st, c, fin) ->
  exists subj pk cperm g r dsign kagree rch2 rdh2 rdh1 y,
    m_class m = Some CLS_REP /\
    m_cid m = Some (Cert (a_ca ag) subj pk) /\ m_cperm m = Some cperm /\
    m_cpdata m = Some (PData g r) /\ g = subj /\
    (fl_guid fl = true -> (g, r) = a_rguid ag) /\
    m_dsign m = Some dsign /\ m_kagree m = Some kagree /\
    m_ch1 m = Some ch1 /\ m_ch2 m = Some rch2 /\ m_dh1 m = Some rdh1 /\ m_dh2 m = Some rdh2 /\
    (fl_dh1 fl = true -> rdh1 = DhPub x1) /\
    rdh2 = DhPub y /\
    m_sig m = Some (Sign pk (content_reply
                 (hash_c (Cert (a_ca ag) subj pk) cperm (PData g r) dsign kagree)
                 rch2 rdh2 ch1 rdh1 h1)) /\
    st = CompletedSent ch1 rch2 (Z.min x1 y, Z.max x1 y) /\
    c = Cert (a_ca ag) subj pk.
Proof. exact reply_accept_inv. Qed.
Print Assumptions C19_reject_reply.

(* What an ACCEPTED final message must contain (responder). *)
Theorem C19_reject_final : forall h1 h2 dh1pub ch1 x2 ch2 rcert m st,
  process_final h1 h2 dh1pub ch1 x2 ch2 rcert m = Some st ->
  exists ca subj pk y,
    m_class m = Some CLS_FIN /\
    rcert = Cert ca subj pk /\ dh1pub = DhPub y /\
    m_ch1 m = Some ch1 /\ m_ch2 m = Some ch2 /\ m_dh1 m = Some dh1pub /\ m_dh2 m = Some (DhPub x2) /\
    (forall h, m_hc1 m = Some h -> h = h1) /\ (forall h, m_hc2 m = Some h -> h = h2) /\
    m_sig m = Some (Sign pk (content_final h1 ch1 dh1pub ch2 (DhPub x2) h2)) /\
    st = CompletedReceived ch1 ch2 (Z.min x2 y, Z.max x2 y).
Proof. exact final_accept_inv. Qed.
Print Assumptions C19_reject_final.

(* What an ACCEPTED request must contain (responder): foreign-CA certificates and GUIDs not bound
   to the presented certificate are refused. *)
Theorem C19_reject_request : forall fl ag m ag' rep,
  begin_handshake_reply fl ag m = (ag', POkPending rep) ->
  exists subj pk r,
    a_st ag = PendingRequestMessage /\ m_class m = Some CLS_REQ /\
    m_cid m = Some (Cert (a_ca ag) subj pk) /\ m_cpdata m = Some (PData subj r) /\
    (fl_guid fl = true -> (subj, r) = a_rguid ag).
Proof. exact request_accept_inv. Qed.
Print Assumptions C19_reject_request.

(* Dolev-Yao: a signature under an honest key (a certificate under the honest CA key) inside a
   term the attacker built from his observations K stems from K. *)
Theorem C19_sign_origin : forall (honest_key : Z -> Prop) (K : term -> Prop) k m,
  honest_key k -> synth honest_key K (Sign k m) -> exists u, K u /\ subterm (Sign k m) u.
Proof. exact sign_origin. Qed.
Print Assumptions C19_sign_origin.

(* Hence: an attacker-built reply is accepted only if the attacker has SEEN a CA-issued
   certificate bound to the GUID and (certified key honest) a signature by its owner over exactly
   this handshake's fresh values: forged, altered and replayed replies are rejected. *)
Theorem C19_reject_unforgeable_reply : forall (honest_key : Z -> Prop) (K : term -> Prop) fl ag x1 ch1 h1 m st c fin,
  honest_key (a_ca ag) ->
  (forall f t, getf f m = Some t -> synth honest_key K t) ->
  process_reply fl ag x1 ch1 h1 m = Some (st, c, fin) ->
  exists subj pk r cperm dsign kagree rch2 rdh2 rdh1,
    m_cid m = Some (Cert (a_ca ag) subj pk) /\
    (exists u, K u /\ subterm (Cert (a_ca ag) subj pk) u) /\
    m_cpdata m = Some (PData subj r) /\
    (fl_guid fl = true -> (subj, r) = a_rguid ag) /\
    (fl_dh1 fl = true -> rdh1 = DhPub x1) /\
    let sig := Sign pk (content_reply (hash_c (Cert (a_ca ag) subj pk) cperm (PData subj r) dsign kagree)
                                      rch2 rdh2 ch1 rdh1 h1) in
    m_sig m = Some sig /\
    (honest_key pk -> exists u, K u /\ subterm sig u).
Proof. exact reply_needs_owner_signature. Qed.
Print Assumptions C19_reject_unforgeable_reply.

Theorem C19_reject_unforgeable_final : forall (honest_key : Z -> Prop) (K : term -> Prop) h1 h2 dh1pub ch1 x2 ch2 ca subj pk m st,
  honest_key pk ->
  (forall f t, getf f m = Some t -> synth honest_key K t) ->
  process_final h1 h2 dh1pub ch1 x2 ch2 (Cert ca subj pk) m = Some st ->
  let sig := Sign pk (content_final h1 ch1 dh1pub ch2 (DhPub x2) h2) in
  m_sig m = Some sig /\ exists u, K u /\ subterm sig u.
Proof. exact final_needs_owner_signature. Qed.
Print Assumptions C19_reject_unforgeable_final.

(* Script level, ALL scripts of any length (also those of the known-finding class): the run never
   breaks a step condition of the oracle; a step condition admits an authenticating outcome
   (OkFinalMessage / Ok) only for the genuine (content-unaltered), due, untainted message. *)
Theorem C19_reject_scripts : forall s,
  exists os, oracle ostate0 (s ++ completion) (o_res (run (Build_case MRejectOnly 0 0 s))
                                             ++ o_completion (run (Build_case MRejectOnly 0 0 s))) = Some os.
Proof. exact reject_scripts. Qed.
Theorem C19_reject_step : forall os dst src a r os',
  ostep os (Deliver dst src a) r = Some os' ->
  r = ROkFinalMessage \/ r = ROk ->
  genuine_equiv src a = true /\ os_taint os = false /\ due (os_stage os) dst src = true
  /\ r = expected src.
Proof. exact ostep_auth. Qed.
Print Assumptions C19_reject_scripts.
Print Assumptions C19_reject_step.

(* A rejected message leaves the plugin exactly as it was (repaired code; every state, every
   message). *)
Theorem C19_rejected_keeps_state : forall fl ag m,
  fl_restore fl = true ->
  (snd (process_handshake fl ag m) = PErr -> fst (process_handshake fl ag m) = ag) /\
  (snd (begin_handshake_reply fl ag m) = PErr -> fst (begin_handshake_reply fl ag m) = ag).
Proof. intros fl ag m H; split; [apply process_err_keeps; exact H | apply begin_reply_err_keeps]. Qed.
Print Assumptions C19_rejected_keeps_state.

(* After ANY script outside the known-finding class — any number of altered, forged, replayed or
   out-of-order deliveries, to either side, at any point of the genuine handshake — (re)delivering
   the genuine messages completes the handshake with equal secrets. *)
Theorem C19_no_block : forall s, known_class s = false ->
  let w1 := fst (exec flags_new world0 s) in
  let w2 := fst (exec flags_new w1 completion) in
  state_class (a_st (w_a w2)) = 4 /\ state_class (a_st (w_b w2)) = 5 /\ secrets w2 = SecEqual.
Proof. exact no_block. Qed.
Print Assumptions C19_no_block.

Theorem C19_model_ok : forall c,
  (c_mode c = MRejectOnly \/ known_class (c_script c) = false) -> ok c (run c) = true.
Proof. exact run_ok. Qed.
Print Assumptions C19_model_ok.

Theorem C19_oracle_sound : forall c o,
  ok c o = true <->
  exists os,
    trace_ok ostate0 (c_script c ++ completion) (o_res o ++ o_completion o) os /\
    length (o_res o) = length (c_script c) /\
    final_consistent os o = true /\
    (c_mode c = MFull -> os_stage os = 3).
Proof. exact ok_spec. Qed.
Print Assumptions C19_oracle_sound.

(* the code as written: each repair is necessary (witnesses replayed on the real plugins) *)
Theorem C19_no_block_old_refuted :
  known_class (c_script witness_F10) = false /\ ok witness_F10 (run_old witness_F10) = false
  /\ o_completion (run_old witness_F10) = [RErr; RErr; RNoMsg] /\ o_sta (run_old witness_F10) = 0.
Proof. exact no_block_old_refuted. Qed.
Theorem C19_reject_old_refuted_dh1 :
  ok witness_F11 (run_with (Build_flags true false true) witness_F11) = false
  /\ o_res (run_with (Build_flags true false true) witness_F11) = [ROkPending; ROkFinalMessage].
Proof. exact reject_old_refuted_dh1. Qed.
Theorem C19_reject_old_refuted_guid :
  known_class (c_script witness_F12) = false
  /\ ok witness_F12 (run_with (Build_flags true true false) witness_F12) = false
  /\ o_res (run_with (Build_flags true true false) witness_F12) = [ROkPending; ROkFinalMessage].
Proof. exact reject_old_refuted_guid. Qed.
(* the known finding: an undetectably altered request commits the responder for good *)
Theorem C19_known_class_blocks :
  known_class (c_script witness_known) = true /\ ok witness_known (run witness_known) = false
  /\ o_completion (run witness_known) = [RErr; RErr; RNoMsg].
Proof. exact known_class_blocks. Qed.
Print Assumptions C19_no_block_old_refuted.
Print Assumptions C19_reject_old_refuted_dh1.
Print Assumptions C19_reject_old_refuted_guid.
Print Assumptions C19_known_class_blocks.

(* non-vacuity *)
Example honest_script_runs :
  run (Build_case MFull 1 2 []) = Build_obs [] [ROkPending; ROkFinalMessage; ROk] 4 5 SecEqual.
Proof. vm_compute. reflexivity. Qed.
Example hostile_script_outside_known_class :
  let s := [Deliver WA KRep (AFlip FSig); Deliver WB KReq ACertForeign; Deliver WB KReq AGenuine;
            Deliver WA KRep AForgeInsiderFull; Deliver WA KRep (AFresh FCh2); Deliver WB KFin AGenuine] in
  known_class s = false /\
  o_res (run (Build_case MFull 1 2 s)) = [RNoMsg; RErr; ROkPending; RErr; RErr; RNoMsg].
Proof. vm_compute. split; reflexivity. Qed.
Example reply_acceptance_is_satisfiable :
  exists fl ag x1 ch1 h1 m r, process_reply fl ag x1 ch1 h1 m = Some r.
Proof.
  destruct (honest_general flags_new 100 1 1 1 2 2 2 1001 2001)
    as [A1 [req [B1 [rep [A2 [fin [B2 [c1 [c2 [s [H1 [H2 [H3 _]]]]]]]]]]]]].
  unfold process_handshake in H3. inversion H1; subst A1 req; clear H1. cbn [a_st] in H3.
  match type of H3 with context [process_reply ?fl ?ag ?x ?c ?h ?m] =>
    destruct (process_reply fl ag x c h m) as [r|] eqn:E; [exists fl, ag, x, c, h, m, r; exact E | discriminate]
  end.
Qed.
