(* C01 — property theorems only.  Statements are pinned by ./check; proofs are one `exact`.

   Vocabulary (C01/Model.v, C01/Theorems.v).  A case is a list of operations: submessages
   (DATA / DATAFRAG / HEARTBEAT / GAP from any writer, C03's model of the Reader) interleaved with
   DataReader::take(n) calls.  [R c] is the list of observations of the model, [handed_seq (R c)] the
   samples handed to the application in order (writer, sequence number, source timestamp, payload),
   [sns_of w l] the sequence numbers of writer w in such a list, [sub_ops] the submessages of a case. *)
From Coq Require Import List ZArith Bool.
From RD Require Import C03.Model C03.Theorems C01.Model C01.Core C01.Theorems C01.Holes.
Import ListNotations.
Open Scope Z_scope.

(* the model satisfies the order / once / fidelity part of the oracle on every case.  The oracle
   used on the implementation's observations ([ok]) additionally has a no-holes clause computed from
   observables; no-holes is proved for the model below (C01_no_holes) in terms of the model state,
   the step from that theorem to "the model passes the oracle's no-holes clause" is not proved (the
   model agrees with the implementation on every case of every run). *)
Theorem C01_model_ok_partial : forall c, ok_core c (run c) = true.
Proof. exact run_ok_core. Qed.
Print Assumptions C01_model_ok_partial.

(* what a positive verdict of the oracle means (with or without the no-holes clause): per writer the
   handed-over sequence numbers are strictly increasing and above what was handed over before, and
   every handed-over sample has a submessage, seen before or during the run, that delivered it *)
Theorem C01_oracle_sound : forall holes ops l os, ochk holes os ops l = true ->
  (forall w, incr_opt (lh os w) (sns_of w (handed_seq l)))
  /\ (forall x, In x (handed_seq l) ->
        exists o, (In o (os_hist os) \/ In o (sub_ops ops)) /\ delivered_by x o = true).
Proof. exact ochk_sound. Qed.
Print Assumptions C01_oracle_sound.

(* every writer's samples are handed over in strictly increasing sequence-number order, across all
   take calls, whatever the arrival order, loss, duplication and cache evictions *)
Theorem C01_order : forall c w, wf_case c = true -> incr_opt None (sns_of w (handed_seq (R c))).
Proof. exact order. Qed.
Print Assumptions C01_order.

(* no (writer, sequence number) is handed over twice *)
Theorem C01_once : forall c w, wf_case c = true -> NoDup (sns_of w (handed_seq (R c))).
Proof. exact once. Qed.
Print Assumptions C01_once.

(* writer, sequence number, source timestamp and (for DATA) payload bytes of every handed-over sample
   are those of a submessage of the case: the DATA itself, or a DATAFRAG of that sample (whose
   reassembled bytes are C05's theorem) *)
Theorem C01_fidelity : forall c x, wf_case c = true -> In x (handed_seq (R c)) ->
  exists o, In o (sub_ops (c_ops c)) /\ delivered_by x o = true.
Proof. exact fidelity. Qed.
Print Assumptions C01_fidelity.

(* no holes.  [cs] is the state of the composed model after any prefix of the operations; its
   entries are all cache changes the Reader ever added, with their status ([Taken] = handed to the
   application) and whether the topic cache still holds them ([e_in]).  When x has been handed
   over, every lower sequence number m of its writer either was received (has an entry) and then has
   been handed over too — earlier, by C01_order — unless the topic cache evicted it first (the
   property's own premise), or was never received and is known to the C03 history summary of the
   submessages handled so far, i.e. was declared unavailable: below an effective HEARTBEAT's
   first_sn, in a valid GAP's range, or in a GAP bitmap (the summary's point set holds GAP bitmap
   entries and received numbers only). *)
Theorem C01_no_holes : forall c k x m, wf_case c = true ->
  let ops := firstn k (c_ops c) in
  let cs := cfinal (c_max_keep c) (cinit (c_matched c)) ops in
  In x (cs_es cs) -> e_st x = Taken -> m < e_sn x ->
  (exists e, In e (cs_es cs) /\ e_w e = e_w x /\ e_sn e = m /\ (e_in e = true -> e_st e = Taken))
  \/ ((forall e, In e (cs_es cs) -> ~ (e_w e = e_w x /\ e_sn e = m))
      /\ exists s, sfinal (sinit (c_matched c)) (init (c_matched c)) (sub_ops ops) (e_w x) = Some s
                   /\ known s m = true).
Proof. exact no_holes. Qed.
Print Assumptions C01_no_holes.

(* a sample leaves the topic cache towards the application only when it lies below the ack_base of
   its writer's proxy (the frontier C03's theorems are about) *)
Theorem C01_handed_below_base : forall c k e,
  In e (cs_es (cfinal (c_max_keep c) (cinit (c_matched c)) (firstn k (c_ops c)))) -> e_st e <> Cached ->
  exists p, r_prox (cs_r (cfinal (c_max_keep c) (cinit (c_matched c)) (firstn k (c_ops c)))) (e_w e) = Some p
            /\ e_sn e < p_base p.
Proof. exact handed_below_base. Qed.
Print Assumptions C01_handed_below_base.

(* non-vacuity: out-of-order arrival, held back, then handed over in order *)
Example C01_example :
  let c := {| c_matched := [1]; c_max_keep := 64;
              c_ops := [ASub (Data 1 2 None [0;1;0;0]); ATake 10; ASub (Data 1 1 None [0;1;0;0]); ATake 10] |} in
  wf_case c = true /\ sns_of 1 (handed_seq (R c)) = [1; 2].
Proof. exact example_held_back. Qed.
