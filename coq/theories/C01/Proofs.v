(* C01 — invariants of the composed model (reader core + topic cache + read pointers + take) and the
   proof that the model satisfies the order / once / fidelity part of the oracle. *)
From Coq Require Import List ZArith Lia Bool.
From RD Require Import C03.Model C03.Proxy C01.Model.
Import ListNotations.
Open Scope Z_scope.

(* ---------------------------------------------------------------------------------------- *)
(* what one reader step does to the proxies and which cache commands it emits *)
Definition no_add (outs : list out) : Prop :=
  forall x, In x outs -> match x with OAdd _ _ _ _ => False | _ => True end.

Definition known_mono (st st' : rstate) : Prop :=
  (forall w p, r_prox st w = Some p ->
    exists p', r_prox st' w = Some p' /\ p_base p <= p_base p'
               /\ forall m, known_p p m = true -> known_p p' m = true)
  /\ (forall w, r_prox st w = None -> r_prox st' w = None).

Lemma known_mono_refl st : known_mono st st.
Proof. split; [|auto]. intros w p H. exists p. split; [exact H|]. split; [lia|auto]. Qed.

Lemma known_mono_set st w p p' :
  r_prox st w = Some p -> p_base p <= p_base p' ->
  (forall m, known_p p m = true -> known_p p' m = true) -> known_mono st (set_prox st w p').
Proof.
  intros Hp Hb Hk. split.
  - intros k q Hq. cbn [set_prox r_prox]. unfold upd. destruct (Z.eqb_spec k w) as [->|N].
    + rewrite Hp in Hq. inversion Hq; subst. exists p'. auto.
    + exists q. split; [exact Hq|]. split; [lia|auto].
  - intros k Hk0. cbn [set_prox r_prox]. unfold upd. destruct (Z.eqb_spec k w) as [->|N]; [congruence|exact Hk0].
Qed.
Lemma known_mono_asm st w fa : known_mono st (set_asm st w fa).
Proof. split; [|auto]. intros k q Hq. exists q. split; [exact Hq|]. split; [lia|auto]. Qed.
Lemma known_mono_trans a b c : known_mono a b -> known_mono b c -> known_mono a c.
Proof.
  intros [H1 D1] [H2 D2]. split; [|auto]. intros w p Hp.
  destruct (H1 w p Hp) as (p1 & A & B & C). destruct (H2 w p1 A) as (p2 & D & E & G).
  exists p2. split; [exact D|]. split; [lia|auto].
Qed.

(* the shape of process_received_data *)
Lemma prd_shape st w sn ts pay :
  let r := process_received_data st w sn ts pay in
  known_mono st (fst r)
  /\ ((snd r = [] /\ fst r = st)
      \/ exists p, r_prox st w = Some p /\ should_ignore_change p sn = false
           /\ snd r = [OAdd w sn ts pay; OMark w (p_base (received_changes_add p sn))]
           /\ fst r = set_prox st w (received_changes_add p sn)).
Proof.
  unfold process_received_data. destruct (r_prox st w) as [p|] eqn:Ep; cbn [fst snd].
  - destruct (should_ignore_change p sn) eqn:Ei; cbn [fst snd].
    + split; [apply known_mono_refl|now left].
    + split.
      * apply (known_mono_set st w p _ Ep (rca_base p sn)). intros m Hm. rewrite rca_known, Hm. reflexivity.
      * right. exists p. auto.
  - split; [apply known_mono_refl|now left].
Qed.

Definition delivers (o : op) (w sn : Z) (ts : option Z) (pay : list Z) : Prop :=
  o = Data w sn ts pay \/ exists df, o = Frag w df ts /\ F.df_sn df = sn.

Lemma step_shape st o :
  let r := step true st o in
  known_mono st (fst r)
  /\ (no_add (snd r)
      \/ exists w sn ts pay p st1,
           r_prox st1 = r_prox st /\ r_prox st w = Some p /\ should_ignore_change p sn = false
           /\ snd r = [OAdd w sn ts pay; OMark w (p_base (received_changes_add p sn))]
           /\ r_prox (fst r) = r_prox (set_prox st1 w (received_changes_add p sn))
           /\ delivers o w sn ts pay).
Proof.
  destruct o as [w sn ts pay|w df ts|w first last count final|w start base numbits bits]; cbn [step].
  - destruct (negb (sn <=? MAX_SN)); cbn [fst snd].
    + split; [apply known_mono_refl|left; intros x []].
    + destruct (prd_shape st w sn ts pay) as [M [[E1 E2]|(p & A & B & C & D)]].
      * split; [exact M|]. left. rewrite E1. intros x [].
      * split; [exact M|]. right. exists w, sn, ts, pay, p, st. rewrite C, D. repeat split; auto. now left.
  - destruct (negb ((F.df_sn df <=? MAX_SN) && (F.df_start df <=? MAX_FN))); cbn [fst snd];
      [split; [apply known_mono_refl|left; intros x []]|].
    destruct (negb (datafrag_deser_ok df)); cbn [fst snd];
      [split; [apply known_mono_refl|left; intros x []]|].
    destruct (F.new_datafrag _ df 0) as [|[fa' r]]; cbn [fst snd].
    + split; [apply known_mono_refl|]. left. intros x [<-|[]]. exact I.
    + destruct r as [bytes|]; cbn [fst snd].
      * destruct (prd_shape (set_asm st w fa') w (F.df_sn df) ts bytes) as [M [[E1 E2]|(p & A & B & C & D)]].
        -- split; [eapply known_mono_trans; [apply known_mono_asm|exact M]|]. left. rewrite E1. intros x [].
        -- split; [eapply known_mono_trans; [apply known_mono_asm|exact M]|]. right.
           exists w, (F.df_sn df), ts, bytes, p, (set_asm st w fa'). rewrite C, D.
           repeat split; auto. right. exists df. auto.
      * split; [apply known_mono_asm|left; intros x []].
  - destruct (negb ((first <=? MAX_SN) && (last <=? MAX_SN))); cbn [fst snd];
      [split; [apply known_mono_refl|left; intros x []]|].
    destruct (r_prox st w) as [p|] eqn:Ep; cbn [fst snd]; [|split; [apply known_mono_refl|left; intros x []]].
    unfold handle_heartbeat. destruct (count <=? p_hb p); cbn [fst snd];
      [split; [apply known_mono_refl|left; intros x []]|].
    set (p2 := irrelevant_changes_up_to (set_hb p count) first).
    assert (Hb : p_base p <= p_base p2) by (apply (icr_base (set_hb p count))).
    assert (Hk : forall m, known_p p m = true -> known_p p2 m = true).
    { intros m Hm. subst p2. unfold irrelevant_changes_up_to. rewrite icr_known.
      change (known_p (set_hb p count) m) with (known_p p m). now rewrite Hm. }
    destruct (negb _ || negb final).
    + destruct (hb_sns st w p2 _) as [[b n] m]. cbn [fst snd]. split.
      * apply (known_mono_set st w p _ Ep); [exact Hb|exact Hk].
      * left. intros x [<-|Hx]; [exact I|]. apply in_app_or in Hx as [Hx|[<-|[]]]; [|exact I].
        apply in_map_iff in Hx as (r & <- & _). exact I.
    + cbn [fst snd]. split; [apply (known_mono_set st w p _ Ep); assumption|]. left. intros x [<-|[]]. exact I.
  - destruct (negb ((start <=? MAX_SN) && (base <=? MAX_SN))); cbn [fst snd];
      [split; [apply known_mono_refl|left; intros x []]|].
    destruct (r_prox st w) as [p|] eqn:Ep; cbn [fst snd]; [|split; [apply known_mono_refl|left; intros x []]].
    unfold handle_gap. destruct (start <=? 0); cbn [fst snd]; [split; [apply known_mono_refl|left; intros x []]|].
    destruct (base <=? 0); cbn [fst snd]; [split; [apply known_mono_refl|left; intros x []]|].
    split.
    + apply (known_mono_set st w p _ Ep).
      * etransitivity; [apply (icr_base p start base)|apply sic_fold_base].
      * intros m Hm. rewrite sic_fold_known, icr_known, Hm. reflexivity.
    + left. intros x [<-|[]]. exact I.
Qed.

(* ---------------------------------------------------------------------------------------- *)
(* topic cache functions only touch e_in *)
Definition key (e : entry) : Z * Z := (e_w e, e_sn e).
Definition same_but_in (e e' : entry) : Prop := e' = e \/ e' = set_in e false.

Lemma sbi_refl es : Forall2 same_but_in es es.
Proof. induction es as [|e es IH]; [constructor|]. constructor; [now left|exact IH]. Qed.

Lemma evict_spec k : forall es, Forall2 same_but_in es (evict k es).
Proof.
  induction k as [|k IH]; intros es; cbn [evict].
  - destruct es; apply sbi_refl.
  - induction es as [|e es IHes]; [constructor|]. cbn [evict]. destruct (e_in e).
    + constructor; [now right|apply IH].
    + constructor; [now left|exact IHes].
Qed.
Lemma gc_spec mk es : Forall2 same_but_in es (gc mk es).
Proof. apply evict_spec. Qed.

Lemma Forall2_in_r {A B} (R : A -> B -> Prop) l l' y : Forall2 R l l' -> In y l' -> exists x, In x l /\ R x y.
Proof.
  induction 1 as [|a b l l' H H2 IH]; [intros []|]. intros [<-|Hy]; [exists a; split; [now left|exact H]|].
  destruct (IH Hy) as (x & A1 & A2). exists x. split; [now right|exact A2].
Qed.
Lemma Forall2_map_eq {A B C} (R : A -> B -> Prop) (f : A -> C) (g : B -> C) l l' :
  Forall2 R l l' -> (forall a b, R a b -> f a = g b) -> map f l = map g l'.
Proof. induction 1; intros H1; cbn; [reflexivity|]. f_equal; auto. Qed.

(* the entries after add_change: the old ones (possibly evicted) and maybe the new one *)
Lemma add_change_spec mk es w sn ts pay :
  exists es1, Forall2 same_but_in es es1
    /\ (add_change mk es w sn ts pay = es1
        \/ add_change mk es w sn ts pay
           = es1 ++ [{| e_w := w; e_sn := sn; e_ts := ts; e_pay := pay; e_st := Cached; e_in := true |}]).
Proof.
  unfold add_change. set (es1 := if sn mod 64 =? 0 then gc mk es else es).
  exists es1. split.
  - subst es1. destruct (sn mod 64 =? 0); [apply gc_spec|apply sbi_refl].
  - destruct (in_cache es1 w sn); [now left|now right].
Qed.

(* ---------------------------------------------------------------------------------------- *)
(* fill *)
Lemma max_avail_acc cs w es : forall acc,
  match max_avail cs w es acc with
  | None => acc = None /\ forall e, In e es -> e_w e = w -> available cs e = false
  | Some m => (forall a, acc = Some a -> a <= m)
              /\ (forall e, In e es -> e_w e = w -> available cs e = true -> e_sn e <= m)
  end.
Proof.
  induction es as [|e es IH]; intros acc; cbn [max_avail].
  - destruct acc; [split; [intros a H; inversion H; lia|intros e []]|split; [reflexivity|intros e []]].
  - set (acc' := if (e_w e =? w) && available cs e then _ else acc).
    specialize (IH acc'). destruct (max_avail cs w es acc') as [m|].
    + destruct IH as [A B]. split.
      * intros a Ha. subst acc'. destruct ((e_w e =? w) && available cs e).
        -- subst acc. specialize (A _ eq_refl). lia.
        -- apply A. exact Ha.
      * intros x [<-|Hx] Hw Hav; [|now apply B].
        subst acc'. apply Z.eqb_eq in Hw. rewrite Hw, Hav in A. cbn [andb] in A.
        destruct acc; specialize (A _ eq_refl); lia.
    + destruct IH as [A B]. subst acc'.
      destruct ((e_w e =? w) && available cs e) eqn:E; [discriminate|]. split; [exact A|].
      intros x [<-|Hx] Hw; [|now apply B].
      apply andb_false_iff in E as [E|E]; [apply Z.eqb_neq in E; congruence|exact E].
Qed.

Lemma alookup_app {A} k (l1 l2 : list (Z * A)) :
  F.alookup k (l1 ++ l2) = match F.alookup k l1 with Some v => Some v | None => F.alookup k l2 end.
Proof.
  induction l1 as [|[k' v] l1 IH]; [reflexivity|]. cbn [app F.alookup]. destruct (k' =? k); [reflexivity|exact IH].
Qed.

Lemma writers_in es e : In e es -> In (e_w e) (writers es).
Proof.
  induction es as [|x es IH]; [intros []|]. cbn [writers]. intros [<-|H].
  - destruct (memz (e_w x) (writers es)) eqn:E; [now apply memz_true|now left].
  - destruct (memz (e_w x) (writers es)); [auto|right; auto].
Qed.

Lemma max_avail_none_w cs w : forall es acc,
  (forall e, In e es -> e_w e <> w) -> max_avail cs w es acc = acc.
Proof.
  induction es as [|e es IH]; intros acc H; [reflexivity|]. cbn [max_avail].
  destruct (Z.eqb_spec (e_w e) w) as [E|_]; [exfalso; apply (H e (or_introl eq_refl) E)|].
  cbn [andb]. apply IH. intros x Hx. apply H. now right.
Qed.

Definition lr_entry (cs : cstate) (w0 : Z) : list (Z * Z) :=
  match max_avail cs w0 (cs_es cs) None with Some m => [(w0, m)] | None => [] end.

Lemma lr_lookup cs w : forall ws,
  F.alookup w (flat_map (lr_entry cs) ws)
  = if memz w ws then match max_avail cs w (cs_es cs) None with Some m => Some m | None => None end
    else None.
Proof.
  induction ws as [|w0 ws IH]; [reflexivity|]. cbn [flat_map]. rewrite alookup_app, memz_cons.
  destruct (Z.eqb_spec w w0) as [->|N]; cbn [orb].
  - unfold lr_entry at 1. destruct (max_avail cs w0 (cs_es cs) None) as [m|] eqn:E; cbn [F.alookup].
    + now rewrite Z.eqb_refl.
    + rewrite IH. destruct (memz w0 ws); reflexivity.
  - replace (F.alookup w (lr_entry cs w0)) with (@None Z); [exact IH|].
    unfold lr_entry. destruct (max_avail cs w0 (cs_es cs) None); cbn [F.alookup]; [|reflexivity].
    destruct (Z.eqb_spec w0 w); [congruence|reflexivity].
Qed.

Lemma lr_fill_eq cs w :
  lr_of (fill cs) w = match max_avail cs w (cs_es cs) None with Some m => m | None => lr_of cs w end.
Proof.
  unfold lr_of at 1. unfold fill. cbn [cs_lr]. rewrite alookup_app.
  change (fun w0 => match max_avail cs w0 (cs_es cs) None with Some m => [(w0, m)] | None => [] end)
    with (lr_entry cs).
  rewrite lr_lookup. destruct (memz w (writers (cs_es cs))) eqn:Em.
  - destruct (max_avail cs w (cs_es cs) None); reflexivity.
  - rewrite max_avail_none_w; [reflexivity|]. intros e He Hw. apply memz_false in Em. apply Em.
    rewrite <- Hw. now apply writers_in.
Qed.

(* after fill the read pointer is at or above the old one and above every moved sample *)
Lemma lr_fill cs w :
  lr_of cs w <= lr_of (fill cs) w
  /\ forall e, In e (cs_es cs) -> e_w e = w -> available cs e = true -> e_sn e <= lr_of (fill cs) w.
Proof.
  rewrite lr_fill_eq. pose proof (max_avail_acc cs w (cs_es cs) None) as M.
  destruct (max_avail cs w (cs_es cs) None) as [m|] eqn:E.
  - destruct M as [_ B]. split; [|intros e He Hw Hav; now apply B].
    (* m is the sequence number of an available entry, which lies above the old pointer *)
    assert (G : forall es acc, max_avail cs w es acc = Some m ->
              acc = Some m \/ (exists e, In e es /\ e_w e = w /\ available cs e = true /\ e_sn e = m)).
    { induction es as [|e es IH]; intros acc H; cbn [max_avail] in H; [now left|].
      destruct ((e_w e =? w) && available cs e) eqn:Ea.
      - apply andb_true_iff in Ea as [Ew Eav]. apply Z.eqb_eq in Ew.
        destruct (IH _ H) as [Hacc|(x & X1 & X2 & X3 & X4)].
        + inversion Hacc as [Hm]. destruct acc as [a|].
          * destruct (Z.max_spec a (e_sn e)) as [[_ Hmax]|[_ Hmax]]; rewrite Hmax in Hm |- *.
            -- right. exists e. repeat split; auto. now left.
            -- now left.
          * right. exists e. repeat split; auto. now left.
        + right. exists x. repeat split; auto. now right.
      - destruct (IH _ H) as [Hacc|(x & X1 & X2 & X3 & X4)].
        + now left.
        + right. exists x. repeat split; auto. now right. }
    destruct (G _ _ E) as [H|(e & _ & Hw & Hav & Hsn)]; [discriminate|].
    unfold available in Hav. apply andb_true_iff in Hav as [Hav _]. apply andb_true_iff in Hav as [_ Hav].
    apply Z.ltb_lt in Hav. rewrite Hw in Hav. lia.
  - destruct M as [_ B]. split; [lia|]. intros e He Hw Hav. rewrite (B e He Hw) in Hav. discriminate.
Qed.
