(* C01 — towards "no holes": whatever has left the topic cache towards the application lies below
   the writer proxy's ack_base, and everything below ack_base is known to the C03 history summary
   (received into the cache or declared unavailable by GAP / HEARTBEAT). *)
From Coq Require Import List ZArith Lia Bool.
From RD Require Import C03.Model C03.Proxy C03.Oracle C03.Sim C03.Proofs C01.Model C01.Proofs C01.Core C01.Theorems.
Import ListNotations.
Open Scope Z_scope.

(* every reliable marker the Reader writes is the ack_base of the writer's proxy after the step *)
Definition marks_ok (st' : rstate) (outs : list out) : Prop :=
  forall w b, In (OMark w b) outs -> exists p', r_prox st' w = Some p' /\ p_base p' = b.

Lemma prd_marks st w sn ts pay :
  marks_ok (fst (process_received_data st w sn ts pay)) (snd (process_received_data st w sn ts pay)).
Proof.
  destruct (prd_shape st w sn ts pay) as [_ [[E1 E2]|(p & A & B & C & D)]].
  - rewrite E1. intros k b [].
  - rewrite C, D. intros k b [H|[H|[]]]; [discriminate|]. inversion H; subst.
    cbn [set_prox r_prox]. rewrite upd_same. eauto.
Qed.

Lemma step_marks st o : marks_ok (fst (step true st o)) (snd (step true st o)).
Proof.
  destruct o as [w sn ts pay|w df ts|w first last count final|w start base numbits bits]; cbn [step].
  - destruct (negb (sn <=? MAX_SN)); cbn [fst snd]; [intros k b []|apply prd_marks].
  - destruct (negb ((F.df_sn df <=? MAX_SN) && (F.df_start df <=? MAX_FN))); cbn [fst snd]; [intros k b []|].
    destruct (negb (datafrag_deser_ok df)); cbn [fst snd]; [intros k b []|].
    destruct (F.new_datafrag _ df 0) as [|[fa' r]]; cbn [fst snd].
    + intros k b [H|[]]. discriminate.
    + destruct r as [bytes|]; cbn [fst snd]; [apply prd_marks|intros k b []].
  - destruct (negb ((first <=? MAX_SN) && (last <=? MAX_SN))); cbn [fst snd]; [intros k b []|].
    destruct (r_prox st w) as [p|] eqn:Ep; cbn [fst snd]; [|intros k b []].
    unfold handle_heartbeat. destruct (count <=? p_hb p); cbn [fst snd]; [intros k b []|].
    set (p2 := irrelevant_changes_up_to (set_hb p count) first).
    destruct (negb _ || negb final).
    + destruct (hb_sns st w p2 _) as [[b0 n] m]. cbn [fst snd].
      intros k b [H|H].
      * inversion H; subst. cbn [set_prox r_prox]. rewrite upd_same. eexists. split; [reflexivity|reflexivity].
      * exfalso. apply in_app_or in H as [H|[H|[]]]; [|discriminate].
        apply in_map_iff in H as (r & Hr & _). discriminate.
    + cbn [fst snd]. intros k b [H|[]]. inversion H; subst. cbn [set_prox r_prox]. rewrite upd_same. eauto.
  - destruct (negb ((start <=? MAX_SN) && (base <=? MAX_SN))); cbn [fst snd]; [intros k b []|].
    destruct (r_prox st w) as [p|] eqn:Ep; cbn [fst snd]; [|intros k b []].
    unfold handle_gap. destruct (start <=? 0); cbn [fst snd]; [intros k b []|].
    destruct (base <=? 0); cbn [fst snd]; [intros k b []|].
    intros k b [H|[]]. inversion H; subst. cbn [set_prox r_prox]. rewrite upd_same. eauto.
Qed.

(* markers after folding the cache commands of one step *)
Lemma fold_rb mk outs : forall cs w,
  rb_of (fold_left (apply_out mk) outs cs) w = rb_of cs w
  \/ exists b, In (OMark w b) outs /\ rb_of (fold_left (apply_out mk) outs cs) w = b.
Proof.
  induction outs as [|x outs IH]; intros cs w; cbn [fold_left]; [now left|].
  destruct (IH (apply_out mk cs x) w) as [E|(b & Hb & E)].
  - destruct x as [r|w0 sn ts pay|w0 b0|]; try (left; rewrite E; reflexivity).
    destruct (Z.eqb_spec w w0) as [->|N].
    + right. exists b0. split; [now left|]. rewrite E. unfold rb_of. cbn [apply_out cs_mark]. unfold upd_z.
      now rewrite Z.eqb_refl.
    + left. rewrite E. unfold rb_of. cbn [apply_out cs_mark]. unfold upd_z.
      destruct (Z.eqb_spec w w0); [congruence|reflexivity].
  - right. exists b. split; [now right|exact E].
Qed.
Lemma fold_r mk outs : forall cs, cs_r (fold_left (apply_out mk) outs cs) = cs_r cs.
Proof.
  induction outs as [|x outs IH]; intros cs; cbn [fold_left]; [reflexivity|]. rewrite IH.
  destruct x; reflexivity.
Qed.
Lemma fold_es_st mk outs : forall cs e', In e' (cs_es (fold_left (apply_out mk) outs cs)) ->
  (exists e, In e (cs_es cs) /\ same_but_in e e') \/ e_st e' = Cached.
Proof.
  induction outs as [|x outs IH]; intros cs e' H; cbn [fold_left] in H.
  - left. exists e'. split; [exact H|now left].
  - destruct (IH _ _ H) as [(e & He & Hs)|Hc]; [|now right].
    destruct x as [r|w0 sn ts pay|w0 b0|]; cbn [apply_out cs_es] in He; try (left; eauto; fail).
    destruct (add_change_spec mk (cs_es cs) w0 sn ts pay) as (es1 & Hf2 & Hadd).
    assert (Hcase : (exists e0, In e0 (cs_es cs) /\ same_but_in e0 e) \/ e_st e = Cached).
    { destruct Hadd as [Ha|Ha]; rewrite Ha in He.
      - left. apply (Forall2_in_r _ _ _ _ Hf2 He).
      - apply in_app_or in He as [He|[<-|[]]]; [left; apply (Forall2_in_r _ _ _ _ Hf2 He)|now right]. }
    destruct Hcase as [(e0 & He0 & Hs0)|Hc].
    + left. exists e0. split; [exact He0|]. destruct Hs0 as [->| ->], Hs as [->| ->]; [now left|now right|now right|now right].
    + right. destruct Hs as [->| ->]; exact Hc.
Qed.

Record HInv (cs : cstate) : Prop := {
  hi_rb : forall w, match r_prox (cs_r cs) w with
                    | Some p => 1 <= p_base p /\ rb_of cs w <= p_base p
                    | None => rb_of cs w = 1
                    end;
  hi_nc : forall e, In e (cs_es cs) -> e_st e <> Cached ->
            e_sn e < rb_of cs (e_w e) /\ exists p, r_prox (cs_r cs) (e_w e) = Some p;
  hi_lr : forall w, 0 <= lr_of cs w }.

Lemma HInv_init matched : HInv (cinit matched).
Proof.
  constructor.
  - intros w. cbn. destruct (memz w matched); cbn; [lia|reflexivity].
  - intros e [].
  - intros w. cbn. lia.
Qed.

Lemma fold_lr mk outs : forall cs, cs_lr (fold_left (apply_out mk) outs cs) = cs_lr cs.
Proof.
  induction outs as [|x outs IH]; intros cs; cbn [fold_left]; [reflexivity|]. rewrite IH.
  destruct x; reflexivity.
Qed.

Lemma HInv_step mk cs a : HInv cs -> HInv (fst (cstep mk cs a)).
Proof.
  intros [Hrb Hnc Hlr]. destruct a as [o|n]; cbn [cstep fst].
  - destruct (step_shape (cs_r cs) o) as [[Hmono Hdom] _]. pose proof (step_marks (cs_r cs) o) as Hmarks.
    set (r := step true (cs_r cs) o) in *.
    set (cs0 := {| cs_r := fst r; cs_es := cs_es cs; cs_mark := cs_mark cs; cs_lr := cs_lr cs; cs_evicted := cs_evicted cs |}).
    set (cs1 := fold_left (apply_out mk) (snd r) cs0).
    assert (Er : cs_r cs1 = fst r) by apply fold_r.
    assert (Hrb1 : forall w, match r_prox (fst r) w with
                             | Some p => 1 <= p_base p /\ rb_of cs1 w <= p_base p
                             | None => rb_of cs1 w = 1 end
                   /\ rb_of cs w <= rb_of cs1 w).
    { intros w. specialize (Hrb w). destruct (fold_rb mk (snd r) cs0 w) as [E|(b & Hb & E)]; fold cs1 in E.
      - change (rb_of cs0 w) with (rb_of cs w) in E. rewrite E. split; [|lia].
        destruct (r_prox (cs_r cs) w) as [p|] eqn:Ep.
        + destruct (Hmono _ _ Ep) as (p' & A & B & _). rewrite A. lia.
        + rewrite (Hdom _ Ep). exact Hrb.
      - destruct (Hmarks _ _ Hb) as (p' & A & B). rewrite A, E.
        destruct (r_prox (cs_r cs) w) as [p|] eqn:Ep.
        + destruct (Hmono _ _ Ep) as (p2 & A2 & B2 & _). rewrite A in A2. inversion A2; subst p2. lia.
        + rewrite (Hdom _ Ep) in A. discriminate. }
    constructor.
    + intros w. rewrite Er. apply Hrb1.
    + intros e' He' Hst. destruct (fold_es_st mk (snd r) cs0 e' He') as [(e & He & Hs)|Hc]; [|congruence].
      destruct (sbi_fields _ _ Hs) as (F1 & F2 & F3 & _). rewrite F1, F2. cbn [cs_es cs0] in He.
      destruct (Hnc e He ltac:(congruence)) as [A (p & Hp)]. split.
      * destruct (Hrb1 (e_w e)) as [_ Hle]. lia.
      * rewrite Er. destruct (Hmono _ _ Hp) as (p' & A' & _). eauto.
    + intros w. unfold lr_of. unfold cs1. rewrite fold_lr. apply Hlr.
  - set (cs1 := fill cs). constructor; cbn [cs_r cs_es cs_mark].
    + intros w. specialize (Hrb w). cbn [fill cs1 cs_r]. unfold rb_of in *. cbn [cs_mark fill cs1]. exact Hrb.
    + intros e' He' Hst.
      (* an entry of take_n's result has the key and a non-Cached status of an entry of the filled list *)
      assert (Hsrc : exists e, In e (cs_es cs1) /\ e_w e' = e_w e /\ e_sn e' = e_sn e /\ e_st e <> Cached).
      { clear - He' Hst. revert He'. generalize (cs_es cs1). induction (Z.to_nat n) as [|k IH]; intros es He'; cbn [take_n snd] in He'.
        - exists e'. auto.
        - destruct (take_one es) as [[x es']|] eqn:Et; cbn [snd] in He'; [|exists e'; auto].
          destruct (IH _ He') as (e & He & F1 & F2 & F3).
          apply take_one_spec in Et as (Hfx & _ & Hrep). destruct (replaced_in _ _ _ Hrep) as (Hxin & Hin' & _).
          destruct (Hin' _ He) as [->|He0].
          + exists x. repeat split; auto. apply is_filled_st in Hfx. congruence.
          + exists e. auto. }
      destruct Hsrc as (e1 & He1 & F1 & F2 & F3). rewrite F1, F2.
      change (rb_of _ (e_w e1)) with (rb_of cs (e_w e1)).
      unfold cs1, fill in He1. cbn [cs_es] in He1. apply in_map_iff in He1 as (e & Ee & He).
      destruct (available cs e) eqn:Ea.
      * subst e1. cbn [set_st e_w e_sn]. unfold available in Ea.
        apply andb_true_iff in Ea as [Ea Eb]. apply andb_true_iff in Ea as [_ Ea].
        apply Z.ltb_lt in Ea, Eb. split; [lia|].
        (* the writer has a proxy: its marker is above 1 *)
        change (exists p, r_prox (cs_r cs) (e_w e) = Some p).
        specialize (Hrb (e_w e)). destruct (r_prox (cs_r cs) (e_w e)) as [p|]; [eauto|]. exfalso.
        rewrite Hrb in Eb. specialize (Hlr (e_w e)). lia.
      * subst e1. apply (Hnc e He F3).
    + intros w. change (lr_of _ w) with (lr_of (fill cs) w). destruct (lr_fill cs w) as [L _]. specialize (Hlr w). lia.
Qed.

Lemma HInv_run mk ops : forall cs, HInv cs -> HInv (cfinal mk cs ops).
Proof. induction ops as [|a ops IH]; intros cs H; cbn [cfinal]; [exact H|]. apply IH, HInv_step, H. Qed.

(* whatever has left the topic cache towards the application is below its writer's ack_base *)
Theorem handed_below_base c k e :
  In e (cs_es (cfinal (c_max_keep c) (cinit (c_matched c)) (firstn k (c_ops c)))) -> e_st e <> Cached ->
  exists p, r_prox (cs_r (cfinal (c_max_keep c) (cinit (c_matched c)) (firstn k (c_ops c)))) (e_w e) = Some p
            /\ e_sn e < p_base p.
Proof.
  intros He Hst. pose proof (HInv_run (c_max_keep c) (firstn k (c_ops c)) _ (HInv_init (c_matched c))) as [Hrb Hnc _].
  destruct (Hnc e He Hst) as [A (p & Hp)]. exists p. split; [exact Hp|]. specialize (Hrb (e_w e)). rewrite Hp in Hrb. lia.
Qed.

(* ---------------------------------------------------------------------------------------- *)
(* the Reader inside the composed model is the C03 Reader run on the submessages; its proxies stay
   related to the C03 history summaries *)
Fixpoint rfinal (st : rstate) (ops : list op) : rstate :=
  match ops with [] => st | o :: ops' => rfinal (fst (step true st o)) ops' end.
Fixpoint sfinal (S : sstate) (st : rstate) (ops : list op) : sstate :=
  match ops with
  | [] => S
  | o :: ops' =>
      let r := step true st o in
      match step_ok S o (mk_sobs (fst r) o (snd r)) with
      | Some S' => sfinal S' (fst r) ops'
      | None => S
      end
  end.

Lemma inv_run ops : forall st S, forallb op_okb ops = true -> Inv st S -> Inv (rfinal st ops) (sfinal S st ops).
Proof.
  induction ops as [|o ops IH]; intros st S Hok HI; [exact HI|].
  cbn [forallb] in Hok. apply andb_true_iff in Hok as [H1 H2]. cbn [rfinal sfinal].
  destruct (step_sound st S o H1 HI) as (S' & E & HI'). rewrite E. now apply IH.
Qed.

Lemma cs_r_run mk ops : forall cs, cs_r (cfinal mk cs ops) = rfinal (cs_r cs) (sub_ops ops).
Proof.
  induction ops as [|a ops IH]; intros cs; [reflexivity|]. cbn [cfinal]. rewrite IH.
  destruct a as [o|n]; cbn [cstep fst sub_ops flat_map app rfinal].
  - now rewrite fold_r.
  - reflexivity.
Qed.

Lemma sub_ops_ok ops : forallb aop_okb ops = true -> forallb op_okb (sub_ops ops) = true.
Proof.
  induction ops as [|a ops IH]; [reflexivity|]. cbn [forallb]. intros H. apply andb_true_iff in H as [H1 H2].
  destruct a; cbn [sub_ops flat_map app forallb]; [cbn [aop_okb] in H1; rewrite H1|]; now apply IH.
Qed.
Lemma forallb_firstn {A} (f : A -> bool) k : forall l, forallb f l = true -> forallb f (firstn k l) = true.
Proof.
  induction k as [|k IH]; intros l H; [reflexivity|]. destruct l as [|x l]; [reflexivity|].
  cbn [firstn forallb] in *. apply andb_true_iff in H as [H1 H2]. rewrite H1. now apply IH.
Qed.

(* no holes with respect to reception: when a sample has left the topic cache towards the
   application, every lower sequence number of its writer is known to the history summary of the
   submessages handled so far: its sample was received into the cache, or it was declared unavailable
   by an effective HEARTBEAT (first_sn above it) or a valid GAP (range or bitmap). *)
Theorem no_holes_received c k e : wf_case c = true ->
  let ops := firstn k (c_ops c) in
  In e (cs_es (cfinal (c_max_keep c) (cinit (c_matched c)) ops)) -> e_st e <> Cached ->
  exists s, sfinal (sinit (c_matched c)) (init (c_matched c)) (sub_ops ops) (e_w e) = Some s
            /\ forall m, m < e_sn e -> known s m = true.
Proof.
  intros Hwf ops He Hst. destruct (handed_below_base c k e He Hst) as (p & Hp & Hlt).
  unfold wf_case in Hwf. apply andb_true_iff in Hwf as [_ Hops].
  pose proof (inv_run (sub_ops ops) (init (c_matched c)) (sinit (c_matched c))
                (sub_ops_ok _ (forallb_firstn _ k _ Hops)) (Inv_init (c_matched c))) as (I1 & _).
  fold ops in Hp. rewrite cs_r_run in Hp. cbn [cinit cs_r] in Hp.
  specialize (I1 (e_w e)). rewrite Hp in I1.
  destruct (sfinal (sinit (c_matched c)) (init (c_matched c)) (sub_ops ops) (e_w e)) as [s|]; [|contradiction].
  exists s. split; [reflexivity|]. intros m Hm. destruct I1 as [[_ Hk _ _ _] _].
  (* below ack_base everything is RECORDED by the proxy, hence DECLARED (C03: recorded_sub_known) *)
  apply recorded_sub_known. rewrite <- Hk.
  unfold known_p, should_ignore_change. destruct (Z.ltb_spec m (p_base p)); [reflexivity|lia].
Qed.

(* ---------------------------------------------------------------------------------------- *)
(* no holes with respect to hand-over: as long as the topic cache has not evicted anything, a
   sample is handed over only after every received sample of its writer with a lower sequence
   number *)
Lemma sub_entries mk cs o e' :
  In e' (cs_es (fst (cstep mk cs (ASub o)))) ->
  (exists e, In e (cs_es cs) /\ same_but_in e e')
  \/ (e_st e' = Cached /\ exists p, r_prox (cs_r cs) (e_w e') = Some p /\ p_base p <= e_sn e').
Proof.
  cbn [cstep fst]. destruct (step_shape (cs_r cs) o) as [_ Hshape].
  set (r := step true (cs_r cs) o) in *.
  set (cs0 := {| cs_r := fst r; cs_es := cs_es cs; cs_mark := cs_mark cs; cs_lr := cs_lr cs; cs_evicted := cs_evicted cs |}).
  destruct Hshape as [Hna|(w & sn & ts & pay & p & st1 & E1 & Ep & Ei & Eo & Er & Hd)].
  - destruct (fold_marks mk (snd r) cs0 Hna) as (A & _). rewrite A. intros H. left. exists e'. split; [exact H|now left].
  - rewrite Eo. cbn [fold_left apply_out cs_es cs0]. intros H.
    destruct (add_change_spec mk (cs_es cs) w sn ts pay) as (es1 & Hf2 & Hadd).
    destruct Hadd as [Ha|Ha]; rewrite Ha in H.
    + left. apply (Forall2_in_r _ _ _ _ Hf2 H).
    + apply in_app_or in H as [H|[<-|[]]]; [left; apply (Forall2_in_r _ _ _ _ Hf2 H)|].
      right. cbn [e_st e_w e_sn]. split; [reflexivity|]. exists p. split; [exact Ep|].
      unfold should_ignore_change in Ei. apply orb_false_iff in Ei as [Ei _]. apply Z.ltb_ge in Ei. exact Ei.
Qed.

Record HInv2 (cs : cstate) : Prop := {
  h2_lr_rb : forall w, lr_of cs w < rb_of cs w;
  h2_nc : forall e, In e (cs_es cs) -> e_st e <> Cached -> e_sn e <= lr_of cs (e_w e);
  h2_moved : forall e, In e (cs_es cs) -> e_in e = true -> e_sn e <= lr_of cs (e_w e) -> e_st e <> Cached;
  h2_lower : forall x e, In x (cs_es cs) -> In e (cs_es cs) -> e_st x = Taken -> e_w e = e_w x ->
               e_in e = true -> e_sn e < e_sn x -> e_st e = Taken }.

Lemma HInv2_init matched : HInv2 (cinit matched).
Proof.
  constructor; cbn [cinit cs_es].
  - intros w. cbn. lia.
  - intros e [].
  - intros e [].
  - intros x e [].
Qed.

Lemma sbi_in e e' : same_but_in e e' -> e_in e' = true -> e_in e = true.
Proof. intros [->| ->]; [auto|cbn; discriminate]. Qed.

Lemma take_n_entries n : forall es e', In e' (snd (take_n n es)) ->
  exists e, In e es /\ e_w e' = e_w e /\ e_sn e' = e_sn e /\ e_in e' = e_in e
            /\ (e_st e' = e_st e \/ (e_st e = Filled /\ e_st e' = Taken)).
Proof.
  induction n as [|n IH]; intros es e' H; cbn [take_n snd] in H; [exists e'; repeat split; auto|].
  destruct (take_one es) as [[x es']|] eqn:Et; cbn [snd] in H; [|exists e'; repeat split; auto].
  destruct (IH _ _ H) as (e & He & F1 & F2 & F3 & F4).
  apply take_one_spec in Et as (Hfx & _ & Hrep). destruct (replaced_in _ _ _ Hrep) as (Hxin & Hin' & _).
  destruct (Hin' _ He) as [->|He0].
  - exists x. split; [exact Hxin|]. cbn [set_st e_w e_sn e_in e_st] in *. repeat split; auto.
    right. split; [now apply is_filled_st|]. destruct F4 as [F4|[F4 _]]; [exact F4|discriminate].
  - exists e. repeat split; auto.
Qed.

Lemma HInv2_step mk cs a : HInv cs -> HInv2 cs -> HInv2 (fst (cstep mk cs a)).
Proof.
  intros HH [Hlrrb Hnc Hmv Hlow]. destruct a as [o|n].
  - (* a submessage: read pointers unchanged, markers only grow, one Cached entry may be added *)
    pose proof (HInv_step mk cs (ASub o) HH) as HH'.
    assert (Elr : forall w, lr_of (fst (cstep mk cs (ASub o))) w = lr_of cs w).
    { intros w. cbn [cstep fst]. unfold lr_of. now rewrite fold_lr. }
    assert (Hrbmono : forall w, rb_of cs w <= rb_of (fst (cstep mk cs (ASub o))) w).
    { intros w. cbn [cstep fst].
      set (r := step true (cs_r cs) o).
      set (cs0 := {| cs_r := fst r; cs_es := cs_es cs; cs_mark := cs_mark cs; cs_lr := cs_lr cs; cs_evicted := cs_evicted cs |}).
      destruct (fold_rb mk (snd r) cs0 w) as [E|(b & Hb & E)]; rewrite E; [change (rb_of cs0 w) with (rb_of cs w); lia|].
      destruct (step_marks (cs_r cs) o _ _ Hb) as (p' & A & B).
      destruct (step_shape (cs_r cs) o) as [[Hmono Hdom] _]. fold r in A, Hmono, Hdom.
      destruct HH as [Hrb _ _]. specialize (Hrb w). destruct (r_prox (cs_r cs) w) as [p|] eqn:Ep.
      - destruct (Hmono _ _ Ep) as (p2 & A2 & B2 & _). rewrite A in A2. inversion A2; subst p2. lia.
      - rewrite (Hdom _ Ep) in A. discriminate. }
    assert (Hnew : forall e', In e' (cs_es (fst (cstep mk cs (ASub o)))) ->
              (exists e, In e (cs_es cs) /\ same_but_in e e') \/ (e_st e' = Cached /\ lr_of cs (e_w e') < e_sn e')).
    { intros e' He'. destruct (sub_entries mk cs o e' He') as [H|(Hc & p & Hp & Hle)]; [now left|right].
      split; [exact Hc|]. destruct HH as [Hrb _ _]. specialize (Hrb (e_w e')). rewrite Hp in Hrb.
      specialize (Hlrrb (e_w e')). lia. }
    constructor.
    + intros w. rewrite Elr. specialize (Hlrrb w). specialize (Hrbmono w). lia.
    + intros e' He' Hst. rewrite Elr. destruct (Hnew e' He') as [(e & He & Hs)|[Hc _]]; [|congruence].
      destruct (sbi_fields _ _ Hs) as (F1 & F2 & F3 & _). rewrite F1, F2. apply Hnc; [exact He|congruence].
    + intros e' He' Hin Hle. rewrite Elr in Hle. destruct (Hnew e' He') as [(e & He & Hs)|[_ Hgt]]; [|lia].
      destruct (sbi_fields _ _ Hs) as (F1 & F2 & F3 & _). rewrite F3. rewrite F1, F2 in Hle.
      apply Hmv; [exact He|now apply (sbi_in e e')|exact Hle].
    + intros x' e' Hx' He' Hst Hw Hin Hlt.
      destruct (Hnew x' Hx') as [(x & Hx & Hsx)|[Hc _]]; [|congruence].
      destruct (sbi_fields _ _ Hsx) as (X1 & X2 & X3 & _).
      destruct (Hnew e' He') as [(e & He & Hs)|[_ Hgt]].
      * destruct (sbi_fields _ _ Hs) as (F1 & F2 & F3 & _). rewrite F3.
        apply (Hlow x e Hx He); try congruence. now apply (sbi_in e e').
      * (* a new entry lies above the read pointer, a Taken one at or below it *)
        exfalso. assert (e_sn x <= lr_of cs (e_w x)) by (apply Hnc; [exact Hx|congruence]).
        rewrite Hw, X1 in Hgt. rewrite X2 in Hlt. lia.
  - (* take: fill, then hand over *)
    cbn [cstep fst].
    set (cs1 := fill cs).
    (* after fill *)
    assert (F_lr : forall w, lr_of cs w <= lr_of cs1 w) by (intros w; apply lr_fill).
    assert (F_lrrb : forall w, lr_of cs1 w < rb_of cs w).
    { intros w. unfold cs1. rewrite lr_fill_eq. pose proof (max_avail_acc cs w (cs_es cs) None) as M.
      destruct (max_avail cs w (cs_es cs) None) as [m|] eqn:E; [|apply Hlrrb].
      (* m is the sequence number of an available entry of w *)
      assert (G : forall es acc, max_avail cs w es acc = Some m ->
                acc = Some m \/ (exists e, In e es /\ e_w e = w /\ available cs e = true /\ e_sn e = m)).
      { induction es as [|e es IH]; intros acc H; cbn [max_avail] in H; [now left|].
        destruct ((e_w e =? w) && available cs e) eqn:Ea.
        - apply andb_true_iff in Ea as [Ew Eav]. apply Z.eqb_eq in Ew.
          destruct (IH _ H) as [Hacc|(x & X1 & X2 & X3 & X4)].
          + inversion Hacc as [Hm]. destruct acc as [a|].
            * destruct (Z.max_spec a (e_sn e)) as [[_ Hmax]|[_ Hmax]]; rewrite Hmax in Hm |- *.
              -- right. exists e. repeat split; auto. now left.
              -- now left.
            * right. exists e. repeat split; auto. now left.
          + right. exists x. repeat split; auto. now right.
        - destruct (IH _ H) as [Hacc|(x & X1 & X2 & X3 & X4)]; [now left|].
          right. exists x. repeat split; auto. now right. }
      destruct (G _ _ E) as [H|(e & _ & Hw & Hav & Hsn)]; [discriminate|].
      unfold available in Hav. apply andb_true_iff in Hav as [Hav Hb]. apply andb_true_iff in Hav as [_ Hav].
      apply Z.ltb_lt in Hav, Hb. rewrite Hw in Hav, Hb. lia. }
    set (f := fun e => if available cs e then set_st e Filled else e).
    assert (Hsrc : forall e', In e' (snd (take_n (Z.to_nat n) (cs_es cs1))) ->
              exists e, In e (cs_es cs) /\ e_w e' = e_w e /\ e_sn e' = e_sn e /\ e_in e' = e_in e
                /\ ((available cs e = true /\ e_st e' <> Cached)
                    \/ (available cs e = false /\ (e_st e' = e_st e \/ (e_st e = Filled /\ e_st e' = Taken))))).
    { intros e' H. destruct (take_n_entries _ _ _ H) as (e1 & He1 & F1 & F2 & F3 & F4).
      unfold cs1, fill in He1. cbn [cs_es] in He1. apply in_map_iff in He1 as (e & Ee & He).
      exists e. split; [exact He|]. destruct (available cs e) eqn:Ea; subst e1; cbn [set_st e_w e_sn e_in e_st] in *.
      - repeat split; auto. left. split; [reflexivity|]. destruct F4 as [F4|[_ F4]]; congruence.
      - repeat split; auto. }
    constructor; cbn [cs_es cs_lr cs_mark cs_r].
    + intros w. change (lr_of _ w) with (lr_of cs1 w). change (rb_of _ w) with (rb_of cs w). apply F_lrrb.
    + intros e' He' Hst. change (lr_of _ (e_w e')) with (lr_of cs1 (e_w e')).
      destruct (Hsrc e' He') as (e & He & F1 & F2 & F3 & [[Ha _]|[Ha Hs]]); rewrite F1, F2.
      * destruct (lr_fill cs (e_w e)) as [_ L2]. now apply L2.
      * specialize (F_lr (e_w e)). assert (e_st e <> Cached) by (destruct Hs as [Hs|[Hs _]]; congruence).
        specialize (Hnc e He H). lia.
    + intros e' He' Hin Hle. change (lr_of _ (e_w e')) with (lr_of cs1 (e_w e')) in Hle.
      destruct (Hsrc e' He') as (e & He & F1 & F2 & F3 & [[_ Hs]|[Ha Hs]]); [exact Hs|].
      rewrite F1, F2 in Hle. rewrite F3 in Hin.
      (* not available although in the cache and at or below the new pointer: it was below the old one *)
      assert (Hold : e_sn e <= lr_of cs (e_w e)).
      { destruct (Z.le_gt_cases (e_sn e) (lr_of cs (e_w e))) as [|Hgt]; [assumption|exfalso].
        unfold available in Ha. rewrite Hin in Ha. cbn [andb] in Ha.
        apply andb_false_iff in Ha as [Ha|Ha]; [apply Z.ltb_ge in Ha; lia|].
        apply Z.ltb_ge in Ha. specialize (F_lrrb (e_w e)). lia. }
      specialize (Hmv e He Hin Hold). destruct Hs as [Hs|[_ Hs]]; congruence.
    + (* everything received below a handed-over sample of the same writer has been handed over *)
      intros x' e' Hx' He' Hst Hw Hin Hlt.
      (* work on the list after fill and induct over the extractions *)
      clear Hsrc. revert x' e' Hx' He' Hst Hw Hin Hlt.
      assert (Hf_lower : forall x e, In x (cs_es cs1) -> In e (cs_es cs1) -> e_st x = Taken -> e_w e = e_w x ->
                e_in e = true -> e_sn e < e_sn x -> e_st e = Taken).
      { intros x1 e1 Hx1 He1 Hst Hw Hin Hlt. unfold cs1, fill in Hx1, He1. cbn [cs_es] in Hx1, He1.
        apply in_map_iff in Hx1 as (x & Ex & Hx). apply in_map_iff in He1 as (e & Ee & He).
        destruct (available cs x) eqn:Eax; subst x1; [discriminate|].
        destruct (available cs e) eqn:Eae; subst e1; cbn [set_st e_w e_sn e_in e_st] in *.
        - exfalso. assert (e_sn x <= lr_of cs (e_w x)) by (apply Hnc; [exact Hx|congruence]).
          unfold available in Eae. apply andb_true_iff in Eae as [Eae _]. apply andb_true_iff in Eae as [_ Eae].
          apply Z.ltb_lt in Eae. rewrite Hw in Eae. lia.
        - now apply (Hlow x e). }
      assert (Hf_nc : forall e, In e (cs_es cs1) -> e_st e <> Cached -> e_sn e <= lr_of cs1 (e_w e)).
      { intros e1 He1 Hst. unfold cs1 at 1, fill in He1. cbn [cs_es] in He1. apply in_map_iff in He1 as (e & Ee & He).
        destruct (lr_fill cs (e_w e)) as [L1 L2]. destruct (available cs e) eqn:Ea; subst e1; cbn [set_st e_w e_sn] in *.
        - now apply L2.
        - specialize (Hnc e He Hst). fold cs1 in L1. lia. }
      assert (Hf_mv : forall e, In e (cs_es cs1) -> e_in e = true -> e_sn e <= lr_of cs1 (e_w e) -> e_st e <> Cached).
      { intros e1 He1 Hin Hle. unfold cs1 at 1, fill in He1. cbn [cs_es] in He1. apply in_map_iff in He1 as (e & Ee & He).
        destruct (available cs e) eqn:Ea; subst e1; cbn [set_st e_w e_sn e_in e_st] in *; [discriminate|].
        assert (Hold : e_sn e <= lr_of cs (e_w e)).
        { destruct (Z.le_gt_cases (e_sn e) (lr_of cs (e_w e))) as [|Hgt]; [assumption|exfalso].
          unfold available in Ea. rewrite Hin in Ea. cbn [andb] in Ea.
          apply andb_false_iff in Ea as [Ea|Ea]; [apply Z.ltb_ge in Ea; lia|].
          apply Z.ltb_ge in Ea. specialize (F_lrrb (e_w e)). lia. }
        now apply Hmv. }
      generalize dependent (cs_es cs1). induction (Z.to_nat n) as [|k IH]; intros es Hf_lower Hf_nc Hf_mv x' e' Hx' He' Hst Hw Hin Hlt;
        cbn [take_n snd] in Hx', He'; [now apply (Hf_lower x' e')|].
      destruct (take_one es) as [[x0 es']|] eqn:Et; cbn [snd] in Hx', He'; [|now apply (Hf_lower x' e')].
      apply take_one_spec in Et as (Hfx & Hmin & Hrep). destruct (replaced_in _ _ _ Hrep) as (Hxin & Hin' & _ & Hback).
      assert (Hx0lr : e_sn x0 <= lr_of cs1 (e_w x0)).
      { apply Hf_nc; [exact Hxin|]. apply is_filled_st in Hfx. congruence. }
      refine (IH es' _ _ _ x' e' Hx' He' Hst Hw Hin Hlt).
      * (* lower *)
        intros x e Hx He Hstx Hwe Hine Hlte.
        destruct (Hin' _ Hx) as [->|Hx0]; destruct (Hin' _ He) as [->|He0]; cbn [set_st e_w e_sn e_in e_st] in *; try reflexivity.
        -- (* x is the sample just handed over, e an old entry below it *)
           assert (Hnc0 : e_st e <> Cached) by (apply Hf_mv; [exact He0|exact Hine|rewrite Hwe; lia]).
           destruct (e_st e) eqn:Es; [congruence| |reflexivity].
           exfalso. assert (e_sn x0 <= e_sn e) by (apply Hmin; [exact He0|now apply is_filled_st]). lia.
        -- now apply (Hf_lower x e).
      * intros e Hen Hste. destruct (Hin' _ Hen) as [->|He0]; [exact Hx0lr|now apply Hf_nc].
      * intros e Hen Hine Hle. destruct (Hin' _ Hen) as [->|He0]; [cbn; discriminate|now apply Hf_mv].
Qed.

Lemma HInv_both_run mk ops : forall cs, HInv cs -> HInv2 cs -> HInv2 (cfinal mk cs ops).
Proof.
  induction ops as [|a ops IH]; intros cs H H2; cbn [cfinal]; [exact H2|].
  apply IH; [now apply HInv_step|now apply HInv2_step].
Qed.

Theorem no_holes_handed c k x e :
  let cs := cfinal (c_max_keep c) (cinit (c_matched c)) (firstn k (c_ops c)) in
  In x (cs_es cs) -> In e (cs_es cs) -> e_st x = Taken -> e_w e = e_w x -> e_in e = true ->
  e_sn e < e_sn x -> e_st e = Taken.
Proof.
  intros cs. pose proof (HInv_both_run (c_max_keep c) (firstn k (c_ops c)) _ (HInv_init _) (HInv2_init (c_matched c))) as H.
  apply (h2_lower _ H).
Qed.

(* the two halves together: when x has been handed over, every lower sequence number m of its writer
   either was received (has an entry) and then has been handed over too unless the topic cache
   evicted it before, or was never received and is known to the history summary, i.e. was declared
   unavailable (below an effective HEARTBEAT's first_sn, in a valid GAP's range, or in a GAP bitmap:
   the summary's point set holds GAP bitmap entries and received numbers only) *)
Theorem no_holes c k x m : wf_case c = true ->
  let ops := firstn k (c_ops c) in
  let cs := cfinal (c_max_keep c) (cinit (c_matched c)) ops in
  In x (cs_es cs) -> e_st x = Taken -> m < e_sn x ->
  (exists e, In e (cs_es cs) /\ e_w e = e_w x /\ e_sn e = m /\ (e_in e = true -> e_st e = Taken))
  \/ ((forall e, In e (cs_es cs) -> ~ (e_w e = e_w x /\ e_sn e = m))
      /\ exists s, sfinal (sinit (c_matched c)) (init (c_matched c)) (sub_ops ops) (e_w x) = Some s
                   /\ known s m = true).
Proof.
  intros Hwf ops cs Hx Hst Hm.
  destruct (existsb (fun e => (e_w e =? e_w x) && (e_sn e =? m)) (cs_es cs)) eqn:Ex.
  - left. apply existsb_exists in Ex as (e & He & Hk). apply andb_true_iff in Hk as [Hw Hs].
    apply Z.eqb_eq in Hw, Hs. exists e. repeat split; auto. intros Hin.
    apply (no_holes_handed c k x e Hx He Hst Hw Hin). lia.
  - right. split.
    + intros e He [Hw Hs]. assert (existsb (fun e => (e_w e =? e_w x) && (e_sn e =? m)) (cs_es cs) = true); [|congruence].
      apply existsb_exists. exists e. split; [exact He|]. now rewrite Hw, Hs, !Z.eqb_refl.
    + destruct (no_holes_received c k x Hwf Hx ltac:(congruence)) as (s & Hs & Hk). exists s. split; [exact Hs|now apply Hk].
Qed.
