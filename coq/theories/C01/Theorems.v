(* C01 — reading of the oracle as propositions and the property statements for the model. *)
From Coq Require Import List ZArith Lia Bool.
From RD Require Import C03.Model C03.Proxy C03.Theorems C01.Model C01.Proofs C01.Core.
Import ListNotations.
Open Scope Z_scope.

(* the samples handed to the application along a run, in order *)
Definition handed_seq (l : list aobs) : list hsample :=
  flat_map (fun ao => match ao with OTake hs => hs | OSub _ _ _ => [] end) l.
Definition hs_w (h : hsample) : Z := fst (fst (fst h)).
Definition hs_sn (h : hsample) : Z := snd (fst (fst h)).
(* the sequence numbers of writer w in a list of handed-over samples *)
Definition sns_of (w : Z) (hs : list hsample) : list Z :=
  map hs_sn (filter (fun h => hs_w h =? w) hs).

Lemma sns_of_app w a b : sns_of w (a ++ b) = sns_of w a ++ sns_of w b.
Proof. unfold sns_of. now rewrite filter_app, map_app. Qed.

Lemma handed_all_sound holes : forall l os os',
  handed_all holes os l = Some os' ->
  (forall w rest, incr_opt (lh os' w) rest -> incr_opt (lh os w) (sns_of w l ++ rest))
  /\ (forall x, In x l -> existsb (delivered_by x) (os_hist os) = true)
  /\ os_hist os' = os_hist os /\ os_S os' = os_S os /\ os_added os' = os_added os
  /\ os_len os' = os_len os /\ os_evicted os' = os_evicted os.
Proof.
  induction l as [|h l IH]; intros os os' H; cbn [handed_all] in H.
  - inversion H; subst. split; [intros w rest Hr; exact Hr|]. split; [intros x []|]. repeat split.
  - destruct (handed_ok holes os h) eqn:Ok; [|discriminate].
    destruct h as [[[w sn] ts] pay].
    specialize (IH _ _ H). cbn [fst snd] in IH.
    destruct IH as (A & B & C1 & C2 & C3 & C4 & C5). cbn [os_hist os_S os_added os_len os_evicted] in *.
    unfold handed_ok in Ok. apply andb_true_iff in Ok as [Ok _]. apply andb_true_iff in Ok as [O1 O2].
    split; [|split; [|repeat split; assumption]].
    + intros k rest Hr. specialize (A k rest Hr). change (os_hand os w sn) with (os_hand os w sn) in A.
      fold (os_hand os w sn) in A. rewrite lh_hand in A.
      unfold sns_of in *. cbn [filter hs_w fst]. destruct (Z.eqb_spec w k) as [->|N].
      * rewrite Z.eqb_refl in A. cbn [map hs_sn fst snd app incr_opt]. split; [|exact A].
        fold (lh os k) in O1. destruct (lh os k); [now apply Z.ltb_lt|exact I].
      * destruct (Z.eqb_spec k w); [congruence|exact A].
    + intros x [<-|Hx]; [exact O2|now apply B].
Qed.

Definition sub_ops (ops : list aop) : list op :=
  flat_map (fun a => match a with ASub o => [o] | ATake _ => [] end) ops.

Lemma ochk_sound holes : forall ops l os, ochk holes os ops l = true ->
  (forall w, incr_opt (lh os w) (sns_of w (handed_seq l)))
  /\ (forall x, In x (handed_seq l) ->
        exists o, (In o (os_hist os) \/ In o (sub_ops ops)) /\ delivered_by x o = true).
Proof.
  induction ops as [|a ops IH]; intros l os H; destruct l as [|ao l]; try discriminate.
  - split; [intros w; exact I|intros x []].
  - cbn [ochk] in H. destruct (ostep holes os a ao) as [os'|] eqn:E; [|discriminate].
    destruct (IH _ _ H) as [A B]. destruct a as [o|n], ao as [adds marker clen|hs]; cbn [ostep] in E; try discriminate.
    + destruct (adds_okb o adds); [|discriminate]. inversion E; subst os'. clear E.
      cbn [handed_seq flat_map app]. split.
      * intros w. specialize (A w). unfold lh in *. cbn [os_handed] in A. exact A.
      * intros x Hx. destruct (B x Hx) as (o' & [Ho|Ho] & Hd); cbn [os_hist] in Ho.
        -- destruct Ho as [<-|Ho]; [exists o; split; [right; cbn [sub_ops flat_map app]; now left|exact Hd]|].
           exists o'. split; [now left|exact Hd].
        -- exists o'. split; [right; cbn [sub_ops flat_map]; apply in_or_app; now right|exact Hd].
    + destruct (len hs <=? n); [|discriminate]. apply handed_all_sound in E as (C & D & E1 & _).
      cbn [handed_seq flat_map]. split.
      * intros w. rewrite sns_of_app. apply C, A.
      * intros x Hx. apply in_app_or in Hx as [Hx|Hx].
        -- pose proof (D x Hx) as Hd0. apply existsb_exists in Hd0 as (o' & Ho & Hd). exists o'. split; [now left|exact Hd].
        -- destruct (B x Hx) as (o' & [Ho|Ho] & Hd); [rewrite E1 in Ho|]; exists o'; split; auto.
Qed.

Lemma incr_opt_nodup : forall l b, incr_opt b l -> NoDup l /\ forall x, In x l -> match b with Some v => v < x | None => True end.
Proof.
  induction l as [|y l IH]; intros b H; [split; [constructor|intros x []]|].
  cbn [incr_opt] in H. destruct H as [H1 H2]. destruct (IH _ H2) as [N G]. split.
  - constructor; [|exact N]. intros Hy. specialize (G y Hy). cbn in G. lia.
  - intros x [<-|Hx]; [exact H1|]. specialize (G x Hx). cbn in G. destruct b; [lia|exact I].
Qed.

(* ---------------------------------------------------------------------------------------- *)
(* the model *)
Definition R (c : case) : list aobs := crun (c_max_keep c) (cinit (c_matched c)) (c_ops c).

Lemma run_core_chk c : wf_case c = true -> ochk false (oinit (c_matched c)) (c_ops c) (R c) = true.
Proof.
  intros Hwf. pose proof (run_ok_core c) as H. unfold ok_core, ok_with, run in H. now rewrite Hwf in H.
Qed.

Theorem order c w : wf_case c = true -> incr_opt None (sns_of w (handed_seq (R c))).
Proof. intros Hwf. exact (proj1 (ochk_sound false _ _ _ (run_core_chk c Hwf)) w). Qed.

Theorem once c w : wf_case c = true -> NoDup (sns_of w (handed_seq (R c))).
Proof. intros Hwf. exact (proj1 (incr_opt_nodup _ _ (order c w Hwf))). Qed.

Theorem fidelity c x : wf_case c = true -> In x (handed_seq (R c)) ->
  exists o, In o (sub_ops (c_ops c)) /\ delivered_by x o = true.
Proof.
  intros Hwf Hx. destruct (proj2 (ochk_sound false _ _ _ (run_core_chk c Hwf)) x Hx) as (o & [[]|Ho] & Hd).
  exists o. auto.
Qed.

Lemma example_held_back :
  let c := {| c_matched := [1]; c_max_keep := 64;
              c_ops := [ASub (Data 1 2 None [0;1;0;0]); ATake 10; ASub (Data 1 1 None [0;1;0;0]); ATake 10] |} in
  wf_case c = true /\ sns_of 1 (handed_seq (R c)) = [1; 2].
Proof. vm_compute. split; reflexivity. Qed.
