(* C01 — the composed invariant and the order / once / fidelity part of the oracle. *)
From Coq Require Import List ZArith Lia Bool.
From RD Require Import C03.Model C03.Proxy C03.Sim C01.Model C01.Proofs.
Import ListNotations.
Open Scope Z_scope.

(* ---------------------------------------------------------------------------------------- *)
(* take_one *)
Lemma min_filled_spec : forall es acc,
  match min_filled es acc with
  | None => acc = None /\ forall e, In e es -> is_filled e = false
  | Some m => (forall a, acc = Some a -> m <= a)
              /\ (forall e, In e es -> is_filled e = true -> m <= e_sn e)
              /\ (acc = Some m \/ exists e, In e es /\ is_filled e = true /\ e_sn e = m)
  end.
Proof.
  induction es as [|e es IH]; intros acc; cbn [min_filled].
  - destruct acc as [a|]; [|split; [reflexivity|intros e []]].
    split; [intros a' H; inversion H; lia|]. split; [intros e []|now left].
  - set (acc' := if is_filled e then _ else acc). specialize (IH acc').
    destruct (min_filled es acc') as [m|].
    + destruct IH as (A & B & C). subst acc'. destruct (is_filled e) eqn:Ef.
      * split; [|split].
        -- intros a Ha. subst acc. specialize (A _ eq_refl). lia.
        -- intros x [<-|Hx] Hf; [|now apply B]. destruct acc; specialize (A _ eq_refl); lia.
        -- destruct C as [C|(x & X1 & X2 & X3)]; [|right; exists x; repeat split; auto; now right].
           inversion C as [Hm]. destruct acc as [a|].
           ++ destruct (Z.min_spec a (e_sn e)) as [[_ E]|[_ E]]; rewrite E in Hm |- *.
              ** now left.
              ** right. exists e. repeat split; auto. now left.
           ++ right. exists e. repeat split; auto. now left.
      * split; [exact A|]. split.
        -- intros x [<-|Hx] Hf; [congruence|now apply B].
        -- destruct C as [C|(x & X1 & X2 & X3)]; [now left|right; exists x; repeat split; auto; now right].
    + destruct IH as [A B]. subst acc'. destruct (is_filled e) eqn:Ef; [discriminate|].
      split; [exact A|]. intros x [<-|Hx]; [exact Ef|now apply B].
Qed.

(* the list after handing over x: x's status becomes Taken at one position *)
Inductive replaced (x : entry) : list entry -> list entry -> Prop :=
| rep_here es : replaced x (x :: es) (set_st x Taken :: es)
| rep_later e es es' : replaced x es es' -> replaced x (e :: es) (e :: es').

Lemma take_first_spec m : forall es x es',
  take_first m es = Some (x, es') -> is_filled x = true /\ e_sn x = m /\ replaced x es es'.
Proof.
  induction es as [|e es IH]; intros x es' H; cbn [take_first] in H; [discriminate|].
  destruct (is_filled e && (e_sn e =? m)) eqn:E.
  - inversion H; subst. apply andb_true_iff in E as [E1 E2]. apply Z.eqb_eq in E2.
    split; [exact E1|]. split; [exact E2|constructor].
  - destruct (take_first m es) as [[y r]|] eqn:Et; [|discriminate]. inversion H; subst.
    destruct (IH _ _ eq_refl) as (A & B & C). split; [exact A|]. split; [exact B|now constructor].
Qed.
Lemma take_first_some m : forall es, (exists e, In e es /\ is_filled e = true /\ e_sn e = m) ->
  exists x es', take_first m es = Some (x, es').
Proof.
  induction es as [|e es IH]; intros (y & Hy & Hf & Hs); [destruct Hy|]. cbn [take_first].
  destruct (is_filled e && (e_sn e =? m)) eqn:E; [eauto|].
  destruct Hy as [<-|Hy]; [rewrite Hf, Hs, Z.eqb_refl in E; discriminate|].
  destruct (IH (ex_intro _ y (conj Hy (conj Hf Hs)))) as (x & es' & Ex). rewrite Ex. eauto.
Qed.

Lemma replaced_in x es es' : replaced x es es' ->
  In x es /\ (forall e', In e' es' -> e' = set_st x Taken \/ In e' es)
  /\ map key es' = map key es /\ (forall e, In e es -> e = x \/ In e es').
Proof.
  induction 1 as [es|e es es' H (A & B & C & D)].
  - split; [now left|]. split; [intros e' [<-|H]; [now left|right; now right]|].
    split; [reflexivity|]. intros e [<-|H]; [now left|right; now right].
  - split; [now right|]. split; [intros e' [<-|H']; [right; now left|destruct (B _ H'); [now left|right; now right]]|].
    split; [cbn [map]; now rewrite C|]. intros e0 [<-|H0]; [right; now left|destruct (D _ H0); [now left|right; now right]].
Qed.

Lemma take_one_spec es x es' : take_one es = Some (x, es') ->
  is_filled x = true /\ (forall e, In e es -> is_filled e = true -> e_sn x <= e_sn e) /\ replaced x es es'.
Proof.
  unfold take_one. pose proof (min_filled_spec es None) as M.
  destruct (min_filled es None) as [m|]; [|discriminate]. destruct M as (_ & B & _).
  intros H. apply take_first_spec in H as (A1 & A2 & A3). subst m. auto.
Qed.

(* ---------------------------------------------------------------------------------------- *)
(* the invariant linking the model state and the oracle state *)
Definition lh (os : ostate) (w : Z) : option Z := last_handed w (os_handed os).

Record CInv (cs : cstate) (os : ostate) : Prop := {
  ci_known : forall e, In e (cs_es cs) ->
    exists p, r_prox (cs_r cs) (e_w e) = Some p /\ known_p p (e_sn e) = true;
  ci_nodup : NoDup (map key (cs_es cs));
  ci_taken : forall e, In e (cs_es cs) -> e_st e = Taken ->
    exists l, lh os (e_w e) = Some l /\ e_sn e <= l;
  ci_filled : forall e, In e (cs_es cs) -> e_st e = Filled ->
    forall l, lh os (e_w e) = Some l -> l < e_sn e;
  ci_lr : forall e, In e (cs_es cs) -> e_st e <> Cached -> e_sn e <= lr_of cs (e_w e);
  ci_lh_lr : forall w l, lh os w = Some l -> l <= lr_of cs w;
  ci_fid : forall e, In e (cs_es cs) -> existsb (delivered_by (hs_of e)) (os_hist os) = true }.

Lemma CInv_init matched : CInv (cinit matched) (oinit matched).
Proof.
  constructor; cbn [cinit oinit cs_es cs_r cs_lr os_handed os_hist].
  - intros e [].
  - constructor.
  - intros e [].
  - intros e [].
  - intros e [].
  - intros w l H. discriminate.
  - intros e [].
Qed.

Lemma sbi_fields e e' : same_but_in e e' ->
  e_w e' = e_w e /\ e_sn e' = e_sn e /\ e_st e' = e_st e /\ hs_of e' = hs_of e /\ key e' = key e.
Proof. intros [->| ->]; repeat split. Qed.

Lemma NoDup_app_one {A} (l : list A) x : NoDup l -> ~ In x l -> NoDup (l ++ [x]).
Proof.
  induction l as [|y l IH]; intros H Hx; cbn [app]; [constructor; [intros []|constructor]|].
  inversion H; subst. constructor.
  - intros Hin. apply in_app_or in Hin as [Hin|[->|[]]]; [contradiction|]. apply Hx. now left.
  - apply IH; [assumption|]. intros Hin. apply Hx. now right.
Qed.

(* --- a submessage --- *)
Lemma delivered_self o w sn ts pay : delivers o w sn ts pay -> delivered_by (w, sn, ts, pay) o = true.
Proof.
  intros [->|(df & -> & <-)]; cbn [delivered_by]; rewrite !Z.eqb_refl; cbn [andb].
  - assert (Hz : zlist_eqb pay pay = true).
    { unfold zlist_eqb. rewrite Nat.eqb_refl. cbn [andb]. apply forallb_forall. intros [a b] Hab.
      cbn. apply Z.eqb_eq. clear - Hab. induction pay as [|x l IH]; [destruct Hab|].
      cbn [combine] in Hab. destruct Hab as [E|Hab]; [now inversion E|auto]. }
    rewrite Hz. destruct ts; [apply Z.eqb_refl|reflexivity].
  - destruct ts; [apply Z.eqb_refl|reflexivity].
Qed.

Lemma lr_of_irrel cs cs' : cs_lr cs' = cs_lr cs -> forall w, lr_of cs' w = lr_of cs w.
Proof. intros H w. unfold lr_of. now rewrite H. Qed.

Lemma fold_marks mk outs : forall cs, no_add outs ->
  let cs' := fold_left (apply_out mk) outs cs in
  cs_es cs' = cs_es cs /\ cs_lr cs' = cs_lr cs /\ cs_r cs' = cs_r cs.
Proof.
  induction outs as [|x outs IH]; intros cs H; cbn [fold_left]; [auto|].
  assert (Hx := H x (or_introl eq_refl)).
  destruct (IH (apply_out mk cs x)) as (A & B & C). { intros y Hy. apply H. now right. }
  rewrite A, B, C. destruct x; try contradiction; repeat split.
Qed.

Lemma CInv_sub mk cs os o :
  CInv cs os ->
  let r := cstep mk cs (ASub o) in
  exists adds marker clen, snd r = OSub adds marker clen /\ adds_okb o adds = true
    /\ forall S' len' ev', CInv (fst r)
         {| os_S := S'; os_added := adds ++ os_added os; os_handed := os_handed os; os_len := len';
            os_evicted := ev'; os_hist := o :: os_hist os |}.
Proof.
  intros HI. cbn [cstep]. destruct (step_shape (cs_r cs) o) as [Hmono Hshape].
  set (r := step true (cs_r cs) o) in *.
  set (cs0 := {| cs_r := fst r; cs_es := cs_es cs; cs_mark := cs_mark cs; cs_lr := cs_lr cs; cs_evicted := cs_evicted cs |}).
  eexists _, _, _. split; [reflexivity|].
  (* entries of the old list stay known, whatever happens to the proxies *)
  assert (Hk : forall e, In e (cs_es cs) -> exists p, r_prox (fst r) (e_w e) = Some p /\ known_p p (e_sn e) = true).
  { intros e He. destruct (ci_known _ _ HI e He) as (p & A & B). destruct (proj1 Hmono _ _ A) as (p' & A' & _ & C).
    exists p'. split; [exact A'|now apply C]. }
  destruct Hshape as [Hna|(w & sn & ts & pay & p & st1 & E1 & Ep & Ei & Eo & Er & Hd)].
  - (* no cache change *)
    destruct (fold_marks mk (snd r) cs0 Hna) as (A & B & C).
    assert (Ead : adds_of (snd r) = []).
    { clear - Hna. induction (snd r) as [|x l IH]; [reflexivity|]. cbn [adds_of flat_map].
      assert (Hx := Hna x (or_introl eq_refl)). destruct x; try contradiction; cbn [app]; apply IH; intros y Hy; apply Hna; now right. }
    rewrite Ead. split; [reflexivity|]. intros S' len' ev'. cbn [fst app].
    set (cs1 := fold_left (apply_out mk) (snd r) cs0) in *.
    constructor; cbn [os_handed os_hist]; unfold lh; cbn [os_handed].
    + rewrite A, C. exact Hk.
    + rewrite A. apply HI.
    + rewrite A. apply HI.
    + rewrite A. apply HI.
    + rewrite A. intros e He Hs. rewrite (lr_of_irrel cs0 cs1 B). apply (ci_lr _ _ HI e He Hs).
    + intros w l Hl. rewrite (lr_of_irrel cs0 cs1 B). apply (ci_lh_lr _ _ HI w l Hl).
    + rewrite A. intros e He. cbn [existsb]. rewrite (ci_fid _ _ HI e He). apply orb_true_r.
  - (* one cache change *)
    rewrite Eo. cbn [adds_of flat_map app fold_left apply_out].
    split.
    { destruct Hd as [->|(df & -> & <-)]; cbn [adds_okb]; now rewrite !Z.eqb_refl. }
    intros S' len' ev'. cbn [fst cs_es cs_lr cs_r cs_mark cs0].
    destruct (add_change_spec mk (cs_es cs) w sn ts pay) as (es1 & Hf2 & Hadd).
    set (enew := {| e_w := w; e_sn := sn; e_ts := ts; e_pay := pay; e_st := Cached; e_in := true |}) in *.
    assert (Hold : forall e', In e' es1 -> exists e, In e (cs_es cs) /\ same_but_in e e').
    { intros e' He'. apply (Forall2_in_r _ _ _ _ Hf2 He'). }
    assert (Hin : forall e', In e' (add_change mk (cs_es cs) w sn ts pay) ->
                   (exists e, In e (cs_es cs) /\ same_but_in e e') \/ e' = enew).
    { intros e' He'. destruct Hadd as [Ha|Ha]; rewrite Ha in He'; [left; now apply Hold|].
      apply in_app_or in He' as [He'|[<-|[]]]; [left; now apply Hold|now right]. }
    assert (Hknew : exists p', r_prox (fst r) w = Some p' /\ known_p p' sn = true).
    { rewrite Er. cbn [set_prox r_prox]. rewrite upd_same. eexists. split; [reflexivity|].
      rewrite rca_known, Z.eqb_refl. apply orb_true_r. }
    constructor; cbn [cs_es cs_r cs_lr os_handed os_hist]; unfold lh; cbn [os_handed].
    + intros e' He'. destruct (Hin e' He') as [(e & He & Hs)| ->]; [|exact Hknew].
      destruct (sbi_fields _ _ Hs) as (F1 & F2 & _). rewrite F1, F2. now apply Hk.
    + assert (Hkeys : map key es1 = map key (cs_es cs)).
      { symmetry. apply (Forall2_map_eq _ _ _ _ _ Hf2). intros a b Hab. symmetry. apply sbi_fields, Hab. }
      destruct Hadd as [Ha|Ha]; rewrite Ha; [rewrite Hkeys; apply HI|].
      rewrite map_app, Hkeys. cbn [map]. apply NoDup_app_one; [apply HI|].
      (* the new key is not there: the sequence number was unknown *)
      intros Hc. apply in_map_iff in Hc as (e & Hke & He). unfold key in Hke. cbn in Hke. inversion Hke as [[Hw Hs]].
      destruct (ci_known _ _ HI e He) as (q & Q1 & Q2). rewrite Hw, Ep in Q1. inversion Q1; subst q.
      rewrite Hs in Q2. unfold known_p in Q2. congruence.
    + intros e' He' Hst. destruct (Hin e' He') as [(e & He & Hs)| ->]; [|discriminate].
      destruct (sbi_fields _ _ Hs) as (F1 & F2 & F3 & _). rewrite F1, F2. apply (ci_taken _ _ HI e He). congruence.
    + intros e' He' Hst. destruct (Hin e' He') as [(e & He & Hs)| ->]; [|discriminate].
      destruct (sbi_fields _ _ Hs) as (F1 & F2 & F3 & _). rewrite F1, F2. apply (ci_filled _ _ HI e He). congruence.
    + intros e' He' Hst. destruct (Hin e' He') as [(e & He & Hs)| ->]; [|now elim Hst].
      destruct (sbi_fields _ _ Hs) as (F1 & F2 & F3 & _). rewrite F1, F2.
      change (lr_of _ (e_w e)) with (lr_of cs (e_w e)). apply (ci_lr _ _ HI e He). congruence.
    + intros w0 l Hl. change (lr_of _ w0) with (lr_of cs w0). apply (ci_lh_lr _ _ HI w0 l Hl).
    + intros e' He'. cbn [existsb]. destruct (Hin e' He') as [(e & He & Hs)| ->].
      * destruct (sbi_fields _ _ Hs) as (_ & _ & _ & F4 & _). rewrite F4, (ci_fid _ _ HI e He). apply orb_true_r.
      * change (hs_of enew) with (w, sn, ts, pay). now rewrite (delivered_self _ _ _ _ _ Hd).
Qed.

(* --- take --- *)
Definition with_es (cs : cstate) (es : list entry) : cstate :=
  {| cs_r := cs_r cs; cs_es := es; cs_mark := cs_mark cs; cs_lr := cs_lr cs; cs_evicted := cs_evicted cs |}.

Lemma CInv_fill cs os : CInv cs os -> CInv (fill cs) os.
Proof.
  intros HI.
  set (f := fun e => if available cs e then set_st e Filled else e).
  assert (Hin : forall e', In e' (cs_es (fill cs)) -> exists e, In e (cs_es cs) /\ e' = f e).
  { intros e' H. unfold fill in H. cbn [cs_es] in H. apply in_map_iff in H as (e & <- & He). eauto. }
  assert (Hf : forall e, e_w (f e) = e_w e /\ e_sn (f e) = e_sn e /\ hs_of (f e) = hs_of e /\ key (f e) = key e).
  { intros e. unfold f. destruct (available cs e); repeat split. }
  constructor.
  - intros e' H. destruct (Hin _ H) as (e & He & ->). destruct (Hf e) as (F1 & F2 & _). rewrite F1, F2.
    apply (ci_known _ _ HI e He).
  - unfold fill. cbn [cs_es]. rewrite map_map. erewrite map_ext; [apply HI|]. intros e. apply Hf.
  - intros e' H Hst. destruct (Hin _ H) as (e & He & ->). destruct (Hf e) as (F1 & F2 & _). rewrite F1, F2.
    unfold f in Hst. destruct (available cs e); [discriminate|]. now apply (ci_taken _ _ HI e He).
  - intros e' H Hst l Hl. destruct (Hin _ H) as (e & He & ->). destruct (Hf e) as (F1 & F2 & _).
    rewrite F1 in Hl. rewrite F2. unfold f in Hst. destruct (available cs e) eqn:Ea.
    + pose proof (ci_lh_lr _ _ HI _ _ Hl). unfold available in Ea.
      apply andb_true_iff in Ea as [Ea _]. apply andb_true_iff in Ea as [_ Ea]. apply Z.ltb_lt in Ea. lia.
    + now apply (ci_filled _ _ HI e He).
  - intros e' H Hst. destruct (Hin _ H) as (e & He & ->). destruct (Hf e) as (F1 & F2 & _). rewrite F1, F2.
    destruct (lr_fill cs (e_w e)) as [L1 L2]. unfold f in Hst. destruct (available cs e) eqn:Ea.
    + now apply L2.
    + pose proof (ci_lr _ _ HI e He Hst). lia.
  - intros w l Hl. pose proof (ci_lh_lr _ _ HI w l Hl). destruct (lr_fill cs w) as [L1 _]. lia.
  - intros e' H. destruct (Hin _ H) as (e & He & ->). destruct (Hf e) as (_ & _ & F3 & _). rewrite F3.
    apply (ci_fid _ _ HI e He).
Qed.

Lemma key_inj es a b : NoDup (map key es) -> In a es -> In b es -> key a = key b -> a = b.
Proof.
  induction es as [|e es IH]; intros Hn Ha Hb Hk; [destruct Ha|]. cbn [map] in Hn. inversion Hn as [|? ? Hnot Hn']; subst.
  destruct Ha as [<-|Ha], Hb as [<-|Hb]; auto.
  - exfalso. apply Hnot. rewrite Hk. now apply in_map.
  - exfalso. apply Hnot. rewrite <- Hk. now apply in_map.
Qed.

Lemma replaced_gone x es es' : replaced x es es' -> NoDup (map key es) -> is_filled x = true -> ~ In x es'.
Proof.
  induction 1 as [es|e es es' H IH]; intros Hn Hf; cbn [map] in Hn; inversion Hn as [|? ? Hnot Hn']; subst.
  - intros [E|Hin].
    + rewrite <- E in Hf. cbn in Hf. discriminate.
    + apply Hnot. now apply in_map.
  - intros [E|Hin]; [|now apply IH].
    subst e. apply Hnot. apply in_map. apply (replaced_in _ _ _ H).
Qed.

Definition os_hand (os : ostate) (w sn : Z) : ostate :=
  {| os_S := os_S os; os_added := os_added os; os_handed := (w, sn) :: os_handed os;
     os_len := os_len os; os_evicted := os_evicted os; os_hist := os_hist os |}.

Lemma lh_hand os w sn k : lh (os_hand os w sn) k = if k =? w then Some sn else lh os k.
Proof.
  unfold lh, last_handed, os_hand. cbn [os_handed filter fst]. rewrite (Z.eqb_sym w k).
  destruct (k =? w); reflexivity.
Qed.

Lemma is_filled_st e : is_filled e = true <-> e_st e = Filled.
Proof. unfold is_filled. destruct (e_st e); split; congruence. Qed.

Lemma CInv_take_one cs os x es' :
  CInv cs os -> take_one (cs_es cs) = Some (x, es') ->
  handed_ok false os (hs_of x) = true /\ CInv (with_es cs es') (os_hand os (e_w x) (e_sn x)).
Proof.
  intros HI Ht. apply take_one_spec in Ht as (Hfx & Hmin & Hrep).
  destruct (replaced_in _ _ _ Hrep) as (Hxin & Hin' & Hkeys & _).
  assert (Hstx : e_st x = Filled) by now apply is_filled_st.
  split.
  - pose proof (ci_fid _ _ HI x Hxin) as Hfid. unfold hs_of in Hfid.
    unfold handed_ok, hs_of. fold (lh os (e_w x)).
    destruct (lh os (e_w x)) as [l|] eqn:El.
    + rewrite (proj2 (Z.ltb_lt _ _) (ci_filled _ _ HI x Hxin Hstx l El)). cbn [andb negb orb].
      rewrite Hfid. reflexivity.
    + cbn [andb negb orb]. rewrite Hfid. reflexivity.
  - assert (Hxlr : e_sn x <= lr_of cs (e_w x)) by (apply (ci_lr _ _ HI x Hxin); congruence).
    constructor; cbn [with_es cs_es cs_r].
    + intros e' He'. destruct (Hin' _ He') as [->|He]; [apply (ci_known _ _ HI x Hxin)|apply (ci_known _ _ HI e' He)].
    + rewrite Hkeys. apply HI.
    + intros e' He' Hst. rewrite lh_hand. destruct (Hin' _ He') as [->|He].
      * cbn [set_st e_w e_sn]. rewrite Z.eqb_refl. eexists. split; [reflexivity|lia].
      * destruct (ci_taken _ _ HI e' He Hst) as (l & Hl & Hle). destruct (Z.eqb_spec (e_w e') (e_w x)) as [E|N].
        -- eexists. split; [reflexivity|]. rewrite E in Hl. pose proof (ci_filled _ _ HI x Hxin Hstx l Hl). lia.
        -- exists l. auto.
    + intros e' He' Hst l. rewrite lh_hand. destruct (Hin' _ He') as [->|He]; [discriminate|].
      destruct (Z.eqb_spec (e_w e') (e_w x)) as [E|N]; [|now apply (ci_filled _ _ HI e' He)].
      intros Hl. inversion Hl; subst l.
      pose proof (Hmin e' He (proj2 (is_filled_st e') Hst)) as Hle.
      destruct (Z.eq_dec (e_sn e') (e_sn x)) as [Heq|]; [|lia]. exfalso.
      assert (e' = x). { apply (key_inj (cs_es cs)); [apply HI|exact He|exact Hxin|]. unfold key. now rewrite E, Heq. }
      subst e'. apply (replaced_gone _ _ _ Hrep (ci_nodup _ _ HI) Hfx He').
    + intros e' He' Hst. change (lr_of (with_es cs es') (e_w e')) with (lr_of cs (e_w e')).
      destruct (Hin' _ He') as [->|He]; [exact Hxlr|now apply (ci_lr _ _ HI e' He)].
    + intros w l. rewrite lh_hand. change (lr_of (with_es cs es') w) with (lr_of cs w).
      destruct (Z.eqb_spec w (e_w x)) as [->|N]; [intros Hl; inversion Hl; subst; exact Hxlr|apply HI].
    + intros e' He'. destruct (Hin' _ He') as [->|He]; [apply (ci_fid _ _ HI x Hxin)|apply (ci_fid _ _ HI e' He)].
Qed.

Lemma with_es_id cs : with_es cs (cs_es cs) = cs.
Proof. destruct cs; reflexivity. Qed.

Lemma CInv_take_n n : forall cs os, CInv cs os ->
  exists os', handed_all false os (map hs_of (fst (take_n n (cs_es cs)))) = Some os'
    /\ CInv (with_es cs (snd (take_n n (cs_es cs)))) os'
    /\ (length (fst (take_n n (cs_es cs))) <= n)%nat
    /\ os_S os' = os_S os /\ os_added os' = os_added os /\ os_len os' = os_len os
    /\ os_evicted os' = os_evicted os /\ os_hist os' = os_hist os.
Proof.
  induction n as [|n IH]; intros cs os HI; cbn [take_n].
  - exists os. cbn [fst snd map handed_all length]. split; [reflexivity|].
    split; [rewrite with_es_id; exact HI|]. split; [lia|]. repeat split.
  - destruct (take_one (cs_es cs)) as [[x es']|] eqn:Et.
    + destruct (CInv_take_one cs os x es' HI Et) as [Hok HI'].
      destruct (IH (with_es cs es') _ HI') as (os' & A & B & C & D1 & D2 & D3 & D4 & D5).
      cbn [with_es cs_es] in A, B, C. cbn [fst snd map handed_all length]. rewrite Hok.
      exists os'. split; [exact A|]. split; [exact B|]. split; [lia|]. repeat split; assumption.
    + exists os. cbn [fst snd map handed_all length]. split; [reflexivity|].
      split; [rewrite with_es_id; exact HI|]. split; [lia|]. repeat split.
Qed.

(* ---------------------------------------------------------------------------------------- *)
(* the whole run against the oracle without the no-holes clause *)
Lemma ochk_core mk ops : forall cs os, forallb aop_okb ops = true -> CInv cs os ->
  ochk false os ops (crun mk cs ops) = true.
Proof.
  induction ops as [|a ops IH]; intros cs os Hok HI; [reflexivity|].
  cbn [forallb] in Hok. apply andb_true_iff in Hok as [H1 H2]. cbn [crun ochk].
  destruct a as [o|n].
  - destruct (CInv_sub mk cs os o HI) as (adds & marker & clen & E & Ha & HI').
    rewrite E. cbn [ostep]. rewrite Ha. apply IH; [exact H2|apply HI'].
  - cbn [cstep snd fst ostep]. pose proof (CInv_fill cs os HI) as HIf.
    destruct (CInv_take_n (Z.to_nat n) (fill cs) os HIf) as (os' & A & B & C & _).
    cbn [aop_okb] in H1. apply andb_true_iff in H1 as [Hn _]. apply Z.leb_le in Hn.
    replace (len (map hs_of (fst (take_n (Z.to_nat n) (cs_es (fill cs))))) <=? n) with true.
    2:{ symmetry. apply Z.leb_le. unfold len. rewrite map_length. lia. }
    rewrite A. apply IH; [exact H2|exact B].
Qed.

Theorem run_ok_core : forall c, ok_core c (run c) = true.
Proof.
  intros c. unfold ok_core, ok_with, run. destruct (wf_case c) eqn:Hwf; cbn [negb]; [|reflexivity].
  unfold wf_case in Hwf. apply andb_true_iff in Hwf as [_ Hops].
  apply ochk_core; [exact Hops|apply CInv_init].
Qed.
