(* C01 — reliable hand-over: the reader core of C03 (writer proxies, handlers) composed with models of

     TopicCache::{add_change / add_change_internal incl. the garbage collection on every 64th
       sequence number, remove_changes_before(ZERO), mark_reliably_received_before,
       get_changes_in_range_reliable}                                src/structure/dds_cache.rs
     SimpleDataReader::try_take_one_with (reliable branch: read pointers last_read_sn)
                                                                     src/dds/with_key/simpledatareader.rs
     DataReader::take = fill_and_lock_local_datasample_cache + DataSampleCache::
       select_keys_for_access(any) (stable sort by sequence number) + truncate + take_by_keys
                                                                     src/dds/with_key/{datareader,datasample_cache}.rs

   Representation.  Every cache change the Reader ever added is one [entry] of a single list kept in
   receive order (receive timestamps are strictly increasing between submessages — assumption, the
   driver enforces it).  An entry carries where the sample is: still in the topic cache or evicted
   ([e_in]), and whether it is only in the topic cache ([Cached]), has been moved by
   try_take_one into the DataReader's DataSampleCache ([Filled]) or has been handed to the
   application ([Taken]).  The DataSampleCache is a BTreeMap keyed by the same receive timestamps,
   so its iteration order is the order of this list.
   * fill_and_lock_local_datasample_cache calls try_take_one until it returns None.  The topic
     cache is locked per call and nothing else runs in between (single thread), each call yields
     the first change of get_changes_in_range_reliable and moves that writer's read pointer to it;
     the loop therefore moves exactly the changes inside the windows (last_read, reliable_before)
     and leaves each read pointer at the highest sequence number moved.  [fill] states that result.
   * select_keys_for_access + truncate(n) + take_by_keys hands over the n first samples of the
     stable sort by sequence number; [take_n] takes n times the sample with the least sequence
     number, the earliest received among equals — the same list.
   History QoS is KeepAll and there are no resource limits on the DataReader side (no eviction from
   the DataSampleCache); the topic cache keeps at most [max_keep] samples at a garbage collection. *)
From Coq Require Import List ZArith Lia Bool.
From RD Require Import C03.Model.
Import ListNotations.
Open Scope Z_scope.

Inductive status := Cached | Filled | Taken.

Record entry := {
  e_w : Z; e_sn : Z; e_ts : option Z; e_pay : list Z;
  e_st : status;
  e_in : bool }.            (* still in the topic cache *)

Definition set_st (e : entry) (s : status) : entry :=
  {| e_w := e_w e; e_sn := e_sn e; e_ts := e_ts e; e_pay := e_pay e; e_st := s; e_in := e_in e |}.
Definition set_in (e : entry) (b : bool) : entry :=
  {| e_w := e_w e; e_sn := e_sn e; e_ts := e_ts e; e_pay := e_pay e; e_st := e_st e; e_in := b |}.

Record cstate := {
  cs_r : rstate;                 (* the Reader *)
  cs_es : list entry;            (* every cache change added so far, receive order *)
  cs_mark : Z -> option Z;       (* TopicCache::received_reliably_before *)
  cs_lr : list (Z * Z);          (* ReadState::last_read_sn (association list, latest first) *)
  cs_evicted : bool }.           (* ghost: the topic cache has evicted something *)

(* ---------------------------------------------------------------------------------------- *)
(* TopicCache *)
Definition count_in (es : list entry) : Z := len (filter e_in es).

(* remove_changes_before(Timestamp::ZERO): only the "must remove" count applies (no timestamp is
   below ZERO): the oldest (sample_count - max_keep_samples) changes go. *)
Fixpoint evict (k : nat) (es : list entry) : list entry :=
  match k, es with
  | O, _ => es
  | _, [] => []
  | S k', e :: es' => if e_in e then set_in e false :: evict k' es' else e :: evict k es'
  end.
Definition gc (max_keep : Z) (es : list entry) : list entry :=
  evict (Z.to_nat (count_in es - max_keep)) es.

(* find_by_sn *)
Definition in_cache (es : list entry) (w sn : Z) : bool :=
  existsb (fun e => e_in e && (e_w e =? w) && (e_sn e =? sn)) es.

(* add_change_internal *)
Definition add_change (max_keep : Z) (es : list entry) (w sn : Z) (ts : option Z) (pay : list Z)
  : list entry :=
  let es1 := if sn mod 64 =? 0 then gc max_keep es else es in
  if in_cache es1 w sn then es1
  else es1 ++ [{| e_w := w; e_sn := sn; e_ts := ts; e_pay := pay; e_st := Cached; e_in := true |}].

Definition upd_z (f : Z -> option Z) (w v : Z) : Z -> option Z := fun k => if k =? w then Some v else f k.

(* what the Reader does to the topic cache while handling one submessage *)
Definition apply_out (max_keep : Z) (cs : cstate) (o : out) : cstate :=
  match o with
  | OAdd w sn ts pay =>
      let es' := add_change max_keep (cs_es cs) w sn ts pay in
      {| cs_r := cs_r cs; cs_es := es'; cs_mark := cs_mark cs; cs_lr := cs_lr cs;
         cs_evicted := cs_evicted cs || negb (count_in es' =? count_in (cs_es cs) + 1) |}
  | OMark w b =>
      {| cs_r := cs_r cs; cs_es := cs_es cs; cs_mark := upd_z (cs_mark cs) w b; cs_lr := cs_lr cs;
         cs_evicted := cs_evicted cs |}
  | _ => cs
  end.

(* ---------------------------------------------------------------------------------------- *)
(* SimpleDataReader / DataReader *)
Definition lr_of (cs : cstate) (w : Z) : Z := match F.alookup w (cs_lr cs) with Some x => x | None => 0 end.
Definition rb_of (cs : cstate) (w : Z) : Z := match cs_mark cs w with Some x => x | None => 1 end.

(* inside the window of get_changes_in_range_reliable:
   (Excluded(last_read), Excluded(max(reliable_before, last_read.plus_1()))) *)
Definition available (cs : cstate) (e : entry) : bool :=
  e_in e && (lr_of cs (e_w e) <? e_sn e) && (e_sn e <? Z.max (rb_of cs (e_w e)) (lr_of cs (e_w e) + 1)).

Fixpoint max_avail (cs : cstate) (w : Z) (es : list entry) (acc : option Z) : option Z :=
  match es with
  | [] => acc
  | e :: es' =>
      let acc' := if (e_w e =? w) && available cs e
                  then Some (match acc with Some a => Z.max a (e_sn e) | None => e_sn e end)
                  else acc in
      max_avail cs w es' acc'
  end.

(* the writers that have entries, each once *)
Fixpoint writers (es : list entry) : list Z :=
  match es with
  | [] => []
  | e :: es' => let ws := writers es' in if memz (e_w e) ws then ws else e_w e :: ws
  end.

(* fill_and_lock_local_datasample_cache *)
Definition fill (cs : cstate) : cstate :=
  {| cs_r := cs_r cs;
     cs_es := map (fun e => if available cs e then set_st e Filled else e) (cs_es cs);
     cs_mark := cs_mark cs;
     cs_lr := flat_map (fun w => match max_avail cs w (cs_es cs) None with Some m => [(w, m)] | None => [] end)
                       (writers (cs_es cs)) ++ cs_lr cs;
     cs_evicted := cs_evicted cs |}.

Definition is_filled (e : entry) : bool := match e_st e with Filled => true | _ => false end.

(* least sequence number among the samples in the DataSampleCache *)
Fixpoint min_filled (es : list entry) (acc : option Z) : option Z :=
  match es with
  | [] => acc
  | e :: es' =>
      min_filled es' (if is_filled e
                      then Some (match acc with Some a => Z.min a (e_sn e) | None => e_sn e end)
                      else acc)
  end.
(* hand over the first (earliest received) sample with that sequence number *)
Fixpoint take_first (m : Z) (es : list entry) : option (entry * list entry) :=
  match es with
  | [] => None
  | e :: es' =>
      if is_filled e && (e_sn e =? m) then Some (e, set_st e Taken :: es')
      else match take_first m es' with
           | Some (x, r) => Some (x, e :: r)
           | None => None
           end
  end.
Definition take_one (es : list entry) : option (entry * list entry) :=
  match min_filled es None with
  | None => None
  | Some m => take_first m es
  end.
Fixpoint take_n (n : nat) (es : list entry) : list entry * list entry :=
  match n with
  | O => ([], es)
  | S n' => match take_one es with
            | None => ([], es)
            | Some (x, es') => let r := take_n n' es' in (x :: fst r, snd r)
            end
  end.

(* ---------------------------------------------------------------------------------------- *)
(* operations and observations *)
Inductive aop :=
| ASub (o : op)            (* a submessage arrives *)
| ATake (n : Z).           (* DataReader::take(n, ReadCondition::any()) *)

(* writer, sequence number, source timestamp, payload bytes (representation header ++ value) *)
Definition hsample := (Z * Z * option Z * list Z)%type.
Definition hs_of (e : entry) : hsample := (e_w e, e_sn e, e_ts e, e_pay e).

Inductive aobs :=
| OSub (adds : list (Z * Z)) (marker : Z) (cache_len : Z)
     (* cache changes added; reliable marker of the submessage's writer afterwards (1 if none);
        number of changes in the topic cache afterwards *)
| OTake (l : list hsample).

Definition cstep (max_keep : Z) (cs : cstate) (a : aop) : cstate * aobs :=
  match a with
  | ASub o =>
      let r := step true (cs_r cs) o in
      let cs0 := {| cs_r := fst r; cs_es := cs_es cs; cs_mark := cs_mark cs; cs_lr := cs_lr cs;
                    cs_evicted := cs_evicted cs |} in
      let cs1 := fold_left (apply_out max_keep) (snd r) cs0 in
      (cs1, OSub (adds_of (snd r)) (rb_of cs1 (op_writer o)) (count_in (cs_es cs1)))
  | ATake n =>
      let cs1 := fill cs in
      let r := take_n (Z.to_nat n) (cs_es cs1) in
      ({| cs_r := cs_r cs1; cs_es := snd r; cs_mark := cs_mark cs1; cs_lr := cs_lr cs1;
          cs_evicted := cs_evicted cs1 |},
       OTake (map hs_of (fst r)))
  end.

Definition cinit (matched : list Z) : cstate :=
  {| cs_r := init matched; cs_es := []; cs_mark := fun _ => None; cs_lr := [];
     cs_evicted := false |}.

Fixpoint crun (max_keep : Z) (cs : cstate) (ops : list aop) : list aobs :=
  match ops with
  | [] => []
  | a :: ops' => let r := cstep max_keep cs a in snd r :: crun max_keep (fst r) ops'
  end.
Fixpoint cfinal (max_keep : Z) (cs : cstate) (ops : list aop) : cstate :=
  match ops with
  | [] => cs
  | a :: ops' => cfinal max_keep (fst (cstep max_keep cs a)) ops'
  end.

Record case := { c_matched : list Z; c_max_keep : Z; c_ops : list aop }.
Inductive obs := ORun (l : list aobs) | OPanicked (l : list aobs) | OInvalid.

Definition aop_okb (a : aop) : bool :=
  match a with ASub o => op_okb o | ATake n => (0 <=? n) && (n <? 2 ^ 32) end.
Definition wf_case (c : case) : bool := (1 <=? c_max_keep c) && forallb aop_okb (c_ops c).

Definition run (c : case) : obs :=
  if negb (wf_case c) then OInvalid
  else ORun (crun (c_max_keep c) (cinit (c_matched c)) (c_ops c)).

Definition hs_eqb (a b : hsample) : bool :=
  let '(w, sn, ts, p) := a in let '(w', sn', ts', p') := b in
  (w =? w') && (sn =? sn')
  && match ts, ts' with Some x, Some y => x =? y | None, None => true | _, _ => false end
  && zlist_eqb p p'.
Definition aobs_eqb (a b : aobs) : bool :=
  match a, b with
  | OSub ad m n, OSub ad' m' n' =>
      list_eqb (fun p q => (fst p =? fst q) && (snd p =? snd q)) ad ad' && (m =? m') && (n =? n')
  | OTake l, OTake l' => list_eqb hs_eqb l l'
  | _, _ => false
  end.
Definition obs_eqb (a b : obs) : bool :=
  match a, b with
  | ORun l, ORun l' => list_eqb aobs_eqb l l'
  | OPanicked l, OPanicked l' => list_eqb aobs_eqb l l'
  | OInvalid, OInvalid => true
  | _, _ => false
  end.

(* ---------------------------------------------------------------------------------------- *)
(* Property oracle: inputs (submessages, take calls) and observed outputs (samples handed over,
   cache changes added, cache size) only.
   Per writer it keeps the C03 history summary (what was declared unavailable / added), the list of
   sequence numbers handed over so far, and whether the topic cache has been seen to evict. *)
Record ostate := {
  os_S : sstate;                        (* C03 summaries (s_pts also holds the added numbers) *)
  os_added : list (Z * Z);              (* (writer, sn) of the cache changes added *)
  os_handed : list (Z * Z);             (* (writer, sn) handed over, latest first *)
  os_len : Z;                           (* topic cache size after the previous submessage *)
  os_evicted : bool;
  os_hist : list op }.                  (* submessages so far, latest first *)

Definition pair_mem (w sn : Z) (l : list (Z * Z)) : bool :=
  existsb (fun p => (fst p =? w) && (snd p =? sn)) l.
Definition last_handed (w : Z) (l : list (Z * Z)) : option Z :=
  match filter (fun p => fst p =? w) l with p :: _ => Some (snd p) | [] => None end.

(* everything below sn was handed over before or declared unavailable: the lowest number that is
   neither is not below sn.  The summary used for the search knows a number iff it was declared
   unavailable (HEARTBEAT first_sn, GAP range, GAP bitmap entry that is not an added sample) or
   handed over.  "Declared" is C03's DECLARED ([known] / [lowest_unknown]): the whole range of every
   valid GAP counts, also the far part that the reader does not record since repo fix c71c7f1 (it
   cannot hand over beyond it before the writer has repeated the GAP, so judging against what was
   declared is what the property text asks: "declared unavailable by the writer (GAP, ...)"). *)
Definition holes_summary (s : wspec) (w : Z) (added handed : list (Z * Z)) : wspec :=
  {| s_lo := s_lo s; s_rng := s_rng s;
     s_pts := filter (fun m => negb (pair_mem w m added)) (s_pts s)
              ++ map snd (filter (fun p => fst p =? w) handed);
     s_hbmax := s_hbmax s; s_adv := s_adv s; s_lastbase := s_lastbase s;
     s_lastcount := s_lastcount s; s_frag := s_frag s; s_base := s_base s |}.
Definition no_hole_below (os : ostate) (w sn : Z) : bool :=
  match os_S os w with
  | None => false
  | Some s => match lowest_unknown (holes_summary s w (os_added os) (os_handed os)) 1 with
              | Some lu => sn <=? lu
              | None => false
              end
  end.

(* payload, writer, sequence number and source timestamp are those of a submessage that delivered
   the sample: the DATA itself, or for a fragmented sample a DATAFRAG of it (the reassembled bytes are
   C05's subject; the correspondence run compares them with the C05 assembler model) *)
Definition delivered_by (h : hsample) (o : op) : bool :=
  let '(w, sn, ts, pay) := h in
  match o with
  | Data w' sn' ts' pay' =>
      (w =? w') && (sn =? sn') && zlist_eqb pay pay'
      && match ts, ts' with Some x, Some y => x =? y | None, None => true | _, _ => false end
  | Frag w' df ts' =>
      (w =? w') && (sn =? F.df_sn df)
      && match ts, ts' with Some x, Some y => x =? y | None, None => true | _, _ => false end
  | _ => false
  end.

Definition handed_ok (holes : bool) (os : ostate) (h : hsample) : bool :=
  let '(w, sn, ts, pay) := h in
  match last_handed w (os_handed os) with Some l => l <? sn | None => true end   (* order, once *)
  && existsb (delivered_by h) (os_hist os)                                      (* fidelity *)
  && (negb holes || os_evicted os || no_hole_below os w sn).                     (* no holes *)

Fixpoint handed_all (holes : bool) (os : ostate) (l : list hsample) : option ostate :=
  match l with
  | [] => Some os
  | h :: l' =>
      if handed_ok holes os h then
        handed_all holes {| os_S := os_S os; os_added := os_added os;
                      os_handed := (fst (fst (fst h)), snd (fst (fst h))) :: os_handed os;
                      os_len := os_len os; os_evicted := os_evicted os; os_hist := os_hist os |} l'
      else None
  end.

Definition ostep (holes : bool) (os : ostate) (a : aop) (ao : aobs) : option ostate :=
  match a, ao with
  | ASub o, OSub adds marker clen =>
      let w := op_writer o in
      let S' := match os_S os w with
                | Some s => fun k => if k =? w then Some (add_pts (spec_input s o) (map snd adds)) else os_S os k
                | None => os_S os
                end in
      if adds_okb o adds then
        Some {| os_S := S'; os_added := adds ++ os_added os; os_handed := os_handed os;
                os_len := clen;
                os_evicted := os_evicted os || negb (clen =? os_len os + len adds);
                os_hist := o :: os_hist os |}
      else None
  | ATake n, OTake l => if len l <=? n then handed_all holes os l else None
  | _, _ => None
  end.

Fixpoint ochk (holes : bool) (os : ostate) (ops : list aop) (l : list aobs) : bool :=
  match ops, l with
  | [], [] => true
  | a :: ops', ao :: l' => match ostep holes os a ao with Some os' => ochk holes os' ops' l' | None => false end
  | _, _ => false
  end.

Definition oinit (matched : list Z) : ostate :=
  {| os_S := sinit matched; os_added := []; os_handed := []; os_len := 0; os_evicted := false;
     os_hist := [] |}.

(* [holes = true]: the whole property; [holes = false]: order, once and fidelity only *)
Definition ok_with (holes : bool) (c : case) (o : obs) : bool :=
  if negb (wf_case c) then match o with OInvalid => true | _ => false end
  else match o with
       | ORun l => ochk holes (oinit (c_matched c)) (c_ops c) l
       | _ => false
       end.
Definition ok := ok_with true.
Definition ok_core := ok_with false.
