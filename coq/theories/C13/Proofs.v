(* C13 — the model passes its own oracle on every case; Prop reading of the oracle. *)
From Coq Require Import List ZArith Bool Lia.
From RD Require Import C13.Sched C13.ModelA C13.ModelB C13.ModelC C13.ModelD C13.Model.
From RD Require Import C13.ProofsA C13.ProofsB C13.ProofsC C13.ProofsD C13.ProofsS.
Import ListNotations.
Open Scope Z_scope.

Definition ok_P (c : case) (o : obs) : Prop :=
  wf c = true ->
  match o with
  | Obs qz d l _ _ _ => qz = true -> l = 0 /\ d = goal c
  | _ => False
  end.

Lemma ok_spec : forall c o, ok c o = true <-> ok_P c o.
Proof.
  intros c o. unfold ok, ok_P. destruct (wf c); [|split; intros; [discriminate|reflexivity]].
  destruct o as [qz d l p w e| |]; [|split; [discriminate|intros H; destruct (H eq_refl)]..].
  destruct qz; simpl.
  - rewrite andb_true_iff, !Z.eqb_eq. split; [intros H _ _; exact H | intros H; apply H; auto].
  - split; [intros _ _ H; discriminate | reflexivity].
Qed.

Lemma run_ok : forall c, ok c (run c) = true.
Proof.
  intros c. apply ok_spec. intros W. destruct c as [n l | cap q0 l | cap n l | n cap l | v n c06 l]; simpl in *.
  - apply Z.leb_le in W. intros Q.
    pose proof (ProofsA.quiescent_all_taken n _ W Q) as T.
    unfold A.quiescent, A.producer_done in Q. apply andb_true_iff in Q as [Q _].
    destruct (A.pp _); try discriminate. apply Z.eqb_eq in Q.
    rewrite ProofsA.n_const in Q. rewrite Q, T. split; lia.
  - apply andb_true_iff in W as [W W3]. apply andb_true_iff in W as [W1 W2].
    apply Z.leb_le in W1, W2, W3. intros Q.
    rewrite (ProofsD.quiescent_complete cap q0 _ W1 (conj W2 W3) Q). split; reflexivity.
  - apply andb_true_iff in W as [W1 W2]. apply Z.leb_le in W1, W2. intros Q.
    rewrite (ProofsC.quiescent_all_sent cap n _ W1 W2 Q). split; lia.
  - apply andb_true_iff in W as [W1 W2]. apply Z.leb_le in W1, W2. intros Q.
    destruct (ProofsS.quiescent_all_delivered n cap _ W1 W2 Q) as [D Ch]. split; assumption.
  - apply andb_true_iff in W as [W1 W2]. apply Z.leb_le in W1, W2. intros Q.
    assert (PC : 1 <= PCAP) by (unfold PCAP; lia).
    match type of Q with B.quiescent (B.exec _ _ _ _ ?L) = true => set (LL := L) in * end.
    destruct (ProofsB.quiescent_all_delivered v n PCAP c06 LL W1 PC W2 Q) as [D T].
    destruct (ProofsB.inv_exec v n PCAP c06 LL W1 PC W2) as [R _ _ _ _ _ _].
    pose proof (ProofsB.n_const v n PCAP c06 LL) as N.
    split; [lia|exact D].
Qed.

(* ------------------------------------------------------------------------------------------ *)
(* The completion rounds of [run] really bring the model to rest (so that the oracle's premise
   "at rest" is met and the comparison with the implementation, which always runs until rest, is
   meaningful).  Not needed for C13_model_ok; checked by a finite sweep: every schedule of length
   <= 9 for one small configuration of each handshake (the bound is part of the statement). *)
Fixpoint scheds_of_len (k : nat) : list schedule :=
  match k with
  | O => [[]]
  | S k' => flat_map (fun l => [P :: l; C :: l]) (scheds_of_len k')
  end.

Fixpoint scheds_upto (k : nat) : list schedule :=
  match k with
  | O => [[]]
  | S k' => scheds_of_len k ++ scheds_upto k'
  end.

Definition at_rest (o : obs) : bool :=
  match o with Obs true _ 0 _ _ _ => true | _ => false end.

Definition sweep_cases (l : schedule) : list case :=
  [CaseA 2 l; CaseB B.V06 2 4 l; CaseB B.V08 2 4 l; CaseC 2 4 l; CaseD 2 2 l; CaseD 2 0 l;
   CaseS 2 2 l].

Lemma run_comes_to_rest_sweep :
  forallb (fun l => forallb (fun c => at_rest (run c)) (sweep_cases l)) (scheds_upto 9) = true.
Proof. vm_compute. reflexivity. Qed.
