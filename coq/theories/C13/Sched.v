(* C13 — generic part: two threads, a schedule is a list of thread ids, one entry = one atomic step
   (one lock acquisition / channel operation) of that thread.  A thread that cannot move (finished,
   parked without a pending wake, idle on an empty queue) stutters.

   P = the "producer" side of a handshake (the participant's event-loop thread: rtps::Reader /
       rtps::Writer),  C = the "consumer" side (the application thread / async task). *)
From Coq Require Import List ZArith Bool Lia.
Import ListNotations.

Inductive tid := P | C.
Definition schedule := list tid.

Definition tid_eqb (a b : tid) : bool :=
  match a, b with P, P => true | C, C => true | _, _ => false end.

Definition tid_eq_dec : forall a b : tid, {a = b} + {a <> b}.
Proof. decide equality. Defined.

Section Exec.
  Context {S : Type}.
  Variable step : tid -> S -> S.

  Definition exec_from (s : S) (l : schedule) : S := fold_left (fun s t => step t s) l s.

  Lemma exec_from_app : forall l1 l2 s, exec_from s (l1 ++ l2) = exec_from (exec_from s l1) l2.
  Proof. intros; unfold exec_from; apply fold_left_app. Qed.

  Lemma exec_from_cons : forall t l s, exec_from s (t :: l) = exec_from (step t s) l.
  Proof. reflexivity. Qed.

  (* an invariant of every step is an invariant of every schedule *)
  Lemma inv_exec : forall (I : S -> Prop),
    (forall t s, I s -> I (step t s)) -> forall l s, I s -> I (exec_from s l).
  Proof.
    intros I H l; induction l as [|t l IH]; intros s Hs; simpl; auto.
  Qed.

  (* a state in which no thread can move stays as it is under every continuation *)
  Lemma stuck_exec : forall s, (forall t, step t s = s) -> forall l, exec_from s l = s.
  Proof.
    intros s H l; induction l as [|t l IH]; simpl; auto. rewrite H. exact IH.
  Qed.

  (* a property that every P-step establishes from a set of states closed under C-steps (a parked
     consumer stutters) holds after the first P of any continuation: the shape of the liveness
     corollaries *)
  Lemma first_P : forall (A B : S -> Prop),
    (forall s, A s -> A (step C s)) ->
    (forall s, A s -> B (step P s)) ->
    forall ext s, A s -> In P ext ->
    exists e1 e2, ext = e1 ++ P :: e2 /\ B (exec_from s (e1 ++ [P])).
  Proof.
    intros A B HC HP ext; induction ext as [|t ext IH]; intros s Hs Hin; [inversion Hin|].
    destruct t.
    - exists [], ext. split; auto. simpl. auto.
    - destruct Hin as [Hin|Hin]; [discriminate|].
      destruct (IH (step C s) (HC _ Hs) Hin) as (e1 & e2 & -> & HB).
      exists (C :: e1), e2. split; auto.
  Qed.
  (* k-step version: a rank that every P-step lowers by one and C-steps leave alone reaches 0
     once the continuation contains k producer steps *)
  Lemma within_P : forall (A : nat -> S -> Prop) (B : S -> Prop),
    (forall k s, A (Datatypes.S k) s -> A (Datatypes.S k) (step C s)) ->
    (forall k s, A (Datatypes.S k) s -> A k (step P s)) ->
    (forall s, A O s -> B s) ->
    forall ext k s, A k s -> (k <= count_occ tid_eq_dec ext P)%nat ->
    exists e1 e2, ext = e1 ++ e2 /\ B (exec_from s e1).
  Proof.
    intros A B HC HP H0 ext; induction ext as [|t ext IH]; intros k s HA Hk.
    - simpl in Hk. assert (k = O) by lia. subst. exists [], []. split; auto; simpl; auto.
    - destruct k as [|k].
      + exists [], (t :: ext). split; auto; simpl; auto.
      + destruct t.
        * simpl in Hk. destruct (tid_eq_dec P P) as [_|N]; [|congruence].
          destruct (IH k (step P s) (HP _ _ HA)) as (e1 & e2 & E & HB); [lia|].
          exists (P :: e1), e2. split; [simpl; congruence|exact HB].
        * simpl in Hk. destruct (tid_eq_dec C P) as [N|_]; [discriminate|].
          destruct (IH (Datatypes.S k) (step C s) (HC _ _ HA)) as (e1 & e2 & E & HB); [lia|].
          exists (C :: e1), e2. split; [simpl; congruence|exact HB].
  Qed.
End Exec.

(* the fair continuation used to bring a finite run to quiescence: R rounds of
   "P until it cannot move, then C until it cannot move" (K steps each; surplus steps stutter) *)
Fixpoint completion (K R : nat) : schedule :=
  match R with
  | O => []
  | S r => repeat P K ++ repeat C K ++ completion K r
  end.

Lemma completion_has_P : forall K R, (0 < K)%nat -> (0 < R)%nat -> In P (completion K R).
Proof.
  intros K R HK HR. destruct R; [lia|]. destruct K; [lia|]. simpl. auto.
Qed.
