(* C13 — generic part: two threads, a schedule is a list of thread ids, one entry = one atomic step
   (one lock acquisition / channel operation) of that thread.  A thread that cannot move (finished,
   parked without a pending wake, idle on an empty queue) stutters.

   P = the "producer" side of a handshake (the participant's event-loop thread: rtps::Reader /
       rtps::Writer),  C = the "consumer" side (the application thread / async task). *)
From Coq Require Import List ZArith Bool Lia.
Import ListNotations.

Inductive tid := P | C.
Definition schedule := list tid.

Definition tid_eqb (a b : tid) : bool :=
  match a, b with P, P => true | C, C => true | _, _ => false end.

Section Exec.
  Context {S : Type}.
  Variable step : tid -> S -> S.

  Definition exec_from (s : S) (l : schedule) : S := fold_left (fun s t => step t s) l s.

  Lemma exec_from_app : forall l1 l2 s, exec_from s (l1 ++ l2) = exec_from (exec_from s l1) l2.
  Proof. intros; unfold exec_from; apply fold_left_app. Qed.

  Lemma exec_from_cons : forall t l s, exec_from s (t :: l) = exec_from (step t s) l.
  Proof. reflexivity. Qed.

  (* an invariant of every step is an invariant of every schedule *)
  Lemma inv_exec : forall (I : S -> Prop),
    (forall t s, I s -> I (step t s)) -> forall l s, I s -> I (exec_from s l).
  Proof.
    intros I H l; induction l as [|t l IH]; intros s Hs; simpl; auto.
  Qed.

  (* a state in which no thread can move stays as it is under every continuation *)
  Lemma stuck_exec : forall s, (forall t, step t s = s) -> forall l, exec_from s l = s.
  Proof.
    intros s H l; induction l as [|t l IH]; simpl; auto. rewrite H. exact IH.
  Qed.

  (* a property that every P-step establishes from a set of states closed under C-steps (a parked
     consumer stutters) holds after the first P of any continuation: the shape of the liveness
     corollaries *)
  Lemma first_P : forall (A B : S -> Prop),
    (forall s, A s -> A (step C s)) ->
    (forall s, A s -> B (step P s)) ->
    forall ext s, A s -> In P ext ->
    exists e1 e2, ext = e1 ++ P :: e2 /\ B (exec_from s (e1 ++ [P])).
  Proof.
    intros A B HC HP ext; induction ext as [|t ext IH]; intros s Hs Hin; [inversion Hin|].
    destruct t.
    - exists [], ext. split; auto. simpl. auto.
    - destruct Hin as [Hin|Hin]; [discriminate|].
      destruct (IH (step C s) (HC _ Hs) Hin) as (e1 & e2 & -> & HB).
      exists (C :: e1), e2. split; auto.
  Qed.
End Exec.

(* the fair continuation used to bring a finite run to quiescence: R rounds of
   "P until it cannot move, then C until it cannot move" (K steps each; surplus steps stutter) *)
Fixpoint completion (K R : nat) : schedule :=
  match R with
  | O => []
  | S r => repeat P K ++ repeat C K ++ completion K r
  end.

Lemma completion_has_P : forall K R, (0 < K)%nat -> (0 < R)%nat -> In P (completion K R).
Proof.
  intros K R HK HR. destruct R; [lia|]. destruct K; [lia|]. simpl. auto.
Qed.
