(* C13 — correspondence interface over the handshake models (ModelA, ModelB, ModelC, ModelD).

   A case = one handshake, its parameters and an explicit schedule.  The driver runs the REAL
   producer and consumer code on two threads through that schedule (one entry = the code between
   two yield points = one model step), then lets the system come to rest deterministically
   (producer until it cannot move, consumer until it cannot move, repeated) and reports what an
   outside observer sees: did everything come to rest, how much was delivered to the application,
   how much is still available but undelivered, how many polls / waker invocations / Pending
   results there were.  [run] does the same with the model ([completion] rounds). *)
From Coq Require Import List ZArith Bool Lia.
From RD Require Import C13.Sched C13.ModelA C13.ModelD.
Import ListNotations.
Open Scope Z_scope.

Inductive case :=
| CaseA (n : Z) (l : schedule)            (* async sample stream, n samples *)
| CaseD (cap q0 : Z) (l : schedule).      (* async_wait_for_acknowledgments; queue capacity, preloaded writes *)

Inductive obs :=
| Obs (quiescent : bool) (delivered leftover polls wakes pends : Z)
| ObsHang          (* watchdog: the real threads did not come to rest / a step did not return *)
| ObsPanic.

Definition wf (c : case) : bool :=
  match c with
  | CaseA n _ => 0 <=? n
  | CaseD cap q0 _ => (1 <=? cap) && (0 <=? q0) && (q0 <=? cap)
  end.

(* what the consumer is owed once everything has come to rest *)
Definition goal (c : case) : Z :=
  match c with
  | CaseA n _ => n
  | CaseD _ _ _ => 1
  end.

Definition fuelA (n : Z) : nat := Z.to_nat (4 * n + 12).
Definition fuelD (cap : Z) : nat := Z.to_nat (2 * cap + 12).

Definition run (c : case) : obs :=
  match c with
  | CaseA n l =>
      let s := A.exec n (l ++ completion (fuelA n) 2) in
      Obs (A.quiescent s) (A.taken s) (A.ins s - A.taken s) (A.polls s) (A.wakes s) (A.pends s)
  | CaseD cap q0 l =>
      let s := D.exec true cap q0 (l ++ completion (fuelD cap) 4) in
      let d := if D.complete s then 1 else 0 in
      Obs (D.quiescent s) d (1 - d) (D.polls s) (D.wakes s) (D.pends s)
  end.

Definition obs_eqb (a b : obs) : bool :=
  match a, b with
  | Obs q1 d1 l1 p1 w1 e1, Obs q2 d2 l2 p2 w2 e2 =>
      Bool.eqb q1 q2 && (d1 =? d2) && (l1 =? l2) && (p1 =? p2) && (w1 =? w2) && (e1 =? e2)
  | ObsHang, ObsHang => true
  | ObsPanic, ObsPanic => true
  | _, _ => false
  end.

(* The property on observables: when producer and consumer have come to rest (no thread can move
   without outside input) nothing that is available to the consumer is left undelivered and the
   consumer received everything it was owed; a run that never comes to rest (hang) or panics fails. *)
Definition ok (c : case) (o : obs) : bool :=
  if wf c then
    match o with
    | Obs qz d l _ _ _ => implb qz ((l =? 0) && (d =? goal c))
    | ObsHang => false
    | ObsPanic => false
    end
  else true.
