(* C13 — correspondence interface over the handshake models (ModelA, ModelB, ModelC, ModelD).

   A case = one handshake, its parameters and an explicit schedule.  The driver runs the REAL
   producer and consumer code on two threads through that schedule (one entry = the code between
   two yield points = one model step), then lets the system come to rest deterministically
   (producer until it cannot move, consumer until it cannot move, repeated) and reports what an
   outside observer sees: did everything come to rest, how much was delivered to the application,
   how much is still available but undelivered, how many polls / waker invocations / Pending
   results there were.  [run] does the same with the model ([completion] rounds). *)
From Coq Require Import List ZArith Bool Lia.
From RD Require Export C13.Sched C13.ModelA C13.ModelB C13.ModelC C13.ModelD C13.ModelS.
Import ListNotations.
Open Scope Z_scope.

Inductive case :=
| CaseA (n : Z) (l : schedule)            (* async sample stream, n samples *)
| CaseD (cap q0 : Z) (l : schedule)       (* async_wait_for_acknowledgments; queue capacity, preloaded writes *)
| CaseC (cap n : Z) (l : schedule)        (* n async writes through a command queue of capacity cap *)
| CaseS (n cap : Z) (l : schedule)        (* status-event stream: n events, channel capacity cap >= n *)
| CaseB (v : B.variant) (n c06 : Z) (l : schedule).
                                          (* mio-0.6 / mio-0.8 polling, n samples, capacity of the
                                             mio-0.6 notification channel *)

Inductive obs :=
| Obs (quiescent : bool) (delivered leftover polls wakes pends : Z)
| ObsHang          (* watchdog: the real threads did not come to rest / a step did not return *)
| ObsPanic.

Definition wf (c : case) : bool :=
  match c with
  | CaseA n _ => 0 <=? n
  | CaseD cap q0 _ => (1 <=? cap) && (0 <=? q0) && (q0 <=? cap)
  | CaseC cap n _ => (1 <=? cap) && (0 <=? n)
  | CaseB _ n c06 _ => (0 <=? n) && (1 <=? c06)
  | CaseS n cap _ => (0 <=? n) && (n <=? cap)
  end.

(* what the consumer is owed once everything has come to rest *)
Definition goal (c : case) : Z :=
  match c with
  | CaseA n _ => n
  | CaseD _ _ _ => 1
  | CaseC _ n _ => n
  | CaseB _ n _ _ => n
  | CaseS n _ _ => n
  end.

Definition fuelA (n : Z) : nat := Z.to_nat (4 * n + 12).
Definition fuelD (cap : Z) : nat := Z.to_nat (2 * cap + 12).
Definition fuelC (cap n : Z) : nat := Z.to_nat (2 * cap + n + 12).
Definition roundsC (cap n : Z) : nat := Z.to_nat (n + 3).
Definition fuelB (n c06 : Z) : nat := Z.to_nat (6 * n + c06 + 20).
Definition fuelS (n : Z) : nat := Z.to_nat (2 * n + 8).
(* socket buffer of the poll-event pipe: far larger than any number of samples of a case *)
Definition PCAP : Z := 65536.

Definition run (c : case) : obs :=
  match c with
  | CaseA n l =>
      let s := A.exec n (l ++ completion (fuelA n) 2) in
      Obs (A.quiescent s) (A.taken s) (A.ins s - A.taken s) (A.polls s) (A.wakes s) (A.pends s)
  | CaseD cap q0 l =>
      let s := D.exec true cap q0 (l ++ completion (fuelD cap) 4) in
      let d := if D.complete s then 1 else 0 in
      Obs (D.quiescent s) d (1 - d) (D.polls s) (D.wakes s) (D.pends s)
  | CaseC cap n l =>
      let s := W.exec true cap n (l ++ completion (fuelC cap n) (roundsC cap n)) in
      Obs (W.quiescent s) (W.sent s) (n - W.sent s) (W.polls s) (W.wakes s) (W.pends s)
  | CaseB v n c06 l =>
      let s := B.exec v n PCAP c06 (l ++ completion (fuelB n c06) 3) in
      Obs (B.quiescent s) (B.deliv s) (B.ins s - B.taken s + B.loc s)
          (B.takes s) (B.events s) (B.empties s)
  | CaseS n cap l =>
      let s := S.exec n cap (l ++ completion (fuelS n) 2) in
      Obs (S.quiescent s) (S.deliv s) (S.chan s) (S.polls s) (S.wakes s) (S.pends s)
  end.

Definition obs_eqb (a b : obs) : bool :=
  match a, b with
  | Obs q1 d1 l1 p1 w1 e1, Obs q2 d2 l2 p2 w2 e2 =>
      Bool.eqb q1 q2 && (d1 =? d2) && (l1 =? l2) && (p1 =? p2) && (w1 =? w2) && (e1 =? e2)
  | ObsHang, ObsHang => true
  | ObsPanic, ObsPanic => true
  | _, _ => false
  end.

(* The property on observables: when producer and consumer have come to rest (no thread can move
   without outside input) nothing that is available to the consumer is left undelivered and the
   consumer received everything it was owed; a run that never comes to rest (hang) or panics fails. *)
Definition ok (c : case) (o : obs) : bool :=
  if wf c then
    match o with
    | Obs qz d l _ _ _ => implb qz ((l =? 0) && (d =? goal c))
    | ObsHang => false
    | ObsPanic => false
    end
  else true.
