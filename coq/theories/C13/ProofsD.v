(* C13 handshake (D): the code as found loses the wake-up (F9); the repaired code does not. *)
From Coq Require Import List ZArith Bool Lia.
From RD Require Import C13.Sched C13.ModelD.
Import ListNotations.
Open Scope Z_scope.
Import D.

(* ------------------------------------------------------------------------------------------ *)
(* 1. code as found: refutation                                                                 *)

(* the future sends its command and returns Pending (C), the writer pops the command (P) and sends
   the completion (P): from then on nothing can move any more, although the awaited condition holds *)
Definition witness : schedule := [C; P; P].

Lemma old_refuted : forall cap, 1 <= cap ->
  let s := exec false cap 0 witness in
  parked s /\ completion_sent s /\ woken s = false
  /\ forall ext, exec false cap 0 (witness ++ ext) = s.
Proof.
  intros cap Hc s.
  assert (E : s = mk false cap [] false 1 false false Waiting P_recv C_parked 1 0 1).
  { unfold s, exec, witness, exec_from, init; simpl.
    unfold len; simpl. destruct (Z.ltb_spec 0 cap); [reflexivity|lia]. }
  split; [|split; [|split]].
  - rewrite E; reflexivity.
  - rewrite E; split; simpl; [reflexivity|lia].
  - rewrite E; reflexivity.
  - intros ext. unfold exec. rewrite exec_from_app.
    change (exec_from step (init false cap 0) witness) with s. rewrite E.
    apply stuck_exec. intros []; reflexivity.
Qed.

(* the same holds with a full command queue: Pending without any waker even before the command
   could be sent, and the queue draining does not help because cc_upload_waker was never set *)
Lemma old_full_refuted :
  let s := exec false 1 1 [C; P; P] in
  parked s /\ room s /\ woken s = false /\ forall ext, exec false 1 1 ([C; P; P] ++ ext) = s.
Proof.
  cbv zeta. split; [|split; [|split]].
  - vm_compute; reflexivity.
  - split; vm_compute; reflexivity.
  - vm_compute; reflexivity.
  - intros ext. unfold exec. rewrite exec_from_app.
    apply stuck_exec. intros []; reflexivity.
Qed.

(* ------------------------------------------------------------------------------------------ *)
(* 2. repaired code: invariant                                                                  *)

Definition all_data (l : list cmd) : Prop := Forall (fun c => c = Data) l.

Record Inv (s : st) : Prop := {
  j_fx : fixed s = true;
  j_rng : 0 <= chan s <= 1 /\ len (q s) <= cap s /\ 1 <= cap s;
  j_wsc : f s = WSC -> all_data (q s) /\ pp s <> P_complete /\ chan s = 0;
  j_cwk : f s = WSC -> cp s = C_retry \/ cp s = C_parked -> cwk s = true;
  j_room : cp s = C_parked -> f s = WSC -> woken s = false -> len (q s) < cap s -> pp s = P_wake;
  j_wait : f s = Waiting -> In WaitAck (q s) \/ pp s = P_complete \/ chan s = 1;
  j_swk : cp s = C_parked -> f s = Waiting -> swk s = true \/ woken s = true;
  j_tok : cp s = C_parked -> f s = Waiting -> chan s = 1 -> woken s = true;
  j_pc : (cp s = C_finished <-> f s = FDone) /\ (cp s = C_recv -> f s = Waiting)
         /\ (cp s = C_store \/ cp s = C_retry -> f s = WSC);
  j_cnt : 0 <= polls s /\ 0 <= wakes s /\ 0 <= pends s
}.

Lemma len_app1 : forall l c, len (l ++ [c]) = len l + 1.
Proof. intros; unfold len; rewrite app_length; simpl; lia. Qed.

Lemma len_cons : forall c l, len (c :: l) = len l + 1.
Proof. intros; unfold len; simpl length; lia. Qed.

Lemma len_nonneg : forall l, 0 <= len l.
Proof. intros; unfold len; lia. Qed.

Lemma len_repeat : forall k, 0 <= k -> len (repeat Data (Z.to_nat k)) = k.
Proof. intros; unfold len; rewrite repeat_length; lia. Qed.

Lemma inv_init : forall cap q0, 1 <= cap -> 0 <= q0 <= cap -> Inv (init true cap q0).
Proof.
  intros cap q0 Hc Hq. constructor; simpl; try rewrite len_repeat; try lia; intros;
    try discriminate; auto.
  - repeat split; auto; try discriminate.
    unfold all_data. apply Forall_forall. intros x Hx. apply repeat_spec in Hx. auto.
  - destruct H0; discriminate.
  - repeat split; intros; try discriminate; auto.
Qed.

Ltac zb :=
  repeat match goal with
  | |- context [?a <? ?b] => destruct (Z.ltb_spec a b)
  end.

Ltac brk :=
  repeat match goal with
  | H : _ /\ _ |- _ => destruct H
  | H : _ <-> _ |- _ => destruct H
  end.

(* feed the implications of the invariant with the facts at hand *)
Ltac sat :=
  repeat match goal with
  | H : ?x = ?x -> _ |- _ => specialize (H eq_refl)
  | H : (?x = ?x \/ _) -> _ |- _ => specialize (H (or_introl eq_refl))
  | H : (_ \/ ?x = ?x) -> _ |- _ => specialize (H (or_intror eq_refl))
  | H : ?A -> _, H' : ?A |- _ => specialize (H H')
  | H : (?A \/ _) -> _, H' : ?A |- _ => specialize (H (or_introl H'))
  | H : (_ \/ ?A) -> _, H' : ?A |- _ => specialize (H (or_intror H'))
  | H : ?a = ?b -> _ |- _ => assert (a <> b) by discriminate; clear H
  end.

Ltac fld :=
  simpl in *; intros; brk; sat; brk;
  try rewrite ?len_app1 in *; try rewrite ?len_cons in *;
  try discriminate; try lia; try tauto; auto;
  try (repeat split; intros; sat;
       repeat match goal with H : _ \/ _ |- _ => destruct H end;
       try discriminate; try lia; try tauto; auto; fail);
  try solve [ repeat match goal with H : _ \/ _ |- _ => destruct H end;
              try discriminate; try lia; auto ].

Lemma all_data_tl : forall c l, all_data (c :: l) -> c = Data /\ all_data l.
Proof. intros c l H; inversion H; auto. Qed.

Lemma inv_stepP : forall s, Inv s -> Inv (stepP s).
Proof.
  intros [fx cap q cwk chan swk woken f pp cp polls wakes pends] [H0 H1 H2 H3 H4 H5 H6 H7 H8 H9];
    simpl in *; subst fx.
  destruct pp; simpl.
  - (* P_recv *)
    destruct q as [|c q']; [constructor; auto|].
    assert (WD : f = WSC -> c = Data /\ all_data q').
    { intros E. destruct (H2 E) as (A & _). apply all_data_tl; auto. }
    destruct c; simpl.
    + (* pops Data *)
      constructor; fld.
    + (* pops WaitAck: not in state WSC *)
      assert (NW : f <> WSC). { intros E. destruct (WD E); discriminate. }
      constructor; fld.
  - (* P_wake *)
    destruct cwk; simpl; constructor; fld.
  - (* P_complete *)
    assert (NW : f <> WSC). { intros E. destruct (H2 E) as (_ & B & _). congruence. }
    destruct swk; simpl; constructor; fld.
Qed.

Lemma all_data_no_wait : forall l, all_data l -> ~ In WaitAck l.
Proof.
  intros l H HI. unfold all_data in H. rewrite Forall_forall in H. apply H in HI. discriminate.
Qed.

Lemma inv_recv : forall s, Inv s -> f s = Waiting -> (cp s = C_recv \/ cp s = C_poll) ->
  Inv (recv_step s).
Proof.
  intros [fx cap q cwk chan swk woken f pp cp polls wakes pends] [H0 H1 H2 H3 H4 H5 H6 H7 H8 H9] HF HC;
    simpl in *; subst fx f.
  destruct (Z.ltb_spec 0 chan); constructor; fld.
Qed.

Lemma in_app1 : forall (l : list cmd), In WaitAck (l ++ [WaitAck]).
Proof. intros; apply in_or_app; right; simpl; auto. Qed.

Lemma inv_stepC : forall s, Inv s -> Inv (stepC s).
Proof.
  intros s HI.
  destruct s as [fx cap q cwk chan swk woken f pp cp polls wakes pends] eqn:ES.
  destruct cp.
  - (* C_poll *)
    destruct f.
    + (* WSC *)
      destruct HI as [H0 H1 H2 H3 H4 H5 H6 H7 H8 H9]; simpl in *; subst fx.
      destruct (Z.ltb_spec (len q) cap); constructor; fld.
      left; apply in_app1.
    + (* Waiting *)
      simpl.
      apply (inv_recv (mk fx cap q cwk chan swk woken Waiting pp C_poll (polls + 1) wakes pends)); auto.
      destruct HI as [H0 H1 H2 H3 H4 H5 H6 H7 H8 H9]; simpl in *.
      constructor; fld.
    + (* FDone: cannot be at C_poll *)
      destruct HI as [H0 H1 H2 H3 H4 H5 H6 H7 H8 H9]; simpl in *.
      destruct H8 as ((_ & X) & _). specialize (X eq_refl). discriminate.
  - (* C_store *)
    destruct HI as [H0 H1 H2 H3 H4 H5 H6 H7 H8 H9]; simpl in *; subst fx. brk.
    assert (F : f = WSC) by auto. subst f.
    constructor; fld.
  - (* C_retry *)
    destruct HI as [H0 H1 H2 H3 H4 H5 H6 H7 H8 H9]; simpl in *; subst fx. brk.
    assert (F : f = WSC) by auto. subst f.
    destruct (Z.ltb_spec (len q) cap); constructor; fld.
    left; apply in_app1.
  - (* C_recv *)
    apply (inv_recv (mk fx cap q cwk chan swk woken f pp C_recv polls wakes pends)); auto.
    destruct HI as [H0 H1 H2 H3 H4 H5 H6 H7 H8 H9]; simpl in *. brk. auto.
  - (* C_parked *)
    simpl. destruct woken; auto.
    destruct HI as [H0 H1 H2 H3 H4 H5 H6 H7 H8 H9]; simpl in *; subst fx.
    constructor; fld.
  - (* C_finished *)
    simpl. auto.
Qed.

Lemma inv_step : forall t s, Inv s -> Inv (step t s).
Proof. intros [] s H; [apply inv_stepP | apply inv_stepC]; auto. Qed.

Lemma inv_exec : forall cap q0 l, 1 <= cap -> 0 <= q0 <= cap -> Inv (exec true cap q0 l).
Proof.
  intros. unfold exec. apply (Sched.inv_exec step Inv inv_step). apply inv_init; auto.
Qed.

(* --- the property --- *)
Lemma no_lost_wakeup : forall cap q0 l, 1 <= cap -> 0 <= q0 <= cap ->
  let s := exec true cap q0 l in
  parked s -> (completion_sent s -> woken s = true) /\ (room s -> wake_pending s).
Proof.
  intros cap q0 l Hc Hq s Hp. destruct (inv_exec cap q0 l Hc Hq) as [H0 H1 H2 H3 H4 H5 H6 H7 H8 H9].
  fold s in H0, H1, H2, H3, H4, H5, H6, H7, H8. unfold parked in Hp. split.
  - intros [F Ch]. apply H7; auto. lia.
  - intros [F R]. unfold wake_pending. destruct (woken s) eqn:W; auto; right; split; auto.
Qed.

(* when everything has come to rest the future has completed *)
Lemma quiescent_complete : forall cap q0 l, 1 <= cap -> 0 <= q0 <= cap ->
  let s := exec true cap q0 l in quiescent s = true -> complete s = true.
Proof.
  intros cap q0 l Hc Hq s Q. destruct (inv_exec cap q0 l Hc Hq) as [H0 H1 H2 H3 H4 H5 H6 H7 H8 H9].
  fold s in H0, H1, H2, H3, H4, H5, H6, H7, H8.
  unfold quiescent, producer_idle, consumer_blocked, complete in *.
  apply andb_true_iff in Q as [Q1 Q2].
  destruct (pp s) eqn:PP; try discriminate. destruct (q s) eqn:QQ; try discriminate.
  destruct H8 as ((F1 & F2) & _).
  destruct (cp s) eqn:CP; try discriminate.
  - apply negb_true_iff in Q2.
    destruct (f s) eqn:F; auto.
    + (* WSC: there is room (the queue is empty), so the producer would be at P_wake *)
      assert (X : P_recv = P_wake). { apply H4; auto. unfold len; simpl; lia. } discriminate.
    + destruct (H5 eq_refl) as [X|[X|X]]; try discriminate; [inversion X|].
      rewrite (H7 eq_refl eq_refl X) in Q2. discriminate.
  - rewrite (F1 eq_refl). reflexivity.
Qed.

(* liveness: a parked future whose awaited condition holds has been woken at the latest after the
   producer's next step *)
Definition waiting (s : st) : Prop :=
  Inv s /\ cp s = C_parked /\ woken s = false /\ f s = WSC /\ len (q s) < cap s.

Lemma waiting_C : forall s, waiting s -> waiting (step C s).
Proof.
  intros [fx cap q cwk chan swk woken f pp cp polls wakes pends] (HI & Hc & Hw & Hf & Hr);
    simpl in *; subst. simpl. split; [exact HI|auto].
Qed.

Lemma waiting_P : forall s, waiting s -> woken (step P s) = true.
Proof.
  intros s (HI & Hc & Hw & Hf & Hr). destruct HI as [H0 H1 H2 H3 H4 H5 H6 H7 H8 H9].
  specialize (H4 Hc Hf Hw Hr). specialize (H3 Hf (or_intror Hc)).
  destruct s as [fx cap q cwk chan swk woken f pp cp polls wakes pends]; simpl in *; subst.
  reflexivity.
Qed.

Lemma eventually_woken : forall cap q0 l ext, 1 <= cap -> 0 <= q0 <= cap ->
  let s := exec true cap q0 l in
  parked s -> completion_sent s \/ room s -> In P ext ->
  exists e1 e2, ext = e1 ++ e2 /\ woken (exec true cap q0 (l ++ e1)) = true.
Proof.
  intros cap q0 l ext Hc Hq s Hp Hcond Hin.
  destruct (woken s) eqn:W.
  - exists [], ext. split; auto. rewrite app_nil_r. exact W.
  - destruct Hcond as [Hcs|[Hf Hr]].
    + destruct (no_lost_wakeup cap q0 l Hc Hq Hp) as [X _]. fold s in X. rewrite (X Hcs) in W.
      discriminate.
    + destruct (first_P step waiting (fun s => woken s = true) waiting_C waiting_P ext s)
        as (e1 & e2 & E & HW); auto.
      * split; [apply inv_exec; auto | repeat split; auto].
      * exists (e1 ++ [P]), e2. split; [rewrite <- app_assoc; exact E|].
        unfold exec. rewrite exec_from_app. exact HW.
Qed.

Lemma woken_runs : forall s, cp s = C_parked -> woken s = true -> cp (step C s) = C_poll.
Proof.
  intros [fx cap q cwk chan swk woken f pp cp polls wakes pends] Hc Hw; simpl in *; subst. reflexivity.
Qed.
