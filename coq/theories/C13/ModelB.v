(* C13 handshake (B): mio-0.6 / mio-0.8 polling of a DataReader.

   Producer P = rtps::Reader as in (A): P_insert, P_wake (no waker stored: nothing happens),
     P_poll   PollEventSender::send: write one byte 0xcc to the socket pair   src/mio_source.rs:106-116
              (fails with WouldBlock, which is only logged, when the socket buffer is full)
     P_chan   notification_sender.try_send(()), Full is ignored               src/rtps/reader.rs:1232-1243
              (mio_extras sync_channel of capacity [c06] = 4, pubsub.rs:1023)
   Consumer C = the documented pattern (examples/shapes_demo, shapes_demo_mio_08):
       loop { poll.poll(..); on the reader's token: while let Some(s) = reader.take_next_sample() {..} }
     C_poll     mio Poll::poll; the DataReader is registered edge-triggered:
                mio-0.8: the receiving socket of the pair (mio_source.rs:139-164, simpledatareader.rs:489-515)
                mio-0.6: the notification channel's Registration (simpledatareader.rs:449-487), PollOpt::edge()
     take_next_sample = take(1) = DataReader::take, src/dds/with_key/datareader.rs:235-252:
     C_drain06  drain_read_notifications: `while rec.try_recv().is_ok() {}`, one step per try_recv
                                                              simpledatareader.rs:206-208
     C_drain08  event_source.drain(): read_to_end on the socket until WouldBlock — taken as one
                atomic step (it ends with a read that finds the socket empty)   mio_source.rs:122-136
     C_fill     fill_and_lock_local_datasample_cache: try_take_one per step (topic-cache mutex) until
                None (datareader.rs:100-107)
     C_pop      select/take from the local cache (no shared cell): one sample handed to the
                application (-> next take_next_sample) or none (-> back to poll)

   Readiness delivery (assumptions of C13, checked against the real mio/epoll by the driver):
     mio-0.8 / epoll edge-triggered: a write to the socket makes the registration ready ([ev08]);
       poll reports it once if the socket is readable at that time, and clears it.
     mio-0.6 Registration/SetReadiness with mio_extras::channel: the sender's inc() sets readiness
       (and queues the registration node, [qd06]) only when the pending count goes 0 -> 1
       (mio-extras channel.rs:210-221); the receiver's dec() clears readiness at 1 -> 0; poll
       dequeues the node and reports it if readiness is still non-empty; with PollOpt::edge it is
       not queued again until the next set_readiness.  inc()/dec() are taken as atomic with the
       queue operation they accompany. *)
From Coq Require Import List ZArith Bool Lia.
From RD Require Import C13.Sched.
Import ListNotations.
Open Scope Z_scope.

Module B.

Inductive variant := V06 | V08.
Inductive ppc := P_insert | P_wake | P_poll | P_chan.
Inductive cpc := C_poll | C_drain06 | C_drain08 | C_fill | C_pop.

Record st := mk {
  var : variant;
  n : Z;
  pcap : Z;       (* socket buffer capacity in notification bytes *)
  c06 : Z;        (* capacity of the mio-0.6 notification channel *)
  ins : Z;        (* samples available in the topic cache *)
  taken : Z;      (* samples moved to the DataReader's local cache *)
  loc : Z;        (* samples in the local cache not yet handed over *)
  deliv : Z;      (* samples handed to the application *)
  pipe : Z;       (* bytes in the socket pair *)
  ev08 : bool;    (* epoll: edge pending for the receiving socket *)
  q06 : Z;        (* messages in the notification channel *)
  qd06 : bool;    (* mio-0.6: registration node queued *)
  pp : ppc;
  cp : cpc;
  takes : Z;      (* take_next_sample calls returned *)
  events : Z;     (* poll calls that reported the reader ready *)
  empties : Z     (* take_next_sample calls that returned None *)
}.

Definition init (v : variant) (n pcap c06 : Z) : st :=
  mk v n pcap c06 0 0 0 0 0 false 0 false P_insert C_poll 0 0 0.

Definition stepP (s : st) : st :=
  let '(mk v n pcap c06 ins taken loc deliv pipe ev08 q06 qd06 pp cp takes events empties) := s in
  match pp with
  | P_insert => if ins <? n
                then mk v n pcap c06 (ins + 1) taken loc deliv pipe ev08 q06 qd06 P_wake cp takes events empties
                else s
  | P_wake => mk v n pcap c06 ins taken loc deliv pipe ev08 q06 qd06 P_poll cp takes events empties
  | P_poll => if pipe <? pcap
              then mk v n pcap c06 ins taken loc deliv (pipe + 1) true q06 qd06 P_chan cp takes events empties
              else mk v n pcap c06 ins taken loc deliv pipe ev08 q06 qd06 P_chan cp takes events empties
  | P_chan => if q06 <? c06
              then mk v n pcap c06 ins taken loc deliv pipe ev08 (q06 + 1)
                      (if q06 =? 0 then true else qd06) P_insert cp takes events empties
              else mk v n pcap c06 ins taken loc deliv pipe ev08 q06 qd06 P_insert cp takes events empties
  end.

Definition stepC (s : st) : st :=
  let '(mk v n pcap c06 ins taken loc deliv pipe ev08 q06 qd06 pp cp takes events empties) := s in
  match cp with
  | C_poll =>
      match v with
      | V08 =>
          if ev08 then
            if 0 <? pipe
            then mk v n pcap c06 ins taken loc deliv pipe false q06 qd06 pp C_drain06 takes (events + 1) empties
            else mk v n pcap c06 ins taken loc deliv pipe false q06 qd06 pp C_poll takes events empties
          else s
      | V06 =>
          if qd06 then
            if 0 <? q06
            then mk v n pcap c06 ins taken loc deliv pipe ev08 q06 false pp C_drain06 takes (events + 1) empties
            else mk v n pcap c06 ins taken loc deliv pipe ev08 q06 false pp C_poll takes events empties
          else s
      end
  | C_drain06 =>
      if 0 <? q06
      then mk v n pcap c06 ins taken loc deliv pipe ev08 (q06 - 1) qd06 pp C_drain06 takes events empties
      else mk v n pcap c06 ins taken loc deliv pipe ev08 q06 qd06 pp C_drain08 takes events empties
  | C_drain08 => mk v n pcap c06 ins taken loc deliv 0 ev08 q06 qd06 pp C_fill takes events empties
  | C_fill =>
      if taken <? ins
      then mk v n pcap c06 ins (taken + 1) (loc + 1) deliv pipe ev08 q06 qd06 pp C_fill takes events empties
      else mk v n pcap c06 ins taken loc deliv pipe ev08 q06 qd06 pp C_pop takes events empties
  | C_pop =>
      if 0 <? loc
      then mk v n pcap c06 ins taken (loc - 1) (deliv + 1) pipe ev08 q06 qd06 pp C_drain06 (takes + 1) events empties
      else mk v n pcap c06 ins taken loc deliv pipe ev08 q06 qd06 pp C_poll (takes + 1) events (empties + 1)
  end.

Definition step (t : tid) (s : st) : st := match t with P => stepP s | C => stepC s end.
Definition exec (v : variant) (n pcap c06 : Z) (l : schedule) : st :=
  exec_from step (init v n pcap c06) l.

(* vocabulary *)
Definition parked (s : st) : Prop := cp s = C_poll.
Definition available (s : st) : Prop := taken s < ins s.
(* the next poll will report the reader *)
Definition event_ready (s : st) : bool :=
  match var s with
  | V08 => ev08 s && (0 <? pipe s)
  | V06 => qd06 s && (0 <? q06 s)
  end.
(* the producer has inserted and not yet sent the notification this consumer listens to *)
Definition mid_notify (s : st) : bool :=
  match var s, pp s with
  | _, P_wake => true
  | _, P_poll => true
  | V06, P_chan => true
  | _, _ => false
  end.
Definition wake_pending (s : st) : Prop := event_ready s = true \/ mid_notify s = true.
Definition producer_done (s : st) : bool :=
  match pp s with P_insert => ins s =? n s | _ => false end.
Definition consumer_blocked (s : st) : bool :=
  match cp s with C_poll => negb (event_ready s) | _ => false end.
Definition quiescent (s : st) : bool := producer_done s && consumer_blocked s.

End B.
