(* C13 handshake (A): async sample stream.

   Producer P = the participant's receive/event-loop thread inside rtps::Reader, per sample:
     P_insert  Reader::process_received_data -> make_cache_change      src/rtps/reader.rs:748, 1193-1215
               (topic-cache mutex: add_change + mark_reliably_received_before; the sample becomes
               visible to try_take_one)
     P_wake    Reader::notify_cache_change: data_reader_waker.lock().take().map(wake_by_ref)
                                                                       src/rtps/reader.rs:1221-1226
     P_poll    self.poll_event_sender.send()   (mio-0.8 byte)          src/rtps/reader.rs:1229
     P_chan    self.notification_sender.try_send(())  (mio-0.6)        src/rtps/reader.rs:1232
   (the heartbeat / gap paths, reader.rs:924 and :1139, have the same shape: marker moved under the
   topic-cache mutex, then notify_cache_change).

   Consumer C = the task polling SimpleDataReaderStream::poll_next
                                                   src/dds/with_key/simpledatareader.rs:594-633
     C_take1   try_take_one_with (topic-cache mutex)  :596-598; Some -> Ready, None -> go on
     C_setwk   set_waker(Some(cx.waker().clone()))    :622  (= *data_reader_waker.lock() = w, :202-204)
     C_take2   try_take_one_with again                :623-626; Some -> Ready, None -> Pending
     C_parked  the executor: the task sleeps until its waker was invoked (flag [woken], consumed
               when the task is polled again) — executor behaviour is an assumption of C13.
   with_key::DataReader's BareDataReaderStream / DataReaderStream (datareader.rs:915-952, 1007-1040)
   have the same three steps around take_bare.

   The waker slot holds at most one waker; there is one consuming task, so the slot is a bool.
   [n] = number of samples the producer will deliver in total (any n; the producer stutters when
   done), so "every schedule" covers unbounded schedules and unbounded numbers of samples. *)
From Coq Require Import List ZArith Bool Lia.
From RD Require Import C13.Sched.
Import ListNotations.
Open Scope Z_scope.

Module A.

Inductive ppc := P_insert | P_wake | P_poll | P_chan.
Inductive cpc := C_take1 | C_setwk | C_take2 | C_parked.

Record st := mk {
  n : Z;          (* samples to be produced in total *)
  ins : Z;        (* samples made available in the topic cache so far *)
  taken : Z;      (* samples handed to the application (read pointer) *)
  wk : bool;      (* data_reader_waker is Some *)
  woken : bool;   (* the task's waker was invoked and the task was not polled since *)
  pp : ppc;
  cp : cpc;
  polls : Z;      (* poll_next calls started *)
  wakes : Z;      (* wake_by_ref invocations *)
  pends : Z       (* Poll::Pending results *)
}.

Definition init (n : Z) : st := mk n 0 0 false false P_insert C_take1 0 0 0.

Definition stepP (s : st) : st :=
  let '(mk n ins taken wk woken pp cp polls wakes pends) := s in
  match pp with
  | P_insert => if ins <? n then mk n (ins + 1) taken wk woken P_wake cp polls wakes pends else s
  | P_wake => if wk then mk n ins taken false true P_poll cp polls (wakes + 1) pends
              else mk n ins taken wk woken P_poll cp polls wakes pends
  | P_poll => mk n ins taken wk woken P_chan cp polls wakes pends
  | P_chan => mk n ins taken wk woken P_insert cp polls wakes pends
  end.

Definition stepC (s : st) : st :=
  let '(mk n ins taken wk woken pp cp polls wakes pends) := s in
  match cp with
  | C_take1 => if taken <? ins then mk n ins (taken + 1) wk woken pp C_take1 (polls + 1) wakes pends
               else mk n ins taken wk woken pp C_setwk (polls + 1) wakes pends
  | C_setwk => mk n ins taken true woken pp C_take2 polls wakes pends
  | C_take2 => if taken <? ins then mk n ins (taken + 1) wk woken pp C_take1 polls wakes pends
               else mk n ins taken wk woken pp C_parked polls wakes (pends + 1)
  | C_parked => if woken then mk n ins taken wk false pp C_take1 polls wakes pends else s
  end.

Definition step (t : tid) (s : st) : st := match t with P => stepP s | C => stepC s end.
Definition exec (n : Z) (l : schedule) : st := exec_from step (init n) l.

(* vocabulary of the property *)
Definition parked (s : st) : Prop := cp s = C_parked.
Definition available (s : st) : Prop := taken s < ins s.
(* a wake is pending: the waker was invoked (the executor will poll the task again), or the
   producer stands right before its take-the-waker-and-wake step with the waker stored *)
Definition wake_pending (s : st) : Prop := woken s = true \/ (pp s = P_wake /\ wk s = true).
Definition producer_done (s : st) : bool :=
  match pp s with P_insert => ins s =? n s | _ => false end.
Definition consumer_blocked (s : st) : bool :=
  match cp s with C_parked => negb (woken s) | _ => false end.
Definition quiescent (s : st) : bool := producer_done s && consumer_blocked s.

End A.
