(* C13 handshake (C): DataWriter::async_write  ||  rtps::Writer draining the command queue.

   Consumer C = one task performing [n] async writes one after the other; each is an AsyncWrite
   future,  src/dds/with_key/datawriter.rs:967-1024 (AsyncWrite::poll)
   Producer P = the event-loop thread in Writer::process_writer_command, src/rtps/writer.rs:542-661
   Shared cells: q = number of DDSData commands in cc_upload (capacity [cap], 16 in pubsub.rs:459),
   cwk = cc_upload_waker is Some, woken = the task's waker was invoked and the task not polled since.

   Producer steps:
     P_recv   writer_command_receiver.try_recv()                         writer.rs:543
     P_wake   writer_command_receiver_waker.lock().as_ref().map(wake_by_ref)   writer.rs:551-558
              (as_ref: the waker stays stored and is invoked again after every later pop)
   Consumer steps, code as found (fixed = false):
     C_send   cc_upload.try_send(wc); Ok -> Ready (next write); Full -> C_store    datawriter.rs:977-985
     C_store  *cc_upload_waker.lock() = Some(cx.waker().clone()); return Pending  :986-990
              (the time-out branch :991-996 is not modelled: max_blocking_time is taken as
              infinite; nothing would poll the future at the time-out anyway)
   Consumer steps, repaired code (fixed = true):
     C_store  as above, then
     C_retry  cc_upload.try_send(wc) again; Ok -> Ready; Full -> Pending
   C_parked: the executor polls the task again only after its waker was invoked (assumption). *)
From Coq Require Import List ZArith Bool Lia.
From RD Require Import C13.Sched.
Import ListNotations.
Open Scope Z_scope.

Module W.

Inductive ppc := P_recv | P_wake.
Inductive cpc := C_send | C_store | C_retry | C_parked | C_finished.

Record st := mk {
  fixed : bool;
  cap : Z;
  n : Z;        (* writes the task wants to perform *)
  sent : Z;     (* writes completed (Ready(Ok)) *)
  q : Z;
  cwk : bool;
  woken : bool;
  pp : ppc;
  cp : cpc;
  polls : Z;
  wakes : Z;
  pends : Z
}.

Definition init (fixed : bool) (cap n : Z) : st :=
  mk fixed cap n 0 0 false false P_recv (if n <=? 0 then C_finished else C_send) 0 0 0.

Definition stepP (s : st) : st :=
  let '(mk fx cap n sent q cwk woken pp cp polls wakes pends) := s in
  match pp with
  | P_recv => if 0 <? q then mk fx cap n sent (q - 1) cwk woken P_wake cp polls wakes pends else s
  | P_wake => if cwk then mk fx cap n sent q cwk true P_recv cp polls (wakes + 1) pends
              else mk fx cap n sent q cwk woken P_recv cp polls wakes pends
  end.

Definition after_send (n sent : Z) : cpc := if sent + 1 <? n then C_send else C_finished.

Definition stepC (s : st) : st :=
  let '(mk fx cap n sent q cwk woken pp cp polls wakes pends) := s in
  match cp with
  | C_send =>
      if q <? cap then mk fx cap n (sent + 1) (q + 1) cwk woken pp (after_send n sent) (polls + 1) wakes pends
      else mk fx cap n sent q cwk woken pp C_store (polls + 1) wakes pends
  | C_store =>
      if fx then mk fx cap n sent q true woken pp C_retry polls wakes pends
      else mk fx cap n sent q true woken pp C_parked polls wakes (pends + 1)
  | C_retry =>
      if q <? cap then mk fx cap n (sent + 1) (q + 1) cwk woken pp (after_send n sent) polls wakes pends
      else mk fx cap n sent q cwk woken pp C_parked polls wakes (pends + 1)
  | C_parked => if woken then mk fx cap n sent q cwk false pp C_send polls wakes pends else s
  | C_finished => s
  end.

Definition step (t : tid) (s : st) : st := match t with P => stepP s | C => stepC s end.
Definition exec (fixed : bool) (cap n : Z) (l : schedule) : st := exec_from step (init fixed cap n) l.

Definition parked (s : st) : Prop := cp s = C_parked.
Definition room (s : st) : Prop := q s < cap s.
Definition wake_pending (s : st) : Prop := woken s = true \/ (pp s = P_wake /\ cwk s = true).
Definition producer_idle (s : st) : bool :=
  match pp s with P_recv => q s =? 0 | _ => false end.
Definition consumer_blocked (s : st) : bool :=
  match cp s with C_parked => negb (woken s) | C_finished => true | _ => false end.
Definition quiescent (s : st) : bool := producer_idle s && consumer_blocked s.

End W.
