(* C13 handshake (D): DataWriter::async_wait_for_acknowledgments  ||  rtps::Writer.

   Consumer C = the task polling AsyncWaitForAcknowledgments::poll
                                                    src/dds/with_key/datawriter.rs:1046-1128
   Producer P = the event-loop thread in Writer::process_writer_command
                                                    src/rtps/writer.rs:542-661
   Shared cells:
     q     the DataWriter -> Writer command queue cc_upload (mio_extras sync_channel, capacity [cap],
           16 in pubsub.rs:459), holding the DDSData commands of earlier writes ([Data]) and the
           WaitForAcknowledgments command ([WaitAck])
     cwk   cc_upload_waker / writer_command_receiver_waker is Some   (datawriter.rs:166, writer.rs:274)
     chan  the one-slot status channel created for this wait (sync_status_channel(1),
           datawriter.rs:1203): number of completion tokens in it
     swk   the waker slot of that status channel (statusevents.rs:85,91)
     woken the task's waker was invoked and the task was not polled since

   Producer steps:
     P_recv      writer_command_receiver.try_recv()                      writer.rs:543
     P_wake      (after a DDSData) writer_command_receiver_waker.lock().as_ref().map(wake_by_ref)
                                                                         writer.rs:551-558
                 NB as_ref: the waker stays stored
     P_complete  (after WaitForAcknowledgments, when all matched reliable readers have acknowledged —
                 at once when none is pending, writer.rs:644-649, else later in update_ack_waiters,
                 writer.rs:1126-1137)  all_acked.try_send(()) = StatusChannelSender::try_send
                 statusevents.rs:96-118: under the waker mutex {actual_sender.try_send,
                 signal_sender.send, wake the stored waker, clear the slot} — one atomic step
   Consumer steps, code as found (fixed = false), datawriter.rs as of the pinned commit:
     C_poll/WSC      cc_upload.try_send(WaitForAcknowledgments); Ok -> state Waiting, return Pending
                     (:1099-1102);  Full -> state stays, return Pending (:1104-1113).  No waker is
                     registered anywhere on either path  (finding F9).
     C_poll/Waiting  poll_next of the status stream, statusevents.rs:225-242: under the waker mutex
                     {try_recv; Empty -> store cx.waker(), Pending; Ok -> Ready} — one atomic step
   Consumer steps, repaired code (fixed = true):
     C_poll/WSC      try_send; Ok -> state Waiting and go on to C_recv in the same poll call;
                     Full -> C_store
     C_store         *cc_upload_waker.lock() = Some(cx.waker().clone())
     C_retry         try_send again; Ok -> C_recv; Full -> state WSC, return Pending
     C_recv          = C_poll/Waiting above (registers the waker when the token is not there yet)
   C_parked: the executor polls the task again only after its waker was invoked (assumption). *)
From Coq Require Import List ZArith Bool Lia.
From RD Require Import C13.Sched.
Import ListNotations.
Open Scope Z_scope.

Module D.

Inductive cmd := Data | WaitAck.
Inductive ppc := P_recv | P_wake | P_complete.
Inductive fut := WSC | Waiting | FDone.
Inductive cpc := C_poll | C_store | C_retry | C_recv | C_parked | C_finished.

Record st := mk {
  fixed : bool;
  cap : Z;
  q : list cmd;
  cwk : bool;
  chan : Z;
  swk : bool;
  woken : bool;
  f : fut;
  pp : ppc;
  cp : cpc;
  polls : Z;
  wakes : Z;
  pends : Z
}.

Definition init (fixed : bool) (cap q0 : Z) : st :=
  mk fixed cap (repeat Data (Z.to_nat q0)) false 0 false false WSC P_recv C_poll 0 0 0.

Definition len (l : list cmd) : Z := Z.of_nat (length l).

Definition stepP (s : st) : st :=
  let '(mk fx cap q cwk chan swk woken f pp cp polls wakes pends) := s in
  match pp with
  | P_recv =>
      match q with
      | [] => s
      | Data :: q' => mk fx cap q' cwk chan swk woken f P_wake cp polls wakes pends
      | WaitAck :: q' => mk fx cap q' cwk chan swk woken f P_complete cp polls wakes pends
      end
  | P_wake =>
      if cwk then mk fx cap q cwk chan swk true f P_recv cp polls (wakes + 1) pends
      else mk fx cap q cwk chan swk woken f P_recv cp polls wakes pends
  | P_complete =>
      (* capacity 1: a second token would be dropped (Full is turned into Ok) *)
      if swk then mk fx cap q cwk 1 false true f P_recv cp polls (wakes + 1) pends
      else mk fx cap q cwk 1 false woken f P_recv cp polls wakes pends
  end.

(* poll_next of the status stream *)
Definition recv_step (s : st) : st :=
  let '(mk fx cap q cwk chan swk woken f pp cp polls wakes pends) := s in
  if 0 <? chan then mk fx cap q cwk (chan - 1) swk woken FDone pp C_finished polls wakes pends
  else mk fx cap q cwk chan true woken f pp C_parked polls wakes (pends + 1).

Definition stepC (s : st) : st :=
  let '(mk fx cap q cwk chan swk woken f pp cp polls wakes pends) := s in
  match cp with
  | C_poll =>
      match f with
      | WSC =>
          if len q <? cap then
            if fx then mk fx cap (q ++ [WaitAck]) cwk chan swk woken Waiting pp C_recv (polls + 1) wakes pends
            else mk fx cap (q ++ [WaitAck]) cwk chan swk woken Waiting pp C_parked (polls + 1) wakes (pends + 1)
          else
            if fx then mk fx cap q cwk chan swk woken f pp C_store (polls + 1) wakes pends
            else mk fx cap q cwk chan swk woken f pp C_parked (polls + 1) wakes (pends + 1)
      | Waiting => recv_step (mk fx cap q cwk chan swk woken f pp cp (polls + 1) wakes pends)
      | FDone => mk fx cap q cwk chan swk woken f pp C_finished (polls + 1) wakes pends
      end
  | C_store => mk fx cap q true chan swk woken f pp C_retry polls wakes pends
  | C_retry =>
      if len q <? cap then mk fx cap (q ++ [WaitAck]) cwk chan swk woken Waiting pp C_recv polls wakes pends
      else mk fx cap q cwk chan swk woken f pp C_parked polls wakes (pends + 1)
  | C_recv => recv_step s
  | C_parked => if woken then mk fx cap q cwk chan swk false f pp C_poll polls wakes pends else s
  | C_finished => s
  end.

Definition step (t : tid) (s : st) : st := match t with P => stepP s | C => stepC s end.
Definition exec (fixed : bool) (cap q0 : Z) (l : schedule) : st :=
  exec_from step (init fixed cap q0) l.

Definition parked (s : st) : Prop := cp s = C_parked.
Definition completion_sent (s : st) : Prop := f s = Waiting /\ 0 < chan s.
Definition room (s : st) : Prop := f s = WSC /\ len (q s) < cap s.
Definition wake_pending (s : st) : Prop := woken s = true \/ (pp s = P_wake /\ cwk s = true).
Definition producer_idle (s : st) : bool :=
  match pp s, q s with P_recv, [] => true | _, _ => false end.
Definition consumer_blocked (s : st) : bool :=
  match cp s with C_parked => negb (woken s) | C_finished => true | _ => false end.
Definition quiescent (s : st) : bool := producer_idle s && consumer_blocked s.
Definition complete (s : st) : bool := match f s with FDone => true | _ => false end.

End D.
