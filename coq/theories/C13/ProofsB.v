(* C13 handshake (B): mio-0.6 / mio-0.8 polling — inductive invariant and no-lost-wakeup. *)
From Coq Require Import List ZArith Bool Lia.
From RD Require Import C13.Sched C13.ModelB.
Import ListNotations.
Open Scope Z_scope.
Import B.

Record Inv (s : st) : Prop := {
  b_rng : 0 <= taken s <= ins s /\ ins s <= n s /\ 0 <= pipe s <= pcap s /\ 0 <= q06 s <= c06 s
          /\ 0 <= loc s /\ 0 <= deliv s /\ deliv s + loc s = taken s /\ 1 <= pcap s /\ 1 <= c06 s;
  b_loc : cp s = C_poll -> loc s = 0;
  (* bytes / messages whose readiness event was already consumed are about to be drained *)
  b_k08 : var s = V08 -> 0 < pipe s -> ev08 s = true \/ cp s = C_drain06 \/ cp s = C_drain08;
  b_k06 : var s = V06 -> 0 < q06 s -> qd06 s = true \/ cp s = C_drain06;
  (* an untaken sample is announced, about to be announced, or the consumer is still going to
     look into the cache before it polls again *)
  b_j08 : var s = V08 -> taken s < ins s ->
          (pp s = P_wake \/ pp s = P_poll) \/ (ev08 s = true /\ 0 < pipe s)
          \/ (cp s = C_drain06 \/ cp s = C_drain08 \/ cp s = C_fill);
  b_j06 : var s = V06 -> taken s < ins s ->
          (pp s = P_wake \/ pp s = P_poll \/ pp s = P_chan) \/ (qd06 s = true /\ 0 < q06 s)
          \/ (cp s = C_drain06 \/ cp s = C_drain08 \/ cp s = C_fill);
  b_cnt : 0 <= takes s /\ 0 <= events s /\ 0 <= empties s
}.

Lemma inv_init : forall v n pcap c06, 0 <= n -> 1 <= pcap -> 1 <= c06 -> Inv (init v n pcap c06).
Proof.
  intros. constructor; simpl; intros; try lia; auto.
Qed.

Ltac brk :=
  repeat match goal with
  | H : _ /\ _ |- _ => destruct H
  end.

Ltac sat :=
  repeat match goal with
  | H : ?x = ?x -> _ |- _ => specialize (H eq_refl)
  | H : ?a = ?b -> _ |- _ => assert (a <> b) by discriminate; clear H
  end.

Ltac arith_prem :=
  repeat match goal with
  | H : (?a < ?b)%Z -> _ |- _ =>
      first [ let X := fresh "X" in assert (X : (a < b)%Z) by lia; specialize (H X)
            | let X := fresh "X" in assert (X : ~ (a < b)%Z) by lia; clear H ]
  end.

Ltac fld :=
  simpl in *; intros; brk; sat; subst;
  try discriminate; try lia; auto; arith_prem;
  try solve [ intuition (try discriminate; try lia; auto) ].

Ltac zb :=
  repeat match goal with
  | |- context [?a <? ?b] => destruct (Z.ltb_spec a b)
  | |- context [?a =? ?b] => destruct (Z.eqb_spec a b)
  end.

Lemma inv_stepP : forall s, Inv s -> Inv (stepP s).
Proof.
  intros [v n pcap c06 ins taken loc deliv pipe ev08 q06 qd06 pp cp takes events empties]
         [H1 H2 H3 H4 H5 H6 H7]; simpl in *.
  destruct pp; simpl; zb; destruct v; constructor; fld.
Qed.

Lemma inv_stepC : forall s, Inv s -> Inv (stepC s).
Proof.
  intros [v n pcap c06 ins taken loc deliv pipe ev08 q06 qd06 pp cp takes events empties]
         [H1 H2 H3 H4 H5 H6 H7]; simpl in *.
  destruct cp; simpl.
  - destruct v; [destruct qd06|destruct ev08]; simpl; zb; constructor; fld.
  - zb; destruct v; constructor; fld.
  - destruct v; constructor; fld.
  - zb; destruct v; constructor; fld.
  - zb; destruct v; constructor; fld.
Qed.

Lemma inv_step : forall t s, Inv s -> Inv (step t s).
Proof. intros [] s H; [apply inv_stepP | apply inv_stepC]; auto. Qed.

Lemma inv_exec : forall v n pcap c06 l, 0 <= n -> 1 <= pcap -> 1 <= c06 ->
  Inv (exec v n pcap c06 l).
Proof.
  intros. unfold exec. apply (Sched.inv_exec step Inv inv_step). apply inv_init; auto.
Qed.

(* --- the property --- *)
Lemma no_lost_wakeup : forall v n pcap c06 l, 0 <= n -> 1 <= pcap -> 1 <= c06 ->
  let s := exec v n pcap c06 l in parked s -> available s -> wake_pending s.
Proof.
  intros v n pcap c06 l Hn Hp Hc s Hpk Hav.
  destruct (inv_exec v n pcap c06 l Hn Hp Hc) as [H1 H2 H3 H4 H5 H6 H7].
  fold s in H1, H2, H3, H4, H5, H6.
  unfold parked, available, wake_pending, event_ready, mid_notify in *.
  destruct (var s) eqn:V.
  - destruct (H6 eq_refl Hav) as [[X|[X|X]]|[[X Y]|[X|[X|X]]]]; try congruence;
      try (rewrite X; auto; fail).
    left. rewrite X. simpl. apply Z.ltb_lt. exact Y.
  - destruct (H5 eq_refl Hav) as [[X|X]|[[X Y]|[X|[X|X]]]]; try congruence;
      try (rewrite X; auto; fail).
    left. rewrite X. simpl. apply Z.ltb_lt. exact Y.
Qed.

Lemma n_step : forall t s, B.n (step t s) = B.n s.
Proof.
  intros t [v n pcap c06 ins taken loc deliv pipe ev08 q06 qd06 pp cp takes events empties];
    destruct t; simpl; [destruct pp|destruct cp; try destruct v]; simpl;
    repeat match goal with |- context [if ?b then _ else _] => destruct b end; reflexivity.
Qed.

Lemma n_const : forall v n0 pcap c06 l, B.n (exec v n0 pcap c06 l) = n0.
Proof.
  intros. unfold exec. apply (Sched.inv_exec step (fun s => B.n s = n0)).
  - intros t s H. rewrite n_step. exact H.
  - reflexivity.
Qed.

(* when the producer is done and the consumer's poll has nothing to report, everything was handed
   to the application *)
Lemma quiescent_all_delivered : forall v n pcap c06 l, 0 <= n -> 1 <= pcap -> 1 <= c06 ->
  let s := exec v n pcap c06 l in quiescent s = true -> deliv s = n /\ taken s = ins s.
Proof.
  intros v n pcap c06 l Hn Hp Hc s Q.
  pose proof (no_lost_wakeup v n pcap c06 l Hn Hp Hc) as NL. fold s in NL. cbv zeta in NL.
  destruct (inv_exec v n pcap c06 l Hn Hp Hc) as [H1 H2 H3 H4 H5 H6 H7].
  fold s in H1, H2, H3, H4, H5, H6.
  pose proof (n_const v n pcap c06 l) as N. fold s in N.
  unfold quiescent, producer_done, consumer_blocked in Q.
  apply andb_true_iff in Q as [Q1 Q2].
  destruct (pp s) eqn:PP; try discriminate. apply Z.eqb_eq in Q1.
  destruct (cp s) eqn:CP; try discriminate. apply negb_true_iff in Q2.
  assert (T : taken s = ins s).
  { destruct (Z.lt_ge_cases (taken s) (ins s)) as [L|G]; [|lia].
    destruct (NL CP L) as [X|X]; [congruence|].
    unfold mid_notify in X. rewrite PP in X. destruct (var s); discriminate. }
  specialize (H2 eq_refl). split; [lia|exact T].
Qed.

(* liveness under weak fairness of the producer: a parked consumer with an untaken sample gets its
   readiness event after at most 3 further producer steps (the notification it listens to is the
   last of the three notify steps), whatever else is scheduled in between *)
Definition dist (s : st) : nat :=
  if event_ready s then O else
  match var s, pp s with
  | V08, P_wake => 2 | V08, P_poll => 1
  | V06, P_wake => 3 | V06, P_poll => 2 | V06, P_chan => 1
  | _, _ => O
  end%nat.

Definition waiting (k : nat) (s : st) : Prop :=
  Inv s /\ cp s = C_poll /\ taken s < ins s /\ dist s = k.

Lemma waiting_0 : forall s, waiting O s -> event_ready s = true.
Proof.
  intros s (HI & Hc & Ha & Hd). destruct (event_ready s) eqn:E; auto. exfalso.
  destruct HI as [H1 H2 H3 H4 H5 H6 H7].
  unfold dist in Hd. rewrite E in Hd. unfold event_ready in E.
  destruct (var s) eqn:V.
  - destruct (H6 eq_refl Ha) as [[X|[X|X]]|[[X Y]|[X|[X|X]]]]; try congruence;
      try (rewrite X in Hd; discriminate).
    rewrite X in E. simpl in E. apply Z.ltb_ge in E. lia.
  - destruct (H5 eq_refl Ha) as [[X|X]|[[X Y]|[X|[X|X]]]]; try congruence;
      try (rewrite X in Hd; discriminate).
    rewrite X in E. simpl in E. apply Z.ltb_ge in E. lia.
Qed.

Lemma waiting_C : forall k s, waiting (Datatypes.S k) s -> waiting (Datatypes.S k) (step C s).
Proof.
  intros k s (HI & Hc & Ha & Hd). split; [apply inv_step; exact HI|].
  destruct s as [v n pcap c06 ins taken loc deliv pipe ev08 q06 qd06 pp cp takes events empties];
    simpl in *; subst cp.
  unfold dist, event_ready in *; simpl in *.
  destruct v; [destruct qd06|destruct ev08]; simpl in *;
    repeat match goal with
    | |- context [?a <? ?b] => destruct (Z.ltb_spec a b)
    | H : context [?a <? ?b] |- _ => destruct (Z.ltb_spec a b)
    end; simpl in *; try discriminate; try lia; auto.
Qed.

Lemma waiting_P : forall k s, waiting (Datatypes.S k) s -> waiting k (step P s).
Proof.
  intros k s (HI & Hc & Ha & Hd). split; [apply inv_step; exact HI|].
  destruct HI as [H1 H2 H3 H4 H5 H6 H7].
  destruct s as [v n pcap c06 ins taken loc deliv pipe ev08 q06 qd06 pp cp takes events empties];
    simpl in *; subst cp.
  unfold dist, event_ready in *; simpl in *.
  destruct v, pp; simpl in *;
    destruct ev08, qd06; simpl in *;
    repeat match goal with
    | |- context [?a <? ?b] => destruct (Z.ltb_spec a b)
    | |- context [?a =? ?b] => destruct (Z.eqb_spec a b)
    | H : context [?a <? ?b] |- _ => destruct (Z.ltb_spec a b)
    end; simpl in *; try discriminate; try lia;
    repeat split; auto; try lia; try congruence;
    try (exfalso; intuition (try discriminate; try lia; fail)).
Qed.

Lemma eventually_ready : forall v n pcap c06 l ext, 0 <= n -> 1 <= pcap -> 1 <= c06 ->
  let s := exec v n pcap c06 l in parked s -> available s ->
  (3 <= count_occ tid_eq_dec ext P)%nat ->
  exists e1 e2, ext = e1 ++ e2 /\ event_ready (exec v n pcap c06 (l ++ e1)) = true.
Proof.
  intros v n pcap c06 l ext Hn Hp Hc s Hpk Hav Hcnt.
  assert (W : waiting (dist s) s).
  { split; [apply inv_exec; auto | repeat split; auto]. }
  assert (D3 : (dist s <= 3)%nat).
  { unfold dist. destruct (event_ready s); [lia|]. destruct (var s), (pp s); lia. }
  destruct (within_P step waiting (fun s => event_ready s = true) waiting_C waiting_P waiting_0
              ext (dist s) s W) as (e1 & e2 & E & HB); [lia|].
  exists e1, e2. split; auto. unfold exec. rewrite exec_from_app. exact HB.
Qed.

(* ... and a consumer whose poll has an event to report moves on with its next step *)
Lemma ready_runs : forall s, cp s = C_poll -> event_ready s = true -> cp (step C s) = C_drain06.
Proof.
  intros [v n pcap c06 ins taken loc deliv pipe ev08 q06 qd06 pp cp takes events empties] Hc He;
    simpl in *; subst cp. unfold event_ready in He; simpl in He.
  destruct v; apply andb_true_iff in He as [E1 E2]; rewrite E1, E2; reflexivity.
Qed.
