(* C13 handshake (D2): the status-event channel used for every status stream and for the completion
   token of (D):  StatusChannelSender::try_send  ||  StatusReceiverStream::poll_next
                                                       src/dds/statusevents.rs:94-118, 222-243
   Both sides take the shared waker mutex FIRST and hold it for the whole operation, so each is one
   atomic step:
     P_send  { w = waker.lock(); actual_sender.try_send(t) (Full: the event is dropped, by design);
               signal_sender.send(); wake the stored waker; *w = None }
     C_poll  { w = waker.lock(); try_recv(): Ok -> Ready(Some(t));  Empty -> *w = Some(cx.waker()), Pending }
   [n] events are sent in total; capacity [cap] of the channel. *)
From Coq Require Import List ZArith Bool Lia.
From RD Require Import C13.Sched.
Import ListNotations.
Open Scope Z_scope.

Module S.

Inductive cpc := C_poll | C_parked.

Record st := mk {
  n : Z; cap : Z;
  sent : Z;       (* try_send calls made *)
  dropped : Z;    (* of which the channel was full *)
  chan : Z;
  swk : bool;
  woken : bool;
  cp : cpc;
  deliv : Z;
  polls : Z; wakes : Z; pends : Z
}.

Definition init (n cap : Z) : st := mk n cap 0 0 0 false false C_poll 0 0 0 0.

Definition stepP (s : st) : st :=
  let '(mk n cap sent dropped chan swk woken cp deliv polls wakes pends) := s in
  if sent <? n then
    let chan' := if chan <? cap then chan + 1 else chan in
    let dropped' := if chan <? cap then dropped else dropped + 1 in
    if swk then mk n cap (sent + 1) dropped' chan' false true cp deliv polls (wakes + 1) pends
    else mk n cap (sent + 1) dropped' chan' false woken cp deliv polls wakes pends
  else s.

Definition stepC (s : st) : st :=
  let '(mk n cap sent dropped chan swk woken cp deliv polls wakes pends) := s in
  match cp with
  | C_poll =>
      if 0 <? chan then mk n cap sent dropped (chan - 1) swk woken C_poll (deliv + 1) (polls + 1) wakes pends
      else mk n cap sent dropped chan true woken C_parked deliv (polls + 1) wakes (pends + 1)
  | C_parked => if woken then mk n cap sent dropped chan swk false C_poll deliv polls wakes pends else s
  end.

Definition step (t : tid) (s : st) : st := match t with P => stepP s | C => stepC s end.
Definition exec (n cap : Z) (l : schedule) : st := exec_from step (init n cap) l.

Definition parked (s : st) : Prop := cp s = C_parked.
Definition available (s : st) : Prop := 0 < chan s.
Definition producer_done (s : st) : bool := sent s =? n s.
Definition consumer_blocked (s : st) : bool :=
  match cp s with C_parked => negb (woken s) | _ => false end.
Definition quiescent (s : st) : bool := producer_done s && consumer_blocked s.

End S.
