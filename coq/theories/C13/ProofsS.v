(* C13 handshake (D2): status channel — both sides are atomic under the waker mutex. *)
From Coq Require Import List ZArith Bool Lia.
From RD Require Import C13.Sched C13.ModelS.
Import ListNotations.
Open Scope Z_scope.
Import S.

Record Inv (s : st) : Prop := {
  s_rng : 0 <= chan s <= cap s /\ 0 <= sent s <= n s /\ 0 <= dropped s /\ 0 <= deliv s
          /\ deliv s + chan s + dropped s = sent s;
  s_wk : cp s = C_parked -> swk s = true \/ woken s = true;
  s_tok : cp s = C_parked -> 0 < chan s -> woken s = true;
  s_nodrop : n s <= cap s -> dropped s = 0;
  s_cnt : 0 <= polls s /\ 0 <= wakes s /\ 0 <= pends s
}.

Lemma inv_init : forall n cap, 0 <= n -> 0 <= cap -> Inv (init n cap).
Proof. intros; constructor; simpl; intros; try lia; try discriminate; auto. Qed.

Ltac brk := repeat match goal with H : _ /\ _ |- _ => destruct H end.
Ltac sat :=
  repeat match goal with
  | H : ?x = ?x -> _ |- _ => specialize (H eq_refl)
  | H : ?a = ?b -> _ |- _ => assert (a <> b) by discriminate; clear H
  end.
Ltac fld :=
  simpl in *; intros; brk; sat; subst; try discriminate; try lia; auto;
  try solve [ intuition (try discriminate; try lia; auto) ].

Lemma inv_step : forall t s, Inv s -> Inv (step t s).
Proof.
  intros t [n cap sent dropped chan swk woken cp deliv polls wakes pends] [H1 H2 H3 H4 H5];
    simpl in *.
  destruct t; simpl.
  - destruct (Z.ltb_spec sent n); [|constructor; auto].
    destruct (Z.ltb_spec chan cap); destruct swk; constructor; fld.
  - destruct cp; simpl.
    + destruct (Z.ltb_spec 0 chan); constructor; fld.
    + destruct woken; constructor; fld.
Qed.

Lemma inv_exec : forall n cap l, 0 <= n -> 0 <= cap -> Inv (exec n cap l).
Proof.
  intros. unfold exec. apply (Sched.inv_exec step Inv inv_step). apply inv_init; auto.
Qed.

(* a parked stream with an event in the channel has been woken *)
Lemma no_lost_wakeup : forall n cap l, 0 <= n -> 0 <= cap ->
  let s := exec n cap l in parked s -> available s -> woken s = true.
Proof.
  intros n cap l Hn Hc s Hp Ha. destruct (inv_exec n cap l Hn Hc) as [H1 H2 H3 H4 H5].
  apply H3; auto.
Qed.

Lemma n_const : forall n0 cap0 l, S.n (exec n0 cap0 l) = n0 /\ S.cap (exec n0 cap0 l) = cap0.
Proof.
  intros. unfold exec. apply (Sched.inv_exec step (fun s => S.n s = n0 /\ S.cap s = cap0)).
  - intros t [n cap' sent dropped chan swk woken cp deliv polls wakes pends] H; destruct t; simpl in *;
      [|destruct cp]; simpl;
      repeat match goal with |- context [if ?b then _ else _] => destruct b end; simpl; exact H.
  - split; reflexivity.
Qed.

Lemma quiescent_all_delivered : forall n cap l, 0 <= n -> n <= cap ->
  let s := exec n cap l in quiescent s = true -> deliv s = n /\ chan s = 0.
Proof.
  intros n cap l Hn Hc s Q. assert (Hc0 : 0 <= cap) by lia.
  destruct (inv_exec n cap l Hn Hc0) as [H1 H2 H3 H4 H5]. fold s in H1, H2, H3, H4.
  destruct (n_const n cap l) as [N1 N2]. fold s in N1, N2.
  unfold quiescent, producer_done, consumer_blocked in Q.
  apply andb_true_iff in Q as [Q1 Q2]. apply Z.eqb_eq in Q1.
  destruct (cp s) eqn:CP; try discriminate. apply negb_true_iff in Q2.
  assert (chan s = 0).
  { destruct (Z.lt_ge_cases 0 (chan s)) as [L|G]; [|lia]. rewrite (H3 eq_refl L) in Q2. discriminate. }
  rewrite H4 in H1 by lia. lia.
Qed.

Lemma woken_runs : forall s, cp s = C_parked -> woken s = true -> cp (step C s) = C_poll.
Proof.
  intros [n cap sent dropped chan swk woken cp deliv polls wakes pends] Hc Hw; simpl in *; subst.
  reflexivity.
Qed.
