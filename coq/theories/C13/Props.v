(* C13 — property theorems only.  exec = state after a schedule (a list of thread ids, one entry =
   one atomic step of that thread), from the initial state of the handshake. *)
From Coq Require Import List ZArith Bool.
From RD Require Import Common.Corr.
From RD Require Import C13.Sched C13.ModelA C13.ModelD C13.Model C13.ProofsA C13.ProofsD C13.Proofs.
Import ListNotations.
Open Scope Z_scope.

(* ---- (A) async sample stream: Reader::notify_cache_change || SimpleDataReaderStream::poll_next *)

(* every schedule, any number of samples: a parked consumer with an available, untaken sample has
   a wake pending (its waker was invoked, or the producer stands right before take-and-wake with
   the waker stored) *)
Theorem C13_no_lost_wakeup_A : forall n l, 0 <= n ->
  let s := A.exec n l in A.parked s -> A.available s -> A.wake_pending s.
Proof. exact ProofsA.no_lost_wakeup. Qed.
Print Assumptions C13_no_lost_wakeup_A.

(* weak fairness of the producer: in every continuation in which the producer moves at least once
   the waker has been invoked at some point; a woken parked consumer polls again with its next step *)
Theorem C13_eventually_A : forall n l ext, 0 <= n ->
  let s := A.exec n l in A.parked s -> A.available s -> In P ext ->
  exists e1 e2, ext = e1 ++ e2 /\ A.woken (A.exec n (l ++ e1)) = true.
Proof. exact ProofsA.eventually_woken. Qed.
Print Assumptions C13_eventually_A.

Theorem C13_woken_runs_A : forall s,
  A.cp s = A.C_parked -> A.woken s = true -> A.cp (A.step C s) = A.C_take1.
Proof. exact ProofsA.woken_runs. Qed.

(* whenever producer and consumer have come to rest every sample was delivered *)
Theorem C13_quiescent_A : forall n l, 0 <= n ->
  let s := A.exec n l in A.quiescent s = true -> A.taken s = n.
Proof. exact ProofsA.quiescent_all_taken. Qed.
Print Assumptions C13_quiescent_A.

Example C13_A_nonvacuous :
  let s := A.exec 1 [C; C; C; P] in A.parked s /\ A.available s /\ A.woken s = false.
Proof. vm_compute. repeat split; reflexivity. Qed.

(* ---- (D) async_wait_for_acknowledgments || Writer completion ------------------------------ *)

(* code as found (F9): after [C; P; P] the completion token is in the channel, the future is
   parked, its waker was never registered, and no continuation changes anything *)
Theorem C13_D_old_refuted : forall cap, 1 <= cap ->
  let s := D.exec false cap 0 [C; P; P] in
  D.parked s /\ D.completion_sent s /\ D.woken s = false
  /\ forall ext, D.exec false cap 0 ([C; P; P] ++ ext) = s.
Proof. exact ProofsD.old_refuted. Qed.
Print Assumptions C13_D_old_refuted.

(* code as found, full command queue: Pending without a waker, stuck although room was made *)
Theorem C13_D_old_full_refuted :
  let s := D.exec false 1 1 [C; P; P] in
  D.parked s /\ D.room s /\ D.woken s = false
  /\ forall ext, D.exec false 1 1 ([C; P; P] ++ ext) = s.
Proof. exact ProofsD.old_full_refuted. Qed.

(* repaired code, every schedule, every queue capacity and fill level: a parked future whose
   completion was sent has been woken; one that waits for room in the command queue while there is
   room has a wake pending *)
Theorem C13_no_lost_wakeup_D : forall cap q0 l, 1 <= cap -> 0 <= q0 <= cap ->
  let s := D.exec true cap q0 l in
  D.parked s -> (D.completion_sent s -> D.woken s = true) /\ (D.room s -> D.wake_pending s).
Proof. exact ProofsD.no_lost_wakeup. Qed.
Print Assumptions C13_no_lost_wakeup_D.

Theorem C13_eventually_D : forall cap q0 l ext, 1 <= cap -> 0 <= q0 <= cap ->
  let s := D.exec true cap q0 l in
  D.parked s -> D.completion_sent s \/ D.room s -> In P ext ->
  exists e1 e2, ext = e1 ++ e2 /\ D.woken (D.exec true cap q0 (l ++ e1)) = true.
Proof. exact ProofsD.eventually_woken. Qed.
Print Assumptions C13_eventually_D.

(* whenever writer and future have come to rest the future has completed *)
Theorem C13_quiescent_D : forall cap q0 l, 1 <= cap -> 0 <= q0 <= cap ->
  let s := D.exec true cap q0 l in D.quiescent s = true -> D.complete s = true.
Proof. exact ProofsD.quiescent_complete. Qed.
Print Assumptions C13_quiescent_D.

(* ---- oracle ------------------------------------------------------------------------------- *)
Theorem C13_model_ok : forall c, ok c (run c) = true.
Proof. exact run_ok. Qed.
Print Assumptions C13_model_ok.

Theorem C13_oracle_sound : forall c o, ok c o = true <-> ok_P c o.
Proof. exact ok_spec. Qed.
Print Assumptions C13_oracle_sound.
