(* C13 — property theorems only.  exec = state after a schedule (a list of thread ids, one entry =
   one atomic step of that thread), from the initial state of the handshake. *)
From Coq Require Import List ZArith Bool.
From RD Require Import Common.Corr.
From RD Require Import C13.Sched C13.ModelA C13.ModelB C13.ModelC C13.ModelD C13.ModelS C13.Model.
From RD Require Import C13.ProofsA C13.ProofsB C13.ProofsC C13.ProofsD C13.ProofsS C13.Proofs.
Import ListNotations.
Open Scope Z_scope.

(* ---- (A) async sample stream: Reader::notify_cache_change || SimpleDataReaderStream::poll_next *)

(* every schedule, any number of samples: a parked consumer with an available, untaken sample has
   a wake pending (its waker was invoked, or the producer stands right before take-and-wake with
   the waker stored) *)
Theorem C13_no_lost_wakeup_A : forall n l, 0 <= n ->
  let s := A.exec n l in A.parked s -> A.available s -> A.wake_pending s.
Proof. exact ProofsA.no_lost_wakeup. Qed.
Print Assumptions C13_no_lost_wakeup_A.

(* weak fairness of the producer: in every continuation in which the producer moves at least once
   the waker has been invoked at some point; a woken parked consumer polls again with its next step *)
Theorem C13_eventually_A : forall n l ext, 0 <= n ->
  let s := A.exec n l in A.parked s -> A.available s -> In P ext ->
  exists e1 e2, ext = e1 ++ e2 /\ A.woken (A.exec n (l ++ e1)) = true.
Proof. exact ProofsA.eventually_woken. Qed.
Print Assumptions C13_eventually_A.

Theorem C13_woken_runs_A : forall s,
  A.cp s = A.C_parked -> A.woken s = true -> A.cp (A.step C s) = A.C_take1.
Proof. exact ProofsA.woken_runs. Qed.

(* whenever producer and consumer have come to rest every sample was delivered *)
Theorem C13_quiescent_A : forall n l, 0 <= n ->
  let s := A.exec n l in A.quiescent s = true -> A.taken s = n.
Proof. exact ProofsA.quiescent_all_taken. Qed.
Print Assumptions C13_quiescent_A.

Example C13_A_nonvacuous :
  let s := A.exec 1 [C; C; C; P] in A.parked s /\ A.available s /\ A.woken s = false.
Proof. vm_compute. repeat split; reflexivity. Qed.

(* ---- (B) mio-0.6 / mio-0.8: notification channel / poll-event pipe || {poll, drain, take*} ------ *)

(* every schedule, any number of samples, both mio variants, any capacities: a consumer standing at
   poll with an untaken sample in the cache either gets a readiness event from its next poll or the
   producer is still between its insert and the notification this consumer listens to *)
Theorem C13_no_lost_wakeup_B : forall v n pcap c06 l, 0 <= n -> 1 <= pcap -> 1 <= c06 ->
  let s := B.exec v n pcap c06 l in B.parked s -> B.available s -> B.wake_pending s.
Proof. exact ProofsB.no_lost_wakeup. Qed.
Print Assumptions C13_no_lost_wakeup_B.

(* weak fairness of the producer: after at most 3 further producer steps, whatever the consumer
   thread does in between, the next poll reports the reader *)
Theorem C13_eventually_B : forall v n pcap c06 l ext, 0 <= n -> 1 <= pcap -> 1 <= c06 ->
  let s := B.exec v n pcap c06 l in B.parked s -> B.available s ->
  (3 <= count_occ tid_eq_dec ext P)%nat ->
  exists e1 e2, ext = e1 ++ e2 /\ B.event_ready (B.exec v n pcap c06 (l ++ e1)) = true.
Proof. exact ProofsB.eventually_ready. Qed.
Print Assumptions C13_eventually_B.

Theorem C13_ready_runs_B : forall s,
  B.cp s = B.C_poll -> B.event_ready s = true -> B.cp (B.step C s) = B.C_drain06.
Proof. exact ProofsB.ready_runs. Qed.

Theorem C13_quiescent_B : forall v n pcap c06 l, 0 <= n -> 1 <= pcap -> 1 <= c06 ->
  let s := B.exec v n pcap c06 l in B.quiescent s = true -> B.deliv s = n /\ B.taken s = B.ins s.
Proof. exact ProofsB.quiescent_all_delivered. Qed.
Print Assumptions C13_quiescent_B.

Example C13_B_nonvacuous :
  let s := B.exec B.V06 1 8 4 [P] in B.parked s /\ B.available s /\ B.event_ready s = false.
Proof. vm_compute. repeat split; reflexivity. Qed.

(* ---- (C) async_write || Writer::process_writer_command ------------------------------------ *)

(* code as found: 17 writes into the 16-slot queue, the writer drains it before the waker of the
   17th is stored: the task is parked, the queue is empty, and no continuation changes anything *)
Theorem C13_C_old_refuted :
  let w := repeat C 17 ++ repeat P 32 ++ [C] in
  let s := W.exec false 16 17 w in
  W.parked s /\ W.room s /\ W.woken s = false /\ W.sent s = 16
  /\ forall ext, W.exec false 16 17 (w ++ ext) = s.
Proof. exact ProofsC.old_refuted_16. Qed.
Print Assumptions C13_C_old_refuted.

(* repaired code (re-try after storing the waker): every schedule, capacity, number of writes *)
Theorem C13_no_lost_wakeup_C : forall cap n l, 1 <= cap -> 0 <= n ->
  let s := W.exec true cap n l in W.parked s -> W.room s -> W.wake_pending s.
Proof. exact ProofsC.no_lost_wakeup. Qed.
Print Assumptions C13_no_lost_wakeup_C.

Theorem C13_eventually_C : forall cap n l ext, 1 <= cap -> 0 <= n ->
  let s := W.exec true cap n l in W.parked s -> W.room s -> In P ext ->
  exists e1 e2, ext = e1 ++ e2 /\ W.woken (W.exec true cap n (l ++ e1)) = true.
Proof. exact ProofsC.eventually_woken. Qed.
Print Assumptions C13_eventually_C.

Theorem C13_woken_runs_C : forall s,
  W.cp s = W.C_parked -> W.woken s = true -> W.cp (W.step C s) = W.C_send.
Proof. exact ProofsC.woken_runs. Qed.

Theorem C13_quiescent_C : forall cap n l, 1 <= cap -> 0 <= n ->
  let s := W.exec true cap n l in W.quiescent s = true -> W.sent s = n.
Proof. exact ProofsC.quiescent_all_sent. Qed.
Print Assumptions C13_quiescent_C.

(* ---- (D) async_wait_for_acknowledgments || Writer completion ------------------------------ *)

(* code as found (F9): after [C; P; P] the completion token is in the channel, the future is
   parked, its waker was never registered, and no continuation changes anything *)
Theorem C13_D_old_refuted : forall cap, 1 <= cap ->
  let s := D.exec false cap 0 [C; P; P] in
  D.parked s /\ D.completion_sent s /\ D.woken s = false
  /\ forall ext, D.exec false cap 0 ([C; P; P] ++ ext) = s.
Proof. exact ProofsD.old_refuted. Qed.
Print Assumptions C13_D_old_refuted.

(* code as found, full command queue: Pending without a waker, stuck although room was made *)
Theorem C13_D_old_full_refuted :
  let s := D.exec false 1 1 [C; P; P] in
  D.parked s /\ D.room s /\ D.woken s = false
  /\ forall ext, D.exec false 1 1 ([C; P; P] ++ ext) = s.
Proof. exact ProofsD.old_full_refuted. Qed.

(* repaired code, every schedule, every queue capacity and fill level: a parked future whose
   completion was sent has been woken; one that waits for room in the command queue while there is
   room has a wake pending *)
Theorem C13_no_lost_wakeup_D : forall cap q0 l, 1 <= cap -> 0 <= q0 <= cap ->
  let s := D.exec true cap q0 l in
  D.parked s -> (D.completion_sent s -> D.woken s = true) /\ (D.room s -> D.wake_pending s).
Proof. exact ProofsD.no_lost_wakeup. Qed.
Print Assumptions C13_no_lost_wakeup_D.

Theorem C13_eventually_D : forall cap q0 l ext, 1 <= cap -> 0 <= q0 <= cap ->
  let s := D.exec true cap q0 l in
  D.parked s -> D.completion_sent s \/ D.room s -> In P ext ->
  exists e1 e2, ext = e1 ++ e2 /\ D.woken (D.exec true cap q0 (l ++ e1)) = true.
Proof. exact ProofsD.eventually_woken. Qed.
Print Assumptions C13_eventually_D.

Theorem C13_woken_runs_D : forall s,
  D.cp s = D.C_parked -> D.woken s = true -> D.cp (D.step C s) = D.C_poll.
Proof. exact ProofsD.woken_runs. Qed.

(* whenever writer and future have come to rest the future has completed *)
Theorem C13_quiescent_D : forall cap q0 l, 1 <= cap -> 0 <= q0 <= cap ->
  let s := D.exec true cap q0 l in D.quiescent s = true -> D.complete s = true.
Proof. exact ProofsD.quiescent_complete. Qed.
Print Assumptions C13_quiescent_D.

(* ---- (D2) status-event stream: StatusChannelSender::try_send || StatusReceiverStream::poll_next *)

Theorem C13_no_lost_wakeup_D2 : forall n cap l, 0 <= n -> 0 <= cap ->
  let s := S.exec n cap l in S.parked s -> S.available s -> S.woken s = true.
Proof. exact ProofsS.no_lost_wakeup. Qed.
Print Assumptions C13_no_lost_wakeup_D2.

Theorem C13_woken_runs_D2 : forall s,
  S.cp s = S.C_parked -> S.woken s = true -> S.cp (S.step C s) = S.C_poll.
Proof. exact ProofsS.woken_runs. Qed.

Theorem C13_quiescent_D2 : forall n cap l, 0 <= n -> n <= cap ->
  let s := S.exec n cap l in S.quiescent s = true -> S.deliv s = n /\ S.chan s = 0.
Proof. exact ProofsS.quiescent_all_delivered. Qed.
Print Assumptions C13_quiescent_D2.

(* ---- oracle ------------------------------------------------------------------------------- *)
Theorem C13_model_ok : forall c, ok c (run c) = true.
Proof. exact run_ok. Qed.
Print Assumptions C13_model_ok.

(* finite sweep (bound in the statement): for every schedule of length <= 9 and one small
   configuration of each handshake the completion rounds of [run] bring the model to rest with
   nothing left *)
Theorem C13_run_comes_to_rest_sweep :
  forallb (fun l => forallb (fun c => at_rest (run c)) (sweep_cases l)) (scheds_upto 9) = true.
Proof. exact run_comes_to_rest_sweep. Qed.

Theorem C13_oracle_sound : forall c o, ok c o = true <-> ok_P c o.
Proof. exact ok_spec. Qed.
Print Assumptions C13_oracle_sound.
