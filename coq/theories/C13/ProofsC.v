(* C13 handshake (C): the code as found can lose the wake-up; the repaired code cannot. *)
From Coq Require Import List ZArith Bool Lia.
From RD Require Import C13.Sched C13.ModelC.
Import ListNotations.
Open Scope Z_scope.
Import W.

(* ------------------------------------------------------------------------------------------ *)
(* 1. code as found: the window between the failed try_send and the waker store                 *)

(* cap writes fill the queue, the next one finds it full (C^(cap+1)); the writer pops everything,
   waking nobody because no waker is stored yet (P^(2 cap)); then the future stores its waker and
   returns Pending (C).  The queue is empty, nothing will ever be popped again: parked forever. *)
Definition witness (cap : nat) : schedule := repeat C (cap + 1) ++ repeat P (2 * cap) ++ [C].

Lemma old_refuted_16 :
  let s := exec false 16 17 (witness 16) in
  parked s /\ room s /\ woken s = false /\ sent s = 16
  /\ forall ext, exec false 16 17 (witness 16 ++ ext) = s.
Proof.
  cbv zeta. split; [|split; [|split; [|split]]]; try (vm_compute; reflexivity).
  intros ext. unfold exec. rewrite exec_from_app.
  apply stuck_exec. intros []; vm_compute; reflexivity.
Qed.

Lemma old_refuted_1 :
  let s := exec false 1 2 (witness 1) in
  parked s /\ room s /\ woken s = false /\ sent s = 1
  /\ forall ext, exec false 1 2 (witness 1 ++ ext) = s.
Proof.
  cbv zeta. split; [|split; [|split; [|split]]]; try (vm_compute; reflexivity).
  intros ext. unfold exec. rewrite exec_from_app.
  apply stuck_exec. intros []; vm_compute; reflexivity.
Qed.

(* ------------------------------------------------------------------------------------------ *)
(* 2. repaired code                                                                             *)

Record Inv (s : st) : Prop := {
  k_fx : fixed s = true;
  k_rng : 0 <= q s <= cap s /\ 1 <= cap s /\ 0 <= sent s <= n s;
  k_cwk : cp s = C_retry \/ cp s = C_parked -> cwk s = true;
  k_room : cp s = C_parked -> woken s = false -> q s < cap s -> pp s = P_wake;
  k_fin : (cp s = C_finished <-> sent s = n s);
  k_cnt : 0 <= polls s /\ 0 <= wakes s /\ 0 <= pends s
}.

Lemma inv_init : forall cap n, 1 <= cap -> 0 <= n -> Inv (init true cap n).
Proof.
  intros cap n Hc Hn. unfold init. destruct (Z.leb_spec n 0);
    constructor; simpl; intros; try lia; try discriminate; auto;
    try (destruct H0; discriminate); try (split; intros; try discriminate; auto; lia).
Qed.

Ltac brk :=
  repeat match goal with
  | H : _ /\ _ |- _ => destruct H
  | H : _ <-> _ |- _ => destruct H
  end.

Ltac sat :=
  repeat match goal with
  | H : ?x = ?x -> _ |- _ => specialize (H eq_refl)
  | H : (?x = ?x \/ _) -> _ |- _ => specialize (H (or_introl eq_refl))
  | H : (_ \/ ?x = ?x) -> _ |- _ => specialize (H (or_intror eq_refl))
  | H : ?A -> _, H' : ?A |- _ => specialize (H H')
  | H : (?A \/ _) -> _, H' : ?A |- _ => specialize (H (or_introl H'))
  | H : (_ \/ ?A) -> _, H' : ?A |- _ => specialize (H (or_intror H'))
  | H : ?a = ?b -> _ |- _ => assert (a <> b) by discriminate; clear H
  end.

Ltac contra :=
  repeat match goal with
  | H : ?A -> ?a = ?b |- _ =>
      let X := fresh "X" in
      assert (X : ~ A) by (let Y := fresh in intro Y; specialize (H Y); discriminate); clear H
  end.

Ltac fld :=
  simpl in *; intros; brk; sat; brk; contra;
  try discriminate; try lia; try tauto; auto;
  try (repeat split; intros; sat;
       repeat match goal with H : _ \/ _ |- _ => destruct H end;
       try discriminate; try lia; try tauto; auto; fail);
  try solve [ repeat match goal with H : _ \/ _ |- _ => destruct H end;
              try discriminate; try lia; auto ].

Lemma inv_step : forall t s, Inv s -> Inv (step t s).
Proof.
  intros t [fx cap n sent q cwk woken pp cp polls wakes pends] [H0 H1 H2 H3 H4 H5];
    simpl in *; subst fx.
  destruct t; simpl.
  - destruct pp; simpl.
    + destruct (Z.ltb_spec 0 q); constructor; fld.
    + destruct cwk; constructor; fld.
  - destruct cp; simpl; unfold after_send.
    + destruct (Z.ltb_spec q cap); [destruct (Z.ltb_spec (sent + 1) n)|]; constructor; fld.
    + constructor; fld.
    + destruct (Z.ltb_spec q cap); [destruct (Z.ltb_spec (sent + 1) n)|]; constructor; fld.
    + destruct woken; constructor; fld.
    + constructor; fld.
Qed.

Lemma inv_exec : forall cap n l, 1 <= cap -> 0 <= n -> Inv (exec true cap n l).
Proof.
  intros. unfold exec. apply (Sched.inv_exec step Inv inv_step). apply inv_init; auto.
Qed.

Lemma no_lost_wakeup : forall cap n l, 1 <= cap -> 0 <= n ->
  let s := exec true cap n l in parked s -> room s -> wake_pending s.
Proof.
  intros cap n l Hc Hn s Hp Hr. destruct (inv_exec cap n l Hc Hn) as [H0 H1 H2 H3 H4 H5].
  fold s in H0, H1, H2, H3, H4. unfold parked, room, wake_pending in *.
  destruct (woken s) eqn:W; auto; right; split; auto.
Qed.

Lemma n_step : forall t s, W.n (step t s) = W.n s.
Proof.
  intros t [fx cap n sent q cwk woken pp cp polls wakes pends]; destruct t; simpl;
    [destruct pp|destruct cp]; simpl;
    repeat match goal with |- context [if ?b then _ else _] => destruct b end; reflexivity.
Qed.

Lemma n_const : forall fx cap n0 l, W.n (exec fx cap n0 l) = n0.
Proof.
  intros. unfold exec. apply (Sched.inv_exec step (fun s => W.n s = n0)).
  - intros t s H. rewrite n_step. exact H.
  - unfold init; reflexivity.
Qed.

(* when writer and task have come to rest every write has completed *)
Lemma quiescent_all_sent : forall cap n l, 1 <= cap -> 0 <= n ->
  let s := exec true cap n l in quiescent s = true -> sent s = n.
Proof.
  intros cap n l Hc Hn s Q. destruct (inv_exec cap n l Hc Hn) as [H0 H1 H2 H3 H4 H5].
  fold s in H0, H1, H2, H3, H4.
  pose proof (n_const true cap n l) as N. fold s in N.
  unfold quiescent, producer_idle, consumer_blocked in Q.
  apply andb_true_iff in Q as [Q1 Q2].
  destruct (pp s) eqn:PP; try discriminate. apply Z.eqb_eq in Q1.
  destruct (cp s) eqn:CP; try discriminate.
  - apply negb_true_iff in Q2.
    assert (X : P_recv = P_wake) by (apply H3; auto; lia). discriminate.
  - rewrite <- N. apply H4. reflexivity.
Qed.

Definition waiting (s : st) : Prop :=
  Inv s /\ cp s = C_parked /\ woken s = false /\ q s < cap s.

Lemma waiting_C : forall s, waiting s -> waiting (step C s).
Proof.
  intros [fx cap n sent q cwk woken pp cp polls wakes pends] (HI & Hc & Hw & Hr);
    simpl in *; subst. simpl. split; [exact HI|auto].
Qed.

Lemma waiting_P : forall s, waiting s -> woken (step P s) = true.
Proof.
  intros s (HI & Hc & Hw & Hr). destruct HI as [H0 H1 H2 H3 H4 H5].
  specialize (H3 Hc Hw Hr). specialize (H2 (or_intror Hc)).
  destruct s as [fx cap n sent q cwk woken pp cp polls wakes pends]; simpl in *; subst.
  reflexivity.
Qed.

Lemma eventually_woken : forall cap n l ext, 1 <= cap -> 0 <= n ->
  let s := exec true cap n l in parked s -> room s -> In P ext ->
  exists e1 e2, ext = e1 ++ e2 /\ woken (exec true cap n (l ++ e1)) = true.
Proof.
  intros cap n l ext Hc Hn s Hp Hr Hin.
  destruct (woken s) eqn:Wk.
  - exists [], ext. split; auto. rewrite app_nil_r. exact Wk.
  - destruct (first_P step waiting (fun s => woken s = true) waiting_C waiting_P ext s)
      as (e1 & e2 & E & HW); auto.
    + split; [apply inv_exec; auto | repeat split; auto].
    + exists (e1 ++ [P]), e2. split; [rewrite <- app_assoc; exact E|].
      unfold exec. rewrite exec_from_app. exact HW.
Qed.

Lemma woken_runs : forall s, cp s = C_parked -> woken s = true -> cp (step C s) = C_send.
Proof.
  intros [fx cap n sent q cwk woken pp cp polls wakes pends] Hc Hw; simpl in *; subst. reflexivity.
Qed.
