(* C13 handshake (A): inductive invariant, no-lost-wakeup, liveness corollary. *)
From Coq Require Import List ZArith Bool Lia.
From RD Require Import C13.Sched C13.ModelA.
Import ListNotations.
Open Scope Z_scope.
Import A.

Record Inv (s : st) : Prop := {
  i_rng : 0 <= taken s <= ins s /\ ins s <= n s;
  (* after set_waker and until the task is polled again, the waker is stored or was invoked *)
  i_wk : (cp s = C_take2 \/ cp s = C_parked) -> wk s = true \/ woken s = true;
  (* parked, not woken, sample available: the producer is between its insert and its waker step *)
  i_mid : cp s = C_parked -> woken s = false -> taken s < ins s -> pp s = P_wake;
  (* outside the insert..wake window nothing is inserted that was not announced *)
  i_cnt : 0 <= polls s /\ 0 <= wakes s /\ 0 <= pends s
}.

Lemma inv_init : forall n, 0 <= n -> Inv (init n).
Proof.
  intros n Hn. constructor; simpl; try lia; try (intros [H|H]; discriminate);
    try (intros H; discriminate).
Qed.

Ltac zb :=
  repeat match goal with
  | |- context [?a <? ?b] => destruct (Z.ltb_spec a b)
  | |- context [?a =? ?b] => destruct (Z.eqb_spec a b)
  end.

Ltac spec_or H :=
  first [ specialize (H (or_introl eq_refl)) | specialize (H (or_intror eq_refl)) | clear H ].

Ltac fin :=
  constructor; simpl in *; intros;
  repeat match goal with
  | H : _ \/ _ |- _ => destruct H
  | H : _ /\ _ |- _ => destruct H
  end;
  subst; try discriminate; try lia; auto.

Lemma inv_step : forall t s, Inv s -> Inv (step t s).
Proof.
  intros t [n ins taken wk woken pp cp polls wakes pends] [H1 H2 H3 H4]; simpl in *.
  destruct t; simpl.
  - (* producer *)
    destruct pp; simpl; zb; try destruct wk; simpl; try solve [fin].
    all: try solve [constructor; simpl in *; intros; subst; try lia; auto;
                    try (spec_or H2; destruct H2; auto; discriminate);
                    try (specialize (H3 eq_refl); destruct woken; auto;
                         specialize (H3 eq_refl); try discriminate; try lia;
                         try (specialize (H3 ltac:(lia)); discriminate))].
  - (* consumer *)
    destruct cp; simpl; zb; try destruct woken; simpl; try solve [fin].
Qed.

Lemma inv_exec : forall n l, 0 <= n -> Inv (exec n l).
Proof.
  intros n l Hn. unfold exec. apply (Sched.inv_exec step Inv inv_step). apply inv_init; auto.
Qed.

(* --- the property --- *)
Lemma no_lost_wakeup : forall n l, 0 <= n ->
  let s := exec n l in parked s -> available s -> wake_pending s.
Proof.
  intros n l Hn s Hp Ha. destruct (inv_exec n l Hn) as [H1 H2 H3 H4]. fold s in H1, H2, H3.
  unfold parked, available, wake_pending in *.
  destruct (woken s) eqn:W; auto. right.
  split; [apply H3; auto|]. destruct H2 as [?|?]; auto; congruence.
Qed.

(* weak fairness of the producer is enough: a parked consumer with an available sample has been
   woken at the latest after the producer's next step, whatever the consumer thread is scheduled
   to do in between; and a woken parked consumer starts polling with its next step *)
Definition waiting (s : st) : Prop :=
  Inv s /\ cp s = C_parked /\ woken s = false /\ taken s < ins s.

Lemma waiting_C : forall s, waiting s -> waiting (step C s).
Proof.
  intros [n0 ins0 taken0 wk0 woken0 pp0 cp0 polls0 wakes0 pends0] (HI & Hc & Hw & Hav);
    simpl in *; subst. simpl. split; [exact HI|auto].
Qed.

Lemma waiting_P : forall s, waiting s -> woken (step P s) = true.
Proof.
  intros s (HI & Hc & Hw & Hav). destruct HI as [H1 H2 H3 H4].
  specialize (H3 Hc Hw Hav). destruct H2 as [H2|H2]; auto; [|congruence].
  destruct s as [n0 ins0 taken0 wk0 woken0 pp0 cp0 polls0 wakes0 pends0]; simpl in *; subst.
  reflexivity.
Qed.

Lemma eventually_woken : forall n l ext, 0 <= n ->
  let s := exec n l in parked s -> available s -> In P ext ->
  exists e1 e2, ext = e1 ++ e2 /\ woken (exec n (l ++ e1)) = true.
Proof.
  intros n l ext Hn s Hp Ha Hin.
  destruct (woken s) eqn:W.
  - exists [], ext. split; auto. rewrite app_nil_r. exact W.
  - destruct (first_P step waiting (fun s => woken s = true) waiting_C waiting_P ext s)
      as (e1 & e2 & E & HW); auto.
    + split; [apply inv_exec; auto | repeat split; auto].
    + exists (e1 ++ [P]), e2. split; [rewrite <- app_assoc; exact E|].
      unfold exec. rewrite exec_from_app. exact HW.
Qed.

(* ... and a woken parked consumer is polled again with its next step *)
Lemma woken_runs : forall s, cp s = C_parked -> woken s = true -> cp (step C s) = C_take1.
Proof.
  intros [n0 ins0 taken0 wk0 woken0 pp0 cp0 polls0 wakes0 pends0] Hc Hw; simpl in *; subst.
  reflexivity.
Qed.

Lemma n_step : forall t s, A.n (step t s) = A.n s.
Proof.
  intros t [n0 ins0 taken0 wk0 woken0 pp0 cp0 ? ? ?]; destruct t; simpl;
    [destruct pp0|destruct cp0]; simpl;
    repeat match goal with |- context [if ?b then _ else _] => destruct b end; reflexivity.
Qed.

Lemma n_const : forall n l, A.n (exec n l) = n.
Proof.
  intros n l. unfold exec.
  apply (Sched.inv_exec step (fun s => A.n s = n)); auto.
  intros t s H. rewrite n_step. exact H.
Qed.

(* at quiescence (producer finished, consumer parked and not woken) everything was delivered *)
Lemma quiescent_all_taken : forall n l, 0 <= n ->
  let s := exec n l in quiescent s = true -> taken s = n.
Proof.
  intros n l Hn s Hq. destruct (inv_exec n l Hn) as [H1 H2 H3 H4]. fold s in H1, H2, H3.
  unfold quiescent, producer_done, consumer_blocked in Hq.
  apply andb_true_iff in Hq as [Hd Hb].
  destruct (pp s) eqn:PP; try discriminate. destruct (cp s) eqn:CP; try discriminate.
  apply Z.eqb_eq in Hd. apply negb_true_iff in Hb.
  assert (N : A.n s = n) by apply n_const.
  destruct (Z.lt_ge_cases (taken s) (ins s)) as [L|G]; [|lia].
  specialize (H3 eq_refl Hb L). congruence.
Qed.
