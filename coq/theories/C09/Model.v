(* C09 — a bad or unintelligible change never wedges a reader.

   Model of
     with_key::SimpleDataReader::{try_take_undecoded, deserialize_with, try_take_one_with}
                                                       (src/dds/with_key/simpledatareader.rs)
     TopicCache::{add_change, mark_reliably_received_before, get_changes_in_range_reliable,
                  get_changes_in_range_best_effort}    (src/structure/dds_cache.rs)
     with_key::SimpleDataReaderStream::poll_next       (simpledatareader.rs)
     no_key::SimpleDataReader::{try_take_one_with, as_async_stream_with}
                                                       (src/dds/no_key/simpledatareader.rs)
     with_key::DataReader::{fill_and_lock_local_datasample_cache, take, read, take_next_sample,
        read_next_sample, into_iterator, iterator}, DataReaderStream / BareDataReaderStream poll_next
                                                       (src/dds/with_key/datareader.rs)
     no_key::DataReader::{take, read, ...}, its two streams   (src/dds/no_key/datareader.rs)
   The DataSampleCache is modelled only as far as C09 observes it (History = KeepAll: which samples
   are stored, their read flag, selection by the two constructible read conditions, the stable sort
   by sequence number, truncation to max_samples); SampleInfo is C08's subject.

   Loops whose trip count depends on the data carry explicit fuel; running out of fuel is the
   distinguished outcome [TOut] / observation [CHang] (= the watchdog of the driver fired). *)
From Coq Require Import List ZArith Bool Lia.
From RD Require Import Common.Corr.
Import ListNotations.
Open Scope Z_scope.

(* ---------------------------------------------------------------------------------------- *)
(* Inputs                                                                                     *)

(* what deserialize_with will make of the change's DDSData *)
Inductive ckind :=
| KData (k v : Z)        (* DDSData::Data, supported representation, payload decodes; key k *)
| KBadPayload            (* DDSData::Data, supported representation, payload does not decode *)
| KUnknownRep            (* DDSData::Data, representation identifier not in supported_encodings *)
| KDisposeKey (k : Z)    (* DDSData::DisposeByKey, key decodes to k *)
| KDisposeBadKey         (* DDSData::DisposeByKey, key bytes do not decode (with_key);
                            the no_key key decoder ignores the bytes and returns () *)
| KDisposeHash (h : Z).  (* DDSData::DisposeByKeyHash; h = the key whose hash it is
                            (KeyHash of a 4-byte key is the key itself, zero padded: injective) *)

Record change := mkC { c_w : Z; c_sn : Z; c_kind : ckind }.

Inductive err := EDeser | EUnknownKey | EOther.

(* a deserialized sample; s_val = None is Sample::Dispose.  s_ts is the receive instant
   (DeserializedCacheChange.receive_instant): internal, zeroed in observations *)
Record sample := mkS { s_ts : Z; s_w : Z; s_sn : Z; s_key : Z; s_val : option Z }.

Inductive form :=
| FTakeOne                       (* SimpleDataReader::try_take_one *)
| FSPoll                         (* SimpleDataReaderStream::poll_next / no_key as_async_stream *)
| FTake (max : Z) (notread : bool)   (* DataReader::take(max, any | not_read) *)
| FRead (max : Z) (notread : bool)   (* DataReader::read *)
| FTakeNext                      (* take_next_sample *)
| FReadNext                      (* read_next_sample *)
| FIntoIter                      (* into_iterator = take_bare(usize::MAX, not_read) *)
| FIter                          (* iterator = read_bare(usize::MAX, not_read) *)
| FPoll                          (* DataReaderStream::poll_next *)
| FPollBare.                     (* BareDataReaderStream::poll_next *)

Inductive op :=
| OAdd (w sn : Z) (k : ckind)    (* TopicCache::add_change at a fresh, larger receive instant *)
| OMark (w sn : Z)               (* TopicCache::mark_reliably_received_before *)
| OCall (f : form).

Record case := mkCase { reliable : bool; nokey : bool; ops : list op }.

(* one result per OCall *)
Inductive cres :=
| CNone                 (* Ok(None) *)
| COne (s : sample)     (* Ok(Some(..)) / Poll::Ready(Some(Ok(..))) *)
| CErr (e : err)        (* Err(..) / Poll::Ready(Some(Err(..))) *)
| CVec (l : list sample)(* Ok(vec) *)
| CPending              (* Poll::Pending *)
| CHang                 (* the call did not return (watchdog) — model: fuel exhausted *)
| CPanic.
Definition obs := list cres.

(* ---------------------------------------------------------------------------------------- *)
(* association lists (BTreeMap<GUID, SequenceNumber>) *)
Definition amap := list (Z * Z).
Fixpoint alook (m : amap) (k : Z) : option Z :=
  match m with
  | [] => None
  | (k', v) :: r => if k' =? k then Some v else alook r k
  end.
Definition aset (m : amap) (k v : Z) : amap := (k, v) :: m.

Record state := mkSt {
  cache : list (Z * change);   (* TopicCache.changes, (receive instant, change) *)
  next_ts : Z;                 (* the driver's clock: next receive instant *)
  rb : amap;                   (* TopicCache.received_reliably_before *)
  li : Z;                      (* ReadState.latest_instant (Timestamp::ZERO = 0) *)
  lr : amap;                   (* ReadState.last_read_sn *)
  known : list Z;              (* domain of ReadState.hash_to_key_map *)
  dsc : list (sample * bool)   (* DataSampleCache.datasamples in receive-instant order, read flag *)
}.

Definition init : state := mkSt [] 1 [] 0 [] [] [].

(* TopicCache::add_change: a change whose (writer, sn) is already cached is discarded
   (find_by_sn).  The periodic trimming (sn % 64 == 0, more than max_keep_samples changes) is
   outside the model: the driver keeps sn below 64. *)
Definition same_id (w sn : Z) (tc : Z * change) : bool :=
  (c_w (snd tc) =? w) && (c_sn (snd tc) =? sn).
Definition add_change (st : state) (w sn : Z) (k : ckind) : state :=
  if existsb (same_id w sn) (cache st)
  then mkSt (cache st) (next_ts st + 1) (rb st) (li st) (lr st) (known st) (dsc st)
  else mkSt (cache st ++ [(next_ts st, mkC w sn k)]) (next_ts st + 1) (rb st) (li st) (lr st)
            (known st) (dsc st).
Definition mark (st : state) (w sn : Z) : state :=
  mkSt (cache st) (next_ts st) (aset (rb st) w sn) (li st) (lr st) (known st) (dsc st).

(* ---------------------------------------------------------------------------------------- *)
(* try_take_undecoded(..).next() *)

(* get_changes_in_range_reliable: per writer the range (Excluded(lower), Excluded(upper)) with
   lower = last_read_sn[w] or 0, upper = max(received_reliably_before[w] or 1, lower + 1) *)
Definition lower (st : state) (w : Z) : Z :=
  match alook (lr st) w with Some s => s | None => 0 end.
Definition upper (st : state) (w : Z) : Z :=
  Z.max (match alook (rb st) w with Some s => s | None => 1 end) (lower st w + 1).

(* is the change inside the window the iterator walks? best effort: (latest_instant, now];
   receive instants are never in the future *)
Definition eligible (rel : bool) (st : state) (tc : Z * change) : bool :=
  if rel then (lower st (c_w (snd tc)) <? c_sn (snd tc)) && (c_sn (snd tc) <? upper st (c_w (snd tc)))
  else li st <? fst tc.

(* iteration order: reliable = writers by GUID, then sequence number; best effort = instant *)
Definition before (rel : bool) (a b : Z * change) : bool :=
  if rel then (c_w (snd a) <? c_w (snd b))
              || ((c_w (snd a) =? c_w (snd b)) && (c_sn (snd a) <? c_sn (snd b)))
  else fst a <? fst b.

Definition argmin {A} (lt : A -> A -> bool) (l : list A) : option A :=
  fold_left (fun best x => match best with
                           | None => Some x
                           | Some b => if lt x b then Some x else Some b
                           end) l None.

Definition pending (rel : bool) (st : state) : list (Z * change) :=
  filter (eligible rel st) (cache st).
Definition next_change (rel : bool) (st : state) : option (Z * change) :=
  argmin (before rel) (pending rel st).

(* ---------------------------------------------------------------------------------------- *)
(* deserialize_with *)
Inductive dres := DOk (s : sample) | DErr (e : err).
Definition keyof (nk : bool) (k : Z) : Z := if nk then 0 else k.
Definition memZ (x : Z) (l : list Z) : bool := existsb (Z.eqb x) l.

Definition deser (nk : bool) (kn : list Z) (ts : Z) (c : change) : dres * list Z :=
  match c_kind c with
  | KData k v => (DOk (mkS ts (c_w c) (c_sn c) (keyof nk k) (Some v)), keyof nk k :: kn)
  | KBadPayload => (DErr EDeser, kn)
  | KUnknownRep => (DErr EDeser, kn)
  | KDisposeKey k => (DOk (mkS ts (c_w c) (c_sn c) (keyof nk k) None), keyof nk k :: kn)
  | KDisposeBadKey =>
      if nk then (DOk (mkS ts (c_w c) (c_sn c) 0 None), 0 :: kn) else (DErr EDeser, kn)
  | KDisposeHash h =>
      if memZ h kn then (DOk (mkS ts (c_w c) (c_sn c) h None), kn) else (DErr EUnknownKey, kn)
  end.

(* "Advance read pointer": latest_instant = max(latest_instant, timestamp);
   last_read_sn.insert(writer_guid, sequence_number) *)
Definition advance (st : state) (tc : Z * change) (kn : list Z) : state :=
  mkSt (cache st) (next_ts st) (rb st) (Z.max (li st) (fst tc))
       (aset (lr st) (c_w (snd tc)) (c_sn (snd tc))) kn (dsc st).

Inductive tres := TNone | TSome (s : sample) | TErr (e : err).
(* ghost output: the changes the call consumed, with what deserialize_with made of them *)
Definition trace := list (Z * change * dres).
Inductive tout := TOut | TDone (st : state) (r : tres) (tr : trace).

(* try_take_one_with.  fixed = false: the code before the repair — in the UnknownKey branch the
   loop continues without touching the read pointers.  fixed = true: both pointers advance. *)
Fixpoint take_loop (fixed rel nk : bool) (fuel : nat) (st : state) (tr : trace) : tout :=
  match fuel with
  | O => TOut
  | S f =>
      match next_change rel st with
      | None => TDone st TNone tr                     (* no more data available right now *)
      | Some tc =>
          match deser nk (known st) (fst tc) (snd tc) with
          | (DErr EUnknownKey, kn) =>
              if fixed
              then take_loop fixed rel nk f (advance st tc kn) (tr ++ [(tc, DErr EUnknownKey)])
              else take_loop fixed rel nk f st tr      (* ignore unknown key hash, continue looping *)
          | (DErr e, kn) => TDone (advance st tc kn) (TErr e) (tr ++ [(tc, DErr e)])
          | (DOk s, kn) => TDone (advance st tc kn) (TSome s) (tr ++ [(tc, DOk s)])
          end
      end
  end.

(* parameters common to all calls of one case *)
Record cfg := mkCfg { g_fixed : bool; g_rel : bool; g_nk : bool; g_fuel : nat }.

Definition take_one (g : cfg) (st : state) : tout :=
  take_loop (g_fixed g) (g_rel g) (g_nk g) (g_fuel g) st [].

(* result of one API call: new state (None = did not return) and the observation *)
Definition cout := (option state * cres)%type.
Definition hang : cout := (None, CHang).

Definition is_dispose (s : sample) : bool := match s_val s with None => true | Some _ => false end.

(* no_key::SimpleDataReader::try_take_one_with: a Dispose becomes Ok(None) *)
Definition simple_take (g : cfg) (st : state) : cout :=
  match take_one g st with
  | TOut => hang
  | TDone st' TNone _ => (Some st', CNone)
  | TDone st' (TErr e) _ => (Some st', CErr e)
  | TDone st' (TSome s) _ =>
      if g_nk g && is_dispose s then (Some st', CNone) else (Some st', COne s)
  end.

(* SimpleDataReaderStream::poll_next: try; on Ok(None) store the waker and try again *)
Definition keyed_spoll (g : cfg) (st : state) : cout :=
  match take_one g st with
  | TOut => hang
  | TDone st' (TErr e) _ => (Some st', CErr e)
  | TDone st' (TSome s) _ => (Some st', COne s)
  | TDone st' TNone _ =>
      match take_one g st' with
      | TOut => hang
      | TDone st'' (TErr e) _ => (Some st'', CErr e)
      | TDone st'' (TSome s) _ => (Some st'', COne s)
      | TDone st'' TNone _ => (Some st'', CPending)
      end
  end.

(* no_key as_async_stream_with = keyed stream .filter_map(skip Dispose): FilterMap::poll_next
   polls the inner stream until an item passes or it is Pending *)
Fixpoint nokey_spoll (g : cfg) (fuel : nat) (st : state) : cout :=
  match fuel with
  | O => hang
  | S f =>
      match keyed_spoll g st with
      | (Some st', COne s) => if is_dispose s then nokey_spoll g f st' else (Some st', COne s)
      | r => r
      end
  end.

(* ---------------------------------------------------------------------------------------- *)
(* DataReader on top (History = KeepAll) *)

(* BTreeMap<Timestamp,_>::insert *)
Fixpoint dsc_insert (d : list (sample * bool)) (s : sample) : list (sample * bool) :=
  match d with
  | [] => [(s, false)]
  | x :: r => if s_ts s <? s_ts (fst x) then (s, false) :: x :: r else x :: dsc_insert r s
  end.
Definition set_dsc (st : state) (d : list (sample * bool)) : state :=
  mkSt (cache st) (next_ts st) (rb st) (li st) (lr st) (known st) d.

(* fill_and_lock_local_datasample_cache:  while let Some(dcc) = try_take_one()? { fill(dcc) } *)
Inductive fout := FOut | FOk (st : state) | FErr (st : state) (e : err).
Fixpoint fill (g : cfg) (fuel : nat) (st : state) : fout :=
  match fuel with
  | O => FOut
  | S f =>
      match take_one g st with
      | TOut => FOut
      | TDone st' TNone _ => FOk st'
      | TDone st' (TErr e) _ => FErr st' e
      | TDone st' (TSome s) _ => fill g f (set_dsc st' (dsc_insert (dsc st') s))
      end
  end.

(* select_keys_for_access (sample-state part of sample_selector; view and instance masks are
   `any` in both constructible conditions) + sort_by_sequence_number (stable) + truncate *)
Definition selected_by (notread : bool) (x : sample * bool) : bool :=
  if notread then negb (snd x) else true.
Fixpoint ins_sn (x : sample * bool) (l : list (sample * bool)) : list (sample * bool) :=
  match l with
  | [] => [x]
  | y :: r => if s_sn (fst x) <=? s_sn (fst y) then x :: y :: r else y :: ins_sn x r
  end.
(* stable (sort_by_cached_key): equal keys keep their order — elements are inserted from the
   right, an element goes in front of the later ones with an equal key *)
Definition sort_sn (l : list (sample * bool)) : list (sample * bool) := fold_right ins_sn [] l.
Fixpoint takeZ {A} (n : Z) (l : list A) : list A :=
  match l with
  | [] => []
  | x :: r => if n <=? 0 then [] else x :: takeZ (n - 1) r
  end.
Definition select (notread : bool) (max : Z) (d : list (sample * bool)) : list sample :=
  map fst (takeZ max (sort_sn (filter (selected_by notread) d))).

Definition in_sel (sel : list sample) (s : sample) : bool :=
  existsb (fun t => s_ts t =? s_ts s) sel.
(* take_by_keys: remove; read_by_keys: mark read *)
Definition dsc_remove (sel : list sample) (d : list (sample * bool)) :=
  filter (fun x => negb (in_sel sel (fst x))) d.
Definition dsc_mark (sel : list sample) (d : list (sample * bool)) :=
  map (fun x => if in_sel sel (fst x) then (fst x, true) else x) d.

Inductive vout := VOut | VOk (st : state) (l : list sample) | VErr (st : state) (e : err).
Definition keyed_access (g : cfg) (take : bool) (max : Z) (notread : bool) (st : state) : vout :=
  match fill g (g_fuel g) st with
  | FOut => VOut
  | FErr st' e => VErr st' e
  | FOk st' =>
      let sel := select notread max (dsc st') in
      VOk (set_dsc st' (if take then dsc_remove sel (dsc st') else dsc_mark sel (dsc st'))) sel
  end.

Definition usize_max : Z := 18446744073709551615.

(* bare forms hand out Sample<D,K> only: writer and sequence number are recovered from the value
   by the driver; a Dispose carries just the key *)
Definition bare (s : sample) : sample :=
  if is_dispose s then mkS 0 (-1) (-1) (s_key s) None else s.

(* no_key::DataReader::{take,read}: from_with_key drops Dispose *)
Definition values (nk : bool) (l : list sample) : list sample :=
  if nk then filter (fun s => negb (is_dispose s)) l else l.

Definition vec_call (g : cfg) (take : bool) (max : Z) (notread : bool) (bare_ : bool) (st : state)
  : cout :=
  match keyed_access g take max notread st with
  | VOut => hang
  | VErr st' e => (Some st', CErr e)
  | VOk st' l =>
      (Some st', CVec (values (g_nk g) (if bare_ && negb (g_nk g) then map bare l else l)))
  end.

(* take_next_sample / read_next_sample: take(1, not_read) then pop *)
Definition next_call (g : cfg) (take : bool) (st : state) : cout :=
  match keyed_access g take 1 true st with
  | VOut => hang
  | VErr st' e => (Some st', CErr e)
  | VOk st' l =>
      match values (g_nk g) l with
      | s :: _ => (Some st', COne s)
      | [] => (Some st', CNone)
      end
  end.

(* with_key DataReaderStream / BareDataReaderStream poll_next: take(1, not_read); if empty store
   the waker and take again *)
Definition keyed_poll (g : cfg) (st : state) : cout :=
  match keyed_access g true 1 true st with
  | VOut => hang
  | VErr st' e => (Some st', CErr e)
  | VOk st' (s :: _) => (Some st', COne s)
  | VOk st' [] =>
      match keyed_access g true 1 true st' with
      | VOut => hang
      | VErr st'' e => (Some st'', CErr e)
      | VOk st'' (s :: _) => (Some st'', COne s)
      | VOk st'' [] => (Some st'', CPending)
      end
  end.
(* no_key streams: loop { match keyed.poll_next { Ready(Dispose) => continue, other => break } } *)
Fixpoint nokey_poll (g : cfg) (fuel : nat) (st : state) : cout :=
  match fuel with
  | O => hang
  | S f =>
      match keyed_poll g st with
      | (Some st', COne s) => if is_dispose s then nokey_poll g f st' else (Some st', COne s)
      | r => r
      end
  end.

Definition map_one (f : sample -> sample) (r : cout) : cout :=
  match r with
  | (o, COne s) => (o, COne (f s))
  | r => r
  end.

Definition call (g : cfg) (f : form) (st : state) : cout :=
  match f with
  | FTakeOne => simple_take g st
  | FSPoll => if g_nk g then nokey_spoll g (g_fuel g) st else keyed_spoll g st
  | FTake max nr => vec_call g true max nr false st
  | FRead max nr => vec_call g false max nr false st
  | FTakeNext => next_call g true st
  | FReadNext => next_call g false st
  | FIntoIter => vec_call g true usize_max true true st
  | FIter => vec_call g false usize_max true true st
  | FPoll => if g_nk g then nokey_poll g (g_fuel g) st else keyed_poll g st
  | FPollBare => if g_nk g then nokey_poll g (g_fuel g) st else map_one bare (keyed_poll g st)
  end.

(* fuel handed to every loop of a call: 1 + everything that could possibly be pending *)
Definition fuel_for (st : state) : nat := S (length (cache st) + length (dsc st)).

(* observations never contain receive instants *)
Definition strip (s : sample) : sample := mkS 0 (s_w s) (s_sn s) (s_key s) (s_val s).
Definition strip_res (r : cres) : cres :=
  match r with
  | COne s => COne (strip s)
  | CVec l => CVec (map strip l)
  | r => r
  end.

Fixpoint run_ops (fixed rel nk : bool) (st : state) (l : list op) : obs :=
  match l with
  | [] => []
  | OAdd w sn k :: r => run_ops fixed rel nk (add_change st w sn k) r
  | OMark w sn :: r => run_ops fixed rel nk (mark st w sn) r
  | OCall f :: r =>
      match call (mkCfg fixed rel nk (fuel_for st)) f st with
      | (Some st', res) => strip_res res :: run_ops fixed rel nk st' r
      | (None, res) => [res]          (* the calling thread is gone; nothing more is observed *)
      end
  end.

Definition run_gen (fixed : bool) (c : case) : obs :=
  run_ops fixed (reliable c) (nokey c) init (ops c).
Definition run : case -> obs := run_gen true.
Definition run_old : case -> obs := run_gen false.   (* the code before the repair of F1 *)

(* ---------------------------------------------------------------------------------------- *)
(* observation equality *)
Definition oZ_eqb := option_eqb Z.eqb.
Definition sample_eqb (a b : sample) : bool :=
  (s_ts a =? s_ts b) && (s_w a =? s_w b) && (s_sn a =? s_sn b) && (s_key a =? s_key b)
  && oZ_eqb (s_val a) (s_val b).
Definition err_eqb (a b : err) : bool :=
  match a, b with
  | EDeser, EDeser | EUnknownKey, EUnknownKey | EOther, EOther => true
  | _, _ => false
  end.
Definition cres_eqb (a b : cres) : bool :=
  match a, b with
  | CNone, CNone | CPending, CPending | CHang, CHang | CPanic, CPanic => true
  | COne s, COne t => sample_eqb s t
  | CErr e, CErr f => err_eqb e f
  | CVec l, CVec m => list_eqb sample_eqb l m
  | _, _ => false
  end.
Definition obs_eqb : obs -> obs -> bool := list_eqb cres_eqb.

(* ---------------------------------------------------------------------------------------- *)
(* Property oracle: judges (inputs, outputs) only.

   bounded   every call returned: one result per OCall, none of them CHang / CPanic;
   legit     every sample handed out is a change that was put into the cache before that call,
             with the key / value / kind the change had (disposes by hash: the named key);
   once      no change is handed out twice by taking forms, and up to any point the number of
             error reports does not exceed the number of undecodable changes fed so far;
   progress  if, after the last input, at least (number of changes fed) + 1 taking calls follow,
             every always-intelligible change that is deliverable has been handed out
             (with_key: values and disposes by key; no_key: values);
   pending   whenever a stream form answers Poll::Pending, every such change deliverable at that
             moment has been handed out already. *)

Definition is_call (o : op) : bool := match o with OCall _ => true | _ => false end.
Definition ncalls (l : list op) : nat := length (filter is_call l).
Definition bad_res (r : cres) : bool := match r with CHang | CPanic => true | _ => false end.
Definition ok_bounded (c : case) (o : obs) : bool :=
  Nat.eqb (length o) (ncalls (ops c)) && negb (existsb bad_res o).

Definition samples_of (r : cres) : list sample :=
  match r with COne s => [s] | CVec l => l | _ => [] end.

(* does change (w, sn, kind) justify handing out sample s? *)
Definition justifies (nk : bool) (w sn : Z) (k : ckind) (s : sample) : bool :=
  (s_w s =? w) && (s_sn s =? sn) &&
  match k with
  | KData key v => (s_key s =? keyof nk key) && oZ_eqb (s_val s) (Some v)
  | KDisposeKey key => (s_key s =? keyof nk key) && is_dispose s
  | KDisposeBadKey => nk && (s_key s =? 0) && is_dispose s
  | KDisposeHash h => (s_key s =? h) && is_dispose s
  | _ => false
  end.
(* a bare dispose has lost writer and sequence number *)
Definition justifies_bare (nk : bool) (k : ckind) (s : sample) : bool :=
  (s_w s =? -1) && (s_sn s =? -1) && is_dispose s &&
  match k with
  | KDisposeKey key => s_key s =? keyof nk key
  | KDisposeBadKey => nk && (s_key s =? 0)
  | KDisposeHash h => s_key s =? h
  | _ => false
  end.
Definition fed_justifies (nk : bool) (fed : list (Z * Z * ckind)) (s : sample) : bool :=
  existsb (fun t => justifies nk (fst (fst t)) (snd (fst t)) (snd t) s
                    || justifies_bare nk (snd t) s) fed.

Definition is_bad_kind (nk : bool) (k : ckind) : bool :=
  match k with
  | KBadPayload | KUnknownRep => true
  | KDisposeBadKey => negb nk
  | _ => false
  end.
Definition taking (f : form) : bool :=
  match f with
  | FRead _ _ | FReadNext | FIter => false
  | _ => true
  end.
Definition is_err (r : cres) : bool := match r with CErr _ => true | _ => false end.
Definition id_in (s : sample) (l : list (Z * Z)) : bool :=
  existsb (fun p => (fst p =? s_w s) && (snd p =? s_sn s)) l.
Fixpoint nodup_ids (l : list sample) (seen : list (Z * Z)) : option (list (Z * Z)) :=
  match l with
  | [] => Some seen
  | s :: r =>
      if s_w s =? -1 then nodup_ids r seen      (* bare dispose: no identity *)
      else if id_in s seen then None else nodup_ids r ((s_w s, s_sn s) :: seen)
  end.

(* walk ops and results together.
   fed    changes put into the cache so far (first occurrence of each (w, sn) only)
   taken  identities handed out by taking forms
   nbad   undecodable changes fed, nerr error reports seen *)
Fixpoint ok_walk (nk : bool) (l : list op) (o : obs) (fed : list (Z * Z * ckind))
         (taken : list (Z * Z)) (nbad nerr : Z) : bool :=
  match l with
  | [] => true
  | OAdd w sn k :: r =>
      if existsb (fun t => (fst (fst t) =? w) && (snd (fst t) =? sn)) fed
      then ok_walk nk r o fed taken nbad nerr
      else ok_walk nk r o ((w, sn, k) :: fed) taken (if is_bad_kind nk k then nbad + 1 else nbad) nerr
  | OMark _ _ :: r => ok_walk nk r o fed taken nbad nerr
  | OCall f :: r =>
      match o with
      | [] => true                       (* missing results are ok_bounded's business *)
      | res :: o' =>
          let ss := samples_of res in
          forallb (fed_justifies nk fed) ss &&
          let nerr' := if is_err res then nerr + 1 else nerr in
          (nerr' <=? nbad) &&
          (if taking f
           then match nodup_ids ss taken with
                | None => false
                | Some taken' => ok_walk nk r o' fed taken' nbad nerr'
                end
           else ok_walk nk r o' fed taken nbad nerr')
      end
  end.

(* progress: the final run of calls *)
Fixpoint split_tail_calls (l : list op) : list op * list form :=
  match l with
  | [] => ([], [])
  | x :: r =>
      let (pre, calls) := split_tail_calls r in
      match x, pre with
      | OCall f, [] => ([], f :: calls)
      | _, _ => (x :: pre, calls)
      end
  end.

Definition has_id (w sn : Z) (l : list (Z * Z)) : bool :=
  existsb (fun p => (fst p =? w) && (snd p =? sn)) l.
Definition marker (m : amap) (w : Z) : Z := match alook m w with Some x => x | None => 1 end.

(* the changes whose delivery is demanded: first occurrence of their (w, sn), always intelligible
   (with_key: values and disposes by key; no_key: values), and — reliable reader — fed at or above
   the writer's received-reliably-before marker of that moment (what lies below the marker was
   received or declared irrelevant earlier; the real Reader never adds there).
   Also returns the final markers and whether every OMark moved its marker forward. *)
Fixpoint must_deliver (rel nk : bool) (l : list op) (rbm : amap) (seen : list (Z * Z))
         (acc : list (Z * Z * ckind)) (mono : bool) : list (Z * Z * ckind) * amap * bool :=
  match l with
  | [] => (acc, rbm, mono)
  | OAdd w sn k :: r =>
      let always := match k with
                    | KData _ _ => true
                    | KDisposeKey _ => negb nk
                    | _ => false
                    end in
      if has_id w sn seen then must_deliver rel nk r rbm seen acc mono
      else if always && (negb rel || (marker rbm w <=? sn))
           then must_deliver rel nk r rbm ((w, sn) :: seen) ((w, sn, k) :: acc) mono
           else must_deliver rel nk r rbm ((w, sn) :: seen) acc mono
  | OMark w sn :: r =>
      must_deliver rel nk r (aset rbm w sn) seen acc (mono && (marker rbm w <=? sn))
  | OCall _ :: r => must_deliver rel nk r rbm seen acc mono
  end.

Definition delivered (nk : bool) (o : obs) (t : Z * Z * ckind) : bool :=
  existsb (fun res => existsb (fun s => justifies nk (fst (fst t)) (snd (fst t)) (snd t) s
                                        || justifies_bare nk (snd t) s) (samples_of res)) o.

Definition nadds (l : list op) : nat :=
  length (filter (fun o => match o with OAdd _ _ _ => true | _ => false end) l).
Definition reader_form (f : form) : bool :=
  match f with FTakeOne | FSPoll => false | _ => true end.
Definition effective (f : form) : bool :=
  match f with
  | FTake max _ => 1 <=? max
  | f => taking f
  end.
Definition forms_of (l : list op) : list form :=
  flat_map (fun o => match o with OCall f => [f] | _ => [] end) l.
Definition homogeneous (l : list op) : bool :=
  forallb reader_form (forms_of l) || forallb (fun f => negb (reader_form f)) (forms_of l).

(* demanded only where "repeated calls" is meaningful: one family of forms on the object, the
   case ends with more taking calls than changes were fed, markers only moved forward *)
Definition ok_progress (c : case) (o : obs) : bool :=
  let (pre, calls) := split_tail_calls (ops c) in
  match must_deliver (reliable c) (nokey c) pre [] [] [] true with
  | (must, rbm, mono) =>
      if homogeneous (ops c) && forallb effective calls && Nat.ltb (nadds pre) (length calls) && mono
      then forallb (fun t => negb (negb (reliable c) || (snd (fst t) <? marker rbm (fst (fst t))))
                             || delivered (nokey c) o t) must
      else true
  end.

(* Poll::Pending parks the consumer until the next wake-up: at that moment nothing deliverable may
   be left (same notion of deliverable as above, with the markers of that moment) *)
Fixpoint ok_pend (rel nk : bool) (l : list op) (o : obs) (rbm : amap) (seen : list (Z * Z))
         (acc : list (Z * Z * ckind)) (mono : bool) (sofar : obs) : bool :=
  match l with
  | [] => true
  | OAdd w sn k :: r =>
      let always := match k with
                    | KData _ _ => true
                    | KDisposeKey _ => negb nk
                    | _ => false
                    end in
      if has_id w sn seen then ok_pend rel nk r o rbm seen acc mono sofar
      else if always && (negb rel || (marker rbm w <=? sn))
           then ok_pend rel nk r o rbm ((w, sn) :: seen) ((w, sn, k) :: acc) mono sofar
           else ok_pend rel nk r o rbm ((w, sn) :: seen) acc mono sofar
  | OMark w sn :: r =>
      ok_pend rel nk r o (aset rbm w sn) seen acc (mono && (marker rbm w <=? sn)) sofar
  | OCall _ :: r =>
      match o with
      | [] => true
      | res :: o' =>
          let sofar' := res :: sofar in
          (match res with
           | CPending =>
               negb mono
               || forallb (fun t => negb (negb rel || (snd (fst t) <? marker rbm (fst (fst t))))
                                    || delivered nk sofar' t) acc
           | _ => true
           end) && ok_pend rel nk r o' rbm seen acc mono sofar'
      end
  end.
Definition ok_pending (c : case) (o : obs) : bool :=
  if homogeneous (ops c) then ok_pend (reliable c) (nokey c) (ops c) o [] [] [] true [] else true.

Definition ok (c : case) (o : obs) : bool :=
  ok_bounded c o && ok_walk (nokey c) (ops c) o [] [] 0 0 && ok_progress c o && ok_pending c o.
