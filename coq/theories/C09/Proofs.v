(* C09 — lemmas: the take loop terminates, consumes every pending change exactly once and in the
   iterator's order; every API form returns; the pre-repair loop does not. *)
From Coq Require Import List ZArith Bool Lia ZifyBool Arith.
From RD Require Import Common.Corr C09.Model.
Import ListNotations.
Open Scope Z_scope.

(* ---------------------------------------------------------------------------------------- *)
(* argmin *)
Definition am_step {A} (lt : A -> A -> bool) (best : option A) (x : A) : option A :=
  match best with None => Some x | Some b => if lt x b then Some x else Some b end.

Lemma am_some {A} lt (l : list A) b : exists m, fold_left (am_step lt) l (Some b) = Some m.
Proof.
  revert b; induction l as [|x l IH]; intro b; cbn; [eauto|].
  destruct (lt x b); apply IH.
Qed.

Lemma am_in {A} lt (l : list A) best m :
  fold_left (am_step lt) l best = Some m -> best = Some m \/ In m l.
Proof.
  revert best; induction l as [|x l IH]; intros best H; cbn in *; [auto|].
  apply IH in H as [H|H]; [|auto].
  destruct best as [b|]; cbn in H.
  - destruct (lt x b); inversion H; subst; auto.
  - inversion H; auto.
Qed.

Lemma argmin_in {A} lt (l : list A) m : argmin lt l = Some m -> In m l.
Proof.
  intro H. change (fold_left (am_step lt) l None = Some m) in H.
  apply am_in in H as [H|H]; [discriminate|auto].
Qed.

Lemma argmin_none {A} lt (l : list A) : argmin lt l = None -> l = [].
Proof.
  destruct l as [|x l]; [auto|]. intro H. exfalso.
  destruct (am_some lt l x) as [m Hm].
  change (fold_left (am_step lt) l (Some x) = None) in H. congruence.
Qed.

(* order of the iterator as a proposition: m comes no later than x *)
Definition le_key (rel : bool) (m x : Z * change) : Prop :=
  if rel then c_w (snd m) < c_w (snd x) \/ (c_w (snd m) = c_w (snd x) /\ c_sn (snd m) <= c_sn (snd x))
  else fst m <= fst x.

Lemma am_min rel (l : list (Z * change)) b m :
  fold_left (am_step (before rel)) l (Some b) = Some m ->
  le_key rel m b /\ forall x, In x l -> le_key rel m x.
Proof.
  revert b; induction l as [|x l IH]; intros b H; cbn in H.
  - inversion H; subst; split; [|intros ? []]. unfold le_key; destruct rel; lia.
  - destruct (before rel x b) eqn:E; apply IH in H as [H1 H2].
    + split.
      * unfold le_key, before in *; destruct rel; lia.
      * intros y [<-|Hy]; auto.
    + split; [exact H1|]. intros y [<-|Hy]; auto.
      unfold le_key, before in *; destruct rel; lia.
Qed.

Lemma argmin_min rel (l : list (Z * change)) m :
  argmin (before rel) l = Some m -> forall x, In x l -> le_key rel m x.
Proof.
  destruct l as [|a l]; [discriminate|]. intros H x Hx.
  change (fold_left (am_step (before rel)) l (Some a) = Some m) in H. destruct Hx as [<-|Hx].
  - apply am_min in H as [H _]; exact H.
  - apply am_min in H as [_ H]; auto.
Qed.

(* ---------------------------------------------------------------------------------------- *)
(* read pointers *)

Lemma lower_advance st tc kn w :
  lower (advance st tc kn) w = if c_w (snd tc) =? w then c_sn (snd tc) else lower st w.
Proof. unfold lower, advance, aset; cbn. destruct (c_w (snd tc) =? w); reflexivity. Qed.

Lemma upper_advance st tc kn w :
  upper (advance st tc kn) w =
  Z.max (match alook (rb st) w with Some s => s | None => 1 end) (lower (advance st tc kn) w + 1).
Proof. reflexivity. Qed.

(* the window of the reliable iterator is just  last_read < sn < received_reliably_before *)
Lemma eligible_rel st tc :
  eligible true st tc = true <->
  lower st (c_w (snd tc)) < c_sn (snd tc)
  /\ c_sn (snd tc) < match alook (rb st) (c_w (snd tc)) with Some s => s | None => 1 end.
Proof. unfold eligible, upper. lia. Qed.

Lemma elig_adv_sub rel st tc kn x :
  eligible rel st tc = true -> eligible rel (advance st tc kn) x = true -> eligible rel st x = true.
Proof.
  destruct rel.
  - rewrite !eligible_rel, lower_advance. cbn [rb advance].
    destruct (c_w (snd tc) =? c_w (snd x)) eqn:E; [|tauto].
    assert (c_w (snd tc) = c_w (snd x)) as -> by lia. lia.
  - unfold eligible, advance; cbn. lia.
Qed.

Lemma elig_adv_self rel st tc kn :
  eligible rel (advance st tc kn) tc = false.
Proof.
  destruct rel.
  - destruct (eligible true (advance st tc kn) tc) eqn:E; [|reflexivity].
    apply eligible_rel in E. rewrite lower_advance, Z.eqb_refl in E. lia.
  - unfold eligible, advance; cbn. lia.
Qed.

(* identity of a cache entry as the iterator sees it *)
Definition same_key (rel : bool) (a b : Z * change) : Prop :=
  if rel then c_w (snd a) = c_w (snd b) /\ c_sn (snd a) = c_sn (snd b) else fst a = fst b.

Lemma elig_adv_other rel st tc kn x :
  eligible rel st x = true -> le_key rel tc x -> ~ same_key rel tc x ->
  eligible rel (advance st tc kn) x = true.
Proof.
  destruct rel; unfold le_key, same_key.
  - rewrite !eligible_rel, lower_advance. cbn [rb advance].
    destruct (c_w (snd tc) =? c_w (snd x)) eqn:E; [|tauto]. lia.
  - unfold eligible, advance; cbn. lia.
Qed.

Lemma filter_len_le {A} (p q : A -> bool) l :
  (forall x, In x l -> p x = true -> q x = true) ->
  (length (filter p l) <= length (filter q l))%nat.
Proof.
  induction l as [|a l IH]; intro H; cbn; [lia|].
  assert (IH' := IH (fun x Hx => H x (or_intror Hx))).
  destruct (p a) eqn:P.
  - rewrite (H a (or_introl eq_refl) P). cbn. lia.
  - destruct (q a); cbn; lia.
Qed.

Lemma filter_len_lt {A} (p q : A -> bool) l a :
  (forall x, In x l -> p x = true -> q x = true) ->
  In a l -> q a = true -> p a = false ->
  (length (filter p l) < length (filter q l))%nat.
Proof.
  induction l as [|b l IH]; intros H Ha Q P; [destruct Ha|].
  assert (Hl : forall x, In x l -> p x = true -> q x = true) by (intros; apply H; [right|]; auto).
  cbn. destruct Ha as [->|Ha].
  - rewrite P, Q. cbn. pose proof (filter_len_le p q l Hl). lia.
  - specialize (IH Hl Ha Q P). destruct (p b) eqn:Pb.
    + rewrite (H b (or_introl eq_refl) Pb). cbn. lia.
    + destruct (q b); cbn; lia.
Qed.

Definition P (rel : bool) (st : state) : nat := length (pending rel st).

Lemma next_change_pending rel st tc :
  next_change rel st = Some tc -> In tc (cache st) /\ eligible rel st tc = true.
Proof. intro H. apply argmin_in in H. unfold pending in H. apply filter_In in H. exact H. Qed.

Lemma P_advance rel st tc kn :
  next_change rel st = Some tc -> (P rel (advance st tc kn) < P rel st)%nat.
Proof.
  intro H. apply next_change_pending in H as [Hin He]. unfold P, pending.
  change (cache (advance st tc kn)) with (cache st).
  apply filter_len_lt with (a := tc); auto.
  - intros x _ Hx. eapply elig_adv_sub; eauto.
  - apply elig_adv_self.
Qed.

Lemma P_le_cache rel st : (P rel st <= length (cache st))%nat.
Proof.
  unfold P, pending. induction (cache st) as [|a l IH]; cbn; [lia|].
  destruct (eligible rel st a); cbn; lia.
Qed.

(* ---------------------------------------------------------------------------------------- *)
(* the repaired loop as a relation *)

Inductive steps (rel nk : bool) : state -> trace -> state -> tres -> Prop :=
| st_none st : next_change rel st = None -> steps rel nk st [] st TNone
| st_skip st tc kn st' r tr :
    next_change rel st = Some tc ->
    deser nk (known st) (fst tc) (snd tc) = (DErr EUnknownKey, kn) ->
    steps rel nk (advance st tc kn) tr st' r ->
    steps rel nk st ((tc, DErr EUnknownKey) :: tr) st' r
| st_err st tc e kn :
    next_change rel st = Some tc ->
    deser nk (known st) (fst tc) (snd tc) = (DErr e, kn) -> e <> EUnknownKey ->
    steps rel nk st [(tc, DErr e)] (advance st tc kn) (TErr e)
| st_ok st tc s kn :
    next_change rel st = Some tc ->
    deser nk (known st) (fst tc) (snd tc) = (DOk s, kn) ->
    steps rel nk st [(tc, DOk s)] (advance st tc kn) (TSome s).

Lemma take_loop_steps rel nk fuel : forall st tr,
  (P rel st < fuel)%nat ->
  exists st' r tr', take_loop true rel nk fuel st tr = TDone st' r (tr ++ tr')
                    /\ steps rel nk st tr' st' r.
Proof.
  induction fuel as [|f IH]; intros st tr Hf; [lia|].
  cbn [take_loop]. destruct (next_change rel st) as [tc|] eqn:N.
  - destruct (deser nk (known st) (fst tc) (snd tc)) as [d kn] eqn:D.
    destruct d as [s|e].
    + exists (advance st tc kn), (TSome s), [(tc, DOk s)]. split; [reflexivity|].
      eapply st_ok; eauto.
    + destruct e.
      * exists (advance st tc kn), (TErr EDeser), [(tc, DErr EDeser)]. split; [reflexivity|].
        eapply st_err; eauto. discriminate.
      * pose proof (P_advance rel st tc kn N) as HP.
        destruct (IH (advance st tc kn) (tr ++ [(tc, DErr EUnknownKey)]) ltac:(lia))
          as (st' & r & tr' & E & S).
        exists st', r, ((tc, DErr EUnknownKey) :: tr'). split.
        -- rewrite E. rewrite <- app_assoc. reflexivity.
        -- eapply st_skip; eauto.
      * exists (advance st tc kn), (TErr EOther), [(tc, DErr EOther)]. split; [reflexivity|].
        eapply st_err; eauto. discriminate.
  - exists st, TNone, []. split; [rewrite app_nil_r; reflexivity|]. constructor; auto.
Qed.

(* frame + measure facts of one call *)
Lemma steps_frame rel nk st tr st' r :
  steps rel nk st tr st' r ->
  cache st' = cache st /\ dsc st' = dsc st /\ rb st' = rb st /\ next_ts st' = next_ts st
  /\ (P rel st' <= P rel st)%nat
  /\ (r <> TNone -> (P rel st' < P rel st)%nat)
  /\ (r = TNone -> P rel st' = 0%nat).
Proof.
  induction 1 as [st N | st tc kn st' r tr N D S IH | st tc e kn N D Hne | st tc s kn N D].
  - repeat split; auto. + congruence.
    + intros _. unfold P. unfold next_change in N. apply argmin_none in N. rewrite N. reflexivity.
  - destruct IH as (C & Dc & R & T & Ple & Plt & Pz). pose proof (P_advance rel st tc kn N).
    repeat split; auto; try (intro; specialize (Plt ltac:(assumption))); lia.
  - pose proof (P_advance rel st tc kn N). repeat split; auto; try lia. discriminate.
  - pose proof (P_advance rel st tc kn N). repeat split; auto; try lia. discriminate.
Qed.

(* ---------------------------------------------------------------------------------------- *)
(* the pre-repair loop never gets past a dispose with an unknown key hash at the head *)
Lemma take_loop_old_wedged rel nk st tc kn :
  next_change rel st = Some tc ->
  deser nk (known st) (fst tc) (snd tc) = (DErr EUnknownKey, kn) ->
  forall fuel tr, take_loop false rel nk fuel st tr = TOut.
Proof.
  intros N D fuel. induction fuel as [|f IH]; intro tr; [reflexivity|].
  cbn [take_loop]. rewrite N, D. apply IH.
Qed.

(* ---------------------------------------------------------------------------------------- *)
(* every form returns: fuel 1 + |cache| + |datasample cache| is never exhausted *)

Definition M (rel : bool) (st : state) : nat := (P rel st + length (dsc st))%nat.

(* what stays fixed during a call, and what may only shrink *)
Definition evolves (rel : bool) (st st' : state) : Prop :=
  cache st' = cache st /\ (P rel st' <= P rel st)%nat /\ (M rel st' <= M rel st)%nat.

Lemma evolves_refl rel st : evolves rel st st.
Proof. unfold evolves; auto. Qed.
Lemma evolves_trans rel a b c : evolves rel a b -> evolves rel b c -> evolves rel a c.
Proof. unfold evolves; intros (A1 & A2 & A3) (B1 & B2 & B3); repeat split; try congruence; lia. Qed.

Lemma P_set_dsc rel st d : P rel (set_dsc st d) = P rel st.
Proof. reflexivity. Qed.

Lemma dsc_insert_length d s : length (dsc_insert d s) = S (length d).
Proof. induction d as [|x r IH]; cbn; [reflexivity|]. destruct (s_ts s <? s_ts (fst x)); cbn; lia. Qed.

Section Calls.
  Variable g : cfg.
  Hypothesis Hfixed : g_fixed g = true.
  Let rel := g_rel g.

  Lemma take_one_done st :
    (P rel st < g_fuel g)%nat ->
    exists st' r tr, take_one g st = TDone st' r tr /\ steps rel (g_nk g) st tr st' r.
  Proof.
    intro H. unfold take_one. rewrite Hfixed.
    destruct (take_loop_steps rel (g_nk g) (g_fuel g) st [] H) as (st' & r & tr & E & S).
    exists st', r, tr. split; auto.
  Qed.

  Lemma steps_evolves nk st tr st' r :
    steps rel nk st tr st' r ->
    evolves rel st st' /\ dsc st' = dsc st /\ (r <> TNone -> (P rel st' < P rel st)%nat).
  Proof.
    intro S. apply steps_frame in S as (C & D & _ & _ & Ple & Plt & _).
    unfold evolves, M. rewrite D. repeat split; auto. lia.
  Qed.

  (* simple forms *)
  Lemma simple_take_ok st :
    (P rel st < g_fuel g)%nat ->
    exists st' r, simple_take g st = (Some st', r) /\ bad_res r = false /\ evolves rel st st'.
  Proof.
    intro H. destruct (take_one_done st H) as (st' & r & tr & E & S).
    apply steps_evolves in S as (Ev & _ & _).
    unfold simple_take. rewrite E. destruct r as [|s|e].
    - exists st', CNone; auto.
    - destruct (g_nk g && is_dispose s); [exists st', CNone|exists st', (COne s)]; auto.
    - exists st', (CErr e); auto.
  Qed.

  Lemma keyed_spoll_ok st :
    (P rel st < g_fuel g)%nat ->
    exists st' r, keyed_spoll g st = (Some st', r) /\ bad_res r = false /\ evolves rel st st'
                  /\ (forall s, r = COne s -> (P rel st' < P rel st)%nat).
  Proof.
    intro H. destruct (take_one_done st H) as (st1 & r1 & tr1 & E1 & S1).
    apply steps_evolves in S1 as (Ev1 & _ & L1).
    unfold keyed_spoll. rewrite E1. destruct r1 as [|s|e].
    - assert (H2 : (P rel st1 < g_fuel g)%nat) by (destruct Ev1 as (_ & ? & _); lia).
      destruct (take_one_done st1 H2) as (st2 & r2 & tr2 & E2 & S2).
      apply steps_evolves in S2 as (Ev2 & _ & L2). rewrite E2.
      pose proof (evolves_trans _ _ _ _ Ev1 Ev2) as Ev.
      destruct r2 as [|s|e].
      + exists st2, CPending. split; [reflexivity|split; [reflexivity|split; [exact Ev|]]].
        intros; discriminate.
      + exists st2, (COne s). split; [reflexivity|split; [reflexivity|split; [exact Ev|]]].
        intros _ _. specialize (L2 ltac:(discriminate)). destruct Ev1 as (_ & ? & _). lia.
      + exists st2, (CErr e). split; [reflexivity|split; [reflexivity|split; [exact Ev|]]].
        intros; discriminate.
    - exists st1, (COne s). split; [reflexivity|split; [reflexivity|split; [exact Ev1|]]].
      intros _ _. apply L1; discriminate.
    - exists st1, (CErr e). split; [reflexivity|split; [reflexivity|split; [exact Ev1|]]].
      intros; discriminate.
  Qed.

  Lemma nokey_spoll_ok fuel : forall st,
    (P rel st < g_fuel g)%nat -> (P rel st < fuel)%nat ->
    exists st' r, nokey_spoll g fuel st = (Some st', r) /\ bad_res r = false /\ evolves rel st st'.
  Proof.
    induction fuel as [|f IH]; intros st H1 H2; [lia|].
    cbn [nokey_spoll]. destruct (keyed_spoll_ok st H1) as (st' & r & E & B & Ev & L).
    rewrite E. destruct r as [|s|e|l| | |]; try discriminate B.
    - exists st', CNone; auto.
    - destruct (is_dispose s).
      + specialize (L s eq_refl).
        destruct (IH st') as (st'' & r'' & E'' & B'' & Ev''); try lia.
        exists st'', r''. split; [exact E''|split; [exact B''|eapply evolves_trans; eauto]].
      + exists st', (COne s). split; [reflexivity|split; [reflexivity|exact Ev]].
    - exists st', (CErr e); auto.
    - exists st', (CVec l); auto.
    - exists st', CPending; auto.
  Qed.

  (* the DataReader's fill loop *)
  Lemma fill_ok fuel : forall st,
    (P rel st < g_fuel g)%nat -> (P rel st < fuel)%nat ->
    exists st', (fill g fuel st = FOk st' \/ exists e, fill g fuel st = FErr st' e)
                /\ evolves rel st st'.
  Proof.
    induction fuel as [|f IH]; intros st H1 H2; [lia|].
    cbn [fill]. destruct (take_one_done st H1) as (st1 & r1 & tr1 & E1 & S1).
    apply steps_evolves in S1 as (Ev1 & D1 & L1). rewrite E1.
    destruct r1 as [|s|e].
    - exists st1; auto.
    - specialize (L1 ltac:(discriminate)).
      set (st2 := set_dsc st1 (dsc_insert (dsc st1) s)).
      assert (Ev2 : evolves rel st st2).
      { destruct Ev1 as (C & Pl & Ml). unfold evolves, M, st2. rewrite !P_set_dsc. cbn [dsc set_dsc cache].
        rewrite dsc_insert_length. unfold M in Ml. rewrite D1 in *. repeat split; auto; lia. }
      destruct (IH st2) as (st' & R & Ev'); unfold st2; rewrite ?P_set_dsc; try lia.
      exists st'; split; auto. eapply evolves_trans; eauto.
    - exists st1; split; eauto.
  Qed.

  Lemma P_lt_fuel_evolves st st' :
    (P rel st < g_fuel g)%nat -> evolves rel st st' -> (P rel st' < g_fuel g)%nat.
  Proof. intros H (_ & ? & _). lia. Qed.

  (* selection only picks stored samples *)
  Lemma In_takeZ {A} (x : A) l : forall n, In x (takeZ n l) -> In x l.
  Proof.
    induction l as [|a l IH]; intros n H; cbn in *; [auto|].
    destruct (n <=? 0); [destruct H|]. destruct H as [->|H]; eauto.
  Qed.
  Lemma In_ins_sn x y l : In x (ins_sn y l) -> x = y \/ In x l.
  Proof.
    induction l as [|a l IH]; cbn.
    - intros [<-|[]]; auto.
    - destruct (s_sn (fst y) <=? s_sn (fst a)); cbn.
      + intros [<-|H]; auto.
      + intros [<-|H]; auto. apply IH in H as [->|H]; auto.
  Qed.
  Lemma In_sort_sn x l : In x (sort_sn l) -> In x l.
  Proof.
    induction l as [|a l IH]; cbn; [auto|]. intro H. apply In_ins_sn in H as [->|H]; auto.
  Qed.
  Lemma select_in nr max d s : In s (select nr max d) -> exists b, In (s, b) d.
  Proof.
    unfold select. intro H. apply in_map_iff in H as ((s', b) & <- & H).
    apply In_takeZ, In_sort_sn, filter_In in H as [H _]. eauto.
  Qed.

  Lemma dsc_remove_le sel d : (length (dsc_remove sel d) <= length d)%nat.
  Proof.
    unfold dsc_remove. induction d as [|a l IH]; cbn; [lia|].
    destruct (negb (in_sel sel (fst a))); cbn; lia.
  Qed.
  Lemma dsc_remove_lt sel d s b :
    In s sel -> In (s, b) d -> (length (dsc_remove sel d) < length d)%nat.
  Proof.
    intros Hs Hd. unfold dsc_remove.
    assert (E : length d = length (filter (fun _ => true) d)).
    { clear. induction d; cbn; auto. }
    rewrite E. apply filter_len_lt with (a := (s, b)); auto.
    cbn. unfold in_sel. replace (existsb _ sel) with true; [reflexivity|].
    symmetry. apply existsb_exists. exists s; split; auto. lia.
  Qed.
  Lemma dsc_mark_length sel d : length (dsc_mark sel d) = length d.
  Proof. unfold dsc_mark. apply map_length. Qed.

  Lemma keyed_access_ok take max nr st :
    (P rel st < g_fuel g)%nat ->
    (exists st' l, keyed_access g take max nr st = VOk st' l /\ evolves rel st st'
                   /\ (take = true -> l <> [] -> (M rel st' < M rel st)%nat))
    \/ (exists st' e, keyed_access g take max nr st = VErr st' e /\ evolves rel st st').
  Proof.
    intro H. unfold keyed_access.
    destruct (fill_ok (g_fuel g) st H H) as (st1 & [E|[e E]] & Ev); rewrite E.
    - left. set (sel := select nr max (dsc st1)).
      eexists; exists sel; split; [reflexivity|].
      destruct Ev as (C & Pl & Ml). unfold evolves, M in *. rewrite !P_set_dsc. cbn [dsc set_dsc cache].
      split; [repeat split; auto|].
      + destruct take; [pose proof (dsc_remove_le sel (dsc st1))|rewrite dsc_mark_length]; lia.
      + intros -> Hne. destruct sel as [|s sel'] eqn:Es; [congruence|].
        assert (Hs : In s sel) by (rewrite Es; left; auto).
        destruct (select_in nr max (dsc st1) s Hs) as [b Hb].
        pose proof (dsc_remove_lt sel (dsc st1) s b Hs Hb). rewrite <- Es. lia.
    - right. eauto.
  Qed.

  Lemma vec_call_ok take max nr br st :
    (P rel st < g_fuel g)%nat ->
    exists st' r, vec_call g take max nr br st = (Some st', r) /\ bad_res r = false
                  /\ evolves rel st st'.
  Proof.
    intro H. unfold vec_call.
    destruct (keyed_access_ok take max nr st H) as [(st' & l & E & Ev & _)|(st' & e & E & Ev)];
      rewrite E; eexists; eexists; (split; [reflexivity|split; [reflexivity|exact Ev]]).
  Qed.

  Lemma next_call_ok take st :
    (P rel st < g_fuel g)%nat ->
    exists st' r, next_call g take st = (Some st', r) /\ bad_res r = false /\ evolves rel st st'.
  Proof.
    intro H. unfold next_call.
    destruct (keyed_access_ok take 1 true st H) as [(st' & l & E & Ev & _)|(st' & e & E & Ev)];
      rewrite E.
    - destruct (values (g_nk g) l); eexists; eexists; (split; [reflexivity|split; [reflexivity|exact Ev]]).
    - eexists; eexists; (split; [reflexivity|split; [reflexivity|exact Ev]]).
  Qed.

  Lemma keyed_poll_ok st :
    (P rel st < g_fuel g)%nat ->
    exists st' r, keyed_poll g st = (Some st', r) /\ bad_res r = false /\ evolves rel st st'
                  /\ (forall s, r = COne s -> (M rel st' < M rel st)%nat).
  Proof.
    intro H. unfold keyed_poll.
    destruct (keyed_access_ok true 1 true st H) as [(st1 & l & E & Ev & L)|(st1 & e & E & Ev)];
      rewrite E.
    - destruct l as [|s l'].
      + pose proof (P_lt_fuel_evolves st st1 H Ev) as H1.
        destruct (keyed_access_ok true 1 true st1 H1) as [(st2 & l2 & E2 & Ev2 & L2)|(st2 & e & E2 & Ev2)];
          rewrite E2; pose proof (evolves_trans _ _ _ _ Ev Ev2) as Ev'.
        * destruct l2 as [|s l2'].
          -- exists st2, CPending. split; [reflexivity|split; [reflexivity|split; [exact Ev'|]]].
             intros; discriminate.
          -- exists st2, (COne s). split; [reflexivity|split; [reflexivity|split; [exact Ev'|]]].
             intros _ _. specialize (L2 eq_refl ltac:(discriminate)). destruct Ev as (_ & _ & ?). lia.
        * exists st2, (CErr e). split; [reflexivity|split; [reflexivity|split; [exact Ev'|]]].
          intros; discriminate.
      + exists st1, (COne s). split; [reflexivity|split; [reflexivity|split; [exact Ev|]]].
        intros _ _. apply L; [auto|discriminate].
    - exists st1, (CErr e). split; [reflexivity|split; [reflexivity|split; [exact Ev|]]].
      intros; discriminate.
  Qed.

  Lemma nokey_poll_ok fuel : forall st,
    (P rel st < g_fuel g)%nat -> (M rel st < fuel)%nat ->
    exists st' r, nokey_poll g fuel st = (Some st', r) /\ bad_res r = false /\ evolves rel st st'.
  Proof.
    induction fuel as [|f IH]; intros st H1 H2; [lia|].
    cbn [nokey_poll]. destruct (keyed_poll_ok st H1) as (st' & r & E & B & Ev & L).
    rewrite E. destruct r as [|s|e|l| | |]; try discriminate B.
    - exists st', CNone; auto.
    - destruct (is_dispose s).
      + specialize (L s eq_refl). pose proof (P_lt_fuel_evolves st st' H1 Ev).
        destruct (IH st') as (st'' & r'' & E'' & B'' & Ev''); try lia.
        exists st'', r''. split; [exact E''|split; [exact B''|eapply evolves_trans; eauto]].
      + exists st', (COne s). split; [reflexivity|split; [reflexivity|exact Ev]].
    - exists st', (CErr e); auto.
    - exists st', (CVec l); auto.
    - exists st', CPending; auto.
  Qed.

  Lemma call_ok f st :
    (M rel st < g_fuel g)%nat ->
    exists st' r, call g f st = (Some st', r) /\ bad_res r = false /\ evolves rel st st'.
  Proof.
    intro HM. assert (H : (P rel st < g_fuel g)%nat) by (unfold M in HM; lia).
    destruct f; cbn [call].
    - apply simple_take_ok; auto.
    - destruct (g_nk g).
      + apply nokey_spoll_ok; auto.
      + destruct (keyed_spoll_ok st H) as (st' & r & E & B & Ev & _). eauto.
    - apply vec_call_ok; auto.
    - apply vec_call_ok; auto.
    - apply next_call_ok; auto.
    - apply next_call_ok; auto.
    - apply vec_call_ok; auto.
    - apply vec_call_ok; auto.
    - destruct (g_nk g).
      + apply nokey_poll_ok; auto.
      + destruct (keyed_poll_ok st H) as (st' & r & E & B & Ev & _). eauto.
    - destruct (g_nk g).
      + apply nokey_poll_ok; auto.
      + destruct (keyed_poll_ok st H) as (st' & r & E & B & Ev & _). rewrite E.
        destruct r; cbn; try discriminate B; eexists; eexists; (split; [reflexivity|split; [reflexivity|exact Ev]]).
  Qed.
End Calls.

Lemma M_lt_fuel_for rel st : (M rel st < fuel_for st)%nat.
Proof. unfold M, fuel_for. pose proof (P_le_cache rel st). lia. Qed.

Lemma bad_strip r : bad_res (strip_res r) = bad_res r.
Proof. destruct r; reflexivity. Qed.

Lemma run_ops_bounded rel nk : forall l st,
  length (run_ops true rel nk st l) = ncalls l /\ existsb bad_res (run_ops true rel nk st l) = false.
Proof.
  induction l as [|o l IH]; intro st; [split; reflexivity|].
  destruct o as [w sn k|w sn|f]; cbn [run_ops]; try apply IH.
  set (g := mkCfg true rel nk (fuel_for st)).
  destruct (call_ok g eq_refl f st (M_lt_fuel_for rel st)) as (st' & r & E & B & _).
  rewrite E. destruct (IH st') as (L & X). split.
  - cbn. unfold ncalls in *. cbn. rewrite L. reflexivity.
  - cbn. rewrite bad_strip, B, X. reflexivity.
Qed.

Lemma run_bounded c : ok_bounded c (run c) = true.
Proof.
  unfold ok_bounded, run, run_gen.
  destruct (run_ops_bounded (reliable c) (nokey c) (ops c) init) as (L & X).
  rewrite L, X, Nat.eqb_refl. reflexivity.
Qed.

(* ---------------------------------------------------------------------------------------- *)
(* exactly once, and progress, for the repaired try_take_one_with *)

(* the read-pointer part of eligibility *)
Definition unread (rel : bool) (st : state) (tc : Z * change) : bool :=
  if rel then lower st (c_w (snd tc)) <? c_sn (snd tc) else li st <? fst tc.

Lemma eligible_unread rel st tc : eligible rel st tc = true -> unread rel st tc = true.
Proof. destruct rel; [rewrite eligible_rel|]; unfold unread, eligible; lia. Qed.

Lemma unread_adv_self rel st tc kn : unread rel (advance st tc kn) tc = false.
Proof.
  destruct rel; unfold unread.
  - rewrite lower_advance, Z.eqb_refl. lia.
  - unfold advance; cbn. lia.
Qed.

Lemma unread_adv_mono rel st tc kn x :
  eligible rel st tc = true -> unread rel (advance st tc kn) x = true -> unread rel st x = true.
Proof.
  intro E. apply eligible_unread in E. destruct rel; unfold unread in *.
  - rewrite lower_advance. destruct (c_w (snd tc) =? c_w (snd x)) eqn:Q; [|auto].
    assert (c_w (snd tc) = c_w (snd x)) as <- by lia. lia.
  - unfold advance; cbn. lia.
Qed.

Lemma steps_unread_mono rel nk st tr st' r x :
  steps rel nk st tr st' r -> unread rel st' x = true -> unread rel st x = true.
Proof.
  induction 1 as [st N | st tc kn st' r tr N D S IH | st tc e kn N D Hne | st tc s kn N D]; intro U;
    auto; apply next_change_pending in N as [_ E]; eapply unread_adv_mono; eauto.
Qed.

(* S1: what a call consumes was cached and unread before, and is read afterwards *)
Lemma steps_consumes rel nk st tr st' r :
  steps rel nk st tr st' r ->
  forall x, In x (map fst tr) ->
  In x (cache st) /\ unread rel st x = true /\ unread rel st' x = false.
Proof.
  induction 1 as [st N | st tc kn st' r tr N D S IH | st tc e kn N D Hne | st tc s kn N D];
    intros x Hx; cbn in Hx.
  - destruct Hx.
  - pose proof (next_change_pending _ _ _ N) as [Hin He].
    destruct Hx as [<-|Hx].
    + split; [auto|split; [apply eligible_unread; auto|]].
      destruct (unread rel st' tc) eqn:U; [|reflexivity].
      eapply steps_unread_mono in U; eauto. rewrite unread_adv_self in U. discriminate.
    + destruct (IH x Hx) as (A & B & C). split; [exact A|split; [|exact C]].
      eapply unread_adv_mono; eauto.
  - pose proof (next_change_pending _ _ _ N) as [Hin He].
    destruct Hx as [<-|[]]. split; [auto|split; [apply eligible_unread; auto|apply unread_adv_self]].
  - pose proof (next_change_pending _ _ _ N) as [Hin He].
    destruct Hx as [<-|[]]. split; [auto|split; [apply eligible_unread; auto|apply unread_adv_self]].
Qed.

Lemma steps_trace_nodup rel nk st tr st' r :
  steps rel nk st tr st' r -> NoDup (map fst tr).
Proof.
  induction 1 as [st N | st tc kn st' r tr N D S IH | st tc e kn N D Hne | st tc s kn N D]; cbn;
    try (constructor; [intros []|constructor]).
  - constructor.
  - constructor; [|exact IH]. intro Hin.
    destruct (steps_consumes _ _ _ _ _ _ S tc Hin) as (_ & U & _).
    rewrite unread_adv_self in U. discriminate.
Qed.

(* S3: only the last consumed change is returned or reported; the others were skipped *)
Definition skipped (e : Z * change * dres) : Prop := snd e = DErr EUnknownKey.

Lemma steps_shape rel nk st tr st' r :
  steps rel nk st tr st' r ->
  match r with
  | TNone => Forall skipped tr
  | TSome s => exists tc tr0, tr = tr0 ++ [(tc, DOk s)] /\ Forall skipped tr0
  | TErr e => exists tc tr0, tr = tr0 ++ [(tc, DErr e)] /\ e <> EUnknownKey /\ Forall skipped tr0
  end.
Proof.
  induction 1 as [st N | st tc kn st' r tr N D S IH | st tc e kn N D Hne | st tc s kn N D].
  - constructor.
  - destruct r as [|s|e].
    + constructor; [reflexivity|exact IH].
    + destruct IH as (tc' & tr0 & -> & F). exists tc', ((tc, DErr EUnknownKey) :: tr0).
      split; [reflexivity|constructor; [reflexivity|exact F]].
    + destruct IH as (tc' & tr0 & -> & Hn & F). exists tc', ((tc, DErr EUnknownKey) :: tr0).
      split; [reflexivity|split; [exact Hn|constructor; [reflexivity|exact F]]].
  - exists tc, []. split; [reflexivity|split; [exact Hne|constructor]].
  - exists tc, []. split; [reflexivity|constructor].
Qed.

Lemma steps_ok_returned rel nk st tr st' r x s :
  steps rel nk st tr st' r -> In (x, DOk s) tr -> r = TSome s.
Proof.
  induction 1 as [st N | st tc kn st' r tr N D S IH | st tc e kn N D Hne | st tc s0 kn N D];
    intro H; cbn in H.
  - destruct H.
  - destruct H as [H|H]; [discriminate|auto].
  - destruct H as [H|[]]; discriminate.
  - destruct H as [H|[]]. inversion H; reflexivity.
Qed.

Lemma steps_err_reported rel nk st tr st' r x e :
  steps rel nk st tr st' r -> In (x, DErr e) tr -> e <> EUnknownKey -> r = TErr e.
Proof.
  induction 1 as [st N | st tc kn st' r tr N D S IH | st tc e0 kn N D Hne | st tc s0 kn N D];
    intros H Hn; cbn in H.
  - destruct H.
  - destruct H as [H|H]; [inversion H; congruence|auto].
  - destruct H as [H|[]]. inversion H; reflexivity.
  - destruct H as [H|[]]; discriminate.
Qed.

(* S4: the recorded verdict is deserialize_with's; for the always-intelligible kinds it does not
   depend on the reader's history *)
Definition expected (nk : bool) (tc : Z * change) : option sample :=
  match c_kind (snd tc) with
  | KData k v => Some (mkS (fst tc) (c_w (snd tc)) (c_sn (snd tc)) (keyof nk k) (Some v))
  | KDisposeKey k => Some (mkS (fst tc) (c_w (snd tc)) (c_sn (snd tc)) (keyof nk k) None)
  | _ => None
  end.

Lemma deser_expected nk kn tc s :
  expected nk tc = Some s -> fst (deser nk kn (fst tc) (snd tc)) = DOk s.
Proof. unfold expected, deser. destruct (c_kind (snd tc)); intro H; inversion H; reflexivity. Qed.

Lemma steps_verdict rel nk st tr st' r x d s :
  steps rel nk st tr st' r -> In (x, d) tr -> expected nk x = Some s -> d = DOk s.
Proof.
  induction 1 as [st N | st tc kn st' r tr N D S IH | st tc e kn N D Hne | st tc s0 kn N D];
    intros H Hx; cbn in H.
  - destruct H.
  - destruct H as [H|H]; [|auto]. inversion H; subst.
    pose proof (deser_expected nk (known st) x s Hx) as Q. rewrite D in Q. discriminate.
  - destruct H as [H|[]]. inversion H; subst.
    pose proof (deser_expected nk (known st) x s Hx) as Q. rewrite D in Q. cbn in Q. congruence.
  - destruct H as [H|[]]. inversion H; subst.
    pose proof (deser_expected nk (known st) x s Hx) as Q. rewrite D in Q. cbn in Q. congruence.
Qed.

(* bad kinds: reported *)
Lemma steps_bad_verdict rel st tr st' r x d :
  steps rel false st tr st' r -> In (x, d) tr ->
  is_bad_kind false (c_kind (snd x)) = true -> d = DErr EDeser.
Proof.
  induction 1 as [st N | st tc kn st' r tr N D S IH | st tc e kn N D Hne | st tc s0 kn N D];
    intros H Hx; cbn in H.
  - destruct H.
  - destruct H as [H|H]; [|auto]. inversion H; subst.
    unfold deser in D. destruct (c_kind (snd x)); try discriminate.
  - destruct H as [H|[]]. inversion H; subst.
    unfold deser in D. destruct (c_kind (snd x)); try discriminate; inversion D; reflexivity.
  - destruct H as [H|[]]. inversion H; subst.
    unfold deser in D. destruct (c_kind (snd x)); try discriminate.
Qed.

(* well-formed cache: receive instants and (writer, sn) pairs are unique *)
Definition idof (tc : Z * change) : Z * Z := (c_w (snd tc), c_sn (snd tc)).
Definition wf (st : state) : Prop :=
  NoDup (map fst (cache st)) /\ NoDup (map idof (cache st))
  /\ Forall (fun tc => fst tc < next_ts st) (cache st).

Lemma wf_init : wf init.
Proof. repeat split; constructor. Qed.

Lemma NoDup_map_inj {A B} (f : A -> B) l a b :
  NoDup (map f l) -> In a l -> In b l -> f a = f b -> a = b.
Proof.
  induction l as [|x l IH]; intros N Ha Hb E; [destruct Ha|].
  cbn in N. inversion N as [|? ? Hn N']; subst.
  destruct Ha as [->|Ha], Hb as [->|Hb]; auto.
  - exfalso. apply Hn. rewrite E. apply in_map; auto.
  - exfalso. apply Hn. rewrite <- E. apply in_map; auto.
Qed.

Lemma wf_same_key rel st a b :
  wf st -> In a (cache st) -> In b (cache st) -> same_key rel a b -> a = b.
Proof.
  intros (N1 & N2 & _) Ha Hb K. destruct rel; cbn in K.
  - eapply (NoDup_map_inj idof); eauto. unfold idof. destruct K; congruence.
  - eapply (NoDup_map_inj fst); eauto.
Qed.

Lemma NoDup_app_one {A} (l : list A) a : NoDup l -> ~ In a l -> NoDup (l ++ [a]).
Proof.
  induction l as [|x l IH]; intros N H; cbn; [constructor; [intros []|constructor]|].
  inversion N as [|? ? Hn N']; subst. constructor.
  - intro Hin. apply in_app_or in Hin as [Hin|[<-|[]]]; [auto|]. apply H; left; reflexivity.
  - apply IH; auto. intro; apply H; right; auto.
Qed.

Lemma wf_add st w sn k : wf st -> wf (add_change st w sn k).
Proof.
  intros (N1 & N2 & F). unfold add_change.
  destruct (existsb (same_id w sn) (cache st)) eqn:E; cbn.
  - repeat split; auto. cbn. eapply Forall_impl; [|exact F]. cbn; intros; lia.
  - repeat split; cbn.
    + rewrite map_app. cbn. apply NoDup_app_one; auto.
      intro H. apply in_map_iff in H as (x & Hx & Hin).
      rewrite Forall_forall in F. specialize (F x Hin). lia.
    + rewrite map_app. cbn. apply NoDup_app_one; auto.
      intro H. apply in_map_iff in H as (x & Hx & Hin).
      assert (existsb (same_id w sn) (cache st) = true); [|congruence].
      apply existsb_exists. exists x; split; auto. unfold same_id, idof in *. cbn in Hx.
      inversion Hx. lia.
    + apply Forall_app; split.
      * eapply Forall_impl; [|exact F]. cbn; intros; lia.
      * constructor; [cbn; lia|constructor].
Qed.

