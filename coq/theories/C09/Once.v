(* C09 — exactly once and progress over histories of the repaired SimpleDataReader. *)
From Coq Require Import List ZArith Bool Lia ZifyBool Arith.
From RD Require Import Common.Corr C09.Model C09.Proofs.
Import ListNotations.
Open Scope Z_scope.

Lemma classic_same_key rel a b : same_key rel a b \/ ~ same_key rel a b.
Proof. unfold same_key. destruct rel; lia. Qed.

Lemma wf_steps rel nk st tr st' r : steps rel nk st tr st' r -> wf st -> wf st'.
Proof.
  intros S (N1 & N2 & F). apply steps_frame in S as (C & _ & _ & T & _). unfold wf. rewrite C, T. auto.
Qed.
Lemma wf_advance st tc kn : wf st -> wf (advance st tc kn).
Proof. intro H; exact H. Qed.

(* S2: nothing pending is lost — it is consumed by this call or still pending afterwards *)
Lemma steps_complete rel nk st tr st' r :
  steps rel nk st tr st' r -> wf st ->
  forall x, In x (pending rel st) -> In x (map fst tr) \/ In x (pending rel st').
Proof.
  assert (K : forall st tc kn x, wf st -> next_change rel st = Some tc -> In x (pending rel st) ->
              x = tc \/ In x (pending rel (advance st tc kn))).
  { intros st0 tc0 kn0 x0 W N Hx. pose proof (argmin_min rel _ _ N x0 Hx) as Hle.
    apply next_change_pending in N as [Hin He].
    unfold pending in Hx. apply filter_In in Hx as [Hxin Hxe].
    destruct (classic_same_key rel tc0 x0) as [S|S].
    - left. symmetry. eapply wf_same_key; eauto.
    - right. unfold pending. apply filter_In. split; [exact Hxin|].
      apply elig_adv_other; auto. }
  induction 1 as [st N | st tc kn st' r tr N D S IH | st tc e kn N D Hne | st tc s kn N D];
    intros W x Hx.
  - right; exact Hx.
  - destruct (K st tc kn x W N Hx) as [->|Hp]; [left; left; reflexivity|].
    destruct (IH (wf_advance st tc kn W) x Hp); [left; right; auto|right; auto].
  - destruct (K st tc kn x W N Hx) as [->|Hp]; [left; left; reflexivity|right; auto].
  - destruct (K st tc kn x W N Hx) as [->|Hp]; [left; left; reflexivity|right; auto].
Qed.

(* ---------------------------------------------------------------------------------------- *)
(* histories of a SimpleDataReader: arrivals, marker moves, try_take_one calls *)
Inductive sop := SAdd (w sn : Z) (k : ckind) | SMark (w sn : Z) | STake.

(* the call with the fuel C09_terminates prescribes: 1 + number of pending changes *)
Definition take_call (rel nk : bool) (st : state) : tout :=
  take_loop true rel nk (S (P rel st)) st [].

(* results and ghost traces of the STake calls, and the final state *)
Fixpoint sim (rel nk : bool) (st : state) (l : list sop) : list (tres * trace) * state :=
  match l with
  | [] => ([], st)
  | SAdd w sn k :: r => sim rel nk (add_change st w sn k) r
  | SMark w sn :: r => sim rel nk (mark st w sn) r
  | STake :: r =>
      match take_call rel nk st with
      | TOut => ([], st)
      | TDone st' res tr => let (o, stf) := sim rel nk st' r in ((res, tr) :: o, stf)
      end
  end.

Definition consumed (o : list (tres * trace)) : list (Z * change) :=
  flat_map (fun p => map fst (snd p)) o.

Lemma take_call_steps rel nk st :
  exists st' r tr, take_call rel nk st = TDone st' r tr /\ steps rel nk st tr st' r.
Proof.
  unfold take_call.
  destruct (take_loop_steps rel nk (S (P rel st)) st [] ltac:(lia)) as (st' & r & tr & E & S).
  exists st', r, tr. split; auto.
Qed.

Lemma unread_add rel st w sn k x : unread rel (add_change st w sn k) x = unread rel st x.
Proof. unfold add_change. destruct (existsb _ _); reflexivity. Qed.
Lemma unread_mark rel st w sn x : unread rel (mark st w sn) x = unread rel st x.
Proof. reflexivity. Qed.
Lemma cache_add_incl st w sn k x : In x (cache st) -> In x (cache (add_change st w sn k)).
Proof. unfold add_change. destruct (existsb _ _); cbn; auto. intro; apply in_or_app; auto. Qed.

(* invariant: whatever a later call consumes is, if cached already, still unread *)
Lemma sim_consumes_unread rel nk : forall l st x,
  In x (consumed (fst (sim rel nk st l))) -> In x (cache st) -> unread rel st x = true.
Proof.
  induction l as [|o l IH]; intros st x Hx Hc; [destruct Hx|].
  destruct o as [w sn k|w sn|]; cbn [sim] in Hx.
  - rewrite <- (unread_add rel st w sn k). apply IH; auto. apply cache_add_incl; auto.
  - rewrite <- (unread_mark rel st w sn). apply IH; auto.
  - destruct (take_call_steps rel nk st) as (st' & r & tr & E & S). rewrite E in Hx.
    destruct (sim rel nk st' l) as [o stf] eqn:Es. cbn in Hx.
    apply in_app_or in Hx as [Hx|Hx].
    + apply (steps_consumes _ _ _ _ _ _ S x Hx).
    + eapply steps_unread_mono; eauto. apply IH.
      * rewrite Es; exact Hx.
      * apply steps_frame in S as (C & _). rewrite C; auto.
Qed.

Lemma NoDup_app_intro {A} (l1 l2 : list A) :
  NoDup l1 -> NoDup l2 -> (forall x, In x l1 -> In x l2 -> False) -> NoDup (l1 ++ l2).
Proof.
  induction l1 as [|a l1 IH]; intros N1 N2 D; cbn; [exact N2|].
  inversion N1 as [|? ? Hn N1']; subst. constructor.
  - intro H. apply in_app_or in H as [H|H]; [auto|]. apply (D a); [left; reflexivity|exact H].
  - apply IH; auto. intros x H1 H2. apply (D x); [right; exact H1|exact H2].
Qed.

Lemma sim_once rel nk : forall l st, NoDup (consumed (fst (sim rel nk st l))).
Proof.
  induction l as [|o l IH]; intro st; [constructor|].
  destruct o as [w sn k|w sn|]; cbn [sim]; auto.
  destruct (take_call_steps rel nk st) as (st' & r & tr & E & S). rewrite E.
  specialize (IH st'). pose proof (sim_consumes_unread rel nk l st') as Inv.
  destruct (sim rel nk st' l) as [o stf]. cbn in *.
  apply NoDup_app_intro.
  - eapply steps_trace_nodup; eauto.
  - exact IH.
  - intros x H1 H2. destruct (steps_consumes _ _ _ _ _ _ S x H1) as (Hc & _ & U).
    apply steps_frame in S as (C & _). rewrite <- C in Hc.
    rewrite (Inv x H2 Hc) in U. discriminate.
Qed.

Lemma wf_mark st w sn : wf st -> wf (mark st w sn).
Proof. intro H; exact H. Qed.

Lemma sim_wf rel nk : forall l st, wf st -> wf (snd (sim rel nk st l)).
Proof.
  induction l as [|o l IH]; intros st W; [exact W|].
  destruct o as [w sn k|w sn|]; cbn [sim].
  - apply IH, wf_add, W.
  - apply IH, wf_mark, W.
  - destruct (take_call_steps rel nk st) as (st' & r & tr & E & S). rewrite E.
    specialize (IH st' (wf_steps _ _ _ _ _ _ S W)). destruct (sim rel nk st' l); exact IH.
Qed.

(* progress: P calls (P = number of pending changes) consume every pending change *)
Lemma sim_progress rel nk : forall n st x,
  wf st -> (P rel st <= n)%nat -> In x (pending rel st) ->
  exists r tr d, In (r, tr) (fst (sim rel nk st (repeat STake n))) /\ In (x, d) tr.
Proof.
  induction n as [|n IH]; intros st x W Hn Hx.
  - unfold P in Hn. destruct (pending rel st); [destruct Hx|cbn in Hn; lia].
  - cbn [repeat sim].
    destruct (take_call_steps rel nk st) as (st' & r & tr & E & S). rewrite E.
    destruct (sim rel nk st' (repeat STake n)) as [o stf] eqn:Es. cbn.
    destruct (steps_complete _ _ _ _ _ _ S W x Hx) as [Hin|Hp].
    + apply in_map_iff in Hin as ((x', d) & <- & Hin). exists r, tr, d. split; [left; reflexivity|exact Hin].
    + pose proof (steps_frame _ _ _ _ _ _ S) as (_ & _ & _ & _ & Ple & Plt & Pz).
      assert (Hr : r <> TNone).
      { intro Hr. specialize (Pz Hr). unfold P in Pz. destruct (pending rel st'); [destruct Hp|discriminate]. }
      specialize (Plt Hr).
      destruct (IH st' x (wf_steps _ _ _ _ _ _ S W) ltac:(lia) Hp) as (r' & tr' & d & Hin & Hd).
      rewrite Es in Hin. exists r', tr', d. split; [right; exact Hin|exact Hd].
Qed.

(* every entry of sim's output comes from a call that satisfies [steps] *)
Lemma sim_entries rel nk : forall l st r tr,
  In (r, tr) (fst (sim rel nk st l)) -> exists s s', steps rel nk s tr s' r.
Proof.
  induction l as [|o l IH]; intros st r tr H; [destruct H|].
  destruct o as [w sn k|w sn|]; cbn [sim] in H; eauto.
  destruct (take_call_steps rel nk st) as (st' & r0 & tr0 & E & S). rewrite E in H.
  destruct (sim rel nk st' l) as [o stf] eqn:Es. cbn in H. destruct H as [H|H].
  - inversion H; subst. eauto.
  - eapply IH. rewrite Es. exact H.
Qed.

(* ---------------------------------------------------------------------------------------- *)
(* the statements Props.v exports *)

Definition wedge_st : state := mark (add_change init 1 1 (KDisposeHash 7)) 1 2.
Definition wedge_case (rel : bool) : case :=
  mkCase rel false [OAdd 1 1 (KDisposeHash 7); OMark 1 2; OCall (FTake 10 false)].

Lemma wedge_old : forall rel nk fuel, take_loop false rel nk fuel wedge_st [] = TOut.
Proof.
  intros rel nk fuel.
  apply take_loop_old_wedged with (tc := (1, mkC 1 1 (KDisposeHash 7))) (kn := []);
    destruct rel, nk; reflexivity.
Qed.

Lemma wedge_old_run : forall rel,
  run_old (wedge_case rel) = [CHang] /\ ok (wedge_case rel) (run_old (wedge_case rel)) = false
  /\ run (wedge_case rel) = [CVec []].
Proof. intros []; vm_compute; auto. Qed.

Lemma terminates : forall rel nk st fuel tr,
  (length (pending rel st) < fuel)%nat -> take_loop true rel nk fuel st tr <> TOut.
Proof.
  intros rel nk st fuel tr H.
  destruct (take_loop_steps rel nk fuel st tr H) as (st' & r & tr' & E & _). congruence.
Qed.

Definition call_shape (r : tres) (tr : trace) : Prop :=
  match r with
  | TNone => Forall skipped tr
  | TSome s => exists tc tr0, tr = tr0 ++ [(tc, DOk s)] /\ Forall skipped tr0
  | TErr e => exists tc tr0, tr = tr0 ++ [(tc, DErr e)] /\ e <> EUnknownKey /\ Forall skipped tr0
  end.

Lemma once : forall rel nk l,
  NoDup (consumed (fst (sim rel nk init l)))
  /\ forall r tr, In (r, tr) (fst (sim rel nk init l)) -> call_shape r tr.
Proof.
  intros rel nk l. split; [apply sim_once|].
  intros r tr H. apply sim_entries in H as (s & s' & S). exact (steps_shape _ _ _ _ _ _ S).
Qed.

Lemma progress : forall rel nk l,
  let st := snd (sim rel nk init l) in
  forall x, In x (pending rel st) ->
  exists r tr d,
    In (r, tr) (fst (sim rel nk st (repeat STake (length (pending rel st))))) /\ In (x, d) tr
    /\ (forall s, expected nk x = Some s -> r = TSome s)
    /\ (nk = false -> is_bad_kind false (c_kind (snd x)) = true -> r = TErr EDeser).
Proof.
  intros rel nk l st x Hx.
  assert (W : wf st) by (apply sim_wf, wf_init).
  destruct (sim_progress rel nk (P rel st) st x W (le_n _) Hx) as (r & tr & d & Hin & Hd).
  exists r, tr, d. split; [exact Hin|split; [exact Hd|]].
  destruct (sim_entries _ _ _ _ _ _ Hin) as (s0 & s1 & S). split.
  - intros s He. pose proof (steps_verdict _ _ _ _ _ _ _ _ _ S Hd He) as ->.
    eapply steps_ok_returned; eauto.
  - intros -> Hb. pose proof (steps_bad_verdict _ _ _ _ _ _ _ S Hd Hb) as ->.
    eapply steps_err_reported; eauto. discriminate.
Qed.

(* with_key: Ok(None) really means that nothing is pending *)
Lemma none_means_empty : forall rel nk st st' tr,
  take_call rel nk st = TDone st' TNone tr -> pending rel st' = [].
Proof.
  intros rel nk st st' tr E.
  destruct (take_call_steps rel nk st) as (st2 & r & tr2 & E2 & S). rewrite E in E2.
  inversion E2; subst. apply steps_frame in S as (_ & _ & _ & _ & _ & _ & Pz).
  specialize (Pz eq_refl). unfold P in Pz. destruct (pending rel st2); [reflexivity|discriminate].
Qed.

(* no_key sync forms: Ok(None) although a value is queued behind a dispose (second candidate) *)
Definition nokey_case (f : form) : case :=
  mkCase false true [OAdd 1 1 (KDisposeKey 0); OAdd 1 2 (KData 0 102); OCall f; OCall f].
Lemma nokey_none_not_empty :
  run (nokey_case FTakeOne) = [CNone; COne (mkS 0 1 2 0 (Some 102))]
  /\ run (nokey_case FTakeNext) = [CNone; COne (mkS 0 1 2 0 (Some 102))]
  /\ run (nokey_case FSPoll) = [COne (mkS 0 1 2 0 (Some 102)); CPending]
  /\ run (nokey_case FPoll) = [COne (mkS 0 1 2 0 (Some 102)); CPending]
  /\ ok (nokey_case FTakeOne) (run (nokey_case FTakeOne)) = true.
Proof. vm_compute. auto. Qed.

(* the oracle read as a proposition *)
Lemma ok_spec : forall c o,
  ok c o = true <->
  (length o = ncalls (ops c) /\ (forall r, In r o -> r <> CHang /\ r <> CPanic))
  /\ ok_walk (nokey c) (ops c) o [] [] 0 0 = true /\ ok_progress c o = true
  /\ ok_pending c o = true.
Proof.
  intros c o. unfold ok, ok_bounded. rewrite !andb_true_iff, Nat.eqb_eq, negb_true_iff.
  assert (Q : existsb bad_res o = false <-> (forall r, In r o -> r <> CHang /\ r <> CPanic)).
  { split.
    - intros H r Hr. split; intro; subst; assert (existsb bad_res o = true);
        try congruence; apply existsb_exists; eexists; split; eauto.
    - intro H. destruct (existsb bad_res o) eqn:E; [|reflexivity].
      apply existsb_exists in E as (r & Hr & Hb). destruct (H r Hr). destruct r; try discriminate; congruence. }
  rewrite Q. tauto.
Qed.

(* non-vacuity: a history with every kind of change in which the theorems' hypotheses hold *)
Definition ex_hist : list sop :=
  [SAdd 1 1 (KDisposeHash 7); SAdd 1 2 KBadPayload; SAdd 2 1 (KData 3 201); SAdd 1 3 (KDisposeHash 3);
   SAdd 1 4 (KData 4 104); SMark 1 5; SMark 2 2].
Lemma ex_pending :
  length (pending true (snd (sim true false init ex_hist))) = 5%nat
  /\ map fst (fst (sim true false (snd (sim true false init ex_hist)) (repeat STake 5)))
     = [TErr EDeser; TSome (mkS 5 1 4 4 (Some 104)); TSome (mkS 3 2 1 3 (Some 201)); TNone; TNone].
Proof. vm_compute. auto. Qed.
