(* C09 — property theorems only.  Statements are pinned; proofs are one `exact`. *)
From Coq Require Import List ZArith Bool.
From RD Require Import C09.Model C09.Proofs C09.Once.
Import ListNotations.
Open Scope Z_scope.

(* F1, pre-repair code: whatever the fuel, try_take_one_with does not get past a dispose whose key
   hash the reader has never seen (reliable and best-effort, with_key and no_key) ... *)
Theorem C09_wedge_old : forall rel nk fuel, take_loop false rel nk fuel wedge_st [] = TOut.
Proof. exact wedge_old. Qed.
Print Assumptions C09_wedge_old.
(* ... so DataReader::take never returns on the witness; the repaired code returns an empty vector *)
Theorem C09_wedge_old_run : forall rel,
  run_old (wedge_case rel) = [CHang] /\ ok (wedge_case rel) (run_old (wedge_case rel)) = false
  /\ run (wedge_case rel) = [CVec []].
Proof. exact wedge_old_run. Qed.
Print Assumptions C09_wedge_old_run.

(* repaired loop: fuel = 1 + number of pending changes is never exhausted, for every state *)
Theorem C09_terminates : forall rel nk st fuel tr,
  (length (pending rel st) < fuel)%nat -> take_loop true rel nk fuel st tr <> TOut.
Proof. exact terminates. Qed.
Print Assumptions C09_terminates.

(* every form (sync, iterator, async stream; with_key and no_key; reliable and best effort)
   returns on every history: one result per call, never CHang / CPanic, with the fuel
   1 + |topic cache| + |datasample cache| given to every loop of the call *)
Theorem C09_model_ok_partial : forall c, ok_bounded c (run c) = true.
Proof. exact run_bounded. Qed.
Print Assumptions C09_model_ok_partial.

(* over any history of arrivals, marker moves and try_take_one calls: no cached change is consumed
   twice; within one call all consumed changes but the last were skipped as unknown key hashes and
   the last one is what the call returned (Ok(Some)) or reported (Err) *)
Theorem C09_once : forall rel nk l,
  NoDup (consumed (fst (sim rel nk init l)))
  /\ forall r tr, In (r, tr) (fst (sim rel nk init l)) -> call_shape r tr.
Proof. exact once. Qed.
Print Assumptions C09_once.

(* after any history, n = number of pending changes further calls consume every pending change;
   a value / dispose-by-key is returned by the call that consumes it, an undecodable change is
   reported by it — whatever unintelligible changes of the same or other writers precede it *)
Theorem C09_progress : forall rel nk l,
  let st := snd (sim rel nk init l) in
  forall x, In x (pending rel st) ->
  exists r tr d,
    In (r, tr) (fst (sim rel nk st (repeat STake (length (pending rel st))))) /\ In (x, d) tr
    /\ (forall s, expected nk x = Some s -> r = TSome s)
    /\ (nk = false -> is_bad_kind false (c_kind (snd x)) = true -> r = TErr EDeser).
Proof. exact progress. Qed.
Print Assumptions C09_progress.

(* with_key try_take_one: Ok(None) means nothing is pending *)
Theorem C09_none_means_empty : forall rel nk st st' tr,
  take_call rel nk st = TDone st' TNone tr -> pending rel st' = [].
Proof. exact none_means_empty. Qed.
Print Assumptions C09_none_means_empty.

(* second candidate decided: the no_key synchronous forms answer Ok(None) for a dispose although a
   value is queued behind it (delivered by the next call: C09 as stated holds, `ok` = true); the
   no_key stream forms skip the dispose within the same poll *)
Theorem C09_nokey_none_not_empty :
  run (nokey_case FTakeOne) = [CNone; COne (mkS 0 1 2 0 (Some 102))]
  /\ run (nokey_case FTakeNext) = [CNone; COne (mkS 0 1 2 0 (Some 102))]
  /\ run (nokey_case FSPoll) = [COne (mkS 0 1 2 0 (Some 102)); CPending]
  /\ run (nokey_case FPoll) = [COne (mkS 0 1 2 0 (Some 102)); CPending]
  /\ ok (nokey_case FTakeOne) (run (nokey_case FTakeOne)) = true.
Proof. exact nokey_none_not_empty. Qed.
Print Assumptions C09_nokey_none_not_empty.

Theorem C09_oracle_sound : forall c o,
  ok c o = true <->
  (length o = ncalls (ops c) /\ (forall r, In r o -> r <> CHang /\ r <> CPanic))
  /\ ok_walk (nokey c) (ops c) o [] [] 0 0 = true /\ ok_progress c o = true
  /\ ok_pending c o = true.
Proof. exact ok_spec. Qed.
Print Assumptions C09_oracle_sound.

(* non-vacuity *)
Example C09_example :
  length (pending true (snd (sim true false init ex_hist))) = 5%nat
  /\ map fst (fst (sim true false (snd (sim true false init ex_hist)) (repeat STake 5)))
     = [TErr EDeser; TSome (mkS 5 1 4 4 (Some 104)); TSome (mkS 3 2 1 3 (Some 201)); TNone; TNone].
Proof. exact ex_pending. Qed.
