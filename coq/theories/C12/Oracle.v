(* C12 — the model satisfies the property oracle on every well-formed history:
   invariant relating the model state to the oracle's own bookkeeping, preserved by every step. *)
From Coq Require Import List ZArith Bool Lia FinFun.
From RD Require Import Common.Corr C12.Model C12.Proofs.
Import ListNotations.
Open Scope Z_scope.

Definition lease_opt (sp : spec) (p : Z) : option Z :=
  match aget Z.eqb p (sp_lease sp) with Some x => x | None => None end.

Record Inv (pa : params) (s : st) (sp : spec) : Prop := {
  inv_t : sp_t sp = now s;
  inv_sorted : ksorted (prox s);
  inv_range : forall p, known s p = true -> in_range (np pa) p = true;
  inv_sign : forall p, known s p = true ->
      aget Z.eqb p (signs s) = Some (last_of sp p) /\ aget Z.eqb p (prox s) = Some (lease_opt sp p);
  inv_known_clean : forall p, known s p = true -> snap_of sp p = Clean;
  inv_clean : forall p, snap_of sp p = Clean -> forall k, kpfx k = p -> vatt s k = None;
  inv_parked : forall p eps, snap_of sp p = Parked eps ->
      known s p = false
      /\ forall k, kpfx k = p -> key_ok pa k = true -> vatt s k = aget key_eqb k eps /\ vact s k = None }.

Lemma Inv_init pa : Inv pa init spec0.
Proof.
  constructor; cbn; try (intros; discriminate); try reflexivity; try constructor.
  all: intros p eps H; unfold snap_of in H; cbn in H; discriminate.
Qed.

(* ---------- small facts ---------- *)
Lemma snap_aset sp_s p x q :
  match aget Z.eqb q (aset Z.eqb p x sp_s) with Some y => y | None => Clean end
  = if q =? p then x else match aget Z.eqb q sp_s with Some y => y | None => Clean end.
Proof. rewrite (aget_aset _ Zeqb_spec). destruct (q =? p); reflexivity. Qed.

Lemma known_false_get s p : known s p = false -> aget Z.eqb p (prox s) = None.
Proof. unfold known, amem. destruct (aget Z.eqb p (prox s)); [discriminate|reflexivity]. Qed.

Lemma known_true_get s p : known s p = true -> exists l, aget Z.eqb p (prox s) = Some l.
Proof. unfold known, amem. destruct (aget Z.eqb p (prox s)) as [l|]; [eauto|discriminate]. Qed.

Lemma orelse_None {A} (a : option A) : orelse a None = a.
Proof. destruct a; reflexivity. Qed.

Lemma kn_in pa s p : in_range (np pa) p = true -> kn (digest_of pa s) p = known s p.
Proof. intros H. rewrite kn_digest, H. reflexivity. Qed.

Lemma ep_in pa s k : key_ok pa k = true -> ep (digest_of pa s) k = vact s k.
Proof. intros H. rewrite ep_digest, H. reflexivity. Qed.

Lemma key_ok_pfx pa k : key_ok pa k = true -> in_range (np pa) (kpfx k) = true.
Proof. unfold key_ok. intros H. apply andb_true_iff in H. tauto. Qed.

Lemma should_lose_expires pa s sp p :
  Inv pa s sp -> in_range (np pa) p = true ->
  should_lose pa sp (digest_of pa s) p = expires pa s p.
Proof.
  intros I Hr. unfold should_lose, expires. rewrite (kn_in pa s p Hr).
  destruct (known s p) eqn:K.
  - destruct (inv_sign _ _ _ I p K) as [-> ->]. cbn.
    unfold lease_sp, lease_opt, elapsed_ticks. rewrite (inv_t _ _ _ I). reflexivity.
  - rewrite (known_false_get s p K). reflexivity.
Qed.

Lemma expires_known pa s p : expires pa s p = true -> known s p = true.
Proof.
  unfold expires, known, amem. destruct (aget Z.eqb p (prox s)); [reflexivity|discriminate].
Qed.

Lemma nodupb_NoDup l : NoDup l -> nodupb l = true.
Proof.
  induction 1 as [|x l Hn Hd IH]; cbn; [reflexivity|].
  rewrite IH, andb_true_r. apply negb_true_iff.
  destruct (existsb (Z.eqb x) l) eqn:E; [|reflexivity].
  apply existsb_exists in E as [y [Hin Hy]]. apply Z.eqb_eq in Hy; subst. contradiction.
Qed.

(* oracle's snapshot bookkeeping after a clean-up *)
Lemma snap_fold (lose : Z -> bool) (f : Z -> snap) L : forall m q,
  NoDup L ->
  match aget Z.eqb q (fold_left (fun m p => if lose p then aset Z.eqb p (f p) m else m) L m) with
  | Some y => y | None => Clean end
  = if inl L q && lose q then f q else match aget Z.eqb q m with Some y => y | None => Clean end.
Proof.
  induction L as [|p L IH]; intros m q Hnd; [reflexivity|].
  inversion Hnd as [|? ? Hnin Hnd']; subst.
  cbn [fold_left]. rewrite IH by assumption. rewrite inl_cons.
  destruct (Z.eqb_spec q p) as [->|Hne].
  - assert (inl L p = false) as ->.
    { destruct (inl L p) eqn:E; [|reflexivity]. apply existsb_exists in E as [y [Hin Hy]].
      apply Z.eqb_eq in Hy; subst. contradiction. }
    cbn. destruct (lose p); [|reflexivity]. rewrite (aget_aset _ Zeqb_spec), Z.eqb_refl. reflexivity.
  - cbn. destruct (inl L q && lose q); [reflexivity|].
    destruct (lose p); [|reflexivity]. rewrite (aget_aset _ Zeqb_spec).
    destruct (Z.eqb_spec q p); [contradiction|reflexivity].
Qed.

Lemma range_NoDup n : NoDup (range n).
Proof.
  unfold range. apply Injective_map_NoDup; [|apply seq_NoDup].
  intros a b H. lia.
Qed.

Lemma snap_disturb sp p q :
  match aget Z.eqb q (disturb sp p) with Some y => y | None => Clean end
  = if q =? p then match snap_of sp p with Parked _ => Disturbed | x => x end else snap_of sp q.
Proof.
  unfold disturb. destruct (snap_of sp p) eqn:E.
  - destruct (Z.eqb_spec q p); [subst; exact E | reflexivity].
  - rewrite snap_aset. destruct (q =? p); reflexivity.
  - destruct (Z.eqb_spec q p); [subst; exact E | reflexivity].
Qed.

(* ------------------------------------------------------------------------------------------ *)
(* one step *)

Ltac inv_fields I :=
  pose proof (inv_t _ _ _ I) as It; pose proof (inv_sorted _ _ _ I) as Is;
  pose proof (inv_range _ _ _ I) as Ir; pose proof (inv_sign _ _ _ I) as Isg;
  pose proof (inv_known_clean _ _ _ I) as Ikc; pose proof (inv_clean _ _ _ I) as Ic;
  pose proof (inv_parked _ _ _ I) as Ip.

Lemma step_tick pa s sp d :
  Inv pa s sp ->
  let s' := fst (step pa s (Tick d)) in
  let r := snd (step pa s (Tick d)) in
  fst (step_ok pa sp (digest_of pa s) (Tick d) r (digest_of pa s')) = true
  /\ Inv pa s' (snd (step_ok pa sp (digest_of pa s) (Tick d) r (digest_of pa s'))).
Proof.
  intros I; inv_fields I. cbn. split.
  - apply views_intro.
    + intros p Hp. rewrite (kn_in pa s p Hp). reflexivity.
    + intros k Hk. rewrite (ep_in pa s k Hk). reflexivity.
  - constructor; cbn; auto. lia.
Qed.

Lemma step_bad pa s sp p :
  Inv pa s sp ->
  let s' := fst (step pa s (SpdpBad p)) in
  let r := snd (step pa s (SpdpBad p)) in
  fst (step_ok pa sp (digest_of pa s) (SpdpBad p) r (digest_of pa s')) = true
  /\ Inv pa s' (snd (step_ok pa sp (digest_of pa s) (SpdpBad p) r (digest_of pa s'))).
Proof.
  intros I. cbn. split; [|exact I].
  apply views_intro.
  - intros q Hq. rewrite (kn_in pa s q Hq). reflexivity.
  - intros k Hk. rewrite (ep_in pa s k Hk). reflexivity.
Qed.

Lemma alive_known p s q : known (participant_is_alive p s) q = known s q.
Proof. unfold participant_is_alive. destruct (amem Z.eqb p (signs s)); reflexivity. Qed.

Lemma step_alive pa s sp p :
  Inv pa s sp ->
  let s' := fst (step pa s (Alive p)) in
  let r := snd (step pa s (Alive p)) in
  fst (step_ok pa sp (digest_of pa s) (Alive p) r (digest_of pa s')) = true
  /\ Inv pa s' (snd (step_ok pa sp (digest_of pa s) (Alive p) r (digest_of pa s'))).
Proof.
  intros I; inv_fields I. cbn. split.
  - apply views_intro.
    + intros q Hq. rewrite (kn_in pa s q Hq). apply alive_known.
    + intros k Hk. rewrite (ep_in pa s k Hk).
      unfold participant_is_alive. destruct (amem Z.eqb p (signs s)); reflexivity.
  - assert (Hv : forall k, vatt (participant_is_alive p s) k = vatt s k
                          /\ vact (participant_is_alive p s) k = vact s k).
    { intros k. unfold participant_is_alive. destruct (amem Z.eqb p (signs s)); split; reflexivity. }
    constructor; cbn.
    + unfold participant_is_alive. destruct (amem Z.eqb p (signs s)); exact It.
    + unfold participant_is_alive. destruct (amem Z.eqb p (signs s)); exact Is.
    + intros q Hq. rewrite alive_known in Hq. auto.
    + intros q Hq. rewrite alive_known in Hq. destruct (Isg q Hq) as [H1 H2].
      unfold last_of, lease_opt; cbn [sp_last sp_lease]. rewrite (aget_aset _ Zeqb_spec).
      split.
      * unfold participant_is_alive. destruct (Z.eqb_spec q p) as [Heq|Hne]; [rewrite Heq in *; clear Heq|].
        -- assert (amem Z.eqb p (signs s) = true) as -> by (unfold amem; rewrite H1; reflexivity).
           cbn. rewrite aget_zins, Z.eqb_refl, It. reflexivity.
        -- destruct (amem Z.eqb p (signs s)); cbn; [rewrite aget_zins|].
           ++ destruct (Z.eqb_spec q p); [contradiction|exact H1].
           ++ exact H1.
      * unfold participant_is_alive. destruct (amem Z.eqb p (signs s)); exact H2.
    + intros q Hq. rewrite alive_known in Hq. apply (Ikc q Hq).
    + intros q Hq k Hk. rewrite (proj1 (Hv k)). apply (Ic q Hq k Hk).
    + intros q eps Hq. destruct (Ip q eps Hq) as [H1 H2]. split.
      * rewrite alive_known. exact H1.
      * intros k Hk Hok. rewrite (proj1 (Hv k)), (proj2 (Hv k)). apply H2; assumption.
Qed.

Lemma step_spdp pa s sp p l :
  Inv pa s sp -> in_range (np pa) p = true ->
  let s' := fst (step pa s (Spdp p l)) in
  let r := snd (step pa s (Spdp p l)) in
  fst (step_ok pa sp (digest_of pa s) (Spdp p l) r (digest_of pa s')) = true
  /\ Inv pa s' (snd (step_ok pa sp (digest_of pa s) (Spdp p l) r (digest_of pa s'))).
Proof.
  intros I Hp; inv_fields I.
  unfold step, step_with.
  destruct (update_participant pa p l s) as [s1 b] eqn:U.
  assert (Es1 : s1 = fst (update_participant pa p l s)) by (rewrite U; reflexivity).
  assert (Eb : b = snd (update_participant pa p l s)) by (rewrite U; reflexivity).
  cbn [fst snd step_ok]. rewrite (kn_in pa s p Hp). split.
  - apply andb_true_iff; split.
    + rewrite Eb, up_ret. cbn. apply eqb_reflx.
    + destruct (known s p) eqn:K.
      * apply views_intro.
        -- intros q Hq. rewrite (kn_in pa s q Hq), Es1. apply up_known.
        -- intros k Hk. rewrite (ep_in pa s k Hk), Es1, up_act, K. reflexivity.
      * destruct (snap_of sp p) eqn:Sn.
        -- apply views_intro.
           ++ intros q Hq. rewrite (kn_in pa s q Hq), Es1. apply up_known.
           ++ intros k Hk. rewrite (ep_in pa s k Hk), Es1, up_act, K.
              destruct (Z.eqb_spec (kpfx k) p) as [E|]; [|reflexivity].
              rewrite (Ic p Sn k E). reflexivity.
        -- apply views_intro.
           ++ intros q Hq. rewrite (kn_in pa s q Hq), Es1. apply up_known.
           ++ intros k Hk. rewrite Es1, up_act, K.
              destruct (Z.eqb_spec (kpfx k) p) as [E|]; [|rewrite (ep_in pa s k Hk); reflexivity].
              destruct (Ip p eps Sn) as [_ H2]. destruct (H2 k E Hk) as [-> ->].
              apply orelse_None.
        -- apply views_intro.
           ++ intros q Hq. rewrite (kn_in pa s q Hq), Es1. apply up_known.
           ++ intros k Hk. rewrite Es1.
              destruct (Z.eqb_spec (kpfx k) p) as [E|].
              ** rewrite (ep_in pa _ k Hk). reflexivity.
              ** rewrite (ep_in pa s k Hk), up_act, K.
                 destruct (Z.eqb_spec (kpfx k) p); [contradiction|reflexivity].
  - assert (Sq : forall q, snap_of {| sp_t := sp_t sp; sp_last := aset Z.eqb p (sp_t sp) (sp_last sp);
                                      sp_lease := aset Z.eqb p l (sp_lease sp);
                                      sp_snap := aset Z.eqb p Clean (sp_snap sp) |} q
                           = if q =? p then Clean else snap_of sp q).
    { intros q. unfold snap_of; cbn [sp_snap]. apply snap_aset. }
    constructor; cbn [sp_t sp_last sp_lease sp_snap].
    + rewrite Es1, up_now. exact It.
    + rewrite Es1, up_prox. apply ksorted_zins, Is.
    + intros q Hq. rewrite Es1, up_known in Hq.
      destruct (Z.eqb_spec q p) as [E|E]; [subst q; exact Hp | apply Ir; exact Hq].
    + intros q Hq. rewrite Es1, up_known in Hq. rewrite Es1, up_signs, up_prox, !aget_zins.
      unfold last_of, lease_opt; cbn [sp_last sp_lease]. rewrite !(aget_aset _ Zeqb_spec).
      destruct (Z.eqb_spec q p) as [Heq|Hne]; [rewrite Heq in *; clear Heq|].
      * rewrite It. split; reflexivity.
      * cbn in Hq. apply (Isg q Hq).
    + intros q Hq. rewrite Sq. rewrite Es1, up_known in Hq.
      destruct (Z.eqb_spec q p); [reflexivity | apply Ikc; exact Hq].
    + intros q Hq k Hk. rewrite Sq in Hq. rewrite Es1, up_att.
      destruct (Z.eqb_spec q p) as [Heq|Hne]; [rewrite Heq in *; clear Heq|].
      * destruct (known s p) eqn:K.
        -- apply (Ic p (Ikc p K) k Hk).
        -- rewrite Hk, Z.eqb_refl. reflexivity.
      * assert (vatt s k = None) as -> by (apply (Ic q Hq k Hk)).
        destruct (known s p), (kpfx k =? p); reflexivity.
    + intros q eps Hq. rewrite Sq in Hq.
      destruct (Z.eqb_spec q p) as [Heq|Hne]; [rewrite Heq in *; discriminate|].
      destruct (Ip q eps Hq) as [H1 H2]. split.
      * rewrite Es1, up_known. destruct (Z.eqb_spec q p); [contradiction|exact H1].
      * intros k Hk Hok. rewrite Es1, up_att, up_act.
        assert (kpfx k =? p = false) as -> by (apply Z.eqb_neq; congruence).
        destruct (known s p); apply H2; assumption.
Qed.

Lemma step_dispose pa s sp p :
  Inv pa s sp ->
  let s' := fst (step pa s (Dispose p)) in
  let r := snd (step pa s (Dispose p)) in
  fst (step_ok pa sp (digest_of pa s) (Dispose p) r (digest_of pa s')) = true
  /\ Inv pa s' (snd (step_ok pa sp (digest_of pa s) (Dispose p) r (digest_of pa s'))).
Proof.
  intros I; inv_fields I. cbn [step step_with fst snd step_ok out_eqb andb]. split.
  - apply views_intro.
    + intros q Hq. rewrite (kn_in pa s q Hq), rm_known, (Z.eqb_sym p q). reflexivity.
    + intros k Hk. rewrite (ep_in pa s k Hk). apply rm_act.
  - assert (Sq : forall q, snap_of {| sp_t := sp_t sp; sp_last := sp_last sp; sp_lease := sp_lease sp;
                                      sp_snap := aset Z.eqb p Clean (sp_snap sp) |} q
                           = if q =? p then Clean else snap_of sp q).
    { intros q. unfold snap_of; cbn [sp_snap]. apply snap_aset. }
    constructor; cbn [sp_t sp_last sp_lease sp_snap].
    + rewrite rm_now. exact It.
    + rewrite rm_prox. apply ksorted_filter, Is.
    + intros q Hq. rewrite rm_known in Hq. apply andb_true_iff in Hq as [_ Hq]. auto.
    + intros q Hq. rewrite rm_known in Hq. apply andb_true_iff in Hq as [Hne Hq].
      rewrite rm_signs, rm_prox, !(aget_adel _ Zeqb_spec).
      apply negb_true_iff in Hne. rewrite Hne. apply (Isg q Hq).
    + intros q Hq. rewrite rm_known in Hq. apply andb_true_iff in Hq as [Hne Hq].
      rewrite Sq. destruct (q =? p); [reflexivity | apply Ikc, Hq].
    + intros q Hq k Hk. rewrite Sq in Hq. rewrite rm_att.
      destruct (Z.eqb_spec q p) as [Heq|Hne]; [rewrite Heq in *; clear Heq|].
      * rewrite Hk, Z.eqb_refl. reflexivity.
      * assert (kpfx k =? p = false) as -> by (apply Z.eqb_neq; congruence).
        apply (Ic q Hq k Hk).
    + intros q eps Hq. rewrite Sq in Hq.
      destruct (Z.eqb_spec q p) as [Heq|Hne]; [rewrite Heq in *; discriminate|].
      destruct (Ip q eps Hq) as [H1 H2]. split.
      * rewrite rm_known, H1. apply andb_false_r.
      * intros k Hk Hok. rewrite rm_att, rm_act.
        assert (kpfx k =? p = false) as -> by (apply Z.eqb_neq; congruence).
        apply H2; assumption.
Qed.

Lemma step_ep pa s sp (k : key) (v : option Z) :
  Inv pa s sp ->
  let s' := {| now := now s; prox := prox s; signs := signs s;
               act := match v with Some t => aset key_eqb k t (act s) | None => adel key_eqb k (act s) end;
               attic := attic s |} in
  let sp' := {| sp_t := sp_t sp; sp_last := sp_last sp; sp_lease := sp_lease sp;
                sp_snap := disturb sp (kpfx k) |} in
  views pa (digest_of pa s') (kn (digest_of pa s))
        (fun k' => if key_eqb k' k then v else ep (digest_of pa s) k') = true
  /\ Inv pa s' sp'.
Proof.
  intros I s' sp'; inv_fields I.
  assert (Ha : forall k', vact s' k' = if key_eqb k' k then v else vact s k').
  { intros k'. unfold vact, s'; cbn. destruct v as [t|].
    - apply (aget_aset _ key_eqb_spec).
    - rewrite (aget_adel _ key_eqb_spec).
      destruct (key_eqb k k') eqn:E.
      + apply key_eqb_spec in E; subst. rewrite key_eqb_refl. reflexivity.
      + destruct (key_eqb k' k) eqn:E2; [|reflexivity].
        apply key_eqb_spec in E2; subst. rewrite key_eqb_refl in E. discriminate. }
  split.
  - apply views_intro.
    + intros q Hq. rewrite (kn_in pa s q Hq). reflexivity.
    + intros k' Hk'. rewrite Ha, (ep_in pa s k' Hk'). reflexivity.
  - assert (Sq : forall q, snap_of sp' q
                = if q =? kpfx k then match snap_of sp (kpfx k) with Parked _ => Disturbed | x => x end
                  else snap_of sp q).
    { intros q. unfold snap_of at 1, sp'; cbn [sp_snap]. apply snap_disturb. }
    constructor; unfold sp'; cbn [sp_t sp_last sp_lease sp_snap]; try assumption.
    + intros q Hq. change (known s q = true) in Hq. rewrite Sq.
      destruct (Z.eqb_spec q (kpfx k)) as [Heq|Hne]; [rewrite Heq in *; clear Heq|apply Ikc, Hq].
      rewrite (Ikc _ Hq). reflexivity.
    + intros q Hq k' Hk'. change (vatt s k' = None). rewrite Sq in Hq.
      destruct (Z.eqb_spec q (kpfx k)) as [Heq|Hne]; [rewrite Heq in *; clear Heq|apply (Ic q Hq k' Hk')].
      destruct (snap_of sp (kpfx k)) eqn:E; try discriminate. apply (Ic _ E k' Hk').
    + intros q eps Hq. rewrite Sq in Hq.
      destruct (Z.eqb_spec q (kpfx k)) as [Heq|Hne]; [rewrite Heq in *; clear Heq|].
      * destruct (snap_of sp (kpfx k)); discriminate.
      * destruct (Ip q eps Hq) as [H1 H2]. split; [exact H1|].
        intros k' Hk' Hok. rewrite Ha.
        destruct (key_eqb k' k) eqn:E; [apply key_eqb_spec in E; subst; contradiction|].
        apply H2; assumption.
Qed.

Lemma step_cleanup pa s sp :
  Inv pa s sp ->
  let s' := fst (step pa s Cleanup) in
  let r := snd (step pa s Cleanup) in
  fst (step_ok pa sp (digest_of pa s) Cleanup r (digest_of pa s')) = true
  /\ Inv pa s' (snd (step_ok pa sp (digest_of pa s) Cleanup r (digest_of pa s'))).
Proof.
  intros I; inv_fields I.
  unfold step, step_with.
  destruct (participant_cleanup_with remove_participant pa s) as [s1 tr] eqn:U.
  assert (Etr : tr = to_remove pa s) by (unfold participant_cleanup_with in U; inversion U; reflexivity).
  assert (Es1 : s1 = rm_all (map pfst tr) s).
  { rewrite Etr. rewrite <- cleanup_as_rm_all. unfold participant_cleanup. rewrite U. reflexivity. }
  set (L := map pfst tr) in *.
  assert (HL : forall p, inl L p = expires pa s p).
  { intros p. unfold L. rewrite Etr. apply inl_to_remove, Is. }
  assert (Hlose : forall p, in_range (np pa) p = true ->
                            should_lose pa sp (digest_of pa s) p = inl L p).
  { intros p Hp. rewrite HL. apply should_lose_expires; assumption. }
  cbn [fst snd step_ok]. split.
  - apply andb_true_iff; split.
    + unfold lost_ok. rewrite map_map. cbn [pfst fst snd].
      change (map (fun x : Z * Z * Z => fst (fst x)) tr) with L.
      repeat (apply andb_true_iff; split).
      * apply forallb_forall. intros p Hin.
        assert (Hp : in_range (np pa) p = true).
        { rewrite <- inl_range. apply existsb_exists. exists p. split; [assumption|apply Z.eqb_refl]. }
        rewrite (Hlose p Hp). apply eqb_reflx.
      * apply forallb_forall. intros e Hin. apply in_map_iff in Hin as [[[p lease] el] [<- Hin]].
        cbn [pfst fst snd].
        rewrite Etr in Hin. apply (to_remove_In pa s p lease el Is) in Hin
          as (l0 & last & Hp & Hsg & -> & -> & Hlt).
        assert (K : known s p = true) by (unfold known, amem; rewrite Hp; reflexivity).
        rewrite (Ir p K). cbn [andb].
        destruct (Isg p K) as [H1 H2]. rewrite Hsg in H1. rewrite Hp in H2.
        inversion H1; inversion H2; subst.
        unfold z3_eqb; cbn [fst snd]. unfold lease_sp, elapsed_ticks. rewrite It, !Z.eqb_refl.
        reflexivity.
      * apply nodupb_NoDup. unfold L. rewrite Etr. apply to_remove_NoDup, Is.
    + apply views_intro.
      * intros q Hq. rewrite Es1, rm_all_known, (kn_in pa s q Hq), (Hlose q Hq). apply andb_comm.
      * intros k Hk. rewrite Es1, rm_all_act, (ep_in pa s k Hk), (Hlose _ (key_ok_pfx pa k Hk)).
        reflexivity.
  - set (sp' := {| sp_t := sp_t sp; sp_last := sp_last sp; sp_lease := sp_lease sp;
                   sp_snap := fold_left
                     (fun m p => if should_lose pa sp (digest_of pa s) p
                                 then aset Z.eqb p (Parked (filter (pfx_is p) (d_act (digest_of pa s)))) m
                                 else m) (range (np pa)) (sp_snap sp) |}).
    assert (Sq : forall q, snap_of sp' q
                = if inl L q then Parked (filter (pfx_is q) (d_act (digest_of pa s))) else snap_of sp q).
    { intros q. unfold snap_of at 1, sp'; cbn [sp_snap].
      rewrite (snap_fold (should_lose pa sp (digest_of pa s))
                 (fun p => Parked (filter (pfx_is p) (d_act (digest_of pa s))))
                 (range (np pa)) (sp_snap sp) q (range_NoDup _)).
      rewrite inl_range. destruct (in_range (np pa) q) eqn:Hq; cbn [andb].
      - rewrite (Hlose q Hq). reflexivity.
      - assert (inl L q = false) as ->; [|reflexivity].
        rewrite HL. destruct (expires pa s q) eqn:E; [|reflexivity].
        rewrite (Ir q (expires_known pa s q E)) in Hq. discriminate. }
    constructor; fold sp'; cbn [sp_t sp_last sp_lease].
    + rewrite Es1, rm_all_now. exact It.
    + rewrite Es1. apply rm_all_sorted, Is.
    + intros q Hq. rewrite Es1, rm_all_known in Hq. apply andb_true_iff in Hq as [_ Hq]. auto.
    + intros q Hq. rewrite Es1, rm_all_known in Hq. apply andb_true_iff in Hq as [Hn Hq].
      apply negb_true_iff in Hn. rewrite Es1, rm_all_sign, rm_all_lease, Hn. apply (Isg q Hq).
    + intros q Hq. rewrite Es1, rm_all_known in Hq. apply andb_true_iff in Hq as [Hn Hq].
      apply negb_true_iff in Hn. rewrite Sq, Hn. apply Ikc, Hq.
    + intros q Hq k Hk. rewrite Sq in Hq.
      destruct (inl L q) eqn:E; [discriminate|].
      rewrite Es1, rm_all_att, Hk, E. apply (Ic q Hq k Hk).
    + intros q eps Hq. rewrite Sq in Hq. destruct (inl L q) eqn:E.
      * inversion Hq; subst eps; clear Hq.
        assert (K : known s q = true) by (apply (expires_known pa); rewrite <- HL; exact E).
        split.
        -- rewrite Es1, rm_all_known, E. reflexivity.
        -- intros k Hk Hok. rewrite Es1, rm_all_att, rm_all_act, Hk, E.
           change (dump (keys pa) (act s)) with (d_act (digest_of pa s)).
           rewrite (Ic q (Ikc q K) k Hk), orelse_None, parked_digest, Hk, Z.eqb_refl, Hok.
           split; reflexivity.
      * destruct (Ip q eps Hq) as [H1 H2]. split.
        -- rewrite Es1, rm_all_known, H1. apply andb_false_r.
        -- intros k Hk Hok. rewrite Es1, rm_all_att, rm_all_act, Hk, E. apply H2; assumption.
Qed.

Lemma step_sound pa s sp o :
  Inv pa s sp -> op_ok pa o = true ->
  fst (step_ok pa sp (digest_of pa s) o (snd (step pa s o)) (digest_of pa (fst (step pa s o)))) = true
  /\ Inv pa (fst (step pa s o))
         (snd (step_ok pa sp (digest_of pa s) o (snd (step pa s o)) (digest_of pa (fst (step pa s o))))).
Proof.
  intros I Hok. destruct o as [d|p l|p|p| |p|k t|k]; cbn [op_ok] in Hok.
  - apply step_tick, I.
  - apply andb_true_iff in Hok as [Hp _]. apply step_spdp; assumption.
  - apply step_bad, I.
  - apply step_alive, I.
  - apply step_cleanup, I.
  - apply step_dispose, I.
  - exact (step_ep pa s sp k (Some t) I).
  - exact (step_ep pa s sp k None I).
Qed.

Lemma trace_sound pa ops : forall s sp,
  Inv pa s sp -> forallb (op_ok pa) ops = true ->
  trace_ok pa sp (digest_of pa s) ops (trace pa s ops) = true.
Proof.
  induction ops as [|o ops IH]; intros s sp I Hok; [reflexivity|].
  cbn [forallb] in Hok. apply andb_true_iff in Hok as [Ho Hops].
  destruct (step_sound pa s sp o I Ho) as [Hb I'].
  unfold trace; cbn [trace_with]. fold (trace pa).
  destruct (step pa s o) as [s' r] eqn:Es. cbn [fst snd] in *.
  cbn [trace_ok].
  destruct (step_ok pa sp (digest_of pa s) o r (digest_of pa s')) as [b sp'] eqn:Eo. cbn [fst snd] in *.
  rewrite Hb. cbn [andb]. apply IH; assumption.
Qed.

Theorem run_ok : forall c, ok c (run c) = true.
Proof.
  intros [pa ops]. unfold run, run_with, ok. destruct (wfb (pa, ops)) eqn:W; [|reflexivity].
  cbn [andb fst snd]. unfold wfb in W; cbn [fst snd] in W. apply andb_true_iff in W as [_ W].
  apply (trace_sound pa ops init spec0 (Inv_init pa) W).
Qed.
