(* C12 — property theorems only.  A history h is a list of operations, most recent first;
   [after pa h] is the DiscoveryDB state it leads to; [reports pa s] is what participant_cleanup
   would return in state s.  Time in ns, leases in ticks (2^-32 s). *)
From Coq Require Import List ZArith Bool.
From RD Require Import Common.Corr C12.Model C12.Proofs C12.Oracle C12.History.
Import ListNotations.
Open Scope Z_scope.

(* the model passes the property oracle on every case (ill-formed cases are flagged, not run) *)
Theorem C12_model_ok : forall c, ok c (run c) = true.
Proof. exact run_ok. Qed.
Print Assumptions C12_model_ok.

(* a clean-up reports p lost iff p is known and its last life sign is older than the lease of its
   last announcement (+ tolerance), strictly, in the code's own arithmetic *)
Theorem C12_lost_iff : forall pa h p,
  In p (reports pa (after pa h)) <-> known (after pa h) p = true /\ overdue pa h p.
Proof. exact lost_iff. Qed.
Print Assumptions C12_lost_iff.

(* the same comparison in real-time terms (elapsed ns vs. lease ticks), below 2^31 s *)
Theorem C12_lost_iff_realtime : forall pa h p t l,
  wf pa h -> last_sign h p = Some t -> last_lease h p = Some l -> clock h - t < TMAX ->
  (overdue pa h p <-> (lease_of pa l + tol pa + 1) * NS <= (clock h - t) * two32).
Proof. exact overdue_realtime. Qed.
Print Assumptions C12_lost_iff_realtime.

(* a reported participant is forgotten and its endpoints are no longer answered (they are parked);
   a participant that is not reported keeps everything *)
Theorem C12_lost_effect : forall pa h p,
  In p (reports pa (after pa h)) ->
  let s' := after pa (Cleanup :: h) in
  known s' p = false
  /\ forall k, kpfx k = p -> vact s' k = None /\ vatt s' k = vact (after pa h) k.
Proof. exact lost_effect. Qed.
Print Assumptions C12_lost_effect.

Theorem C12_kept_effect : forall pa h p,
  ~ In p (reports pa (after pa h)) ->
  let s := after pa h in let s' := after pa (Cleanup :: h) in
  known s' p = known s p
  /\ forall k, kpfx k = p -> vact s' k = vact s k /\ vatt s' k = vatt s k.
Proof. exact kept_effect. Qed.
Print Assumptions C12_kept_effect.

(* if at every moment p's latest life sign is at most G old, and G does not exceed the advertised
   lease L, then no clean-up ever reports p, and p (once announced, unless it disposes itself)
   is still known at the end *)
Theorem C12_never_while_alive : forall pa G L p h,
  wf pa h -> 0 <= G < TMAX -> ticks_of_ns G <= L + tol pa ->
  leases pa L p h -> fresh G p h ->
  (forall h1 h0, h = h1 ++ Cleanup :: h0 -> ~ In p (reports pa (after pa h0)))
  /\ ((exists l, In (Spdp p l) h) -> ~ In (Dispose p) h -> known (after pa h) p = true).
Proof. exact never_while_alive. Qed.
Print Assumptions C12_never_while_alive.

(* dispose: the participant, its endpoints and whatever an earlier time-out parked are gone at
   once, in any state; a later announcement brings nothing back *)
Theorem C12_dispose_immediate : forall pa s p,
  let s' := fst (step pa s (Dispose p)) in
  known s' p = false /\ forall k, kpfx k = p -> vact s' k = None /\ vatt s' k = None.
Proof. exact dispose_immediate. Qed.
Print Assumptions C12_dispose_immediate.

Theorem C12_dispose_stays_gone : forall pa s p l,
  let s' := fst (step pa (fst (step pa s (Dispose p))) (Spdp p l)) in
  forall k, kpfx k = p -> vact s' k = None.
Proof. exact dispose_stays_gone. Qed.
Print Assumptions C12_dispose_stays_gone.

(* time-out, anything about other participants, re-announcement: exactly the endpoints p had
   before the time-out are active again *)
Theorem C12_reappear : forall pa h h2 p l,
  In p (reports pa (after pa h)) -> forallb (quiet p) h2 = true ->
  let s := after pa h in
  let s' := after pa (Spdp p l :: h2 ++ Cleanup :: h) in
  known s' p = true /\ forall k, kpfx k = p -> vact s' k = vact s k /\ vatt s' k = None.
Proof. exact reappear. Qed.
Print Assumptions C12_reappear.

(* an infinite lease (or any lease with lease + tolerance >= INFINITE) never times out *)
Theorem C12_infinite_never : forall pa h p l,
  last_lease h p = Some l -> INF <= lease_of pa l + tol pa -> ~ In p (reports pa (after pa h)).
Proof. exact infinite_never. Qed.
Print Assumptions C12_infinite_never.

(* what a passing oracle says about an observed trace (time-out and dispose clauses) *)
Theorem C12_oracle_sound : forall pa ops tr,
  ok (pa, ops) (Some tr) = true -> trace_spec pa [] (digest_of pa init) ops tr.
Proof. exact oracle_sound. Qed.
Print Assumptions C12_oracle_sound.

(* the operation-list run used by the correspondence is the history semantics *)
Theorem C12_exec_is_after : forall pa ops, exec pa init ops = after pa (rev ops).
Proof. exact exec_init. Qed.
Print Assumptions C12_exec_is_after.

(* pinned commit: dispose after a time-out left the attic in place (repaired by a fix: commit) *)
Theorem C12_old_dispose_refuted : exists c, wfb c = true /\ ok c (run_old c) = false.
Proof. exact old_dispose_refuted. Qed.
Print Assumptions C12_old_dispose_refuted.
