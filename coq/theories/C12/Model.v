(* C12 — a silent participant is dropped after its lease, a live one never.

   Model of the participant-liveness part of src/discovery/discovery_db.rs, as the code is written:
     DiscoveryDB::update_participant, participant_is_alive, remove_participant (dispose / timeout),
     participant_cleanup, update_subscription / update_publication (endpoint maps only),
     remove_topic_reader / remove_topic_writer, move_by_guid_prefix (the "attic"),
   and of the arithmetic it relies on (src/structure/duration.rs: From<std::time::Duration>,
   to_ticks, Add).

   Time is an integer number of nanoseconds ([now]); the real code reads [Instant::now()], the
   driver moves time with the cfg-gated hook DiscoveryDB::verif_age.  Durations of the RTPS kind
   (lease, tolerance) are tick counts (1 tick = 2^-32 s, Duration::to_ticks).

   The four BTreeMaps external_topic_{readers,writers}{,_attic} are modelled by two maps [act] and
   [attic] keyed by (is_writer, participant, entity): readers and writers are handled by identical,
   independent code (move_by_guid_prefix is called once for each) so one map keyed by the kind is
   the same thing.  A participant is a small integer standing for its GuidPrefix; "all GUIDs in
   guid_prefix.range()" is "all keys whose participant component is p". *)
From Coq Require Import List ZArith Bool Lia.
From RD Require Import Common.Corr.
Import ListNotations.
Open Scope Z_scope.

(* ------------------------------------------------------------------------------------------ *)
(* association maps (BTreeMap as used here: get / insert-or-replace / remove)                 *)

Section AMap.
  Context {K V : Type}.
  Variable eqb : K -> K -> bool.
  Fixpoint aget (k : K) (m : list (K * V)) : option V :=
    match m with
    | [] => None
    | kv :: m' => if eqb k (fst kv) then Some (snd kv) else aget k m'
    end.
  Definition adel (k : K) (m : list (K * V)) : list (K * V) :=
    filter (fun kv => negb (eqb k (fst kv))) m.
  Definition aset (k : K) (v : V) (m : list (K * V)) : list (K * V) := (k, v) :: adel k m.
  Definition amem (k : K) (m : list (K * V)) : bool :=
    match aget k m with Some _ => true | None => false end.
End AMap.

(* insert-or-replace keeping ascending key order: iteration order of a BTreeMap<GuidPrefix, _>
   (observable through the order of participant_cleanup's result) *)
Fixpoint zins {V} (k : Z) (v : V) (m : list (Z * V)) : list (Z * V) :=
  match m with
  | [] => [(k, v)]
  | kv :: m' =>
      if k <? fst kv then (k, v) :: kv :: m'
      else if k =? fst kv then (k, v) :: m'
      else kv :: zins k v m'
  end.

Definition key := (bool * Z * Z)%type.        (* is_writer, participant, entity *)
Definition kpfx (k : key) : Z := snd (fst k).
Definition key_eqb (a b : key) : bool :=
  Bool.eqb (fst (fst a)) (fst (fst b)) && (snd (fst a) =? snd (fst b)) && (snd a =? snd b).

(* ------------------------------------------------------------------------------------------ *)
(* Duration arithmetic                                                                          *)

Definition NS : Z := 1000000000.
Definition two32 : Z := 4294967296.
Definition INF : Z := 9223372036854775807.      (* Duration::INFINITE.to_ticks() = i64::MAX *)
Definition wrap_i32 (z : Z) : Z := (z + 2147483648) mod two32 - 2147483648.
(* Duration::from(std::time::Duration):  seconds = as_secs() as i32,
   fraction = ((subsec_nanos as u64) << 32) / 1_000_000_000;  then to_ticks *)
Definition ticks_of_ns (ns : Z) : Z :=
  wrap_i32 (ns / NS) * two32 + ((ns mod NS) * two32) / NS.

(* ------------------------------------------------------------------------------------------ *)
(* State and operations                                                                         *)

Record params := {
  np : Z;            (* participants 0 .. np-1 (universe of the digest)                        *)
  ne : Z;            (* entity numbers 0 .. ne-1                                               *)
  nt : Z;            (* topics 0 .. nt-1                                                       *)
  self : Z;          (* the local participant (my_guid); may be outside 0 .. np-1              *)
  dflt : Z;          (* DEFAULT_PARTICIPANT_LEASE_DURATION in ticks (60 s in the source)       *)
  tol : Z }.         (* PARTICIPANT_LEASE_DURATION_TOLERANCE in ticks (0 in the source)        *)

Record st := {
  now : Z;                               (* ns *)
  prox : list (Z * option Z);            (* participant_proxies: p -> advertised lease (ticks) *)
  signs : list (Z * Z);                  (* participant_last_life_signs: p -> time (ns)        *)
  act : list (key * Z);                  (* external_topic_readers/writers: endpoint -> topic  *)
  attic : list (key * Z) }.              (* external_topic_readers/writers_attic               *)

Definition init : st := {| now := 0; prox := []; signs := []; act := []; attic := [] |}.

Inductive op :=
| Tick (d : Z)                         (* d ns pass *)
| Spdp (p : Z) (lease : option Z)      (* SPDP data received: update_participant *)
| SpdpBad (p : Z)                      (* SPDP data whose GUID entity id is not PARTICIPANT *)
| Alive (p : Z)                        (* participant_is_alive (message_receiver side channel) *)
| Cleanup                              (* participant_cleanup (Discovery timer tick) *)
| Dispose (p : Z)                      (* SPDP dispose: remove_participant(p, true) *)
| EpAdd (k : key) (t : Z)              (* update_subscription / update_publication *)
| EpDel (k : key).                     (* remove_topic_reader / remove_topic_writer *)

Inductive out :=
| OUnit
| ONew (b : bool)                      (* return value of update_participant *)
| OLost (l : list (Z * Z * Z)).        (* participant_cleanup: (p, lease ticks, elapsed whole s) *)

Definition pfx_is (p : Z) (kv : key * Z) : bool := kpfx (fst kv) =? p.

(* move_by_guid_prefix(p, from, to) -> (from', to') *)
Definition move_pfx (p : Z) (from to : list (key * Z)) : list (key * Z) * list (key * Z) :=
  let mv := filter (pfx_is p) from in
  (filter (fun kv => negb (pfx_is p kv)) from,
   mv ++ filter (fun kv => negb (amem key_eqb (fst kv) mv)) to).

Definition update_participant (pa : params) (p : Z) (lease : option Z) (s : st) : st * bool :=
  let isnew := negb (amem Z.eqb p (prox s)) in
  let '(att', act') := if isnew then move_pfx p (attic s) (act s) else (attic s, act s) in
  ({| now := now s; prox := zins p lease (prox s); signs := zins p (now s) (signs s);
      act := act'; attic := att' |},
   isnew && negb (p =? self pa)).

Definition participant_is_alive (p : Z) (s : st) : st :=
  if amem Z.eqb p (signs s)
  then {| now := now s; prox := prox s; signs := zins p (now s) (signs s);
          act := act s; attic := attic s |}
  else s.

(* remove_participant(p, active_disposal) of the repaired code: an active disposal also discards
   what a previous timeout parked in the attic (fix: commit, see notes/C12.md) *)
Definition remove_participant (p : Z) (active : bool) (s : st) : st :=
  let prox' := adel Z.eqb p (prox s) in
  let signs' := adel Z.eqb p (signs s) in
  if active
  then {| now := now s; prox := prox'; signs := signs';
          act := filter (fun kv => negb (pfx_is p kv)) (act s);
          attic := filter (fun kv => negb (pfx_is p kv)) (attic s) |}
  else let '(act', att') := move_pfx p (act s) (attic s) in
       {| now := now s; prox := prox'; signs := signs'; act := act'; attic := att' |}.

(* the code as found (pinned commit): the attic is not touched by an active disposal *)
Definition remove_participant_old (p : Z) (active : bool) (s : st) : st :=
  let prox' := adel Z.eqb p (prox s) in
  let signs' := adel Z.eqb p (signs s) in
  if active
  then {| now := now s; prox := prox'; signs := signs';
          act := filter (fun kv => negb (pfx_is p kv)) (act s); attic := attic s |}
  else let '(act', att') := move_pfx p (act s) (attic s) in
       {| now := now s; prox := prox'; signs := signs'; act := act'; attic := att' |}.

Definition lease_of (pa : params) (l : option Z) : Z :=
  match l with Some x => x | None => dflt pa end.

(* elapsed = Duration::from_std(inow.duration_since(last_life)); duration_since saturates at 0 *)
Definition elapsed_ticks (s : st) (last : Z) : Z := ticks_of_ns (Z.max 0 (now s - last)).

(* the loop of participant_cleanup: one to_remove entry (p, lease, elapsed) per expired proxy *)
Definition expired (pa : params) (s : st) (pl : Z * option Z) : list (Z * Z * Z) :=
  match aget Z.eqb (fst pl) (signs s) with
  | Some last =>
      let el := elapsed_ticks s last in
      let lease := lease_of pa (snd pl) in
      if el <=? lease + tol pa then [] else [(fst pl, lease, el)]
  | None => []
  end.

Definition to_remove (pa : params) (s : st) : list (Z * Z * Z) := flat_map (expired pa s) (prox s).

Section WithRemove.
  Variable rm : Z -> bool -> st -> st.

  Definition participant_cleanup_with (pa : params) (s : st) : st * list (Z * Z * Z) :=
    let tr := to_remove pa s in
    (fold_left (fun s' e => rm (fst (fst e)) false s') tr s, tr).

  Definition step_with (pa : params) (s : st) (o : op) : st * out :=
    match o with
    | Tick d => ({| now := now s + d; prox := prox s; signs := signs s; act := act s;
                    attic := attic s |}, OUnit)
    | Spdp p l => let '(s', b) := update_participant pa p l s in (s', ONew b)
    | SpdpBad p => (s, ONew false)
    | Alive p => (participant_is_alive p s, OUnit)
    | Cleanup =>
        let '(s', tr) := participant_cleanup_with pa s in
        (s', OLost (map (fun e => (fst (fst e), snd (fst e), snd e / two32)) tr))
    | Dispose p => (rm p true s, OUnit)
    | EpAdd k t => ({| now := now s; prox := prox s; signs := signs s;
                       act := aset key_eqb k t (act s); attic := attic s |}, OUnit)
    | EpDel k => ({| now := now s; prox := prox s; signs := signs s;
                     act := adel key_eqb k (act s); attic := attic s |}, OUnit)
    end.
End WithRemove.

Definition participant_cleanup := participant_cleanup_with remove_participant.
Definition step := step_with remove_participant.
Definition step_old := step_with remove_participant_old.

(* ------------------------------------------------------------------------------------------ *)
(* Observation: after every operation, its return value and a digest of what the public queries
   answer (find_participant_proxy, readers/writers_on_topic_and_participant) plus the attic
   (cfg-gated accessor), over the universe given by the case parameters.                        *)

Definition range (n : Z) : list Z := map Z.of_nat (seq 0 (Z.to_nat n)).
Definition keys (pa : params) : list key :=
  flat_map (fun p => flat_map (fun e => [(false, p, e); (true, p, e)]) (range (ne pa)))
           (range (np pa)).
Definition dump (ks : list key) (m : list (key * Z)) : list (key * Z) :=
  flat_map (fun k => match aget key_eqb k m with Some t => [(k, t)] | None => [] end) ks.

Inductive digest := Dg (known : list Z) (active : list (key * Z)) (parked : list (key * Z)).
Definition d_known (d : digest) := let 'Dg a _ _ := d in a.
Definition d_act (d : digest) := let 'Dg _ a _ := d in a.
Definition d_attic (d : digest) := let 'Dg _ _ a := d in a.

Definition digest_of (pa : params) (s : st) : digest :=
  Dg (filter (fun p => amem Z.eqb p (prox s)) (range (np pa)))
     (dump (keys pa) (act s)) (dump (keys pa) (attic s)).

Section RunWith.
  Variable stp : params -> st -> op -> st * out.
  Fixpoint trace_with (pa : params) (s : st) (ops : list op) : list (out * digest) :=
    match ops with
    | [] => []
    | o :: ops' => let '(s', r) := stp pa s o in (r, digest_of pa s') :: trace_with pa s' ops'
    end.
  Fixpoint exec_with (pa : params) (s : st) (ops : list op) : st :=
    match ops with
    | [] => s
    | o :: ops' => exec_with pa (fst (stp pa s o)) ops'
    end.
End RunWith.
Definition trace := trace_with step.
Definition exec := exec_with step.

(* well-formed cases: everything inside the universe, time never runs backwards, leases are
   Durations (<= INFINITE) and lease + tolerance does not overflow i64 (the code's `+`) *)
Definition in_range (n x : Z) : bool := (0 <=? x) && (x <? n).
Definition key_ok (pa : params) (k : key) : bool := in_range (np pa) (kpfx k) && in_range (ne pa) (snd k).
Definition lease_ok (pa : params) (l : Z) : bool := (0 <=? l) && (l + tol pa <=? INF).
Definition op_ok (pa : params) (o : op) : bool :=
  match o with
  | Tick d => 0 <=? d
  | Spdp p l => in_range (np pa) p && match l with Some x => lease_ok pa x | None => true end
  | SpdpBad p | Alive p | Dispose p => in_range (np pa) p
  | Cleanup => true
  | EpAdd k t => key_ok pa k && in_range (nt pa) t
  | EpDel k => key_ok pa k
  end.
Definition params_ok (pa : params) : bool :=
  (0 <=? np pa) && (0 <=? ne pa) && (0 <=? tol pa) && lease_ok pa (dflt pa).

Definition case := (params * list op)%type.
Definition obs := option (list (out * digest)).      (* None: the case is not well-formed *)
Definition wfb (c : case) : bool := params_ok (fst c) && forallb (op_ok (fst c)) (snd c).
Definition run_with stp (c : case) : obs :=
  if wfb c then Some (trace_with stp (fst c) init (snd c)) else None.
Definition run : case -> obs := run_with step.
Definition run_old : case -> obs := run_with step_old.

(* ---------- comparing observations ---------- *)
Definition z3_eqb (a b : Z * Z * Z) : bool :=
  (fst (fst a) =? fst (fst b)) && (snd (fst a) =? snd (fst b)) && (snd a =? snd b).
Definition kt_eqb (a b : key * Z) : bool := key_eqb (fst a) (fst b) && (snd a =? snd b).
Definition out_eqb (a b : out) : bool :=
  match a, b with
  | OUnit, OUnit => true
  | ONew x, ONew y => Bool.eqb x y
  | OLost x, OLost y => list_eqb z3_eqb x y
  | _, _ => false
  end.
Definition digest_eqb (a b : digest) : bool :=
  list_eqb Z.eqb (d_known a) (d_known b) && list_eqb kt_eqb (d_act a) (d_act b)
  && list_eqb kt_eqb (d_attic a) (d_attic b).
Definition obs_eqb (a b : obs) : bool :=
  option_eqb (list_eqb (fun x y => out_eqb (fst x) (fst y) && digest_eqb (snd x) (snd y))) a b.

(* ------------------------------------------------------------------------------------------ *)
(* Property oracle.  It looks only at the case and at what the public API showed (return values,
   known participants, active endpoints; it never reads the attic part of the digest), and keeps
   its own bookkeeping of the history: the clock, the time and lease of each participant's last
   life sign, and -- for a participant that timed out -- the endpoints it had at that moment.     *)

Inductive snap :=
| Clean                              (* nothing may come back when the participant (re)appears *)
| Parked (eps : list (key * Z))      (* timed out, untouched since: exactly these must come back *)
| Disturbed.                         (* endpoint traffic for it while timed out: no demand *)

Record spec := {
  sp_t : Z;
  sp_last : list (Z * Z);
  sp_lease : list (Z * option Z);
  sp_snap : list (Z * snap) }.
Definition spec0 : spec := {| sp_t := 0; sp_last := []; sp_lease := []; sp_snap := [] |}.

Definition kn (d : digest) (p : Z) : bool := existsb (Z.eqb p) (d_known d).
Definition ep (d : digest) (k : key) : option Z := aget key_eqb k (d_act d).
Definition optz_eqb := option_eqb Z.eqb.
Definition snap_of (sp : spec) (p : Z) : snap :=
  match aget Z.eqb p (sp_snap sp) with Some x => x | None => Clean end.
Definition last_of (sp : spec) (p : Z) : Z :=
  match aget Z.eqb p (sp_last sp) with Some x => x | None => 0 end.
Definition lease_sp (pa : params) (sp : spec) (p : Z) : Z :=
  lease_of pa (match aget Z.eqb p (sp_lease sp) with Some x => x | None => None end).

(* the comparison demanded by the property: lost iff known and elapsed > lease (+ tolerance) *)
Definition should_lose (pa : params) (sp : spec) (d0 : digest) (p : Z) : bool :=
  kn d0 p && (lease_sp pa sp p + tol pa <? ticks_of_ns (Z.max 0 (sp_t sp - last_of sp p))).

(* what participant_cleanup must return: exactly the participants that should be lost, each once,
   each with its lease and the elapsed time (whole seconds).  The order of the list is not part of
   the property (it is compared by the correspondence check only). *)
Definition pfst (e : Z * Z * Z) : Z := fst (fst e).
Fixpoint nodupb (l : list Z) : bool :=
  match l with
  | [] => true
  | x :: l' => negb (existsb (Z.eqb x) l') && nodupb l'
  end.
Definition lost_ok (pa : params) (sp : spec) (d0 : digest) (l : list (Z * Z * Z)) : bool :=
  forallb (fun p => Bool.eqb (existsb (Z.eqb p) (map pfst l)) (should_lose pa sp d0 p))
          (range (np pa))
  && forallb (fun e => in_range (np pa) (pfst e)
                       && z3_eqb e (pfst e, lease_sp pa sp (pfst e),
                                    ticks_of_ns (Z.max 0 (sp_t sp - last_of sp (pfst e))) / two32)) l
  && nodupb (map pfst l).

(* known-set and endpoint views after the step, given what they must be *)
Definition views (pa : params) (d1 : digest) (kn1 : Z -> bool) (ep1 : key -> option Z) : bool :=
  forallb (fun p => Bool.eqb (kn d1 p) (kn1 p)) (range (np pa))
  && forallb (fun k => optz_eqb (ep d1 k) (ep1 k)) (keys pa).

Definition disturb (sp : spec) (p : Z) : list (Z * snap) :=
  match snap_of sp p with
  | Parked _ => aset Z.eqb p Disturbed (sp_snap sp)
  | _ => sp_snap sp
  end.

Definition step_ok (pa : params) (sp : spec) (d0 : digest) (o : op) (r : out) (d1 : digest)
  : bool * spec :=
  match o with
  | Tick d =>
      (out_eqb r OUnit && views pa d1 (kn d0) (ep d0),
       {| sp_t := sp_t sp + d; sp_last := sp_last sp; sp_lease := sp_lease sp;
          sp_snap := sp_snap sp |})
  | Alive p =>
      (out_eqb r OUnit && views pa d1 (kn d0) (ep d0),
       {| sp_t := sp_t sp; sp_last := aset Z.eqb p (sp_t sp) (sp_last sp);
          sp_lease := sp_lease sp; sp_snap := sp_snap sp |})
  | SpdpBad p => (out_eqb r (ONew false) && views pa d1 (kn d0) (ep d0), sp)
  | Spdp p l =>
      let was := kn d0 p in
      (out_eqb r (ONew (negb was && negb (p =? self pa)))
       && match (if was then Clean else snap_of sp p) with
          | Clean => views pa d1 (fun q => (q =? p) || kn d0 q) (ep d0)
          | Parked eps =>
              views pa d1 (fun q => (q =? p) || kn d0 q)
                    (fun k => if kpfx k =? p then aget key_eqb k eps else ep d0 k)
          | Disturbed =>
              views pa d1 (fun q => (q =? p) || kn d0 q)
                    (fun k => if kpfx k =? p then ep d1 k else ep d0 k)
          end,
       {| sp_t := sp_t sp; sp_last := aset Z.eqb p (sp_t sp) (sp_last sp);
          sp_lease := aset Z.eqb p l (sp_lease sp);
          sp_snap := aset Z.eqb p Clean (sp_snap sp) |})
  | Dispose p =>
      (out_eqb r OUnit
       && views pa d1 (fun q => negb (q =? p) && kn d0 q)
                (fun k => if kpfx k =? p then None else ep d0 k),
       {| sp_t := sp_t sp; sp_last := sp_last sp; sp_lease := sp_lease sp;
          sp_snap := aset Z.eqb p Clean (sp_snap sp) |})
  | Cleanup =>
      let lose := should_lose pa sp d0 in
      (match r with OLost l => lost_ok pa sp d0 l | _ => false end
       && views pa d1 (fun q => kn d0 q && negb (lose q))
                (fun k => if lose (kpfx k) then None else ep d0 k),
       {| sp_t := sp_t sp; sp_last := sp_last sp; sp_lease := sp_lease sp;
          sp_snap := fold_left
                       (fun m p => if lose p
                                   then aset Z.eqb p (Parked (filter (pfx_is p) (d_act d0))) m
                                   else m) (range (np pa)) (sp_snap sp) |})
  | EpAdd k t =>
      (out_eqb r OUnit
       && views pa d1 (kn d0) (fun k' => if key_eqb k' k then Some t else ep d0 k'),
       {| sp_t := sp_t sp; sp_last := sp_last sp; sp_lease := sp_lease sp;
          sp_snap := disturb sp (kpfx k) |})
  | EpDel k =>
      (out_eqb r OUnit
       && views pa d1 (kn d0) (fun k' => if key_eqb k' k then None else ep d0 k'),
       {| sp_t := sp_t sp; sp_last := sp_last sp; sp_lease := sp_lease sp;
          sp_snap := disturb sp (kpfx k) |})
  end.

Fixpoint trace_ok (pa : params) (sp : spec) (d0 : digest) (ops : list op) (tr : list (out * digest))
  : bool :=
  match ops, tr with
  | [], [] => true
  | o :: ops', (r, d1) :: tr' =>
      let '(b, sp') := step_ok pa sp d0 o r d1 in b && trace_ok pa sp' d1 ops' tr'
  | _, _ => false
  end.

Definition ok (c : case) (o : obs) : bool :=
  match o with
  | None => negb (wfb c)
  | Some tr => wfb c && trace_ok (fst c) spec0 (digest_of (fst c) init) (snd c) tr
  end.
