(* C12 — lemmas: association maps, Duration arithmetic, effect of each DiscoveryDB operation on
   the "views" (known participants, life signs, active endpoints, attic), digest lemmas. *)
From Coq Require Import List ZArith Bool Lia.
From RD Require Import Common.Corr C12.Model.
Import ListNotations.
Open Scope Z_scope.

(* ------------------------------------------------------------------------------------------ *)
(* association maps *)

Lemma key_eqb_spec a b : key_eqb a b = true <-> a = b.
Proof.
  destruct a as [[a1 a2] a3], b as [[b1 b2] b3]; unfold key_eqb; cbn.
  rewrite !andb_true_iff, eqb_true_iff, !Z.eqb_eq. split.
  - intros [[-> ->] ->]; reflexivity.
  - intros E; inversion E; auto.
Qed.

Lemma key_eqb_refl a : key_eqb a a = true.
Proof. apply key_eqb_spec; reflexivity. Qed.

Lemma key_eqb_neq a b : a <> b -> key_eqb a b = false.
Proof. intros H; destruct (key_eqb a b) eqn:E; [apply key_eqb_spec in E; contradiction | reflexivity]. Qed.

Section AMapLemmas.
  Context {K V : Type}.
  Variable eqb : K -> K -> bool.
  Hypothesis eqb_spec : forall a b, eqb a b = true <-> a = b.

  Lemma eqb_refl' a : eqb a a = true.
  Proof. apply eqb_spec; reflexivity. Qed.
  Lemma eqb_neq' a b : a <> b -> eqb a b = false.
  Proof. intros H; destruct (eqb a b) eqn:E; [apply eqb_spec in E; contradiction | reflexivity]. Qed.

  Lemma aget_filter_key (P : K -> bool) k (m : list (K * V)) :
    aget eqb k (filter (fun kv => P (fst kv)) m) = if P k then aget eqb k m else None.
  Proof.
    induction m as [|[k0 v0] m IH]; cbn.
    - destruct (P k); reflexivity.
    - destruct (P k0) eqn:P0; cbn.
      + destruct (eqb k k0) eqn:E.
        * apply eqb_spec in E; subst. rewrite P0. reflexivity.
        * exact IH.
      + destruct (eqb k k0) eqn:E.
        * apply eqb_spec in E; subst. rewrite IH, P0. reflexivity.
        * exact IH.
  Qed.

  Lemma aget_adel k k' (m : list (K * V)) :
    aget eqb k' (adel eqb k m) = if eqb k k' then None else aget eqb k' m.
  Proof.
    unfold adel. rewrite (aget_filter_key (fun x => negb (eqb k x))).
    destruct (eqb k k'); reflexivity.
  Qed.

  Lemma aget_aset k k' v (m : list (K * V)) :
    aget eqb k' (aset eqb k v m) = if eqb k' k then Some v else aget eqb k' m.
  Proof.
    unfold aset; cbn. destruct (eqb k' k) eqn:E; [reflexivity|].
    rewrite aget_adel. destruct (eqb k k') eqn:E2; [|reflexivity].
    apply eqb_spec in E2; subst. rewrite eqb_refl' in E. discriminate.
  Qed.

  Lemma aget_app k (a b : list (K * V)) :
    aget eqb k (a ++ b) = match aget eqb k a with Some v => Some v | None => aget eqb k b end.
  Proof.
    induction a as [|[k0 v0] a IH]; cbn; [reflexivity|].
    destruct (eqb k k0); [reflexivity | exact IH].
  Qed.

  Lemma aget_In k v (m : list (K * V)) : aget eqb k m = Some v -> In (k, v) m.
  Proof.
    induction m as [|[k0 v0] m IH]; cbn; [discriminate|].
    destruct (eqb k k0) eqn:E.
    - intros H; inversion H; subst. apply eqb_spec in E; subst. left; reflexivity.
    - intros H; right; apply IH, H.
  Qed.

  Lemma aget_None_notin k (m : list (K * V)) : aget eqb k m = None -> forall v, ~ In (k, v) m.
  Proof.
    induction m as [|[k0 v0] m IH]; cbn; [tauto|].
    destruct (eqb k k0) eqn:E; [discriminate|].
    intros H v [H1|H1].
    - inversion H1; subst. rewrite eqb_refl' in E. discriminate.
    - exact (IH H v H1).
  Qed.
End AMapLemmas.

Lemma Zeqb_spec a b : Z.eqb a b = true <-> a = b.
Proof. apply Z.eqb_eq. Qed.

(* ---------- zins (sorted insert) ---------- *)
Lemma aget_zins {V} k k' (v : V) m :
  aget Z.eqb k' (zins k v m) = if k' =? k then Some v else aget Z.eqb k' m.
Proof.
  induction m as [|[k0 v0] m IH]; cbn.
  - destruct (k' =? k); reflexivity.
  - destruct (k <? k0) eqn:L; cbn.
    + destruct (k' =? k); reflexivity.
    + destruct (k =? k0) eqn:E; cbn.
      * apply Z.eqb_eq in E; subst. destruct (k' =? k0); reflexivity.
      * destruct (k' =? k0) eqn:E2.
        -- apply Z.eqb_eq in E2; subst.
           destruct (k0 =? k) eqn:E3; [apply Z.eqb_eq in E3; subst; rewrite Z.eqb_refl in E; discriminate|].
           reflexivity.
        -- exact IH.
Qed.

Lemma amem_zins {V} k k' (v : V) m :
  amem Z.eqb k' (zins k v m) = (k' =? k) || amem Z.eqb k' m.
Proof. unfold amem. rewrite aget_zins. destruct (k' =? k); reflexivity. Qed.

Lemma amem_adel {V} k k' (m : list (Z * V)) :
  amem Z.eqb k' (adel Z.eqb k m) = negb (k =? k') && amem Z.eqb k' m.
Proof. unfold amem. rewrite (aget_adel _ Zeqb_spec). destruct (k =? k'); reflexivity. Qed.

(* strictly ascending keys *)
Inductive ksorted {V} : list (Z * V) -> Prop :=
| ks_nil : ksorted []
| ks_cons k v m : (forall k', In k' (map fst m) -> k < k') -> ksorted m -> ksorted ((k, v) :: m).

Lemma keys_zins {V} k (v : V) m k' :
  In k' (map fst (zins k v m)) <-> k' = k \/ In k' (map fst m).
Proof.
  induction m as [|[k0 v0] m IH]; cbn.
  - intuition.
  - destruct (k <? k0) eqn:L; cbn; [intuition|].
    destruct (k =? k0) eqn:E; cbn.
    + apply Z.eqb_eq in E; subst. intuition.
    + rewrite IH. intuition.
Qed.

Lemma ksorted_zins {V} k (v : V) m : ksorted m -> ksorted (zins k v m).
Proof.
  induction 1 as [|k0 v0 m Hlt Hs IH]; cbn.
  - constructor; [cbn; tauto | constructor].
  - destruct (Z.ltb_spec k k0).
    + constructor; [|constructor; assumption].
      cbn. intros k' [<-|Hin]; [assumption|]. specialize (Hlt _ Hin). lia.
    + destruct (Z.eqb_spec k k0).
      * subst. constructor; assumption.
      * constructor; [|exact IH].
        intros k' Hin. apply keys_zins in Hin as [->|Hin]; [lia | apply Hlt, Hin].
Qed.

Lemma ksorted_filter {V} (P : Z * V -> bool) m : ksorted m -> ksorted (filter P m).
Proof.
  induction 1 as [|k0 v0 m Hlt Hs IH]; cbn; [constructor|].
  destruct (P (k0, v0)); [|exact IH].
  constructor; [|exact IH].
  intros k' Hin. apply Hlt. apply in_map_iff in Hin as [[a b] [E Hin]]. cbn in E; subst.
  apply filter_In in Hin as [Hin _]. apply in_map_iff. exists (k', b); auto.
Qed.

Lemma ksorted_In_aget {V} (m : list (Z * V)) k v :
  ksorted m -> In (k, v) m -> aget Z.eqb k m = Some v.
Proof.
  induction 1 as [|k0 v0 m Hlt Hs IH]; cbn; [tauto|].
  intros [E|Hin].
  - inversion E; subst. rewrite Z.eqb_refl. reflexivity.
  - destruct (Z.eqb_spec k k0).
    + subst. exfalso. assert (k0 < k0) by (apply Hlt, in_map_iff; exists (k0, v); auto). lia.
    + apply IH, Hin.
Qed.

Lemma ksorted_NoDup {V} (m : list (Z * V)) : ksorted m -> NoDup (map fst m).
Proof.
  induction 1 as [|k0 v0 m Hlt Hs IH]; cbn; constructor; [|exact IH].
  intros Hin. specialize (Hlt _ Hin). lia.
Qed.

(* ------------------------------------------------------------------------------------------ *)
(* Duration arithmetic *)

Lemma wrap_i32_range z : -2147483648 <= wrap_i32 z < 2147483648.
Proof.
  unfold wrap_i32, two32.
  pose proof (Z.mod_pos_bound (z + 2147483648) 4294967296 ltac:(lia)). lia.
Qed.

Lemma wrap_i32_id z : -2147483648 <= z < 2147483648 -> wrap_i32 z = z.
Proof.
  intros H. unfold wrap_i32, two32. rewrite Z.mod_small by lia. lia.
Qed.

Lemma frac_range ns : 0 <= ((ns mod NS) * two32) / NS < two32.
Proof.
  unfold NS, two32.
  pose proof (Z.mod_pos_bound ns 1000000000 ltac:(lia)) as Hm.
  split.
  - apply Z.div_pos; lia.
  - apply Z.div_lt_upper_bound; lia.
Qed.

(* a Duration never exceeds INFINITE *)
Lemma ticks_le_INF ns : ticks_of_ns ns <= INF.
Proof.
  unfold ticks_of_ns. pose proof (wrap_i32_range (ns / NS)). pose proof (frac_range ns).
  unfold INF, two32 in *. nia.
Qed.

Definition TMAX : Z := 2147483648 * NS.      (* 2^31 s in ns: below this `as i32` is exact *)

Lemma ticks_exact ns : 0 <= ns < TMAX -> ticks_of_ns ns = (ns * two32) / NS.
Proof.
  intros H. unfold ticks_of_ns, TMAX, NS in *.
  assert (Hq : 0 <= ns / 1000000000 < 2147483648).
  { split; [apply Z.div_pos; lia | apply Z.div_lt_upper_bound; lia]. }
  rewrite wrap_i32_id by lia.
  rewrite (Z.div_mod ns 1000000000) at 3 by lia.
  replace ((1000000000 * (ns / 1000000000) + ns mod 1000000000) * two32)
    with ((ns / 1000000000 * two32) * 1000000000 + (ns mod 1000000000) * two32) by ring.
  rewrite Z.div_add_l by lia. reflexivity.
Qed.

(* the comparison of participant_cleanup in real-time terms: elapsed (ns) exceeds the lease
   (ticks) iff  elapsed * 2^32 >= (lease + 1) * 10^9, i.e. elapsed > lease up to one tick *)
Lemma ticks_gt_iff ns L : 0 <= ns < TMAX -> (L < ticks_of_ns ns <-> (L + 1) * NS <= ns * two32).
Proof.
  intros H. rewrite ticks_exact by assumption. unfold NS. split; intro H1.
  - assert (L + 1 <= ns * two32 / 1000000000) by lia.
    pose proof (Z.mul_div_le (ns * two32) 1000000000 ltac:(lia)). nia.
  - assert (L + 1 <= ns * two32 / 1000000000); [|lia].
    apply Z.div_le_lower_bound; lia.
Qed.

Lemma ticks_mono a b : 0 <= a <= b -> b < TMAX -> ticks_of_ns a <= ticks_of_ns b.
Proof.
  intros H1 H2. rewrite !ticks_exact by (unfold TMAX, NS in *; lia).
  apply Z.div_le_mono; unfold NS, two32; lia.
Qed.

(* ------------------------------------------------------------------------------------------ *)
(* move_by_guid_prefix *)

Lemma pfx_filter_get p k m :
  aget key_eqb k (filter (pfx_is p) m) = if kpfx k =? p then aget key_eqb k m else None.
Proof. exact (aget_filter_key key_eqb key_eqb_spec (fun x => kpfx x =? p) k m). Qed.

Lemma npfx_filter_get p k m :
  aget key_eqb k (filter (fun kv => negb (pfx_is p kv)) m)
  = if kpfx k =? p then None else aget key_eqb k m.
Proof.
  pose proof (aget_filter_key key_eqb key_eqb_spec (fun x => negb (kpfx x =? p)) k m) as H.
  cbn beta in H. unfold pfx_is. rewrite H.
  destruct (kpfx k =? p); reflexivity.
Qed.

Lemma move_from_get p from to k :
  aget key_eqb k (fst (move_pfx p from to)) = if kpfx k =? p then None else aget key_eqb k from.
Proof. unfold move_pfx; cbn. apply npfx_filter_get. Qed.

Lemma move_to_get p from to k :
  aget key_eqb k (snd (move_pfx p from to))
  = if kpfx k =? p
    then match aget key_eqb k from with Some v => Some v | None => aget key_eqb k to end
    else aget key_eqb k to.
Proof.
  unfold move_pfx; cbn. rewrite (aget_app key_eqb), pfx_filter_get.
  rewrite (aget_filter_key key_eqb key_eqb_spec
             (fun x => negb (amem key_eqb x (filter (pfx_is p) from))) k to).
  unfold amem. rewrite pfx_filter_get.
  destruct (kpfx k =? p); [|reflexivity].
  destruct (aget key_eqb k from); reflexivity.
Qed.

(* ------------------------------------------------------------------------------------------ *)
(* views of a state and the effect of the operations on them *)

Definition known (s : st) (p : Z) : bool := amem Z.eqb p (prox s).
Definition vact (s : st) (k : key) : option Z := aget key_eqb k (act s).
Definition vatt (s : st) (k : key) : option Z := aget key_eqb k (attic s).

Definition orelse {A} (a b : option A) : option A := match a with Some v => Some v | None => b end.

Lemma up_known pa p l s q :
  known (fst (update_participant pa p l s)) q = (q =? p) || known s q.
Proof.
  unfold update_participant, known.
  destruct (negb (amem Z.eqb p (prox s))); [destruct (move_pfx p (attic s) (act s))|]; cbn; apply amem_zins.
Qed.

Lemma up_now pa p l s : now (fst (update_participant pa p l s)) = now s.
Proof.
  unfold update_participant.
  destruct (negb (amem Z.eqb p (prox s))); [destruct (move_pfx p (attic s) (act s))|]; reflexivity.
Qed.

Lemma up_prox pa p l s : prox (fst (update_participant pa p l s)) = zins p l (prox s).
Proof.
  unfold update_participant.
  destruct (negb (amem Z.eqb p (prox s))); [destruct (move_pfx p (attic s) (act s))|]; reflexivity.
Qed.

Lemma up_signs pa p l s : signs (fst (update_participant pa p l s)) = zins p (now s) (signs s).
Proof.
  unfold update_participant.
  destruct (negb (amem Z.eqb p (prox s))); [destruct (move_pfx p (attic s) (act s))|]; reflexivity.
Qed.

Lemma up_ret pa p l s :
  snd (update_participant pa p l s) = negb (known s p) && negb (p =? self pa).
Proof.
  unfold update_participant, known.
  destruct (negb (amem Z.eqb p (prox s))); [destruct (move_pfx p (attic s) (act s))|]; reflexivity.
Qed.

Lemma up_act pa p l s k :
  vact (fst (update_participant pa p l s)) k
  = if known s p then vact s k
    else if kpfx k =? p then orelse (vatt s k) (vact s k) else vact s k.
Proof.
  unfold update_participant, known, vact, vatt.
  destruct (amem Z.eqb p (prox s)) eqn:E; cbn; [reflexivity|].
  exact (move_to_get p (attic s) (act s) k).
Qed.

Lemma up_att pa p l s k :
  vatt (fst (update_participant pa p l s)) k
  = if known s p then vatt s k else if kpfx k =? p then None else vatt s k.
Proof.
  unfold update_participant, known, vact, vatt.
  destruct (amem Z.eqb p (prox s)) eqn:E; cbn; [reflexivity|].
  exact (move_from_get p (attic s) (act s) k).
Qed.

Lemma rm_known p a s q : known (remove_participant p a s) q = negb (p =? q) && known s q.
Proof.
  unfold remove_participant, known. destruct a; [|destruct (move_pfx p (act s) (attic s))]; cbn; apply amem_adel.
Qed.

Lemma rm_now p a s : now (remove_participant p a s) = now s.
Proof. unfold remove_participant. destruct a; [|destruct (move_pfx p (act s) (attic s))]; reflexivity. Qed.

Lemma rm_prox p a s : prox (remove_participant p a s) = adel Z.eqb p (prox s).
Proof. unfold remove_participant. destruct a; [|destruct (move_pfx p (act s) (attic s))]; reflexivity. Qed.

Lemma rm_signs p a s : signs (remove_participant p a s) = adel Z.eqb p (signs s).
Proof. unfold remove_participant. destruct a; [|destruct (move_pfx p (act s) (attic s))]; reflexivity. Qed.

Lemma rm_act p a s k :
  vact (remove_participant p a s) k = if kpfx k =? p then None else vact s k.
Proof.
  unfold remove_participant, vact. destruct a; cbn.
  - apply npfx_filter_get.
  - exact (move_from_get p (act s) (attic s) k).
Qed.

Lemma rm_att p a s k :
  vatt (remove_participant p a s) k
  = if kpfx k =? p then (if a then None else orelse (vact s k) (vatt s k)) else vatt s k.
Proof.
  unfold remove_participant, vact, vatt. destruct a; cbn.
  - apply npfx_filter_get.
  - exact (move_to_get p (act s) (attic s) k).
Qed.

(* removing a list of participants after a time-out *)
Definition rm_all (L : list Z) (s : st) : st :=
  fold_left (fun s' p => remove_participant p false s') L s.
Definition inl (L : list Z) (p : Z) : bool := existsb (Z.eqb p) L.

Lemma cleanup_as_rm_all pa s :
  fst (participant_cleanup pa s) = rm_all (map (fun e => fst (fst e)) (to_remove pa s)) s.
Proof.
  unfold participant_cleanup, participant_cleanup_with, rm_all; cbn.
  generalize (to_remove pa s) as l. generalize s as s0.
  intros s0 l; revert s0; induction l as [|e l IH]; intros s0; cbn; [reflexivity|apply IH].
Qed.

Lemma rm_all_cons p L s : rm_all (p :: L) s = rm_all L (remove_participant p false s).
Proof. reflexivity. Qed.

Lemma inl_cons p L q : inl (p :: L) q = (q =? p) || inl L q.
Proof. reflexivity. Qed.

Lemma rm_all_known L : forall s q, known (rm_all L s) q = negb (inl L q) && known s q.
Proof.
  induction L as [|p L IH]; intros s q; [reflexivity|].
  rewrite rm_all_cons, IH, ?inl_cons, rm_known.
  rewrite (Z.eqb_sym q p). destruct (p =? q), (inl L q); reflexivity.
Qed.

Lemma rm_all_now L : forall s, now (rm_all L s) = now s.
Proof. induction L as [|p L IH]; intros s; [reflexivity|]. rewrite rm_all_cons, IH. apply rm_now. Qed.

Lemma rm_all_act L : forall s k, vact (rm_all L s) k = if inl L (kpfx k) then None else vact s k.
Proof.
  induction L as [|p L IH]; intros s k; [reflexivity|].
  rewrite rm_all_cons, IH, ?inl_cons, rm_act.
  destruct (kpfx k =? p), (inl L (kpfx k)); reflexivity.
Qed.

Lemma rm_all_att L : forall s k,
  vatt (rm_all L s) k = if inl L (kpfx k) then orelse (vact s k) (vatt s k) else vatt s k.
Proof.
  induction L as [|p L IH]; intros s k; [reflexivity|].
  rewrite rm_all_cons, IH, ?inl_cons, rm_act, rm_att.
  destruct (kpfx k =? p), (inl L (kpfx k)); cbn; try reflexivity.
  all: destruct (vact s k); reflexivity.
Qed.

Lemma rm_all_sign L : forall s q,
  aget Z.eqb q (signs (rm_all L s)) = if inl L q then None else aget Z.eqb q (signs s).
Proof.
  induction L as [|p L IH]; intros s q; [reflexivity|].
  rewrite rm_all_cons, IH, ?inl_cons, rm_signs, (aget_adel _ Zeqb_spec).
  rewrite (Z.eqb_sym q p). destruct (p =? q), (inl L q); reflexivity.
Qed.

Lemma rm_all_lease L : forall s q,
  aget Z.eqb q (prox (rm_all L s)) = if inl L q then None else aget Z.eqb q (prox s).
Proof.
  induction L as [|p L IH]; intros s q; [reflexivity|].
  rewrite rm_all_cons, IH, ?inl_cons, rm_prox, (aget_adel _ Zeqb_spec).
  rewrite (Z.eqb_sym q p). destruct (p =? q), (inl L q); reflexivity.
Qed.

Lemma rm_all_sorted L : forall s, ksorted (prox s) -> ksorted (prox (rm_all L s)).
Proof.
  induction L as [|p L IH]; intros s H; [exact H|].
  rewrite rm_all_cons. apply IH. rewrite rm_prox. apply ksorted_filter, H.
Qed.

(* ------------------------------------------------------------------------------------------ *)
(* who is removed by participant_cleanup *)

Definition expires (pa : params) (s : st) (p : Z) : bool :=
  match aget Z.eqb p (prox s), aget Z.eqb p (signs s) with
  | Some l, Some last => lease_of pa l + tol pa <? elapsed_ticks s last
  | _, _ => false
  end.

Lemma to_remove_In pa s p lease el :
  ksorted (prox s) ->
  (In (p, lease, el) (to_remove pa s) <->
   exists l last, aget Z.eqb p (prox s) = Some l /\ aget Z.eqb p (signs s) = Some last
                  /\ lease = lease_of pa l /\ el = elapsed_ticks s last
                  /\ lease + tol pa < el).
Proof.
  intros Hs. unfold to_remove. rewrite in_flat_map. split.
  - intros [[q l] [Hin Hex]]. unfold expired in Hex; cbn in Hex.
    destruct (aget Z.eqb q (signs s)) as [last|] eqn:Es; [|destruct Hex].
    destruct (Z.leb_spec (elapsed_ticks s last) (lease_of pa l + tol pa)); [destruct Hex|].
    destruct Hex as [E|[]]. inversion E; subst.
    exists l, last. repeat split; auto. apply ksorted_In_aget; assumption.
  - intros (l & last & Hp & Hsg & -> & -> & Hlt).
    exists (p, l). split; [apply (aget_In _ Zeqb_spec), Hp|].
    unfold expired; cbn. rewrite Hsg.
    destruct (Z.leb_spec (elapsed_ticks s last) (lease_of pa l + tol pa)); [lia|]. left; reflexivity.
Qed.

Lemma inl_to_remove pa s p :
  ksorted (prox s) ->
  inl (map (fun e => fst (fst e)) (to_remove pa s)) p = expires pa s p.
Proof.
  intros Hs. unfold inl, expires.
  destruct (existsb (Z.eqb p) (map (fun e => fst (fst e)) (to_remove pa s))) eqn:E.
  - apply existsb_exists in E as [q [Hin Hq]]. apply Z.eqb_eq in Hq; subst q.
    apply in_map_iff in Hin as [[[p' lease] el] [E1 Hin]]. cbn in E1; subst p'.
    apply (to_remove_In pa s p lease el Hs) in Hin as (l & last & -> & -> & -> & -> & Hlt).
    symmetry. apply Z.ltb_lt, Hlt.
  - destruct (aget Z.eqb p (prox s)) as [l|] eqn:Ep; [|reflexivity].
    destruct (aget Z.eqb p (signs s)) as [last|] eqn:Es; [|reflexivity].
    destruct (Z.ltb_spec (lease_of pa l + tol pa) (elapsed_ticks s last)) as [Hlt|]; [|reflexivity].
    exfalso. rewrite <- not_true_iff_false in E. apply E. apply existsb_exists.
    exists p. split; [|apply Z.eqb_refl].
    apply in_map_iff. exists (p, lease_of pa l, elapsed_ticks s last). split; [reflexivity|].
    apply to_remove_In; [assumption|]. exists l, last. repeat split; auto.
Qed.

Lemma to_remove_NoDup pa s :
  ksorted (prox s) -> NoDup (map (fun e => fst (fst e)) (to_remove pa s)).
Proof.
  intros Hs. unfold to_remove. induction Hs as [|k v m Hlt Hs IH]; cbn; [constructor|].
  rewrite map_app. unfold expired at 1; cbn.
  destruct (aget Z.eqb k (signs s)); [|exact IH].
  destruct (_ <=? _); [exact IH|]. cbn. constructor; [|exact IH].
  intros Hin. apply in_map_iff in Hin as [[[p lease] el] [E Hin]]. cbn in E; subst p.
  apply in_flat_map in Hin as [[q l] [Hin Hex]]. unfold expired in Hex; cbn in Hex.
  destruct (aget Z.eqb q (signs s)); [|destruct Hex]. destruct (_ <=? _); [destruct Hex|].
  destruct Hex as [E|[]]. inversion E; subst.
  assert (k < k) by (apply Hlt, in_map_iff; exists (k, l); auto). lia.
Qed.

(* ------------------------------------------------------------------------------------------ *)
(* digest lemmas *)

Lemma range_In n x : In x (range n) <-> 0 <= x < n.
Proof.
  unfold range. rewrite in_map_iff. split.
  - intros [i [<- Hi]]. apply in_seq in Hi. lia.
  - intros H. exists (Z.to_nat x). split; [lia|]. apply in_seq. lia.
Qed.

Lemma inl_range n x : inl (range n) x = in_range n x.
Proof.
  unfold inl, in_range. destruct (existsb (Z.eqb x) (range n)) eqn:E.
  - apply existsb_exists in E as [y [Hin Hy]]. apply Z.eqb_eq in Hy; subst y.
    apply range_In in Hin. symmetry. apply andb_true_iff; split; [apply Z.leb_le|apply Z.ltb_lt]; lia.
  - destruct (Z.leb_spec 0 x), (Z.ltb_spec x n); cbn; try reflexivity.
    rewrite <- not_true_iff_false in E. exfalso. apply E, existsb_exists. exists x.
    split; [apply range_In; lia | apply Z.eqb_refl].
Qed.

Lemma keys_In pa k : In k (keys pa) <-> key_ok pa k = true.
Proof.
  unfold keys, key_ok, in_range. rewrite in_flat_map. destruct k as [[w p] e]; unfold kpfx; cbn. split.
  - intros [p' [Hp Hin]]. apply in_flat_map in Hin as [e' [He Hin]].
    apply range_In in Hp, He.
    assert (p = p' /\ e = e') as [-> ->] by (destruct Hin as [E|[E|[]]]; inversion E; auto).
    rewrite !andb_true_iff, !Z.leb_le, !Z.ltb_lt. lia.
  - rewrite !andb_true_iff, !Z.leb_le, !Z.ltb_lt. intros H.
    exists p. split; [apply range_In; lia|]. apply in_flat_map. exists e.
    split; [apply range_In; lia|]. destruct w; cbn; auto.
Qed.

Lemma dump_cons k0 ks m :
  dump (k0 :: ks) m
  = (match aget key_eqb k0 m with Some t => [(k0, t)] | None => [] end) ++ dump ks m.
Proof. reflexivity. Qed.

Lemma aget_dump ks m k :
  aget key_eqb k (dump ks m) = if existsb (key_eqb k) ks then aget key_eqb k m else None.
Proof.
  induction ks as [|k0 ks IH]; [reflexivity|].
  rewrite dump_cons, (aget_app key_eqb), IH. cbn [existsb].
  destruct (key_eqb k k0) eqn:E; cbn [orb].
  - apply key_eqb_spec in E; subst k0.
    destruct (aget key_eqb k m) eqn:Em; cbn [aget fst snd].
    + rewrite key_eqb_refl. reflexivity.
    + destruct (existsb (key_eqb k) ks); reflexivity.
  - destruct (aget key_eqb k0 m); cbn [aget fst snd]; [rewrite E|]; reflexivity.
Qed.

Lemma existsb_keys pa k : existsb (key_eqb k) (keys pa) = key_ok pa k.
Proof.
  destruct (key_ok pa k) eqn:E.
  - apply existsb_exists. exists k. split; [apply keys_In, E | apply key_eqb_refl].
  - destruct (existsb (key_eqb k) (keys pa)) eqn:E2; [|reflexivity].
    apply existsb_exists in E2 as [k' [Hin Hk]]. apply key_eqb_spec in Hk; subst k'.
    apply keys_In in Hin. congruence.
Qed.

Lemma ep_digest pa s k : ep (digest_of pa s) k = if key_ok pa k then vact s k else None.
Proof. unfold ep, digest_of, vact; cbn. rewrite aget_dump, existsb_keys. reflexivity. Qed.

Lemma kn_digest pa s p : kn (digest_of pa s) p = in_range (np pa) p && known s p.
Proof.
  unfold kn, digest_of, known; cbn.
  destruct (existsb (Z.eqb p) (filter (fun q => amem Z.eqb q (prox s)) (range (np pa)))) eqn:E.
  - apply existsb_exists in E as [q [Hin Hq]]. apply Z.eqb_eq in Hq; subst q.
    apply filter_In in Hin as [Hin Hm]. rewrite Hm, <- inl_range.
    symmetry. apply andb_true_iff; split; [|reflexivity].
    apply existsb_exists. exists p; split; [assumption|apply Z.eqb_refl].
  - destruct (in_range (np pa) p) eqn:Er; [|reflexivity]. cbn.
    destruct (amem Z.eqb p (prox s)) eqn:Em; [|reflexivity].
    rewrite <- not_true_iff_false in E. exfalso. apply E, existsb_exists. exists p.
    split; [|apply Z.eqb_refl]. apply filter_In. split; [|assumption].
    rewrite <- inl_range in Er. apply existsb_exists in Er as [q [Hin Hq]].
    apply Z.eqb_eq in Hq; subst q. assumption.
Qed.

Lemma parked_digest pa s p k :
  aget key_eqb k (filter (pfx_is p) (d_act (digest_of pa s)))
  = if kpfx k =? p then (if key_ok pa k then vact s k else None) else None.
Proof. rewrite pfx_filter_get. fold (ep (digest_of pa s) k). rewrite ep_digest. reflexivity. Qed.

Lemma views_intro pa s' kn1 ep1 :
  (forall p, in_range (np pa) p = true -> known s' p = kn1 p) ->
  (forall k, key_ok pa k = true -> vact s' k = ep1 k) ->
  views pa (digest_of pa s') kn1 ep1 = true.
Proof.
  intros H1 H2. unfold views. apply andb_true_iff; split; apply forallb_forall.
  - intros p Hin. rewrite kn_digest.
    assert (Hr : in_range (np pa) p = true).
    { rewrite <- inl_range. apply existsb_exists. exists p; split; [assumption|apply Z.eqb_refl]. }
    rewrite Hr; cbn. rewrite (H1 p Hr). apply eqb_reflx.
  - intros k Hin. apply keys_In in Hin. rewrite ep_digest, Hin, (H2 k Hin).
    unfold optz_eqb. apply (option_eqb_spec Z.eqb Zeqb_spec). reflexivity.
Qed.
