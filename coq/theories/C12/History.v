(* C12 — the property in Prop form, for all histories.
   A history [h] is a list of operations, MOST RECENT FIRST; [after pa h] is the DiscoveryDB state
   it leads to from the empty database ([exec pa init ops = after pa (rev ops)]). *)
From Coq Require Import List ZArith Bool Lia.
From RD Require Import Common.Corr C12.Model C12.Proofs.
Import ListNotations.
Open Scope Z_scope.

Fixpoint after (pa : params) (h : list op) : st :=
  match h with
  | [] => init
  | o :: h' => fst (step pa (after pa h') o)
  end.

Lemma exec_after pa ops : forall s h, s = after pa h -> exec pa s ops = after pa (rev ops ++ h).
Proof.
  induction ops as [|o ops IH]; intros s h E; cbn; [exact E|].
  unfold exec in *; cbn. rewrite (IH _ (o :: h)).
  - rewrite <- app_assoc. reflexivity.
  - cbn. rewrite E. reflexivity.
Qed.

Lemma exec_init pa ops : exec pa init ops = after pa (rev ops).
Proof. rewrite (exec_after pa ops init []); [rewrite app_nil_r|]; reflexivity. Qed.

(* the clock, and each participant's last life sign / advertised lease, read off the history *)
Fixpoint clock (h : list op) : Z :=
  match h with
  | [] => 0
  | Tick d :: h' => clock h' + d
  | _ :: h' => clock h'
  end.

Fixpoint last_sign (h : list op) (p : Z) : option Z :=
  match h with
  | [] => None
  | Spdp q _ :: h' | Alive q :: h' => if q =? p then Some (clock h') else last_sign h' p
  | _ :: h' => last_sign h' p
  end.

Fixpoint last_lease (h : list op) (p : Z) : option (option Z) :=
  match h with
  | [] => None
  | Spdp q l :: h' => if q =? p then Some l else last_lease h' p
  | _ :: h' => last_lease h' p
  end.

Definition wf (pa : params) (h : list op) : Prop :=
  params_ok pa = true /\ forallb (op_ok pa) h = true.

Lemma wf_tail pa o h : wf pa (o :: h) -> op_ok pa o = true /\ wf pa h.
Proof. intros [Hp Hh]. cbn in Hh. apply andb_true_iff in Hh as [Ho Hh]. repeat split; assumption. Qed.

(* what participant_cleanup would report now *)
Definition reports (pa : params) (s : st) : list Z := map pfst (snd (participant_cleanup pa s)).

(* p's last life sign is older than the lease it advertised (+ tolerance): the code's comparison *)
Definition overdue (pa : params) (h : list op) (p : Z) : Prop :=
  exists t l, last_sign h p = Some t /\ last_lease h p = Some l
              /\ lease_of pa l + tol pa < ticks_of_ns (Z.max 0 (clock h - t)).

(* ------------------------------------------------------------------------------------------ *)
(* invariants of reachable states *)

Lemma step_views pa s o :
  let s' := fst (step pa s o) in
  match o with
  | Tick d => now s' = now s + d /\ prox s' = prox s /\ signs s' = signs s
              /\ act s' = act s /\ attic s' = attic s
  | Spdp p l => s' = fst (update_participant pa p l s)
  | SpdpBad _ => s' = s
  | Alive p => s' = participant_is_alive p s
  | Cleanup => s' = rm_all (map pfst (to_remove pa s)) s
  | Dispose p => s' = remove_participant p true s
  | EpAdd k t => now s' = now s /\ prox s' = prox s /\ signs s' = signs s
                 /\ act s' = aset key_eqb k t (act s) /\ attic s' = attic s
  | EpDel k => now s' = now s /\ prox s' = prox s /\ signs s' = signs s
               /\ act s' = adel key_eqb k (act s) /\ attic s' = attic s
  end.
Proof.
  destruct o; cbn zeta.
  - cbn; auto.
  - unfold step, step_with. destruct (update_participant pa p lease s); reflexivity.
  - reflexivity.
  - reflexivity.
  - unfold step, step_with.
    destruct (participant_cleanup_with remove_participant pa s) as [s1 tr] eqn:U. cbn [fst].
    pose proof (cleanup_as_rm_all pa s) as H. unfold participant_cleanup in H.
    rewrite U in H. cbn [fst] in H. exact H.
  - reflexivity.
  - cbn; auto.
  - cbn; auto.
Qed.

Lemma now_after pa h : now (after pa h) = clock h.
Proof.
  induction h as [|o h IH]; [reflexivity|].
  cbn [after]. pose proof (step_views pa (after pa h) o) as V. cbn zeta in V.
  destruct o; cbn [clock].
  - destruct V as [-> _]. rewrite IH. reflexivity.
  - rewrite V, up_now. exact IH.
  - rewrite V. exact IH.
  - rewrite V. unfold participant_is_alive. destruct (amem _ _ _); exact IH.
  - rewrite V, rm_all_now. exact IH.
  - rewrite V, rm_now. exact IH.
  - destruct V as [-> _]. exact IH.
  - destruct V as [-> _]. exact IH.
Qed.

Lemma sorted_after pa h : ksorted (prox (after pa h)).
Proof.
  induction h as [|o h IH]; [constructor|].
  cbn [after]. pose proof (step_views pa (after pa h) o) as V. cbn zeta in V.
  destruct o.
  - destruct V as (_ & -> & _). exact IH.
  - rewrite V, up_prox. apply ksorted_zins, IH.
  - rewrite V. exact IH.
  - rewrite V. unfold participant_is_alive. destruct (amem _ _ _); exact IH.
  - rewrite V. apply rm_all_sorted, IH.
  - rewrite V, rm_prox. apply ksorted_filter, IH.
  - destruct V as (_ & -> & _). exact IH.
  - destruct V as (_ & -> & _). exact IH.
Qed.

(* for a known participant the database holds exactly the time of its last life sign and the
   lease of its last announcement *)
Lemma signs_after pa h p :
  known (after pa h) p = true ->
  exists t l, last_sign h p = Some t /\ last_lease h p = Some l
              /\ aget Z.eqb p (signs (after pa h)) = Some t
              /\ aget Z.eqb p (prox (after pa h)) = Some l.
Proof.
  induction h as [|o h IH]; [discriminate|].
  cbn [after]. pose proof (step_views pa (after pa h) o) as V. cbn zeta in V.
  set (s := after pa h) in *. intros K.
  destruct o; cbn [last_sign last_lease].
  - destruct V as (_ & Hp & Hs & _). unfold known in *. rewrite Hp, Hs in *. apply IH, K.
  - rewrite V in K |- *. rewrite up_known in K. rewrite up_signs, up_prox, !aget_zins.
    rewrite (Z.eqb_sym p0 p). destruct (Z.eqb_spec p p0) as [E|E].
    + exists (clock h), lease. unfold s. rewrite now_after. auto.
    + apply IH, K.
  - rewrite V in *. apply IH, K.
  - rewrite V in K |- *. unfold participant_is_alive in *.
    destruct (amem Z.eqb p0 (signs s)) eqn:M; cbn [signs prox] in *.
    + rewrite aget_zins, (Z.eqb_sym p0 p). destruct (Z.eqb_spec p p0) as [E|E].
      * destruct (IH K) as (t & l & H1 & H2 & H3 & H4).
        exists (clock h), l. unfold s. rewrite now_after. auto.
      * apply IH, K.
    + destruct (Z.eqb_spec p0 p) as [E|E]; [|apply IH, K].
      subst p0. destruct (IH K) as (t & l & H1 & H2 & H3 & H4).
      unfold amem in M. rewrite H3 in M. discriminate.
  - rewrite V in K |- *. rewrite rm_all_known in K. apply andb_true_iff in K as [Hn K].
    apply negb_true_iff in Hn. rewrite rm_all_sign, rm_all_lease, Hn. apply IH, K.
  - rewrite V in K |- *. rewrite rm_known in K. apply andb_true_iff in K as [Hn K].
    apply negb_true_iff in Hn. rewrite rm_signs, rm_prox, !(aget_adel _ Zeqb_spec), Hn. apply IH, K.
  - destruct V as (_ & Hp & Hs & _). unfold known in *. rewrite Hp, Hs in *. apply IH, K.
  - destruct V as (_ & Hp & Hs & _). unfold known in *. rewrite Hp, Hs in *. apply IH, K.
Qed.

(* a known participant has nothing in the attic *)
Lemma attic_after pa h p k :
  known (after pa h) p = true -> kpfx k = p -> vatt (after pa h) k = None.
Proof.
  revert p k. induction h as [|o h IH]; intros p k; [discriminate|].
  cbn [after]. pose proof (step_views pa (after pa h) o) as V. cbn zeta in V.
  set (s := after pa h) in *. intros K Hk.
  destruct o.
  - destruct V as (_ & Hp & _ & _ & Ha). unfold known, vatt in *. rewrite Hp, Ha in *. apply (IH p k K Hk).
  - rewrite V in K |- *. rewrite up_known in K. rewrite up_att.
    destruct (known s p0) eqn:K0.
    + destruct (Z.eqb_spec p p0) as [E|E]; [subst p0; apply (IH p k K0 Hk)|].
      cbn in K. apply (IH p k K Hk).
    + destruct (Z.eqb_spec p p0) as [E|E].
      * subst p0. rewrite Hk, Z.eqb_refl. reflexivity.
      * assert (kpfx k =? p0 = false) as -> by (apply Z.eqb_neq; congruence).
        cbn in K. apply (IH p k K Hk).
  - rewrite V in *. apply (IH p k K Hk).
  - rewrite V in K |- *. unfold participant_is_alive in *.
    destruct (amem Z.eqb p0 (signs s)); apply (IH p k K Hk).
  - rewrite V in K |- *. rewrite rm_all_known in K. apply andb_true_iff in K as [Hn K].
    apply negb_true_iff in Hn. rewrite rm_all_att, Hk, Hn. apply (IH p k K Hk).
  - rewrite V in K |- *. rewrite rm_known in K. apply andb_true_iff in K as [Hn K].
    apply negb_true_iff, Z.eqb_neq in Hn. rewrite rm_att.
    assert (kpfx k =? p0 = false) as -> by (apply Z.eqb_neq; congruence).
    apply (IH p k K Hk).
  - destruct V as (_ & Hp & _ & _ & Ha). unfold known, vatt in *. rewrite Hp, Ha in *. apply (IH p k K Hk).
  - destruct V as (_ & Hp & _ & _ & Ha). unfold known, vatt in *. rewrite Hp, Ha in *. apply (IH p k K Hk).
Qed.

(* ------------------------------------------------------------------------------------------ *)
(* C12_lost_iff *)

Lemma reports_iff pa s p :
  ksorted (prox s) -> (In p (reports pa s) <-> expires pa s p = true).
Proof.
  intros Hs. unfold reports, participant_cleanup, participant_cleanup_with; cbn [snd].
  rewrite <- (inl_to_remove pa s p Hs). unfold inl. rewrite existsb_exists. split.
  - intros H. exists p. split; [exact H | apply Z.eqb_refl].
  - intros [q [H E]]. apply Z.eqb_eq in E; subst q. exact H.
Qed.

Theorem lost_iff pa h p :
  In p (reports pa (after pa h)) <-> known (after pa h) p = true /\ overdue pa h p.
Proof.
  rewrite (reports_iff pa _ p (sorted_after pa h)). unfold expires, overdue. split.
  - intros H.
    destruct (aget Z.eqb p (prox (after pa h))) as [l|] eqn:Ep; [|discriminate].
    assert (K : known (after pa h) p = true) by (unfold known, amem; rewrite Ep; reflexivity).
    destruct (signs_after pa h p K) as (t & l' & H1 & H2 & H3 & H4).
    rewrite H3 in H. rewrite Ep in H4. inversion H4; subst l'.
    split; [exact K|]. exists t, l. repeat split; try assumption.
    apply Z.ltb_lt in H. unfold elapsed_ticks in H. rewrite now_after in H. exact H.
  - intros [K (t & l & H1 & H2 & Hlt)].
    destruct (signs_after pa h p K) as (t' & l' & H1' & H2' & H3 & H4).
    rewrite H1 in H1'. rewrite H2 in H2'. inversion H1'; inversion H2'; subst t' l'.
    rewrite H3, H4. apply Z.ltb_lt. unfold elapsed_ticks. rewrite now_after. exact Hlt.
Qed.

(* what the report means for the database: the participant is forgotten and its endpoints are
   no longer answered by the endpoint queries (they are parked) *)
Theorem lost_effect pa h p :
  In p (reports pa (after pa h)) ->
  let s' := after pa (Cleanup :: h) in
  known s' p = false
  /\ forall k, kpfx k = p -> vact s' k = None /\ vatt s' k = vact (after pa h) k.
Proof.
  intros Hin s'. unfold s'. cbn [after].
  pose proof (step_views pa (after pa h) Cleanup) as V. cbn zeta in V. rewrite V.
  assert (HL : inl (map pfst (to_remove pa (after pa h))) p = true).
  { apply existsb_exists. exists p. split; [exact Hin | apply Z.eqb_refl]. }
  split.
  - rewrite rm_all_known, HL. reflexivity.
  - intros k Hk. rewrite rm_all_act, rm_all_att, Hk, HL. split; [reflexivity|].
    apply lost_iff in Hin as [K _]. rewrite (attic_after pa h p k K Hk). destruct (vact _ k); reflexivity.
Qed.

(* and nothing else changes *)
Theorem kept_effect pa h p :
  ~ In p (reports pa (after pa h)) ->
  let s := after pa h in let s' := after pa (Cleanup :: h) in
  known s' p = known s p
  /\ forall k, kpfx k = p -> vact s' k = vact s k /\ vatt s' k = vatt s k.
Proof.
  intros Hin s s'. unfold s', s. cbn [after].
  pose proof (step_views pa (after pa h) Cleanup) as V. cbn zeta in V. rewrite V.
  assert (HL : inl (map pfst (to_remove pa (after pa h))) p = false).
  { destruct (inl _ p) eqn:E; [|reflexivity]. exfalso. apply Hin.
    apply existsb_exists in E as [q [H E]]. apply Z.eqb_eq in E; subst q. exact H. }
  split.
  - rewrite rm_all_known, HL. reflexivity.
  - intros k Hk. rewrite rm_all_act, rm_all_att, Hk, HL. split; reflexivity.
Qed.

(* ------------------------------------------------------------------------------------------ *)
(* C12_never_while_alive *)

(* at every moment of the history, p's latest life sign (if any) is at most G ns old *)
Fixpoint fresh (G : Z) (p : Z) (h : list op) : Prop :=
  match h with
  | [] => True
  | o :: h' => (forall t, last_sign (o :: h') p = Some t -> clock (o :: h') - t <= G) /\ fresh G p h'
  end.

(* every announcement of p advertised the lease L (ticks) *)
Definition leases (pa : params) (L : Z) (p : Z) (h : list op) : Prop :=
  forall l, In (Spdp p l) h -> lease_of pa l = L.

Lemma clock_nonneg pa h : wf pa h -> 0 <= clock h.
Proof.
  induction h as [|o h IH]; intros W; [cbn; lia|].
  apply wf_tail in W as [Ho W]. specialize (IH W). destruct o; cbn in *; try assumption.
  apply Z.leb_le in Ho. lia.
Qed.

Lemma last_sign_le pa h p t : wf pa h -> last_sign h p = Some t -> 0 <= t <= clock h.
Proof.
  revert t. induction h as [|o h IH]; intros t W H; [discriminate|].
  apply wf_tail in W as [Ho W]. pose proof (clock_nonneg pa h W) as Hc.
  destruct o; cbn in *; try (apply IH; assumption).
  - apply Z.leb_le in Ho. specialize (IH t W H). lia.
  - destruct (p0 =? p); [inversion H; lia | apply IH; assumption].
  - destruct (p0 =? p); [inversion H; lia | apply IH; assumption].
Qed.

Lemma last_lease_In h p l : last_lease h p = Some l -> In (Spdp p l) h.
Proof.
  induction h as [|o h IH]; intros H; [discriminate|].
  destruct o; cbn in *; try (right; apply IH; assumption).
  destruct (Z.eqb_spec p0 p).
  - inversion H; subst. left; reflexivity.
  - right; apply IH; assumption.
Qed.

Lemma not_overdue pa G L p h :
  wf pa h -> 0 <= G < TMAX -> ticks_of_ns G <= L + tol pa ->
  leases pa L p h -> (forall t, last_sign h p = Some t -> clock h - t <= G) ->
  ~ overdue pa h p.
Proof.
  intros W HG HL Hl Hf (t & l & H1 & H2 & Hlt).
  specialize (Hf t H1). destruct (last_sign_le pa h p t W H1) as [Ht0 Ht].
  rewrite (Hl l (last_lease_In h p l H2)) in Hlt.
  rewrite Z.max_r in Hlt by lia.
  pose proof (ticks_mono (clock h - t) G ltac:(lia) ltac:(lia)). lia.
Qed.

Lemma alive_known' p s q : known (participant_is_alive p s) q = known s q.
Proof. unfold participant_is_alive. destruct (amem Z.eqb p (signs s)); reflexivity. Qed.

Lemma fresh_head G p o h : fresh G p (o :: h) -> forall t, last_sign (o :: h) p = Some t -> clock (o :: h) - t <= G.
Proof. intros [H _]; exact H. Qed.

Theorem never_while_alive pa G L p :
  forall h,
  wf pa h -> 0 <= G < TMAX -> ticks_of_ns G <= L + tol pa ->
  leases pa L p h -> fresh G p h ->
  (* no clean-up in the history ever reported p ... *)
  (forall h1 h0, h = h1 ++ Cleanup :: h0 -> ~ In p (reports pa (after pa h0)))
  (* ... and once announced (and not disposed by its own request) it is still known *)
  /\ ((exists l, In (Spdp p l) h) -> ~ In (Dispose p) h -> known (after pa h) p = true).
Proof.
  intros h W HG HL Hl Hf. split.
  - intros h1 h0 E Hin. apply lost_iff in Hin as [_ Hov].
    subst h. revert W Hl Hf. induction h1 as [|o h1 IH]; intros W Hl Hf.
    + cbn in *. apply wf_tail in W as [_ W]. destruct Hf as [_ Hf].
      destruct h0 as [|o0 h0].
      * destruct Hov as (t & l & H1 & _). discriminate.
      * apply (not_overdue pa G L p (o0 :: h0) W HG HL).
        -- intros l Hi. apply Hl. right; exact Hi.
        -- apply fresh_head, Hf.
        -- exact Hov.
    + cbn in *. apply wf_tail in W as [_ W]. destruct Hf as [_ Hf]. apply IH; try assumption.
      intros l Hi. apply Hl. right; exact Hi.
  - induction h as [|o h IH]; intros [l Hin] Hnd; [destruct Hin|].
    pose proof W as W0. apply wf_tail in W as [Ho W].
    assert (Hl' : leases pa L p h) by (intros l' Hi; apply Hl; right; exact Hi).
    assert (Hf' : fresh G p h) by (destruct Hf as [_ Hf]; exact Hf).
    assert (Hnd' : ~ In (Dispose p) h) by (intros Hi; apply Hnd; right; exact Hi).
    cbn [after]. pose proof (step_views pa (after pa h) o) as V. cbn zeta in V.
    assert (IH' : (exists l, In (Spdp p l) h) -> known (after pa h) p = true)
      by (intros Hex; apply IH; assumption).
    assert (Hrest : o <> Spdp p l -> exists l, In (Spdp p l) h).
    { intros Hne. destruct Hin as [E|Hi]; [congruence | eauto]. }
    destruct o.
    + destruct V as (_ & Hp & _). unfold known in *. rewrite Hp. apply IH', Hrest. discriminate.
    + rewrite V, up_known. destruct (Z.eqb_spec p p0) as [E|E]; [reflexivity|].
      cbn. apply IH'. destruct Hin as [E1|Hi]; [inversion E1; congruence | eauto].
    + rewrite V. apply IH', Hrest. discriminate.
    + rewrite V, alive_known'. apply IH', Hrest. discriminate.
    + rewrite V, rm_all_known.
      assert (K : known (after pa h) p = true) by (apply IH', Hrest; discriminate).
      rewrite K, andb_true_r. apply negb_true_iff.
      destruct (inl (map pfst (to_remove pa (after pa h))) p) eqn:E; [|reflexivity].
      exfalso. apply existsb_exists in E as [q [Hq E]]. apply Z.eqb_eq in E; subst q.
      assert (Hr : In p (reports pa (after pa h))) by exact Hq.
      apply lost_iff in Hr as [_ Hov].
      destruct h as [|o0 h0]; [destruct Hov as (t & l0 & H1 & _); discriminate|].
      apply (not_overdue pa G L p (o0 :: h0) W HG HL Hl'); [apply fresh_head, Hf' | exact Hov].
    + rewrite V, rm_known.
      destruct (Z.eqb_spec p0 p) as [E|E]; [subst; exfalso; apply Hnd; left; reflexivity|].
      cbn. apply IH', Hrest. discriminate.
    + destruct V as (_ & Hp & _). unfold known in *. rewrite Hp. apply IH', Hrest. discriminate.
    + destruct V as (_ & Hp & _). unfold known in *. rewrite Hp. apply IH', Hrest. discriminate.
Qed.

(* ------------------------------------------------------------------------------------------ *)
(* C12_dispose_immediate *)

Theorem dispose_immediate pa s p :
  let s' := fst (step pa s (Dispose p)) in
  known s' p = false /\ forall k, kpfx k = p -> vact s' k = None /\ vatt s' k = None.
Proof.
  cbn [step step_with fst]. split.
  - rewrite rm_known, Z.eqb_refl. reflexivity.
  - intros k Hk. rewrite rm_act, rm_att, Hk, Z.eqb_refl. split; reflexivity.
Qed.

(* ... and a later announcement of the disposed participant brings nothing back *)
Theorem dispose_stays_gone pa s p l :
  let s' := fst (step pa (fst (step pa s (Dispose p))) (Spdp p l)) in
  forall k, kpfx k = p -> vact s' k = None.
Proof.
  intros s' k Hk. unfold s'.
  destruct (dispose_immediate pa s p) as [K H]. cbn zeta in K, H.
  set (s1 := fst (step pa s (Dispose p))) in *.
  pose proof (step_views pa s1 (Spdp p l)) as V. cbn zeta in V. rewrite V, up_act, K, Hk, Z.eqb_refl.
  destruct (H k Hk) as [-> ->]. reflexivity.
Qed.

(* the code as found did not have this property: time-out, dispose, stray announcement *)
Definition old_witness : case :=
  ({| np := 3; ne := 2; nt := 2; self := 4; dflt := 257698037760; tol := 0 |},
   [Spdp 0 (Some 6442450944); EpAdd (false, 0, 0) 1; EpAdd (true, 0, 1) 0; Tick 2000000000;
    Cleanup; Dispose 0; Spdp 0 (Some 6442450944)]).

Lemma old_dispose_refuted : exists c, wfb c = true /\ ok c (run_old c) = false.
Proof. exists old_witness. split; vm_compute; reflexivity. Qed.

(* ------------------------------------------------------------------------------------------ *)
(* C12_reappear *)

(* operations that do not concern participant p *)
Definition quiet (p : Z) (o : op) : bool :=
  match o with
  | Spdp q _ | Dispose q => negb (q =? p)
  | EpAdd k _ | EpDel k => negb (kpfx k =? p)
  | _ => true
  end.

Lemma quiet_step pa h o p :
  quiet p o = true -> known (after pa h) p = false ->
  known (after pa (o :: h)) p = false
  /\ forall k, kpfx k = p -> vact (after pa (o :: h)) k = vact (after pa h) k
                             /\ vatt (after pa (o :: h)) k = vatt (after pa h) k.
Proof.
  intros Q K. cbn [after]. pose proof (step_views pa (after pa h) o) as V. cbn zeta in V.
  pose proof (sorted_after pa h) as Hs. set (s := after pa h) in *.
  destruct o; cbn [quiet] in Q.
  - destruct V as (_ & Hp & _ & Ha & Ht). unfold known, vact, vatt. rewrite Hp, Ha, Ht. auto.
  - apply negb_true_iff, Z.eqb_neq in Q. rewrite V. split.
    + rewrite up_known, K. destruct (Z.eqb_spec p p0); [congruence|reflexivity].
    + intros k Hk. rewrite up_act, up_att.
      assert (kpfx k =? p0 = false) as -> by (apply Z.eqb_neq; congruence).
      destruct (known s p0); auto.
  - rewrite V. auto.
  - rewrite V. unfold participant_is_alive. destruct (amem Z.eqb p0 (signs s)); auto.
  - rewrite V.
    assert (HL : inl (map pfst (to_remove pa s)) p = false).
    { change (map pfst (to_remove pa s)) with (map (fun e : Z * Z * Z => fst (fst e)) (to_remove pa s)).
      rewrite (inl_to_remove pa s p Hs). unfold expires.
      unfold known, amem in K. destruct (aget Z.eqb p (prox s)); [discriminate|reflexivity]. }
    split.
    + rewrite rm_all_known, K. apply andb_false_r.
    + intros k Hk. rewrite rm_all_act, rm_all_att, Hk, HL. auto.
  - apply negb_true_iff, Z.eqb_neq in Q. rewrite V. split.
    + rewrite rm_known, K. apply andb_false_r.
    + intros k Hk. rewrite rm_act, rm_att.
      assert (kpfx k =? p0 = false) as -> by (apply Z.eqb_neq; congruence). auto.
  - apply negb_true_iff, Z.eqb_neq in Q.
    destruct V as (_ & Hp & _ & Ha & Ht). unfold known, vact, vatt. rewrite Hp, Ha, Ht.
    split; [exact K|]. intros k0 Hk. split; [|reflexivity].
    rewrite (aget_aset _ key_eqb_spec).
    destruct (key_eqb k0 k) eqn:E; [apply key_eqb_spec in E; congruence | reflexivity].
  - apply negb_true_iff, Z.eqb_neq in Q.
    destruct V as (_ & Hp & _ & Ha & Ht). unfold known, vact, vatt. rewrite Hp, Ha, Ht.
    split; [exact K|]. intros k0 Hk. split; [|reflexivity].
    rewrite (aget_adel _ key_eqb_spec).
    destruct (key_eqb k k0) eqn:E; [apply key_eqb_spec in E; congruence | reflexivity].
Qed.

(* p times out at the clean-up after h; whatever happens to OTHER participants meanwhile (h2),
   when p is announced again exactly the endpoints it had before the time-out are active again,
   and its attic is empty *)
Theorem reappear pa h h2 p l :
  In p (reports pa (after pa h)) -> forallb (quiet p) h2 = true ->
  let s := after pa h in
  let s' := after pa (Spdp p l :: h2 ++ Cleanup :: h) in
  known s' p = true /\ forall k, kpfx k = p -> vact s' k = vact s k /\ vatt s' k = None.
Proof.
  intros Hin Hq s s'.
  assert (Hmid : known (after pa (h2 ++ Cleanup :: h)) p = false
                 /\ forall k, kpfx k = p -> vact (after pa (h2 ++ Cleanup :: h)) k = None
                                            /\ vatt (after pa (h2 ++ Cleanup :: h)) k = vact s k).
  { induction h2 as [|o h2 IH].
    - exact (lost_effect pa h p Hin).
    - cbn [forallb] in Hq. apply andb_true_iff in Hq as [Qo Qh]. destruct (IH Qh) as [K H].
      change ((o :: h2) ++ Cleanup :: h) with (o :: (h2 ++ Cleanup :: h)).
      destruct (quiet_step pa (h2 ++ Cleanup :: h) o p Qo K) as [K' H'].
      split; [exact K'|]. intros k Hk. destruct (H' k Hk) as [-> ->]. apply H, Hk. }
  destruct Hmid as [K H]. unfold s'. cbn [after].
  pose proof (step_views pa (after pa (h2 ++ Cleanup :: h)) (Spdp p l)) as V. cbn zeta in V.
  rewrite V. split.
  - rewrite up_known, Z.eqb_refl. reflexivity.
  - intros k Hk. rewrite up_act, up_att, K, Hk, Z.eqb_refl. destruct (H k Hk) as [-> ->].
    split; [|reflexivity]. destruct (vact s k); reflexivity.
Qed.

(* ------------------------------------------------------------------------------------------ *)
(* infinite lease; the comparison in real-time terms *)

Theorem infinite_never pa h p l :
  last_lease h p = Some l -> INF <= lease_of pa l + tol pa -> ~ In p (reports pa (after pa h)).
Proof.
  intros Hl Hinf Hin. apply lost_iff in Hin as [_ (t & l' & _ & H2 & Hlt)].
  rewrite Hl in H2. inversion H2; subst l'.
  pose proof (ticks_le_INF (Z.max 0 (clock h - t))). lia.
Qed.

Lemma overdue_realtime pa h p t l :
  wf pa h -> last_sign h p = Some t -> last_lease h p = Some l -> clock h - t < TMAX ->
  (overdue pa h p <-> (lease_of pa l + tol pa + 1) * NS <= (clock h - t) * two32).
Proof.
  intros W H1 H2 Hb. destruct (last_sign_le pa h p t W H1) as [Ht0 Ht].
  unfold overdue. split.
  - intros (t' & l' & E1 & E2 & Hlt). rewrite H1 in E1. rewrite H2 in E2.
    inversion E1; inversion E2; subst t' l'. rewrite Z.max_r in Hlt by lia.
    apply ticks_gt_iff in Hlt; [exact Hlt | lia].
  - intros Hle. exists t, l. repeat split; try assumption.
    rewrite Z.max_r by lia. apply ticks_gt_iff; [lia | exact Hle].
Qed.

(* ------------------------------------------------------------------------------------------ *)
(* Prop reading of the oracle: what [ok c (Some tr) = true] says about an observed trace.
   (The clauses for time-out and dispose; the reappearance clause of the oracle is checked by
   [ok] but not restated here.) *)

Definition sign_or0 (h : list op) (p : Z) : Z := match last_sign h p with Some t => t | None => 0 end.
Definition lease_or (h : list op) (p : Z) : option Z :=
  match last_lease h p with Some l => l | None => None end.
Definition overdue_d (pa : params) (h : list op) (p : Z) : Prop :=
  lease_of pa (lease_or h p) + tol pa < ticks_of_ns (Z.max 0 (clock h - sign_or0 h p)).

Lemma overdue_d_iff pa h p t l :
  last_sign h p = Some t -> last_lease h p = Some l -> (overdue_d pa h p <-> overdue pa h p).
Proof.
  intros H1 H2. unfold overdue_d, overdue, sign_or0, lease_or. rewrite H1, H2. split.
  - intros H. exists t, l. auto.
  - intros (t' & l' & E1 & E2 & H). inversion E1; inversion E2; subst. exact H.
Qed.

Definition step_spec (pa : params) (h : list op) (d0 : digest) (o : op) (r : out) (d1 : digest) : Prop :=
  match o with
  | Cleanup =>
      exists l, r = OLost l /\
      forall p, 0 <= p < np pa ->
        (In p (map pfst l) <-> kn d0 p = true /\ overdue_d pa h p)
        /\ kn d1 p = kn d0 p && negb (inl (map pfst l) p)
        /\ forall k, key_ok pa k = true -> kpfx k = p ->
                     ep d1 k = if inl (map pfst l) p then None else ep d0 k
  | Dispose p =>
      0 <= p < np pa ->
      kn d1 p = false /\ forall k, key_ok pa k = true -> kpfx k = p -> ep d1 k = None
  | _ => True
  end.

Fixpoint trace_spec (pa : params) (h : list op) (d0 : digest) (ops : list op) (tr : list (out * digest))
  : Prop :=
  match ops, tr with
  | [], [] => True
  | o :: ops', (r, d1) :: tr' => step_spec pa h d0 o r d1 /\ trace_spec pa (o :: h) d1 ops' tr'
  | _, _ => False
  end.

Definition book (sp : spec) (h : list op) : Prop :=
  sp_t sp = clock h
  /\ forall p, last_of sp p = sign_or0 h p
               /\ match aget Z.eqb p (sp_lease sp) with Some x => x | None => None end = lease_or h p.

Lemma views_elim pa d1 kn1 ep1 :
  views pa d1 kn1 ep1 = true ->
  (forall p, 0 <= p < np pa -> kn d1 p = kn1 p)
  /\ (forall k, key_ok pa k = true -> ep d1 k = ep1 k).
Proof.
  unfold views. intros H. apply andb_true_iff in H as [H1 H2].
  rewrite forallb_forall in H1, H2. split.
  - intros p Hp. apply eqb_prop, H1, range_In, Hp.
  - intros k Hk. apply (option_eqb_spec Z.eqb Zeqb_spec), H2, keys_In, Hk.
Qed.

Lemma book_step pa sp h d0 o r d1 :
  book sp h -> book (snd (step_ok pa sp d0 o r d1)) (o :: h).
Proof.
  intros [Bt B]. unfold book, sign_or0, lease_or, last_of in *.
  destruct o; cbn [step_ok snd sp_t sp_last sp_lease clock last_sign last_lease].
  - split; [lia | exact B].
  - split; [exact Bt|]. intros q. rewrite !(aget_aset _ Zeqb_spec), (Z.eqb_sym p q).
    destruct (q =? p); [rewrite Bt; auto | apply B].
  - split; [exact Bt | exact B].
  - split; [exact Bt|]. intros q. rewrite !(aget_aset _ Zeqb_spec), (Z.eqb_sym p q).
    destruct (q =? p); [rewrite Bt; split; [reflexivity | apply B] | apply B].
  - split; [exact Bt | exact B].
  - split; [exact Bt | exact B].
  - split; [exact Bt | exact B].
  - split; [exact Bt | exact B].
Qed.

Lemma step_ok_spec pa sp h d0 o r d1 :
  book sp h -> fst (step_ok pa sp d0 o r d1) = true -> step_spec pa h d0 o r d1.
Proof.
  intros [Bt B] H. destruct o; cbn [step_spec]; try exact I.
  - cbn [step_ok fst] in H. apply andb_true_iff in H as [Hl Hv].
    destruct r as [| |l]; try discriminate. exists l. split; [reflexivity|].
    apply views_elim in Hv as [Hk He].
    unfold lost_ok in Hl. apply andb_true_iff in Hl as [Hl _]. apply andb_true_iff in Hl as [Hl _].
    rewrite forallb_forall in Hl.
    intros p Hp.
    assert (Hin : existsb (Z.eqb p) (map pfst l) = should_lose pa sp d0 p)
      by (apply eqb_prop, Hl, range_In, Hp).
    assert (Hsl : should_lose pa sp d0 p = true <-> kn d0 p = true /\ overdue_d pa h p).
    { unfold should_lose, overdue_d, lease_sp. destruct (B p) as [-> ->]. rewrite Bt.
      rewrite andb_true_iff, Z.ltb_lt. reflexivity. }
    split; [split|split].
    + intros Hi. apply Hsl. rewrite <- Hin. apply existsb_exists. exists p. split; [exact Hi|apply Z.eqb_refl].
    + intros Hi. apply Hsl in Hi. rewrite <- Hin in Hi. apply existsb_exists in Hi as [q [Hq E]].
      apply Z.eqb_eq in E; subst q. exact Hq.
    + rewrite (Hk p Hp). unfold inl. rewrite Hin. reflexivity.
    + intros k Hok Hpk. rewrite (He k Hok), Hpk. unfold inl. rewrite Hin. reflexivity.
  - cbn [step_ok fst] in H. apply andb_true_iff in H as [_ Hv].
    apply views_elim in Hv as [Hk He]. intros Hp. split.
    + rewrite (Hk p Hp), Z.eqb_refl. reflexivity.
    + intros k Hok Hpk. rewrite (He k Hok), Hpk, Z.eqb_refl. reflexivity.
Qed.

Lemma trace_ok_spec pa ops : forall sp h d0 tr,
  book sp h -> trace_ok pa sp d0 ops tr = true -> trace_spec pa h d0 ops tr.
Proof.
  induction ops as [|o ops IH]; intros sp h d0 tr B H; destruct tr as [|[r d1] tr];
    cbn in H |- *; try discriminate; [exact I|].
  destruct (step_ok pa sp d0 o r d1) as [b sp'] eqn:E.
  apply andb_true_iff in H as [Hb Ht]. split.
  - apply (step_ok_spec pa sp h d0 o r d1 B). rewrite E. exact Hb.
  - apply (IH sp' (o :: h) d1 tr); [|exact Ht].
    pose proof (book_step pa sp h d0 o r d1 B) as B'. rewrite E in B'. exact B'.
Qed.

Theorem oracle_sound pa ops tr :
  ok (pa, ops) (Some tr) = true -> trace_spec pa [] (digest_of pa init) ops tr.
Proof.
  unfold ok. intros H. apply andb_true_iff in H as [_ H]. cbn [fst snd] in H.
  apply (trace_ok_spec pa ops spec0 [] _ tr); [|exact H].
  split; [reflexivity|]. intros p. split; reflexivity.
Qed.

(* ------------------------------------------------------------------------------------------ *)
(* ------------------------------------------------------------------------------------------ *)
(* non-vacuity: concrete histories satisfying the hypotheses *)
Definition ex_pa : params := {| np := 3; ne := 2; nt := 2; self := 4; dflt := 257698037760; tol := 0 |}.
Definition SEC : Z := 1000000000.
Definition L15 : Z := 6442450944.   (* 1.5 s in ticks *)
Definition ex_alive : list op :=
  [Cleanup; Tick SEC; Alive 0; Cleanup; Tick SEC; Spdp 0 (Some L15); Cleanup; Tick SEC;
   Alive 0; Tick SEC; EpAdd (false, 0, 0) 1; Spdp 0 (Some L15)].

(* boolean checker for [fresh] *)
Fixpoint freshb (G p : Z) (h : list op) : bool :=
  match h with
  | [] => true
  | o :: h' => match last_sign (o :: h') p with Some t => clock (o :: h') - t <=? G | None => true end
               && freshb G p h'
  end.
Lemma freshb_fresh G p h : freshb G p h = true -> fresh G p h.
Proof.
  induction h as [|o h IH]; [intros; exact I|].
  intros H. change (freshb G p (o :: h)) with
    (match last_sign (o :: h) p with Some t => clock (o :: h) - t <=? G | None => true end && freshb G p h) in H.
  apply andb_true_iff in H as [H1 H2]. split; [|apply IH, H2].
  intros t E. rewrite E in H1. apply Z.leb_le, H1.
Qed.
Definition leasesb (pa : params) (L p : Z) (h : list op) : bool :=
  forallb (fun o => match o with Spdp q l => negb (q =? p) || (lease_of pa l =? L) | _ => true end) h.
Lemma leasesb_leases pa L p h : leasesb pa L p h = true -> leases pa L p h.
Proof.
  unfold leasesb, leases. rewrite forallb_forall. intros H l Hin. specialize (H _ Hin). cbn in H.
  rewrite Z.eqb_refl in H. cbn in H. apply Z.eqb_eq, H.
Qed.

Example ex_alive_hyps :
  wf ex_pa ex_alive /\ 0 <= SEC < TMAX /\ ticks_of_ns SEC <= L15 + tol ex_pa
  /\ leases ex_pa L15 0 ex_alive /\ fresh SEC 0 ex_alive
  /\ (exists l, In (Spdp 0 l) ex_alive) /\ ~ In (Dispose 0) ex_alive.
Proof.
  split; [split; vm_compute; reflexivity|].
  split; [split; vm_compute; congruence|].
  split; [vm_compute; congruence|].
  split; [apply leasesb_leases; vm_compute; reflexivity|].
  split; [apply freshb_fresh; vm_compute; reflexivity|].
  split.
  - exists (Some L15). apply in_or_app with (l := firstn 5 ex_alive) (m := skipn 5 ex_alive). right. left. reflexivity.
  - intros H. unfold ex_alive in H. repeat (destruct H as [E|H]; [discriminate E|]). exact H.
Qed.
Definition ex_silent : list op :=
  [Tick (2 * SEC); EpAdd (true, 0, 1) 0; EpAdd (false, 0, 0) 1; Spdp 0 (Some L15)].

Example ex_silent_reported : In 0 (reports ex_pa (after ex_pa ex_silent)).
Proof. vm_compute. left; reflexivity. Qed.

Example ex_reappear_endpoints :
  vact (after ex_pa (Spdp 0 None :: [Tick SEC; Spdp 1 None] ++ Cleanup :: ex_silent)) (false, 0, 0)
  = Some 1.
Proof. vm_compute. reflexivity. Qed.
