(* C05 — writer side: the DATAFRAGs of send_cache_change cover header ++ value exactly. *)
From Coq Require Import List ZArith Lia Bool.
From RD Require Import C05.Model C05.Lists.
Import ListNotations.
Open Scope Z_scope.

Lemma len_header sp : len (header sp) = 4.
Proof. reflexivity. Qed.
Lemma len_hv sp : len (hv sp) = payload_size sp.
Proof. unfold hv, payload_size. rewrite len_app, len_header. reflexivity. Qed.

(* bytes_slice is slicing of header ++ value, after its two clamps *)
Lemma bytes_slice_sub sp from to_before :
  0 <= from ->
  bytes_slice sp from to_before =
  sub (hv sp) (Z.min from (Z.min to_before (payload_size sp))) (Z.min to_before (payload_size sp)).
Proof.
  intros Hf. unfold bytes_slice, payload_size.
  replace (len (sp_value sp) + 4) with (4 + len (sp_value sp)) by lia.
  set (t := Z.min to_before (4 + len (sp_value sp))).
  set (f := Z.min from t).
  assert (Hft : f <= t) by (subst f; lia).
  assert (Hf0 : 0 <= f \/ t < 0) by (subst f; lia).
  assert (Ht : t <= 4 + len (sp_value sp)) by (subst t; lia).
  pose proof (len_nonneg (sp_value sp)) as Hv.
  destruct (Z.leb_spec 4 f) as [H4|H4].
  - unfold hv. rewrite sub_app_r by (rewrite len_header; lia). now rewrite len_header.
  - destruct Hf0 as [Hf0|Hneg].
    2:{ rewrite !sub_empty by lia. reflexivity. }
    destruct (Z.ltb_spec 4 t) as [Ht4|Ht4].
    + (* header ++ value[..t-4] = (header ++ value)[..t] *)
      assert (E : header sp ++ sub (sp_value sp) 0 (t - 4) = firstn (Z.to_nat t) (hv sp)).
      { unfold hv. rewrite firstn_app. unfold sub. cbn [Z.to_nat skipn].
        rewrite Z.sub_0_r.
        replace (firstn (Z.to_nat t) (header sp)) with (header sp)
          by (symmetry; apply firstn_all2; cbn; lia).
        f_equal. f_equal. cbn [header length]. lia. }
      rewrite E. apply sub_firstn. lia.
    + rewrite app_nil_r. unfold hv. symmetry. apply sub_app_l; [lia | rewrite len_header; lia].
Qed.

(* fragment count arithmetic *)
Lemma total_frags_bounds D fs :
  1 <= fs -> 0 <= D ->
  let n := total_frags D fs in (n - 1) * fs < D \/ (D = 0 /\ n = 0).
Proof.
  intros Hfs HD. unfold total_frags.
  destruct (Z.ltb_spec fs 1); [lia|].
  pose proof (Z.div_mod D fs ltac:(lia)) as E.
  pose proof (Z.mod_pos_bound D fs ltac:(lia)) as B.
  assert (0 <= D / fs) by (apply Z.div_pos; lia).
  destruct (Z.ltb_spec 0 (D mod fs)); [left; nia|].
  destruct (Z.eq_dec D 0) as [->|]; [right; rewrite Z.div_0_l by lia; lia|]. left. nia.
Qed.
Lemma total_frags_upper D fs :
  1 <= fs -> 0 <= D -> D <= total_frags D fs * fs.
Proof.
  intros Hfs HD. unfold total_frags.
  destruct (Z.ltb_spec fs 1); [lia|].
  pose proof (Z.div_mod D fs ltac:(lia)) as E.
  pose proof (Z.mod_pos_bound D fs ltac:(lia)) as B.
  destruct (Z.ltb_spec 0 (D mod fs)); nia.
Qed.
Lemma total_frags_lower D fs :
  1 <= fs -> 1 <= D -> (total_frags D fs - 1) * fs < D.
Proof. intros. destruct (total_frags_bounds D fs) as [|[? ?]]; lia. Qed.
Lemma total_frags_nonneg D fs : 0 <= D -> 0 <= total_frags D fs.
Proof.
  intros. unfold total_frags. destruct (Z.ltb_spec fs 1); [lia|].
  assert (0 <= D / fs) by (apply Z.div_pos; lia).
  destruct (0 <? D mod fs); lia.
Qed.
Lemma total_frags_pos D fs : 1 <= fs -> 1 <= D -> 1 <= total_frags D fs.
Proof.
  intros. pose proof (total_frags_upper D fs). assert (0 < total_frags D fs * fs) by lia. nia.
Qed.
(* the unique n with (n-1) fs < D <= n fs *)
Lemma total_frags_unique D fs n :
  1 <= fs -> 1 <= D -> (n - 1) * fs < D -> D <= n * fs -> n = total_frags D fs.
Proof.
  intros Hfs HD H1 H2.
  pose proof (total_frags_lower D fs Hfs HD). pose proof (total_frags_upper D fs Hfs ltac:(lia)).
  nia.
Qed.
(* a byte index and its fragment *)
Lemma frag_of_byte D fs i :
  1 <= fs -> 0 <= i < D -> 0 <= i / fs < total_frags D fs.
Proof.
  intros Hfs Hi.
  pose proof (Z.div_mod i fs ltac:(lia)). pose proof (Z.mod_pos_bound i fs ltac:(lia)).
  assert (0 <= i / fs) by (apply Z.div_pos; lia).
  pose proof (total_frags_upper D fs Hfs ltac:(lia)). split; [lia|]. nia.
Qed.
Lemma div_range i fs j : 1 <= fs -> (i / fs = j <-> j * fs <= i < (j + 1) * fs).
Proof.
  intros Hfs.
  pose proof (Z.div_mod i fs ltac:(lia)). pose proof (Z.mod_pos_bound i fs ltac:(lia)).
  split; intros; nia.
Qed.

(* The writer computes the same count (as u32 arithmetic, no truncation under the hypotheses) *)
Lemma num_frags_and_frag_size_ok dmax D :
  1 <= dmax <= 65535 -> 0 <= D < 2 ^ 32 ->
  num_frags_and_frag_size dmax D = Ok (total_frags D dmax, dmax).
Proof.
  intros Hd HD. unfold num_frags_and_frag_size, total_frags.
  rewrite (Z.mod_small dmax (2 ^ 32)) by lia.
  rewrite (Z.mod_small D (2 ^ 32)) by lia.
  rewrite (Z.mod_small dmax (2 ^ 16)) by lia.
  destruct (Z.eqb_spec dmax 0); [lia|].
  destruct (Z.ltb_spec dmax 1); [lia|].
  pose proof (Z.mod_pos_bound D dmax ltac:(lia)).
  destruct (Z.eqb_spec (D mod dmax) 0), (Z.ltb_spec 0 (D mod dmax)); try lia; reflexivity.
Qed.

(* payload of the fragment number k (1 <= k <= n) *)
Definition frag_lo (fs k : Z) : Z := (k - 1) * fs.
Definition frag_hi (D fs k : Z) : Z := Z.min (k * fs) D.

Lemma data_frag_msg_payload sp sn k fs :
  1 <= fs -> 1 <= k -> (k - 1) * fs < payload_size sp ->
  df_payload (data_frag_msg sp sn k fs (payload_size sp)) =
  sub (hv sp) (frag_lo fs k) (frag_hi (payload_size sp) fs k).
Proof.
  intros Hfs Hk Hlt. cbn [data_frag_msg df_payload].
  rewrite bytes_slice_sub by nia.
  unfold frag_lo, frag_hi. f_equal; lia.
Qed.

Lemma len_frag_payload sp sn k fs :
  1 <= fs -> 1 <= k -> (k - 1) * fs < payload_size sp ->
  len (df_payload (data_frag_msg sp sn k fs (payload_size sp))) =
  Z.min (k * fs) (payload_size sp) - (k - 1) * fs.
Proof.
  intros. rewrite data_frag_msg_payload by assumption.
  unfold frag_lo, frag_hi. rewrite len_sub; [reflexivity | nia | rewrite len_hv; lia].
Qed.

(* concatenation of the first m fragments = the first min(m fs, D) bytes *)
Lemma concat_frags sp sn fs (m : nat) :
  1 <= fs -> (Z.of_nat m - 1) * fs < payload_size sp \/ m = O ->
  concat (map (fun k => df_payload (data_frag_msg sp sn k fs (payload_size sp))) (iota 1 m)) =
  firstn (Z.to_nat (Z.min (Z.of_nat m * fs) (payload_size sp))) (hv sp).
Proof.
  intros Hfs. induction m as [|m IH]; intros Hm.
  - cbn [iota map concat]. change (Z.of_nat 0) with 0. rewrite Z.mul_0_l.
    replace (Z.min 0 (payload_size sp)) with 0 by (unfold payload_size; pose proof (len_nonneg (sp_value sp)); lia).
    reflexivity.
  - destruct Hm as [Hm|Hm]; [|discriminate].
    rewrite iota_snoc, map_app, concat_app. cbn [map concat]. rewrite app_nil_r.
    rewrite IH.
    2:{ destruct m; [right; reflexivity | left; nia]. }
    rewrite data_frag_msg_payload by lia.
    unfold frag_lo, frag_hi.
    replace (1 + Z.of_nat m - 1) with (Z.of_nat m) by lia.
    replace (Z.min (Z.of_nat m * fs) (payload_size sp)) with (Z.of_nat m * fs) by nia.
    replace (Z.of_nat (S m)) with (1 + Z.of_nat m) by lia.
    apply firstn_sub. nia.
Qed.

Definition mk_frags (sp : spayload) (sn fs : Z) : list datafrag :=
  map (fun k => data_frag_msg sp sn k fs (payload_size sp))
      (iota 1 (Z.to_nat (nfrags sp fs))).

Lemma send_cache_change_small dmax sp sn :
  payload_size sp <= dmax -> send_cache_change dmax sp sn = Ok (Some (pad4 (hv sp)), []).
Proof.
  intros H. unfold send_cache_change. destruct (Z.leb_spec (payload_size sp) dmax); [reflexivity|lia].
Qed.

Lemma send_cache_change_frags dmax sp sn :
  1 <= dmax <= 65535 -> dmax < payload_size sp < 2 ^ 32 ->
  send_cache_change dmax sp sn = Ok (None, mk_frags sp sn dmax).
Proof.
  intros Hd HD. unfold send_cache_change.
  destruct (Z.leb_spec (payload_size sp) dmax); [lia|].
  rewrite num_frags_and_frag_size_ok by lia. cbn [bind fst snd].
  destruct (Z.ltb_spec (payload_size sp) (2 ^ 32)); [|lia]. reflexivity.
Qed.

Lemma concat_mk_frags sp sn fs :
  1 <= fs -> 1 <= payload_size sp ->
  concat (map df_payload (mk_frags sp sn fs)) = hv sp.
Proof.
  intros Hfs HD. unfold mk_frags. rewrite map_map.
  pose proof (total_frags_lower (payload_size sp) fs Hfs HD) as L.
  pose proof (total_frags_upper (payload_size sp) fs Hfs ltac:(lia)) as U.
  pose proof (total_frags_nonneg (payload_size sp) fs ltac:(lia)) as N.
  unfold nfrags. rewrite concat_frags; [|assumption|left; rewrite Z2Nat.id by lia; lia].
  rewrite Z2Nat.id by lia.
  replace (Z.min _ _) with (payload_size sp) by lia.
  rewrite <- len_hv. unfold len. rewrite Nat2Z.id. apply firstn_all.
Qed.

Lemma len_mk_frags sp sn fs : 0 <= payload_size sp -> len (mk_frags sp sn fs) = nfrags sp fs.
Proof.
  intros. unfold mk_frags, nfrags. rewrite len_map. unfold len. rewrite iota_length.
  apply Z2Nat.id. apply total_frags_nonneg. assumption.
Qed.

Lemma payload_size_pos sp : 4 <= payload_size sp.
Proof. unfold payload_size. pose proof (len_nonneg (sp_value sp)). lia. Qed.

Lemma znth_mk_frags sp sn fs i :
  0 <= i < nfrags sp fs ->
  znth i (mk_frags sp sn fs) (data_frag_msg sp sn 0 fs 0) = data_frag_msg sp sn (i + 1) fs (payload_size sp).
Proof.
  intros Hi. unfold mk_frags, znth.
  set (f := fun k => data_frag_msg sp sn k fs (payload_size sp)).
  rewrite (nth_indep _ _ (f 0)) by (rewrite map_length, iota_length; lia).
  rewrite map_nth. rewrite iota_nth by lia. subst f. cbn beta. f_equal. lia.
Qed.

(* Prop form of what the writer puts on the wire for a sample larger than the fragment size *)
Definition split_spec (sn fs : Z) (sp : spayload) (frags : list datafrag) : Prop :=
  concat (map df_payload frags) = hv sp
  /\ len frags = nfrags sp fs
  /\ forall i, 0 <= i < len frags ->
       let d := znth i frags (data_frag_msg sp sn 0 fs 0) in
       df_sn d = sn /\ df_start d = i + 1 /\ df_count d = 1
       /\ df_data_size d = payload_size sp /\ df_frag_size d = fs
       /\ (i + 1 < len frags -> len (df_payload d) = fs)
       /\ (i + 1 = len frags -> 1 <= len (df_payload d) <= fs).

Lemma mk_frags_spec sp sn fs :
  1 <= fs -> split_spec sn fs sp (mk_frags sp sn fs).
Proof.
  intros Hfs. pose proof (payload_size_pos sp) as HD.
  pose proof (total_frags_lower (payload_size sp) fs Hfs ltac:(lia)) as L.
  pose proof (total_frags_upper (payload_size sp) fs Hfs ltac:(lia)) as U.
  split; [apply concat_mk_frags; lia|].
  split; [apply len_mk_frags; lia|].
  rewrite len_mk_frags by lia. intros i Hi d. subst d.
  rewrite znth_mk_frags by assumption.
  cbn [data_frag_msg df_sn df_start df_count df_data_size df_frag_size].
  repeat split; try reflexivity.
  - intros Hlt. change (bytes_slice sp ((i + 1 - 1) * fs) (Z.min ((i + 1) * fs) (payload_size sp)))
      with (df_payload (data_frag_msg sp sn (i + 1) fs (payload_size sp))).
    unfold nfrags in *. rewrite len_frag_payload by nia. nia.
  - change (bytes_slice sp ((i + 1 - 1) * fs) (Z.min ((i + 1) * fs) (payload_size sp)))
      with (df_payload (data_frag_msg sp sn (i + 1) fs (payload_size sp))).
    unfold nfrags in *. rewrite len_frag_payload by nia. nia.
  - change (bytes_slice sp ((i + 1 - 1) * fs) (Z.min ((i + 1) * fs) (payload_size sp)))
      with (df_payload (data_frag_msg sp sn (i + 1) fs (payload_size sp))).
    unfold nfrags in *. rewrite len_frag_payload by nia. nia.
Qed.

(* C05_split_covers *)
Theorem split_covers : forall dmax sn sp,
  1 <= dmax <= 65535 -> dmax < payload_size sp < 2 ^ 32 ->
  send_cache_change dmax sp sn = Ok (None, mk_frags sp sn dmax)
  /\ split_spec sn dmax sp (mk_frags sp sn dmax).
Proof.
  intros. split; [now apply send_cache_change_frags | apply mk_frags_spec; lia].
Qed.
