(* C05 — reassembly: for one sample (w, sn) of an honest writer, under arbitrary interleaving
   with duplicates, garbage collection and arbitrary (even hostile) traffic for other samples and
   writers, the repaired assembler refines the abstract per-sample specification [kstep]. *)
From Coq Require Import List ZArith Lia Bool.
From RD Require Import C05.Model C05.Lists C05.Split C05.Asm.
Import ListNotations.
Open Scope Z_scope.

Lemma covers_spec n S : covers n S = true <-> forall k, 1 <= k <= n -> memz k S = true.
Proof.
  unfold covers. rewrite forallb_forall. split.
  - intros H k Hk. apply H. apply in_iota. lia.
  - intros H k Hk. apply in_iota in Hk. apply H. lia.
Qed.

Lemma krun_snoc n es : forall t s e,
  krun n t s (es ++ [e]) = kstep n (t + len es) (krun n t s es) e.
Proof.
  induction es as [|e' es IH]; intros t s e; cbn [app krun].
  - rewrite len_nil, Z.add_0_r. reflexivity.
  - rewrite IH, len_cons. f_equal. lia.
Qed.

Lemma memz_app x S T : memz x (S ++ T) = memz x S || memz x T.
Proof. unfold memz. apply existsb_app. Qed.

Lemma memz_iota x a c : memz x (iota a c) = (a <=? x) && (x <? a + Z.of_nat c).
Proof.
  apply eq_true_iff_eq. rewrite memz_true, in_iota, andb_true_iff, Z.leb_le, Z.ltb_lt. tauto.
Qed.

Lemma memz_frag_nums x k c : 0 <= c -> memz x (frag_nums k c) = (k <=? x) && (x <? k + c).
Proof. intros Hc. unfold frag_nums. rewrite memz_iota, Z2Nat.id by lia. reflexivity. Qed.

(* one fragment per DATAFRAG is the case c = 1 *)
Lemma frag_nums_1 k : frag_nums k 1 = [k].
Proof. reflexivity. Qed.

Lemma data_frag_msg_frags sp sn k fs D : data_frag_msg sp sn k fs D = data_frags_msg sp sn k 1 fs D.
Proof. unfold data_frag_msg, data_frags_msg. now replace (k - 1 + 1) with k by lia. Qed.

Lemma frag_nums_app_ne k c S : 1 <= c -> frag_nums k c ++ S <> [].
Proof.
  intros Hc. unfold frag_nums. destruct (Z.to_nat c) eqn:E; [lia|]. cbn. discriminate.
Qed.

Section Key.
  Variables (w sn fs : Z) (sp : spayload).
  Let D := payload_size sp.
  Let n := total_frags D fs.
  Hypothesis Hfs : 1 <= fs <= 65535.
  Hypothesis HD : fs < D < 2 ^ 32.

  (* the DATAFRAG that carries fragments k .. k+c-1 of this sample; c = 1: what the writer emits
     for fragment k (Split.split_covers) *)
  Definition mk (k c : Z) : datafrag := data_frags_msg sp sn k c fs D.
  Definition span_ok (k c : Z) : Prop := 1 <= k /\ 1 <= c <= 65535 /\ k - 1 + c <= n.

  Let Hn_lo : (n - 1) * fs < D.
  Proof. apply total_frags_lower; lia. Qed.
  Let Hn_hi : D <= n * fs.
  Proof. apply total_frags_upper; lia. Qed.
  Let Hn_pos : 1 <= n.
  Proof. apply total_frags_pos; lia. Qed.
  Let Hn_le : n <= D.
  Proof. nia. Qed.

  Lemma mk_payload k c : span_ok k c ->
    df_payload (mk k c) = sub (hv sp) ((k - 1) * fs) (Z.min ((k - 1 + c) * fs) D)
    /\ len (df_payload (mk k c)) = Z.min ((k - 1 + c) * fs) D - (k - 1) * fs.
  Proof.
    intros (Hk & Hc & Hs).
    assert (H0 : 0 <= (k - 1) * fs) by nia.
    assert (H1 : (k - 1) * fs < D) by nia.
    assert (H2 : (k - 1) * fs < (k - 1 + c) * fs) by nia.
    assert (E : df_payload (mk k c) = sub (hv sp) ((k - 1) * fs) (Z.min ((k - 1 + c) * fs) D)).
    { unfold mk. cbn [data_frags_msg df_payload]. rewrite bytes_slice_sub by assumption.
      fold D. f_equal; lia. }
    split; [exact E|]. rewrite E. rewrite len_sub; [reflexivity | lia | rewrite len_hv; fold D; lia].
  Qed.

  Lemma mk_ok k c : span_ok k c -> df_ok (mk k c).
  Proof.
    intros Hs. destruct (mk_payload k c Hs) as (_ & PL). destruct Hs as (Hk & Hc & Hs).
    unfold df_ok. rewrite PL. unfold mk.
    cbn [data_frags_msg df_start df_count df_data_size df_frag_size].
    repeat split; try lia; nia.
  Qed.

  (* assembly buffer of the sample vs the set S of fragment numbers received in this attempt *)
  Definition ab_rel (ab : abuf) (S : list Z) : Prop :=
    len (ab_bytes ab) = D /\ ab_count ab = n /\ len (ab_bitmap ab) = n
    /\ (forall j, 0 <= j < n -> znth j (ab_bitmap ab) false = memz (j + 1) S)
    /\ (forall i, 0 <= i < D -> memz (i / fs + 1) S = true ->
                  znth i (ab_bytes ab) 0 = znth i (hv sp) 0).

  Lemma ab_rel_inv ab S : ab_rel ab S -> ab_inv fs ab.
  Proof.
    intros (A & B & C & _). unfold ab_inv. rewrite A, B, C. repeat split; try lia; try reflexivity.
  Qed.

  Lemma ab_rel_new now :
    ab_rel {| ab_bytes := repeat 0 (Z.to_nat D); ab_count := n;
              ab_bitmap := repeat false (Z.to_nat n); ab_mtime := now |} [].
  Proof.
    unfold ab_rel. cbn [ab_bytes ab_count ab_bitmap]. rewrite !len_repeat.
    rewrite !Z2Nat.id by lia. repeat split; try reflexivity.
    - intros j Hj. apply znth_repeat.
    - intros i Hi H. discriminate.
  Qed.

  Lemma znth_splice (buf src : bytes) from to i :
    0 <= from <= to -> to <= len buf -> len src = to - from -> 0 <= i ->
    znth i (firstn (Z.to_nat from) buf ++ src ++ skipn (Z.to_nat to) buf) 0 =
    if (from <=? i) && (i <? to) then znth (i - from) src 0 else znth i buf 0.
  Proof.
    intros Hft Hto Hsrc Hi.
    destruct (Z.leb_spec from i) as [H1|H1]; cbn [andb].
    - rewrite znth_app_r by (rewrite len_firstn by lia; lia). rewrite len_firstn by lia.
      destruct (Z.ltb_spec i to) as [H2|H2].
      + apply znth_app_l. lia.
      + rewrite znth_app_r by lia. rewrite Hsrc. rewrite znth_skipn by lia. f_equal. lia.
    - rewrite znth_app_l by (rewrite len_firstn by lia; lia). apply znth_firstn. lia.
  Qed.

  (* inserting fragments k .. k+c-1 carried by one DATAFRAG: the payload is copied to the byte
     range (k-1)*fs .. min((k-1+c)*fs, D) and the bits k-1 .. k+c-2 are set *)
  Lemma insert_key ab S k c now :
    ab_rel ab S -> span_ok k c ->
    exists ab', insert_frags ab (mk k c) fs now = Ok ab'
                /\ ab_rel ab' (frag_nums k c ++ S) /\ ab_mtime ab' = now.
  Proof.
    intros Hrel Hsp. pose proof (ab_rel_inv ab S Hrel) as Hinv.
    destruct Hrel as (LB & CN & LM & BM & BY).
    destruct (mk_payload k c Hsp) as (PE & PL).
    pose proof (mk_ok k c Hsp) as Hok.
    destruct Hsp as (Hk & Hc & Hs).
    assert (Hto : ins_to (mk k c) fs (len (ab_bytes ab)) = Z.min ((k - 1 + c) * fs) D).
    { unfold ins_to, mk. cbn [data_frags_msg df_start df_count]. rewrite LB. reflexivity. }
    assert (Hfrom : ins_from (mk k c) fs = (k - 1) * fs) by reflexivity.
    destruct (insert_frags_valid ab (mk k c) fs now Hinv Hok) as (bm & Eb & Ei & Hr & Hf0).
    { cbn; lia. } { cbn; lia. } { cbn [mk data_frags_msg df_start df_count]. lia. }
    { rewrite Hto, Hfrom, PL. lia. }
    rewrite Hto, Hfrom in *.
    eexists. split; [exact Ei|]. split; [|reflexivity].
    assert (Esrc : firstn (Z.to_nat (Z.min ((k - 1 + c) * fs) D - (k - 1) * fs)) (df_payload (mk k c))
                   = df_payload (mk k c)).
    { apply firstn_all2. unfold len in PL. lia. }
    rewrite Esrc.
    destruct (set_bits_ok (Z.to_nat (df_count (mk k c))) (ab_bitmap ab) (df_start (mk k c) - 1))
      as (bm' & Eb' & Lb' & Nb').
    { cbn; lia. } { cbn [mk data_frags_msg df_start df_count]. lia. }
    rewrite Eb in Eb'. inversion Eb'; subst bm'. clear Eb'.
    unfold ab_rel. cbn [ab_bytes ab_count ab_bitmap].
    split; [rewrite insert_bytes_len; [assumption | lia | lia | lia]|].
    split; [assumption|]. split; [lia|]. split.
    - intros j Hj. rewrite Nb' by lia. cbn [mk data_frags_msg df_start df_count].
      rewrite memz_app, memz_frag_nums by lia. rewrite BM by assumption.
      rewrite Z2Nat.id by lia.
      destruct (Z.leb_spec (k - 1) j), (Z.ltb_spec j (k - 1 + c)),
               (Z.leb_spec k (j + 1)), (Z.ltb_spec (j + 1) (k + c));
        cbn; try reflexivity; lia.
    - intros i Hi Hm. rewrite znth_splice by lia.
      rewrite memz_app, memz_frag_nums in Hm by lia.
      pose proof (proj1 (div_range i fs (i / fs) ltac:(lia)) eq_refl) as Hq.
      destruct (Z.leb_spec ((k - 1) * fs) i) as [H1|H1],
               (Z.ltb_spec i (Z.min ((k - 1 + c) * fs) D)) as [H2|H2]; cbn [andb].
      + rewrite PE. rewrite znth_sub by lia. f_equal. lia.
      + assert (Hout : (k <=? i / fs + 1) && (i / fs + 1 <? k + c) = false).
        { destruct (Z.leb_spec k (i / fs + 1)), (Z.ltb_spec (i / fs + 1) (k + c)); cbn; try reflexivity.
          exfalso. nia. }
        rewrite Hout in Hm. cbn in Hm. now apply BY.
      + assert (Hout : (k <=? i / fs + 1) && (i / fs + 1 <? k + c) = false).
        { destruct (Z.leb_spec k (i / fs + 1)), (Z.ltb_spec (i / fs + 1) (k + c)); cbn; try reflexivity.
          exfalso. nia. }
        rewrite Hout in Hm. cbn in Hm. now apply BY.
      + lia.
  Qed.

  Lemma complete_iff ab S : ab_rel ab S -> is_complete ab = covers n S.
  Proof.
    intros (LB & CN & LM & BM & BY).
    apply eq_true_iff_eq. unfold is_complete. rewrite is_complete_all, covers_spec, LM. split.
    - intros H k Hk. specialize (H (k - 1) ltac:(lia)). rewrite BM in H by lia.
      now replace (k - 1 + 1) with k in H by lia.
    - intros H j Hj. rewrite BM by lia. apply H. lia.
  Qed.

  Lemma complete_bytes ab S : ab_rel ab S -> covers n S = true -> ab_bytes ab = hv sp.
  Proof.
    intros (LB & CN & LM & BM & BY) Hc. rewrite covers_spec in Hc.
    apply (list_ext_znth _ _ 0); [rewrite LB, len_hv; reflexivity|].
    intros i Hi. rewrite LB in Hi. apply BY; [assumption|].
    apply Hc. pose proof (frag_of_byte D fs i ltac:(lia) Hi). fold n in H. lia.
  Qed.

  Lemma missing_key ab S : ab_rel ab S ->
    filter (fun k => negb (znth (k - 1) (ab_bitmap ab) true)) (iota 1 (Z.to_nat (ab_count ab)))
    = missing_of n S.
  Proof.
    intros (LB & CN & LM & BM & BY). unfold missing_of. rewrite CN.
    apply filter_ext_in. intros k Hk. apply in_iota in Hk.
    f_equal. unfold znth. rewrite (nth_indep _ true false) by (unfold len in LM; lia).
    fold (znth (k - 1) (ab_bitmap ab) false). rewrite BM by lia. f_equal. lia.
  Qed.

  (* new_datafrag on the DATAFRAG carrying fragments k .. k+c-1 of this sample *)
  Lemma new_datafrag_key fa S k c now :
    fa_inv fa -> fa_fs fa = fs ->
    match alookup sn (fa_bufs fa) with Some ab => ab_rel ab S | None => S = [] end ->
    span_ok k c ->
    exists fa' r, new_datafrag fa (mk k c) now = Ok (fa', r) /\ fa_fs fa' = fs
      /\ if covers n (frag_nums k c ++ S)
         then r = Some (hv sp) /\ alookup sn (fa_bufs fa') = None
         else r = None /\ exists ab', alookup sn (fa_bufs fa') = Some ab'
                                      /\ ab_rel ab' (frag_nums k c ++ S) /\ ab_mtime ab' = now.
  Proof.
    intros Hinv Hfa Hbuf Hsp.
    destruct (mk_payload k c Hsp) as (PE & PL).
    pose proof Hsp as (Hk & Hc & Hs).
    assert (V : validate_datafrag fa (mk k c) = true).
    { apply validate_spec. unfold ins_to, ins_from. rewrite PL. unfold mk.
      cbn [data_frags_msg df_sn df_start df_count df_data_size df_frag_size].
      fold n.
      repeat split; try lia.
      destruct (alookup sn (fa_bufs fa)) as [ab|]; [|exact I]. now destruct Hbuf. }
    unfold new_datafrag. rewrite V. unfold assemble.
    change (df_sn (mk k c)) with sn.
    assert (exists ab0,
      match alookup sn (fa_bufs fa) with Some ab => Ok ab | None => abuf_new (mk k c) now end = Ok ab0
      /\ ab_rel ab0 S) as (ab0 & E0 & R0).
    { destruct (alookup sn (fa_bufs fa)) as [ab|].
      - exists ab. split; [reflexivity|assumption].
      - subst S. destruct (abuf_new_ok (mk k c) now (mk_ok k c Hsp)) as (E & _).
        { cbn [mk data_frags_msg df_frag_size df_data_size]. lia. }
        eexists. split; [exact E|]. apply ab_rel_new. }
    rewrite E0. cbn [bind]. rewrite Hfa.
    destruct (insert_key ab0 S k c now R0 Hsp) as (ab' & Ei & R' & M').
    rewrite Ei. cbn [bind].
    rewrite (complete_iff ab' (frag_nums k c ++ S) R').
    destruct (covers n (frag_nums k c ++ S)) eqn:C.
    - eexists _, _. split; [reflexivity|]. split; [reflexivity|]. cbn [fa_bufs].
      split; [|apply alookup_aremove_eq].
      rewrite (complete_bytes ab' (frag_nums k c ++ S) R' C).
      destruct (Z.leb_spec 4 (len (hv sp))); [reflexivity|].
      rewrite len_hv in *. pose proof (payload_size_pos sp). lia.
    - eexists _, _. split; [reflexivity|]. split; [reflexivity|]. cbn [fa_bufs].
      split; [reflexivity|]. exists ab'. split; [apply alookup_ainsert_eq|]. split; assumption.
  Qed.

  (* ---- the sample's view of the reader state ---- *)
  Definition R (st : rstate) (ks : kstate) : Prop :=
    match fs_at st w with None => True | Some f => f = fs end
    /\ match buf_at st w sn with
       | None => fst ks = []
       | Some ab => fst ks <> [] /\ covers n (fst ks) = false /\ ab_mtime ab = snd ks
                    /\ ab_rel ab (fst ks)
       end.

  Definition kev_of_op (o : op) : kev :=
    match o with
    | OFrag w' df => if (w' =? w) && (df_sn df =? sn) then KFrag (df_start df) (df_count df) else KNone
    | OGc w' t => if w' =? w then KGc t else KNone
    end.

  (* honest-writer hypotheses, for this sample only: every DATAFRAG that claims to come from
     writer w carries w's fragment size, and those that carry sequence number sn carry c >= 1
     consecutive fragments k .. k+c-1 of the sample (c = 1: as RustDDS' writer emits them; c > 1:
     as other vendors' writers may).  Nothing is assumed about other writers, and about
     other samples of w only the fragment size. *)
  Definition op_honest (o : op) : Prop :=
    match o with
    | OFrag w' df => w' = w -> df_frag_size df = fs
                               /\ (df_sn df = sn -> exists k c, span_ok k c /\ df = mk k c)
    | OGc _ _ => True
    end.

  (* what the arrival of fragments k .. k+c-1 must produce when S = fst ks has been received so far *)
  Definition expected (ks : kstate) (k c : Z) : aout :=
    if covers n (frag_nums k c ++ fst ks) then AOut (Some (hv sp)) []
    else AOut None (missing_of n (frag_nums k c ++ fst ks)).

  Lemma R_nil : R [] k0.
  Proof. unfold R, fs_at, buf_at. cbn. split; [exact I|reflexivity]. Qed.

  Lemma step_key now st ks o :
    rinv st -> R st ks -> op_ok o -> op_honest o ->
    exists st' out, step new_datafrag now st o = Ok (st', out) /\ rinv st'
      /\ R st' (kstep n now ks (kev_of_op o))
      /\ (forall k c, kev_of_op o = KFrag k c -> out = expected ks k c).
  Proof.
    intros Hinv (Rfs & Rbuf) Hok Hh.
    destruct (step_ok now st o Hinv Hok) as (st' & out & E & Hinv' & _ & _).
    exists st', out. split; [exact E|]. split; [exact Hinv'|].
    destruct o as [w' df|w' t]; cbn [kev_of_op].
    - (* DATAFRAG *)
      destruct (Z.eqb_spec w' w) as [->|Nw]; cbn [andb].
      + destruct (Hh eq_refl) as (Hdfs & Hsn).
        destruct (Z.eqb_spec (df_sn df) sn) as [Esn|Nsn].
        * (* a fragment of this sample *)
          destruct (Hsn Esn) as (k & c & Hk & ->). clear Hsn.
          cbn [step] in E. fold (fa_of st w (mk k c)) in E.
          assert (Hfa : fa_fs (fa_of st w (mk k c)) = fs).
          { unfold fa_of, fs_at in *. destruct (alookup w st); [assumption|reflexivity]. }
          assert (Hb : match alookup sn (fa_bufs (fa_of st w (mk k c))) with
                       | Some ab => ab_rel ab (fst ks) | None => fst ks = [] end).
          { unfold fa_of, buf_at in *. destruct (alookup w st) as [fa|]; [|exact Rbuf].
            destruct (alookup sn (fa_bufs fa)); [tauto|assumption]. }
          destruct (new_datafrag_key (fa_of st w (mk k c)) (fst ks) k c now
                      (fa_of_inv st w (mk k c) Hinv Hok) Hfa Hb Hk) as (fa' & r & En & Hfs' & Hres).
          rewrite En in E. cbn [bind fst snd] in E. inversion E; subst st' out. clear E.
          change (df_start (mk k c)) with k. change (df_count (mk k c)) with c.
          change (df_sn (mk k c)) with sn.
          unfold R, fs_at, buf_at, expected, kstep. rewrite alookup_ainsert_eq.
          destruct (covers n (frag_nums k c ++ fst ks)) eqn:C.
          -- destruct Hres as (-> & Hl). cbn [fst snd]. rewrite Hl.
             split; [split; [assumption|reflexivity]|].
             intros k' c' [= <- <-]. rewrite C. unfold missing_frags_for. rewrite Hl. reflexivity.
          -- destruct Hres as (-> & ab' & Hl & Hrel & Hm). cbn [fst snd]. rewrite Hl.
             split; [split; [assumption|]|].
             ++ split; [apply frag_nums_app_ne; apply Hk|]. split; [assumption|]. split; assumption.
             ++ intros k' c' [= <- <-]. rewrite C. unfold missing_frags_for. rewrite Hl.
                now rewrite (missing_key ab' (frag_nums k c ++ fst ks) Hrel).
        * (* another sample of the same writer *)
          split; [|intros k c; discriminate]. cbn [kstep]. unfold R.
          rewrite (step_frame_fs new_datafrag now st w df st' out w nd_frame_new E).
          rewrite (step_frame new_datafrag now st w df st' out w sn nd_frame_new E) by congruence.
          split; [|exact Rbuf].
          destruct (fs_at st w); [assumption|]. now rewrite Z.eqb_refl.
      + (* another writer *)
        split; [|intros k c; discriminate]. cbn [kstep]. unfold R.
        rewrite (step_frame_fs new_datafrag now st w' df st' out w nd_frame_new E).
        rewrite (step_frame new_datafrag now st w' df st' out w sn nd_frame_new E) by congruence.
        split; [|exact Rbuf].
        destruct (fs_at st w); [assumption|]. destruct (Z.eqb_spec w w'); [congruence|exact I].
    - (* garbage collection *)
      destruct (Z.eqb_spec w' w) as [->|Nw].
      + split; [|intros k c; discriminate].
        cbn [step] in E. unfold R, fs_at, buf_at in *.
        destruct (alookup w st) as [fa|] eqn:El.
        * inversion E; subst st' out. clear E. rewrite alookup_ainsert_eq.
          cbn [garbage_collect_before fa_fs fa_bufs]. split; [assumption|].
          pose proof (rinv_lookup st w fa Hinv El) as (_ & Hnd & _).
          rewrite alookup_filter by assumption. cbn [kstep snd].
          destruct (alookup sn (fa_bufs fa)) as [ab|].
          -- destruct Rbuf as (Hne & Hc & Hm & Hrel).
             destruct (fst ks) as [|x S] eqn:ES; [congruence|]. rewrite Hm.
             destruct (Z.leb_spec t (snd ks)), (Z.ltb_spec (snd ks) t); try lia.
             ++ rewrite ES. split; [discriminate|]. split; [assumption|]. split; assumption.
             ++ reflexivity.
          -- rewrite Rbuf. assumption.
        * inversion E; subst st' out. rewrite El. split; [exact I|].
          cbn [kstep]. rewrite Rbuf. assumption.
      + split; [|intros k c; discriminate]. cbn [kstep]. unfold R.
        rewrite (step_gc_frame new_datafrag now st w' t st' out w sn E) by congruence.
        split; [|exact Rbuf].
        cbn [step] in E. unfold fs_at in *.
        destruct (alookup w' st); inversion E; subst; [|assumption].
        now rewrite alookup_ainsert_neq by congruence.
  Qed.

  (* ---- run level ---- *)
  Lemma run_key pre : forall now st ks o post k c,
    rinv st -> R st ks ->
    Forall op_ok (pre ++ o :: post) -> Forall op_honest (pre ++ o :: post) ->
    kev_of_op o = KFrag k c ->
    nth (length pre) (run_ops new_datafrag now st (pre ++ o :: post)) APanic
    = expected (krun n now ks (map kev_of_op pre)) k c.
  Proof.
    induction pre as [|p pre IH]; intros now st ks o post k c Hinv HR Fok Fh Hk; cbn [app] in *.
    - inversion Fok as [|? ? Ho _]; inversion Fh as [|? ? Hh _]; subst.
      destruct (step_key now st ks o Hinv HR Ho Hh) as (st' & out & E & _ & _ & Hout).
      cbn [run_ops length nth map krun]. rewrite E. cbn [nth]. now apply Hout.
    - inversion Fok as [|? ? Ho Fok']; inversion Fh as [|? ? Hh Fh']; subst.
      destruct (step_key now st ks p Hinv HR Ho Hh) as (st' & out & E & Hinv' & HR' & _).
      cbn [run_ops length nth map krun]. rewrite E. cbn [nth]. now apply IH.
  Qed.
End Key.

(* ---------------------------------------------------------------------------------------- *)
(* Whole honest runs: every arrival is a fragment the writer model emits (or a GC event). *)
Section Honest.
  Variable ws : wtable.

  Definition key_ok (w sn : Z) (sp : spayload) : Prop :=
    sample_of ws w sn = Some sp
    /\ 1 <= fs_of ws w <= 65535 /\ fs_of ws w < payload_size sp < 2 ^ 32.

  Lemma frags_okb_key w sn k c :
    frags_okb_arr ws w sn k c = true ->
    exists sp, key_ok w sn sp /\ span_ok (fs_of ws w) sp k c.
  Proof.
    unfold frags_okb_arr. destruct (sample_of ws w sn) as [sp|] eqn:E; [|discriminate].
    rewrite !andb_true_iff, !Z.leb_le, !Z.ltb_lt. intros H. exists sp.
    unfold key_ok, span_ok, nfrags in *. tauto.
  Qed.

  Lemma sp_of_key w sn sp : key_ok w sn sp -> sp_of ws w sn = sp.
  Proof. intros (E & _). unfold sp_of. now rewrite E. Qed.

  (* a single-fragment arrival is the multi-fragment arrival with count 1 *)
  Definition norm (a : arrival) : arrival :=
    match a with AFrag w sn k => AFrags w sn k 1 | _ => a end.
  Lemma to_op_norm a : to_op ws a = to_op ws (norm a).
  Proof. destruct a; [|reflexivity|reflexivity]. cbn [to_op norm]. now rewrite data_frag_msg_frags. Qed.
  Lemma arrival_okb_norm a : arrival_okb ws a = arrival_okb ws (norm a).
  Proof. destruct a; reflexivity. Qed.
  Lemma kev_of_arrival_norm w sn a : kev_of_arrival w sn a = kev_of_arrival w sn (norm a).
  Proof. destruct a; reflexivity. Qed.
  Lemma spec_at_norm pre a : spec_at ws pre a = spec_at ws pre (norm a).
  Proof. destruct a; reflexivity. Qed.

  Lemma kev_to_op w sn a : kev_of_op w sn (to_op ws a) = kev_of_arrival w sn a.
  Proof. destruct a; reflexivity. Qed.

  Lemma to_op_ok a : arrival_okb ws a = true -> op_ok (to_op ws a).
  Proof.
    rewrite to_op_norm, arrival_okb_norm.
    destruct (norm a) as [w sn k|w sn k c|w t]; [discriminate 1 || idtac| |exact (fun _ => I)].
    - cbn [arrival_okb]. intros H.
      destruct (frags_okb_key w sn k 1 H) as (sp & K & Hk). pose proof K as (E & Hfs & HD).
      cbn [to_op op_ok]. rewrite (sp_of_key w sn sp K), data_frag_msg_frags.
      apply (mk_ok sn (fs_of ws w) sp Hfs HD k 1). exact Hk.
    - cbn [arrival_okb]. intros H.
      destruct (frags_okb_key w sn k c H) as (sp & K & Hk). pose proof K as (E & Hfs & HD).
      cbn [to_op op_ok]. rewrite (sp_of_key w sn sp K).
      apply (mk_ok sn (fs_of ws w) sp Hfs HD k c). exact Hk.
  Qed.

  Lemma to_op_honest w sn sp a :
    key_ok w sn sp -> arrival_okb ws a = true -> op_honest w sn (fs_of ws w) sp (to_op ws a).
  Proof.
    intros K. rewrite to_op_norm, arrival_okb_norm.
    assert (G : forall w' sn' k c, frags_okb_arr ws w' sn' k c = true ->
                op_honest w sn (fs_of ws w) sp (to_op ws (AFrags w' sn' k c))).
    { intros w' sn' k c H. cbn [to_op op_honest]. intros ->. split; [reflexivity|].
      cbn [data_frags_msg df_sn]. intros ->.
      destruct (frags_okb_key w sn k c H) as (sp' & K' & Hk).
      assert (sp' = sp) by (destruct K as (E & _), K' as (E' & _); congruence). subst sp'.
      rewrite (sp_of_key w sn sp K). exists k, c. split; [exact Hk|reflexivity]. }
    destruct (norm a) as [w' sn' k|w' sn' k c|w' t]; [|apply G|intros _; exact I].
    intros H. rewrite to_op_norm. cbn [norm]. apply G. exact H.
  Qed.

  Definition all_R (st : rstate) (pre : list arrival) : Prop :=
    forall w sn sp, key_ok w sn sp ->
      R w sn (fs_of ws w) sp st
        (krun (nfrags sp (fs_of ws w)) 0 k0 (map (kev_of_arrival w sn) pre)).

  Lemma honest_run arr : forall pre st,
    rinv st -> all_R st pre -> forallb (arrival_okb ws) arr = true ->
    run_ops new_datafrag (len pre) st (map (to_op ws) arr) = spec_outs ws pre arr.
  Proof.
    induction arr as [|a arr IH]; intros pre st Hinv HR Hok; [reflexivity|].
    cbn [forallb] in Hok. apply andb_true_iff in Hok as (Ha & Hok).
    cbn [map run_ops spec_outs].
    destruct (step_ok (len pre) st (to_op ws a) Hinv (to_op_ok a Ha)) as (st' & out & E & Hinv' & _ & Hm).
    rewrite E.
    assert (HR' : all_R st' (pre ++ [a])).
    { intros w sn sp K. pose proof K as (Es & Hfs & HD).
      destruct (step_key w sn (fs_of ws w) sp Hfs HD (len pre) st _ (to_op ws a) Hinv (HR w sn sp K)
                  (to_op_ok a Ha) (to_op_honest w sn sp a K Ha)) as (st2 & out2 & E2 & _ & HR2 & _).
      rewrite E in E2. inversion E2; subst st2 out2.
      rewrite map_app. cbn [map]. rewrite krun_snoc, len_map, Z.add_0_l, <- kev_to_op. exact HR2. }
    assert (Hout : out = spec_at ws pre a).
    { rewrite spec_at_norm. rewrite to_op_norm in E, Hm. rewrite arrival_okb_norm in Ha.
      destruct (norm a) as [w sn k|w sn k c|w t] eqn:En.
      - destruct a; discriminate.
      - destruct (frags_okb_key w sn k c Ha) as (sp & K & Hk). pose proof K as (Es & Hfs & HD).
        destruct (step_key w sn (fs_of ws w) sp Hfs HD (len pre) st _ (to_op ws (AFrags w sn k c)) Hinv
                    (HR w sn sp K) (to_op_ok _ Ha) (to_op_honest w sn sp _ K Ha))
          as (st2 & out2 & E2 & _ & _ & Hout).
        rewrite E in E2. inversion E2; subst st2 out2.
        rewrite (Hout k c).
        2:{ rewrite kev_to_op. cbn [kev_of_arrival]. now rewrite !Z.eqb_refl. }
        cbn [spec_at]. unfold spec_frags. rewrite (sp_of_key w sn sp K). reflexivity.
      - cbn [to_op] in *. destruct out; try contradiction. reflexivity. }
    rewrite Hout. f_equal.
    replace (len pre + 1) with (len (pre ++ [a])) by (rewrite len_app; reflexivity).
    now apply IH.
  Qed.

  Lemma all_R_nil : all_R [] [].
  Proof. intros w sn sp K. apply R_nil. Qed.

  Theorem honest_run_spec arr :
    forallb (arrival_okb ws) arr = true ->
    run_ops new_datafrag 0 [] (map (to_op ws) arr) = spec_outs ws [] arr.
  Proof. intros H. apply (honest_run arr [] [] rinv_nil all_R_nil H). Qed.
End Honest.
