(* C05 — property theorems only.  Proofs are one `exact`; statements are pinned by ./check. *)
From Coq Require Import List ZArith Bool.
From RD Require Import C05.Model C05.Lists C05.Split C05.Asm C05.Reasm C05.Proofs.
Import ListNotations.
Open Scope Z_scope.

(* Writer side.  For every fragment size 1..65535 and every sample strictly larger than it (and
   below 2^32 bytes), send_cache_change emits exactly the DATAFRAGs mk_frags = data_frag_msg for
   k = 1..num_frags, and these satisfy split_spec: their payloads concatenated are
   header ++ value, there are total_frags of them, fragment i carries number i+1,
   fragments_in_submessage = 1, data_size = |header ++ value|, the writer's fragment size, and is
   exactly fragment-size long except the last, which is non-empty and not longer. *)
Theorem C05_split_covers : forall dmax sn sp,
  1 <= dmax <= 65535 -> dmax < payload_size sp < 2 ^ 32 ->
  send_cache_change dmax sp sn = Ok (None, mk_frags sp sn dmax)
  /\ split_spec sn dmax sp (mk_frags sp sn dmax).
Proof. exact split_covers. Qed.
Print Assumptions C05_split_covers.

(* a sample that fits is not fragmented *)
Theorem C05_small_is_data : forall dmax sp sn,
  payload_size sp <= dmax -> send_cache_change dmax sp sn = Ok (Some (pad4 (hv sp)), []).
Proof. exact send_cache_change_small. Qed.
Print Assumptions C05_small_is_data.

(* Reader side, one sample (w, sn) of an honest writer among ARBITRARY other traffic.
   ops is any operation sequence of well-typed field values (op_ok); the only hypotheses
   (op_honest) are about DATAFRAGs attributed to writer w: they carry w's fragment size fs, and
   those with sequence number sn are mk k c = data_frags_msg sp sn k c fs |sp|, the DATAFRAG
   carrying the c consecutive fragments k .. k+c-1 (1 <= k, 1 <= c <= 65535, k-1+c <= num_frags;
   c = 1 is what RustDDS' writer emits, c > 1 what other vendors' writers may emit, payload = the
   concatenation of those fragments' bytes).  kev_of_op reads (k, c) off the DATAFRAG's
   fragment_starting_num / fragments_in_submessage; frag_nums k c = [k; ..; k+c-1].
   Then, at every position where such a DATAFRAG of (w, sn) arrives, the
   repaired assembler returns exactly what the abstract per-sample specification prescribes for
   the events seen so far (krun: set of fragment numbers of the current attempt, reset by
   completion and by garbage collection): header ++ value and nothing missing if k..k+c-1 complete
   the set, otherwise nothing and the complement as missing fragments.  No panic on the way. *)
Theorem C05_reassembly : forall w sn fs sp,
  1 <= fs <= 65535 -> fs < payload_size sp < 2 ^ 32 ->
  forall pre o post k c,
  Forall op_ok (pre ++ o :: post) ->
  Forall (op_honest w sn fs sp) (pre ++ o :: post) ->
  kev_of_op w sn o = KFrag k c ->
  nth (length pre) (run_ops new_datafrag 0 [] (pre ++ o :: post)) APanic
  = expected fs sp (krun (total_frags (payload_size sp) fs) 0 k0 (map (kev_of_op w sn) pre)) k c.
Proof. exact reassembly. Qed.
Print Assumptions C05_reassembly.

(* The same in elementary terms, for the first assembly of the sample: as long as no garbage
   collection event hit writer w and the fragment numbers that arrived do not cover 1..n, the
   arrival of fragments k .. k+c-1 (in one DATAFRAG) yields header ++ value iff they complete the
   set, and nothing before. *)
Theorem C05_first_completion : forall w sn fs sp,
  1 <= fs <= 65535 -> fs < payload_size sp < 2 ^ 32 ->
  forall pre o post k c,
  Forall op_ok (pre ++ o :: post) ->
  Forall (op_honest w sn fs sp) (pre ++ o :: post) ->
  kev_of_op w sn o = KFrag k c ->
  no_gc (map (kev_of_op w sn) pre) ->
  covers (total_frags (payload_size sp) fs) (kfrags (map (kev_of_op w sn) pre)) = false ->
  nth (length pre) (run_ops new_datafrag 0 [] (pre ++ o :: post)) APanic
  = if covers (total_frags (payload_size sp) fs) (frag_nums k c ++ kfrags (map (kev_of_op w sn) pre))
    then AOut (Some (hv sp)) []
    else AOut None (missing_of (total_frags (payload_size sp) fs)
                               (frag_nums k c ++ kfrags (map (kev_of_op w sn) pre))).
Proof. exact first_completion. Qed.
Print Assumptions C05_first_completion.

(* Whole honest runs (several writers, several samples, any interleaving, duplicates, garbage
   collection; every arrival a DATAFRAG with one fragment — AFrag, the writer model's
   data_frag_msg — or with several consecutive ones — AFrags, data_frags_msg): the observable
   behaviour of the assembler equals the specification computed from the arrival order alone. *)
Theorem C05_honest_run : forall ws arr,
  forallb (arrival_okb ws) arr = true ->
  run_ops new_datafrag 0 [] (map (to_op ws) arr) = spec_outs ws [] arr.
Proof. exact honest_run_spec. Qed.
Print Assumptions C05_honest_run.

(* A DATAFRAG attributed to (w, sn) — any field values, repaired or original code — never changes
   the assembly buffer of another sample of the same or another writer. *)
Theorem C05_frame : forall nd, nd = new_datafrag \/ nd = new_datafrag_old ->
  forall now st w df st' out w' sn',
  step nd now st (OFrag w df) = Ok (st', out) ->
  (w', sn') <> (w, df_sn df) ->
  buf_at st' w' sn' = buf_at st w' sn'.
Proof. exact frame_both. Qed.
Print Assumptions C05_frame.

(* Hand-over happens once.  deliveries models Reader::process_received_data's duplicate guard
   (RtpsWriterProxy::should_ignore_change, the subject of C01) as a set of already delivered
   (w, sn): under the hypotheses of C05_reassembly no sample of any writer is handed over twice,
   what is handed over for (w, sn) is exactly header ++ value, and whenever the assembler
   completes (w, sn) — also again, after duplicates of all fragments — it has been handed over
   at that arrival or earlier. *)
Theorem C05_once : forall w sn fs sp,
  1 <= fs <= 65535 -> fs < payload_size sp < 2 ^ 32 ->
  forall ops,
  Forall op_ok ops -> Forall (op_honest w sn fs sp) ops ->
  let outs := run_ops new_datafrag 0 [] ops in
  let ds := deliveries [] ops outs in
  NoDup (dkeys ds)
  /\ (forall i b, nth_error ds i = Some (Some (w, sn, b)) -> b = hv sp)
  /\ (forall i b m, nth_error outs i = Some (AOut (Some b) m) ->
        (exists df, nth_error ops i = Some (OFrag w df) /\ df_sn df = sn) ->
        exists j, (j <= i)%nat /\ nth_error ds j = Some (Some (w, sn, hv sp))).
Proof. exact once. Qed.
Print Assumptions C05_once.

(* C06 part owned by this file: the repaired new_datafrag never panics, whatever the DataFrag
   field values (within their Rust types) and whatever reader state satisfying the invariant,
   and it keeps the invariant; so no operation sequence panics. *)
Theorem C05_no_panic : forall now st o,
  rinv st -> op_ok o ->
  exists st' out, step new_datafrag now st o = Ok (st', out) /\ rinv st' /\ out <> APanic.
Proof. exact no_panic_step. Qed.
Print Assumptions C05_no_panic.

Theorem C05_no_panic_run : forall ops,
  Forall op_ok ops ->
  no_panicb (run_ops new_datafrag 0 [] ops) = true
  /\ length (run_ops new_datafrag 0 [] ops) = length ops.
Proof. exact no_panic_run. Qed.
Print Assumptions C05_no_panic_run.

(* the invariant of C05_no_panic is reachable: it holds in every state of every run *)
Theorem C05_inv_reachable : forall ops now st, rinv st -> Forall op_ok ops ->
  exists st', run_state new_datafrag now st ops = Some st' /\ rinv st'.
Proof. exact rinv_run. Qed.
Print Assumptions C05_inv_reachable.

(* The code at the pinned commit did panic (findings F2a, F2b, F2c; repaired by a fix: commit):
   three well-typed DATAFRAG sequences on which new_datafrag_old panics and new_datafrag does not *)
Theorem C05_insert_frags_old_panics :
  Forall (fun ops => forallb op_okb ops = true
                     /\ panics (run_ops new_datafrag_old 0 [] ops) = true
                     /\ panics (run_ops new_datafrag 0 [] ops) = false)
         [witness_a; witness_b; witness_c].
Proof. exact insert_frags_old_panics. Qed.
Print Assumptions C05_insert_frags_old_panics.

(* the trace oracle accepts only observations that satisfy the property in Prop form *)
Theorem C05_oracle_sound : forall c o, wf_case c = true -> ok c o = true -> obs_spec c o.
Proof. exact oracle_sound. Qed.
Print Assumptions C05_oracle_sound.

Theorem C05_model_ok : forall c, ok c (run c) = true.
Proof. exact model_ok. Qed.
Print Assumptions C05_model_ok.
