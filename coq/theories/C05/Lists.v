(* C05 — list and association-list lemmas used by the proofs. *)
From Coq Require Import List ZArith Lia Bool.
From RD Require Import C05.Model.
Import ListNotations.
Open Scope Z_scope.

Lemma len_nonneg {A} (l : list A) : 0 <= len l.
Proof. unfold len; lia. Qed.
Lemma len_nil {A} : len (@nil A) = 0.
Proof. reflexivity. Qed.
Lemma len_cons {A} (x : A) l : len (x :: l) = len l + 1.
Proof. unfold len; cbn [length]; lia. Qed.
Lemma len_app {A} (l1 l2 : list A) : len (l1 ++ l2) = len l1 + len l2.
Proof. unfold len; rewrite app_length; lia. Qed.
Lemma len_repeat {A} (x : A) n : len (repeat x n) = Z.of_nat n.
Proof. unfold len; now rewrite repeat_length. Qed.
Lemma len_map {A B} (f : A -> B) l : len (map f l) = len l.
Proof. unfold len; now rewrite map_length. Qed.
Lemma len_firstn {A} (l : list A) n : 0 <= n <= len l -> len (firstn (Z.to_nat n) l) = n.
Proof. unfold len; intros; rewrite firstn_length; lia. Qed.
Lemma len_skipn {A} (l : list A) n : 0 <= n <= len l -> len (skipn (Z.to_nat n) l) = len l - n.
Proof. unfold len; intros; rewrite skipn_length; lia. Qed.
Lemma len_sub {A} (l : list A) a b : 0 <= a <= b -> b <= len l -> len (sub l a b) = b - a.
Proof.
  unfold sub, len; intros. rewrite firstn_length, skipn_length. lia.
Qed.
Lemma len_0_nil {A} (l : list A) : len l = 0 -> l = [].
Proof. destruct l; [reflexivity|]. rewrite len_cons. pose proof (len_nonneg l). lia. Qed.

(* ---- firstn / skipn / sub ---- *)
Lemma firstn_plus {A} (l : list A) (a c : nat) :
  firstn (a + c) l = firstn a l ++ firstn c (skipn a l).
Proof.
  revert l; induction a as [|a IH]; intros l; [reflexivity|].
  destruct l as [|x l]; cbn [Nat.add firstn skipn app].
  - now rewrite firstn_nil.
  - now rewrite IH.
Qed.

Lemma firstn_sub {A} (l : list A) a b :
  0 <= a <= b -> firstn (Z.to_nat a) l ++ sub l a b = firstn (Z.to_nat b) l.
Proof.
  intros H. unfold sub. rewrite <- firstn_plus. f_equal. lia.
Qed.

Lemma sub_full {A} (l : list A) : sub l 0 (len l) = l.
Proof.
  unfold sub, len. cbn [Z.to_nat skipn]. rewrite Z.sub_0_r, Nat2Z.id. apply firstn_all.
Qed.

Lemma sub_app_r {A} (l1 l2 : list A) a b :
  len l1 <= a -> sub (l1 ++ l2) a b = sub l2 (a - len l1) (b - len l1).
Proof.
  unfold sub, len; intros H.
  rewrite skipn_app.
  rewrite (skipn_all2 l1) by lia. cbn [app].
  f_equal; [lia|]. f_equal. lia.
Qed.

Lemma sub_app_l {A} (l1 l2 : list A) a b :
  0 <= a -> b <= len l1 -> sub (l1 ++ l2) a b = sub l1 a b.
Proof.
  unfold sub, len; intros Ha Hb.
  rewrite skipn_app, firstn_app.
  destruct (Z_le_gt_dec a (Z.of_nat (length l1))) as [Hle|Hgt].
  - replace (Z.to_nat (b - a) - length (skipn (Z.to_nat a) l1))%nat with 0%nat
      by (rewrite skipn_length; lia).
    cbn [firstn]. now rewrite app_nil_r.
  - replace (Z.to_nat (b - a)) with 0%nat by lia. reflexivity.
Qed.

Lemma sub_firstn {A} (l : list A) a t :
  0 <= a <= t -> sub (firstn (Z.to_nat t) l) a t = sub l a t.
Proof.
  intros H. unfold sub.
  rewrite skipn_firstn_comm.
  replace (Z.to_nat t - Z.to_nat a)%nat with (Z.to_nat (t - a)) by lia.
  rewrite firstn_firstn. now rewrite Nat.min_id.
Qed.

Lemma sub_empty {A} (l : list A) a b : b <= a -> sub l a b = [].
Proof. intros; unfold sub. replace (Z.to_nat (b - a)) with 0%nat by lia. reflexivity. Qed.

(* ---- znth ---- *)
Lemma znth_app_l {A} (l1 l2 : list A) i d : 0 <= i < len l1 -> znth i (l1 ++ l2) d = znth i l1 d.
Proof. unfold znth, len; intros; apply app_nth1; lia. Qed.
Lemma znth_app_r {A} (l1 l2 : list A) i d :
  len l1 <= i -> znth i (l1 ++ l2) d = znth (i - len l1) l2 d.
Proof.
  unfold znth, len; intros. rewrite app_nth2 by lia. f_equal. lia.
Qed.
Lemma nth_firstn_lt' {A} (l : list A) n i d : (i < n)%nat -> nth i (firstn n l) d = nth i l d.
Proof.
  revert l i; induction n as [|n IH]; intros l i H; [lia|].
  destruct l as [|x l]; [reflexivity|]. destruct i as [|i]; cbn; [reflexivity|]. apply IH. lia.
Qed.
Lemma znth_firstn {A} (l : list A) n i d : 0 <= i < n -> znth i (firstn (Z.to_nat n) l) d = znth i l d.
Proof. unfold znth; intros. apply nth_firstn_lt'. lia. Qed.
Lemma nth_skipn_plus {A} (l : list A) n i d : nth i (skipn n l) d = nth (n + i) l d.
Proof.
  revert l; induction n as [|n IH]; intros l; [reflexivity|].
  destruct l as [|x l]; cbn [skipn Nat.add nth].
  - now destruct i.
  - apply IH.
Qed.
Lemma znth_skipn {A} (l : list A) n i d : 0 <= n -> 0 <= i -> znth i (skipn (Z.to_nat n) l) d = znth (n + i) l d.
Proof. unfold znth; intros. rewrite nth_skipn_plus. f_equal. lia. Qed.
Lemma znth_sub {A} (l : list A) a b i d :
  0 <= a -> 0 <= i < b - a -> znth i (sub l a b) d = znth (a + i) l d.
Proof.
  intros Ha Hi. unfold sub. rewrite znth_firstn by lia. now apply znth_skipn; lia.
Qed.
Lemma znth_repeat {A} (x : A) n i : znth i (repeat x n) x = x.
Proof.
  unfold znth. generalize (Z.to_nat i) as k. induction n as [|n IH]; intros [|k]; cbn; auto.
Qed.

Lemma list_ext_znth {A} (l1 l2 : list A) d :
  len l1 = len l2 -> (forall i, 0 <= i < len l1 -> znth i l1 d = znth i l2 d) -> l1 = l2.
Proof.
  unfold len, znth; intros Hl H.
  apply (nth_ext _ _ d d); [lia|].
  intros n Hn. specialize (H (Z.of_nat n)). rewrite Nat2Z.id in H. apply H. lia.
Qed.

(* ---- upd ---- *)
Lemma upd_length {A} (l : list A) i v : length (upd l i v) = length l.
Proof. revert i; induction l as [|x l IH]; intros [|i]; cbn; auto. Qed.
Lemma upd_nth {A} (l : list A) i v j d :
  (i < length l)%nat -> nth j (upd l i v) d = if Nat.eqb j i then v else nth j l d.
Proof.
  revert i j; induction l as [|x l IH]; intros i j H; cbn in H; [lia|].
  destruct i as [|i], j as [|j]; cbn; auto.
  apply IH. lia.
Qed.

(* ---- iota ---- *)
Lemma iota_length a c : length (iota a c) = c.
Proof. revert a; induction c; intros; cbn; auto. Qed.
Lemma iota_snoc a c : iota a (S c) = iota a c ++ [a + Z.of_nat c].
Proof.
  revert a; induction c as [|c IH]; intros a.
  - cbn. now rewrite Z.add_0_r.
  - change (iota a (S (S c))) with (a :: iota (a + 1) (S c)).
    rewrite IH. cbn [iota app]. do 2 f_equal. f_equal. lia.
Qed.
Lemma in_iota a c k : In k (iota a c) <-> a <= k < a + Z.of_nat c.
Proof.
  revert a; induction c as [|c IH]; intros a; cbn [iota In].
  - lia.
  - rewrite IH. lia.
Qed.
Lemma iota_nth a c i : (i < c)%nat -> nth i (iota a c) 0 = a + Z.of_nat i.
Proof.
  revert a i; induction c as [|c IH]; intros a [|i] H; try lia; cbn [iota nth].
  - lia.
  - rewrite IH by lia. lia.
Qed.

(* ---- memz ---- *)
Lemma memz_true k S : memz k S = true <-> In k S.
Proof.
  unfold memz. rewrite existsb_exists. split.
  - intros (x & Hx & E). apply Z.eqb_eq in E. now subst.
  - intros H. exists k. split; [assumption | apply Z.eqb_refl].
Qed.
Lemma memz_cons k x S : memz k (x :: S) = (k =? x) || memz k S.
Proof. reflexivity. Qed.

(* ---- association lists ---- *)
Lemma alookup_aremove_eq {A} k (m : list (Z * A)) : alookup k (aremove k m) = None.
Proof.
  induction m as [|[k' v] m IH]; cbn; [reflexivity|].
  destruct (k' =? k) eqn:E; [assumption|]. cbn. now rewrite E.
Qed.
Lemma alookup_aremove_neq {A} k k' (m : list (Z * A)) :
  k' <> k -> alookup k' (aremove k m) = alookup k' m.
Proof.
  intros N. induction m as [|[k2 v] m IH]; cbn; [reflexivity|].
  destruct (k2 =? k) eqn:E.
  - apply Z.eqb_eq in E. subst. destruct (k =? k') eqn:E'; [apply Z.eqb_eq in E'; congruence|assumption].
  - cbn. now rewrite IH.
Qed.
Lemma alookup_ainsert_eq {A} k (v : A) m : alookup k (ainsert k v m) = Some v.
Proof. unfold ainsert; cbn. now rewrite Z.eqb_refl. Qed.
Lemma alookup_ainsert_neq {A} k k' (v : A) m :
  k' <> k -> alookup k' (ainsert k v m) = alookup k' m.
Proof.
  intros N. unfold ainsert; cbn.
  destruct (k =? k') eqn:E; [apply Z.eqb_eq in E; congruence|].
  now apply alookup_aremove_neq.
Qed.
Lemma alookup_in {A} k (v : A) m : alookup k m = Some v -> In (k, v) m.
Proof.
  induction m as [|[k' v'] m IH]; cbn; [discriminate|].
  destruct (k' =? k) eqn:E.
  - apply Z.eqb_eq in E. intros [= ->]. left. now subst.
  - intros H. right. auto.
Qed.
Lemma in_aremove {A} k (m : list (Z * A)) x : In x (aremove k m) -> In x m.
Proof.
  induction m as [|[k' v] m IH]; cbn; [tauto|].
  destruct (k' =? k); cbn; intuition.
Qed.
Lemma aremove_keys_not_in {A} k (m : list (Z * A)) : ~ In k (map fst (aremove k m)).
Proof.
  induction m as [|[k' v] m IH]; cbn; [tauto|].
  destruct (k' =? k) eqn:E; [assumption|]. cbn. intros [H|H]; [|tauto].
  apply Z.eqb_neq in E. congruence.
Qed.
Lemma aremove_nodup {A} k (m : list (Z * A)) : NoDup (map fst m) -> NoDup (map fst (aremove k m)).
Proof.
  induction m as [|[k' v] m IH]; cbn; [constructor|].
  intros H. inversion H as [|? ? Hn Hd]; subst.
  destruct (k' =? k); [auto|]. cbn. constructor; [|auto].
  intros Hin. apply Hn. clear -Hin.
  induction m as [|[k2 v2] m IH]; cbn in *; [tauto|].
  destruct (k2 =? k); cbn in *; intuition.
Qed.
Lemma ainsert_nodup {A} k (v : A) m : NoDup (map fst m) -> NoDup (map fst (ainsert k v m)).
Proof.
  intros H. unfold ainsert. cbn. constructor; [apply aremove_keys_not_in | now apply aremove_nodup].
Qed.

Lemma alookup_not_in {A} k (m : list (Z * A)) : ~ In k (map fst m) -> alookup k m = None.
Proof.
  induction m as [|[k' v] m IH]; cbn; [reflexivity|].
  intros H. destruct (k' =? k) eqn:E; [apply Z.eqb_eq in E; tauto|]. apply IH. tauto.
Qed.

Lemma alookup_filter {A} (p : Z * A -> bool) k (m : list (Z * A)) :
  NoDup (map fst m) ->
  alookup k (filter p m) =
  match alookup k m with Some v => if p (k, v) then Some v else None | None => None end.
Proof.
  induction m as [|[k' v] m IH]; cbn; [reflexivity|].
  intros H. inversion H as [|? ? Hn Hd]; subst.
  destruct (k' =? k) eqn:E.
  - apply Z.eqb_eq in E. subst k'.
    destruct (p (k, v)) eqn:P; cbn.
    + now rewrite Z.eqb_refl.
    + rewrite IH by assumption. now rewrite (alookup_not_in k m Hn).
  - destruct (p (k', v)); cbn; [rewrite E|]; now apply IH.
Qed.
Lemma filter_nodup_keys {A} (p : Z * A -> bool) (m : list (Z * A)) :
  NoDup (map fst m) -> NoDup (map fst (filter p m)).
Proof.
  induction m as [|[k v] m IH]; cbn; [constructor|].
  intros H. inversion H as [|? ? Hn Hd]; subst.
  destruct (p (k, v)); [|auto]. cbn. constructor; [|auto].
  intros Hin. apply Hn. apply in_map_iff in Hin as (x & <- & Hx). apply in_map.
  now apply filter_In in Hx.
Qed.
