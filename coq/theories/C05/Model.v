(* C05 — fragmentation: executable model of

   writer side
     Writer::num_frags_and_frag_size, Writer::send_cache_change (DATA / DATAFRAG decision and the
       DATAFRAG loop)                                               src/rtps/writer.rs
     MessageBuilder::data_frag_msg (byte-range arithmetic)          src/rtps/message.rs
     DDSData::payload_size / bytes_slice                            src/dds/ddsdata.rs
     SerializedPayload::bytes_slice / len_serialized / from_bytes   src/messages/submessages/elements/serialized_payload.rs
     DataFrag::total_number_of_fragments                            src/messages/submessages/data_frag.rs
   reader side
     AssemblyBuffer::new / insert_frags / is_complete,
     FragmentAssembler::new / new_datafrag / garbage_collect_before / missing_frags_for
                                                                    src/rtps/fragment_assembler.rs
     Reader::fragment_assembler_mutable (one assembler per remote writer GUID, created with the
       fragment size of the first DATAFRAG seen from that writer)   src/rtps/reader.rs

   Arithmetic on the reader side has the debug-build semantics of the Rust code: checked usize
   (64 bit) + - *, slice bounds, BitVec::set bounds, assert!  -->  explicit [Panic] outcome.
   Two versions of FragmentAssembler::new_datafrag are kept:
     [new_datafrag_old]  the code at the pinned commit (no validation; findings F2a/F2b/F2c)
     [new_datafrag]      the repaired code (fix: commit, DATAFRAG validated against the assembler
                         and the assembly buffer before it is used)
   Time: Timestamp::now() is modelled by a logical clock = index of the operation in the run
   (strictly increasing between two operations; the driver enforces this on the real clock). *)
From Coq Require Import List ZArith Lia Bool.
Import ListNotations.
Open Scope Z_scope.

Definition bytes := list Z.

Definition len {A} (l : list A) : Z := Z.of_nat (length l).
(* l[a..b] for 0 <= a <= b <= len l *)
Definition sub {A} (l : list A) (a b : Z) : list A :=
  firstn (Z.to_nat (b - a)) (skipn (Z.to_nat a) l).
Definition znth {A} (i : Z) (l : list A) (d : A) : A := nth (Z.to_nat i) l d.
Fixpoint iota (a : Z) (c : nat) : list Z :=
  match c with O => [] | S c' => a :: iota (a + 1) c' end.
Definition memz (k : Z) (S : list Z) : bool := existsb (Z.eqb k) S.

(* ---------------------------------------------------------------------------------------- *)
(* outcomes with panics *)
Inductive res (A : Type) := Panic | Ok (a : A).
Arguments Panic {A}.
Arguments Ok {A} a.
Definition bind {A B} (r : res A) (f : A -> res B) : res B :=
  match r with Panic => Panic | Ok a => f a end.
Notation "x <- e ;; k" := (bind e (fun x => k))
  (at level 61, e at next level, right associativity).

Definition USIZE : Z := 2 ^ 64.
Definition usub (a b : Z) : res Z := if a <? b then Panic else Ok (a - b).
Definition umul (a b : Z) : res Z := if a * b <? USIZE then Ok (a * b) else Panic.
Definition uadd (a b : Z) : res Z := if a + b <? USIZE then Ok (a + b) else Panic.
(* assert!(c) *)
Definition assert (c : bool) : res unit := if c then Ok tt else Panic.

(* ---------------------------------------------------------------------------------------- *)
(* SerializedPayload { representation_identifier: [u8;2], representation_options: [u8;2], value } *)
Record spayload := { sp_h0 : Z; sp_h1 : Z; sp_h2 : Z; sp_h3 : Z; sp_value : bytes }.
Definition header (sp : spayload) : bytes := [sp_h0 sp; sp_h1 sp; sp_h2 sp; sp_h3 sp].
(* what the writer was given, in wire form: 4-byte representation header ++ value *)
Definition hv (sp : spayload) : bytes := header sp ++ sp_value sp.
(* DDSData::payload_size = SerializedPayload::len_serialized = H_LEN + value.len() *)
Definition payload_size (sp : spayload) : Z := 4 + len (sp_value sp).

(* SerializedPayload::bytes_slice(from, to_before).  Bytes::slice cannot panic here: both
   branches slice inside bounds because of the two clamps. *)
Definition bytes_slice (sp : spayload) (from to_before : Z) : bytes :=
  let to_before := Z.min to_before (len (sp_value sp) + 4) in
  let from := Z.min from to_before in
  if 4 <=? from then sub (sp_value sp) (from - 4) (to_before - 4)
  else
    let b := header sp ++ (if 4 <? to_before then sub (sp_value sp) 0 (to_before - 4) else []) in
    sub b from to_before.

(* The DataFrag submessage fields that matter (reader/writer entity ids and inline QoS are
   carried by the driver, not by the model). *)
Record datafrag := {
  df_sn : Z;            (* writer_sn *)
  df_start : Z;         (* fragment_starting_num : u32 *)
  df_count : Z;         (* fragments_in_submessage : u16 *)
  df_data_size : Z;     (* data_size : u32 *)
  df_frag_size : Z;     (* fragment_size : u16 *)
  df_payload : bytes }. (* serialized_payload *)

(* MessageBuilder::data_frag_msg: one fragment per submessage.
     from_byte = (fragment_number - 1) * fragment_size
     up_to_before_byte = min(fragment_number * fragment_size, sample_size)  *)
Definition data_frag_msg (sp : spayload) (sn k fs sample_size : Z) : datafrag :=
  let from_byte := (k - 1) * fs in
  let up_to_before_byte := Z.min (k * fs) sample_size in
  {| df_sn := sn; df_start := k; df_count := 1; df_data_size := sample_size; df_frag_size := fs;
     df_payload := bytes_slice sp from_byte up_to_before_byte |}.

(* A DATAFRAG that carries the c consecutive fragments k .. k+c-1 of the sample (RTPS 8.3.8.3,
   fragmentsInSubmessage = c; emitted by other vendors' writers, never by RustDDS' own): its payload
   is the concatenation of those fragments' bytes, i.e. the byte range
     (k - 1) * fs .. min((k - 1 + c) * fs, sample_size)
   of header ++ value (the last fragment of the sample may be short).  c = 1 is data_frag_msg. *)
Definition data_frags_msg (sp : spayload) (sn k c fs sample_size : Z) : datafrag :=
  let from_byte := (k - 1) * fs in
  let up_to_before_byte := Z.min ((k - 1 + c) * fs) sample_size in
  {| df_sn := sn; df_start := k; df_count := c; df_data_size := sample_size; df_frag_size := fs;
     df_payload := bytes_slice sp from_byte up_to_before_byte |}.

(* Writer::num_frags_and_frag_size, with the `as u32` / `as u16` truncations as written.
   dmax = self.data_max_size_serialized.  Division by zero panics in Rust. *)
Definition num_frags_and_frag_size (dmax payload_sz : Z) : res (Z * Z) :=
  let fragment_size := dmax mod 2 ^ 32 in
  let data_size := payload_sz mod 2 ^ 32 in
  if fragment_size =? 0 then Panic
  else Ok (data_size / fragment_size + (if data_size mod fragment_size =? 0 then 0 else 1),
           fragment_size mod 2 ^ 16).

(* Data::write_to pads the serialized payload with zeros to a multiple of 4 (DataFrag::write_to
   does not pad) *)
Definition pad4 (l : bytes) : bytes := l ++ repeat 0 (Z.to_nat ((4 - len l mod 4) mod 4)).

(* Writer::send_cache_change, payload part: what goes on the wire for one sample.
   Some bytes = one DATA submessage carrying the whole SerializedPayload; otherwise DATAFRAGs for
   frag_num in 1..=num_frags.  `data_size.try_into().unwrap()` (usize -> u32) panics above 2^32. *)
Definition send_cache_change (dmax : Z) (sp : spayload) (sn : Z)
  : res (option bytes * list datafrag) :=
  let data_size := payload_size sp in
  if data_size <=? dmax then Ok (Some (pad4 (hv sp)), [])
  else
    nf <- num_frags_and_frag_size dmax data_size ;;
    sample_size <- (if data_size <? 2 ^ 32 then Ok data_size else Panic) ;;
    Ok (None, map (fun k => data_frag_msg sp sn k (snd nf) sample_size)
                  (iota 1 (Z.to_nat (fst nf)))).

(* ---------------------------------------------------------------------------------------- *)
(* reader side *)

(* DataFrag::total_number_of_fragments (FragmentNumber::INVALID = 0 if fragment_size < 1) *)
Definition total_frags (data_size fs : Z) : Z :=
  if fs <? 1 then 0 else data_size / fs + (if 0 <? data_size mod fs then 1 else 0).

Record abuf := {
  ab_bytes : bytes;          (* buffer_bytes *)
  ab_count : Z;              (* fragment_count *)
  ab_bitmap : list bool;     (* received_bitmap *)
  ab_mtime : Z }.            (* modified_time (logical) *)

(* AssemblyBuffer::new *)
Definition abuf_new (df : datafrag) (now : Z) : res abuf :=
  let data_size := df_data_size df in
  let fragment_size := df_frag_size df in
  _ <- assert (fragment_size <=? data_size) ;;
  _ <- assert (0 <? fragment_size) ;;
  let fragment_count := total_frags data_size fragment_size in
  Ok {| ab_bytes := repeat 0 (Z.to_nat data_size);
        ab_count := fragment_count;
        ab_bitmap := repeat false (Z.to_nat fragment_count);
        ab_mtime := now |}.

(* bm[i] = v  (BitVec::set panics if i >= len) *)
Fixpoint upd {A} (l : list A) (i : nat) (v : A) : list A :=
  match l, i with
  | [], _ => []
  | _ :: t, O => v :: t
  | x :: t, S i' => x :: upd t i' v
  end.
(* for f in 0..c { bitmap.set(i + f, true) } *)
Fixpoint set_bits (bm : list bool) (i : Z) (c : nat) : res (list bool) :=
  match c with
  | O => Ok bm
  | S c' => if i <? len bm then set_bits (upd bm (Z.to_nat i) true) (i + 1) c' else Panic
  end.

(* buffer[from..to].copy_from_slice(src)  with the slice-bounds and length checks *)
Definition copy_into (buf : bytes) (from to : Z) (src : bytes) : res bytes :=
  if (from <=? to) && (to <=? len buf) && (len src =? to - from)
  then Ok (firstn (Z.to_nat from) buf ++ src ++ skipn (Z.to_nat to) buf)
  else Panic.
(* &payload[..n] *)
Definition prefix (l : bytes) (n : Z) : res bytes :=
  if n <=? len l then Ok (firstn (Z.to_nat n) l) else Panic.

(* AssemblyBuffer::insert_frags(datafrag, frag_size) — statement by statement; frag_size is the
   FragmentAssembler's, not the DATAFRAG's.  (The error! branch recomputes
   frags_in_submessage * frag_size, already known not to overflow, and only logs.) *)
Definition insert_frags (ab : abuf) (df : datafrag) (frag_size now : Z) : res abuf :=
  let frags_in_submessage := df_count df in
  let fragment_starting_num := df_start df in
  start_frag_from_0 <- usub fragment_starting_num 1 ;;
  from_byte <- umul start_frag_from_0 frag_size ;;
  m <- umul frags_in_submessage frag_size ;;
  s <- uadd from_byte (Z.min m (len (df_payload df))) ;;
  let to_before_byte := Z.min s (len (ab_bytes ab)) in
  payload_size <- usub to_before_byte from_byte ;;
  _last_frag_in_submessage <- uadd start_frag_from_0 frags_in_submessage ;;
  src <- prefix (df_payload df) payload_size ;;
  buf <- copy_into (ab_bytes ab) from_byte to_before_byte src ;;
  bm <- set_bits (ab_bitmap ab) start_frag_from_0 (Z.to_nat frags_in_submessage) ;;
  Ok {| ab_bytes := buf; ab_count := ab_count ab; ab_bitmap := bm; ab_mtime := now |}.

(* received_bitmap.all() *)
Definition is_complete (ab : abuf) : bool := forallb (fun b => b) (ab_bitmap ab).

(* BTreeMap<Z, A> as an association list (at most one visible binding per key) *)
Fixpoint alookup {A} (k : Z) (m : list (Z * A)) : option A :=
  match m with
  | [] => None
  | (k', v) :: m' => if k' =? k then Some v else alookup k m'
  end.
Fixpoint aremove {A} (k : Z) (m : list (Z * A)) : list (Z * A) :=
  match m with
  | [] => []
  | (k', v) :: m' => if k' =? k then aremove k m' else (k', v) :: aremove k m'
  end.
Definition ainsert {A} (k : Z) (v : A) (m : list (Z * A)) : list (Z * A) := (k, v) :: aremove k m.

Record assembler := { fa_fs : Z; fa_bufs : list (Z * abuf) }.

(* tail of new_datafrag, common to both versions: entry().or_insert_with(new); insert_frags;
   is_complete -> remove + SerializedPayload::from_bytes (fails, giving None, below 4 bytes) *)
Definition assemble (fa : assembler) (df : datafrag) (now : Z)
  : res (assembler * option bytes) :=
  ab0 <- match alookup (df_sn df) (fa_bufs fa) with
         | Some ab => Ok ab
         | None => abuf_new df now
         end ;;
  ab <- insert_frags ab0 df (fa_fs fa) now ;;
  if is_complete ab then
    Ok ({| fa_fs := fa_fs fa; fa_bufs := aremove (df_sn df) (fa_bufs fa) |},
        if 4 <=? len (ab_bytes ab) then Some (ab_bytes ab) else None)
  else
    Ok ({| fa_fs := fa_fs fa; fa_bufs := ainsert (df_sn df) ab (fa_bufs fa) |}, None).

(* FragmentAssembler::new_datafrag at the pinned commit *)
Definition new_datafrag_old := assemble.

(* repaired code: FragmentAssembler::validate_datafrag (u64 arithmetic, cannot overflow for
   u32/u16 fields: (2^32 + 2^16) * 2^16 < 2^64) *)
Definition validate_datafrag (fa : assembler) (df : datafrag) : bool :=
  let frag_size := df_frag_size df in
  let data_size := df_data_size df in
  let first := df_start df in
  let count := df_count df in
  (frag_size =? fa_fs fa)
  && (1 <=? frag_size) && (frag_size <=? data_size)
  && (1 <=? first) && (1 <=? count)
  && (first - 1 + count <=? total_frags data_size frag_size)
  && (Z.min ((first - 1 + count) * frag_size) data_size - (first - 1) * frag_size
        <=? len (df_payload df))
  && match alookup (df_sn df) (fa_bufs fa) with
     | Some ab => len (ab_bytes ab) =? data_size
     | None => true
     end.

Definition new_datafrag (fa : assembler) (df : datafrag) (now : Z)
  : res (assembler * option bytes) :=
  if validate_datafrag fa df then assemble fa df now
  else Ok (fa, None).                      (* warn! and ignore *)

(* FragmentAssembler::garbage_collect_before(expire_before): retain modified_time >= expire_before *)
Definition garbage_collect_before (fa : assembler) (t : Z) : assembler :=
  {| fa_fs := fa_fs fa; fa_bufs := filter (fun kv => t <=? ab_mtime (snd kv)) (fa_bufs fa) |}.

(* FragmentAssembler::missing_frags_for(sn): fragment numbers (from 1) whose bit is clear *)
Definition missing_frags_for (fa : assembler) (sn : Z) : list Z :=
  match alookup sn (fa_bufs fa) with
  | None => []
  | Some ab => filter (fun k => negb (znth (k - 1) (ab_bitmap ab) true))
                      (iota 1 (Z.to_nat (ab_count ab)))
  end.

(* ---------------------------------------------------------------------------------------- *)
(* Reader level: BTreeMap<GUID, FragmentAssembler>; writers are small integers. *)
Inductive op :=
| OFrag (w : Z) (df : datafrag)      (* Reader::handle_datafrag_msg, assembler part *)
| OGc (w : Z) (t : Z).               (* garbage_collect_before(time of operation number t) *)

Definition rstate := list (Z * assembler).

Inductive aout :=
| AOut (r : option bytes) (missing : list Z)   (* new_datafrag result; missing_frags_for(sn) after it *)
| AGcDone
| APanic.

(* which version of new_datafrag *)
Definition njd := assembler -> datafrag -> Z -> res (assembler * option bytes).

Definition step (nd : njd) (now : Z) (st : rstate) (o : op) : res (rstate * aout) :=
  match o with
  | OFrag w df =>
      (* fragment_assembler_mutable(writer_guid, datafrag.fragment_size) *)
      let fa := match alookup w st with
                | Some fa => fa
                | None => {| fa_fs := df_frag_size df; fa_bufs := [] |}
                end in
      r <- nd fa df now ;;
      Ok (ainsert w (fst r) st, AOut (snd r) (missing_frags_for (fst r) (df_sn df)))
  | OGc w t =>
      match alookup w st with
      | Some fa => Ok (ainsert w (garbage_collect_before fa t) st, AGcDone)
      | None => Ok (st, AGcDone)
      end
  end.

(* a panic kills the receive thread: nothing is observed after it *)
Fixpoint run_ops (nd : njd) (now : Z) (st : rstate) (ops : list op) : list aout :=
  match ops with
  | [] => []
  | o :: ops' =>
      match step nd now st o with
      | Panic => [APanic]
      | Ok (st', out) => out :: run_ops nd (now + 1) st' ops'
      end
  end.

(* state reached (None after a panic) *)
Fixpoint run_state (nd : njd) (now : Z) (st : rstate) (ops : list op) : option rstate :=
  match ops with
  | [] => Some st
  | o :: ops' =>
      match step nd now st o with
      | Panic => None
      | Ok (st', _) => run_state nd (now + 1) st' ops'
      end
  end.

(* ---------------------------------------------------------------------------------------- *)
(* Honest traffic: a table of writers (fragment size, samples by sequence number) and an arrival
   order of fragment numbers / GC events. *)
Inductive arrival :=
| AFrag (w sn k : Z)             (* fragment k alone in a DATAFRAG (what RustDDS' writer sends) *)
| AFrags (w sn k c : Z)          (* fragments k .. k+c-1 in one DATAFRAG (fragments_in_submessage = c) *)
| AGc (w t : Z).

Definition wtable := list (Z * (Z * list (Z * spayload))).   (* w |-> (fs, sn |-> payload) *)

Definition fs_of (ws : wtable) (w : Z) : Z :=
  match alookup w ws with Some (fs, _) => fs | None => 0 end.
Definition sample_of (ws : wtable) (w sn : Z) : option spayload :=
  match alookup w ws with Some (_, ss) => alookup sn ss | None => None end.
Definition dummy_sp : spayload := {| sp_h0 := 0; sp_h1 := 0; sp_h2 := 0; sp_h3 := 0; sp_value := [] |}.
Definition sp_of (ws : wtable) (w sn : Z) : spayload :=
  match sample_of ws w sn with Some sp => sp | None => dummy_sp end.

Definition nfrags (sp : spayload) (fs : Z) : Z := total_frags (payload_size sp) fs.

(* the DATAFRAG the writer model emits for fragment k of (w, sn) *)
Definition to_op (ws : wtable) (a : arrival) : op :=
  match a with
  | AFrag w sn k =>
      let sp := sp_of ws w sn in
      OFrag w (data_frag_msg sp sn k (fs_of ws w) (payload_size sp))
  | AFrags w sn k c =>
      let sp := sp_of ws w sn in
      OFrag w (data_frags_msg sp sn k c (fs_of ws w) (payload_size sp))
  | AGc w t => OGc w t
  end.

(* honest-writer conditions, decidable: fragment size in 1..65535 per writer, sample strictly
   larger than the fragment size (otherwise the writer sends DATA) and below 2^32, fragment
   numbers k .. k+c-1 inside 1..num_frags, 1 <= c <= 65535 (fragments_in_submessage is a u16) *)
Definition frags_okb_arr (ws : wtable) (w sn k c : Z) : bool :=
  match sample_of ws w sn with
  | Some sp =>
      let fs := fs_of ws w in
      (1 <=? fs) && (fs <=? 65535) && (fs <? payload_size sp) && (payload_size sp <? 2 ^ 32)
      && (1 <=? sn) && (1 <=? k) && (1 <=? c) && (c <=? 65535) && (k - 1 + c <=? nfrags sp fs)
  | None => false
  end.
Definition arrival_okb (ws : wtable) (a : arrival) : bool :=
  match a with
  | AFrag w sn k => frags_okb_arr ws w sn k 1
  | AFrags w sn k c => frags_okb_arr ws w sn k c
  | AGc w t => true
  end.

(* ---------------------------------------------------------------------------------------- *)
(* Abstract per-sample specification, over observables only (which fragment numbers of the sample
   arrived, in which order, and which GC events happened): the state of sample (w, sn) is the set
   of fragment numbers received in the current attempt ([] = no assembly in progress) and the time
   of the last accepted fragment. *)
Definition covers (n : Z) (S : list Z) : bool :=
  forallb (fun k => memz k S) (iota 1 (Z.to_nat n)).

Definition kstate := (list Z * Z)%type.
Definition k0 : kstate := ([], 0).

(* KFrag k c: one DATAFRAG carrying the fragment numbers k .. k+c-1 of the sample *)
Inductive kev := KFrag (k c : Z) | KGc (t : Z) | KNone.
Definition frag_nums (k c : Z) : list Z := iota k (Z.to_nat c).

Definition kstep (n : Z) (now : Z) (s : kstate) (e : kev) : kstate :=
  match e with
  | KFrag k c => let S := frag_nums k c ++ fst s in
                 if covers n S then ([], now) else (S, now)
  | KGc t => match fst s with
             | [] => s
             | _ => if snd s <? t then ([], snd s) else s
             end
  | KNone => s
  end.

Fixpoint krun (n : Z) (now : Z) (s : kstate) (es : list kev) : kstate :=
  match es with
  | [] => s
  | e :: es' => krun n (now + 1) (kstep n now s e) es'
  end.

(* the event an arrival is for sample (w, sn) *)
Definition kev_of_arrival (w sn : Z) (a : arrival) : kev :=
  match a with
  | AFrag w' sn' k => if (w' =? w) && (sn' =? sn) then KFrag k 1 else KNone
  | AFrags w' sn' k c => if (w' =? w) && (sn' =? sn) then KFrag k c else KNone
  | AGc w' t => if w' =? w then KGc t else KNone
  end.

Definition missing_of (n : Z) (S : list Z) : list Z :=
  filter (fun k => negb (memz k S)) (iota 1 (Z.to_nat n)).

(* expected observation of arrival a after the arrivals pre (pre in arrival order) *)
Definition spec_frags (ws : wtable) (pre : list arrival) (w sn k c : Z) : aout :=
  let sp := sp_of ws w sn in
  let n := nfrags sp (fs_of ws w) in
  let s := krun n 0 k0 (map (kev_of_arrival w sn) pre) in
  if covers n (frag_nums k c ++ fst s) then AOut (Some (hv sp)) []
  else AOut None (missing_of n (frag_nums k c ++ fst s)).
Definition spec_at (ws : wtable) (pre : list arrival) (a : arrival) : aout :=
  match a with
  | AFrag w sn k => spec_frags ws pre w sn k 1
  | AFrags w sn k c => spec_frags ws pre w sn k c
  | AGc _ _ => AGcDone
  end.

Fixpoint spec_outs (ws : wtable) (pre : list arrival) (arr : list arrival) : list aout :=
  match arr with
  | [] => []
  | a :: arr' => spec_at ws pre a :: spec_outs ws (pre ++ [a]) arr'
  end.

(* ---------------------------------------------------------------------------------------- *)
(* The hand-over guard of the reader: Reader::process_received_data drops a completed sample if
   RtpsWriterProxy::should_ignore_change(sn) says it has been received already.  That guard is
   modelled and proved by C01; here it is a flag set: [delivered] = (w, sn) already handed over. *)
Definition key_eqb (a b : Z * Z) : bool := (fst a =? fst b) && (snd a =? snd b).
Definition deliver_step (delivered : list (Z * Z)) (o : op) (out : aout)
  : list (Z * Z) * option (Z * Z * bytes) :=
  match o, out with
  | OFrag w df, AOut (Some b) _ =>
      if existsb (key_eqb (w, df_sn df)) delivered then (delivered, None)
      else ((w, df_sn df) :: delivered, Some (w, df_sn df, b))
  | _, _ => (delivered, None)
  end.
Fixpoint deliveries (delivered : list (Z * Z)) (ops : list op) (outs : list aout)
  : list (option (Z * Z * bytes)) :=
  match ops, outs with
  | o :: ops', out :: outs' =>
      let r := deliver_step delivered o out in
      snd r :: deliveries (fst r) ops' outs'
  | _, _ => []
  end.

(* ---------------------------------------------------------------------------------------- *)
(* Correspondence interface *)
Inductive case :=
| CSplit (dmax : Z) (sn : Z) (sp : spayload)   (* real Writer with data_max_size_serialized = dmax *)
| CHonest (ws : wtable) (arr : list arrival)   (* DATAFRAGs of one or several fragments (data_frag_msg /
                                                  data_frags_msg), fed to the assembler *)
| CRaw (ops : list op)                         (* arbitrary DataFrag field values *)
| CReader (ws : wtable) (arr : list arrival).  (* as CHonest, through a real Reader (hand-over guard) *)

Inductive obs :=
| OSplit (data : option bytes) (frags : list datafrag)  (* DATA payload / DATAFRAGs parsed back from the wire *)
| OAsm (outs : list aout)
| ODeliv (ds : list (option (Z * Z * bytes)))  (* per arrival: the cache change added to the topic cache *)
| OWriterPanic
| OInvalid.                                    (* case outside the modelled input space *)

Definition byte_okb (b : Z) : bool := (0 <=? b) && (b <? 256).
Definition sp_okb (sp : spayload) : bool :=
  byte_okb (sp_h0 sp) && byte_okb (sp_h1 sp) && byte_okb (sp_h2 sp) && byte_okb (sp_h3 sp)
  && forallb byte_okb (sp_value sp).

(* field ranges forced by the Rust types (u32, u16, Bytes shorter than 2^32 here) *)
Definition df_okb (df : datafrag) : bool :=
  (0 <=? df_start df) && (df_start df <? 2 ^ 32)
  && (0 <=? df_count df) && (df_count df <? 2 ^ 16)
  && (0 <=? df_data_size df) && (df_data_size df <? 2 ^ 32)
  && (0 <=? df_frag_size df) && (df_frag_size df <? 2 ^ 16)
  && (len (df_payload df) <? 2 ^ 32).
Definition op_okb (o : op) : bool :=
  match o with OFrag _ df => df_okb df | OGc _ _ => true end.

Definition wf_case (c : case) : bool :=
  match c with
  | CSplit dmax sn sp => (1 <=? dmax) && (dmax <=? 65535) && (payload_size sp <? 2 ^ 32) && sp_okb sp
  | CHonest ws arr => forallb (arrival_okb ws) arr
  | CRaw ops => forallb op_okb ops
  | CReader ws arr =>
      forallb (arrival_okb ws) arr
      && forallb (fun a => match a with AGc _ _ => false | _ => true end) arr
  end.

Definition run (c : case) : obs :=
  if negb (wf_case c) then OInvalid else
  match c with
  | CSplit dmax sn sp =>
      match send_cache_change dmax sp sn with
      | Panic => OWriterPanic
      | Ok (d, fr) => OSplit d fr
      end
  | CHonest ws arr => OAsm (run_ops new_datafrag 0 [] (map (to_op ws) arr))
  | CRaw ops => OAsm (run_ops new_datafrag 0 [] ops)
  | CReader ws arr =>
      let ops := map (to_op ws) arr in
      ODeliv (deliveries [] ops (run_ops new_datafrag 0 [] ops))
  end.

Definition bytes_eqb (a b : bytes) : bool :=
  (length a =? length b)%nat && forallb (fun p => fst p =? snd p) (combine a b).
Definition zlist_eqb := bytes_eqb.
Definition obytes_eqb (a b : option bytes) : bool :=
  match a, b with
  | None, None => true
  | Some x, Some y => bytes_eqb x y
  | _, _ => false
  end.
Definition df_eqb (a b : datafrag) : bool :=
  (df_sn a =? df_sn b) && (df_start a =? df_start b) && (df_count a =? df_count b)
  && (df_data_size a =? df_data_size b) && (df_frag_size a =? df_frag_size b)
  && bytes_eqb (df_payload a) (df_payload b).
Fixpoint dfs_eqb (a b : list datafrag) : bool :=
  match a, b with
  | [], [] => true
  | x :: a', y :: b' => df_eqb x y && dfs_eqb a' b'
  | _, _ => false
  end.
Definition aout_eqb (a b : aout) : bool :=
  match a, b with
  | AOut r m, AOut r' m' => obytes_eqb r r' && zlist_eqb m m'
  | AGcDone, AGcDone => true
  | APanic, APanic => true
  | _, _ => false
  end.
Fixpoint aouts_eqb (a b : list aout) : bool :=
  match a, b with
  | [], [] => true
  | x :: a', y :: b' => aout_eqb x y && aouts_eqb a' b'
  | _, _ => false
  end.
Definition deliv_eqb (a b : option (Z * Z * bytes)) : bool :=
  match a, b with
  | None, None => true
  | Some (w, sn, x), Some (w', sn', y) => (w =? w') && (sn =? sn') && bytes_eqb x y
  | _, _ => false
  end.
Fixpoint delivs_eqb (a b : list (option (Z * Z * bytes))) : bool :=
  match a, b with
  | [], [] => true
  | x :: a', y :: b' => deliv_eqb x y && delivs_eqb a' b'
  | _, _ => false
  end.
Definition obs_eqb (a b : obs) : bool :=
  match a, b with
  | OSplit d f, OSplit d' f' => obytes_eqb d d' && dfs_eqb f f'
  | OAsm o, OAsm o' => aouts_eqb o o'
  | ODeliv d, ODeliv d' => delivs_eqb d d'
  | OWriterPanic, OWriterPanic => true
  | OInvalid, OInvalid => true
  | _, _ => false
  end.

(* ---------------------------------------------------------------------------------------- *)
(* Property oracle: looks at inputs and observed outputs only.

   CSplit: a sample not larger than the fragment size goes out as one DATA with exactly the
     bytes written (followed by fewer than 4 bytes of alignment padding); a larger one as DATAFRAGs numbered 1..n, one fragment each, every fragment
     announcing data_size = |header ++ value| and the writer's fragment size, every fragment but
     the last exactly fragment-size long, the last one non-empty and not longer, and the
     concatenation of the fragments is exactly header ++ value.
   CHonest: the assembler hands over exactly the written bytes at the arrival that completes the
     set of fragment numbers (per attempt), nothing otherwise; the missing-fragment report is the
     complement of what arrived; no panic.  An arrival is one DATAFRAG that carries one fragment
     (AFrag) or several consecutive ones (AFrags: fragments_in_submessage > 1, as other vendors'
     writers send); both are judged alike: the DATAFRAG contributes all its fragment numbers.
   CRaw: no panic, one observation per DATAFRAG; whatever is handed over has the size that the
     completing DATAFRAG announces.
   CReader: the cache changes the Reader adds to its topic cache are exactly: per sample, one
     change carrying the written bytes, at the first arrival that completes the sample's fragment
     set ([deliveries] uses of the DATAFRAG only the writer and the sequence number). *)
Fixpoint frags_okb (sn fs total : Z) (k : Z) (fr : list datafrag) : bool :=
  match fr with
  | [] => false
  | [d] => (df_sn d =? sn) && (df_start d =? k) && (df_count d =? 1) && (df_data_size d =? total)
           && (df_frag_size d =? fs) && (1 <=? len (df_payload d)) && (len (df_payload d) <=? fs)
  | d :: fr' => (df_sn d =? sn) && (df_start d =? k) && (df_count d =? 1)
                && (df_data_size d =? total) && (df_frag_size d =? fs)
                && (len (df_payload d) =? fs) && frags_okb sn fs total (k + 1) fr'
  end.

Definition no_panicb (outs : list aout) : bool :=
  forallb (fun o => match o with APanic => false | _ => true end) outs.

Fixpoint raw_okb (ops : list op) (outs : list aout) : bool :=
  match ops, outs with
  | [], [] => true
  | OFrag _ df :: ops', AOut r _ :: outs' =>
      match r with Some b => len b =? df_data_size df | None => true end && raw_okb ops' outs'
  | OGc _ _ :: ops', AGcDone :: outs' => raw_okb ops' outs'
  | _, _ => false
  end.

Definition ok (c : case) (o : obs) : bool :=
  if negb (wf_case c) then match o with OInvalid => true | _ => false end else
  match c, o with
  | CSplit dmax sn sp, OSplit d fr =>
      if payload_size sp <=? dmax then
        match d with
        | Some x => bytes_eqb (firstn (length (hv sp)) x) (hv sp) && (len x <? len (hv sp) + 4)
        | None => false
        end && dfs_eqb fr []
      else match d with
           | None => frags_okb sn dmax (payload_size sp) 1 fr
                     && bytes_eqb (concat (map df_payload fr)) (hv sp)
           | Some _ => false
           end
  | CHonest ws arr, OAsm outs => aouts_eqb outs (spec_outs ws [] arr)
  | CRaw ops, OAsm outs => raw_okb ops outs
  | CReader ws arr, ODeliv ds =>
      delivs_eqb ds (deliveries [] (map (to_op ws) arr) (spec_outs ws [] arr))
  | _, _ => false
  end.
