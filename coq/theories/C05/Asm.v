(* C05 — reader side, hostile inputs: state invariant, absence of panics in the repaired
   new_datafrag for arbitrary DataFrag field values, frame property, and the panic witnesses for
   the code at the pinned commit. *)
From Coq Require Import List ZArith Lia Bool.
From RD Require Import C05.Model C05.Lists C05.Split.
Import ListNotations.
Open Scope Z_scope.

(* ---- checked arithmetic ---- *)
Lemma usub_ok a b : b <= a -> usub a b = Ok (a - b).
Proof. intros. unfold usub. destruct (Z.ltb_spec a b); [lia|reflexivity]. Qed.
Lemma umul_ok a b : a * b < USIZE -> umul a b = Ok (a * b).
Proof. intros. unfold umul. destruct (Z.ltb_spec (a * b) USIZE); [reflexivity|lia]. Qed.
Lemma uadd_ok a b : a + b < USIZE -> uadd a b = Ok (a + b).
Proof. intros. unfold uadd. destruct (Z.ltb_spec (a + b) USIZE); [reflexivity|lia]. Qed.
Lemma prefix_ok l n : n <= len l -> prefix l n = Ok (firstn (Z.to_nat n) l).
Proof. intros. unfold prefix. destruct (Z.leb_spec n (len l)); [reflexivity|lia]. Qed.
Lemma copy_into_ok buf from to src :
  from <= to -> to <= len buf -> len src = to - from ->
  copy_into buf from to src = Ok (firstn (Z.to_nat from) buf ++ src ++ skipn (Z.to_nat to) buf).
Proof.
  intros H1 H2 H3. unfold copy_into.
  destruct (Z.leb_spec from to); [|lia]. destruct (Z.leb_spec to (len buf)); [|lia].
  destruct (Z.eqb_spec (len src) (to - from)); [reflexivity|lia].
Qed.

(* ---- bitmap ---- *)
Lemma znth_upd {A} (l : list A) i v j d :
  0 <= i < len l -> 0 <= j -> znth j (upd l (Z.to_nat i) v) d = if j =? i then v else znth j l d.
Proof.
  unfold znth, len; intros Hi Hj. rewrite upd_nth by lia.
  destruct (Nat.eqb_spec (Z.to_nat j) (Z.to_nat i)), (Z.eqb_spec j i); try lia; reflexivity.
Qed.
Lemma len_upd {A} (l : list A) i v : len (upd l i v) = len l.
Proof. unfold len. now rewrite upd_length. Qed.

Lemma set_bits_ok c : forall bm i,
  0 <= i -> i + Z.of_nat c <= len bm ->
  exists bm', set_bits bm i c = Ok bm' /\ len bm' = len bm /\
    forall j, 0 <= j -> znth j bm' false =
                        if (i <=? j) && (j <? i + Z.of_nat c) then true else znth j bm false.
Proof.
  induction c as [|c IH]; intros bm i Hi Hc.
  - exists bm. split; [reflexivity|]. split; [reflexivity|].
    intros j Hj. destruct (Z.leb_spec i j), (Z.ltb_spec j (i + Z.of_nat 0)); cbn; try reflexivity; lia.
  - cbn [set_bits]. destruct (Z.ltb_spec i (len bm)); [|lia].
    destruct (IH (upd bm (Z.to_nat i) true) (i + 1)) as (bm' & E & L & N).
    + lia.
    + rewrite len_upd. lia.
    + exists bm'. split; [assumption|]. split; [now rewrite L, len_upd|].
      intros j Hj. rewrite N by assumption. rewrite znth_upd by lia.
      destruct (Z.leb_spec (i + 1) j), (Z.ltb_spec j (i + 1 + Z.of_nat c)),
               (Z.leb_spec i j), (Z.ltb_spec j (i + Z.of_nat (S c))), (Z.eqb_spec j i);
        cbn; try reflexivity; lia.
Qed.

(* ---- invariants ---- *)
Definition ab_inv (fs : Z) (ab : abuf) : Prop :=
  1 <= fs /\ fs <= len (ab_bytes ab) /\ len (ab_bytes ab) < 2 ^ 32
  /\ ab_count ab = total_frags (len (ab_bytes ab)) fs /\ len (ab_bitmap ab) = ab_count ab.

Definition fa_inv (fa : assembler) : Prop :=
  0 <= fa_fs fa < 2 ^ 16 /\ NoDup (map fst (fa_bufs fa))
  /\ Forall (fun kv => ab_inv (fa_fs fa) (snd kv)) (fa_bufs fa).

Definition rinv (st : rstate) : Prop := Forall (fun kv => fa_inv (snd kv)) st.

Definition df_ok (df : datafrag) : Prop :=
  0 <= df_start df < 2 ^ 32 /\ 0 <= df_count df < 2 ^ 16 /\ 0 <= df_data_size df < 2 ^ 32
  /\ 0 <= df_frag_size df < 2 ^ 16 /\ len (df_payload df) < 2 ^ 32.
Definition op_ok (o : op) : Prop := match o with OFrag _ df => df_ok df | OGc _ _ => True end.

Lemma df_okb_spec df : df_okb df = true <-> df_ok df.
Proof.
  unfold df_okb, df_ok. rewrite !andb_true_iff, !Z.leb_le, !Z.ltb_lt. tauto.
Qed.
Lemma op_okb_spec o : op_okb o = true <-> op_ok o.
Proof. destruct o; cbn; [apply df_okb_spec | tauto]. Qed.

Lemma fa_inv_lookup fa sn ab : fa_inv fa -> alookup sn (fa_bufs fa) = Some ab -> ab_inv (fa_fs fa) ab.
Proof.
  intros (_ & _ & F) H. apply alookup_in in H. rewrite Forall_forall in F. apply (F _ H).
Qed.
Lemma rinv_lookup st w fa : rinv st -> alookup w st = Some fa -> fa_inv fa.
Proof. intros F H. apply alookup_in in H. unfold rinv in F. rewrite Forall_forall in F. apply (F _ H). Qed.
Lemma rinv_ainsert st w fa : rinv st -> fa_inv fa -> rinv (ainsert w fa st).
Proof.
  intros F H. unfold rinv, ainsert. constructor; [assumption|].
  unfold rinv in F. rewrite Forall_forall in *. intros x Hx. apply F. now apply in_aremove in Hx.
Qed.
Lemma rinv_nil : rinv [].
Proof. constructor. Qed.

(* ---- AssemblyBuffer::new ---- *)
Lemma abuf_new_ok df now :
  df_ok df -> 1 <= df_frag_size df <= df_data_size df ->
  abuf_new df now =
    Ok {| ab_bytes := repeat 0 (Z.to_nat (df_data_size df));
          ab_count := total_frags (df_data_size df) (df_frag_size df);
          ab_bitmap := repeat false (Z.to_nat (total_frags (df_data_size df) (df_frag_size df)));
          ab_mtime := now |}
  /\ ab_inv (df_frag_size df)
       {| ab_bytes := repeat 0 (Z.to_nat (df_data_size df));
          ab_count := total_frags (df_data_size df) (df_frag_size df);
          ab_bitmap := repeat false (Z.to_nat (total_frags (df_data_size df) (df_frag_size df)));
          ab_mtime := now |}.
Proof.
  intros (Hs & Hc & Hd & Hf & Hp) Hfs. split.
  - unfold abuf_new, assert.
    destruct (Z.leb_spec (df_frag_size df) (df_data_size df)); [|lia].
    destruct (Z.ltb_spec 0 (df_frag_size df)); [|lia]. reflexivity.
  - unfold ab_inv. cbn [ab_bytes ab_count ab_bitmap]. rewrite !len_repeat.
    pose proof (total_frags_nonneg (df_data_size df) (df_frag_size df) ltac:(lia)).
    rewrite !Z2Nat.id by lia. repeat split; try lia.
Qed.

(* ---- insert_frags on a fragment that passed validation ---- *)
Definition ins_from (df : datafrag) (fs : Z) : Z := (df_start df - 1) * fs.
Definition ins_to (df : datafrag) (fs D : Z) : Z := Z.min ((df_start df - 1 + df_count df) * fs) D.

Lemma insert_frags_valid ab df fs now :
  ab_inv fs ab -> df_ok df ->
  1 <= df_start df -> 1 <= df_count df ->
  df_start df - 1 + df_count df <= ab_count ab ->
  ins_to df fs (len (ab_bytes ab)) - ins_from df fs <= len (df_payload df) ->
  exists bm,
    set_bits (ab_bitmap ab) (df_start df - 1) (Z.to_nat (df_count df)) = Ok bm
    /\ insert_frags ab df fs now =
       Ok {| ab_bytes := firstn (Z.to_nat (ins_from df fs)) (ab_bytes ab)
                         ++ firstn (Z.to_nat (ins_to df fs (len (ab_bytes ab)) - ins_from df fs))
                                   (df_payload df)
                         ++ skipn (Z.to_nat (ins_to df fs (len (ab_bytes ab)))) (ab_bytes ab);
             ab_count := ab_count ab; ab_bitmap := bm; ab_mtime := now |}
    /\ ins_from df fs < ins_to df fs (len (ab_bytes ab)) <= len (ab_bytes ab)
    /\ 0 <= ins_from df fs.
Proof.
  intros (Hfs & HfsD & HD & Hcnt & Hbm) (Hs & Hc & Hd & Hf & Hp) Hs1 Hc1 Hspan Hplen.
  set (D := len (ab_bytes ab)) in *.
  set (s0 := df_start df - 1) in *.
  set (c := df_count df) in *.
  set (pl := len (df_payload df)) in *.
  assert (HD1 : 1 <= D) by lia.
  pose proof (total_frags_lower D fs Hfs HD1) as TL.
  pose proof (total_frags_upper D fs Hfs ltac:(lia)) as TU.
  pose proof (len_nonneg (df_payload df)) as Hpl0. fold pl in Hpl0.
  assert (Hfs16 : fs < 2 ^ 32) by lia.
  unfold ins_from, ins_to in *. fold s0 c D in Hplen |- *.
  assert (Hfrom : s0 * fs < D) by nia.
  assert (Hfrom0 : 0 <= s0 * fs) by nia.
  (* the copy end computed by the code equals ins_to *)
  assert (Hto : Z.min (s0 * fs + Z.min (c * fs) pl) D = Z.min ((s0 + c) * fs) D) by nia.
  destruct (set_bits_ok (Z.to_nat c) (ab_bitmap ab) s0) as (bm & Eb & Lb & Nb).
  { lia. } { rewrite Z2Nat.id by lia. lia. }
  exists bm. split; [assumption|]. split; [|split; [nia|assumption]].
  unfold insert_frags. fold s0 c.
  rewrite usub_ok by lia. cbn [bind]. change (df_start df - 1) with s0.
  assert (B1 : s0 * fs < USIZE) by (unfold USIZE; nia).
  rewrite umul_ok by assumption. cbn [bind].
  assert (B2 : c * fs < USIZE) by (unfold USIZE; nia).
  rewrite umul_ok by assumption. cbn [bind].
  assert (B3 : s0 * fs + Z.min (c * fs) pl < USIZE) by (unfold USIZE; nia).
  fold pl. rewrite uadd_ok by assumption. cbn [bind]. fold D.
  rewrite Hto.
  rewrite usub_ok by nia. cbn [bind].
  rewrite uadd_ok by (unfold USIZE; lia). cbn [bind].
  rewrite prefix_ok by (fold pl; lia). cbn [bind].
  rewrite copy_into_ok; [| nia | fold D; lia |].
  2:{ rewrite len_firstn; [reflexivity|]. fold pl. nia. }
  cbn [bind]. rewrite Eb. cbn [bind]. reflexivity.
Qed.

Lemma insert_bytes_len (buf : bytes) from to (src : bytes) :
  0 <= from <= to -> to <= len buf -> len src = to - from ->
  len (firstn (Z.to_nat from) buf ++ src ++ skipn (Z.to_nat to) buf) = len buf.
Proof.
  intros. rewrite !len_app, len_firstn, len_skipn by lia. lia.
Qed.

(* ---- frame of assemble (any version, any DATAFRAG) ---- *)
Lemma assemble_frame fa df now fa' r :
  assemble fa df now = Ok (fa', r) ->
  fa_fs fa' = fa_fs fa
  /\ forall sn', sn' <> df_sn df -> alookup sn' (fa_bufs fa') = alookup sn' (fa_bufs fa).
Proof.
  unfold assemble. intros H.
  destruct (match alookup (df_sn df) (fa_bufs fa) with Some ab => Ok ab | None => abuf_new df now end)
    as [|ab0]; [discriminate|].
  cbn [bind] in H. destruct (insert_frags ab0 df (fa_fs fa) now) as [|ab]; [discriminate|].
  cbn [bind] in H. destruct (is_complete ab); inversion H; subst; cbn [fa_fs fa_bufs];
    (split; [reflexivity|]); intros sn' N.
  - now apply alookup_aremove_neq.
  - now apply alookup_ainsert_neq.
Qed.

Lemma validate_spec fa df :
  validate_datafrag fa df = true <->
  df_frag_size df = fa_fs fa /\ 1 <= df_frag_size df <= df_data_size df
  /\ 1 <= df_start df /\ 1 <= df_count df
  /\ df_start df - 1 + df_count df <= total_frags (df_data_size df) (df_frag_size df)
  /\ ins_to df (df_frag_size df) (df_data_size df) - ins_from df (df_frag_size df)
       <= len (df_payload df)
  /\ match alookup (df_sn df) (fa_bufs fa) with
     | Some ab => len (ab_bytes ab) = df_data_size df
     | None => True
     end.
Proof.
  unfold validate_datafrag, ins_to, ins_from.
  rewrite !andb_true_iff, !Z.leb_le, Z.eqb_eq.
  destruct (alookup (df_sn df) (fa_bufs fa)); [rewrite Z.eqb_eq|]; intuition.
Qed.

(* ---- assemble after validation: no panic, invariant kept ---- *)
Lemma is_complete_all bm : forallb (fun b => b) bm = true <-> forall j, 0 <= j < len bm -> znth j bm false = true.
Proof.
  rewrite forallb_forall. split.
  - intros H j Hj. apply H. unfold znth. apply nth_In. unfold len in Hj. lia.
  - intros H x Hx. apply (In_nth _ _ false) in Hx as (n & Hn & <-).
    specialize (H (Z.of_nat n)). unfold znth in H. rewrite Nat2Z.id in H. apply H. unfold len. lia.
Qed.

Lemma assemble_valid fa df now :
  fa_inv fa -> df_ok df -> validate_datafrag fa df = true ->
  exists fa' r, assemble fa df now = Ok (fa', r) /\ fa_inv fa'
    /\ (forall b, r = Some b -> len b = df_data_size df).
Proof.
  intros Hinv Hdf Hv. apply validate_spec in Hv as (Hfs & Hfsd & Hs1 & Hc1 & Hspan & Hpl & Hbuf).
  destruct Hinv as (Hfa & Hnd & Hall).
  unfold assemble.
  (* the buffer the fragment goes into *)
  assert (exists ab0,
    match alookup (df_sn df) (fa_bufs fa) with Some ab => Ok ab | None => abuf_new df now end = Ok ab0
    /\ ab_inv (fa_fs fa) ab0 /\ len (ab_bytes ab0) = df_data_size df) as (ab0 & E0 & I0 & L0).
  { destruct (alookup (df_sn df) (fa_bufs fa)) as [ab|] eqn:El.
    - exists ab. split; [reflexivity|]. split; [|assumption].
      apply alookup_in in El. rewrite Forall_forall in Hall. apply (Hall _ El).
    - destruct (abuf_new_ok df now Hdf Hfsd) as (E & I). eexists. split; [exact E|].
      rewrite <- Hfs. split; [exact I|]. cbn [ab_bytes]. rewrite len_repeat.
      destruct Hdf as (_ & _ & ? & _). lia. }
  rewrite E0. cbn [bind].
  assert (Hcnt : ab_count ab0 = total_frags (df_data_size df) (df_frag_size df)).
  { destruct I0 as (_ & _ & _ & C & _). rewrite C, L0, Hfs. reflexivity. }
  destruct (insert_frags_valid ab0 df (fa_fs fa) now I0 Hdf Hs1 Hc1) as (bm & Eb & Ei & Hrange & Hfrom0).
  { rewrite Hcnt. assumption. }
  { rewrite L0, <- Hfs. assumption. }
  rewrite Ei. cbn [bind].
  set (ab := {| ab_bytes := _; ab_count := _; ab_bitmap := bm; ab_mtime := now |}).
  assert (Lab : len (ab_bytes ab) = len (ab_bytes ab0)).
  { subst ab. cbn [ab_bytes]. apply insert_bytes_len; [lia|lia|].
    rewrite len_firstn; [reflexivity|]. rewrite L0 in Hrange |- *. rewrite <- Hfs in Hrange |- *. lia. }
  assert (Iab : ab_inv (fa_fs fa) ab).
  { destruct I0 as (A & B & C & D & E). unfold ab_inv. rewrite Lab.
    subst ab. cbn [ab_count ab_bitmap]. repeat split; try assumption.
    destruct (set_bits_ok (Z.to_nat (df_count df)) (ab_bitmap ab0) (df_start df - 1)) as (bm' & Eb' & Lb' & _).
    { lia. } { rewrite Z2Nat.id by lia. rewrite E, Hcnt. lia. }
    rewrite Eb in Eb'. inversion Eb'; subst bm'. lia. }
  destruct (is_complete ab).
  - eexists _, _. split; [reflexivity|]. split.
    + unfold fa_inv. cbn [fa_fs fa_bufs]. split; [assumption|]. split; [now apply aremove_nodup|].
      rewrite Forall_forall in *. intros x Hx. apply Hall. now apply in_aremove in Hx.
    + intros b Hb. destruct (4 <=? len (ab_bytes ab)); inversion Hb; subst. exact (eq_trans Lab L0).
  - eexists _, _. split; [reflexivity|]. split.
    + unfold fa_inv. cbn [fa_fs fa_bufs]. split; [assumption|]. split; [now apply ainsert_nodup|].
      unfold ainsert. constructor; [exact Iab|].
      rewrite Forall_forall in *. intros x Hx. apply Hall. now apply in_aremove in Hx.
    + intros b Hb. discriminate.
Qed.

Lemma new_datafrag_ok fa df now :
  fa_inv fa -> df_ok df ->
  exists fa' r, new_datafrag fa df now = Ok (fa', r) /\ fa_inv fa'
    /\ (forall b, r = Some b -> len b = df_data_size df).
Proof.
  intros Hinv Hdf. unfold new_datafrag.
  destruct (validate_datafrag fa df) eqn:V.
  - now apply assemble_valid.
  - exists fa, None. split; [reflexivity|]. split; [assumption|]. intros b Hb; discriminate.
Qed.

Lemma new_datafrag_frame fa df now fa' r :
  new_datafrag fa df now = Ok (fa', r) ->
  fa_fs fa' = fa_fs fa
  /\ forall sn', sn' <> df_sn df -> alookup sn' (fa_bufs fa') = alookup sn' (fa_bufs fa).
Proof.
  unfold new_datafrag. destruct (validate_datafrag fa df).
  - apply assemble_frame.
  - intros H; inversion H; subst. split; [reflexivity|]. intros; reflexivity.
Qed.

Lemma gc_inv fa t : fa_inv fa -> fa_inv (garbage_collect_before fa t).
Proof.
  intros (A & B & C). unfold fa_inv, garbage_collect_before. cbn [fa_fs fa_bufs].
  split; [assumption|]. split; [now apply filter_nodup_keys|].
  rewrite Forall_forall in *. intros x Hx. apply C. now apply filter_In in Hx.
Qed.

(* ---- reader level ---- *)
Definition fa_of (st : rstate) (w : Z) (df : datafrag) : assembler :=
  match alookup w st with
  | Some fa => fa
  | None => {| fa_fs := df_frag_size df; fa_bufs := [] |}
  end.

Lemma fa_of_inv st w df : rinv st -> df_ok df -> fa_inv (fa_of st w df).
Proof.
  intros R Hdf. unfold fa_of. destruct (alookup w st) eqn:E.
  - eapply rinv_lookup; eassumption.
  - unfold fa_inv. cbn. destruct Hdf as (_ & _ & _ & ? & _). split; [lia|]. split; constructor.
Qed.

Lemma step_ok now st o :
  rinv st -> op_ok o ->
  exists st' out, step new_datafrag now st o = Ok (st', out) /\ rinv st' /\ out <> APanic
    /\ match o, out with
       | OFrag _ df, AOut r _ => forall b, r = Some b -> len b = df_data_size df
       | OGc _ _, AGcDone => True
       | _, _ => False
       end.
Proof.
  intros R Ho. destruct o as [w df|w t]; cbn [step].
  - fold (fa_of st w df).
    destruct (new_datafrag_ok (fa_of st w df) df now (fa_of_inv st w df R Ho) Ho) as (fa' & r & E & I & L).
    rewrite E. cbn [bind fst snd]. eexists _, _. split; [reflexivity|].
    split; [now apply rinv_ainsert|]. split; [discriminate|exact L].
  - destruct (alookup w st) as [fa|] eqn:E.
    + eexists _, _. split; [reflexivity|]. split; [|split; [discriminate|exact I]].
      apply rinv_ainsert; [assumption|]. apply gc_inv. eapply rinv_lookup; eassumption.
    + eexists _, _. split; [reflexivity|]. split; [assumption|]. split; [discriminate|exact I].
Qed.

(* C05_no_panic, run level: no operation sequence makes the repaired assembler panic *)
Lemma run_ops_no_panic ops : forall now st,
  rinv st -> Forall op_ok ops ->
  raw_okb ops (run_ops new_datafrag now st ops) = true.
Proof.
  induction ops as [|o ops IH]; intros now st R F; [reflexivity|].
  inversion F as [|? ? Ho F']; subst.
  destruct (step_ok now st o R Ho) as (st' & out & E & R' & NP & Hm).
  cbn [run_ops]. rewrite E.
  destruct o as [w df|w t], out as [r m| |]; try contradiction; cbn [raw_okb].
  - rewrite IH by assumption. rewrite andb_true_r.
    destruct r as [b|]; [|reflexivity]. apply Z.eqb_eq. now apply Hm.
  - now apply IH.
Qed.

Lemma raw_okb_no_panic ops outs : raw_okb ops outs = true -> no_panicb outs = true /\ length outs = length ops.
Proof.
  revert outs; induction ops as [|o ops IH]; intros [|out outs] H; cbn in H; try discriminate.
  - split; reflexivity.
  - destruct o; discriminate.
  - destruct o as [w df|w t], out as [r m| |]; try discriminate.
    + apply andb_true_iff in H as [_ H]. apply IH in H as [H1 H2]. split; [exact H1|]. cbn. now rewrite H2.
    + apply IH in H as [H1 H2]. split; [exact H1|]. cbn. now rewrite H2.
Qed.

(* ---- frame at the reader level ---- *)
Definition buf_at (st : rstate) (w sn : Z) : option abuf :=
  match alookup w st with Some fa => alookup sn (fa_bufs fa) | None => None end.
Definition fs_at (st : rstate) (w : Z) : option Z :=
  match alookup w st with Some fa => Some (fa_fs fa) | None => None end.

(* nd : either version of new_datafrag *)
Definition nd_frame (nd : njd) : Prop :=
  forall fa df now fa' r, nd fa df now = Ok (fa', r) ->
    fa_fs fa' = fa_fs fa
    /\ forall sn', sn' <> df_sn df -> alookup sn' (fa_bufs fa') = alookup sn' (fa_bufs fa).
Lemma nd_frame_new : nd_frame new_datafrag.
Proof. exact new_datafrag_frame. Qed.
Lemma nd_frame_old : nd_frame new_datafrag_old.
Proof. exact assemble_frame. Qed.

(* C05_frame: a DATAFRAG of (w, sn) — any field values — never changes the assembly buffer of
   another sample, of the same or of another writer *)
Lemma step_frame nd now st w df st' out w' sn' :
  nd_frame nd ->
  step nd now st (OFrag w df) = Ok (st', out) ->
  (w', sn') <> (w, df_sn df) ->
  buf_at st' w' sn' = buf_at st w' sn'.
Proof.
  intros NF H N. cbn [step] in H.
  destruct (nd (fa_of st w df) df now) as [|[fa' r]] eqn:E;
    unfold fa_of in E; rewrite E in H; [discriminate|].
  cbn [bind fst snd] in H. inversion H; subst. clear H.
  apply NF in E as (Efs & Eb). unfold buf_at.
  destruct (Z.eq_dec w' w) as [->|Nw].
  - rewrite alookup_ainsert_eq. assert (sn' <> df_sn df) by congruence.
    rewrite Eb by assumption. destruct (alookup w st); reflexivity.
  - now rewrite alookup_ainsert_neq.
Qed.

Lemma step_frame_fs nd now st w df st' out w' :
  nd_frame nd ->
  step nd now st (OFrag w df) = Ok (st', out) ->
  fs_at st' w' = match fs_at st w' with
                 | Some fs => Some fs
                 | None => if w' =? w then Some (df_frag_size df) else None
                 end.
Proof.
  intros NF H. cbn [step] in H.
  destruct (nd (fa_of st w df) df now) as [|[fa' r]] eqn:E;
    unfold fa_of in E; rewrite E in H; [discriminate|].
  cbn [bind fst snd] in H. inversion H; subst. clear H.
  apply NF in E as (Efs & _). unfold fs_at.
  destruct (Z.eqb_spec w' w) as [->|Nw].
  - rewrite alookup_ainsert_eq, Efs. destruct (alookup w st); reflexivity.
  - rewrite alookup_ainsert_neq by assumption. destruct (alookup w' st); reflexivity.
Qed.

Lemma step_gc_frame nd now st w t st' out w' sn' :
  step nd now st (OGc w t) = Ok (st', out) ->
  w' <> w -> buf_at st' w' sn' = buf_at st w' sn'.
Proof.
  cbn [step]. intros H N. destruct (alookup w st) eqn:E; inversion H; subst; [|reflexivity].
  unfold buf_at. now rewrite alookup_ainsert_neq.
Qed.

(* ---- the code at the pinned commit panics (findings F2a, F2b, F2c) ---- *)
Definition witness_a : list op :=
  [OFrag 0 {| df_sn := 1; df_start := 1; df_count := 65535; df_data_size := 8; df_frag_size := 4;
              df_payload := [1; 2; 3; 4; 5; 6; 7; 8] |}].
Definition witness_b : list op :=
  [OFrag 0 {| df_sn := 1; df_start := 1; df_count := 1; df_data_size := 120000;
              df_frag_size := 60000; df_payload := [9; 9; 9; 9; 9; 9; 9; 9] |};
   OFrag 0 {| df_sn := 2; df_start := 10; df_count := 1; df_data_size := 10; df_frag_size := 1;
              df_payload := [1] |}].
Definition witness_c : list op :=
  [OFrag 0 {| df_sn := 1; df_start := 1; df_count := 1; df_data_size := 8; df_frag_size := 4;
              df_payload := [1; 2; 3; 4] |};
   OFrag 0 {| df_sn := 1; df_start := 4; df_count := 1; df_data_size := 16; df_frag_size := 4;
              df_payload := [1; 2; 3; 4] |}].

Definition panics (outs : list aout) : bool := negb (no_panicb outs).

Lemma insert_frags_old_panics :
  Forall (fun ops => forallb op_okb ops = true
                     /\ panics (run_ops new_datafrag_old 0 [] ops) = true
                     /\ panics (run_ops new_datafrag 0 [] ops) = false)
         [witness_a; witness_b; witness_c].
Proof. repeat constructor; vm_compute; reflexivity. Qed.
