(* C05 — corollaries in plain terms (first completion, delivery once), oracle soundness and
   model_ok. *)
From Coq Require Import List ZArith Lia Bool.
From RD Require Import C05.Model C05.Lists C05.Split C05.Asm C05.Reasm.
Import ListNotations.
Open Scope Z_scope.

(* ---- covers / missing_of depend on the set only ---- *)
Lemma forallb_ext' {A} (f g : A -> bool) l : (forall x, f x = g x) -> forallb f l = forallb g l.
Proof. intros H. induction l; cbn; [reflexivity|]. now rewrite H, IHl. Qed.
Lemma covers_ext n S S' : (forall x, memz x S = memz x S') -> covers n S = covers n S'.
Proof. intros H. unfold covers. apply forallb_ext'. intros x. apply H. Qed.
Lemma missing_ext n S S' : (forall x, memz x S = memz x S') -> missing_of n S = missing_of n S'.
Proof. intros H. unfold missing_of. apply filter_ext. intros x. now rewrite H. Qed.
Lemma memz_rev x S : memz x (rev S) = memz x S.
Proof.
  induction S as [|y S IH]; [reflexivity|]. cbn [rev]. rewrite memz_app, IH, memz_cons.
  cbn [memz existsb]. rewrite orb_false_r. apply orb_comm.
Qed.
Lemma covers_mono n S T : covers n S = true -> (forall x, memz x S = true -> memz x T = true) -> covers n T = true.
Proof. rewrite !covers_spec. intros H HT k Hk. apply HT. now apply H. Qed.

(* fragment numbers of a sample among events, in arrival order *)
Definition kfrags (es : list kev) : list Z :=
  flat_map (fun e => match e with KFrag k c => frag_nums k c | _ => [] end) es.
Definition no_gc (es : list kev) : Prop := forall e, In e es -> match e with KGc _ => False | _ => True end.

Lemma kfrags_app es es' : kfrags (es ++ es') = kfrags es ++ kfrags es'.
Proof. unfold kfrags. apply flat_map_app. Qed.

(* As long as the fragments received do not cover the sample and no assembly timeout struck, the
   specification state is just the set of all fragment numbers received so far. *)
Lemma krun_no_reset n es : forall t,
  no_gc es -> covers n (kfrags es) = false ->
  forall x, memz x (fst (krun n t k0 es)) = memz x (kfrags es).
Proof.
  induction es as [|e es IH] using rev_ind; intros t Hg Hc x; [reflexivity|].
  rewrite krun_snoc. rewrite kfrags_app in *.
  assert (Hg' : no_gc es) by (intros e' He'; apply Hg; apply in_or_app; now left).
  assert (Hc' : covers n (kfrags es) = false).
  { destruct (covers n (kfrags es)) eqn:C; [|reflexivity].
    rewrite (covers_mono n (kfrags es) (kfrags es ++ kfrags [e]) C) in Hc; [discriminate|].
    intros y Hy. rewrite memz_app, Hy. reflexivity. }
  specialize (IH t Hg' Hc').
  destruct e as [k c|g|].
  - cbn [kfrags flat_map] in *. rewrite app_nil_r in *. cbn [kstep].
    assert (E : forall y, memz y (frag_nums k c ++ fst (krun n t k0 es))
                          = memz y (kfrags es ++ frag_nums k c)).
    { intros y. rewrite !memz_app, IH. apply orb_comm. }
    rewrite (covers_ext n _ _ E), Hc. cbn [fst]. apply E.
  - exfalso. apply (Hg (KGc g)). apply in_or_app. right. now left.
  - cbn [kstep kfrags flat_map app]. rewrite app_nil_r. apply IH.
Qed.

Section KeyCorollaries.
  Variables (w sn fs : Z) (sp : spayload).
  Hypothesis Hfs : 1 <= fs <= 65535.
  Hypothesis HD : fs < payload_size sp < 2 ^ 32.
  Let n := total_frags (payload_size sp) fs.

  (* C05_first_completion: nothing is handed over while fragments are missing; exactly
     header ++ value is handed over at the arrival that completes the set *)
  Theorem first_completion pre o post k c :
    Forall op_ok (pre ++ o :: post) ->
    Forall (op_honest w sn fs sp) (pre ++ o :: post) ->
    kev_of_op w sn o = KFrag k c ->
    no_gc (map (kev_of_op w sn) pre) ->
    covers n (kfrags (map (kev_of_op w sn) pre)) = false ->
    nth (length pre) (run_ops new_datafrag 0 [] (pre ++ o :: post)) APanic
    = if covers n (frag_nums k c ++ kfrags (map (kev_of_op w sn) pre))
      then AOut (Some (hv sp)) []
      else AOut None (missing_of n (frag_nums k c ++ kfrags (map (kev_of_op w sn) pre))).
  Proof.
    intros Fok Fh Hk Hg Hc.
    rewrite (run_key w sn fs sp Hfs HD pre 0 [] k0 o post k c rinv_nil (R_nil w sn fs sp) Fok Fh Hk).
    unfold expected. fold n.
    pose proof (krun_no_reset n (map (kev_of_op w sn) pre) 0 Hg Hc) as E.
    assert (E' : forall x, memz x (frag_nums k c ++ fst (krun n 0 k0 (map (kev_of_op w sn) pre)))
                         = memz x (frag_nums k c ++ kfrags (map (kev_of_op w sn) pre))).
    { intros x. rewrite !memz_app, E. reflexivity. }
    rewrite (covers_ext n _ _ E'), (missing_ext n _ _ E'). reflexivity.
  Qed.
End KeyCorollaries.

(* ---------------------------------------------------------------------------------------- *)
(* Delivery guard *)
Definition dkeys (ds : list (option (Z * Z * bytes))) : list (Z * Z) :=
  flat_map (fun d => match d with Some (w, sn, _) => [(w, sn)] | None => [] end) ds.

Lemma key_eqb_spec a b : key_eqb a b = true <-> a = b.
Proof.
  destruct a as [a1 a2], b as [b1 b2]. unfold key_eqb. cbn [fst snd].
  rewrite andb_true_iff, !Z.eqb_eq. split; [intros [-> ->]; reflexivity | intros [= -> ->]; auto].
Qed.
Lemma existsb_key x dl : existsb (key_eqb x) dl = true <-> In x dl.
Proof.
  rewrite existsb_exists. split.
  - intros (y & Hy & E). apply key_eqb_spec in E. now subst.
  - intros H. exists x. split; [assumption|]. now apply key_eqb_spec.
Qed.

Lemma deliveries_keys ops : forall outs dl,
  NoDup (dkeys (deliveries dl ops outs))
  /\ forall x, In x (dkeys (deliveries dl ops outs)) -> ~ In x dl.
Proof.
  induction ops as [|o ops IH]; intros outs dl; [cbn; split; [constructor|tauto]|].
  destruct outs as [|out outs]; [cbn; split; [constructor|tauto]|].
  cbn [deliveries].
  destruct o as [w df|w t]; [|destruct (IH outs dl) as (A & B); cbn; split; assumption].
  destruct out as [[b|] m| |]; try (destruct (IH outs dl) as (A & B); cbn; split; assumption).
  cbn [deliver_step].
  destruct (existsb (key_eqb (w, df_sn df)) dl) eqn:Ex; cbn [fst snd].
  - destruct (IH outs dl) as (A & B). cbn [dkeys flat_map app]. split; assumption.
  - destruct (IH outs ((w, df_sn df) :: dl)) as (A & B).
    cbn [dkeys flat_map app]. fold (dkeys (deliveries ((w, df_sn df) :: dl) ops outs)). split.
    + constructor; [|assumption]. intros Hin. apply (B _ Hin). now left.
    + intros x [<-|Hx].
      * intros Hin. apply existsb_key in Hin. congruence.
      * intros Hin. apply (B _ Hx). now right.
Qed.

(* every delivery is an assembler output for that sample at that position *)
Lemma deliveries_sound ops : forall outs dl i w sn b,
  nth_error (deliveries dl ops outs) i = Some (Some (w, sn, b)) ->
  exists df m, nth_error ops i = Some (OFrag w df) /\ df_sn df = sn
               /\ nth_error outs i = Some (AOut (Some b) m).
Proof.
  induction ops as [|o ops IH]; intros outs dl i w sn b H; [destruct i; discriminate|].
  destruct outs as [|out outs]; [destruct i; discriminate|].
  cbn [deliveries] in H. destruct i as [|i]; cbn [nth_error] in *.
  - destruct o as [w' df|w' t]; [|discriminate].
    destruct out as [[b'|] m| |]; try discriminate. cbn [deliver_step] in H.
    destruct (existsb (key_eqb (w', df_sn df)) dl); cbn [snd] in H; [discriminate|].
    inversion H; subst. eexists _, _. repeat split.
  - eapply IH. exact H.
Qed.

(* a completed sample is delivered at that position unless it was delivered before *)
Lemma deliveries_complete ops : forall outs dl i w df b m,
  nth_error ops i = Some (OFrag w df) -> nth_error outs i = Some (AOut (Some b) m) ->
  In (w, df_sn df) dl
  \/ exists j b', (j <= i)%nat /\ nth_error (deliveries dl ops outs) j = Some (Some (w, df_sn df, b')).
Proof.
  induction ops as [|o ops IH]; intros outs dl i w df b m Ho Hout; [destruct i; discriminate|].
  destruct outs as [|out outs]; [destruct i; discriminate|].
  destruct i as [|i]; cbn [nth_error] in Ho, Hout.
  - inversion Ho; inversion Hout; subst. cbn [deliveries deliver_step].
    destruct (existsb (key_eqb (w, df_sn df)) dl) eqn:Ex.
    + left. now apply existsb_key.
    + right. exists 0%nat, b. split; [lia|reflexivity].
  - cbn [deliveries].
    destruct (IH outs (fst (deliver_step dl o out)) i w df b m Ho Hout) as [Hin|(j & b' & Hj & E)].
    + destruct o as [w' df'|]; [|left; exact Hin].
      destruct out as [[b'|] m'| |]; try (left; exact Hin). cbn [deliver_step] in *.
      destruct (existsb (key_eqb (w', df_sn df')) dl) eqn:Ex; cbn [fst] in Hin; [left; exact Hin|].
      destruct Hin as [Heq|Hin]; [|left; exact Hin].
      injection Heq as H1 H2. right. exists 0%nat, b'. split; [lia|]. cbn [nth_error snd].
      rewrite H1, H2. reflexivity.
    + right. exists (S j), b'. split; [lia|exact E].
Qed.

Section Once.
  Variables (w sn fs : Z) (sp : spayload).
  Hypothesis Hfs : 1 <= fs <= 65535.
  Hypothesis HD : fs < payload_size sp < 2 ^ 32.
  Let n := total_frags (payload_size sp) fs.

  Lemma nth_error_split {A} (l : list A) i x :
    nth_error l i = Some x -> exists pre post, l = pre ++ x :: post /\ length pre = i.
  Proof.
    intros H. apply nth_error_split in H as (pre & post & -> & <-). now exists pre, post.
  Qed.

  (* C05_once *)
  Theorem once ops :
    Forall op_ok ops -> Forall (op_honest w sn fs sp) ops ->
    let outs := run_ops new_datafrag 0 [] ops in
    let ds := deliveries [] ops outs in
    (* at most one hand-over per sample, for every sample of every writer *)
    NoDup (dkeys ds)
    (* what is handed over for (w, sn) is exactly header ++ value *)
    /\ (forall i b, nth_error ds i = Some (Some (w, sn, b)) -> b = hv sp)
    (* once the assembler has completed (w, sn), it has been handed over, then or earlier *)
    /\ (forall i b m, nth_error outs i = Some (AOut (Some b) m) ->
          (exists df, nth_error ops i = Some (OFrag w df) /\ df_sn df = sn) ->
          exists j, (j <= i)%nat /\ nth_error ds j = Some (Some (w, sn, hv sp))).
  Proof.
    intros Fok Fh outs ds.
    assert (Hb : forall i b, nth_error ds i = Some (Some (w, sn, b)) -> b = hv sp).
    { intros i b H. apply deliveries_sound in H as (df & m & Ho & Hsn & Hout).
      destruct (nth_error_split ops i _ Ho) as (pre & post & -> & Hl).
      pose proof (run_key w sn fs sp Hfs HD pre 0 [] k0 (OFrag w df) post (df_start df) (df_count df)
                    rinv_nil (R_nil w sn fs sp) Fok Fh) as Hk.
      cbn [kev_of_op] in Hk. rewrite Z.eqb_refl, Hsn, Z.eqb_refl in Hk. specialize (Hk eq_refl).
      apply (nth_error_nth _ _ APanic) in Hout. rewrite <- Hl in Hout. subst outs.
      rewrite Hk in Hout. unfold expected in Hout.
      destruct (covers _ _); inversion Hout; reflexivity. }
    split; [apply (deliveries_keys ops outs [])|]. split; [exact Hb|].
    intros i b m Hout (df & Ho & Hsn).
    destruct (deliveries_complete ops outs [] i w df b m Ho Hout) as [[]|(j & b' & Hj & E)].
    rewrite Hsn in E. fold ds in E. exists j. split; [exact Hj|].
    now rewrite (Hb j b' E) in E.
  Qed.
End Once.

(* ---------------------------------------------------------------------------------------- *)
(* decidable equalities of the observation comparers *)
Lemma bytes_eqb_spec a b : bytes_eqb a b = true <-> a = b.
Proof.
  unfold bytes_eqb. rewrite andb_true_iff, Nat.eqb_eq. split.
  - intros (L & H). revert b L H. induction a as [|x a IH]; intros [|y b] L H; try discriminate; [reflexivity|].
    cbn in *. apply andb_true_iff in H as (E & H). apply Z.eqb_eq in E. subst. f_equal. apply IH; [lia|assumption].
  - intros <-. split; [reflexivity|]. induction a as [|x a IH]; [reflexivity|]. cbn. now rewrite Z.eqb_refl.
Qed.
Lemma obytes_eqb_spec a b : obytes_eqb a b = true <-> a = b.
Proof.
  destruct a, b; cbn; try (split; [discriminate|discriminate]); [|tauto].
  rewrite bytes_eqb_spec. split; [now intros ->|now intros [= ->]].
Qed.
Lemma aout_eqb_spec a b : aout_eqb a b = true <-> a = b.
Proof.
  destruct a as [r m| |], b as [r' m'| |]; cbn; try (split; [discriminate|discriminate]); try tauto.
  rewrite andb_true_iff, obytes_eqb_spec. unfold zlist_eqb. rewrite bytes_eqb_spec.
  split; [now intros [-> ->]|now intros [= -> ->]].
Qed.
Lemma aouts_eqb_spec a : forall b, aouts_eqb a b = true <-> a = b.
Proof.
  induction a as [|x a IH]; intros [|y b]; cbn; try (split; [discriminate|discriminate]); [tauto|].
  rewrite andb_true_iff, aout_eqb_spec, IH. split; [now intros [-> ->]|now intros [= -> ->]].
Qed.
Lemma df_eqb_spec a b : df_eqb a b = true <-> a = b.
Proof.
  destruct a, b. unfold df_eqb. cbn. rewrite !andb_true_iff, !Z.eqb_eq, bytes_eqb_spec.
  split; [intros (((((-> & ->) & ->) & ->) & ->) & ->); reflexivity | intros [= -> -> -> -> -> ->]; tauto].
Qed.
Lemma dfs_eqb_spec a : forall b, dfs_eqb a b = true <-> a = b.
Proof.
  induction a as [|x a IH]; intros [|y b]; cbn; try (split; [discriminate|discriminate]); [tauto|].
  rewrite andb_true_iff, df_eqb_spec, IH. split; [now intros [-> ->]|now intros [= -> ->]].
Qed.

Lemma deliv_eqb_spec a b : deliv_eqb a b = true <-> a = b.
Proof.
  destruct a as [[[w sn] x]|], b as [[[w' sn'] y]|]; cbn; try (split; [discriminate|discriminate]); [|tauto].
  rewrite !andb_true_iff, !Z.eqb_eq, bytes_eqb_spec.
  split; [intros ((-> & ->) & ->); reflexivity | intros [= -> -> ->]; tauto].
Qed.
Lemma delivs_eqb_spec a : forall b, delivs_eqb a b = true <-> a = b.
Proof.
  induction a as [|x a IH]; intros [|y b]; cbn; try (split; [discriminate|discriminate]); [tauto|].
  rewrite andb_true_iff, deliv_eqb_spec, IH. split; [now intros [-> ->]|now intros [= -> ->]].
Qed.

(* ---------------------------------------------------------------------------------------- *)
(* the fragment-list oracle *)
Lemma frags_okb_mk sp sn fs (Hfs : 1 <= fs) : forall (c : nat) k,
  1 <= k -> (c >= 1)%nat -> k + Z.of_nat c - 1 = nfrags sp fs ->
  frags_okb sn fs (payload_size sp) k
            (map (fun k => data_frag_msg sp sn k fs (payload_size sp)) (iota k c)) = true.
Proof.
  pose proof (payload_size_pos sp) as HD.
  pose proof (total_frags_lower (payload_size sp) fs Hfs ltac:(lia)) as L.
  pose proof (total_frags_upper (payload_size sp) fs Hfs ltac:(lia)) as U.
  unfold nfrags.
  induction c as [|c IH]; intros k Hk Hc Hn; [lia|].
  destruct c as [|c].
  - cbn [iota map frags_okb data_frag_msg df_sn df_start df_count df_data_size df_frag_size].
    change (bytes_slice sp ((k - 1) * fs) (Z.min (k * fs) (payload_size sp)))
      with (df_payload (data_frag_msg sp sn k fs (payload_size sp))).
    rewrite len_frag_payload by nia.
    rewrite !Z.eqb_refl. cbn [andb].
    apply andb_true_iff. split; [apply Z.leb_le|apply Z.leb_le]; nia.
  - change (iota k (S (S c))) with (k :: iota (k + 1) (S c)).
    cbn [map]. remember (map _ (iota (k + 1) (S c))) as rest eqn:Er.
    assert (Hrest : rest <> []) by (subst rest; cbn; discriminate).
    destruct rest as [|r rest]; [congruence|]. rewrite Er.
    cbn [frags_okb]. rewrite <- Er.
    cbn [data_frag_msg df_sn df_start df_count df_data_size df_frag_size].
    change (bytes_slice sp ((k - 1) * fs) (Z.min (k * fs) (payload_size sp)))
      with (df_payload (data_frag_msg sp sn k fs (payload_size sp))).
    rewrite len_frag_payload by nia.
    rewrite !Z.eqb_refl. cbn [andb].
    apply andb_true_iff. split; [apply Z.eqb_eq; nia|].
    rewrite Er. apply IH; lia.
Qed.

Lemma frags_okb_cons2 sn fs total k d d' fr :
  frags_okb sn fs total k (d :: d' :: fr) =
  (df_sn d =? sn) && (df_start d =? k) && (df_count d =? 1) && (df_data_size d =? total)
  && (df_frag_size d =? fs) && (len (df_payload d) =? fs) && frags_okb sn fs total (k + 1) (d' :: fr).
Proof. reflexivity. Qed.

(* what frags_okb guarantees *)
Lemma frags_okb_sound sn fs total : forall fr k,
  frags_okb sn fs total k fr = true ->
  fr <> []
  /\ (forall i, 0 <= i < len fr ->
        forall d0, let d := znth i fr d0 in
        df_sn d = sn /\ df_start d = k + i /\ df_count d = 1 /\ df_data_size d = total
        /\ df_frag_size d = fs
        /\ (i + 1 < len fr -> len (df_payload d) = fs)
        /\ (i + 1 = len fr -> 1 <= len (df_payload d) <= fs))
  /\ exists l, 1 <= l <= fs /\ len (concat (map df_payload fr)) = (len fr - 1) * fs + l.
Proof.
  induction fr as [|d fr IH]; intros k H; [discriminate|].
  destruct fr as [|d' fr].
  - cbn [frags_okb] in H. rewrite !andb_true_iff, !Z.eqb_eq, !Z.leb_le in H.
    destruct H as ((((((A & B) & C) & E) & F) & G1) & G2).
    change (len [d]) with 1.
    split; [discriminate|]. split.
    + intros i Hi d0 dd. assert (i = 0) by lia. subst i dd.
      unfold znth. cbn [Z.to_nat nth]. repeat split; try assumption; lia.
    + exists (len (df_payload d)). split; [lia|]. cbn [map concat]. rewrite app_nil_r. lia.
  - rewrite frags_okb_cons2 in H. remember (d' :: fr) as rest.
    rewrite !andb_true_iff, !Z.eqb_eq in H.
    destruct H as ((((((A & B) & C) & E) & F) & G) & H).
    destruct (IH (k + 1) H) as (_ & IH2 & l & Hl & IH3).
    split; [discriminate|]. split.
    + intros i Hi d0 dd. rewrite len_cons in Hi |- *.
      destruct (Z.eq_dec i 0) as [->|Ni].
      * subst dd. unfold znth. cbn [Z.to_nat nth].
        assert (0 < len rest) by (subst rest; rewrite len_cons; pose proof (len_nonneg fr); lia).
        repeat split; try assumption; lia.
      * subst dd. unfold znth. replace (Z.to_nat i) with (S (Z.to_nat (i - 1))) by lia. cbn [nth].
        fold (znth (i - 1) rest d0).
        destruct (IH2 (i - 1) ltac:(lia) d0) as (A' & B' & C' & E' & F' & G1' & G2').
        split; [assumption|]. split; [lia|]. split; [assumption|]. split; [assumption|].
        split; [assumption|]. split; intros; [apply G1'|apply G2']; lia.
    + exists l. split; [assumption|]. cbn [map concat]. rewrite len_app, IH3, len_cons. lia.
Qed.

(* ---------------------------------------------------------------------------------------- *)
(* Prop reading of the oracle *)
Definition raw_spec (ops : list op) (outs : list aout) : Prop :=
  length outs = length ops /\ no_panicb outs = true
  /\ forall i w df r m, nth_error ops i = Some (OFrag w df) -> nth_error outs i = Some (AOut r m) ->
       forall b, r = Some b -> len b = df_data_size df.

Definition obs_spec (c : case) (o : obs) : Prop :=
  match c, o with
  | CSplit dmax sn sp, OSplit d fr =>
      if payload_size sp <=? dmax
      then (exists x, d = Some x /\ firstn (length (hv sp)) x = hv sp /\ len x < len (hv sp) + 4)
           /\ fr = []
      else d = None /\ split_spec sn dmax sp fr
  | CHonest ws arr, OAsm outs => outs = spec_outs ws [] arr
  | CRaw ops, OAsm outs => raw_spec ops outs
  | CReader ws arr, ODeliv ds => ds = deliveries [] (map (to_op ws) arr) (spec_outs ws [] arr)
  | _, _ => False
  end.

Lemma raw_okb_spec ops : forall outs, raw_okb ops outs = true -> raw_spec ops outs.
Proof.
  intros outs H. destruct (raw_okb_no_panic ops outs H) as (NP & L).
  split; [assumption|]. split; [assumption|].
  revert outs H NP L. induction ops as [|o ops IH]; intros outs H NP L i w df r m Ho Hout;
    [destruct i; discriminate|].
  destruct outs as [|out outs]; [destruct i; discriminate|].
  cbn [raw_okb] in H. destruct i as [|i]; cbn [nth_error] in *.
  - inversion Ho; inversion Hout; subst. apply andb_true_iff in H as (H & _).
    intros b ->. now apply Z.eqb_eq.
  - destruct o as [w' df'|w' t], out as [r' m'| |]; try discriminate.
    + apply andb_true_iff in H as (_ & H).
      destruct (raw_okb_no_panic ops outs H) as (NP' & L'). eapply IH; eassumption.
    + destruct (raw_okb_no_panic ops outs H) as (NP' & L'). eapply IH; eassumption.
Qed.

Theorem oracle_sound c o : wf_case c = true -> ok c o = true -> obs_spec c o.
Proof.
  intros Hwf H. unfold ok in H. rewrite Hwf in H. cbn [negb] in H.
  destruct c as [dmax sn sp|ws arr|ops|ws arr], o as [d fr|outs|ds| |]; try discriminate; cbn [obs_spec].
  - cbn [wf_case] in Hwf. rewrite !andb_true_iff, !Z.leb_le, Z.ltb_lt in Hwf.
    destruct Hwf as (((Hd1 & Hd2) & HD) & _).
    destruct (payload_size sp <=? dmax).
    + apply andb_true_iff in H as (H1 & H2). apply dfs_eqb_spec in H2.
      destruct d as [x|]; [|discriminate]. apply andb_true_iff in H1 as (H1 & H3).
      apply bytes_eqb_spec in H1. apply Z.ltb_lt in H3. split; [|assumption]. exists x. auto.
    + destruct d; [discriminate|]. apply andb_true_iff in H as (H1 & H2).
      apply bytes_eqb_spec in H2. split; [reflexivity|].
      destruct (frags_okb_sound sn dmax (payload_size sp) fr 1 H1) as (Hne & Hf & l & Hl & Hc).
      unfold split_spec. split; [assumption|].
      assert (Hn : len fr = nfrags sp dmax).
      { rewrite H2, len_hv in Hc. unfold nfrags.
        pose proof (payload_size_pos sp).
        apply total_frags_unique; try lia; nia. }
      split; [assumption|].
      intros i Hi.
      destruct (Hf i Hi (data_frag_msg sp sn 0 dmax 0)) as (A & B & C & E & F & G1 & G2).
      split; [assumption|]. split; [lia|]. split; [assumption|]. split; [assumption|].
      split; [assumption|]. split; assumption.
  - now apply aouts_eqb_spec.
  - now apply raw_okb_spec.
  - now apply delivs_eqb_spec.
Qed.

(* ---------------------------------------------------------------------------------------- *)
Lemma pad4_ok (l : bytes) : firstn (length l) (pad4 l) = l /\ len (pad4 l) < len l + 4.
Proof.
  unfold pad4. split.
  - rewrite firstn_app, Nat.sub_diag, firstn_all. cbn. now rewrite app_nil_r.
  - rewrite len_app, len_repeat.
    pose proof (Z.mod_pos_bound (4 - len l mod 4) 4 ltac:(lia)). lia.
Qed.

Theorem model_ok : forall c, ok c (run c) = true.
Proof.
  intros c. unfold ok, run. destruct (wf_case c) eqn:Hwf; cbn [negb]; [|reflexivity].
  destruct c as [dmax sn sp|ws arr|ops|ws arr].
  - cbn [wf_case] in Hwf. rewrite !andb_true_iff, !Z.leb_le, Z.ltb_lt in Hwf.
    destruct Hwf as (((Hd1 & Hd2) & HD) & _).
    destruct (Z.leb_spec (payload_size sp) dmax) as [Hle|Hgt].
    + rewrite send_cache_change_small by assumption.
      destruct (pad4_ok (hv sp)) as (P1 & P2).
      rewrite P1. apply andb_true_iff. split; [|reflexivity].
      apply andb_true_iff. split; [now apply bytes_eqb_spec|now apply Z.ltb_lt].
    + rewrite send_cache_change_frags by lia.
      apply andb_true_iff. split.
      * unfold mk_frags.
        pose proof (total_frags_pos (payload_size sp) dmax ltac:(lia) ltac:(lia)) as Hn.
        apply frags_okb_mk; unfold nfrags in *; lia.
      * apply bytes_eqb_spec. apply concat_mk_frags; lia.
  - cbn [wf_case] in Hwf. rewrite (honest_run_spec ws arr Hwf). now apply aouts_eqb_spec.
  - cbn [wf_case] in Hwf. apply run_ops_no_panic; [apply rinv_nil|].
    rewrite forallb_forall in Hwf. apply Forall_forall. intros o Ho. apply op_okb_spec. now apply Hwf.
  - cbn [wf_case] in Hwf. apply andb_true_iff in Hwf as (Hwf & _).
    rewrite (honest_run_spec ws arr Hwf). now apply delivs_eqb_spec.
Qed.


(* ---------------------------------------------------------------------------------------- *)
(* statements in the form used by Props.v *)
Lemma reassembly : forall w sn fs sp,
  1 <= fs <= 65535 -> fs < payload_size sp < 2 ^ 32 ->
  forall pre o post k c,
  Forall op_ok (pre ++ o :: post) ->
  Forall (op_honest w sn fs sp) (pre ++ o :: post) ->
  kev_of_op w sn o = KFrag k c ->
  nth (length pre) (run_ops new_datafrag 0 [] (pre ++ o :: post)) APanic
  = expected fs sp (krun (total_frags (payload_size sp) fs) 0 k0 (map (kev_of_op w sn) pre)) k c.
Proof.
  intros w sn fs sp Hfs HD pre o post k c Fok Fh Hk.
  exact (run_key w sn fs sp Hfs HD pre 0 [] k0 o post k c rinv_nil (R_nil w sn fs sp) Fok Fh Hk).
Qed.

Lemma frame_both : forall nd, nd = new_datafrag \/ nd = new_datafrag_old ->
  forall now st w df st' out w' sn',
  step nd now st (OFrag w df) = Ok (st', out) ->
  (w', sn') <> (w, df_sn df) ->
  buf_at st' w' sn' = buf_at st w' sn'.
Proof.
  intros nd [->| ->] now st w df st' out w' sn'.
  - exact (step_frame new_datafrag now st w df st' out w' sn' nd_frame_new).
  - exact (step_frame new_datafrag_old now st w df st' out w' sn' nd_frame_old).
Qed.

Lemma no_panic_step : forall now st o,
  rinv st -> op_ok o ->
  exists st' out, step new_datafrag now st o = Ok (st', out) /\ rinv st' /\ out <> APanic.
Proof.
  intros now st o R Ho. destruct (step_ok now st o R Ho) as (st' & out & E & R' & NP & _).
  exists st', out. auto.
Qed.

Lemma no_panic_run : forall ops,
  Forall op_ok ops ->
  no_panicb (run_ops new_datafrag 0 [] ops) = true
  /\ length (run_ops new_datafrag 0 [] ops) = length ops.
Proof.
  intros ops F. apply (raw_okb_no_panic ops). apply run_ops_no_panic; [apply rinv_nil|exact F].
Qed.

(* the invariant is not vacuous: it holds initially and along every run *)
Lemma rinv_run ops : forall now st, rinv st -> Forall op_ok ops ->
  exists st', run_state new_datafrag now st ops = Some st' /\ rinv st'.
Proof.
  induction ops as [|o ops IH]; intros now st R F; [exists st; split; [reflexivity|assumption]|].
  inversion F as [|? ? Ho F']; subst.
  destruct (step_ok now st o R Ho) as (st' & out & E & R' & _).
  cbn [run_state]. rewrite E. now apply IH.
Qed.

(* ---------------------------------------------------------------------------------------- *)
(* non-vacuity *)
Definition ex_sp : spayload :=
  {| sp_h0 := 0; sp_h1 := 1; sp_h2 := 0; sp_h3 := 0; sp_value := [10; 11; 12; 13; 14; 15; 16] |}.
Definition ex_ws : wtable := [(0, (4, [(1, ex_sp)])); (1, (5, [(3, ex_sp)]))].
Definition ex_arr : list arrival :=
  [AFrag 0 1 3; AFrag 1 3 1; AFrag 0 1 1; AFrag 0 1 1; AGc 1 0; AFrag 1 3 3; AFrag 0 1 2;
   AFrag 1 3 2; AFrag 0 1 2; AGc 0 9; AFrag 0 1 1].

Example ex_wf : wf_case (CHonest ex_ws ex_arr) = true.
Proof. vm_compute. reflexivity. Qed.
Example ex_honest_outputs :
  run (CHonest ex_ws ex_arr) =
  OAsm [AOut None [1; 2]; AOut None [2; 3]; AOut None [2]; AOut None [2]; AGcDone; AOut None [2];
        AOut (Some (hv ex_sp)) []; AOut (Some (hv ex_sp)) []; AOut None [1; 3]; AGcDone;
        AOut None [2; 3]].
Proof. vm_compute. reflexivity. Qed.
(* the hypotheses of the per-sample theorems are satisfiable: sample (0,1) of ex_ws *)
Example ex_key_hyps :
  1 <= 4 <= 65535 /\ 4 < payload_size ex_sp < 2 ^ 32
  /\ Forall op_ok (map (to_op ex_ws) ex_arr)
  /\ Forall (op_honest 0 1 4 ex_sp) (map (to_op ex_ws) ex_arr).
Proof.
  split; [lia|]. split; [change (payload_size ex_sp) with 11; lia|]. split.
  - apply Forall_forall. intros o Ho. apply in_map_iff in Ho as (a & <- & Ha).
    apply to_op_ok. pose proof ex_wf as W. cbn [wf_case] in W. rewrite forallb_forall in W. now apply W.
  - apply Forall_forall. intros o Ho. apply in_map_iff in Ho as (a & <- & Ha).
    apply (to_op_honest ex_ws 0 1 ex_sp a).
    + unfold key_ok. change (sample_of ex_ws 0 1) with (Some ex_sp).
      change (fs_of ex_ws 0) with 4. change (payload_size ex_sp) with 11. split; [reflexivity|lia].
    + pose proof ex_wf as W. cbn [wf_case] in W. rewrite forallb_forall in W. now apply W.
Qed.
(* several fragments per DATAFRAG: overlapping runs, a run completing the set, a whole sample in
   one DATAFRAG; the payload of AFrags 0 1 2 2 is bytes 4..11 of header ++ value (last fragment short) *)
Definition ex_arr_multi : list arrival :=
  [AFrags 0 1 2 2; AFrag 1 3 1; AFrags 0 1 1 2; AFrags 1 3 2 2; AFrags 0 1 1 3].
Example ex_multi_wf : wf_case (CHonest ex_ws ex_arr_multi) = true /\ wf_case (CReader ex_ws ex_arr_multi) = true.
Proof. vm_compute. split; reflexivity. Qed.
Example ex_multi_payload :
  to_op ex_ws (AFrags 0 1 2 2)
  = OFrag 0 {| df_sn := 1; df_start := 2; df_count := 2; df_data_size := 11; df_frag_size := 4;
               df_payload := [10; 11; 12; 13; 14; 15; 16] |}.
Proof. vm_compute. reflexivity. Qed.
Example ex_multi_outputs :
  run (CHonest ex_ws ex_arr_multi) =
  OAsm [AOut None [1]; AOut None [2; 3]; AOut (Some (hv ex_sp)) []; AOut (Some (hv ex_sp)) [];
        AOut (Some (hv ex_sp)) []]
  /\ run (CReader ex_ws ex_arr_multi) =
     ODeliv [None; None; Some (0, 1, hv ex_sp); Some (1, 3, hv ex_sp); None].
Proof. vm_compute. split; reflexivity. Qed.
(* an assembler that fills every fragment slot of a multi-fragment DATAFRAG with the bytes of its
   first fragment (right length, right moment, wrong content) is rejected by the oracle *)
Example ex_multi_corrupt_rejected :
  ok (CHonest ex_ws [AFrags 0 1 1 3])
     (OAsm [AOut (Some [0; 1; 0; 0; 0; 1; 0; 0; 0; 1; 0]) []]) = false
  /\ ok (CReader ex_ws [AFrags 0 1 1 3])
        (ODeliv [Some (0, 1, [0; 1; 0; 0; 0; 1; 0; 0; 0; 1; 0])]) = false.
Proof. vm_compute. split; reflexivity. Qed.
Example ex_split : exists frags, run (CSplit 4 7 ex_sp) = OSplit None frags /\ length frags = 3%nat.
Proof. eexists. split; [vm_compute; reflexivity|reflexivity]. Qed.
Example ex_hostile_ignored :
  run (CRaw witness_a) = OAsm [AOut None []]
  /\ run (CRaw witness_c) = OAsm [AOut None [2]; AOut None [2]].
Proof. split; vm_compute; reflexivity. Qed.
