(* C02 — what the reader has, it keeps; the measure never grows without a write *)
From Coq Require Import List ZArith Bool Lia.
From RD Require Import Common.Corr C02.Model C02.Basics C02.Inv.
Import ListNotations.
Open Scope Z_scope.

(* ---------- known / have are monotone under the reader's handlers ---------- *)
Lemma known_data_mono sn r x : known r x = true -> known (r_data sn r) x = true.
Proof.
  intro K. unfold r_data. destruct (known r sn) eqn:E; [exact K|].
  apply known_spec in K. apply known_spec. cbn [r_base r_known].
  destruct (sn =? r_base r); cbn [fst snd].
  - pose proof (adv_spec (r_base r) (add sn (r_known r))) as (A1 & A2 & A3 & A4).
    destruct K as [K|K]; [left; lia|].
    destruct (Z.lt_ge_cases x (fst (adv (r_base r) (add sn (r_known r))))) as [L|G]; [left; exact L|].
    right. apply A2. split; [apply add_In; right; exact K | lia].
  - destruct K as [K|K]; [left; exact K | right; apply add_In; right; exact K].
Qed.
Lemma known_data_self sn r : known (r_data sn r) sn = true.
Proof.
  unfold r_data. destruct (known r sn) eqn:E; [exact E|].
  apply known_spec. cbn [r_base r_known].
  destruct (sn =? r_base r); cbn [fst snd].
  - pose proof (adv_spec (r_base r) (add sn (r_known r))) as (A1 & A2 & A3 & A4).
    destruct (Z.lt_ge_cases sn (fst (adv (r_base r) (add sn (r_known r))))) as [L|G]; [left; exact L|].
    right. apply A2. split; [apply add_In; left; reflexivity | lia].
  - right. apply add_In. left. reflexivity.
Qed.
Lemma r_data_asm sn r : r_asm (r_data sn r) = r_asm r.
Proof. unfold r_data. destruct (known r sn); [reflexivity|]. reflexivity. Qed.
Lemma r_data_hbc sn r : r_hbc (r_data sn r) = r_hbc r.
Proof. unfold r_data. destruct (known r sn); reflexivity. Qed.

Lemma have_data_mono sn r x g : have r x g = true -> have (r_data sn r) x g = true.
Proof.
  unfold have. rewrite r_data_asm. intro H. apply orb_true_iff in H as [H|H].
  - rewrite known_data_mono by exact H. reflexivity.
  - rewrite H. apply orb_true_r.
Qed.
Lemma have_data_self sn r g : have (r_data sn r) sn g = true.
Proof. unfold have. rewrite known_data_self. reflexivity. Qed.

Lemma have_frag_mono sn f nf r x g : have r x g = true -> have (r_frag sn f nf r) x g = true.
Proof.
  intro H. unfold r_frag. destruct (negb ((1 <=? f) && (f <=? nf))); [exact H|].
  set (bv := match fget sn (r_asm r) with Some bv => bv | None => repeat false (Z.to_nat nf) end).
  destruct (negb (Z.of_nat (length bv) =? nf)); [exact H|].
  destruct (ball (bset (Z.to_nat (f - 1)) true bv)) eqn:B.
  - destruct (Z.eq_dec x sn) as [->|N]; [apply have_data_self|].
    apply have_data_mono. unfold have in *. cbn [r_asm]. rewrite fget_fdel_other by exact N. exact H.
  - unfold have in *. unfold known in *. cbn [r_base r_known r_asm].
    apply orb_true_iff in H as [H|H]; [rewrite H; reflexivity|].
    destruct (Z.eq_dec x sn) as [->|N].
    + rewrite fget_fset_same. apply orb_true_iff. right.
      destruct (fget sn (r_asm r)) as [b|] eqn:G; [|discriminate].
      unfold bv. apply bget_bset_true. exact H.
    + rewrite fget_fset_other by exact N. rewrite H. apply orb_true_r.
Qed.
Lemma have_frag_self w r n sn f nf :
  Inv (mkS w r n) -> 1 <= sn <= w_last w -> nf = nfr w sn -> 1 <= f <= nf ->
  have (r_frag sn f nf r) sn f = true.
Proof.
  intros I Hsn Hnf Hf. unfold r_frag.
  replace ((1 <=? f) && (f <=? nf)) with true by (symmetry; apply andb_true_iff; split; apply Z.leb_le; lia).
  cbn [negb].
  set (bv := match fget sn (r_asm r) with Some bv => bv | None => repeat false (Z.to_nat nf) end).
  assert (L : Z.of_nat (length bv) = nf).
  { unfold bv. destruct (fget sn (r_asm r)) as [b|] eqn:G.
    - apply fget_In in G. apply (i_asm _ I) in G. cbn [sw] in G. lia.
    - rewrite repeat_length. lia. }
  replace (Z.of_nat (length bv) =? nf) with true by (symmetry; apply Z.eqb_eq; exact L).
  cbn [negb]. destruct (ball _) eqn:B; [apply have_data_self|].
  unfold have. cbn [r_asm]. rewrite fget_fset_same. apply orb_true_iff. right.
  apply bget_bset_same. lia.
Qed.

(* ---------- non-write steps ---------- *)
(* ops of a fault-free suffix: no application write, no fragment garbage collection *)
Definition nowrite (o : op) : bool := match o with OWrite _ | OFragGC => false | _ => true end.

Lemma have_recv_sub s m sn f :
  Inv s -> sub_ok (sw s) (sr s) m -> have (sr s) sn f = true -> have (sr (recv_sub s m)) sn f = true.
Proof.
  intros I Hm H. destruct s as [w r n]. cbn [sw sr net] in *. destruct m; cbn [recv_sub sr].
  - apply have_data_mono; exact H.
  - apply have_frag_mono; exact H.
  - pose proof (r_hb_base w r n first last count I Hm) as B.
    destruct Hm as (Hfi & Hla & Hc).
    destruct (Z.le_gt_cases count (r_hbc r)) as [L|G].
    + unfold r_hb. replace (count <=? r_hbc r) with true by (symmetry; apply Z.leb_le; exact L). exact H.
    + destruct (r_hb_shape w r n first last count I Hfi ltac:(lia)) as [nfs [E _]]. rewrite E. cbn [sr]. exact H.
  - destruct Hm as [Hb ->]. rewrite (r_gap_noop w r n start base I Hb). exact H.
  - destruct (w_acknack base bits w). exact H.
  - exact H.
Qed.

Lemma have_recv d : forall s sn f,
  Inv s -> (forall m, In m d -> sub_ok (sw s) (sr s) m) -> have (sr s) sn f = true ->
  have (sr (recv s d)) sn f = true.
Proof.
  unfold recv. induction d as [|m d IH]; intros s sn f I H Hv; cbn [fold_left]; [exact Hv|].
  destruct (Inv_recv_sub s m I (H m (or_introl eq_refl))) as [I' [F1 F2]].
  apply IH; [exact I' | | apply have_recv_sub; [exact I | apply H; left; reflexivity | exact Hv]].
  intros m' Hm'. eapply sub_ok_mono; [exact F1 | exact F2 | apply H; right; exact Hm'].
Qed.

Lemma recv_sub_log s m : w_log (sw (recv_sub s m)) = w_log (sw s).
Proof.
  destruct m; cbn [recv_sub]; try reflexivity.
  - destruct (r_hb first last count (sr s)); reflexivity.
  - unfold w_nackfrag. destruct (held (sw s) sn); reflexivity.
Qed.
Lemma recv_log d : forall s, w_log (sw (recv s d)) = w_log (sw s).
Proof.
  unfold recv. induction d as [|m d IH]; intro s; cbn [fold_left]; [reflexivity|].
  rewrite IH. apply recv_sub_log.
Qed.

Lemma step_log depth s o : nowrite o = true -> w_log (sw (step depth s o)) = w_log (sw s).
Proof.
  destruct o; cbn [nowrite step]; intro H; try discriminate; cbn [lift_w sw].
  - unfold w_hbtick. destruct (_ <? _); reflexivity.
  - unfold w_repair. destruct (lmin _); [|reflexivity]. destruct (_ || _); [reflexivity|].
    destruct (held _ _); [|reflexivity]. destruct (_ <=? 1); reflexivity.
  - unfold w_repair_frags. destruct (fminkey _); [|reflexivity]. destruct (fget _ _); reflexivity.
  - unfold w_clean. destruct (held _ _); reflexivity.
  - destruct (nth_error _ _); [|reflexivity]. rewrite recv_log. reflexivity.
  - reflexivity.
  - destruct (nth_error _ _); [|reflexivity]. apply recv_log.
Qed.

Lemma have_step depth s o sn f :
  0 <= depth -> Inv s -> nowrite o = true -> have (sr s) sn f = true -> have (sr (step depth s o)) sn f = true.
Proof.
  intros D I No H. destruct o; try discriminate No; cbn [step lift_w sr]; try exact H.
  - destruct (nth_error (net s) i) as [d|] eqn:E; [|exact H].
    apply have_recv; [apply Inv_drop; exact I | | exact H].
    intros m Hm. cbn [sw sr]. eapply (i_net s I); [eapply nth_error_In; exact E | exact Hm].
  - destruct (nth_error (net s) i) as [d|] eqn:E; [|exact H].
    apply have_recv; [exact I | | exact H].
    intros m Hm. eapply (i_net s I); [eapply nth_error_In; exact E | exact Hm].
Qed.

Inductive nw_steps (depth : Z) : sys -> sys -> Prop :=
| nw_refl s : nw_steps depth s s
| nw_cons s o s' : nowrite o = true -> nw_steps depth (step depth s o) s' -> nw_steps depth s s'.

Lemma nw_trans depth a b c : nw_steps depth a b -> nw_steps depth b c -> nw_steps depth a c.
Proof. induction 1 as [|s o s' No St IH]; intro G; [exact G | eapply nw_cons; [exact No | apply IH; exact G]]. Qed.
Lemma nw_one depth s o : nowrite o = true -> nw_steps depth s (step depth s o).
Proof. intro H. eapply nw_cons; [exact H | apply nw_refl]. Qed.

Lemma nw_props depth s s' :
  0 <= depth -> nw_steps depth s s' -> Inv s ->
  Inv s' /\ sframe s s' /\ w_log (sw s') = w_log (sw s)
  /\ (forall sn f, have (sr s) sn f = true -> have (sr s') sn f = true).
Proof.
  intros D H. induction H as [s|s o s' No H IH]; intro I.
  - split; [exact I|]. split; [apply sframe_refl|]. split; [reflexivity | auto].
  - destruct (Inv_step depth s o D I) as [I1 F1]. destruct (IH I1) as (I2 & F2 & L2 & M2).
    split; [exact I2|]. split; [eapply sframe_trans; eassumption|]. split.
    + rewrite L2. apply step_log. exact No.
    + intros sn f Hv. apply M2. apply have_step; assumption.
Qed.

(* ---------- the measure ---------- *)
Lemma filter_len_mono {A} (p p' : A -> bool) l :
  (forall x, In x l -> p' x = true -> p x = true) -> (length (filter p' l) <= length (filter p l))%nat.
Proof.
  induction l as [|a l IH]; intro H; simpl; [lia|].
  assert (IH' := IH (fun x Hx => H x (or_intror Hx))).
  destruct (p' a) eqn:E.
  - rewrite (H a (or_introl eq_refl) E). simpl. lia.
  - destruct (p a); simpl; lia.
Qed.
Lemma filter_len_strict {A} (p p' : A -> bool) l x :
  (forall y, In y l -> p' y = true -> p y = true) -> In x l -> p x = true -> p' x = false ->
  (length (filter p' l) < length (filter p l))%nat.
Proof.
  induction l as [|a l IH]; intros H Hin Hp Hp'; simpl; [contradiction|].
  assert (Hm := filter_len_mono p p' l (fun y Hy => H y (or_intror Hy))).
  destruct Hin as [->|Hin].
  - rewrite Hp, Hp'. simpl. lia.
  - assert (IH' := IH (fun y Hy => H y (or_intror Hy)) Hin Hp Hp').
    destruct (p' a) eqn:E.
    + rewrite (H a (or_introl eq_refl) E). simpl. lia.
    + destruct (p a); simpl; lia.
Qed.

Lemma mu_of_mono log r r' :
  (forall sn f, have r sn f = true -> have r' sn f = true) -> (mu_of log r' <= mu_of log r)%nat.
Proof.
  intro H. unfold mu_of, lacking. apply filter_len_mono. intros [sn f] _ Hn. cbn [fst snd] in *.
  apply negb_true_iff in Hn. apply negb_true_iff. destruct (have r sn f) eqn:E; [|reflexivity].
  rewrite (H sn f E) in Hn. discriminate.
Qed.
Lemma mu_of_strict log r r' sn f :
  (forall sn f, have r sn f = true -> have r' sn f = true) ->
  In (sn, f) (items_from 1 log) -> have r sn f = false -> have r' sn f = true ->
  (mu_of log r' < mu_of log r)%nat.
Proof.
  intros H Hin H0 H1. unfold mu_of, lacking.
  apply filter_len_strict with (x := (sn, f)); auto.
  - intros [a b] _ Hn. cbn [fst snd] in *.
    apply negb_true_iff in Hn. apply negb_true_iff. destruct (have r a b) eqn:E; [|reflexivity].
    rewrite (H a b E) in Hn. discriminate.
  - cbn [fst snd]. rewrite H0. reflexivity.
  - cbn [fst snd]. rewrite H1. reflexivity.
Qed.

Lemma items_from_In log : forall sn0 sn f,
  In (sn, f) (items_from sn0 log) <->
  sn0 <= sn < sn0 + Z.of_nat (length log) /\ 1 <= f <= Z.max (nth (Z.to_nat (sn - sn0)) log 0) 1.
Proof.
  induction log as [|nf log IH]; intros sn0 sn f; cbn [items_from length].
  - simpl. split; [contradiction | lia].
  - rewrite in_app_iff, in_map_iff, IH. split.
    + intros [[g [E Hg]]|[H1 H2]].
      * inversion E; subst. apply zseq_In in Hg. replace (sn - sn) with 0 by lia. simpl. lia.
      * split; [lia|]. replace (Z.to_nat (sn - sn0)) with (S (Z.to_nat (sn - (sn0 + 1)))) by lia. exact H2.
    + intros [H1 H2]. destruct (Z.eq_dec sn sn0) as [->|N].
      * left. exists f. split; [reflexivity|]. apply zseq_In. replace (sn0 - sn0) with 0 in H2 by lia. simpl in H2. lia.
      * right. split; [lia|]. replace (Z.to_nat (sn - sn0)) with (S (Z.to_nat (sn - (sn0 + 1)))) in H2 by lia. exact H2.
Qed.
Lemma items_In w sn f :
  In (sn, f) (items_from 1 (w_log w)) <-> 1 <= sn <= w_last w /\ 1 <= f <= Z.max (nfr w sn) 1.
Proof. rewrite items_from_In. unfold w_last, nfr. split; intros [H1 H2]; (split; [lia | exact H2]). Qed.

Lemma mu_pos_ex s : (0 < mu s)%nat ->
  exists sn f, In (sn, f) (items_from 1 (w_log (sw s))) /\ have (sr s) sn f = false.
Proof.
  unfold mu, mu_of, lacking. intro H.
  destruct (filter _ _) as [|[sn f] t] eqn:E; [simpl in H; lia|].
  assert (Hin : In (sn, f) ((sn, f) :: t)) by (left; reflexivity).
  rewrite <- E in Hin. apply filter_In in Hin as [Hi Hn]. exists sn, f. split; [exact Hi|].
  cbn [fst snd] in Hn. apply negb_true_iff in Hn. exact Hn.
Qed.

Lemma nw_mu depth s s' :
  0 <= depth -> nw_steps depth s s' -> Inv s -> (mu s' <= mu s)%nat.
Proof.
  intros D H I. destruct (nw_props depth s s' D H I) as (_ & _ & L & M).
  unfold mu. rewrite L. apply mu_of_mono. exact M.
Qed.
