(* C02 — a reliable writer/reader pair converges after any finite loss, then goes quiet.

   Self-contained model of the product system, as the code is written:
     writer  : src/rtps/writer.rs  (HistoryBuffer first_seq/last_seq, process_writer_command,
               send_cache_change, handle_heartbeat_tick, handle_ack_nack (ACKNACK and NACKFRAG
               arms), handle_repair_data_send_worker, handle_repair_frags_send_worker,
               remove_all_acked_changes_but_keep_depth) and src/rtps/rtps_reader_proxy.rs
               (handle_ack_nack, mark_all_frags_requested, mark_frags_requested, mark_frag_sent,
               frags_requested_iterator), src/rtps/message.rs (gap_msg, gap_msg_before);
     reader  : src/rtps/reader.rs (process_received_data, handle_datafrag_msg,
               handle_heartbeat_msg, handle_gap_msg), src/rtps/rtps_writer_proxy.rs
               (missing_seqnums, received_changes_add, set_irrelevant_change,
               irrelevant_changes_range, advance_ack_base), src/rtps/fragment_assembler.rs
               (new_datafrag, is_partially_received, missing_frags_for),
               src/structure/sequence_number.rs (NumberSet::from_base_and_set: 256 window);
     network : the list of in-flight datagrams; the fault alphabet delivers / drops / duplicates
               the i-th one (delay and reordering = the choice of i); timers are explicit ops.

   Scope: ONE reliable writer and ONE reliable reader that was matched before the first write
   (so RtpsReaderProxy.pending_gap, which is filled only for late-joining volatile readers and for
   single-reader writes, is empty; the field and the code that reads it are modelled all the same).
   Sequence numbers are assigned consecutively by the DataWriter (sn = last + 1).  A sample is
   represented by its number of fragments (1 = plain DATA, >= 2 = DATAFRAGs); payload bytes are the
   business of C05.  Wall-clock delays (nack_response_delay, repair spacing, the 10 s fragment
   garbage collection) are outside the model: a timer is an op that may fire at any point, and the
   fragment garbage collection is a fault op that drops every assembly buffer. *)
From Coq Require Import List ZArith Bool Lia.
From RD Require Import Common.Corr.
Import ListNotations.
Open Scope Z_scope.

(* ------------------------------------------------------------------------------------------ *)
(* finite sets of sequence numbers as lists (BTreeSet<SequenceNumber>; order is irrelevant, the
   observation comparer treats them as sets)                                                   *)

Definition mem (x : Z) (l : list Z) : bool := existsb (Z.eqb x) l.
Definition add (x : Z) (l : list Z) : list Z := if mem x l then l else l ++ [x].
Definition union (l bits : list Z) : list Z := fold_left (fun acc x => add x acc) bits l.
Definition del (x : Z) (l : list Z) : list Z := filter (fun y => negb (x =? y)) l.
Definition lmin (l : list Z) : option Z :=
  match l with [] => None | x :: t => Some (fold_left Z.min t x) end.
Definition isnil {A} (l : list A) : bool := match l with [] => true | _ => false end.

(* lo, lo+1, ..., lo+n-1 *)
Fixpoint zrange (lo : Z) (n : nat) : list Z :=
  match n with O => [] | S n' => lo :: zrange (lo + 1) n' end.
(* lo ..= hi *)
Definition zseq (lo hi : Z) : list Z := zrange lo (Z.to_nat (hi - lo + 1)).

(* BitVec *)
Fixpoint bset (i : nat) (v : bool) (l : list bool) : list bool :=
  match l, i with
  | [], _ => []
  | _ :: t, O => v :: t
  | b :: t, S i' => b :: bset i' v t
  end.
Definition bget (i : nat) (l : list bool) : bool := nth i l false.
Definition ball (l : list bool) : bool := forallb (fun b => b) l.
Definition bany (l : list bool) : bool := existsb (fun b => b) l.
(* 1-based indices of the entries equal to v, ascending *)
Fixpoint bidx (v : bool) (from : Z) (l : list bool) : list Z :=
  match l with
  | [] => []
  | b :: t => if Bool.eqb b v then from :: bidx v (from + 1) t else bidx v (from + 1) t
  end.

(* BTreeMap<SequenceNumber, BitVec> *)
Definition fmap := list (Z * list bool).
Fixpoint fget (k : Z) (m : fmap) : option (list bool) :=
  match m with
  | [] => None
  | kv :: m' => if k =? fst kv then Some (snd kv) else fget k m'
  end.
Definition fdel (k : Z) (m : fmap) : fmap := filter (fun kv => negb (k =? fst kv)) m.
Definition fset (k : Z) (v : list bool) (m : fmap) : fmap := fdel k m ++ [(k, v)].
Definition fhas (k : Z) (m : fmap) : bool := match fget k m with Some _ => true | None => false end.
Definition fminkey (m : fmap) : option Z := lmin (map fst m).

(* ------------------------------------------------------------------------------------------ *)
(* submessages and datagrams (only what matters for the protocol: kinds, SNs, fragment numbers,
   sets, counts; INFO_DST / INFO_TS are not represented)                                       *)

Inductive sub :=
| SData (sn : Z)
| SFrag (sn f nf : Z)                       (* fragment f of the nf fragments of sample sn *)
| SHb (first last count : Z)                (* final flag never set by this writer *)
| SGap (start base : Z) (bits : list Z)     (* gap_start, gap_list.base, members of gap_list *)
| SAck (base : Z) (bits : list Z) (count : Z)
| SNackFrag (sn base : Z) (bits : list Z) (count : Z).
Definition dgram := list sub.

(* ------------------------------------------------------------------------------------------ *)
(* writer + its single reader proxy                                                            *)

Record wst := mkW {
  w_log : list Z;            (* number of fragments of every sample ever written; sn = index+1 *)
  w_first : Z;               (* HistoryBuffer.first_seq *)
  w_hbc : Z;                 (* heartbeat_message_counter *)
  p_aab : Z;                 (* RtpsReaderProxy.all_acked_before *)
  p_unsent : list Z;         (* unsent_changes *)
  p_gap : list Z;            (* pending_gap *)
  p_repair : bool;           (* repair_mode *)
  p_frq : fmap               (* frags_requested *)
}.
Definition w_last (w : wst) : Z := Z.of_nat (length (w_log w)).     (* HistoryBuffer.last_seq *)
Definition nfr (w : wst) (sn : Z) : Z := nth (Z.to_nat (sn - 1)) (w_log w) 0.
(* history_buffer.get_by_sn(sn).is_some(): the history is the interval first_seq..=last_seq *)
Definition held (w : wst) (sn : Z) : bool := (w_first w <=? sn) && (sn <=? w_last w).

Definition w_init : wst := mkW [] 1 1 0 [] [] false [].

Definition set_first v w := mkW (w_log w) v (w_hbc w) (p_aab w) (p_unsent w) (p_gap w) (p_repair w) (p_frq w).
Definition set_hbc v w := mkW (w_log w) (w_first w) v (p_aab w) (p_unsent w) (p_gap w) (p_repair w) (p_frq w).
Definition set_unsent v w := mkW (w_log w) (w_first w) (w_hbc w) (p_aab w) v (p_gap w) (p_repair w) (p_frq w).
Definition set_repair v w := mkW (w_log w) (w_first w) (w_hbc w) (p_aab w) (p_unsent w) (p_gap w) v (p_frq w).
Definition set_frq v w := mkW (w_log w) (w_first w) (w_hbc w) (p_aab w) (p_unsent w) (p_gap w) (p_repair w) v.

(* MessageBuilder::heartbeat_msg with next_heartbeat_count() *)
Definition hb_sub (w : wst) : sub := SHb (w_first w) (w_last w) (w_hbc w).

(* message.rs gap_msg: gap_start = lowest; gap_list.base = end of the contiguous run from
   gap_start; gap_list = the rest, cut to the 256 window by from_base_and_set *)
Fixpoint run_end (fuel : nat) (k : Z) (s : list Z) : Z :=
  match fuel with O => k | S n => if mem k s then run_end n (k + 1) s else k end.
Definition gap_sub (s : list Z) : list sub :=
  match lmin s with
  | None => []                         (* "gap_msg called with empty SN set. Skipping" *)
  | Some start =>
      let base := run_end (length s) (start + 1) s in
      [SGap start base (filter (fun x => (base <=? x) && (x <=? base + 255)) s)]
  end.

(* process_writer_command(DDSData) in push mode: history insert, notify_new_cache_change,
   send_cache_change(cc, true, None) *)
Definition w_write (nf : Z) (w : wst) : wst * list dgram :=
  let sn := w_last w + 1 in
  let w1 := mkW (w_log w ++ [nf]) (w_first w) (w_hbc w + 1) (p_aab w) (add sn (p_unsent w))
                (p_gap w) (p_repair w) (p_frq w) in
  let hb := SHb (w_first w) sn (w_hbc w) in
  (w1, if nf <=? 1 then [[SData sn; hb]]
       else map (fun f => [SFrag sn f nf]) (zseq 1 nf) ++ [[hb]]).

(* handle_heartbeat_tick: nothing if every reader proxy has last < all_acked_before *)
Definition w_hbtick (w : wst) : wst * list dgram :=
  if w_last w <? p_aab w then (w, [])
  else (set_hbc (w_hbc w + 1) w, [[hb_sub w]]).

(* Writer::handle_ack_nack, ACKNACK arm (RtpsReaderProxy::handle_ack_nack inlined).  No check of
   the ACKNACK count is made anywhere. *)
Definition w_acknack (base : Z) (bits : list Z) (w : wst) : wst * list dgram :=
  let nb := Z.max base 1 in
  let u1 := union (filter (fun x => nb <=? x) (p_unsent w)) bits in
  let u2 := filter (fun x => x <=? w_last w) u1 in     (* "Truncating request" *)
  let g := filter (fun x => nb <=? x) (p_gap w) in
  let rep := negb (w_last w <? nb) in
  (mkW (w_log w) (w_first w) (w_hbc w) nb u2 g rep (p_frq w),
   if isnil g then [] else [gap_sub g]).

(* mark_frags_requested *)
Definition mark_req (nf : Z) (bits : list Z) (bv : list bool) : list bool :=
  let bv1 := bv ++ repeat false (Z.to_nat nf - length bv) in
  fold_left (fun acc f => if (1 <=? f) && (f <=? nf) then bset (Z.to_nat (f - 1)) true acc else acc)
            bits bv1.
(* Writer::handle_ack_nack, NACKFRAG arm *)
Definition w_nackfrag (sn : Z) (bits : list Z) (w : wst) : wst :=
  if held w sn then
    let nf := nfr w sn in
    let bv := match fget sn (p_frq w) with Some bv => bv | None => repeat false (Z.to_nat nf) end in
    set_frq (fset sn (mark_req nf bits bv) (p_frq w)) w
  else w.

(* send_cache_change(cc, false, Some(reader_proxy)) *)
Definition send_cc (w : wst) (sn : Z) : list dgram :=
  let nf := nfr w sn in
  if nf <=? 1 then [ (if isnil (p_gap w) then [] else gap_sub (p_gap w)) ++ [SData sn] ]
  else (if isnil (p_gap w) then [] else [gap_sub (p_gap w)])
       ++ map (fun f => [SFrag sn f nf]) (zseq 1 nf).

(* handle_repair_data_send_worker: ONE sequence number (the lowest unsent) per repair tick *)
Definition w_repair (w : wst) : wst * list dgram :=
  match lmin (p_unsent w) with
  | None => (set_repair false w, [])
  | Some u =>
      let before := u <? w_first w in
      if mem u (p_gap w) || before then
        let nlr := p_gap w in
        let u1 := if before then filter (fun x => w_first w <=? x) (p_unsent w) else p_unsent w in
        let u2 := filter (fun x => negb (mem x nlr)) u1 in
        (set_unsent u2 w,
         [ (if before then [SGap 1 (w_first w) []] else []) ++ gap_sub nlr ])
      else if held w u then
        let w1 := if nfr w u <=? 1 then w
                  else set_frq (fset u (repeat true (Z.to_nat (nfr w u))) (p_frq w)) w in
        (set_unsent (del u (p_unsent w)) w1, send_cc w u)
      else
        (set_unsent (del u (p_unsent w)) w, [gap_sub [u]])
  end.

(* handle_repair_frags_send_worker: at most 8 fragments of the lowest requested sample *)
Definition clear_bits (fs : list Z) (bv : list bool) : list bool :=
  fold_left (fun acc f => bset (Z.to_nat (f - 1)) false acc) fs bv.
Definition w_repair_frags (w : wst) : wst * list dgram :=
  match fminkey (p_frq w) with
  | None => (w, [])
  | Some sn =>
      match fget sn (p_frq w) with
      | None => (w, [])
      | Some bv =>
          let fs := firstn 8 (bidx true 1 bv) in
          let bv' := clear_bits fs bv in
          let m' := if isnil fs then p_frq w
                    else if bany bv' then fset sn bv' (p_frq w) else fdel sn (p_frq w) in
          (set_frq m' w,
           if held w sn then map (fun f => [SFrag sn f (nfr w sn)]) fs else [])
      end
  end.
Definition frags_requested (w : wst) : bool := existsb (fun kv => bany (snd kv)) (p_frq w).

(* handle_cache_cleaning -> remove_all_acked_changes_but_keep_depth(depth) -> remove_changes_before *)
Definition w_clean (depth : Z) (w : wst) : wst :=
  let fk := Z.max (p_aab w - depth) (w_first w) in
  if held w fk then set_first fk w else w.

(* ------------------------------------------------------------------------------------------ *)
(* reader: the RtpsWriterProxy of the writer + its FragmentAssembler + the topic cache          *)

Record rst := mkR {
  r_base : Z;                (* ack_base *)
  r_known : list Z;          (* keys of `changes` that are >= ack_base (lower keys never matter) *)
  r_hbc : Z;                 (* received_heartbeat_count *)
  r_anc : Z;                 (* sent_ack_nack_count *)
  r_asm : fmap;              (* assembly_buffers: sn -> received_bitmap *)
  r_got : list Z             (* samples handed to the topic cache (make_cache_change) *)
}.
Definition r_init : rst := mkR 1 [] 0 0 [] [].

(* advance_ack_base *)
Fixpoint advance (fuel : nat) (b : Z) (kn : list Z) : Z * list Z :=
  match fuel with
  | O => (b, kn)
  | S n => if mem b kn then advance n (b + 1) (del b kn) else (b, kn)
  end.
Definition adv (b : Z) (kn : list Z) : Z * list Z := advance (length kn) b kn.

Definition set_bk (bk : Z * list Z) (r : rst) : rst :=
  mkR (fst bk) (snd bk) (r_hbc r) (r_anc r) (r_asm r) (r_got r).

(* should_ignore_change *)
Definition known (r : rst) (sn : Z) : bool := (sn <? r_base r) || mem sn (r_known r).

(* process_received_data: should_ignore_change, received_changes_add, make_cache_change *)
Definition r_data (sn : Z) (r : rst) : rst :=
  if known r sn then r
  else
    let kn := add sn (r_known r) in
    let bk := if sn =? r_base r then adv (r_base r) kn else (r_base r, kn) in
    mkR (fst bk) (snd bk) (r_hbc r) (r_anc r) (r_asm r) (r_got r ++ [sn]).

(* handle_datafrag_msg -> FragmentAssembler::new_datafrag (validate_datafrag: fragment number in
   range, same data_size as the existing buffer) -> process_received_data on completion.
   The assembler is fed even when the sample is already known. *)
Definition r_frag (sn f nf : Z) (r : rst) : rst :=
  if negb ((1 <=? f) && (f <=? nf)) then r
  else
    let bv := match fget sn (r_asm r) with Some bv => bv | None => repeat false (Z.to_nat nf) end in
    if negb (Z.of_nat (length bv) =? nf) then r
    else
      let bv' := bset (Z.to_nat (f - 1)) true bv in
      if ball bv' then
        r_data sn (mkR (r_base r) (r_known r) (r_hbc r) (r_anc r) (fdel sn (r_asm r)) (r_got r))
      else mkR (r_base r) (r_known r) (r_hbc r) (r_anc r) (fset sn bv' (r_asm r)) (r_got r).

(* irrelevant_changes_range *)
Definition irr_range (from until : Z) (r : rst) : rst :=
  if from >? until then r
  else if from <=? r_base r then
    let kn := filter (fun k => negb ((from <=? k) && (k <? until))) (r_known r) in
    if until >? r_base r then set_bk (adv until kn) r
    else set_bk (r_base r, kn) r
  else
    (* repo fix c71c7f1: markers only up to min(until - 1, ack_base + 255), the window the next ACKNACK can mention *)
    let last_to_mark := Z.min (until - 1) (r_base r + 255) in
    set_bk (r_base r, union (r_known r) (zrange from (Z.to_nat (last_to_mark + 1 - from)))) r.

(* set_irrelevant_change *)
Definition set_irr (sn : Z) (r : rst) : rst :=
  if sn <? r_base r then r
  else
    let kn := add sn (r_known r) in
    if sn =? r_base r then set_bk (adv (r_base r) kn) r else set_bk (r_base r, kn) r.

(* handle_gap_msg *)
Definition r_gap (start base : Z) (bits : list Z) (r : rst) : rst :=
  if (start <=? 0) || (base <=? 0) then r
  else fold_left (fun acc sn => set_irr sn acc) bits (irr_range start base r).

(* missing_seqnums(first, last) *)
Definition missing (r : rst) (first last : Z) : list Z :=
  if first >? last then []
  else filter (fun s => negb (mem s (r_known r))) (zseq (Z.max first (r_base r)) last).

(* handle_heartbeat_msg (final flag not set: always answers).  Datagrams: NACKFRAGs (one
   datagram with all of them) first, then the ACKNACK; counts are drawn in that order (repo fix
   b73e74c: the ACKNACK takes its count after the NACKFRAGs that are sent before it). *)
Definition r_hb (first last count : Z) (r : rst) : rst * list dgram :=
  if count <=? r_hbc r then (r, [])
  else
    let r1 := irr_range 0 first (mkR (r_base r) (r_known r) count (r_anc r) (r_asm r) (r_got r)) in
    let last_check := Z.min last (r_base r1 + 255) in
    let ms := missing r1 first last_check in
    let partial := filter (fun sn => fhas sn (r_asm r1)) ms in
    let bits := filter (fun sn => negb (fhas sn (r_asm r1))) ms in
    let abase := match ms with fm :: _ => fm | [] => r_base r1 end in
    let c := r_anc r1 in
    let nfs := flat_map (fun '(sn, k) =>
                 match fget sn (r_asm r1) with
                 | Some bv =>
                     match bidx false 1 bv with
                     | f0 :: rest => [SNackFrag sn f0 (filter (fun f => f <=? f0 + 255) (f0 :: rest)) k]
                     | [] => []
                     end
                 | None => []
                 end) (combine partial (zrange c (length partial))) in
    (mkR (r_base r1) (r_known r1) (r_hbc r1) (c + 1 + Z.of_nat (length partial)) (r_asm r1) (r_got r1),
     (if isnil nfs then [] else [nfs]) ++ [[SAck abase bits (c + Z.of_nat (length partial))]]).

(* ------------------------------------------------------------------------------------------ *)
(* the product system                                                                           *)

Record sys := mkS { sw : wst; sr : rst; net : list dgram }.
Definition s_init : sys := mkS w_init r_init [].

(* one submessage arriving at its destination; replies are appended to the network *)
Definition recv_sub (s : sys) (m : sub) : sys :=
  match m with
  | SData sn => mkS (sw s) (r_data sn (sr s)) (net s)
  | SFrag sn f nf => mkS (sw s) (r_frag sn f nf (sr s)) (net s)
  | SHb fi la c => let '(r, out) := r_hb fi la c (sr s) in mkS (sw s) r (net s ++ out)
  | SGap st b bits => mkS (sw s) (r_gap st b bits (sr s)) (net s)
  | SAck b bits _ => let '(w, out) := w_acknack b bits (sw s) in mkS w (sr s) (net s ++ out)
  | SNackFrag sn _ bits _ => mkS (w_nackfrag sn bits (sw s)) (sr s) (net s)
  end.
Definition recv (s : sys) (d : dgram) : sys := fold_left recv_sub d s.

Fixpoint remove_nth {A} (i : nat) (l : list A) : list A :=
  match l, i with
  | [], _ => []
  | _ :: t, O => t
  | x :: t, S i' => x :: remove_nth i' t
  end.

Inductive op :=
| OWrite (nf : Z)            (* the application writes a sample of nf fragments (1 = plain DATA) *)
| OHbTick                    (* TimedEvent::Heartbeat *)
| ORepairTick                (* TimedEvent::SendRepairData *)
| ORepairFragsTick           (* TimedEvent::SendRepairFrags *)
| OCacheClean                (* TimedEvent::CacheCleaning *)
| ODeliver (i : nat)         (* the i-th in-flight datagram arrives *)
| ODrop (i : nat)            (* ... is lost *)
| ODup (i : nat)             (* ... arrives and stays in flight (duplicate) *)
| OFragGC.                   (* Reader::garbage_collect_fragments drops the (stale) assembly buffers *)

Definition lift_w (s : sys) (wo : wst * list dgram) : sys := mkS (fst wo) (sr s) (net s ++ snd wo).

Definition step (depth : Z) (s : sys) (o : op) : sys :=
  match o with
  | OWrite nf => lift_w s (w_write nf (sw s))
  | OHbTick => lift_w s (w_hbtick (sw s))
  | ORepairTick => lift_w s (w_repair (sw s))
  | ORepairFragsTick => lift_w s (w_repair_frags (sw s))
  | OCacheClean => mkS (w_clean depth (sw s)) (sr s) (net s)
  | ODeliver i =>
      match nth_error (net s) i with
      | Some d => recv (mkS (sw s) (sr s) (remove_nth i (net s))) d
      | None => s
      end
  | ODrop i => mkS (sw s) (sr s) (remove_nth i (net s))
  | ODup i =>
      match nth_error (net s) i with
      | Some d => recv s d
      | None => s
      end
  | OFragGC =>
      mkS (sw s) (mkR (r_base (sr s)) (r_known (sr s)) (r_hbc (sr s)) (r_anc (sr s)) [] (r_got (sr s))) (net s)
  end.
Definition run_ops (depth : Z) (s : sys) (ops : list op) : sys := fold_left (step depth) ops s.

(* ------------------------------------------------------------------------------------------ *)
(* the fault-free macro step                                                                    *)

(* deliver, in sending order, the n datagrams that are in flight now (replies queue up behind) *)
Fixpoint deliver_n (depth : Z) (n : nat) (s : sys) : sys :=
  match n with O => s | S n' => deliver_n depth n' (step depth s (ODeliver 0)) end.
Definition flush (depth : Z) (s : sys) : sys := deliver_n depth (length (net s)) s.

(* SendRepairData re-arms itself while repair_mode is set; SendRepairFrags while fragments are
   requested.  The fuel is enough for every reachable state (Proofs.repairs_clear). *)
Fixpoint repair_loop (depth : Z) (fuel : nat) (s : sys) : sys :=
  match fuel with
  | O => s
  | S n => if p_repair (sw s) then repair_loop depth n (step depth s ORepairTick) else s
  end.
Fixpoint frags_loop (depth : Z) (fuel : nat) (s : sys) : sys :=
  match fuel with
  | O => s
  | S n => if frags_requested (sw s) then frags_loop depth n (step depth s ORepairFragsTick) else s
  end.
Definition count_true (m : fmap) : nat :=
  fold_right (fun kv acc => (length (filter (fun b => b) (snd kv)) + acc)%nat) O m.
Definition log_total (w : wst) : nat := fold_right (fun nf acc => (Z.to_nat nf + acc)%nat) O (w_log w).
Definition repairs (depth : Z) (s : sys) : sys :=
  let s1 := repair_loop depth (S (length (p_unsent (sw s)))) s in
  frags_loop depth (S (count_true (p_frq (sw s1)))) s1.

Definition round (depth : Z) (s : sys) : sys :=
  let s1 := step depth s OHbTick in
  let s2 := flush depth s1 in          (* heartbeat and everything older reach their ends *)
  let s3 := flush depth s2 in          (* the reader's answers reach the writer *)
  let s4 := flush depth s3 in          (* GAPs the writer answered with reach the reader *)
  let s5 := repairs depth s4 in        (* repair timers run until the repair flags are clear *)
  flush depth s5.                      (* the repairs reach the reader *)

(* ------------------------------------------------------------------------------------------ *)
(* what is still to be repaired                                                                 *)

(* the reader has fragment f of sample sn (f = 1 for a plain DATA sample) *)
Definition have (r : rst) (sn f : Z) : bool :=
  known r sn || match fget sn (r_asm r) with Some bv => bget (Z.to_nat (f - 1)) bv | None => false end.
(* all (sample, fragment) items of a write log, first sample is sn0 *)
Fixpoint items_from (sn0 : Z) (log : list Z) : list (Z * Z) :=
  match log with
  | [] => []
  | nf :: t => map (fun f => (sn0, f)) (zseq 1 (Z.max nf 1)) ++ items_from (sn0 + 1) t
  end.
Definition lacking (log : list Z) (r : rst) : list (Z * Z) :=
  filter (fun it => negb (have r (fst it) (snd it))) (items_from 1 log).
(* the measure: number of (sample | fragment) items the writer has advertised and the reader
   neither holds nor knows to be unavailable *)
Definition mu_of (log : list Z) (r : rst) : nat := length (lacking log r).
Definition mu (s : sys) : nat := mu_of (w_log (sw s)) (sr s).

(* every matched reliable reader has acknowledged everything *)
Definition acked (s : sys) : bool := w_last (sw s) <? p_aab (sw s).
(* no repair timer is armed and nothing is in flight *)
Definition calm (s : sys) : bool :=
  negb (p_repair (sw s)) && negb (frags_requested (sw s)) && isnil (net s).
(* the reader holds every sample still in the writer's history, and every advertised sequence
   number is known to it (received, or declared unavailable) *)
Definition covered (s : sys) : bool :=
  forallb (fun sn => mem sn (r_got (sr s))) (zseq (w_first (sw s)) (w_last (sw s)))
  && (w_last (sw s) <? r_base (sr s)).

(* ------------------------------------------------------------------------------------------ *)
(* correspondence interface                                                                     *)

Record digest := mkD {
  d_first : Z; d_last : Z; d_whbc : Z; d_aab : Z; d_unsent : list Z; d_gap : list Z;
  d_repair : bool; d_frq : fmap;
  d_base : Z; d_known : list Z; d_rhbc : Z; d_anc : Z; d_asm : fmap; d_got : list Z;
  d_net : Z
}.
Definition dig (s : sys) : digest :=
  mkD (w_first (sw s)) (w_last (sw s)) (w_hbc (sw s)) (p_aab (sw s)) (p_unsent (sw s))
      (p_gap (sw s)) (p_repair (sw s)) (p_frq (sw s))
      (r_base (sr s)) (r_known (sr s)) (r_hbc (sr s)) (r_anc (sr s)) (r_asm (sr s)) (r_got (sr s))
      (Z.of_nat (length (net s))).

Record case := mkCase { c_depth : Z; c_ops : list op; c_rounds : nat }.
(* per prefix op and per round: the datagrams sent during it (in order) and the digest after *)
Record obs := mkObs { o_steps : list (list dgram * digest); o_rounds : list (list dgram * digest) }.

(* datagrams sent by a step = what was appended to the network.  Every step only removes at
   most one datagram and appends. *)
Definition sent_by (before after : sys) (removed : nat) : list dgram :=
  skipn (length (net before) - removed) (net after).
Definition removes (s : sys) (o : op) : nat :=
  match o with
  | ODeliver i | ODrop i => if Nat.ltb i (length (net s)) then 1%nat else 0%nat
  | _ => 0%nat
  end.

Fixpoint run_steps (depth : Z) (s : sys) (ops : list op) : sys * list (list dgram * digest) :=
  match ops with
  | [] => (s, [])
  | o :: t =>
      let s' := step depth s o in
      let '(sf, l) := run_steps depth s' t in
      (sf, (sent_by s s' (removes s o), dig s') :: l)
  end.

(* the round, with the datagrams it sends *)
Definition round_sent (depth : Z) (s : sys) : sys * list dgram :=
  let s1 := step depth s OHbTick in
  let e1 := sent_by s s1 0 in
  let s2 := flush depth s1 in
  let e2 := net s2 in
  let s3 := flush depth s2 in
  let e3 := net s3 in
  let s4 := flush depth s3 in
  let e4 := net s4 in
  let s5 := repairs depth s4 in
  let e5 := sent_by s4 s5 0 in
  (flush depth s5, e1 ++ e2 ++ e3 ++ e4 ++ e5 ++ net (flush depth s5)).

Fixpoint run_rounds (depth : Z) (s : sys) (n : nat) : list (list dgram * digest) :=
  match n with
  | O => []
  | S n' => let '(s', e) := round_sent depth s in (e, dig s') :: run_rounds depth s' n'
  end.

Definition run (c : case) : obs :=
  let '(s, l) := run_steps (c_depth c) s_init (c_ops c) in
  mkObs l (run_rounds (c_depth c) s (c_rounds c)).

(* --- comparison: sequence-number sets as sets, maps as sets of bindings ------------------- *)
Definition incl_b (a b : list Z) : bool := forallb (fun x => mem x b) a.
(* fast path: the same list; otherwise mutual inclusion *)
Definition set_eqb (a b : list Z) : bool := list_eqb Z.eqb a b || (incl_b a b && incl_b b a).
Definition bools_eqb (a b : list bool) : bool := list_eqb Bool.eqb a b.
Definition fmap_incl (a b : fmap) : bool :=
  forallb (fun kv => match fget (fst kv) b with Some v => bools_eqb (snd kv) v | None => false end) a.
Definition fmap_eqb (a b : fmap) : bool :=
  fmap_incl a b && fmap_incl b a && (Nat.eqb (length a) (length b)).
Definition sub_eqb (a b : sub) : bool :=
  match a, b with
  | SData x, SData y => x =? y
  | SFrag x f n, SFrag y g m => (x =? y) && (f =? g) && (n =? m)
  | SHb a1 a2 a3, SHb b1 b2 b3 => (a1 =? b1) && (a2 =? b2) && (a3 =? b3)
  | SGap a1 a2 l1, SGap b1 b2 l2 => (a1 =? b1) && (a2 =? b2) && set_eqb l1 l2
  | SAck a1 l1 c1, SAck b1 l2 c2 => (a1 =? b1) && set_eqb l1 l2 && (c1 =? c2)
  | SNackFrag s1 a1 l1 c1, SNackFrag s2 b1 l2 c2 =>
      (s1 =? s2) && (a1 =? b1) && set_eqb l1 l2 && (c1 =? c2)
  | _, _ => false
  end.
Definition dgrams_eqb : list dgram -> list dgram -> bool := list_eqb (list_eqb sub_eqb).
Definition digest_eqb (a b : digest) : bool :=
  (d_first a =? d_first b) && (d_last a =? d_last b) && (d_whbc a =? d_whbc b)
  && (d_aab a =? d_aab b) && set_eqb (d_unsent a) (d_unsent b) && set_eqb (d_gap a) (d_gap b)
  && Bool.eqb (d_repair a) (d_repair b) && fmap_eqb (d_frq a) (d_frq b)
  && (d_base a =? d_base b) && set_eqb (d_known a) (d_known b) && (d_rhbc a =? d_rhbc b)
  && (d_anc a =? d_anc b) && fmap_eqb (d_asm a) (d_asm b) && set_eqb (d_got a) (d_got b)
  && (d_net a =? d_net b).
Definition entry_eqb (a b : list dgram * digest) : bool :=
  dgrams_eqb (fst a) (fst b) && digest_eqb (snd a) (snd b).
Definition obs_eqb (a b : obs) : bool :=
  list_eqb entry_eqb (o_steps a) (o_steps b) && list_eqb entry_eqb (o_rounds a) (o_rounds b).

(* --- the property oracle: looks only at the case and at observed datagrams / digests -------- *)
Definition writes_of (ops : list op) : list Z :=
  flat_map (fun o => match o with OWrite nf => [nf] | _ => [] end) ops.
Definition d_reader (d : digest) : rst := mkR (d_base d) (d_known d) (d_rhbc d) (d_anc d) (d_asm d) (d_got d).
Definition d_mu (log : list Z) (d : digest) : nat := mu_of log (d_reader d).
Definition d_acked (d : digest) : bool := d_last d <? d_aab d.
Definition d_calm (d : digest) : bool :=
  negb (d_repair d) && negb (existsb (fun kv => bany (snd kv)) (d_frq d)) && (d_net d =? 0).
Definition d_covered (d : digest) : bool :=
  forallb (fun sn => mem sn (d_got d)) (zseq (d_first d) (d_last d)) && (d_last d <? d_base d).

(* one fault-free round, judged on what was observed before it (d0) and during/after it *)
Definition round_ok (log : list Z) (d0 : digest) (e : list dgram * digest) : bool :=
  let d1 := snd e in
  let m0 := d_mu log d0 in
  let m1 := d_mu log d1 in
  (* progress: while something is missing, every round repairs at least one item *)
  (Nat.eqb m0 0 || Nat.ltb m1 m0)
  && (Nat.leb m1 m0)
  (* a round leaves nothing in flight *)
  && (d_net d1 =? 0)
  (* nothing missing and nothing in flight: one round later everything is acknowledged and no
     repair timer is armed *)
  && (negb (Nat.eqb m0 0 && (d_net d0 =? 0)) || (d_acked d1 && d_calm d1))
  (* nothing missing means: the reader holds all the writer still has, the rest is known *)
  && (negb (Nat.eqb m1 0) || d_covered d1)
  (* silence: nothing missing, everything acknowledged, no timer armed => no datagram at all *)
  && (negb (Nat.eqb m0 0 && d_acked d0 && d_calm d0) || isnil (fst e)).
Fixpoint rounds_ok (log : list Z) (d0 : digest) (l : list (list dgram * digest)) : bool :=
  match l with
  | [] => true
  | e :: t => round_ok log d0 e && rounds_ok log (snd e) t
  end.
Definition d_init : digest := dig s_init.
Definition last_digest (l : list (list dgram * digest)) (d : digest) : digest :=
  last (map snd l) d.
Definition ok (c : case) (o : obs) : bool :=
  let log := writes_of (c_ops c) in
  let d0 := last_digest (o_steps o) d_init in
  let df := last_digest (o_rounds o) d0 in
  rounds_ok log d0 (o_rounds o)
  && Nat.eqb (length (o_rounds o)) (c_rounds c)
  (* after mu+3 rounds: everything delivered, acknowledged, and the last round was silent *)
  && (negb (Nat.leb (d_mu log d0 + 3) (c_rounds c))
      || (Nat.eqb (d_mu log df) 0 && d_covered df && d_acked df
          && isnil (fst (last (o_rounds o) ([], d0))))).
