(* C02 — the inductive invariant of all reachable states *)
From Coq Require Import List ZArith Bool Lia.
From RD Require Import Common.Corr C02.Model C02.Basics.
Import ListNotations.
Open Scope Z_scope.

(* what can be in flight *)
Definition sub_ok (w : wst) (r : rst) (m : sub) : Prop :=
  match m with
  | SData sn => 1 <= sn <= w_last w
  | SFrag sn f nf => 1 <= sn <= w_last w /\ nf = nfr w sn /\ 1 <= f <= nf
  | SHb fi la c => 1 <= fi <= w_first w /\ la <= w_last w /\ c < w_hbc w
  | SGap st b bits => b <= w_first w /\ bits = []
  | SAck b bits c => 1 <= b <= r_base r /\ forall x, In x bits -> b <= x
  | SNackFrag sn fb bits c => 1 <= sn <= w_last w /\ exists f, In f bits /\ 1 <= f <= nfr w sn
  end.

Record Inv (s : sys) : Prop := mkInv {
  i_first : 1 <= w_first (sw s) <= w_last (sw s) + 1;
  i_first_base : w_first (sw s) <= r_base (sr s);
  i_unsent : forall u, In u (p_unsent (sw s)) -> p_aab (sw s) <= u <= w_last (sw s) /\ 1 <= u;
  i_aab : 0 <= p_aab (sw s) <= r_base (sr s);
  i_gap : p_gap (sw s) = [];
  i_frq : forall sn bv, In (sn, bv) (p_frq (sw s)) ->
            1 <= sn <= w_last (sw s) /\ Z.of_nat (length bv) = nfr (sw s) sn /\ bany bv = true;
  i_base : 1 <= r_base (sr s) <= w_last (sw s) + 1;
  i_known : forall k, In k (r_known (sr s)) -> r_base (sr s) < k <= w_last (sw s);
  i_asm : forall sn bv, In (sn, bv) (r_asm (sr s)) ->
            1 <= sn <= w_last (sw s) /\ Z.of_nat (length bv) = nfr (sw s) sn /\ ball bv = false;
  i_got : forall sn, 1 <= sn -> known (sr s) sn = true -> In sn (r_got (sr s)) \/ sn < w_first (sw s);
  i_hbc : r_hbc (sr s) < w_hbc (sw s);
  i_net : forall d m, In d (net s) -> In m d -> sub_ok (sw s) (sr s) m
}.

Definition wframe (w w' : wst) : Prop :=
  w_last w <= w_last w' /\ (forall sn, 1 <= sn <= w_last w -> nfr w' sn = nfr w sn)
  /\ w_first w <= w_first w' /\ w_hbc w <= w_hbc w'.

Lemma wframe_refl_log w w' :
  w_log w' = w_log w -> w_first w <= w_first w' -> w_hbc w <= w_hbc w' -> wframe w w'.
Proof.
  intros E H1 H2. unfold wframe, w_last, nfr. rewrite E. repeat split; auto; lia.
Qed.

Lemma sub_ok_mono w r w' r' m :
  wframe w w' -> r_base r <= r_base r' -> sub_ok w r m -> sub_ok w' r' m.
Proof.
  intros (F1 & F2 & F3 & F4) B. destruct m; simpl; intros H.
  - lia.
  - destruct H as (H1 & H2 & H3). rewrite F2 by lia. repeat split; try lia; assumption.
  - lia.
  - destruct H. split; [lia | assumption].
  - destruct H as [H1 H2]. split; [lia | exact H2].
  - destruct H as [H1 [f [Hf Hr]]]. split; [lia|]. exists f. rewrite F2 by lia. auto.
Qed.

Lemma In_remove_nth {A} i (l : list A) x : In x (remove_nth i l) -> In x l.
Proof.
  revert i; induction l as [|a l IH]; intros [|i]; simpl; auto.
  intros [H|H]; [left; assumption | right; eauto].
Qed.

(* a step that changes only the writer and sends datagrams *)
Lemma Inv_wstep w r n w' out :
  Inv (mkS w r n) ->
  wframe w w' ->
  1 <= w_first w' <= w_last w' + 1 ->
  w_first w' <= r_base r ->
  (forall u, In u (p_unsent w') -> p_aab w' <= u <= w_last w' /\ 1 <= u) ->
  0 <= p_aab w' <= r_base r ->
  p_gap w' = [] ->
  (forall sn bv, In (sn, bv) (p_frq w') ->
      1 <= sn <= w_last w' /\ Z.of_nat (length bv) = nfr w' sn /\ bany bv = true) ->
  (forall d m, In d out -> In m d -> sub_ok w' r m) ->
  Inv (mkS w' r (n ++ out)).
Proof.
  intros I F H1 H2 H3 H4 H5 H6 H7. pose proof F as (F1 & F2 & F3 & F4).
  destruct I as [I1 I2 I3 I4 I5 I6 I7 I8 I9 I10 I11 I12]; simpl in *.
  constructor; simpl; auto.
  - lia.
  - intros k Hk. specialize (I8 k Hk). lia.
  - intros sn bv Hin. destruct (I9 sn bv Hin) as (A & B & C). rewrite F2 by lia. repeat split; try lia; assumption.
  - intros sn Hs Hk. destruct (I10 sn Hs Hk); [left; assumption | right; lia].
  - lia.
  - intros d m Hd Hm. apply in_app_iff in Hd as [Hd|Hd].
    + eapply sub_ok_mono; [exact F | apply Z.le_refl | eapply I12; eassumption].
    + eapply H7; eassumption.
Qed.

(* a step that changes only the reader, may consume datagrams and sends datagrams *)
Lemma Inv_rstep w r n r' n' out :
  Inv (mkS w r n) ->
  (forall d, In d n' -> In d n) ->
  r_base r <= r_base r' ->
  r_base r' <= w_last w + 1 ->
  (forall k, In k (r_known r') -> r_base r' < k <= w_last w) ->
  (forall sn bv, In (sn, bv) (r_asm r') ->
      1 <= sn <= w_last w /\ Z.of_nat (length bv) = nfr w sn /\ ball bv = false) ->
  (forall sn, 1 <= sn -> known r' sn = true -> In sn (r_got r') \/ sn < w_first w) ->
  r_hbc r' < w_hbc w ->
  (forall d m, In d out -> In m d -> sub_ok w r' m) ->
  Inv (mkS w r' (n' ++ out)).
Proof.
  intros I Hn B H1 H2 H3 H4 H5 H6.
  destruct I as [I1 I2 I3 I4 I5 I6 I7 I8 I9 I10 I11 I12]; simpl in *.
  constructor; simpl; auto; try lia.
  intros d m Hd Hm. apply in_app_iff in Hd as [Hd|Hd].
  - eapply sub_ok_mono; [apply wframe_refl_log; [reflexivity | lia | lia] | exact B | eapply I12; [apply Hn; exact Hd | exact Hm]].
  - eapply H6; eassumption.
Qed.

Lemma Inv_net_sub w r n n' :
  Inv (mkS w r n) -> (forall d, In d n' -> In d n) -> Inv (mkS w r n').
Proof.
  intros I Hn. destruct I as [I1 I2 I3 I4 I5 I6 I7 I8 I9 I10 I11 I12]; simpl in *.
  constructor; simpl; auto. intros d m Hd Hm. eapply I12; [apply Hn; exact Hd | exact Hm].
Qed.

(* ---------- the log ---------- *)
Lemma w_last_app w nf : Z.of_nat (length (w_log w ++ [nf])) = w_last w + 1.
Proof. unfold w_last. rewrite app_length. simpl. lia. Qed.
Lemma nth_app_old (l : list Z) nf sn :
  1 <= sn <= Z.of_nat (length l) -> nth (Z.to_nat (sn - 1)) (l ++ [nf]) 0 = nth (Z.to_nat (sn - 1)) l 0.
Proof. intro H. apply app_nth1. lia. Qed.
Lemma nth_app_new (l : list Z) nf :
  nth (Z.to_nat (Z.of_nat (length l) + 1 - 1)) (l ++ [nf]) 0 = nf.
Proof.
  replace (Z.to_nat (Z.of_nat (length l) + 1 - 1)) with (length l) by lia.
  rewrite app_nth2 by lia. rewrite Nat.sub_diag. reflexivity.
Qed.

Lemma Inv_init : Inv s_init.
Proof.
  constructor; simpl; try lia; try contradiction; auto.
  - intros sn Hs. unfold known. simpl. intro H. apply orb_true_iff in H as [H|H]; [lia | discriminate].
Qed.

(* ---------- OWrite ---------- *)
Lemma Inv_write s nf : Inv s -> Inv (lift_w s (w_write nf (sw s))).
Proof.
  intro I. destruct s as [w r n]. unfold lift_w, w_write. cbn [sw sr net fst snd].
  pose proof I as [I1 I2 I3 I4 I5 I6 I7 I8 I9 I10 I11 I12]; cbn [sw sr net] in *.
  set (w' := mkW (w_log w ++ [nf]) (w_first w) (w_hbc w + 1) (p_aab w) (add (w_last w + 1) (p_unsent w))
                 (p_gap w) (p_repair w) (p_frq w)).
  assert (L : w_last w' = w_last w + 1) by (unfold w', w_last at 1; simpl; apply w_last_app).
  assert (NO : forall sn, 1 <= sn <= w_last w -> nfr w' sn = nfr w sn)
    by (intros sn H; unfold w', nfr; simpl; apply nth_app_old; exact H).
  assert (NN : nfr w' (w_last w + 1) = nf) by (unfold w', nfr, w_last; simpl; apply nth_app_new).
  assert (F : wframe w w') by (unfold wframe; rewrite L; repeat split; auto; unfold w'; simpl; lia).
  apply Inv_wstep with (w := w); [exact I | exact F | | | | | | | ].
  - rewrite L. unfold w'; simpl. lia.
  - unfold w'; simpl. lia.
  - intros u Hu. rewrite L. unfold w' in Hu; simpl in Hu. apply add_In in Hu as [->|Hu].
    + unfold w'; simpl. lia.
    + specialize (I3 u Hu). unfold w'; simpl. lia.
  - unfold w'; simpl. exact I4.
  - unfold w'; simpl. exact I5.
  - intros sn bv Hin. unfold w' in Hin; simpl in Hin. destruct (I6 sn bv Hin) as (A & B & C).
    rewrite NO by lia. rewrite L. repeat split; try lia; assumption.
  - intros d m Hd Hm.
    assert (HB : sub_ok w' r (SHb (w_first w) (w_last w + 1) (w_hbc w)))
      by (simpl; rewrite L; unfold w'; simpl; lia).
    destruct (nf <=? 1) eqn:E.
    + destruct Hd as [<-|[]]. destruct Hm as [<-|[<-|[]]]; [simpl; lia | exact HB].
    + apply in_app_iff in Hd as [Hd|[<-|[]]].
      * apply in_map_iff in Hd as [f [<- Hf]]. apply zseq_In in Hf.
        destruct Hm as [<-|[]]. simpl. rewrite L, NN. lia.
      * destruct Hm as [<-|[]]. exact HB.
Qed.

(* ---------- OHbTick ---------- *)
Lemma Inv_hbtick s : Inv s -> Inv (lift_w s (w_hbtick (sw s))).
Proof.
  intro I. destruct s as [w r n]. unfold lift_w, w_hbtick. cbn [sw sr net].
  pose proof I as [I1 I2 I3 I4 I5 I6 I7 I8 I9 I10 I11 I12]; cbn [sw sr net] in *.
  destruct (w_last w <? p_aab w); cbn [fst snd].
  - rewrite app_nil_r. exact I.
  - apply Inv_wstep with (w := w); [exact I | | | | | | | | ]; unfold set_hbc; simpl; auto.
    + apply wframe_refl_log; simpl; [reflexivity | lia | lia].
    + intros d m [<-|[]] [<-|[]]. simpl. unfold w_last. simpl. fold (w_last w). lia.
Qed.

(* ---------- OCacheClean ---------- *)
Lemma Inv_clean depth s : 0 <= depth -> Inv s -> Inv (mkS (w_clean depth (sw s)) (sr s) (net s)).
Proof.
  intros D I. destruct s as [w r n]. cbn [sw sr net]. unfold w_clean.
  pose proof I as [I1 I2 I3 I4 I5 I6 I7 I8 I9 I10 I11 I12]; cbn [sw sr net] in *.
  destruct (held w (Z.max (p_aab w - depth) (w_first w))) eqn:E; [|exact I].
  unfold held in E. apply andb_true_iff in E as [E1 E2]. apply Z.leb_le in E1, E2.
  rewrite <- (app_nil_r n).
  apply Inv_wstep with (w := w); [exact I | | | | | | | | ]; unfold set_first; simpl; auto;
    try (unfold w_last in *; simpl; lia).
  apply wframe_refl_log; simpl; [reflexivity | lia | lia].
Qed.

(* ---------- ODrop / network subsets ---------- *)
Lemma Inv_drop s i : Inv s -> Inv (mkS (sw s) (sr s) (remove_nth i (net s))).
Proof. intro I. destruct s as [w r n]. eapply Inv_net_sub; [exact I | intros d; apply In_remove_nth]. Qed.

(* ---------- ACKNACK at the writer ---------- *)
Lemma filter_id {A} (f : A -> bool) l : (forall x, In x l -> f x = true) -> filter f l = l.
Proof.
  induction l as [|a l IH]; simpl; intro H; [reflexivity|].
  rewrite (H a) by (left; reflexivity). f_equal. apply IH. intros; apply H; right; assumption.
Qed.

Lemma Inv_acknack w r n b bits :
  Inv (mkS w r n) -> 1 <= b <= r_base r -> (forall x, In x bits -> b <= x) ->
  Inv (mkS (fst (w_acknack b bits w)) r (n ++ snd (w_acknack b bits w))).
Proof.
  intros I Hb Hbits. pose proof I as [I1 I2 I3 I4 I5 I6 I7 I8 I9 I10 I11 I12]; cbn [sw sr net] in *.
  unfold w_acknack. rewrite I5. cbn [filter isnil fst snd]. replace (Z.max b 1) with b by lia.
  apply Inv_wstep with (w := w); [exact I | | | | | | | | ]; cbn [w_log w_first w_hbc p_aab p_unsent p_gap p_repair p_frq]; auto.
  - apply wframe_refl_log; simpl; [reflexivity | lia | lia].
  - intros u Hu. apply filter_In in Hu as [Hu Hl]. apply Z.leb_le in Hl. unfold w_last in *. cbn [w_log] in *.
    apply union_In in Hu as [Hu|Hu].
    + apply filter_In in Hu as [Hu Hg]. apply Z.leb_le in Hg. specialize (I3 u Hu). lia.
    + specialize (Hbits u Hu). lia.
  - lia.
  - intros d m [].
Qed.

(* ---------- NACKFRAG at the writer ---------- *)
Lemma fold_mark_length nf bits : forall bv,
  length (fold_left (fun acc f => if (1 <=? f) && (f <=? nf) then bset (Z.to_nat (f - 1)) true acc else acc) bits bv)
  = length bv.
Proof.
  induction bits as [|f bits IH]; intro bv; simpl; [reflexivity|].
  rewrite IH. destruct ((1 <=? f) && (f <=? nf)); [apply bset_length | reflexivity].
Qed.
Lemma fold_mark_keeps nf bits i : forall bv,
  bget i bv = true ->
  bget i (fold_left (fun acc f => if (1 <=? f) && (f <=? nf) then bset (Z.to_nat (f - 1)) true acc else acc) bits bv) = true.
Proof.
  induction bits as [|f bits IH]; intros bv H; simpl; [exact H|].
  apply IH. destruct ((1 <=? f) && (f <=? nf)); [apply bget_bset_true; exact H | exact H].
Qed.
Lemma fold_mark_sets nf bits f : forall bv,
  In f bits -> 1 <= f <= nf -> (Z.to_nat nf <= length bv)%nat ->
  bget (Z.to_nat (f - 1)) (fold_left (fun acc f => if (1 <=? f) && (f <=? nf) then bset (Z.to_nat (f - 1)) true acc else acc) bits bv) = true.
Proof.
  induction bits as [|g bits IH]; intros bv Hin Hf L; simpl; [contradiction|].
  destruct Hin as [->|Hin].
  - apply fold_mark_keeps. replace ((1 <=? f) && (f <=? nf)) with true by (symmetry; apply andb_true_iff; split; apply Z.leb_le; lia).
    apply bget_bset_same. lia.
  - apply IH; auto. destruct ((1 <=? g) && (g <=? nf)); [rewrite bset_length|]; exact L.
Qed.
Lemma mark_req_length nf bits bv : Z.of_nat (length bv) = nf -> length (mark_req nf bits bv) = length bv.
Proof.
  intro H. unfold mark_req. rewrite fold_mark_length, app_length, repeat_length. lia.
Qed.
Lemma mark_req_keeps nf bits bv i : bget i bv = true -> bget i (mark_req nf bits bv) = true.
Proof.
  intro H. unfold mark_req. apply fold_mark_keeps. unfold bget in *.
  destruct (Nat.lt_ge_cases i (length bv)) as [L|L].
  - rewrite app_nth1 by exact L. exact H.
  - rewrite nth_overflow in H by exact L. discriminate.
Qed.
Lemma mark_req_sets nf bits bv f :
  Z.of_nat (length bv) = nf -> In f bits -> 1 <= f <= nf ->
  bget (Z.to_nat (f - 1)) (mark_req nf bits bv) = true.
Proof.
  intros L Hin Hf. unfold mark_req. apply fold_mark_sets; auto. rewrite app_length. lia.
Qed.

Lemma Inv_nackfrag w r n sn bits :
  Inv (mkS w r n) -> 1 <= sn <= w_last w -> (exists f, In f bits /\ 1 <= f <= nfr w sn) ->
  Inv (mkS (w_nackfrag sn bits w) r n).
Proof.
  intros I Hsn [f [Hf Hr]]. pose proof I as [I1 I2 I3 I4 I5 I6 I7 I8 I9 I10 I11 I12]; cbn [sw sr net] in *.
  unfold w_nackfrag. destruct (held w sn); [|exact I].
  rewrite <- (app_nil_r n).
  apply Inv_wstep with (w := w); [exact I | | | | | | | | ]; unfold set_frq; cbn [w_log w_first w_hbc p_aab p_unsent p_gap p_repair p_frq]; auto.
  - apply wframe_refl_log; simpl; [reflexivity | lia | lia].
  - intros k v Hin. unfold w_last, nfr in *. cbn [w_log] in *. fold (nfr w k). fold (nfr w sn) in *.
    apply fset_In in Hin as [[Hin Hk]|E].
    + apply I6. exact Hin.
    + inversion E; subst k v; clear E.
      assert (L : Z.of_nat (length (match fget sn (p_frq w) with Some bv => bv | None => repeat false (Z.to_nat (nfr w sn)) end)) = nfr w sn).
      { destruct (fget sn (p_frq w)) as [bv|] eqn:G.
        - apply fget_In in G. apply I6 in G. tauto.
        - rewrite repeat_length. lia. }
      split; [exact Hsn|]. split.
      * rewrite mark_req_length by exact L. exact L.
      * apply bany_true_ex. exists (Z.to_nat (f - 1)). split.
        -- rewrite mark_req_length by exact L. lia.
        -- apply mark_req_sets; auto.
  - intros d m [].
Qed.

(* ---------- ORepairTick ---------- *)
Lemma gap_sub_nil : gap_sub [] = [].
Proof. reflexivity. Qed.
Lemma bany_repeat_true n : (0 < n)%nat -> bany (repeat true n) = true.
Proof. destruct n; simpl; [lia | reflexivity]. Qed.

Lemma Inv_repair s : Inv s -> Inv (lift_w s (w_repair (sw s))).
Proof.
  intro I. destruct s as [w r n]. unfold lift_w, w_repair. cbn [sw sr net].
  pose proof I as [I1 I2 I3 I4 I5 I6 I7 I8 I9 I10 I11 I12]; cbn [sw sr net] in *.
  destruct (lmin (p_unsent w)) as [u|] eqn:M.
  - apply lmin_spec in M as [Mu Mmin]. pose proof (I3 u Mu) as Hu.
    rewrite I5. cbn [mem existsb orb].
    destruct (u <? w_first w) eqn:B.
    + cbn [fst snd]. apply Inv_wstep with (w := w); [exact I | | | | | | | | ]; unfold set_unsent; cbn [w_log w_first w_hbc p_aab p_unsent p_gap p_repair p_frq]; auto.
      * apply wframe_refl_log; simpl; [reflexivity | lia | lia].
      * intros x Hx. apply filter_In in Hx as [Hx _]. apply filter_In in Hx as [Hx _]. apply I3 in Hx.
        unfold w_last in *. cbn [w_log]. exact Hx.
      * intros d m [<-|[]]. rewrite gap_sub_nil. intros [<-|[]]. simpl. split; [lia | reflexivity].
    + apply Z.ltb_ge in B.
      assert (H : held w u = true) by (unfold held; apply andb_true_iff; split; apply Z.leb_le; lia).
      rewrite H. cbn [fst snd].
      apply Inv_wstep with (w := w); [exact I | | | | | | | | ].
      * destruct (nfr w u <=? 1); apply wframe_refl_log; simpl; try reflexivity; lia.
      * destruct (nfr w u <=? 1); unfold w_last; simpl; exact I1.
      * destruct (nfr w u <=? 1); simpl; exact I2.
      * assert (G : forall x, In x (del u (p_unsent w)) -> p_aab w <= x <= w_last w /\ 1 <= x)
          by (intros x Hx; apply del_In in Hx as [Hx _]; apply I3; exact Hx).
        destruct (nfr w u <=? 1); unfold w_last; simpl; exact G.
      * destruct (nfr w u <=? 1); simpl; exact I4.
      * destruct (nfr w u <=? 1); simpl; exact I5.
      * destruct (nfr w u <=? 1) eqn:E; unfold w_last, nfr; cbn [w_log p_frq set_unsent set_frq]; [exact I6|].
        apply Z.leb_gt in E. intros k v Hin. apply fset_In in Hin as [[Hin _]|Eq]; [apply I6; exact Hin|].
        inversion Eq; subst k v. fold (nfr w u). fold (w_last w). split; [lia|]. split.
        -- rewrite repeat_length. lia.
        -- apply bany_repeat_true. lia.
      * assert (G : forall d m, In d (send_cc w u) -> In m d -> sub_ok w r m).
        { unfold send_cc. rewrite I5. cbn [isnil app]. destruct (nfr w u <=? 1) eqn:E.
          - intros d m [<-|[]] [<-|[]]. simpl. lia.
          - intros d m Hd Hm. apply in_map_iff in Hd as [f [<- Hf]]. apply zseq_In in Hf.
            destruct Hm as [<-|[]]. simpl. repeat split; try lia. }
        intros d m Hd Hm. eapply sub_ok_mono; [| apply Z.le_refl | eapply G; eassumption].
        destruct (nfr w u <=? 1); apply wframe_refl_log; simpl; try reflexivity; lia.
  - cbn [fst snd]. rewrite app_nil_r.
    rewrite <- (app_nil_r n).
    apply Inv_wstep with (w := w); [exact I | | | | | | | | ]; unfold set_repair; cbn [w_log w_first w_hbc p_aab p_unsent p_gap p_repair p_frq]; auto.
    + apply wframe_refl_log; simpl; [reflexivity | lia | lia].
    + intros d m [].
Qed.

(* ---------- ORepairFragsTick ---------- *)
Lemma clear_bits_length fs : forall bv, length (clear_bits fs bv) = length bv.
Proof.
  unfold clear_bits. induction fs as [|f fs IH]; intro bv; simpl; [reflexivity|].
  rewrite IH. apply bset_length.
Qed.
Lemma firstn_In {A} n (l : list A) x : In x (firstn n l) -> In x l.
Proof.
  revert l; induction n as [|n IH]; intros l; simpl; [contradiction|].
  destruct l as [|a l]; simpl; [contradiction|].
  intros [H|H]; [left; exact H | right; auto].
Qed.
Lemma fminkey_fget m sn : fminkey m = Some sn -> exists bv, fget sn m = Some bv.
Proof.
  unfold fminkey. intro H. apply lmin_spec in H as [H _]. apply in_map_iff in H as [[k v] [E H]].
  simpl in E; subst k. eapply In_fget; exact H.
Qed.

Lemma Inv_repair_frags s : Inv s -> Inv (lift_w s (w_repair_frags (sw s))).
Proof.
  intro I. destruct s as [w r n]. unfold lift_w, w_repair_frags. cbn [sw sr net].
  pose proof I as [I1 I2 I3 I4 I5 I6 I7 I8 I9 I10 I11 I12]; cbn [sw sr net] in *.
  destruct (fminkey (p_frq w)) as [sn|] eqn:M; [|cbn [fst snd]; rewrite app_nil_r; exact I].
  destruct (fget sn (p_frq w)) as [bv|] eqn:G; [|cbn [fst snd]; rewrite app_nil_r; exact I].
  pose proof (I6 _ _ (fget_In _ _ _ G)) as (S1 & S2 & S3).
  assert (FS : forall f, In f (firstn 8 (bidx true 1 bv)) -> 1 <= f <= nfr w sn).
  { intros f Hf. apply firstn_In in Hf. apply bidx_In in Hf as [Hf _]. lia. }
  remember (firstn 8 (bidx true 1 bv)) as fs eqn:Efs. clear Efs.
  cbn [fst snd].
  apply Inv_wstep with (w := w); [exact I | | | | | | | | ]; unfold set_frq; cbn [w_log w_first w_hbc p_aab p_unsent p_gap p_repair p_frq]; auto.
  - apply wframe_refl_log; cbn [w_log w_first w_hbc]; [reflexivity | lia | lia].
  - unfold w_last, nfr. cbn [w_log]. fold (w_last w).
    intros k v Hin.
    destruct (isnil fs); [apply I6; exact Hin|].
    destruct (bany (clear_bits fs bv)) eqn:A.
    + apply fset_In in Hin as [[Hin _]|E]; [apply I6; exact Hin|]. inversion E; subst k v.
      split; [exact S1|]. split; [rewrite clear_bits_length; exact S2 | exact A].
    + apply fdel_In in Hin as [Hin _]. apply I6; exact Hin.
  - intros d m Hd Hm. destruct (held w sn); [|destruct Hd].
    apply in_map_iff in Hd as [f [<- Hf]]. apply FS in Hf.
    destruct Hm as [<-|[]]. simpl. unfold w_last, nfr in *. cbn [w_log]. repeat split; try lia.
Qed.

(* ---------- DATA at the reader ---------- *)
Lemma known_spec r sn : known r sn = true <-> sn < r_base r \/ In sn (r_known r).
Proof. unfold known. rewrite orb_true_iff, Z.ltb_lt, mem_In. tauto. Qed.

Lemma Inv_data w r n sn : Inv (mkS w r n) -> 1 <= sn <= w_last w -> Inv (mkS w (r_data sn r) n).
Proof.
  intros I Hsn. pose proof I as [I1 I2 I3 I4 I5 I6 I7 I8 I9 I10 I11 I12]; cbn [sw sr net] in *.
  unfold r_data. destruct (known r sn) eqn:K; [exact I|].
  assert (K' : ~ (sn < r_base r \/ In sn (r_known r))) by (rewrite <- known_spec; congruence).
  rewrite <- (app_nil_r n).
  destruct (Z.eqb_spec sn (r_base r)) as [E|NE].
  - pose proof (adv_spec (r_base r) (add sn (r_known r))) as (A1 & A2 & A3 & A4).
    set (bk := adv (r_base r) (add sn (r_known r))) in *.
    assert (LT : r_base r < fst bk).
    { destruct (Z.eq_dec (fst bk) (r_base r)) as [Eq|]; [|lia]. exfalso. apply A4. apply A2. split.
      - apply add_In. left. congruence.
      - lia. }
    assert (KN : forall x, In x (add sn (r_known r)) -> x <= w_last w).
    { intros x Hx. apply add_In in Hx as [->|Hx]; [lia | apply I8 in Hx; lia]. }
    apply Inv_rstep with (r := r) (n := n); [exact I | auto | | | | | | | ]; cbn [r_base r_known r_hbc r_anc r_asm r_got].
    + lia.
    + assert (In (fst bk - 1) (add sn (r_known r))) by (apply A3; lia). apply KN in H. lia.
    + intros k Hk. apply A2 in Hk as [Hk Hr]. split; [|apply KN; exact Hk].
      assert (k <> fst bk) by (intro; subst k; apply A4; apply A2; split; [exact Hk | exact Hr]).
      apply add_In in Hk as [->|Hk]; [lia | apply I8 in Hk; lia].
    + exact I9.
    + intros x Hx Kx. unfold known in Kx. cbn [r_base r_known] in Kx.
      apply orb_true_iff in Kx. rewrite Z.ltb_lt, mem_In in Kx.
      assert (Hc : x = sn \/ known r x = true).
      { destruct Kx as [Kx|Kx].
        - destruct (Z.lt_ge_cases x (r_base r)) as [L|G]; [right; apply known_spec; left; exact L|].
          assert (Hin : In x (add sn (r_known r))) by (apply A3; lia).
          apply add_In in Hin as [->|Hin]; [left; reflexivity | right; apply known_spec; right; exact Hin].
        - apply A2 in Kx as [Kx _]. apply add_In in Kx as [->|Kx]; [left; reflexivity | right; apply known_spec; right; exact Kx]. }
      destruct Hc as [->|Hc].
      * left. apply in_app_iff. right. left. reflexivity.
      * destruct (I10 x Hx Hc) as [G|G]; [left; apply in_app_iff; left; exact G | right; exact G].
    + exact I11.
    + intros d m [].
  - apply Inv_rstep with (r := r) (n := n); [exact I | auto | | | | | | | ]; cbn [fst snd r_base r_known r_hbc r_anc r_asm r_got].
    + lia.
    + lia.
    + intros k Hk. apply add_In in Hk as [->|Hk]; [lia | apply I8; exact Hk].
    + exact I9.
    + intros x Hx Kx. unfold known in Kx. cbn [r_base r_known] in Kx.
      apply orb_true_iff in Kx. rewrite Z.ltb_lt, mem_In, add_In in Kx.
      destruct Kx as [Kx|[->|Kx]].
      * destruct (I10 x Hx) as [G|G]; [apply known_spec; left; exact Kx | left; apply in_app_iff; left; exact G | right; exact G].
      * left. apply in_app_iff. right. left. reflexivity.
      * destruct (I10 x Hx) as [G|G]; [apply known_spec; right; exact Kx | left; apply in_app_iff; left; exact G | right; exact G].
    + exact I11.
    + intros d m [].
Qed.

(* ---------- DATAFRAG at the reader ---------- *)
Lemma ball_bset_false_or i bv : ball (bset i true bv) = false -> ball bv = false.
Proof.
  intro H. destruct (ball bv) eqn:E; [|reflexivity]. exfalso.
  apply ball_false_ex in H as [j [Hj Hb]]. rewrite bset_length in Hj.
  rewrite bget_bset_true in Hb; [discriminate|]. apply ball_true_all; assumption.
Qed.

Lemma Inv_frag w r n sn f nf :
  Inv (mkS w r n) -> 1 <= sn <= w_last w -> nf = nfr w sn -> 1 <= f <= nf ->
  Inv (mkS w (r_frag sn f nf r) n).
Proof.
  intros I Hsn Hnf Hf. pose proof I as [I1 I2 I3 I4 I5 I6 I7 I8 I9 I10 I11 I12]; cbn [sw sr net] in *.
  unfold r_frag.
  replace ((1 <=? f) && (f <=? nf)) with true by (symmetry; apply andb_true_iff; split; apply Z.leb_le; lia).
  cbn [negb].
  set (bv := match fget sn (r_asm r) with Some bv => bv | None => repeat false (Z.to_nat nf) end).
  assert (L : Z.of_nat (length bv) = nf).
  { unfold bv. destruct (fget sn (r_asm r)) as [b|] eqn:G.
    - apply fget_In in G. apply I9 in G. lia.
    - rewrite repeat_length. lia. }
  replace (Z.of_nat (length bv) =? nf) with true by (symmetry; apply Z.eqb_eq; exact L).
  cbn [negb].
  destruct (ball (bset (Z.to_nat (f - 1)) true bv)) eqn:B.
  - apply Inv_data; [|exact Hsn].
    rewrite <- (app_nil_r n).
    apply Inv_rstep with (r := r) (n := n); [exact I | auto | | | | | | | ]; cbn [r_base r_known r_hbc r_anc r_asm r_got]; auto; try lia.
    + intros k v Hin. apply fdel_In in Hin as [Hin _]. apply I9; exact Hin.
    + intros d m [].
  - rewrite <- (app_nil_r n).
    apply Inv_rstep with (r := r) (n := n); [exact I | auto | | | | | | | ]; cbn [r_base r_known r_hbc r_anc r_asm r_got]; auto; try lia.
    + intros k v Hin. apply fset_In in Hin as [[Hin _]|E]; [apply I9; exact Hin|].
      inversion E; subst k v. split; [exact Hsn|]. split; [rewrite bset_length; lia | exact B].
    + intros d m [].
Qed.

(* ---------- GAP at the reader: every GAP this writer sends is below first_seq, which the
   reader has already passed ---------- *)
Lemma rst_eta r : mkR (r_base r) (r_known r) (r_hbc r) (r_anc r) (r_asm r) (r_got r) = r.
Proof. destruct r; reflexivity. Qed.

Lemma irr_range_noop r from until :
  until <= r_base r -> (forall k, In k (r_known r) -> r_base r < k) -> irr_range from until r = r.
Proof.
  intros U K. unfold irr_range. destruct (from >? until) eqn:E1; [reflexivity|].
  rewrite Z.gtb_ltb in E1. apply Z.ltb_ge in E1.
  replace (from <=? r_base r) with true by (symmetry; apply Z.leb_le; lia).
  replace (until >? r_base r) with false by (symmetry; rewrite Z.gtb_ltb; apply Z.ltb_ge; lia).
  rewrite filter_id.
  - unfold set_bk. cbn [fst snd]. apply rst_eta.
  - intros x Hx. apply K in Hx. apply negb_true_iff. apply andb_false_iff. right. apply Z.ltb_ge. lia.
Qed.

Lemma r_gap_noop w r n st b :
  Inv (mkS w r n) -> b <= w_first w -> r_gap st b [] r = r.
Proof.
  intros I Hb. pose proof I as [I1 I2 I3 I4 I5 I6 I7 I8 I9 I10 I11 I12]; cbn [sw sr net] in *.
  unfold r_gap. destruct ((st <=? 0) || (b <=? 0)); [reflexivity|]. cbn [fold_left].
  apply irr_range_noop; [lia | intros k Hk; apply I8 in Hk; lia].
Qed.

(* ---------- HEARTBEAT at the reader ---------- *)
Lemma zseq_cons lo hi : lo <= hi -> zseq lo hi = lo :: zseq (lo + 1) hi.
Proof.
  intro H. unfold zseq. replace (Z.to_nat (hi - lo + 1)) with (S (Z.to_nat (hi - (lo + 1) + 1))) by lia.
  reflexivity.
Qed.
Lemma zseq_empty lo hi : hi < lo -> zseq lo hi = [].
Proof. intro H. unfold zseq. replace (Z.to_nat (hi - lo + 1)) with O by lia. reflexivity. Qed.

(* the first missing sequence number, if any, is ack_base *)
Lemma missing_head r first last :
  first <= r_base r -> ~ In (r_base r) (r_known r) ->
  (missing r first last = [] /\ (last < r_base r \/ last < first)) \/
  (exists t, missing r first last = r_base r :: t /\ r_base r <= last).
Proof.
  intros F NB. unfold missing. destruct (first >? last) eqn:E.
  - rewrite Z.gtb_ltb in E. apply Z.ltb_lt in E. left. split; [reflexivity | right; lia].
  - rewrite Z.gtb_ltb in E. apply Z.ltb_ge in E. replace (Z.max first (r_base r)) with (r_base r) by lia.
    destruct (Z.lt_ge_cases last (r_base r)) as [L|G].
    + left. rewrite zseq_empty by exact L. split; [reflexivity | left; exact L].
    + right. rewrite zseq_cons by exact G. cbn [filter].
      replace (mem (r_base r) (r_known r)) with false by (symmetry; apply mem_false; exact NB).
      cbn [negb]. eexists. split; [reflexivity | exact G].
Qed.
Lemma missing_In r first last x : In x (missing r first last) -> r_base r <= x <= last /\ ~ In x (r_known r).
Proof.
  unfold missing. destruct (first >? last); [contradiction|].
  intro H. apply filter_In in H as [H1 H2]. apply zseq_In in H1. apply negb_true_iff, mem_false in H2.
  split; [lia | exact H2].
Qed.

Lemma r_hb_shape w r n fi la c :
  Inv (mkS w r n) -> 1 <= fi <= w_first w -> r_hbc r < c ->
  let r0 := mkR (r_base r) (r_known r) c (r_anc r) (r_asm r) (r_got r) in
  let ms := missing r0 fi (Z.min la (r_base r + 255)) in
  exists nfs,
    r_hb fi la c r =
      (mkR (r_base r) (r_known r) c (r_anc r + 1 + Z.of_nat (length (filter (fun sn => fhas sn (r_asm r)) ms)))
           (r_asm r) (r_got r),
       (if isnil nfs then [] else [nfs]) ++
       [[SAck (r_base r) (filter (fun sn => negb (fhas sn (r_asm r))) ms)
              (r_anc r + Z.of_nat (length (filter (fun sn => fhas sn (r_asm r)) ms)))]])
    /\ (forall m, In m nfs -> exists sn f0 bits k bv,
          m = SNackFrag sn f0 bits k /\ In sn ms /\ fget sn (r_asm r) = Some bv
          /\ In f0 (bidx false 1 bv) /\ bits = filter (fun f => f <=? f0 + 255) (bidx false 1 bv)
          /\ (forall f, In f (bidx false 1 bv) -> f0 <= f))
    /\ (forall sn bv, In sn ms -> fget sn (r_asm r) = Some bv -> ball bv = false ->
          exists f0 bits k, In (SNackFrag sn f0 bits k) nfs).
Proof.
  intros I Hfi Hc r0 ms. pose proof I as [I1 I2 I3 I4 I5 I6 I7 I8 I9 I10 I11 I12]; cbn [sw sr net] in *.
  unfold r_hb. replace (c <=? r_hbc r) with false by (symmetry; apply Z.leb_gt; lia).
  fold r0. rewrite (irr_range_noop r0 0 fi); [| unfold r0; simpl; lia | unfold r0; simpl; intros k Hk; apply I8 in Hk; lia].
  cbn [r_base r_known r_hbc r_anc r_asm r_got r0]. fold r0. fold ms.
  assert (AB : match ms with fm :: _ => fm | [] => r_base r end = r_base r).
  { destruct (missing_head r0 fi (Z.min la (r_base r + 255))) as [[E _]|[t [E _]]].
    - unfold r0; simpl; lia.
    - unfold r0; simpl. intro H. apply I8 in H. lia.
    - fold ms in E. rewrite E. reflexivity.
    - fold ms in E. rewrite E. reflexivity. }
  rewrite AB.
  eexists. split; [reflexivity|]. split.
  - intros m Hm. apply in_flat_map in Hm as [[sn k] [Hc1 Hm]].
    apply in_combine_l in Hc1 as Hsn. apply filter_In in Hsn as [Hsn _].
    destruct (fget sn (r_asm r)) as [bv|] eqn:G; [|destruct Hm].
    destruct (bidx false 1 bv) as [|f0 rest] eqn:B; [destruct Hm|].
    destruct Hm as [<-|[]]. exists sn, f0, (filter (fun f => f <=? f0 + 255) (f0 :: rest)), k, bv.
    repeat split; auto.
    + rewrite B. left; reflexivity.
    + rewrite B. reflexivity.
    + (* bidx is ascending *)
      intros f Hf. rewrite B in Hf. destruct Hf as [->|Hf]; [lia|].
      assert (ASC : forall l from, match bidx false from l with x :: t => forall y, In y t -> x <= y | [] => True end).
      { clear. induction l as [|b l IH]; intro from; simpl; [exact I|].
        destruct (Bool.eqb b false).
        - intros y Hy. apply bidx_In in Hy. lia.
        - apply IH. }
      specialize (ASC bv 1). rewrite B in ASC. apply ASC. exact Hf.
  - intros sn bv Hsn G NB.
    set (partial := filter (fun sn0 => fhas sn0 (r_asm r)) ms).
    assert (Hp : In sn partial) by (apply filter_In; split; [exact Hsn | apply fhas_spec; eauto]).
    destruct (In_nth _ _ 0 Hp) as [i [Hi Hn]].
    set (ks := zrange (r_anc r) (length partial)).
    assert (Hk : In (sn, nth i ks 0) (combine partial ks)).
    { rewrite <- Hn at 1. rewrite <- combine_nth by (unfold ks; rewrite zrange_length; reflexivity).
      apply nth_In. rewrite combine_length. unfold ks. rewrite zrange_length. lia. }
    apply ball_false_ex in NB as [j [Hj Hb]].
    assert (Hin : In (Z.of_nat j + 1) (bidx false 1 bv)).
    { apply bidx_In. split; [lia|]. replace (Z.to_nat (Z.of_nat j + 1 - 1)) with j by lia. exact Hb. }
    destruct (bidx false 1 bv) as [|f0 rest] eqn:B; [destruct Hin|].
    exists f0, (filter (fun f => f <=? f0 + 255) (f0 :: rest)), (nth i ks 0).
    apply in_flat_map. exists (sn, nth i ks 0). split; [exact Hk|].
    rewrite G, B. left. reflexivity.
Qed.

Lemma Inv_hb w r n n' fi la c :
  Inv (mkS w r n) -> (forall d, In d n' -> In d n) -> sub_ok w r (SHb fi la c) ->
  Inv (mkS w (fst (r_hb fi la c r)) (n' ++ snd (r_hb fi la c r))).
Proof.
  intros I Hn (Hfi & Hla & Hc). pose proof I as [I1 I2 I3 I4 I5 I6 I7 I8 I9 I10 I11 I12]; cbn [sw sr net] in *.
  destruct (Z.le_gt_cases c (r_hbc r)) as [L|G].
  - unfold r_hb. replace (c <=? r_hbc r) with true by (symmetry; apply Z.leb_le; exact L).
    cbn [fst snd]. rewrite app_nil_r. eapply Inv_net_sub; eassumption.
  - destruct (r_hb_shape w r n fi la c I Hfi ltac:(lia)) as [nfs [E [N1 N2]]].
    rewrite E. cbn [fst snd].
    apply Inv_rstep with (r := r) (n := n); [exact I | exact Hn | | | | | | | ]; cbn [r_base r_known r_hbc r_anc r_asm r_got]; auto; try lia.
    intros d m Hd Hm. apply in_app_iff in Hd as [Hd|[<-|[]]].
    + destruct (isnil nfs); [destruct Hd|]. destruct Hd as [<-|[]].
      destruct (N1 m Hm) as (sn & f0 & bits & k & bv & -> & Hsn & Gq & Hf0 & -> & _).
      apply fget_In in Gq. apply I9 in Gq as (G1 & G2 & G3). pose proof Hf0 as Hr. apply bidx_In in Hr as [Hr _].
      simpl. split; [exact G1|]. exists f0. split.
      * apply filter_In. split; [exact Hf0 | apply Z.leb_le; lia].
      * lia.
    + destruct Hm as [<-|[]]. simpl. split; [lia|].
      intros x Hx. apply filter_In in Hx as [Hx _]. apply missing_In in Hx as [Hx _]. simpl in Hx. lia.
Qed.

(* ---------- frames: what every step can only increase ---------- *)
Definition sframe (s s' : sys) : Prop := wframe (sw s) (sw s') /\ r_base (sr s) <= r_base (sr s').
Lemma wframe_refl w : wframe w w.
Proof. apply wframe_refl_log; [reflexivity | lia | lia]. Qed.
Lemma wframe_trans a b c : wframe a b -> wframe b c -> wframe a c.
Proof.
  intros (A1 & A2 & A3 & A4) (B1 & B2 & B3 & B4). unfold wframe. repeat split; try lia.
  intros sn H. rewrite B2 by lia. apply A2. exact H.
Qed.
Lemma sframe_refl s : sframe s s.
Proof. split; [apply wframe_refl | lia]. Qed.
Lemma sframe_trans a b c : sframe a b -> sframe b c -> sframe a c.
Proof. intros [A1 A2] [B1 B2]. split; [eapply wframe_trans; eassumption | lia]. Qed.

Lemma r_data_base sn r : r_base r <= r_base (r_data sn r).
Proof.
  unfold r_data. destruct (known r sn); [lia|]. destruct (sn =? r_base r); cbn [r_base fst]; [|lia].
  pose proof (adv_spec (r_base r) (add sn (r_known r))) as (A1 & _). exact A1.
Qed.
Lemma r_frag_base sn f nf r : r_base r <= r_base (r_frag sn f nf r).
Proof.
  unfold r_frag. destruct (negb ((1 <=? f) && (f <=? nf))); [lia|].
  destruct (negb _); [lia|]. destruct (ball _); [|simpl; lia].
  eapply Z.le_trans; [|apply r_data_base]. simpl. lia.
Qed.


Lemma r_hb_base w r n fi la c :
  Inv (mkS w r n) -> sub_ok w r (SHb fi la c) -> r_base (fst (r_hb fi la c r)) = r_base r.
Proof.
  intros I (Hfi & Hla & Hc).
  destruct (Z.le_gt_cases c (r_hbc r)) as [L|G].
  - unfold r_hb. replace (c <=? r_hbc r) with true by (symmetry; apply Z.leb_le; exact L). reflexivity.
  - destruct (r_hb_shape w r n fi la c I Hfi ltac:(lia)) as [nfs [E _]]. rewrite E. reflexivity.
Qed.

Lemma w_acknack_frame b bits w : wframe w (fst (w_acknack b bits w)).
Proof. unfold w_acknack. cbn [fst]. apply wframe_refl_log; simpl; [reflexivity | lia | lia]. Qed.
Lemma w_nackfrag_frame sn bits w : wframe w (w_nackfrag sn bits w).
Proof.
  unfold w_nackfrag. destruct (held w sn); [|apply wframe_refl].
  apply wframe_refl_log; simpl; [reflexivity | lia | lia].
Qed.

Lemma Inv_recv_sub s m :
  Inv s -> sub_ok (sw s) (sr s) m -> Inv (recv_sub s m) /\ sframe s (recv_sub s m).
Proof.
  intros I Hm. destruct s as [w r n]. cbn [sw sr net] in *. destruct m; cbn [recv_sub sw sr net].
  - split; [apply Inv_data; [exact I | exact Hm] | split; [apply wframe_refl | apply r_data_base]].
  - destruct Hm as (H1 & H2 & H3).
    split; [apply Inv_frag; assumption | split; [apply wframe_refl | apply r_frag_base]].
  - pose proof (Inv_hb w r n n first last count I (fun d H => H) Hm) as I'.
    pose proof (r_hb_base w r n first last count I Hm) as B.
    destruct (r_hb first last count r) as [r' out]. cbn [fst snd] in *.
    split; [exact I' | split; [apply wframe_refl | cbn [sr]; lia]].
  - destruct Hm as [Hb ->]. rewrite (r_gap_noop w r n start base I Hb).
    split; [exact I | apply sframe_refl].
  - destruct Hm as [Hb Hbits].
    pose proof (Inv_acknack w r n base bits I Hb Hbits) as I'.
    pose proof (w_acknack_frame base bits w) as F.
    destruct (w_acknack base bits w) as [w' out]. cbn [fst snd] in *.
    split; [exact I' | split; [exact F | cbn [sr]; lia]].
  - destruct Hm as [Hsn Hf].
    split; [apply Inv_nackfrag; assumption | split; [apply w_nackfrag_frame | cbn [sr]; lia]].
Qed.

Lemma Inv_recv d : forall s,
  Inv s -> (forall m, In m d -> sub_ok (sw s) (sr s) m) -> Inv (recv s d) /\ sframe s (recv s d).
Proof.
  unfold recv. induction d as [|m d IH]; intros s I H; cbn [fold_left].
  - split; [exact I | apply sframe_refl].
  - destruct (Inv_recv_sub s m I (H m (or_introl eq_refl))) as [I' F'].
    destruct (IH (recv_sub s m) I') as [I'' F''].
    + intros m' Hm'. destruct F' as [F1 F2]. eapply sub_ok_mono; [exact F1 | exact F2 | apply H; right; exact Hm'].
    + split; [exact I'' | eapply sframe_trans; eassumption].
Qed.

Lemma w_write_frame nf w : wframe w (fst (w_write nf w)).
Proof.
  unfold w_write. cbn [fst]. unfold wframe, w_last, nfr. cbn [w_log w_first w_hbc].
  rewrite app_length. simpl. repeat split; try lia.
  intros sn H. apply app_nth1. lia.
Qed.
Lemma w_hbtick_frame w : wframe w (fst (w_hbtick w)).
Proof.
  unfold w_hbtick. destruct (w_last w <? p_aab w); cbn [fst]; [apply wframe_refl|].
  apply wframe_refl_log; simpl; [reflexivity | lia | lia].
Qed.
Lemma w_repair_frame w : wframe w (fst (w_repair w)).
Proof.
  unfold w_repair. destruct (lmin (p_unsent w)); cbn [fst].
  - destruct (_ || _); cbn [fst]; [apply wframe_refl_log; simpl; [reflexivity | lia | lia]|].
    destruct (held w z); cbn [fst].
    + destruct (nfr w z <=? 1); apply wframe_refl_log; simpl; try reflexivity; lia.
    + apply wframe_refl_log; simpl; [reflexivity | lia | lia].
  - apply wframe_refl_log; simpl; [reflexivity | lia | lia].
Qed.
Lemma w_repair_frags_frame w : wframe w (fst (w_repair_frags w)).
Proof.
  unfold w_repair_frags. destruct (fminkey (p_frq w)); cbn [fst]; [|apply wframe_refl].
  destruct (fget z (p_frq w)); cbn [fst]; [|apply wframe_refl].
  apply wframe_refl_log; simpl; [reflexivity | lia | lia].
Qed.
Lemma w_clean_frame depth w : wframe w (w_clean depth w).
Proof.
  unfold w_clean. destruct (held w _) eqn:E; [|apply wframe_refl].
  unfold held in E. apply andb_true_iff in E as [E1 _]. apply Z.leb_le in E1.
  apply wframe_refl_log; simpl; [reflexivity | lia | lia].
Qed.

Theorem Inv_step depth s o : 0 <= depth -> Inv s -> Inv (step depth s o) /\ sframe s (step depth s o).
Proof.
  intros D I. destruct o; cbn [step].
  - split; [apply Inv_write; exact I | split; [apply w_write_frame | cbn; lia]].
  - split; [apply Inv_hbtick; exact I | split; [apply w_hbtick_frame | cbn; lia]].
  - split; [apply Inv_repair; exact I | split; [apply w_repair_frame | cbn; lia]].
  - split; [apply Inv_repair_frags; exact I | split; [apply w_repair_frags_frame | cbn; lia]].
  - split; [apply Inv_clean; assumption | split; [apply w_clean_frame | cbn; lia]].
  - destruct (nth_error (net s) i) as [d|] eqn:E; [|split; [exact I | apply sframe_refl]].
    pose proof (Inv_drop s i I) as I'.
    destruct (Inv_recv d _ I') as [I'' F''].
    + intros m Hm. cbn [sw sr]. eapply (i_net s I); [eapply nth_error_In; exact E | exact Hm].
    + split; [exact I'' | exact F''].
  - split; [apply Inv_drop; exact I | split; [apply wframe_refl | cbn; lia]].
  - destruct (nth_error (net s) i) as [d|] eqn:E; [|split; [exact I | apply sframe_refl]].
    apply Inv_recv; [exact I|]. intros m Hm. eapply (i_net s I); [eapply nth_error_In; exact E | exact Hm].
  - split; [|split; [apply wframe_refl | cbn; lia]].
    destruct s as [w r n]. cbn [sw sr net]. rewrite <- (app_nil_r n).
    pose proof I as [I1 I2 I3 I4 I5 I6 I7 I8 I9 I10 I11 I12]; cbn [sw sr net] in *.
    apply Inv_rstep with (r := r) (n := n); [exact I | auto | | | | | | | ]; cbn [r_base r_known r_hbc r_anc r_asm r_got]; auto; try lia.
    + intros sn bv [].
    + intros d m [].
Qed.

Theorem Inv_run depth ops : forall s, 0 <= depth -> Inv s -> Inv (run_ops depth s ops).
Proof.
  unfold run_ops. induction ops as [|o ops IH]; intros s D I; cbn [fold_left]; [exact I|].
  apply IH; [exact D|]. apply Inv_step; assumption.
Qed.
