(* C02 — one fault-free round repairs at least one missing item *)
From Coq Require Import List ZArith Bool Lia.
From RD Require Import Common.Corr C02.Model C02.Basics C02.Inv C02.Mono C02.Net.
Import ListNotations.
Open Scope Z_scope.

(* datagram d carries item (sn, f) *)
Definition carries (sn f : Z) (d : dgram) : Prop := In (SData sn) d \/ exists nf, In (SFrag sn f nf) d.

Lemma recv_carries d : forall s sn f,
  Inv s -> (forall m, In m d -> sub_ok (sw s) (sr s) m) -> carries sn f d ->
  have (sr (recv s d)) sn f = true.
Proof.
  induction d as [|m d IH]; intros s sn f I H C.
  - destruct C as [[]|[nf []]].
  - pose proof (H m (or_introl eq_refl)) as Hm.
    destruct (Inv_recv_sub s m I Hm) as [I' [F1 F2]].
    assert (H' : forall m', In m' d -> sub_ok (sw (recv_sub s m)) (sr (recv_sub s m)) m')
      by (intros m' Hm'; eapply sub_ok_mono; [exact F1 | exact F2 | apply H; right; exact Hm']).
    assert (Now : m = SData sn \/ (exists nf, m = SFrag sn f nf) \/ carries sn f d).
    { destruct C as [[E|C]|[nf [E|C]]].
      - left; congruence. - right; right; left; exact C.
      - right; left; exists nf; congruence. - right; right; right; exists nf; exact C. }
    change (recv s (m :: d)) with (recv (recv_sub s m) d).
    destruct Now as [->|[[nf ->]|C']].
    + apply have_recv; [exact I' | exact H'|]. destruct s as [w r n]. cbn [recv_sub sr]. apply have_data_self.
    + apply have_recv; [exact I' | exact H'|]. destruct s as [w r n]. cbn [recv_sub sr sw] in *.
      destruct Hm as (A & B & C1). eapply have_frag_self; eassumption.
    + apply IH; assumption.
Qed.

Lemma deliver_prefix_carries depth pre : forall s post d sn f,
  0 <= depth -> Inv s -> net s = pre ++ post -> In d pre -> carries sn f d ->
  have (sr (deliver_n depth (length pre) s)) sn f = true.
Proof.
  induction pre as [|d0 pre IH]; intros s post d sn f D I E Hin C; [destruct Hin|].
  cbn [length deliver_n]. cbn [app] in E. destruct (Inv_head s d0 _ I E) as [I0 Hd].
  rewrite (deliver_step depth s d0 _ E).
  destruct (recv_net d0 _ I0 Hd) as [o1 [E1 T1]]. cbn [net] in E1.
  destruct (Inv_recv d0 _ I0 Hd) as [I1 _].
  assert (E1' : net (recv (mkS (sw s) (sr s) (pre ++ post)) d0) = pre ++ (post ++ o1))
    by (rewrite E1, app_assoc; reflexivity).
  destruct Hin as [->|Hin].
  - destruct (deliver_prefix depth pre _ _ D I1 E1') as [ex [_ [_ N]]].
    destruct (nw_props depth _ _ D N I1) as (_ & _ & _ & M). apply M.
    apply recv_carries; [exact I0 | exact Hd | exact C].
  - eapply IH; eauto.
Qed.

Lemma flush_carries depth s d sn f :
  0 <= depth -> Inv s -> In d (net s) -> carries sn f d -> have (sr (flush depth s)) sn f = true.
Proof.
  intros D I Hin C. unfold flush. eapply deliver_prefix_carries with (post := []); eauto.
  rewrite app_nil_r. reflexivity.
Qed.
Lemma flush_nw depth s : 0 <= depth -> Inv s -> nw_steps depth s (flush depth s).
Proof.
  intros D I. unfold flush. destruct (deliver_prefix depth (net s) s [] D I) as [ex [_ [_ N]]].
  - rewrite app_nil_r. reflexivity.
  - exact N.
Qed.

(* ---------- the repair timers ---------- *)
Definition frq_has (w : wst) (m f : Z) : Prop :=
  exists bv, fget m (p_frq w) = Some bv /\ bget (Z.to_nat (f - 1)) bv = true.

Lemma filter_len_lt {A} (p : A -> bool) l x : In x l -> p x = false -> (length (filter p l) < length l)%nat.
Proof.
  induction l as [|a l IH]; intros Hin Hp; [destruct Hin|]. simpl.
  destruct Hin as [->|Hin].
  - rewrite Hp. pose proof (filter_len_le p l). lia.
  - specialize (IH Hin Hp). destruct (p a); simpl; lia.
Qed.

Lemma step_tick_sr depth s o : (o = ORepairTick \/ o = ORepairFragsTick) -> sr (step depth s o) = sr s.
Proof. intros [->| ->]; reflexivity. Qed.
Lemma step_tick_net depth s o : (o = ORepairTick \/ o = ORepairFragsTick) ->
  exists out, net (step depth s o) = net s ++ out.
Proof. intros [->| ->]; cbn [step lift_w net]; eexists; reflexivity. Qed.

Lemma repair_loop_props depth fuel : forall s,
  nw_steps depth s (repair_loop depth fuel s) /\ sr (repair_loop depth fuel s) = sr s
  /\ exists out, net (repair_loop depth fuel s) = net s ++ out.
Proof.
  induction fuel as [|n IH]; intro s; cbn [repair_loop].
  - split; [apply nw_refl|]. split; [reflexivity | exists []; rewrite app_nil_r; reflexivity].
  - destruct (p_repair (sw s)).
    + destruct (IH (step depth s ORepairTick)) as (N & R & [o2 E2]).
      split; [eapply nw_cons with (o := ORepairTick); [reflexivity | exact N]|]. split; [rewrite R; reflexivity|].
      exists (snd (w_repair (sw s)) ++ o2). rewrite E2. cbn [step lift_w net]. rewrite app_assoc. reflexivity.
    + split; [apply nw_refl|]. split; [reflexivity | exists []; rewrite app_nil_r; reflexivity].
Qed.
Lemma frags_loop_props depth fuel : forall s,
  nw_steps depth s (frags_loop depth fuel s) /\ sr (frags_loop depth fuel s) = sr s
  /\ exists out, net (frags_loop depth fuel s) = net s ++ out.
Proof.
  induction fuel as [|n IH]; intro s; cbn [frags_loop].
  - split; [apply nw_refl|]. split; [reflexivity | exists []; rewrite app_nil_r; reflexivity].
  - destruct (frags_requested (sw s)).
    + destruct (IH (step depth s ORepairFragsTick)) as (N & R & [o2 E2]).
      split; [eapply nw_cons with (o := ORepairFragsTick); [reflexivity | exact N]|]. split; [rewrite R; reflexivity|].
      exists (snd (w_repair_frags (sw s)) ++ o2). rewrite E2. cbn [step lift_w net]. rewrite app_assoc. reflexivity.
    + split; [apply nw_refl|]. split; [reflexivity | exists []; rewrite app_nil_r; reflexivity].
Qed.

(* a requested sequence number is sent by the SendRepairData timer before repair_mode clears *)
Lemma repair_loop_sends depth m fuel : forall s,
  0 <= depth -> Inv s -> p_repair (sw s) = true -> In m (p_unsent (sw s)) ->
  (length (p_unsent (sw s)) < fuel)%nat -> w_first (sw s) <= m ->
  exists d, In d (net (repair_loop depth fuel s)) /\ carries m 1 d.
Proof.
  induction fuel as [|n IH]; intros s D I R Hm L Hf; [lia|].
  cbn [repair_loop]. rewrite R.
  destruct (Inv_step depth s ORepairTick D I) as [I' _].
  pose proof (i_unsent _ I m Hm) as [Um1 Um2].
  cbn [step lift_w] in *.
  unfold w_repair in *.
  destruct (lmin (p_unsent (sw s))) as [u|] eqn:M; [|apply lmin_none in M; rewrite M in Hm; destruct Hm].
  apply lmin_spec in M as [Mu Mmin].
  pose proof (i_gap _ I) as G. rewrite G in *. cbn [mem existsb orb] in *.
  destruct (u <? w_first (sw s)) eqn:B.
  - (* GAP for everything below first_seq; m stays requested *)
    apply Z.ltb_lt in B. cbn [fst snd] in *.
    apply IH; auto; cbn [sw set_unsent p_repair p_unsent w_first]; auto.
    + apply filter_In. split; [|reflexivity]. apply filter_In. split; [exact Hm | apply Z.leb_le; lia].
    + rewrite filter_id by reflexivity.
      assert (Nat.lt (length (filter (fun x => w_first (sw s) <=? x) (p_unsent (sw s)))) (length (p_unsent (sw s))))
        by (apply filter_len_lt with (x := u); [exact Mu | apply Z.leb_gt; exact B]).
      unfold lift_w. cbn [sw fst set_unsent p_unsent]. unfold Nat.lt in H. lia.
  - apply Z.ltb_ge in B.
    destruct (Z.eq_dec u m) as [->|N].
    + (* this tick sends m *)
      assert (H : held (sw s) m = true) by (unfold held; apply andb_true_iff; split; apply Z.leb_le; lia).
      rewrite H in *. cbn [fst snd] in *.
      match goal with |- context [repair_loop depth n ?x] => set (s1 := x) end.
      destruct (repair_loop_props depth n s1) as (_ & _ & [o2 E2]).
      assert (C : exists d, In d (send_cc (sw s) m) /\ carries m 1 d).
      { unfold send_cc. rewrite G. cbn [isnil app]. destruct (nfr (sw s) m <=? 1) eqn:E.
        - exists [SData m]. split; [left; reflexivity | left; left; reflexivity].
        - apply Z.leb_gt in E. exists [SFrag m 1 (nfr (sw s) m)]. split.
          + apply in_map_iff. exists 1. split; [reflexivity | apply zseq_In; lia].
          + right. exists (nfr (sw s) m). left. reflexivity. }
      destruct C as [d [Hd C]]. exists d. split; [|exact C].
      rewrite E2. apply in_app_iff. left. unfold s1, lift_w. cbn [net snd]. apply in_app_iff. right. exact Hd.
    + (* another sequence number goes first *)
      assert (Hdel : In m (del u (p_unsent (sw s)))) by (apply del_In; split; [exact Hm | congruence]).
      assert (Ldel : (length (del u (p_unsent (sw s))) < n)%nat)
        by (pose proof (del_length_lt u _ Mu); lia).
      destruct (held (sw s) u); cbn [fst snd] in *.
      * apply IH; auto; unfold lift_w; cbn [sw fst];
          destruct (nfr (sw s) u <=? 1); cbn [set_unsent set_frq p_repair p_unsent w_first]; assumption.
      * apply IH; auto.
Qed.

(* ---------- fragment requests ---------- *)
Definition cnt (l : list bool) : nat := length (filter (fun b => b) l).
Lemma count_true_cons kv m : count_true (kv :: m) = (cnt (snd kv) + count_true m)%nat.
Proof. reflexivity. Qed.
Lemma count_true_app a b : count_true (a ++ b) = (count_true a + count_true b)%nat.
Proof. induction a as [|kv a IH]; [reflexivity|]. cbn [app]. rewrite !count_true_cons, IH. lia. Qed.
Lemma cnt_bset_false_le i : forall l, (cnt (bset i false l) <= cnt l)%nat.
Proof.
  unfold cnt. induction i as [|i IH]; intros [|b l]; simpl; try lia.
  - destruct b; simpl; lia.
  - specialize (IH l). destruct b; simpl; lia.
Qed.
Lemma cnt_bset_false_lt i : forall l, bget i l = true -> (cnt (bset i false l) < cnt l)%nat.
Proof.
  unfold cnt, bget. induction i as [|i IH]; intros [|b l]; simpl; try discriminate.
  - intros ->. simpl. lia.
  - intro H. specialize (IH l H). destruct b; simpl; lia.
Qed.
Lemma clear_bits_cnt_le fs : forall bv, (cnt (clear_bits fs bv) <= cnt bv)%nat.
Proof.
  unfold clear_bits. induction fs as [|f fs IH]; intro bv; cbn [fold_left]; [lia|].
  eapply Nat.le_trans; [apply IH | apply cnt_bset_false_le].
Qed.
Lemma clear_bits_cnt_lt f fs bv : bget (Z.to_nat (f - 1)) bv = true -> (cnt (clear_bits (f :: fs) bv) < cnt bv)%nat.
Proof.
  intro H. unfold clear_bits. cbn [fold_left].
  eapply Nat.le_lt_trans; [apply (clear_bits_cnt_le fs) | apply cnt_bset_false_lt; exact H].
Qed.
Lemma clear_bits_other fs f : forall bv,
  1 <= f -> (forall g, In g fs -> 1 <= g /\ g <> f) ->
  bget (Z.to_nat (f - 1)) (clear_bits fs bv) = bget (Z.to_nat (f - 1)) bv.
Proof.
  unfold clear_bits. induction fs as [|g fs IH]; intros bv Hf H; cbn [fold_left]; [reflexivity|].
  rewrite IH; [|exact Hf | intros g' Hg'; apply H; right; exact Hg'].
  apply bget_bset_other. destruct (H g (or_introl eq_refl)). lia.
Qed.
Lemma count_true_fdel k m : forall bv, fget k m = Some bv -> (count_true (fdel k m) + cnt bv <= count_true m)%nat.
Proof.
  induction m as [|[k' v] m IH]; intros bv G; [discriminate|].
  cbn [fget fst snd] in G. unfold fdel. cbn [filter fst]. fold (fdel k m).
  destruct (Z.eqb_spec k k').
  - inversion G; subst. cbn [negb]. rewrite count_true_cons. cbn [snd].
    assert (count_true (fdel k' m) <= count_true m)%nat.
    { clear. induction m as [|[a b] m IH]; [simpl; lia|]. unfold fdel. cbn [filter fst]. fold (fdel k' m).
      destruct (negb (k' =? a)); rewrite ?count_true_cons; lia. }
    lia.
  - cbn [negb]. rewrite !count_true_cons. specialize (IH bv G). lia.
Qed.
Lemma bget_true_lt i l : bget i l = true -> (i < length l)%nat.
Proof.
  intro H. destruct (Nat.lt_ge_cases i (length l)) as [L|G]; [exact L|].
  unfold bget in H. rewrite nth_overflow in H by exact G. discriminate.
Qed.

Lemma frags_loop_sends depth m f fuel : forall s,
  0 <= depth -> Inv s -> frq_has (sw s) m f -> 1 <= f -> held (sw s) m = true ->
  (count_true (p_frq (sw s)) < fuel)%nat ->
  exists d, In d (net (frags_loop depth fuel s)) /\ carries m f d.
Proof.
  induction fuel as [|n IH]; intros s D I [bv [G B]] Hf Hh L; [lia|].
  cbn [frags_loop].
  assert (FR : frags_requested (sw s) = true).
  { unfold frags_requested. apply existsb_exists. exists (m, bv). split; [apply fget_In; exact G|].
    cbn [snd]. apply bany_true_ex. eexists. split; [apply bget_true_lt; exact B | exact B]. }
  rewrite FR.
  destruct (Inv_step depth s ORepairFragsTick D I) as [I' _].
  pose proof (frags_loop_props depth n (step depth s ORepairFragsTick)) as (_ & _ & [o2 E2]).
  cbn [step] in *. unfold lift_w in *. unfold w_repair_frags in *.
  destruct (fminkey (p_frq (sw s))) as [k|] eqn:M.
  2:{ unfold fminkey in M. apply lmin_none in M. apply fget_In in G. apply (in_map fst) in G. rewrite M in G. destruct G. }
  destruct (fminkey_fget _ _ M) as [bvk Gk]. rewrite Gk in *.
  pose proof (i_frq _ I _ _ (fget_In _ _ _ Gk)) as (K1 & K2 & K3).
  apply bany_true_ex in K3 as [i [Hi Bi]].
  assert (Hin : In (Z.of_nat i + 1) (bidx true 1 bvk)).
  { apply bidx_In. split; [lia|]. replace (Z.to_nat (Z.of_nat i + 1 - 1)) with i by lia. exact Bi. }
  destruct (bidx true 1 bvk) as [|g0 rest] eqn:Bx; [destruct Hin|]. clear Hin i Hi Bi.
  assert (G0 : In g0 (bidx true 1 bvk)) by (rewrite Bx; left; reflexivity).
  apply bidx_In in G0 as [G0a G0b].
  assert (FSin : forall g, In g (firstn 8 (g0 :: rest)) -> 1 <= g /\ bget (Z.to_nat (g - 1)) bvk = true).
  { intros g Hg. apply firstn_In in Hg. rewrite <- Bx in Hg. apply bidx_In in Hg. split; [lia | tauto]. }
  remember (firstn 8 (g0 :: rest)) as fs eqn:Efs.
  assert (Hfs : exists rest', fs = g0 :: rest') by (rewrite Efs; cbn [firstn]; eexists; reflexivity).
  destruct Hfs as [rest' Hfs]. clear Efs.
  assert (NIL : isnil fs = false) by (rewrite Hfs; reflexivity). rewrite NIL in *.
  cbn [fst snd] in *.
  destruct (Z.eq_dec k m) as [Ekm|Nkm].
  - subst k. rewrite G in Gk. inversion Gk; subst bvk. clear Gk.
    destruct (in_dec Z.eq_dec f fs) as [Hin|Hnin].
    + (* sent now *)
      rewrite Hh in *. exists [SFrag m f (nfr (sw s) m)]. split.
      * rewrite E2. apply in_app_iff. left. cbn [net]. apply in_app_iff. right.
        apply in_map_iff. exists f. split; [reflexivity | exact Hin].
      * right. eexists. left. reflexivity.
    + (* not yet: the bit stays requested *)
      assert (Bk : bget (Z.to_nat (f - 1)) (clear_bits fs bv) = true).
      { rewrite clear_bits_other; [exact B | exact Hf|]. intros g Hg. split; [apply FSin; exact Hg | congruence]. }
      assert (An : bany (clear_bits fs bv) = true)
        by (apply bany_true_ex; eexists; split; [apply bget_true_lt; exact Bk | exact Bk]).
      rewrite An in *.
      apply IH; [exact D | exact I' | | exact Hf | exact Hh | ].
      * exists (clear_bits fs bv). cbn [sw set_frq p_frq]. split; [apply fget_fset_same | exact Bk].
      * cbn [sw set_frq p_frq]. unfold fset. rewrite count_true_app. cbn [count_true fold_right snd]. fold (cnt (clear_bits fs bv)).
        pose proof (count_true_fdel m _ _ G). rewrite Hfs.
        pose proof (clear_bits_cnt_lt g0 rest' bv ltac:(replace (g0 - 1) with (g0 - 1) by lia; replace (Z.to_nat (g0 - 1)) with (Z.to_nat (g0 - 1)) by lia; exact G0b)).
        lia.
  - (* another sample's fragments go first *)
    assert (CL : (cnt (clear_bits fs bvk) < cnt bvk)%nat) by (rewrite Hfs; apply clear_bits_cnt_lt; exact G0b).
    pose proof (count_true_fdel k _ _ Gk) as CD.
    apply IH; [exact D | exact I' | | exact Hf | exact Hh | ].
    + exists bv. cbn [sw set_frq p_frq]. split; [|exact B].
      destruct (bany (clear_bits fs bvk)); [rewrite fget_fset_other by congruence | rewrite fget_fdel_other by congruence]; exact G.
    + cbn [sw set_frq p_frq]. destruct (bany (clear_bits fs bvk)).
      * unfold fset. rewrite count_true_app. cbn [count_true fold_right snd]. fold (cnt (clear_bits fs bvk)). lia.
      * lia.
Qed.

(* ---------- requests reach the writer's proxy ---------- *)
Lemma frq_has_nackfrag_keeps w sn bits m f : frq_has w m f -> frq_has (w_nackfrag sn bits w) m f.
Proof.
  intros [bv [G B]]. unfold w_nackfrag. destruct (held w sn); [|exists bv; auto].
  unfold frq_has, set_frq. cbn [p_frq]. destruct (Z.eq_dec m sn) as [->|N].
  - rewrite fget_fset_same. eexists. split; [reflexivity|]. rewrite G. apply mark_req_keeps. exact B.
  - rewrite fget_fset_other by exact N. exists bv. auto.
Qed.
Lemma frq_has_nackfrag_sets w r n m bits f :
  Inv (mkS w r n) -> held w m = true -> In f bits -> 1 <= f <= nfr w m -> frq_has (w_nackfrag m bits w) m f.
Proof.
  intros I H Hin Hf. unfold w_nackfrag. rewrite H. unfold frq_has, set_frq. cbn [p_frq].
  rewrite fget_fset_same. eexists. split; [reflexivity|]. apply mark_req_sets; auto.
  destruct (fget m (p_frq w)) as [bv|] eqn:G.
  - apply fget_In in G. apply (i_frq _ I) in G. cbn [sw] in G. tauto.
  - rewrite repeat_length. lia.
Qed.

Lemma recv_nackfrags d : forall s m f,
  Inv s -> (forall x, In x d -> sub_ok (sw s) (sr s) x) -> to_writer d = true ->
  (frq_has (sw s) m f \/
   (exists fb bits k, In (SNackFrag m fb bits k) d /\ In f bits) /\ held (sw s) m = true /\ 1 <= f <= nfr (sw s) m) ->
  (forall x, In x d -> exists sn fb bits k, x = SNackFrag sn fb bits k) ->
  frq_has (sw (recv s d)) m f.
Proof.
  induction d as [|x d IH]; intros s m f I H T C K.
  - destruct C as [C|[[fb [bits [k [[] _]]]] _]]. exact C.
  - change (recv s (x :: d)) with (recv (recv_sub s x) d).
    pose proof (H x (or_introl eq_refl)) as Hx.
    destruct (Inv_recv_sub s x I Hx) as [I' [F1 F2]].
    cbn [to_writer forallb] in T. apply andb_true_iff in T as [T1 T2].
    destruct (K x (or_introl eq_refl)) as (sn & fb0 & bits0 & k0 & ->).
    assert (H' : forall y, In y d -> sub_ok (sw (recv_sub s (SNackFrag sn fb0 bits0 k0))) (sr (recv_sub s (SNackFrag sn fb0 bits0 k0))) y)
      by (intros y Hy; eapply sub_ok_mono; [exact F1 | exact F2 | apply H; right; exact Hy]).
    assert (K' : forall y, In y d -> exists sn fb bits k, y = SNackFrag sn fb bits k) by (intros y Hy; apply K; right; exact Hy).
    apply IH; [exact I' | exact H' | exact T2 | | exact K'].
    destruct s as [w r n]. cbn [recv_sub sw sr] in *.
    destruct C as [C|[[fb [bits [k [[E|Hin] Hf]]]] [Hh Hr]]].
    + left. apply frq_has_nackfrag_keeps. exact C.
    + inversion E; subst. left. eapply frq_has_nackfrag_sets; eauto.
    + right. split; [exists fb, bits, k; split; assumption|].
      unfold w_nackfrag. destruct (held w sn); [|split; assumption].
      unfold held, nfr, w_last in *. cbn [set_frq w_first w_log]. split; assumption.
Qed.

Lemma frq_has_repair_tick w m f :
  frq_has w m f -> 1 <= f <= nfr w m -> frq_has (fst (w_repair w)) m f.
Proof.
  intros [bv [G B]] Hf. unfold w_repair. destruct (lmin (p_unsent w)) as [u|]; [|exists bv; auto].
  destruct (_ || _); [exists bv; auto|]. destruct (held w u); [|exists bv; auto].
  cbn [fst]. destruct (nfr w u <=? 1) eqn:E; [exists bv; auto|].
  unfold frq_has, set_unsent, set_frq. cbn [p_frq]. destruct (Z.eq_dec m u) as [->|N].
  - rewrite fget_fset_same. eexists. split; [reflexivity|].
    unfold bget. rewrite nth_indep with (d' := true) by (rewrite repeat_length; lia).
    apply nth_repeat.
  - rewrite fget_fset_other by exact N. exists bv. auto.
Qed.
Lemma frq_has_repair_loop depth m f fuel : forall s,
  frq_has (sw s) m f -> 1 <= f <= nfr (sw s) m -> frq_has (sw (repair_loop depth fuel s)) m f.
Proof.
  induction fuel as [|n IH]; intros s H Hf; cbn [repair_loop]; [exact H|].
  destruct (p_repair (sw s)); [|exact H].
  apply IH; cbn [step lift_w sw].
  - apply frq_has_repair_tick; assumption.
  - pose proof (step_log depth s ORepairTick eq_refl) as L. cbn [step lift_w sw] in L.
    unfold nfr. rewrite L. exact Hf.
Qed.

(* ---------- the round, pass by pass ---------- *)
Lemma have_false_base s sn f :
  Inv s -> In (sn, f) (items_from 1 (w_log (sw s))) -> have (sr s) sn f = false ->
  r_base (sr s) <= sn <= w_last (sw s).
Proof.
  intros I Hit H. apply items_In in Hit as [Hsn _]. unfold have in H. apply orb_false_iff in H as [H _].
  destruct (Z.lt_ge_cases sn (r_base (sr s))) as [L|G]; [|lia].
  assert (known (sr s) sn = true) by (apply known_spec; left; exact L). congruence.
Qed.

Lemma tick_sends depth s :
  Inv s -> r_base (sr s) <= w_last (sw s) ->
  step depth s OHbTick =
    mkS (set_hbc (w_hbc (sw s) + 1) (sw s)) (sr s)
        (net s ++ [[SHb (w_first (sw s)) (w_last (sw s)) (w_hbc (sw s))]]).
Proof.
  intros I B. cbn [step]. unfold lift_w, w_hbtick.
  replace (w_last (sw s) <? p_aab (sw s)) with false; [reflexivity|].
  symmetry. apply Z.ltb_ge. pose proof (i_aab _ I). lia.
Qed.

Definition reply_ms (la c : Z) (fi : Z) (r1 : rst) : list Z :=
  missing (mkR (r_base r1) (r_known r1) c (r_anc r1) (r_asm r1) (r_got r1)) fi (Z.min la (r_base r1 + 255)).

Lemma pass1 depth s :
  0 <= depth -> Inv s -> r_base (sr s) <= w_last (sw s) ->
  exists w1 r1 extra nfs anc',
    Inv (mkS w1 r1 extra) /\ Forall (fun d => to_writer d = true) extra /\
    w_log w1 = w_log (sw s) /\
    let ms := reply_ms (w_last (sw s)) (w_hbc (sw s)) (w_first (sw s)) r1 in
    flush depth (step depth s OHbTick) =
      mkS w1 (mkR (r_base r1) (r_known r1) (w_hbc (sw s)) anc' (r_asm r1) (r_got r1))
          (extra ++ (if isnil nfs then [] else [nfs]) ++
           [[SAck (r_base r1) (filter (fun sn => negb (fhas sn (r_asm r1))) ms)
                  (r_anc r1 + Z.of_nat (length (filter (fun sn => fhas sn (r_asm r1)) ms)))]])
    /\ (forall m, In m nfs -> exists sn f0 bits k bv,
          m = SNackFrag sn f0 bits k /\ In sn ms /\ fget sn (r_asm r1) = Some bv
          /\ In f0 (bidx false 1 bv) /\ bits = filter (fun f => f <=? f0 + 255) (bidx false 1 bv)
          /\ (forall f, In f (bidx false 1 bv) -> f0 <= f))
    /\ (forall sn bv, In sn ms -> fget sn (r_asm r1) = Some bv -> ball bv = false ->
          exists f0 bits k, In (SNackFrag sn f0 bits k) nfs).
Proof.
  intros D I B. rewrite (tick_sends depth s I B).
  set (c := w_hbc (sw s)). set (fi := w_first (sw s)). set (la := w_last (sw s)).
  set (s1 := mkS (set_hbc (c + 1) (sw s)) (sr s) (net s ++ [[SHb fi la c]])).
  assert (I1 : Inv s1) by (unfold s1, c, fi, la; rewrite <- (tick_sends depth s I B); apply Inv_step; assumption).
  unfold flush. replace (length (net s1)) with (length (net s) + 1)%nat by (unfold s1; cbn [net]; rewrite app_length; reflexivity).
  rewrite deliver_n_add.
  destruct (deliver_prefix depth (net s) s1 [[SHb fi la c]] D I1 eq_refl) as [extra [E1 [T1 N1]]].
  assert (H1 : r_hbc (sr (deliver_n depth (length (net s)) s1)) < c).
  { apply (deliver_prefix_hbc depth c (net s) s1 [[SHb fi la c]] D I1 eq_refl).
    - unfold s1, c. cbn [sr]. apply (i_hbc _ I).
    - intros d f l c' Hd Hin. pose proof (i_net _ I d _ Hd Hin) as S. simpl in S. unfold c. lia. }
  destruct (nw_props depth _ _ D N1 I1) as (I1' & [F1 F1b] & L1 & _).
  set (s1' := deliver_n depth (length (net s)) s1) in *.
  cbn [deliver_n]. cbn [app] in E1. rewrite (deliver_step depth s1' _ _ E1).
  destruct (Inv_head s1' _ _ I1' E1) as [I0 _].
  assert (Hfi : 1 <= fi <= w_first (sw s1')).
  { destruct F1 as (_ & _ & F13 & _). unfold s1 in F13. cbn [sw set_hbc w_first] in F13.
    pose proof (i_first _ I). unfold fi. lia. }
  destruct (r_hb_shape (sw s1') (sr s1') extra fi la c I0 Hfi H1) as [nfs [E [P1 P2]]].
  exists (sw s1'), (sr s1'), extra, nfs. eexists.
  split; [exact I0|]. split; [exact T1|]. split; [rewrite L1; unfold s1; reflexivity|].
  cbn zeta. split; [|split; [exact P1 | exact P2]].
  unfold recv. cbn [fold_left recv_sub sw sr net]. rewrite E. reflexivity.
Qed.

Lemma acknack_requests w m bits :
  1 <= m <= w_last w ->
  p_repair (fst (w_acknack m bits w)) = true /\
  p_frq (fst (w_acknack m bits w)) = p_frq w /\
  w_log (fst (w_acknack m bits w)) = w_log w /\ w_first (fst (w_acknack m bits w)) = w_first w /\
  (In m bits -> In m (p_unsent (fst (w_acknack m bits w)))).
Proof.
  intro H. unfold w_acknack. cbn [fst p_repair p_frq w_log w_first p_unsent].
  replace (Z.max m 1) with m by lia. split; [apply negb_true_iff; apply Z.ltb_ge; lia|].
  split; [reflexivity|]. split; [reflexivity|]. split; [reflexivity|].
  intro Hin. apply filter_In. split; [apply union_In; right; exact Hin | apply Z.leb_le; lia].
Qed.

(* after the reader's answers have been processed, the lowest missing item is scheduled *)
Lemma pass2 depth w1 r2 extra nfs m bits anc f :
  0 <= depth ->
  let s2 := mkS w1 r2 (extra ++ (if isnil nfs then [] else [nfs]) ++ [[SAck m bits anc]]) in
  Inv s2 -> Forall (fun d => to_writer d = true) extra ->
  (forall x, In x nfs -> exists sn fb bts k, x = SNackFrag sn fb bts k) ->
  m = r_base r2 -> m <= w_last w1 ->
  exists w3,
    flush depth s2 = mkS w3 r2 [] /\ Inv (mkS w3 r2 []) /\ nw_steps depth s2 (mkS w3 r2 []) /\
    p_repair w3 = true /\
    (In m bits -> In m (p_unsent w3)) /\
    ((exists fb bts k, In (SNackFrag m fb bts k) nfs /\ In f bts) -> 1 <= f <= nfr w1 m -> frq_has w3 m f).
Proof.
  intros D s2 I2 T K Em Hm.
  assert (T' : Forall (fun d => to_writer d = true) (extra ++ (if isnil nfs then [] else [nfs]))).
  { apply Forall_app. split; [exact T|]. destruct (isnil nfs); constructor; [|constructor].
    unfold to_writer. apply forallb_forall. intros x Hx. destruct (K x Hx) as (? & ? & ? & ? & ->). reflexivity. }
  unfold flush.
  assert (Ln : length (net s2) = (length extra + (length (if isnil nfs then [] else [nfs]) + 1))%nat)
    by (unfold s2; cbn [net]; rewrite !app_length; reflexivity).
  rewrite Ln, deliver_n_add.
  pose proof (deliver_prefix_to_writer depth extra s2 _ D I2 eq_refl T) as X.
  unfold dgram in *.
  remember (deliver_n depth (length extra) s2) as s2a eqn:Es2a. destruct X as (Ea & Ra & Na).
  destruct (nw_props depth _ _ D Na I2) as (Ia & [Fa _] & La & _).
  assert (Hb : 1 <= m) by (pose proof (i_base _ I2) as Q; change (sr s2) with r2 in Q; lia).
  assert (Hheld : held (sw s2a) m = true).
  { unfold held. apply andb_true_iff. split; apply Z.leb_le.
    - pose proof (i_first_base _ Ia). rewrite Ra in H. change (sr s2) with r2 in H. lia.
    - unfold w_last. rewrite La. change (sw s2) with w1. exact Hm. }
  (* the NACKFRAG datagram, if any *)
  assert (Sb : exists s2b, deliver_n depth (length (if isnil nfs then [] else [nfs])) s2a = s2b /\
            net s2b = [[SAck m bits anc]] /\ sr s2b = r2 /\ Inv s2b /\ nw_steps depth s2a s2b /\
            w_log (sw s2b) = w_log w1 /\ held (sw s2b) m = true /\
            ((exists fb bts k, In (SNackFrag m fb bts k) nfs /\ In f bts) -> 1 <= f <= nfr w1 m -> frq_has (sw s2b) m f)).
  { destruct (isnil nfs) eqn:Nn.
    - exists s2a. cbn [length deliver_n]. split; [reflexivity|]. split; [exact Ea|].
      split; [rewrite Ra; reflexivity|]. split; [exact Ia|]. split; [apply nw_refl|].
      split; [rewrite La; reflexivity|]. split; [exact Hheld|].
      intros (fb & bts & k & Hin & _). destruct nfs; [destruct Hin | discriminate].
    - cbn [length deliver_n]. cbn [app] in Ea. rewrite (deliver_step depth s2a _ _ Ea).
      destruct (Inv_head s2a _ _ Ia Ea) as [I0 Hd].
      assert (Tn : to_writer nfs = true).
      { unfold to_writer. apply forallb_forall. intros x Hx. destruct (K x Hx) as (? & ? & ? & ? & ->). reflexivity. }
      destruct (recv_to_writer nfs _ I0 Tn Hd) as [En Rn]. cbn [net sr] in En, Rn.
      destruct (Inv_recv nfs _ I0 Hd) as [In' [Fn _]].
      eexists. split; [reflexivity|]. split; [exact En|]. split; [rewrite Rn, Ra; reflexivity|].
      split; [exact In'|].
      split; [eapply nw_cons with (o := ODeliver 0); [reflexivity | rewrite (deliver_step depth s2a _ _ Ea); apply nw_refl]|].
      split; [rewrite recv_log; cbn [sw]; rewrite La; reflexivity|].
      split.
      + unfold held in *. apply andb_true_iff in Hheld as [H1 H2]. apply Z.leb_le in H1, H2.
        pose proof (i_first_base _ In') as Q. rewrite Rn in Q.
        assert (Eq : r_base (sr s2a) = m) by (rewrite Ra; symmetry; exact Em).
        apply andb_true_iff. split; apply Z.leb_le; [lia|].
        unfold w_last in *. rewrite recv_log. cbn [sw]. exact H2.
      + intros Hreq Hf. apply recv_nackfrags; [exact I0 | exact Hd | exact Tn | | exact K].
        right. split; [exact Hreq|]. cbn [sw]. split; [exact Hheld|].
        unfold nfr. rewrite La. change (sw s2) with w1. exact Hf. }
  destruct Sb as (s2b & Eb & Nb & Rb & Ib & Nwb & Lb & Hb' & Fb).
  rewrite deliver_n_add, Eb. cbn [deliver_n]. rewrite (deliver_step depth s2b _ _ Nb).
  destruct (Inv_head s2b _ _ Ib Nb) as [I0 Hd].
  unfold recv. cbn [fold_left recv_sub sw sr net].
  pose proof (i_gap _ Ib) as G.
  assert (Hl : 1 <= m <= w_last (sw s2b)) by (unfold w_last; rewrite Lb; split; [exact Hb | exact Hm]).
  destruct (acknack_requests (sw s2b) m bits Hl) as (A1 & A2 & A3 & A4 & A5).
  assert (Eo : snd (w_acknack m bits (sw s2b)) = []) by (unfold w_acknack; rewrite G; reflexivity).
  destruct (w_acknack m bits (sw s2b)) as [w3 out] eqn:Ew. cbn [fst snd] in *. subst out. cbn [app].
  exists w3. rewrite Rb.
  assert (I3 : Inv (mkS w3 r2 [])).
  { pose proof (Inv_step depth s2b (ODeliver 0) D Ib) as [X _]. rewrite (deliver_step depth s2b _ _ Nb) in X.
    unfold recv in X. cbn [fold_left recv_sub sw sr net] in X. rewrite Ew, Rb in X. exact X. }
  split; [reflexivity|]. split; [exact I3|]. split.
  - eapply nw_trans; [exact Na|]. eapply nw_trans; [rewrite <- Eb in Nwb; rewrite Eb in Nwb; exact Nwb|].
    eapply nw_cons with (o := ODeliver 0); [reflexivity|]. rewrite (deliver_step depth s2b _ _ Nb).
    unfold recv. cbn [fold_left recv_sub sw sr net]. rewrite Ew, Rb. apply nw_refl.
  - split; [exact A1|]. split; [exact A5|].
    intros Hreq Hf. destruct (Fb Hreq Hf) as [bv [Gb Bb]]. exists bv. rewrite A2. split; assumption.
Qed.

Lemma repairs_props depth s :
  nw_steps depth s (repairs depth s) /\ sr (repairs depth s) = sr s.
Proof.
  unfold repairs.
  destruct (repair_loop_props depth (S (length (p_unsent (sw s)))) s) as (N1 & R1 & _).
  set (s1 := repair_loop depth (S (length (p_unsent (sw s)))) s) in *.
  destruct (frags_loop_props depth (S (count_true (p_frq (sw s1)))) s1) as (N2 & R2 & _).
  split; [eapply nw_trans; eassumption | congruence].
Qed.

Lemma flush_nil depth s : net s = [] -> flush depth s = s.
Proof. intro E. unfold flush. rewrite E. reflexivity. Qed.

Lemma tail_nw depth x :
  0 <= depth -> Inv x -> nw_steps depth x (flush depth (repairs depth (flush depth (flush depth x)))).
Proof.
  intros D I.
  pose proof (flush_nw depth x D I) as N1. destruct (nw_props depth _ _ D N1 I) as (I1 & _).
  pose proof (flush_nw depth _ D I1) as N2. destruct (nw_props depth _ _ D N2 I1) as (I2 & _).
  destruct (repairs_props depth (flush depth (flush depth x))) as (N3 & _).
  destruct (nw_props depth _ _ D N3 I2) as (I3 & _).
  pose proof (flush_nw depth _ D I3) as N4.
  eapply nw_trans; [exact N1|]. eapply nw_trans; [exact N2|]. eapply nw_trans; [exact N3 | exact N4].
Qed.

Theorem round_decreases depth s :
  0 <= depth -> Inv s -> (0 < mu s)%nat -> (mu (round depth s) < mu s)%nat.
Proof.
  intros D I Hmu.
  destruct (mu_pos_ex s Hmu) as (sn0 & f0' & Hit0 & Hnh0).
  pose proof (have_false_base s sn0 f0' I Hit0 Hnh0) as B0.
  assert (BL : r_base (sr s) <= w_last (sw s)) by lia.
  unfold round.
  destruct (pass1 depth s D I BL) as (w1 & r1 & extra & nfs & anc' & I0 & T & L1 & E2 & P1 & P2).
  cbn zeta in E2, P1, P2.
  set (ms := reply_ms (w_last (sw s)) (w_hbc (sw s)) (w_first (sw s)) r1) in *.
  set (r2 := mkR (r_base r1) (r_known r1) (w_hbc (sw s)) anc' (r_asm r1) (r_got r1)) in *.
  set (bits := filter (fun sn => negb (fhas sn (r_asm r1))) ms) in *.
  set (s1 := step depth s OHbTick) in *.
  destruct (Inv_step depth s OHbTick D I) as [I1 _]. fold s1 in I1.
  pose proof (flush_nw depth s1 D I1) as N12.
  assert (N02 : nw_steps depth s (flush depth s1)) by (eapply nw_cons with (o := OHbTick); [reflexivity | exact N12]).
  destruct (nw_props depth _ _ D N02 I) as (I2 & _ & L2 & M2).
  pose proof (nw_mu depth _ _ D N02 I) as Mu2.
  pose proof (tail_nw depth _ D I2) as Nt.
  destruct (nw_props depth _ _ D Nt I2) as (It & _ & Lt & Mt).
  destruct (Nat.eq_dec (mu (flush depth s1)) 0) as [Z0|NZ].
  { pose proof (nw_mu depth _ _ D Nt I2). lia. }
  (* something is still missing when the heartbeat has been answered *)
  assert (Hmu2 : (0 < mu (flush depth s1))%nat) by lia.
  destruct (mu_pos_ex _ Hmu2) as (sn1 & f1 & Hit1 & Hnh1).
  pose proof (have_false_base _ sn1 f1 I2 Hit1 Hnh1) as B1.
  rewrite E2 in B1, I2. cbn [sr sw r_base r2] in B1.
  set (m := r_base r1) in *.
  assert (Wl : w_last w1 = w_last (sw s)) by (unfold w_last; rewrite L1; reflexivity).
  assert (Hm : m <= w_last w1) by lia.
  assert (Hm1 : 1 <= m) by (pose proof (i_base _ I0) as Q; cbn [sr] in Q; unfold m; lia).
  assert (Hfi : w_first (sw s) <= m).
  { pose proof (i_first_base _ I0) as Q. cbn [sw sr] in Q.
    destruct (nw_props depth _ _ D N02 I) as (_ & [(_ & _ & F3 & _) _] & _). rewrite E2 in F3. cbn [sw] in F3. unfold m. lia. }
  assert (NK : ~ In m (r_known r1)) by (intro H; apply (i_known _ I0) in H; cbn [sr] in H; unfold m in H; lia).
  assert (Mh : exists t, ms = m :: t).
  { unfold ms, reply_ms.
    destruct (missing_head (mkR (r_base r1) (r_known r1) (w_hbc (sw s)) (r_anc r1) (r_asm r1) (r_got r1))
                (w_first (sw s)) (Z.min (w_last (sw s)) (r_base r1 + 255))) as [[_ [C|C]]|[t [E _]]]; cbn [r_base r_known] in *.
    - exact Hfi.
    - exact NK.
    - fold m in C. lia.
    - pose proof (i_first _ I). fold m in C. lia.
    - exists t. exact E. }
  destruct Mh as [t Ems].
  assert (Hms : In m ms) by (rewrite Ems; left; reflexivity).
  assert (KN : known r2 m = false).
  { destruct (known r2 m) eqn:K; [|reflexivity]. apply known_spec in K. cbn [r2 r_base r_known] in K. fold m in K. destruct K; [lia | contradiction]. }
  assert (Kn : forall x, In x nfs -> exists sn fb bts k, x = SNackFrag sn fb bts k).
  { intros x Hx. destruct (P1 x Hx) as (sn & f0 & bts & k & bv & -> & _). eauto. }
  (* the item x = (m, f) that this round repairs *)
  assert (Item : exists f, 1 <= f <= Z.max (nfr w1 m) 1 /\ have r2 m f = false /\
            ((In m bits /\ f = 1) \/ ((exists fb bts k, In (SNackFrag m fb bts k) nfs /\ In f bts) /\ 1 <= f <= nfr w1 m))).
  { destruct (fget m (r_asm r1)) as [bv|] eqn:G.
    - pose proof (i_asm _ I0 _ _ (fget_In _ _ _ G)) as (A1 & A2 & A3). cbn [sw] in *.
      destruct (P2 m bv Hms G A3) as (f0 & bts & k & Hin).
      destruct (P1 _ Hin) as (sn & f0q & bts' & k' & bv' & Eq & _ & G' & Hf0 & Eb & _).
      inversion Eq as [[Q1 Q2 Q3 Q4]]. rewrite <- Q1 in G'. rewrite G in G'. inversion G' as [Q5].
      rewrite <- Q5, <- Q2 in Hf0. rewrite <- Q3, <- Q5, <- Q2 in Eb. clear Q1 Q2 Q3 Q4 Q5 Eq G'.
      pose proof Hf0 as Hf0'. apply bidx_In in Hf0' as [R1 R2].
      exists f0. split; [lia|]. split.
      + unfold have. rewrite KN. cbn [r2 r_asm orb]. rewrite G. exact R2.
      + right. split; [|lia]. exists f0, bts, k. split; [exact Hin|].
        rewrite Eb. apply filter_In. split; [exact Hf0 | apply Z.leb_le; lia].
    - exists 1. split; [lia|]. split.
      + unfold have. rewrite KN. cbn [r2 r_asm orb]. rewrite G. reflexivity.
      + left. split; [|reflexivity]. apply filter_In. split; [exact Hms|].
        unfold fhas. rewrite G. reflexivity. }
  destruct Item as (f & Hf & Hnh & Req).
  destruct (pass2 depth w1 r2 extra nfs m bits
              (r_anc r1 + Z.of_nat (length (filter (fun sn => fhas sn (r_asm r1)) ms))) f D) as (w3 & E3 & I3 & N3 & Rp & ReqB & ReqA);
    [exact I2 | exact T | exact Kn | reflexivity | exact Hm |].
  unfold dgram in *. rewrite E2, E3. rewrite (flush_nil depth (mkS w3 r2 (@nil (list sub)))) by reflexivity.
  set (s3 := mkS w3 r2 (@nil (list sub))) in *.
  destruct (nw_props depth _ _ D N3 I2) as (_ & [(_ & _ & F33 & _) _] & L3 & _). cbn [sw] in F33, L3.
  assert (Hh3 : w_first w3 <= m) by (pose proof (i_first_base _ I3) as Q; cbn [sw sr r2 r_base] in Q; exact Q).
  (* the repair timers send the item *)
  assert (Sent : exists d, In d (net (repairs depth s3)) /\ carries m f d).
  { unfold repairs.
    destruct (repair_loop_props depth (S (length (p_unsent (sw s3)))) s3) as (Nr & Rr & _).
    set (s4 := repair_loop depth (S (length (p_unsent (sw s3)))) s3) in *.
    destruct (frags_loop_props depth (S (count_true (p_frq (sw s4)))) s4) as (_ & _ & [o2 Eo]).
    destruct Req as [[Hb ->]|[HA Hfr]].
    - destruct (repair_loop_sends depth m (S (length (p_unsent (sw s3)))) s3 D I3 Rp (ReqB Hb)) as [d [Hd C]]; [lia | exact Hh3|].
      exists d. split; [rewrite Eo; apply in_app_iff; left; exact Hd | exact C].
    - destruct (nw_props depth _ _ D Nr I3) as (I4 & _ & L4 & _).
      apply frags_loop_sends; [exact D | exact I4 | | lia | | lia].
      + apply frq_has_repair_loop; [apply ReqA; assumption|].
        unfold nfr. rewrite L3. exact Hfr.
      + unfold held. apply andb_true_iff. split; apply Z.leb_le.
        * pose proof (i_first_base _ I4) as Q. rewrite Rr in Q. unfold s3 in Q. cbn [sr r2 r_base] in Q. exact Q.
        * unfold w_last. rewrite L4, L3. exact Hm. }
  destruct Sent as [d [Hd C]].
  destruct (repairs_props depth s3) as (N5 & _).
  destruct (nw_props depth _ _ D N5 I3) as (I5 & _).
  pose proof (flush_carries depth _ d m f D I5 Hd C) as Hv.
  (* conclude *)
  rewrite E2, E3 in Nt, Lt, Mt. rewrite (flush_nil depth s3) in Nt, Lt, Mt by reflexivity.
  assert (lt (mu (flush depth (repairs depth s3))) (mu (flush depth s1))).
  { unfold mu. rewrite Lt, E2. cbn [sw sr]. apply mu_of_strict with (sn := m) (f := f).
    - intros a b Hab. apply Mt. cbn [sr]. exact Hab.
    - apply items_In. split; [split; [exact Hm1 | exact Hm] | exact Hf].
    - exact Hnh.
    - exact Hv. }
  lia.
Qed.
