From Coq Require Import List ZArith Bool Lia.
From RD Require Import Common.Corr C02.Model.
