(* C02 — the theorems behind Props.v *)
From Coq Require Import List ZArith Bool Lia.
From RD Require Import Common.Corr C02.Model C02.Basics C02.Inv C02.Mono C02.Net C02.Conv.
Import ListNotations.
Open Scope Z_scope.

Fixpoint iter_round (depth : Z) (k : nat) (s : sys) : sys :=
  match k with O => s | S k' => iter_round depth k' (round depth s) end.

(* states reachable by any finite faulty execution *)
Definition reachable (depth : Z) (s : sys) : Prop := exists ops, s = run_ops depth s_init ops.

Lemma reachable_Inv depth s : 0 <= depth -> reachable depth s -> Inv s.
Proof. intros D [ops ->]. apply Inv_run; [exact D | apply Inv_init]. Qed.

Lemma round_nw depth s : 0 <= depth -> Inv s -> nw_steps depth s (round depth s).
Proof.
  intros D I. unfold round.
  destruct (Inv_step depth s OHbTick D I) as [I1 _].
  eapply nw_cons with (o := OHbTick); [reflexivity|].
  pose proof (flush_nw depth _ D I1) as N1. destruct (nw_props depth _ _ D N1 I1) as (I2 & _).
  eapply nw_trans; [exact N1 | apply tail_nw; assumption].
Qed.
Lemma round_Inv depth s : 0 <= depth -> Inv s -> Inv (round depth s).
Proof. intros D I. destruct (nw_props depth _ _ D (round_nw depth s D I) I) as (H & _). exact H. Qed.
Lemma round_mu_le depth s : 0 <= depth -> Inv s -> (mu (round depth s) <= mu s)%nat.
Proof. intros D I. apply (nw_mu depth); [exact D | apply round_nw; assumption | exact I]. Qed.

Lemma iter_round_Inv depth k : forall s, 0 <= depth -> Inv s -> Inv (iter_round depth k s).
Proof. induction k as [|k IH]; intros s D I; cbn [iter_round]; [exact I | apply IH; [exact D | apply round_Inv; assumption]]. Qed.

Lemma converges_aux depth k : forall s, 0 <= depth -> Inv s -> (mu s <= k)%nat -> mu (iter_round depth k s) = O.
Proof.
  induction k as [|k IH]; intros s D I H; cbn [iter_round]; [lia|].
  apply IH; [exact D | apply round_Inv; assumption|].
  destruct (Nat.eq_dec (mu s) 0) as [Z|NZ].
  - pose proof (round_mu_le depth s D I). lia.
  - pose proof (round_decreases depth s D I ltac:(lia)). lia.
Qed.

Theorem converges depth s : 0 <= depth -> reachable depth s -> mu (iter_round depth (mu s) s) = O.
Proof. intros D R. apply converges_aux; [exact D | apply reachable_Inv with depth; assumption | lia]. Qed.

(* nothing missing = the reader holds all the writer still has and knows the rest *)
Lemma mu_zero_known s : Inv s -> mu s = O -> forall sn, 1 <= sn <= w_last (sw s) -> known (sr s) sn = true.
Proof.
  intros I Z sn Hsn. destruct (known (sr s) sn) eqn:K; [reflexivity|]. exfalso.
  unfold mu, mu_of in Z. apply length_zero_iff_nil in Z.
  assert (Lk : forall f, In (sn, f) (items_from 1 (w_log (sw s))) -> have (sr s) sn f = true).
  { intros f Hin. destruct (have (sr s) sn f) eqn:H; [reflexivity|]. exfalso.
    assert (In (sn, f) (lacking (w_log (sw s)) (sr s))) by (apply filter_In; split; [exact Hin | cbn [fst snd]; rewrite H; reflexivity]).
    rewrite Z in H0. destruct H0. }
  destruct (fget sn (r_asm (sr s))) as [bv|] eqn:G.
  - pose proof (i_asm _ I _ _ (fget_In _ _ _ G)) as (A1 & A2 & A3).
    apply ball_false_ex in A3 as [j [Hj Hb]].
    specialize (Lk (Z.of_nat j + 1)). unfold have in Lk. rewrite K, G in Lk. cbn [orb] in Lk.
    replace (Z.to_nat (Z.of_nat j + 1 - 1)) with j in Lk by lia. rewrite Hb in Lk.
    assert (true = false) by (symmetry; apply Lk; apply items_In; split; [exact Hsn | lia]). discriminate.
  - specialize (Lk 1). unfold have in Lk. rewrite K, G in Lk. cbn [orb] in Lk.
    assert (true = false) by (symmetry; apply Lk; apply items_In; split; [exact Hsn | lia]). discriminate.
Qed.

Theorem mu_zero_covered s : Inv s -> mu s = O -> covered s = true.
Proof.
  intros I Z. pose proof (mu_zero_known s I Z) as K. unfold covered. apply andb_true_iff. split.
  - apply forallb_forall. intros sn Hsn. apply zseq_In in Hsn. apply mem_In.
    pose proof (i_first _ I).
    destruct (i_got _ I sn ltac:(lia) (K sn ltac:(lia))) as [G|G]; [exact G | lia].
  - apply Z.ltb_lt. destruct (Z.lt_ge_cases (w_last (sw s)) (r_base (sr s))) as [L|G]; [exact L|]. exfalso.
    pose proof (i_base _ I). specialize (K (r_base (sr s)) ltac:(lia)). apply known_spec in K.
    destruct K as [K|K]; [lia | apply (i_known _ I) in K; lia].
Qed.

(* silence *)
Theorem quiet depth s : mu s = O -> acked s = true -> calm s = true -> round_sent depth s = (s, []).
Proof.
  intros _ A C. unfold acked in A. unfold calm in C.
  apply andb_true_iff in C as [C C3]. apply andb_true_iff in C as [C1 C2].
  apply negb_true_iff in C1, C2.
  assert (En : net s = []) by (destruct (net s); [reflexivity | discriminate]).
  assert (T : step depth s OHbTick = s).
  { cbn [step]. unfold lift_w, w_hbtick. rewrite A. cbn [fst snd]. rewrite app_nil_r. destruct s; reflexivity. }
  assert (Rp : repairs depth s = s).
  { unfold repairs. cbn [repair_loop]. rewrite C1. cbn [frags_loop]. rewrite C2. reflexivity. }
  unfold round_sent. rewrite T. rewrite !(flush_nil depth s En). rewrite Rp. rewrite !(flush_nil depth s En).
  unfold sent_by. rewrite En. reflexivity.
Qed.

(* the per-round oracle clauses that are proved for the model *)
Definition round_core (log : list Z) (d0 : digest) (e : list dgram * digest) : bool :=
  let d1 := snd e in
  (Nat.eqb (d_mu log d0) 0 || Nat.ltb (d_mu log d1) (d_mu log d0))
  && Nat.leb (d_mu log d1) (d_mu log d0)
  && (negb (Nat.eqb (d_mu log d1) 0) || d_covered d1)
  && (negb (Nat.eqb (d_mu log d0) 0 && d_acked d0 && d_calm d0) || isnil (fst e)).

Lemma d_reader_dig s : d_reader (dig s) = sr s.
Proof. destruct s as [w [a b c d e f] n]. reflexivity. Qed.
Lemma d_mu_dig s : d_mu (w_log (sw s)) (dig s) = mu s.
Proof. unfold d_mu, mu. rewrite d_reader_dig. reflexivity. Qed.
Lemma round_sent_fst depth s : fst (round_sent depth s) = round depth s.
Proof. reflexivity. Qed.

Theorem round_core_ok_inv depth s :
  0 <= depth -> Inv s ->
  round_core (w_log (sw s)) (dig s) (snd (round_sent depth s), dig (fst (round_sent depth s))) = true.
Proof.
  intros D I.
  rewrite round_sent_fst. unfold round_core. cbn [fst snd].
  pose proof (round_Inv depth s D I) as I'.
  destruct (nw_props depth _ _ D (round_nw depth s D I) I) as (_ & _ & L & _).
  assert (E1 : d_mu (w_log (sw s)) (dig (round depth s)) = mu (round depth s)) by (rewrite <- L; apply d_mu_dig).
  assert (E0 : d_mu (w_log (sw s)) (dig s) = mu s) by apply d_mu_dig.
  rewrite !E1, !E0.
  apply andb_true_iff. split; [apply andb_true_iff; split; [apply andb_true_iff; split|]|].
  - destruct (Nat.eq_dec (mu s) 0) as [Z|NZ]; [rewrite Z; reflexivity|].
    apply orb_true_iff. right. apply Nat.ltb_lt. apply round_decreases; [exact D | exact I | lia].
  - apply Nat.leb_le. apply round_mu_le; assumption.
  - destruct (Nat.eqb (mu (round depth s)) 0) eqn:E; [|reflexivity]. apply Nat.eqb_eq in E.
    cbn [negb orb]. exact (mu_zero_covered _ I' E).
  - destruct (Nat.eqb (mu s) 0 && d_acked (dig s) && d_calm (dig s)) eqn:E; [|reflexivity].
    apply andb_true_iff in E as [E E3]. apply andb_true_iff in E as [Ea E2]. apply Nat.eqb_eq in Ea.
    cbn [negb orb].
    assert (A : acked s = true) by exact E2.
    assert (C : calm s = true).
    { unfold calm. unfold d_calm, dig in E3. cbn [d_repair d_frq d_net] in E3.
      apply andb_true_iff in E3 as [E3 E4]. unfold frags_requested. rewrite E3. cbn [andb].
      apply Z.eqb_eq in E4. destruct (net s); [reflexivity | simpl in E4; lia]. }
    rewrite (quiet depth s Ea A C). reflexivity.
Qed.

Theorem round_core_ok depth s :
  0 <= depth -> reachable depth s ->
  round_core (w_log (sw s)) (dig s) (snd (round_sent depth s), dig (fst (round_sent depth s))) = true.
Proof. intros D R. apply round_core_ok_inv; [exact D | exact (reachable_Inv depth s D R)]. Qed.

Lemma round_ok_core log d0 e : round_ok log d0 e = true -> round_core log d0 e = true.
Proof.
  unfold round_ok, round_core. intro H.
  repeat (apply andb_true_iff in H as [H ?]).
  repeat (apply andb_true_iff; split); assumption.
Qed.

Theorem converges_covered depth s :
  0 <= depth -> reachable depth s -> covered (iter_round depth (mu s) s) = true.
Proof.
  intros D R. pose proof (reachable_Inv depth s D R) as I.
  apply mu_zero_covered; [apply iter_round_Inv; assumption | apply converges; assumption].
Qed.

Theorem round_ok_sound log d0 e :
  round_ok log d0 e = true ->
  (d_mu log d0 = O \/ (d_mu log (snd e) < d_mu log d0)%nat) /\
  (d_mu log d0 = O /\ d_acked d0 = true /\ d_calm d0 = true -> fst e = []) /\
  (d_mu log (snd e) = O -> d_covered (snd e) = true).
Proof.
  intro H. apply round_ok_core in H. unfold round_core in H.
  apply andb_true_iff in H as [H H4]. apply andb_true_iff in H as [H H3]. apply andb_true_iff in H as [H1 H2].
  split; [|split].
  - apply orb_true_iff in H1 as [H1|H1]; [left; apply Nat.eqb_eq; exact H1 | right; apply Nat.ltb_lt; exact H1].
  - intros (A & B & C). rewrite A, B, C in H4. cbn in H4. destruct (fst e); [reflexivity | discriminate].
  - intro Z. rewrite Z in H3. cbn in H3. exact H3.
Qed.

Theorem ok_sound c o :
  ok c o = true ->
  rounds_ok (writes_of (c_ops c)) (last_digest (o_steps o) d_init) (o_rounds o) = true
  /\ length (o_rounds o) = c_rounds c.
Proof.
  unfold ok. intro H. apply andb_true_iff in H as [H _]. apply andb_true_iff in H as [H1 H2].
  split; [exact H1 | apply Nat.eqb_eq; exact H2].
Qed.

(* non-vacuity and the F8 witness on the repaired code's model *)
Definition c_f8 : case :=
  mkCase 1 [OWrite 3; ODeliver 0; ODrop 0; ODeliver 0; ODeliver 0; ODeliver 0; ODeliver 0; ORepairTick;
            ODeliver 0; ODrop 0; ODeliver 0; ORepairTick; ORepairFragsTick; ODeliver 0; ODrop 0; ODeliver 0;
            OWrite 1; ODeliver 0] 4.
Lemma f8_witness_ok : ok c_f8 (run c_f8) = true.
Proof. vm_compute. reflexivity. Qed.
Lemma nonvacuous : exists s, reachable 1 s /\ mu s = 4%nat /\ mu (round 1 s) = 0%nat.
Proof.
  exists (run_ops 1 s_init [OWrite 3; ODrop 0; ODrop 0; ODrop 0; ODrop 0; OWrite 1; ODrop 0]).
  split; [eexists; reflexivity|]. split; vm_compute; reflexivity.
Qed.
